/-
Proofs/Iter2: every iterator against the reference deque over the FULL call alphabet.

1. a generic simulation: an iterator given by `next` (and `next_back`) whose `nth` / `nth_back` are the standard
   library defaults (`nthDefault`) and whose `len` is `size_hint().0`, related to the reference deque by any
   relation preserved by single steps, answers every call history as `dequeRunM` does;
2. instances: the sparse vector's `OneIter` / `Iter` (two-ended) and `ZeroIter` (forward), the run-length vector's
   `RunIter` / `OneIter` / `Iter` / `ZeroIter` (forward), the wavelet matrix's `ValueIter` / `IntoIter` (forward)
   and `iter()` (`AccessIter`, two-ended, with the fallible `get`).
-/
import Sds.Proofs.Iter
import Sds.Proofs.Sparse2
import Sds.Proofs.RLQueries
import Sds.Proofs.WM

namespace Sds.Iter2
open Sds Outcome IterProofs

/-! ## 1. the generic machine -/

section Generic
variable {σ α : Type}

/-- `Iterator::nth` / `DoubleEndedIterator::nth_back` as the standard library defines them when the iterator does
not override them (`advance_by(n)` = call `next()` `n` times, giving up with `None` at the first `None`; then one
more `next()`), over a fallible step function -/
def nthDefault (next : σ → Outcome (Option α × σ)) : Nat → σ → Outcome (Option α × σ)
  | 0, it => next it
  | k + 1, it => do
    let r ← next it
    match r.1 with
    | none => return (none, r.2)
    | some _ => nthDefault next k r.2

/-- one call of a double-ended `ExactSizeIterator` whose `nth` / `nth_back` are the defaults and whose `len()` is
`len` (`ExactSizeIterator::len` = `size_hint().0`) -/
def genStep (next nextBack : σ → Outcome (Option α × σ)) (len : σ → Outcome Nat) (it : σ) :
    ICall → Outcome (IOut α × σ)
  | .next => do let r ← next it; return (optOut r.1, r.2)
  | .nextBack => do let r ← nextBack it; return (optOut r.1, r.2)
  | .nth k => do let r ← nthDefault next k it; return (optOut r.1, r.2)
  | .nthBack k => do let r ← nthDefault nextBack k it; return (optOut r.1, r.2)
  | .len => do let n ← len it; return (.len n, it)

/-- a call history; a fault anywhere makes the whole run a fault -/
def genRun (next nextBack : σ → Outcome (Option α × σ)) (len : σ → Outcome Nat) :
    σ → List ICall → Outcome (List (IOut α))
  | _, [] => ok []
  | it, c :: cs => do
    let r ← genStep next nextBack len it c
    let os ← genRun next nextBack len r.2 cs
    return r.1 :: os

/-- the call alphabet of a forward-only `ExactSizeIterator` -/
inductive FCall | next | nth (k : Nat) | len
  deriving DecidableEq, Repr

def FCall.toICall : FCall → ICall
  | .next => .next
  | .nth k => .nth k
  | .len => .len

def fwdStep (next : σ → Outcome (Option α × σ)) (len : σ → Outcome Nat) (it : σ) : FCall → Outcome (IOut α × σ)
  | .next => do let r ← next it; return (optOut r.1, r.2)
  | .nth k => do let r ← nthDefault next k it; return (optOut r.1, r.2)
  | .len => do let n ← len it; return (.len n, it)

def fwdRun (next : σ → Outcome (Option α × σ)) (len : σ → Outcome Nat) : σ → List FCall → Outcome (List (IOut α))
  | _, [] => ok []
  | it, c :: cs => do
    let r ← fwdStep next len it c
    let os ← fwdRun next len r.2 cs
    return r.1 :: os

/-- the call alphabet of a forward-only iterator that is not an `ExactSizeIterator` -/
inductive NCall | next | nth (k : Nat)
  deriving DecidableEq, Repr

def NCall.toICall : NCall → ICall
  | .next => .next
  | .nth k => .nth k

def nStep (next : σ → Outcome (Option α × σ)) (it : σ) : NCall → Outcome (IOut α × σ)
  | .next => do let r ← next it; return (optOut r.1, r.2)
  | .nth k => do let r ← nthDefault next k it; return (optOut r.1, r.2)

def nRun (next : σ → Outcome (Option α × σ)) : σ → List NCall → Outcome (List (IOut α))
  | _, [] => ok []
  | it, c :: cs => do
    let r ← nStep next it c
    let os ← nRun next r.2 cs
    return r.1 :: os

/-! ### the reference deque, call by call -/

theorem deque_next_nil : dequeStep ([] : List α) .next = (.none, []) := rfl
theorem deque_next_cons (x : α) (d : List α) : dequeStep (x :: d) .next = (.item x, d) := rfl

theorem deque_nth_zero (d : List α) : dequeStep d (.nth 0) = dequeStep d .next := by
  cases d <;> rfl

theorem deque_nth_nil (k : Nat) : dequeStep ([] : List α) (.nth k) = (.none, []) := by
  simp [dequeStep]

theorem deque_nth_succ_cons (x : α) (d : List α) (k : Nat) :
    dequeStep (x :: d) (.nth (k + 1)) = dequeStep d (.nth k) := by
  simp [dequeStep]

theorem deque_nextBack_nil : dequeStep ([] : List α) .nextBack = (.none, []) := rfl

theorem deque_nextBack_snoc (d : List α) (x : α) : dequeStep (d ++ [x]) .nextBack = (.item x, d) := by
  simp [dequeStep]

theorem deque_nthBack_zero (d : List α) : dequeStep d (.nthBack 0) = dequeStep d .nextBack := by
  simp [dequeStep]

theorem deque_nthBack_nil (k : Nat) : dequeStep ([] : List α) (.nthBack k) = (.none, []) := by
  simp [dequeStep]

theorem deque_nthBack_succ_snoc (d : List α) (x : α) (k : Nat) :
    dequeStep (d ++ [x]) (.nthBack (k + 1)) = dequeStep d (.nthBack k) := by
  simp only [dequeStep, List.length_append, List.length_cons, List.length_nil]
  have e : d.length + (0 + 1) - (k + 1) = d.length - k := by omega
  rw [e, List.take_append_of_le_length (Nat.sub_le _ _)]

/-! ### single-step simulation hypotheses -/

/-- `next` against the front of the deque: same answer, no fault, relation kept -/
structure FwdSim (next : σ → Outcome (Option α × σ)) (Rel : σ → List α → Prop) : Prop where
  nil : ∀ it, Rel it [] → ∃ it', next it = ok (none, it') ∧ Rel it' []
  cons : ∀ it x d, Rel it (x :: d) → ∃ it', next it = ok (some x, it') ∧ Rel it' d

/-- `next_back` against the back of the deque -/
structure BwdSim (nextBack : σ → Outcome (Option α × σ)) (Rel : σ → List α → Prop) : Prop where
  nil : ∀ it, Rel it [] → ∃ it', nextBack it = ok (none, it') ∧ Rel it' []
  snoc : ∀ it d x, Rel it (d ++ [x]) → ∃ it', nextBack it = ok (some x, it') ∧ Rel it' d

/-- `len()` is exact -/
def LenSim (len : σ → Outcome Nat) (Rel : σ → List α → Prop) : Prop := ∀ it d, Rel it d → len it = ok d.length

theorem next_sim {next : σ → Outcome (Option α × σ)} {Rel : σ → List α → Prop} (F : FwdSim next Rel)
    {it : σ} {d : List α} (h : Rel it d) :
    ∃ o it', next it = ok (o, it') ∧ optOut o = (dequeStep d .next).1 ∧ Rel it' (dequeStep d .next).2 := by
  cases d with
  | nil => obtain ⟨it', h1, h2⟩ := F.nil it h; exact ⟨none, it', h1, rfl, h2⟩
  | cons x d => obtain ⟨it', h1, h2⟩ := F.cons it x d h; exact ⟨some x, it', h1, rfl, h2⟩

theorem nextBack_sim {nextBack : σ → Outcome (Option α × σ)} {Rel : σ → List α → Prop} (B : BwdSim nextBack Rel)
    {it : σ} {d : List α} (h : Rel it d) :
    ∃ o it', nextBack it = ok (o, it') ∧ optOut o = (dequeStep d .nextBack).1 ∧
      Rel it' (dequeStep d .nextBack).2 := by
  rcases List.eq_nil_or_concat d with rfl | ⟨d', x, rfl⟩
  · obtain ⟨it', h1, h2⟩ := B.nil it h; exact ⟨none, it', h1, rfl, h2⟩
  · rw [List.concat_eq_append] at h ⊢
    obtain ⟨it', h1, h2⟩ := B.snoc it d' x h
    rw [deque_nextBack_snoc]
    exact ⟨some x, it', h1, rfl, h2⟩

/-- **the default `nth(k)`** over a simulated `next` answers as the deque's `nth k`, for every `k` -/
theorem nthDefault_sim {next : σ → Outcome (Option α × σ)} {Rel : σ → List α → Prop} (F : FwdSim next Rel) :
    ∀ (k : Nat) {it : σ} {d : List α}, Rel it d →
    ∃ o it', nthDefault next k it = ok (o, it') ∧ optOut o = (dequeStep d (.nth k)).1 ∧
      Rel it' (dequeStep d (.nth k)).2 := by
  intro k
  induction k with
  | zero =>
    intro it d h
    rw [deque_nth_zero]
    exact next_sim F h
  | succ k ih =>
    intro it d h
    cases d with
    | nil =>
      obtain ⟨it', h1, h2⟩ := F.nil it h
      refine ⟨none, it', ?_, ?_, ?_⟩
      · rw [nthDefault, h1]; rfl
      · rw [deque_nth_nil]; rfl
      · rw [deque_nth_nil]; exact h2
    | cons x d =>
      obtain ⟨it', h1, h2⟩ := F.cons it x d h
      obtain ⟨o, it'', g1, g2, g3⟩ := ih h2
      refine ⟨o, it'', ?_, ?_, ?_⟩
      · rw [nthDefault, h1]; exact g1
      · rw [deque_nth_succ_cons]; exact g2
      · rw [deque_nth_succ_cons]; exact g3

/-- **the default `nth_back(k)`** over a simulated `next_back` answers as the deque's `nth_back k` -/
theorem nthBackDefault_sim {nextBack : σ → Outcome (Option α × σ)} {Rel : σ → List α → Prop}
    (B : BwdSim nextBack Rel) :
    ∀ (k : Nat) {it : σ} {d : List α}, Rel it d →
    ∃ o it', nthDefault nextBack k it = ok (o, it') ∧ optOut o = (dequeStep d (.nthBack k)).1 ∧
      Rel it' (dequeStep d (.nthBack k)).2 := by
  intro k
  induction k with
  | zero =>
    intro it d h
    rw [deque_nthBack_zero]
    exact nextBack_sim B h
  | succ k ih =>
    intro it d h
    rcases List.eq_nil_or_concat d with rfl | ⟨d', x, rfl⟩
    · obtain ⟨it', h1, h2⟩ := B.nil it h
      refine ⟨none, it', ?_, ?_, ?_⟩
      · rw [nthDefault, h1]; rfl
      · rw [deque_nthBack_nil]; rfl
      · rw [deque_nthBack_nil]; exact h2
    · rw [List.concat_eq_append] at h ⊢
      obtain ⟨it', h1, h2⟩ := B.snoc it d' x h
      obtain ⟨o, it'', g1, g2, g3⟩ := ih h2
      refine ⟨o, it'', ?_, ?_, ?_⟩
      · rw [nthDefault, h1]; exact g1
      · rw [deque_nthBack_succ_snoc]; exact g2
      · rw [deque_nthBack_succ_snoc]; exact g3

/-- one call of the two-ended machine against the deque -/
theorem genStep_sim {next nextBack : σ → Outcome (Option α × σ)} {len : σ → Outcome Nat}
    {Rel : σ → List α → Prop} (F : FwdSim next Rel) (B : BwdSim nextBack Rel) (L : LenSim len Rel)
    {it : σ} {d : List α} (h : Rel it d) (c : ICall) :
    ∃ it', genStep next nextBack len it c = ok ((dequeStep d c).1, it') ∧ Rel it' (dequeStep d c).2 := by
  cases c with
  | next =>
    obtain ⟨o, it', h1, h2, h3⟩ := next_sim F h
    exact ⟨it', by simp only [genStep, h1, bind_ok, pure_eq, h2], h3⟩
  | nextBack =>
    obtain ⟨o, it', h1, h2, h3⟩ := nextBack_sim B h
    exact ⟨it', by simp only [genStep, h1, bind_ok, pure_eq, h2], h3⟩
  | nth k =>
    obtain ⟨o, it', h1, h2, h3⟩ := nthDefault_sim F k h
    exact ⟨it', by simp only [genStep, h1, bind_ok, pure_eq, h2], h3⟩
  | nthBack k =>
    obtain ⟨o, it', h1, h2, h3⟩ := nthBackDefault_sim B k h
    exact ⟨it', by simp only [genStep, h1, bind_ok, pure_eq, h2], h3⟩
  | len =>
    exact ⟨it, by simp only [genStep, L it d h, bind_ok, pure_eq, dequeStep], h⟩

/-- **two-ended iterators, every call history** -/
theorem genRun_sim {next nextBack : σ → Outcome (Option α × σ)} {len : σ → Outcome Nat}
    {Rel : σ → List α → Prop} (F : FwdSim next Rel) (B : BwdSim nextBack Rel) (L : LenSim len Rel)
    (calls : List ICall) : ∀ {it : σ} {d : List α}, Rel it d →
      genRun next nextBack len it calls = ok (dequeRunM d calls) := by
  induction calls with
  | nil => intro it d _; rfl
  | cons c cs ih =>
    intro it d h
    obtain ⟨it', h1, h2⟩ := genStep_sim F B L h c
    unfold genRun dequeRunM
    rw [h1]
    simp only [bind_ok]
    rw [ih h2]
    rfl

theorem fwdStep_sim {next : σ → Outcome (Option α × σ)} {len : σ → Outcome Nat}
    {Rel : σ → List α → Prop} (F : FwdSim next Rel) (L : LenSim len Rel)
    {it : σ} {d : List α} (h : Rel it d) (c : FCall) :
    ∃ it', fwdStep next len it c = ok ((dequeStep d c.toICall).1, it') ∧ Rel it' (dequeStep d c.toICall).2 := by
  cases c with
  | next =>
    obtain ⟨o, it', h1, h2, h3⟩ := next_sim F h
    exact ⟨it', by simp only [fwdStep, h1, bind_ok, pure_eq, h2, FCall.toICall], h3⟩
  | nth k =>
    obtain ⟨o, it', h1, h2, h3⟩ := nthDefault_sim F k h
    exact ⟨it', by simp only [fwdStep, h1, bind_ok, pure_eq, h2, FCall.toICall], h3⟩
  | len =>
    exact ⟨it, by simp only [fwdStep, L it d h, bind_ok, pure_eq, dequeStep, FCall.toICall], h⟩

/-- **forward-only exact-size iterators, every call history** -/
theorem fwdRun_sim {next : σ → Outcome (Option α × σ)} {len : σ → Outcome Nat}
    {Rel : σ → List α → Prop} (F : FwdSim next Rel) (L : LenSim len Rel)
    (calls : List FCall) : ∀ {it : σ} {d : List α}, Rel it d →
      fwdRun next len it calls = ok (dequeRunM d (calls.map FCall.toICall)) := by
  induction calls with
  | nil => intro it d _; rfl
  | cons c cs ih =>
    intro it d h
    obtain ⟨it', h1, h2⟩ := fwdStep_sim F L h c
    unfold fwdRun
    rw [List.map_cons]
    unfold dequeRunM
    rw [h1]
    simp only [bind_ok]
    rw [ih h2]
    rfl

theorem nStep_sim {next : σ → Outcome (Option α × σ)} {Rel : σ → List α → Prop} (F : FwdSim next Rel)
    {it : σ} {d : List α} (h : Rel it d) (c : NCall) :
    ∃ it', nStep next it c = ok ((dequeStep d c.toICall).1, it') ∧ Rel it' (dequeStep d c.toICall).2 := by
  cases c with
  | next =>
    obtain ⟨o, it', h1, h2, h3⟩ := next_sim F h
    exact ⟨it', by simp only [nStep, h1, bind_ok, pure_eq, h2, NCall.toICall], h3⟩
  | nth k =>
    obtain ⟨o, it', h1, h2, h3⟩ := nthDefault_sim F k h
    exact ⟨it', by simp only [nStep, h1, bind_ok, pure_eq, h2, NCall.toICall], h3⟩

/-- **forward-only iterators without `len`, every call history** -/
theorem nRun_sim {next : σ → Outcome (Option α × σ)} {Rel : σ → List α → Prop} (F : FwdSim next Rel)
    (calls : List NCall) : ∀ {it : σ} {d : List α}, Rel it d →
      nRun next it calls = ok (dequeRunM d (calls.map NCall.toICall)) := by
  induction calls with
  | nil => intro it d _; rfl
  | cons c cs ih =>
    intro it d h
    obtain ⟨it', h1, h2⟩ := nStep_sim F h c
    unfold nRun
    rw [List.map_cons]
    unfold dequeRunM
    rw [h1]
    simp only [bind_ok]
    rw [ih h2]
    rfl

/-! ### a relation read off a drain theorem

`drainG next F st = ok d`: calling `next` until the first `None` delivers exactly `d`.  Together with a state
predicate `Q st n` (`n` = number of items left) that single steps preserve and that makes the exhausted iterator
keep answering `None` (`FusedIterator`), this is a simulation relation. -/

def drainG (next : σ → Outcome (Option α × σ)) : Nat → σ → Outcome (List α)
  | 0, _ => fault .fuel
  | f + 1, st => do
    let r ← next st
    match r.1 with
    | none => return []
    | some x => do
      let xs ← drainG next f r.2
      return x :: xs

theorem drainG_nil_inv {next : σ → Outcome (Option α × σ)} {F : Nat} {st : σ}
    (h : drainG next F st = ok []) : ∃ st', next st = ok (none, st') := by
  cases F with
  | zero => cases h
  | succ f =>
    rw [drainG] at h
    obtain ⟨⟨o, st'⟩, h1, h2⟩ := Outcome.bind_eq_ok h
    cases o with
    | none => exact ⟨st', h1⟩
    | some x =>
      simp only [] at h2
      obtain ⟨xs, _, h4⟩ := Outcome.bind_eq_ok h2
      simp only [pure_eq] at h4
      injection h4 with h4; cases h4

theorem drainG_cons_inv {next : σ → Outcome (Option α × σ)} {F : Nat} {st : σ} {x : α} {d : List α}
    (h : drainG next F st = ok (x :: d)) : ∃ f st', next st = ok (some x, st') ∧ drainG next f st' = ok d := by
  cases F with
  | zero => cases h
  | succ f =>
    rw [drainG] at h
    obtain ⟨⟨o, st'⟩, h1, h2⟩ := Outcome.bind_eq_ok h
    cases o with
    | none => simp only [pure_eq] at h2; injection h2 with h2; cases h2
    | some y =>
      simp only [] at h2
      obtain ⟨xs, h3, h4⟩ := Outcome.bind_eq_ok h2
      simp only [pure_eq] at h4
      injection h4 with h4; injection h4 with h5 h6
      subst h5 h6
      exact ⟨f, st', h1, h3⟩

def DrainRel (next : σ → Outcome (Option α × σ)) (Q : σ → Nat → Prop) (st : σ) (d : List α) : Prop :=
  Q st d.length ∧ ∃ F, drainG next F st = ok d

theorem drainRel_fwdSim (next : σ → Outcome (Option α × σ)) (Q : σ → Nat → Prop)
    (hsome : ∀ st n x st', Q st (n + 1) → next st = ok (some x, st') → Q st' n)
    (hnone : ∀ st st', Q st 0 → next st = ok (none, st') → Q st' 0 ∧ ∃ st'', next st' = ok (none, st'')) :
    FwdSim next (DrainRel next Q) := by
  constructor
  · intro it ⟨hq, F, hd⟩
    obtain ⟨st', h1⟩ := drainG_nil_inv hd
    obtain ⟨q', st'', h2⟩ := hnone it st' hq h1
    refine ⟨st', h1, q', 1, ?_⟩
    rw [drainG, h2]; rfl
  · intro it x d ⟨hq, F, hd⟩
    obtain ⟨f, st', h1, h2⟩ := drainG_cons_inv hd
    exact ⟨st', h1, hsome it d.length x st' hq h1, f, h2⟩

end Generic

/-! ## 2. the sparse (Elias–Fano) vector -/

namespace Sp
open Sparse2

/-- `OneIter::size_hint().0` (`sparse_vector.rs:850-853`): `self.limit.low - self.next.low` (a `usize`
subtraction; the model's `SpOneIter.remaining` is the same expression over `Nat`) -/
def oneLen (m : Mode) (it : SpOneIter) : Outcome Nat := subM m it.limit.low it.next.low

/-- `Iter::size_hint().0` (`sparse_vector.rs:638-641`): `self.limit - self.next` -/
def bitLen (m : Mode) (it : SpIter) : Outcome Nat := subM m it.limit it.next

/-- `ZeroIter::size_hint().0` (`sparse_vector.rs:958-961`): `self.limit.0 - self.next.0` -/
def zeroLen (m : Mode) (z : SpZeroIter) : Outcome Nat := subM m z.limit.1 z.next.1

variable {s : Sparse} {n w : Nat} {P : List Nat}

/-- the state stands for the pairs `(i, P[i])`, `r ≤ i < R` -/
def OneRel (s : Sparse) (w : Nat) (P : List Nat) (it : SpOneIter) (d : List (Nat × Nat)) : Prop :=
  ∃ r R, IterBetween s w P r R it ∧ d = itemsBetween P r R

theorem itemsBetween_lt_of_cons {P : List Nat} {r R : Nat} {x : Nat × Nat} {d : List (Nat × Nat)}
    (h : x :: d = itemsBetween P r R) : r < R := by
  have := congrArg List.length h
  rw [itemsBetween_length] at this
  simp at this; omega

theorem one_fwdSim (hs : s.Encodes n w P) (m : Mode) :
    FwdSim (SpOneIter.nextQ m s) (OneRel s w P) := by
  constructor
  · intro it ⟨r, R, hit, hd⟩
    have hl := congrArg List.length hd
    rw [itemsBetween_length] at hl
    simp only [List.length_nil] at hl
    exact ⟨it, nextQ_between_none m r R it hit (by omega), r, R, hit, hd⟩
  · intro it x d ⟨r, R, hit, hd⟩
    have hr := itemsBetween_lt_of_cons hd
    obtain ⟨h1, h2⟩ := nextQ_between hs m r R it hit hr
    rw [itemsBetween_cons P r R hr hit.R_le] at hd
    injection hd with hx hd
    subst hx
    exact ⟨_, h1, r + 1, R, h2, hd⟩

theorem one_bwdSim (hs : s.Encodes n w P) (m : Mode) :
    BwdSim (SpOneIter.nextBackQ m s) (OneRel s w P) := by
  constructor
  · intro it ⟨r, R, hit, hd⟩
    have hl := congrArg List.length hd
    rw [itemsBetween_length] at hl
    simp only [List.length_nil] at hl
    exact ⟨it, nextBackQ_between_none m r R it hit (by omega), r, R, hit, hd⟩
  · intro it d x ⟨r, R, hit, hd⟩
    have hr : r < R := by
      have := congrArg List.length hd
      rw [itemsBetween_length] at this
      simp at this; omega
    obtain ⟨h1, h2⟩ := nextBackQ_between hs m r R it hit hr
    rw [itemsBetween_snoc P r R hr hit.R_le] at hd
    obtain ⟨hd1, hd2⟩ := List.append_inj' hd rfl
    injection hd2 with hx _
    subst hx
    exact ⟨_, h1, r, R - 1, h2, hd1⟩

theorem one_lenSim (m : Mode) : LenSim (oneLen m) (OneRel s w P) := by
  intro it d ⟨r, R, hit, hd⟩
  unfold oneLen
  rw [hit.lim_low, hit.low_eq, subM_ok hit.r_le, hd, itemsBetween_length]

/-- the transcribed `len()` is the model's `remaining` on every state that stands for a segment -/
theorem oneLen_eq_remaining (m : Mode) {it : SpOneIter} {d : List (Nat × Nat)} (h : OneRel s w P it d) :
    oneLen m it = ok it.remaining := by
  obtain ⟨r, R, hit, _⟩ := h
  unfold oneLen SpOneIter.remaining
  rw [hit.lim_low, hit.low_eq, subM_ok hit.r_le]

theorem itemsBetween_eq_seg (P : List Nat) (r R : Nat) (hR : R ≤ P.length) :
    itemsBetween P r R = seg (pairs P) r R := by
  apply List.ext_getElem?
  intro i
  rw [seg_getElem?]
  unfold itemsBetween pairs
  by_cases h : r + i < R
  · rw [if_pos h]
    simp only [List.getElem?_map]
    rw [List.getElem?_range (by omega), List.getElem?_range (by omega)]
    rfl
  · rw [if_neg h]
    simp only [List.getElem?_map]
    rw [List.getElem?_eq_none (by simp; omega)]
    rfl

/-- the sparse `OneIter` run machine: `next`, `next_back` of Model/Sparse.lean, default `nth` / `nth_back`,
`len` = `size_hint().0` -/
def oneRun (m : Mode) (s : Sparse) : SpOneIter → List ICall → Outcome (List (IOut (Nat × Nat))) :=
  genRun (SpOneIter.nextQ m s) (SpOneIter.nextBackQ m s) (oneLen m)

/-- **sparse `OneIter`, any state, every call history over the full alphabet** -/
theorem oneRun_between (hs : s.Encodes n w P) (m : Mode) (calls : List ICall) {it : SpOneIter} {r R : Nat}
    (hit : IterBetween s w P r R it) :
    oneRun m s it calls = ok (dequeRunM (seg (pairs P) r R) calls) := by
  rw [← itemsBetween_eq_seg P r R hit.R_le]
  exact genRun_sim (one_fwdSim hs m) (one_bwdSim hs m) (one_lenSim m) calls ⟨r, R, hit, rfl⟩

theorem seg_full {α} (xs : List α) (r : Nat) : seg xs r xs.length = xs.drop r := by
  unfold seg; rw [List.take_length]

/-- **`one_iter()`**: the pairs `(i, P[i])` -/
theorem oneRun_full (hs : s.Encodes n w P) (m : Mode) (calls : List ICall) :
    oneRun m s (SpOneIter.full s) calls = ok (dequeRunM (pairs P) calls) := by
  rw [oneRun_between hs m calls (full_between hs)]
  have := seg_full (pairs P) 0
  rw [pairs_length] at this
  rw [this, List.drop_zero]

/-- an iterator at rank `r` (what `select_iter`, `predecessor`, `successor` return) continues with ranks
`r, r+1, …` to the end -/
theorem oneRun_iterAt (hs : s.Encodes n w P) (m : Mode) (calls : List ICall) (r : Nat) :
    oneRun m s (s.iterAt w P r) calls = ok (dequeRunM ((pairs P).drop r) calls) := by
  rw [oneRun_between hs m calls (between_of_IterAt hs (iterAt_IterAt hs r))]
  have := seg_full (pairs P) (min r P.length)
  rw [pairs_length] at this
  rw [this]
  by_cases h : r ≤ P.length
  · rw [Nat.min_eq_left h]
  · rw [Nat.min_eq_right (by omega), List.drop_eq_nil_of_le (by rw [pairs_length]; exact Nat.le_refl _),
      List.drop_eq_nil_of_le (by rw [pairs_length]; omega)]

theorem oneRun_empty (hs : s.Encodes n w P) (m : Mode) (calls : List ICall) :
    oneRun m s (SpOneIter.emptyIter s) calls = ok (dequeRunM [] calls) := by
  rw [oneRun_between hs m calls (between_of_IterAt hs (empty_IterAt hs))]
  rw [seg_nil _ _ _ (Nat.le_refl _)]

/-! ### `Iter` (all bits) -/

def BitRel (s : Sparse) (w : Nat) (P : List Nat) (n : Nat) (it : SpIter) (d : List Bool) : Prop :=
  ∃ a b r R, SInv s w P n a b r R it ∧ d = bitsBetween P a b

theorem bitsBetween_length (P : List Nat) (a b : Nat) : (bitsBetween P a b).length = b - a := by
  simp [bitsBetween]

theorem bit_fwdSim (hs : s.Encodes n w P) (m : Mode) :
    FwdSim (SpIter.nextQ m s) (BitRel s w P n) := by
  constructor
  · intro it ⟨a, b, r, R, hI, hd⟩
    have hl := congrArg List.length hd
    rw [bitsBetween_length] at hl
    simp only [List.length_nil] at hl
    have e : a = b := by have := hI.a_le; omega
    subst e
    exact ⟨it, sp_nextQ_none m hI, a, a, r, R, hI, hd⟩
  · intro it x d ⟨a, b, r, R, hI, hd⟩
    have hab : a < b := by
      have := congrArg List.length hd
      rw [bitsBetween_length] at this
      simp at this; omega
    obtain ⟨it', r', h1, h2⟩ := sp_nextQ_ok hs m hI hab
    rw [bitsBetween_cons P a b hab] at hd
    injection hd with hx hd
    subst hx
    exact ⟨it', h1, a + 1, b, r', R, h2, hd⟩

theorem bit_bwdSim (hs : s.Encodes n w P) (m : Mode) :
    BwdSim (SpIter.nextBackQ m s) (BitRel s w P n) := by
  constructor
  · intro it ⟨a, b, r, R, hI, hd⟩
    have hl := congrArg List.length hd
    rw [bitsBetween_length] at hl
    simp only [List.length_nil] at hl
    have e : a = b := by have := hI.a_le; omega
    subst e
    exact ⟨it, sp_nextBackQ_none m hI, a, a, r, R, hI, hd⟩
  · intro it d x ⟨a, b, r, R, hI, hd⟩
    have hab : a < b := by
      have := congrArg List.length hd
      rw [bitsBetween_length] at this
      simp at this; omega
    obtain ⟨it', R', h1, h2⟩ := sp_nextBackQ_ok hs m hI hab
    rw [bitsBetween_snoc P a b hab] at hd
    obtain ⟨hd1, hd2⟩ := List.append_inj' hd rfl
    injection hd2 with hx _
    subst hx
    exact ⟨it', h1, a, b - 1, r, R', h2, hd1⟩

theorem bit_lenSim (m : Mode) : LenSim (bitLen m) (BitRel s w P n) := by
  intro it d ⟨a, b, r, R, hI, hd⟩
  unfold bitLen
  rw [hI.limit_eq, hI.next_eq, subM_ok hI.a_le, hd, bitsBetween_length]

theorem bitLen_eq_remaining (m : Mode) {it : SpIter} {d : List Bool} (h : BitRel s w P n it d) :
    bitLen m it = ok it.remaining := by
  obtain ⟨a, b, r, R, hI, _⟩ := h
  unfold bitLen SpIter.remaining
  rw [hI.limit_eq, hI.next_eq, subM_ok hI.a_le]

def bitRun (m : Mode) (s : Sparse) : SpIter → List ICall → Outcome (List (IOut Bool)) :=
  genRun (SpIter.nextQ m s) (SpIter.nextBackQ m s) (bitLen m)

/-- **sparse `iter()`, every call history over the full alphabet** (sets and multisets): the bit sequence -/
theorem bitRun_full (hs : s.Encodes n w P) (m : Mode) (calls : List ICall) :
    ∃ it, s.iter m = ok it ∧ bitRun m s it calls = ok (dequeRunM (bitsOfSet P n) calls) := by
  obtain ⟨it, r, R, h1, h2⟩ := sp_iter_ok hs m
  refine ⟨it, h1, ?_⟩
  rw [← bitsBetween_full]
  exact genRun_sim (bit_fwdSim hs m) (bit_bwdSim hs m) (bit_lenSim m) calls ⟨0, n, r, R, h2, rfl⟩

/-! ### `ZeroIter` (forward only, set mode) -/

def ZeroRel (s : Sparse) (w : Nat) (P : List Nat) (n : Nat) (z : SpZeroIter) (d : List (Nat × Nat)) : Prop :=
  ∃ q k, ZInv s w P n q k z ∧ d = zerosFrom P n q

theorem zerosFrom_length (P : List Nat) (n q : Nat) : (zerosFrom P n q).length = n - P.length - q := by
  simp [zerosFrom]

theorem zero_fwdSim (hs : s.Encodes n w P) (hstrict : sortedStrict P = true) (m : Mode) :
    FwdSim (SpZeroIter.nextQ m s) (ZeroRel s w P n) := by
  constructor
  · intro z ⟨q, k, hz, hd⟩
    have hl := congrArg List.length hd
    rw [zerosFrom_length] at hl
    simp only [List.length_nil] at hl
    have e : q = n - P.length := by have := hz.q_le; omega
    subst e
    exact ⟨z, zero_nextQ_none m k z hz, _, k, hz, hd⟩
  · intro z x d ⟨q, k, hz, hd⟩
    have hq : q < n - P.length := by
      have := congrArg List.length hd
      rw [zerosFrom_length] at this
      simp at this; omega
    obtain ⟨c, k', z', h1, h2, h3, h4, h5, _⟩ := zero_nextQ_ok hs hstrict m q k z hz hq
    rw [zerosFrom_cons P n q hq] at hd
    injection hd with hx hd
    have hsel := selectZeroSet_some hstrict n c h3 h4
    rw [h5] at hsel
    rw [hsel] at hx
    subst hx
    exact ⟨z', h1, q + 1, k', h2, hd⟩

theorem zero_lenSim (m : Mode) : LenSim (zeroLen m) (ZeroRel s w P n) := by
  intro z d ⟨q, k, hz, hd⟩
  unfold zeroLen
  rw [hz.limit_eq, hz.next_eq, subM_ok hz.q_le, hd, zerosFrom_length]

theorem zeroLen_eq_remaining (m : Mode) {z : SpZeroIter} {d : List (Nat × Nat)} (h : ZeroRel s w P n z d) :
    zeroLen m z = ok z.remaining := by
  obtain ⟨q, k, hz, _⟩ := h
  unfold zeroLen SpZeroIter.remaining
  rw [hz.limit_eq, hz.next_eq, subM_ok hz.q_le]

def zeroRun (m : Mode) (s : Sparse) : SpZeroIter → List FCall → Outcome (List (IOut (Nat × Nat))) :=
  fwdRun (SpZeroIter.nextQ m s) (zeroLen m)

/-- the reference sequence of the sparse `zero_iter()`: the zeros of `0..n` with ranks -/
def zeroPairs (P : List Nat) (n : Nat) : List (Nat × Nat) :=
  (List.range (n - P.length)).map fun i => (i, (selectZeroSet P n i).getD 0)

theorem zerosFrom_zero (P : List Nat) (n : Nat) : zerosFrom P n 0 = zeroPairs P n := by
  simp [zerosFrom, zeroPairs]

/-- **sparse `zero_iter()` (set mode), every forward call history** (`next` / `nth k` / `len`) -/
theorem zeroRun_full (hs : s.Encodes n w P) (hstrict : sortedStrict P = true) (m : Mode) (calls : List FCall) :
    ∃ z, s.zeroIter m = ok z ∧
      zeroRun m s z calls = ok (dequeRunM (zeroPairs P n) (calls.map FCall.toICall)) := by
  obtain ⟨z, h1, h2⟩ := zeroIter_ok hs hstrict m
  refine ⟨z, h1, ?_⟩
  rw [← zerosFrom_zero]
  exact fwdRun_sim (zero_fwdSim hs hstrict m) (zero_lenSim m) calls ⟨0, 0, h2, rfl⟩

/-! ### `select_zero_iter(rank)` (set mode) -/

/-- an exhausted zero iterator (`ZeroIter::empty_iter`): `next.0 = limit.0` -/
def ZeroDone (z : SpZeroIter) (d : List (Nat × Nat)) : Prop := z.next.1 = z.limit.1 ∧ d = []

theorem zeroDone_fwdSim (m : Mode) (s : Sparse) : FwdSim (SpZeroIter.nextQ m s) ZeroDone := by
  constructor
  · intro z ⟨h, hd⟩
    refine ⟨z, ?_, h, hd⟩
    unfold SpZeroIter.nextQ
    rw [if_pos (by omega)]
  · intro z x d ⟨_, hd⟩; cases hd

theorem zeroDone_lenSim (m : Mode) : LenSim (zeroLen m) ZeroDone := by
  intro z d ⟨h, hd⟩
  unfold zeroLen
  rw [h, subM_ok (Nat.le_refl _), hd, Nat.sub_self]; rfl

/-- `select_zero_iter(rank)` below the number of zeros returns a state of the zero iterator at rank `rank` -/
theorem selectZeroIter_ok (hs : s.Encodes n w P) (hstrict : sortedStrict P = true) (m : Mode) (rank : Nat)
    (hr : rank < n - P.length) :
    ∃ z k, s.selectZeroIter m rank = ok z ∧ ZInv s w P n rank k z := by
  unfold Sparse.selectZeroIter Sparse.countZeros Sparse.countOnes
  rw [hs.low_len, hs.len_eq]
  have hcz : (if P.length ≥ n then 0 else n - P.length) = n - P.length := by split <;> omega
  rw [hcz, if_neg (by omega)]
  obtain ⟨K, it', h1, h2, h3, h4, h5⟩ := findZeroRun_ok hs hstrict m rank
  have hn := hs.n_lt
  simp only [h1, bind_ok]
  by_cases hK : K < P.length
  · obtain ⟨g1, g2⟩ := nextQ_ok hs m K it' h2 hK
    simp only [g1, bind_ok]
    rw [addM_ok (by rw [U64_eq]; omega)]
    simp only [bind_ok, pure_eq]
    refine ⟨_, K, rfl, ⟨rfl, ?_, h3, ?_, fun _ => rfl, fun h => absurd h (by omega), ?_, ?_, by omega⟩⟩
    · show (rank, K + rank) = (rank, rank + K); rw [Nat.add_comm]
    · have e : min (K + 1) P.length = K + 1 := by omega
      rw [e]; exact g2
    · show rank + K ≤ P[K]; have := h5 K hK (Nat.le_refl _); omega
    · intro j hj hjK; have := h4 j hj hjK; omega
  · have e : K = P.length := by omega
    subst e
    simp only [nextQ_none hs m it' h2, bind_ok]
    rw [addM_ok (by rw [U64_eq]; omega)]
    simp only [bind_ok, pure_eq]
    refine ⟨_, P.length, rfl, ⟨rfl, ?_, h3, ?_, fun h => absurd h (by omega), fun _ => rfl, ?_, ?_, by omega⟩⟩
    · show (rank, P.length + rank) = (rank, rank + P.length); rw [Nat.add_comm]
    · have e : min (P.length + 1) P.length = P.length := by omega
      rw [e]; exact h2
    · show rank + P.length ≤ n; omega
    · intro j hj hjK; have := h4 j hj hjK; omega

theorem zerosFrom_eq_drop (P : List Nat) (n q : Nat) : zerosFrom P n q = (zeroPairs P n).drop q := by
  apply List.ext_getElem?
  intro i
  unfold zerosFrom zeroPairs
  rw [List.getElem?_drop]
  simp only [List.getElem?_map]
  by_cases h : i < n - P.length - q
  · rw [List.getElem?_range h, List.getElem?_range (by omega)]; rfl
  · rw [List.getElem?_eq_none (by simp; omega), List.getElem?_eq_none (by simp; omega)]; rfl

/-- **sparse `select_zero_iter(rank)` (set mode)**: continues with the zeros of rank `rank, rank+1, …` to the end
(nothing for `rank ≥` the number of zeros), every forward call history -/
theorem zeroRun_select (hs : s.Encodes n w P) (hstrict : sortedStrict P = true) (m : Mode) (rank : Nat)
    (calls : List FCall) :
    ∃ z, s.selectZeroIter m rank = ok z ∧
      zeroRun m s z calls = ok (dequeRunM ((zeroPairs P n).drop rank) (calls.map FCall.toICall)) := by
  by_cases hr : rank < n - P.length
  · obtain ⟨z, k, h1, h2⟩ := selectZeroIter_ok hs hstrict m rank hr
    refine ⟨z, h1, ?_⟩
    rw [← zerosFrom_eq_drop]
    exact fwdRun_sim (zero_fwdSim hs hstrict m) (zero_lenSim m) calls ⟨rank, k, h2, rfl⟩
  · refine ⟨SpZeroIter.emptyIter s, ?_, ?_⟩
    · unfold Sparse.selectZeroIter Sparse.countZeros Sparse.countOnes
      rw [hs.low_len, hs.len_eq]
      have hcz : (if P.length ≥ n then 0 else n - P.length) = n - P.length := by split <;> omega
      rw [hcz, if_pos (by omega)]
    · rw [List.drop_eq_nil_of_le (by simp [zeroPairs]; omega)]
      exact fwdRun_sim (zeroDone_fwdSim m s) (zeroDone_lenSim m) calls ⟨rfl, rfl⟩

end Sp

/-! ## 3. the run-length vector -/

namespace RLI
open RunIter RLQ

variable {v : RL} {bl : Blocks}

/-! ### `RunIter` (forward only, no `size_hint`: `rl_vector.rs:631-640`) -/

theorem readRun_is_run {m : Mode} {v : RL} {it : RunIter} {off lim : Nat} {pk : Peek}
    (h : readRun m v it off lim = ok pk) : ∃ s l adv, pk = .run s l adv := by
  unfold readRun at h
  obtain ⟨⟨gap, o1⟩, _, h⟩ := Outcome.bind_eq_ok h
  obtain ⟨start, _, h⟩ := Outcome.bind_eq_ok h
  obtain ⟨⟨len, o2⟩, _, h⟩ := Outcome.bind_eq_ok h
  obtain ⟨len1, _, h⟩ := Outcome.bind_eq_ok h
  obtain ⟨r, _, h⟩ := Outcome.bind_eq_ok h
  obtain ⟨e, _, h⟩ := Outcome.bind_eq_ok h
  simp only [pure_eq] at h
  injection h with h
  exact ⟨_, _, _, h.symm⟩

/-- `FusedIterator`: the state left by a `None` answers `None` and does not move -/
theorem run_fused (m : Mode) (v : RL) (it e : RunIter) (h : nextQ m v it = ok (none, e)) :
    nextQ m v e = ok (none, e) ∧ e.pos = it.pos := by
  by_cases h1 : v.data.len ≤ it.offset
  · rw [nextQ_atEnd m v it h1] at h
    injection h with h; injection h with _ h; subst h
    exact ⟨nextQ_atEnd m v it h1, rfl⟩
  · have hno : ∀ off lim, peek m v it = readRun m v it off lim → False := by
      intro off lim hp
      rcases peek_of_nextQ_none h with h2 | ⟨o, h2⟩
      · rw [hp] at h2; obtain ⟨_, _, _, h3⟩ := readRun_is_run h2; cases h3
      · rw [hp] at h2; obtain ⟨_, _, _, h3⟩ := readRun_is_run h2; cases h3
    by_cases hr : it.pos.1 < it.limit
    · exact absurd (peek_inBlock m v it (by omega) hr) (fun hp => hno _ _ hp)
    · by_cases hb : v.blocks ≤ (it.offset + 63) / 64
      · rw [nextQ_noMoreBlocks m v it (by omega) (by omega) hb] at h
        injection h with h; injection h with _ h; subst h
        refine ⟨?_, rfl⟩
        by_cases h2 : v.data.len ≤ (it.offset + 63) / 64 * 64
        · exact nextQ_atEnd m v _ h2
        · have e1 : ((it.offset + 63) / 64 * 64 + 63) / 64 = (it.offset + 63) / 64 := by omega
          have := nextQ_noMoreBlocks m v { it with offset := (it.offset + 63) / 64 * 64 } (by
            show (it.offset + 63) / 64 * 64 < v.data.len; omega) (by show it.limit ≤ it.pos.1; omega) (by
            show v.blocks ≤ ((it.offset + 63) / 64 * 64 + 63) / 64; rw [e1]; exact hb)
          rw [this]
          simp only [e1]
      · cases hl : v.onesAfter ((it.offset + 63) / 64) with
        | ok l => exact absurd (peek_nextBlock m v it (by omega) (by omega) (by omega) l hl) (fun hp => hno _ _ hp)
        | fault f =>
          exfalso
          have hp : peek m v it = fault f := by
            unfold peek
            rw [if_neg (by omega)]
            simp only [rank, if_pos (show it.pos.1 ≥ it.limit by omega),
              if_neg (show ¬ (it.offset + 63) / 64 ≥ v.blocks by omega), hl, bind_fault]
          rcases peek_of_nextQ_none h with h2 | ⟨o, h2⟩ <;> rw [hp] at h2 <;> cases h2

/-- the state stands for the runs that `collect` reads from it -/
def RunRel (m : Mode) (v : RL) (it : RunIter) (d : List (Nat × Nat)) : Prop :=
  ∃ fuel L e, collect m v fuel it = ok (L, e) ∧ d = L.map (·.1)

theorem collect_after_none (m : Mode) (v : RL) (it e : RunIter) (h : nextQ m v it = ok (none, e)) :
    collect m v 1 e = ok ([], e) := by
  rw [collect, (run_fused m v it e h).1]; rfl

theorem run_fwdSim (m : Mode) (v : RL) : FwdSim (nextQ m v) (RunRel m v) := by
  constructor
  · intro it ⟨fuel, L, e, hc, hd⟩
    cases L with
    | nil =>
      obtain ⟨f, _, hn⟩ := collect_nil_inv hc
      exact ⟨e, hn, 1, [], e, collect_after_none m v it e hn, rfl⟩
    | cons y L => cases hd
  · intro it x d ⟨fuel, L, e, hc, hd⟩
    cases L with
    | nil => cases hd
    | cons y L =>
      simp only [List.map_cons] at hd
      injection hd with hx hd
      obtain ⟨f, it', _, hn, _, hc'⟩ := collect_cons_inv hc
      subst hx
      exact ⟨it', hn, f, L, e, hc', hd⟩

theorem withPos_map_fst : ∀ (rs : List (Nat × Nat)) (r : Nat), (withPos r rs).map (·.1) = rs := by
  intro rs
  induction rs with
  | nil => intro r; rfl
  | cons p rs ih => intro r; simp only [withPos, List.map_cons, ih]

def runRun (m : Mode) (v : RL) : RunIter → List NCall → Outcome (List (IOut (Nat × Nat))) :=
  nRun (nextQ m v)

/-- **`run_iter()`**: every forward call history (`next` / `nth k`) yields the runs `(start, len)` in order -/
theorem goodB_runIter_run (m : Mode) (g : GoodB v bl) (calls : List NCall) :
    ∃ it, v.runIter = ok it ∧
      runRun m v it calls = ok (dequeRunM (absRuns 0 bl.flatten) (calls.map NCall.toICall)) := by
  rw [g.runIter]
  refine ⟨_, rfl, ?_⟩
  apply nRun_sim (run_fwdSim m v) calls
  by_cases hne : bl = []
  · subst hne
    rw [if_pos rfl]
    refine ⟨1, [], nilIter v, ?_, rfl⟩
    rw [collect, g.nextQ_nil m]; rfl
  · rw [if_neg hne]
    have hb : 0 < bl.length := List.length_pos_iff.mpr hne
    obtain ⟨fuel, e, _, hc, _⟩ := g.collect_block m 0 hb
    refine ⟨fuel, _, e, hc, ?_⟩
    rw [withPos_map_fst, cumS_zero, List.drop_zero]

/-! ### the generic step facts of `OneIter` (`rl_vector.rs:833-861`) -/

/-- `OneIter::size_hint().0` (`rl_vector.rs:853-856`): `self.iter.parent.count_ones() - self.rank` -/
def oneLen (m : Mode) (v : RL) (it : RLOneIter) : Outcome Nat := subM m v.ones it.rank

theorem one_pre {m : Mode} {v : RL} {it it1 : RLOneIter}
    (h : (if (!it.gotNone && decide (it.rank ≥ it.iter.rank)) = true then (do
        let (o, ri) ← it.iter.nextQ m v
        return { it with iter := ri, gotNone := o.isNone })
      else return it : Outcome RLOneIter) = ok it1) : it1.rank = it.rank := by
  split at h
  · obtain ⟨⟨o, ri⟩, _, h2⟩ := Outcome.bind_eq_ok h
    simp only [pure_eq] at h2
    injection h2 with h2; subst h2; rfl
  · simp only [pure_eq] at h
    injection h with h; subst h; rfl

theorem one_some {m : Mode} {v : RL} {it it' : RLOneIter} {x : Nat × Nat}
    (h : RLOneIter.nextQ m v it = ok (some x, it')) : it'.rank = it.rank + 1 := by
  unfold RLOneIter.nextQ at h
  obtain ⟨it1, h1, h2⟩ := Outcome.bind_eq_ok h
  have hr := one_pre h1
  split at h2
  · simp only [pure_eq] at h2; injection h2 with h2; injection h2 with h2 _; cases h2
  · obtain ⟨p, _, h3⟩ := Outcome.bind_eq_ok h2
    simp only [pure_eq] at h3
    injection h3 with h3; injection h3 with _ h3
    subst h3
    show it1.rank + 1 = _
    rw [hr]

theorem one_none {m : Mode} {v : RL} {it it' : RLOneIter}
    (h : RLOneIter.nextQ m v it = ok (none, it')) : it'.rank = it.rank ∧ it'.gotNone = true := by
  unfold RLOneIter.nextQ at h
  obtain ⟨it1, h1, h2⟩ := Outcome.bind_eq_ok h
  have hr := one_pre h1
  split at h2
  · rename_i hg
    simp only [pure_eq] at h2; injection h2 with h2; injection h2 with _ h2
    subst h2
    exact ⟨hr, hg⟩
  · obtain ⟨p, _, h3⟩ := Outcome.bind_eq_ok h2
    simp only [pure_eq] at h3
    injection h3 with h3; injection h3 with h3 _; cases h3

theorem one_done (m : Mode) (v : RL) (it : RLOneIter) (h : it.gotNone = true) :
    RLOneIter.nextQ m v it = ok (none, it) := by
  unfold RLOneIter.nextQ
  simp only [h, Bool.not_true, Bool.false_and, Bool.false_eq_true, if_false, pure_eq, bind_ok, if_true]

/-- `Q st n`: `n` items are left (`rank + n = count_ones`) -/
def OneQ (v : RL) (it : RLOneIter) (n : Nat) : Prop := it.rank + n = v.ones

def OneRel (m : Mode) (v : RL) : RLOneIter → List (Nat × Nat) → Prop :=
  DrainRel (RLOneIter.nextQ m v) (OneQ v)

theorem one_fwdSim (m : Mode) (v : RL) : FwdSim (RLOneIter.nextQ m v) (OneRel m v) := by
  apply drainRel_fwdSim
  · intro st n x st' hq h
    have := one_some h
    unfold OneQ at hq ⊢; omega
  · intro st st' hq h
    obtain ⟨h1, h2⟩ := one_none h
    refine ⟨?_, st', one_done m v st' h2⟩
    unfold OneQ at hq ⊢; omega

theorem one_lenSim (m : Mode) (v : RL) : LenSim (oneLen m v) (OneRel m v) := by
  intro it d ⟨hq, _⟩
  unfold oneLen
  unfold OneQ at hq
  rw [subM_ok (by omega)]
  congr 1; omega

theorem oneLen_eq_remaining (m : Mode) {it : RLOneIter} {d : List (Nat × Nat)} (h : OneRel m v it d) :
    oneLen m v it = ok (RLOneIter.remaining v it) := by
  obtain ⟨hq, _⟩ := h
  unfold OneQ at hq
  unfold oneLen RLOneIter.remaining
  rw [subM_ok (by omega)]

theorem drainOne_eq (m : Mode) (v : RL) : ∀ (F : Nat) (st : RLOneIter),
    drainOne m v F st = drainG (RLOneIter.nextQ m v) F st := by
  intro F
  induction F with
  | zero => intro st; rfl
  | succ f ih =>
    intro st
    rw [drainOne, drainG]
    cases h : RLOneIter.nextQ m v st with
    | fault e => rfl
    | ok r =>
      obtain ⟨o, st'⟩ := r
      simp only [bind_ok]
      cases o with
      | none => rfl
      | some x => simp only [ih]

theorem oneItems_length (R : List (Nat × Nat)) : ∀ (n k : Nat), (oneItems R k n).length = n := by
  intro n
  induction n with
  | zero => intro k; rfl
  | succ n ih => intro k; simp only [oneItems, List.length_cons, ih]

def oneRun (m : Mode) (v : RL) : RLOneIter → List FCall → Outcome (List (IOut (Nat × Nat))) :=
  fwdRun (RLOneIter.nextQ m v) (oneLen m v)

/-- **`one_iter()`**: every forward call history (`next` / `nth k` / `len`) -/
theorem goodB_oneIter_run (m : Mode) (g : GoodB v bl) (calls : List FCall) :
    ∃ st, v.oneIter = ok st ∧
      oneRun m v st calls = ok (dequeRunM (oneItems (absRuns 0 bl.flatten) 0 v.ones) (calls.map FCall.toICall)) := by
  obtain ⟨st, h1, h2⟩ := g.oneIter_drain m (v.ones + 1) (Nat.le_refl _)
  refine ⟨st, h1, ?_⟩
  apply fwdRun_sim (one_fwdSim m v) (one_lenSim m v) calls
  refine ⟨?_, v.ones + 1, by rw [← drainOne_eq]; exact h2⟩
  have hr : st.rank = 0 := by
    unfold RL.oneIter at h1
    obtain ⟨r, _, h3⟩ := Outcome.bind_eq_ok h1
    simp only [pure_eq] at h3
    injection h3 with h3; subst h3; rfl
  unfold OneQ
  rw [oneItems_length, hr]; omega

/-- **`select_iter(rank)`**: continues with the ranks `rank, rank+1, …` to the end, every forward call history -/
theorem goodB_selectIter_run (m : Mode) (g : GoodB v bl) (rank : Nat) (calls : List FCall) :
    ∃ st, v.selectIter m rank = ok st ∧
      oneRun m v st calls =
        ok (dequeRunM (oneItems (absRuns 0 bl.flatten) rank (v.ones - rank)) (calls.map FCall.toICall)) := by
  obtain ⟨st, h1, h2⟩ := g.selectIter_drain m rank (v.ones - rank + 1) (Nat.le_refl _)
  refine ⟨st, h1, ?_⟩
  apply fwdRun_sim (one_fwdSim m v) (one_lenSim m v) calls
  refine ⟨?_, v.ones - rank + 1, by rw [← drainOne_eq]; exact h2⟩
  unfold OneQ
  rw [oneItems_length]
  unfold RL.selectIter at h1
  split at h1
  · injection h1 with h1; subst h1
    show v.ones + _ = _; omega
  · obtain ⟨it, _, h3⟩ := Outcome.bind_eq_ok h1
    obtain ⟨it2, _, h4⟩ := Outcome.bind_eq_ok h3
    simp only [pure_eq] at h4
    injection h4 with h4; subst h4
    show rank + _ = _; omega

/-! ### `Iter` (all bits; `rl_vector.rs:676-713`) -/

/-- `Iter::size_hint().0` (`rl_vector.rs:705-708`): `self.iter.parent.len() - self.pos` -/
def bitLen (m : Mode) (v : RL) (it : RLIter) : Outcome Nat := subM m v.len it.pos

theorem bit_pre {m : Mode} {v : RL} {it it1 : RLIter}
    (h : (match it.run with
      | some (start, len) =>
        if it.pos ≥ start + len then do
          let (o, ri) ← it.iter.nextQ m v
          return { it with iter := ri, run := o }
        else return it
      | none => return it : Outcome RLIter) = ok it1) : it1.pos = it.pos ∧ (it.run = none → it1 = it) := by
  split at h
  · rename_i start len hrun
    split at h
    · obtain ⟨⟨o, ri⟩, _, h2⟩ := Outcome.bind_eq_ok h
      simp only [pure_eq] at h2
      injection h2 with h2; subst h2
      exact ⟨rfl, fun hn => by rw [hn] at hrun; cases hrun⟩
    · simp only [pure_eq] at h
      injection h with h; subst h; exact ⟨rfl, fun _ => rfl⟩
  · simp only [pure_eq] at h
    injection h with h; subst h; exact ⟨rfl, fun _ => rfl⟩

theorem bit_some {m : Mode} {v : RL} {it it' : RLIter} {x : Bool}
    (h : RLIter.nextQ m v it = ok (some x, it')) : it'.pos = it.pos + 1 := by
  unfold RLIter.nextQ at h
  obtain ⟨it1, h1, h2⟩ := Outcome.bind_eq_ok h
  obtain ⟨hr, _⟩ := bit_pre h1
  split at h2
  · simp only [pure_eq] at h2
    injection h2 with h2; injection h2 with _ h2
    subst h2
    show it1.pos + 1 = _; rw [hr]
  · split at h2
    · simp only [pure_eq] at h2; injection h2 with h2; injection h2 with h2 _; cases h2
    · simp only [pure_eq] at h2
      injection h2 with h2; injection h2 with _ h2
      subst h2
      show it1.pos + 1 = _; rw [hr]

theorem bit_none {m : Mode} {v : RL} {it it' : RLIter}
    (h : RLIter.nextQ m v it = ok (none, it')) : it'.pos = it.pos ∧ it'.run = none ∧ it'.pos ≥ v.len := by
  unfold RLIter.nextQ at h
  obtain ⟨it1, h1, h2⟩ := Outcome.bind_eq_ok h
  obtain ⟨hr, _⟩ := bit_pre h1
  split at h2
  · simp only [pure_eq] at h2; injection h2 with h2; injection h2 with h2 _; cases h2
  · rename_i hrun
    split at h2
    · rename_i hge
      simp only [pure_eq] at h2; injection h2 with h2; injection h2 with _ h2
      subst h2
      exact ⟨hr, hrun, hge⟩
    · simp only [pure_eq] at h2; injection h2 with h2; injection h2 with h2 _; cases h2

theorem bit_done (m : Mode) (v : RL) (it : RLIter) (h1 : it.run = none) (h2 : it.pos ≥ v.len) :
    RLIter.nextQ m v it = ok (none, it) := by
  unfold RLIter.nextQ
  simp only [h1, pure_eq, bind_ok, if_pos h2]

def BitQ (v : RL) (it : RLIter) (n : Nat) : Prop := it.pos + n = v.len

def BitRel (m : Mode) (v : RL) : RLIter → List Bool → Prop := DrainRel (RLIter.nextQ m v) (BitQ v)

theorem bit_fwdSim (m : Mode) (v : RL) : FwdSim (RLIter.nextQ m v) (BitRel m v) := by
  apply drainRel_fwdSim
  · intro st n x st' hq h
    have := bit_some h
    unfold BitQ at hq ⊢; omega
  · intro st st' hq h
    obtain ⟨h1, h2, h3⟩ := bit_none h
    refine ⟨?_, st', bit_done m v st' h2 h3⟩
    unfold BitQ at hq ⊢; omega

theorem bit_lenSim (m : Mode) (v : RL) : LenSim (bitLen m v) (BitRel m v) := by
  intro it d ⟨hq, _⟩
  unfold bitLen
  unfold BitQ at hq
  rw [subM_ok (by omega)]
  congr 1; omega

theorem bitLen_eq_remaining (m : Mode) {it : RLIter} {d : List Bool} (h : BitRel m v it d) :
    bitLen m v it = ok (RLIter.remaining v it) := by
  obtain ⟨hq, _⟩ := h
  unfold BitQ at hq
  unfold bitLen RLIter.remaining
  rw [subM_ok (by omega)]

theorem drainBits_eq (m : Mode) (v : RL) : ∀ (F : Nat) (st : RLIter),
    drainBits m v F st = drainG (RLIter.nextQ m v) F st := by
  intro F
  induction F with
  | zero => intro st; rfl
  | succ f ih =>
    intro st
    rw [drainBits, drainG]
    cases h : RLIter.nextQ m v st with
    | fault e => rfl
    | ok r =>
      obtain ⟨o, st'⟩ := r
      simp only [bind_ok]
      cases o with
      | none => rfl
      | some x => simp only [ih]

theorem bitItems_length (R : List (Nat × Nat)) : ∀ (n x : Nat), (bitItems R x n).length = n := by
  intro n
  induction n with
  | zero => intro x; rfl
  | succ n ih => intro x; simp only [bitItems, List.length_cons, ih]

def bitRun (m : Mode) (v : RL) : RLIter → List FCall → Outcome (List (IOut Bool)) :=
  fwdRun (RLIter.nextQ m v) (bitLen m v)

/-- **`iter()`**: every forward call history (`next` / `nth k` / `len`) yields the bits -/
theorem goodB_iter_run (m : Mode) (g : GoodB v bl) (calls : List FCall) :
    ∃ st, v.iter = ok st ∧
      bitRun m v st calls = ok (dequeRunM (bitItems (absRuns 0 bl.flatten) 0 v.len) (calls.map FCall.toICall)) := by
  obtain ⟨st, h1, h2⟩ := g.iter_drain m (v.len + 1) (Nat.le_refl _)
  refine ⟨st, h1, ?_⟩
  apply fwdRun_sim (bit_fwdSim m v) (bit_lenSim m v) calls
  refine ⟨?_, v.len + 1, by rw [← drainBits_eq]; exact h2⟩
  have hr : st.pos = 0 := by
    unfold RL.iter at h1
    obtain ⟨r, _, h3⟩ := Outcome.bind_eq_ok h1
    simp only [pure_eq] at h3
    injection h3 with h3; subst h3; rfl
  unfold BitQ
  rw [bitItems_length, hr]; omega

/-! ### `ZeroIter` (`rl_vector.rs:905-934`) -/

/-- `ZeroIter::size_hint().0` (`rl_vector.rs:926-929`): `self.iter.parent.count_zeros() - self.pos.0` -/
def zeroLen (m : Mode) (v : RL) (z : RLZeroIter) : Outcome Nat := subM m v.countZeros z.pos.1

/-- the run iterator inside a zero iterator can be read to the end without fault and has `rank ≤ offset` -/
def ZSafe (m : Mode) (v : RL) (it : RunIter) : Prop :=
  ∃ r q rs fuel e, collect m v fuel it = ok (withPos r (absRuns q rs), e) ∧ it.pos = (r, q) ∧ r ≤ q

theorem zsafe_step {m : Mode} {v : RL} {it : RunIter} (h : ZSafe m v it) :
    ∃ o it', nextQ m v it = ok (o, it') ∧ ZSafe m v it' := by
  obtain ⟨r, q, rs, fuel, e, hc, hp, hrq⟩ := h
  cases rs with
  | nil =>
    obtain ⟨f, _, hn⟩ := collect_nil_inv hc
    refine ⟨none, e, hn, r, q, [], 1, e, collect_after_none m v it e hn, ?_, hrq⟩
    rw [(run_fused m v it e hn).2, hp]
  | cons p rs =>
    simp only [absRuns, withPos] at hc
    obtain ⟨f, it', _, hn, hp', hc'⟩ := collect_cons_inv hc
    exact ⟨_, it', hn, r + p.2, q + p.1 + p.2, rs, f, e, hc', hp', by omega⟩

/-- one `next()` of the zero iterator over a safe run iterator: no fault; the answer is decided by comparing the
rank with `count_zeros` after the (possible) fetch -/
theorem zero_step {m : Mode} {v : RL} {z : RLZeroIter} (h : ZSafe m v z.iter) :
    ∃ z1 : RLZeroIter, ZSafe m v z1.iter ∧ z1.pos.1 = z.pos.1 ∧
      RLZeroIter.nextQ m v z = ok (if z1.pos.1 ≥ v.countZeros then (none, z1)
        else (some z1.pos, { z1 with pos := (z1.pos.1 + 1, z1.pos.2 + 1) })) := by
  have h0 := h
  obtain ⟨r, q, rs, fuel, e, hc, hp, hrq⟩ := h0
  unfold RLZeroIter.nextQ RunIter.rankZero
  rw [show z.iter.rank = z.iter.pos.1 from rfl, show z.iter.offsetBits = z.iter.pos.2 from rfl, hp]
  simp only []
  rw [subM_ok hrq, bind_ok]
  by_cases c : (!z.gotNone && decide (z.pos.1 ≥ q - r)) = true
  · obtain ⟨o, it', hn, hs⟩ := zsafe_step h
    refine ⟨{ z with pos := (z.pos.1, q), iter := it', gotNone := o.isNone }, hs, rfl, ?_⟩
    simp only [if_pos c, hn, bind_ok, pure_eq]
    split <;> rfl
  · refine ⟨z, h, rfl, ?_⟩
    simp only [if_neg c, bind_ok, pure_eq]
    split <;> rfl

theorem zero_some {m : Mode} {v : RL} {z z' : RLZeroIter} {x : Nat × Nat} (hs : ZSafe m v z.iter)
    (h : RLZeroIter.nextQ m v z = ok (some x, z')) : z'.pos.1 = z.pos.1 + 1 ∧ ZSafe m v z'.iter := by
  obtain ⟨z1, h1, h2, h3⟩ := zero_step hs
  rw [h3] at h
  split at h
  · injection h with h; injection h with h _; cases h
  · injection h with h; injection h with _ h
    subst h
    exact ⟨by show z1.pos.1 + 1 = _; rw [h2], h1⟩

theorem zero_none {m : Mode} {v : RL} {z z' : RLZeroIter} (hs : ZSafe m v z.iter)
    (h : RLZeroIter.nextQ m v z = ok (none, z')) :
    z'.pos.1 = z.pos.1 ∧ z.pos.1 ≥ v.countZeros ∧ ZSafe m v z'.iter := by
  obtain ⟨z1, h1, h2, h3⟩ := zero_step hs
  rw [h3] at h
  split at h
  · rename_i hge
    injection h with h; injection h with _ h
    subst h
    exact ⟨h2, by omega, h1⟩
  · injection h with h; injection h with h _; cases h

theorem zero_done {m : Mode} {v : RL} {z : RLZeroIter} (hs : ZSafe m v z.iter) (h : z.pos.1 ≥ v.countZeros) :
    ∃ z', RLZeroIter.nextQ m v z = ok (none, z') := by
  obtain ⟨z1, _, h2, h3⟩ := zero_step hs
  rw [h3, if_pos (by omega)]
  exact ⟨z1, rfl⟩

def ZeroQ (m : Mode) (v : RL) (z : RLZeroIter) (n : Nat) : Prop :=
  ZSafe m v z.iter ∧ z.pos.1 + n = v.countZeros

def ZeroRel (m : Mode) (v : RL) : RLZeroIter → List (Nat × Nat) → Prop :=
  DrainRel (RLZeroIter.nextQ m v) (ZeroQ m v)

theorem zero_fwdSim (m : Mode) (v : RL) : FwdSim (RLZeroIter.nextQ m v) (ZeroRel m v) := by
  apply drainRel_fwdSim
  · intro st n x st' ⟨hs, hq⟩ h
    obtain ⟨h1, h2⟩ := zero_some hs h
    exact ⟨h2, by omega⟩
  · intro st st' ⟨hs, hq⟩ h
    obtain ⟨h1, h2, h3⟩ := zero_none hs h
    exact ⟨⟨h3, by omega⟩, zero_done h3 (by omega)⟩

theorem zero_lenSim (m : Mode) (v : RL) : LenSim (zeroLen m v) (ZeroRel m v) := by
  intro it d ⟨⟨_, hq⟩, _⟩
  unfold zeroLen
  rw [subM_ok (by omega)]
  congr 1; omega

theorem zeroLen_eq_remaining (m : Mode) {z : RLZeroIter} {d : List (Nat × Nat)} (h : ZeroRel m v z d) :
    zeroLen m v z = ok (RLZeroIter.remaining v z) := by
  obtain ⟨⟨_, hq⟩, _⟩ := h
  unfold zeroLen RLZeroIter.remaining
  rw [subM_ok (by omega)]

theorem drainZero_eq (m : Mode) (v : RL) : ∀ (F : Nat) (st : RLZeroIter),
    drainZero m v F st = drainG (RLZeroIter.nextQ m v) F st := by
  intro F
  induction F with
  | zero => intro st; rfl
  | succ f ih =>
    intro st
    rw [drainZero, drainG]
    cases h : RLZeroIter.nextQ m v st with
    | fault e => rfl
    | ok r =>
      obtain ⟨o, st'⟩ := r
      simp only [bind_ok]
      cases o with
      | none => rfl
      | some x => simp only [ih]

theorem selItems_length (sel : Nat → Option Nat) : ∀ (n k : Nat), (selItems sel k n).length = n := by
  intro n
  induction n with
  | zero => intro k; rfl
  | succ n ih => intro k; simp only [selItems, List.length_cons, ih]

theorem goodB_zsafe_block (m : Mode) (g : GoodB v bl) (b : Nat) (hb : b < bl.length) :
    ZSafe m v (blockIter bl b) := by
  obtain ⟨fuel, e, _, hc, _⟩ := g.collect_block m b hb
  exact ⟨_, _, _, fuel, e, hc, rfl, cumL_le_cumS bl b⟩

theorem goodB_zsafe_nil (m : Mode) (g : GoodB v []) : ZSafe m v (nilIter v) := by
  refine ⟨0, 0, [], 1, nilIter v, ?_, rfl, Nat.le_refl _⟩
  rw [collect, g.nextQ_nil m]; rfl

theorem goodB_zeroIter_safe (m : Mode) (g : GoodB v bl) {st : RLZeroIter} (h : v.zeroIter m = ok st) :
    ZSafe m v st.iter ∧ st.pos.1 = 0 := by
  unfold RL.zeroIter at h
  rw [g.runIter, bind_ok] at h
  have hs : ZSafe m v (if bl = [] then nilIter v else blockIter bl 0) := by
    by_cases hne : bl = []
    · subst hne; rw [if_pos rfl]; exact goodB_zsafe_nil m g
    · rw [if_neg hne]; exact goodB_zsafe_block m g 0 (List.length_pos_iff.mpr hne)
  obtain ⟨o, it', hn, hs'⟩ := zsafe_step hs
  rw [hn] at h
  simp only [bind_ok, pure_eq] at h
  injection h with h; subst h
  exact ⟨hs', rfl⟩

def zeroRun (m : Mode) (v : RL) : RLZeroIter → List FCall → Outcome (List (IOut (Nat × Nat))) :=
  fwdRun (RLZeroIter.nextQ m v) (zeroLen m v)

/-- **`zero_iter()`**: every forward call history (`next` / `nth k` / `len`); needs, as the drain theorem, every run
but the first to be separated from its predecessor (maximal runs are) -/
theorem goodB_zeroIter_run (m : Mode) (g : GoodB v bl)
    (hgap : ∀ p rest, bl.flatten = p :: rest → ∀ q ∈ rest, 1 ≤ q.1) (calls : List FCall) :
    ∃ st, v.zeroIter m = ok st ∧
      zeroRun m v st calls = ok (dequeRunM
        (selItems (selectZeroR v.len (absRuns 0 bl.flatten)) 0 v.countZeros) (calls.map FCall.toICall)) := by
  obtain ⟨st, h1, h2⟩ := g.zeroIter_drain m hgap (v.countZeros + 1) (Nat.le_refl _)
  refine ⟨st, h1, ?_⟩
  apply fwdRun_sim (zero_fwdSim m v) (zero_lenSim m v) calls
  obtain ⟨hs, hp⟩ := goodB_zeroIter_safe m g h1
  refine ⟨⟨hs, ?_⟩, v.countZeros + 1, by rw [← drainZero_eq]; exact h2⟩
  rw [selItems_length, hp]; omega

/-! ### `select_zero_iter(rank)` -/

/-- the loop of `select_zero_iter` followed by draining the zero iterator it returns -/
theorem selectZeroIter_walk (m : Mode) (v : RL) (sel : Nat → Option Nat) (rank : Nat) (hlen : v.len < U64) :
    ∀ (rs : List (Nat × Nat)) (p0 r0 fuel F1 F : Nat) (it e : RunIter),
      collect m v fuel it = ok (withPos r0 (absRuns p0 rs), e) → it.pos = (r0, p0) →
      e.pos = (r0 + lens rs, p0 + span rs) → fuel ≤ F1 →
      r0 ≤ p0 → p0 - r0 ≤ rank → p0 + span rs ≤ v.len →
      v.countZeros = v.len - (r0 + lens rs) → rank < v.countZeros →
      (∀ t ∈ rs, 1 ≤ t.2) → (∀ t ∈ rs.drop 1, 1 ≤ t.1) →
      (∀ j, sel (p0 - r0 + j) = selectZeroFrom v.len p0 (absRuns p0 rs) j) →
      v.countZeros - rank + 1 ≤ F →
      ∃ q it' gn, RL.selectZeroLoop m v rank F1 it r0 = ok (q, it', gn) ∧ ZSafe m v it' ∧
        drainZero m v F ⟨it', gn, (rank, q)⟩ = ok (selItems sel rank (v.countZeros - rank)) := by
  intro rs
  induction rs with
  | nil =>
    intro p0 r0 fuel F1 F it e hc hit he hF1 h1 h2 hsp hcz hrk _ _ hstar hF
    obtain ⟨f, hf, hn⟩ := collect_nil_inv hc
    obtain ⟨F1', rfl⟩ : ∃ F1', F1 = F1' + 1 := ⟨F1 - 1, by omega⟩
    simp only [lens, span, Nat.add_zero] at he hsp hcz
    refine ⟨rank + r0, e, true, ?_, ?_, ?_⟩
    · rw [RL.selectZeroLoop, hn]
      simp only [bind_ok]
      rw [addM_ok (by omega)]; rfl
    · exact ⟨r0, p0, [], 1, e, collect_after_none m v it e hn, he, h1⟩
    · apply zero_tail m v sel e (by rw [he]; exact h1) (v.countZeros - rank) rank (rank + r0) F (by omega) hF
      intro j hj
      have := hstar (rank - (p0 - r0) + j)
      rw [show p0 - r0 + (rank - (p0 - r0) + j) = rank + j by omega] at this
      rw [this]
      simp only [absRuns, selectZeroFrom]
      rw [if_pos (by omega)]
      congr 1; omega
  | cons p rs ih =>
    intro p0 r0 fuel F1 F it e hc hit he hF1 h1 h2 hsp hcz hrk hpos hgap hstar hF
    have hp2 := hpos p (by simp)
    simp only [absRuns, withPos] at hc
    obtain ⟨f, it', hf, hn, hp, hc'⟩ := collect_cons_inv hc
    obtain ⟨F1', rfl⟩ : ∃ F1', F1 = F1' + 1 := ⟨F1 - 1, by omega⟩
    obtain ⟨o', ⟨r', p'⟩, lim'⟩ := it'
    simp only [Prod.mk.injEq] at hp
    obtain ⟨rfl, rfl⟩ := hp
    simp only [lens, span] at he hsp hcz
    have hls := lens_le_span rs
    have hloop : RL.selectZeroLoop m v rank (F1' + 1) it r0 =
        (if p0 + p.1 + p.2 - (r0 + p.2) > rank then
          ok (rank + r0, (⟨o', (r0 + p.2, p0 + p.1 + p.2), lim'⟩ : RunIter), false)
        else RL.selectZeroLoop m v rank F1' ⟨o', (r0 + p.2, p0 + p.1 + p.2), lim'⟩ (r0 + p.2)) := by
      rw [RL.selectZeroLoop, hn]
      show (RunIter.rankZero m ⟨o', (r0 + p.2, p0 + p.1 + p.2), lim'⟩ >>= fun rz =>
          if rz > rank then (addM m rank r0 >>= fun r => pure (r, ⟨o', (r0 + p.2, p0 + p.1 + p.2), lim'⟩, false))
          else RL.selectZeroLoop m v rank F1' ⟨o', (r0 + p.2, p0 + p.1 + p.2), lim'⟩ (r0 + p.2)) = _
      unfold RunIter.rankZero
      rw [show (⟨o', (r0 + p.2, p0 + p.1 + p.2), lim'⟩ : RunIter).offsetBits = p0 + p.1 + p.2 from rfl,
        show (⟨o', (r0 + p.2, p0 + p.1 + p.2), lim'⟩ : RunIter).rank = r0 + p.2 from rfl,
        subM_ok (by omega), bind_ok]
      by_cases c : p0 + p.1 + p.2 - (r0 + p.2) > rank
      · rw [if_pos c, if_pos c, addM_ok (by omega), bind_ok]; rfl
      · rw [if_neg c, if_neg c]
    have hrz' : p0 + p.1 + p.2 - (r0 + p.2) = p0 - r0 + p.1 := by omega
    have hrest : ∀ t ∈ rs, 1 ≤ t.1 ∧ 1 ≤ t.2 := fun t ht =>
      ⟨hgap t (by simpa using ht), hpos t (by simp [ht])⟩
    have hstar' : ∀ j, sel (p0 + p.1 + p.2 - (r0 + p.2) + j) =
        selectZeroFrom v.len (p0 + p.1 + p.2) (absRuns (p0 + p.1 + p.2) rs) j := by
      intro j
      rw [hrz', show p0 - r0 + p.1 + j = p0 - r0 + (p.1 + j) by omega, hstar (p.1 + j)]
      simp only [absRuns, selectZeroFrom]
      rw [if_neg (by omega)]
      congr 1; omega
    rw [hloop]
    by_cases c : p0 + p.1 + p.2 - (r0 + p.2) > rank
    · rw [if_pos c]
      refine ⟨_, _, _, rfl, ⟨r0 + p.2, p0 + p.1 + p.2, rs, f, e, hc', rfl, by omega⟩, ?_⟩
      have hsel : ∀ j, j < p0 - r0 + p.1 - rank → sel (rank + j) = some (rank + r0 + j) := by
        intro j hj
        have := hstar (rank - (p0 - r0) + j)
        rw [show p0 - r0 + (rank - (p0 - r0) + j) = rank + j by omega] at this
        rw [this]
        simp only [absRuns, selectZeroFrom]
        rw [if_pos (by omega)]
        congr 1; omega
      have hih := zero_walk m v sel rs (r0 + p.2) (p0 + p.1 + p.2) f (F - (p0 - r0 + p.1 - rank)) (p0 + p.1)
        ⟨o', (r0 + p.2, p0 + p.1 + p.2), lim'⟩ e hc' rfl
        (by rw [he]; congr 1 <;> omega) (by omega) (by omega) (by rw [hcz]; congr 1; omega) hrest hstar' (by omega)
      have hstay := zero_stay m v sel ⟨o', (r0 + p.2, p0 + p.1 + p.2), lim'⟩
        (by show r0 + p.2 ≤ p0 + p.1 + p.2; omega)
        (by show p0 + p.1 + p.2 - (r0 + p.2) ≤ _; omega) (F - (p0 - r0 + p.1 - rank)) (p0 + p.1) _ hih
        (p0 - r0 + p.1 - rank) rank (rank + r0) (by show _ = p0 + p.1 + p.2 - (r0 + p.2); omega) (by omega) hsel
      rw [show p0 - r0 + p.1 - rank + (F - (p0 - r0 + p.1 - rank)) = F by omega] at hstay
      rw [hstay, show v.countZeros - rank = (p0 - r0 + p.1 - rank) +
        (v.countZeros - (p0 + p.1 + p.2 - (r0 + p.2))) by omega, selItems_append]
      rw [show rank + (p0 - r0 + p.1 - rank) = p0 + p.1 + p.2 - (r0 + p.2) by omega]
    · rw [if_neg c]
      exact ih (p0 + p.1 + p.2) (r0 + p.2) f F1' F _ e hc' rfl (by rw [he]; congr 1 <;> omega) (by omega)
        (by omega) (by omega) (by omega) (by rw [hcz]; congr 1; omega) hrk (fun t ht => hpos t (by simp [ht]))
        (fun t ht => hgap t (by simpa using List.mem_of_mem_drop ht)) hstar' hF

theorem zsafe_empty (m : Mode) (v : RL) (h : v.ones ≤ v.len) : ZSafe m v (emptyIter v) := by
  refine ⟨v.ones, v.len, [], 1, emptyIter v, ?_, rfl, h⟩
  rw [collect, nextQ_emptyIter]; rfl

theorem mem_tail_of_suffix {α} {A D : List α} {p : α} {rest : List α} (h : A ++ D = p :: rest) {t : α}
    (ht : t ∈ D.drop 1) : t ∈ rest := by
  cases A with
  | nil =>
    simp only [List.nil_append] at h
    subst h
    simpa using ht
  | cons a A' =>
    simp only [List.cons_append] at h
    injection h with _ h
    subst h
    exact List.mem_append_right _ (List.mem_of_mem_drop ht)

/-- **`select_zero_iter(rank)`** run to exhaustion: the unset bits of rank `rank, rank+1, …` in order (not
stated in Proofs/RLQueries.lean), together with the facts needed for the call-history simulation -/
theorem goodB_selectZeroIter_drain (m : Mode) (g : GoodB v bl)
    (hgap : ∀ p rest, bl.flatten = p :: rest → ∀ q ∈ rest, 1 ≤ q.1) (rank F : Nat)
    (hF : v.countZeros - rank + 1 ≤ F) :
    ∃ st, v.selectZeroIter m rank = ok st ∧ ZSafe m v st.iter ∧
      st.pos.1 + (v.countZeros - rank) = v.countZeros ∧
      drainZero m v F st =
        ok (selItems (selectZeroR v.len (absRuns 0 bl.flatten)) rank (v.countZeros - rank)) := by
  have hsp := g.span_le
  have hones := g.ones
  have hls := lens_le_span bl.flatten
  have hlen := g.len_lt
  have hczdef : v.countZeros = v.len - v.ones := rfl
  unfold RL.selectZeroIter
  by_cases hr : rank ≥ v.countZeros
  · rw [if_pos hr]
    have hs := zsafe_empty m v (by omega)
    refine ⟨_, rfl, hs, by show v.countZeros + _ = _; omega, ?_⟩
    obtain ⟨F', rfl⟩ : ∃ F', F = F' + 1 := ⟨F - 1, by omega⟩
    rw [show v.countZeros - rank = 0 by omega]
    exact drainZero_none m v F' _ _ (by
      rw [zero_nextQ_tail m v (emptyIter v) _ _ (by show v.ones ≤ v.len; omega), if_pos (Nat.le_refl _)])
  · rw [if_neg hr]
    by_cases hne : bl = []
    · subst hne
      rw [g.iterForZero_nil m rank (by omega), bind_ok]
      have hc : collect m v 1 (nilIter v) = ok (withPos 0 (absRuns 0 []), nilIter v) := by
        rw [collect, g.nextQ_nil m]; rfl
      have h0 : v.ones = 0 := hones
      obtain ⟨q, it', gn, a1, a2, a3⟩ := selectZeroIter_walk m v
        (selectZeroR v.len (absRuns 0 ([] : Blocks).flatten)) rank hlen [] 0 0 1 (v.data.len + 2) F
        (nilIter v) (nilIter v) hc rfl rfl (by omega) (Nat.le_refl _) (by omega) (by simp [span])
        (by simp only [lens]; omega) (by omega) (by simp) (by simp) (fun j => by simp [selectZeroR]) hF
      rw [show (nilIter v).rank = 0 from rfl, a1]
      simp only [bind_ok, pure_eq]
      exact ⟨_, rfl, a2, by show rank + _ = _; omega, a3⟩
    · obtain ⟨b, hb, e1, h1, _⟩ := g.iterForZero m hne rank (by omega)
      obtain ⟨fuel, e, hf, hc, he⟩ := g.collect_block m b hb
      obtain ⟨c1, c2⟩ := drop_cum bl b
      have hsplit : (bl.take b).flatten ++ (bl.drop b).flatten = bl.flatten := by
        rw [← List.flatten_append, List.take_append_drop]
      have hgapD : ∀ t ∈ ((bl.drop b).flatten).drop 1, 1 ≤ t.1 := by
        intro t ht
        cases hfl : bl.flatten with
        | nil =>
          rw [hfl] at hsplit
          have := (List.append_eq_nil_iff.mp hsplit).2
          rw [this] at ht
          simp at ht
        | cons p rest =>
          rw [hfl] at hsplit
          exact hgap p rest hfl t (mem_tail_of_suffix hsplit ht)
      obtain ⟨q, it', gn, a1, a2, a3⟩ := selectZeroIter_walk m v
        (selectZeroR v.len (absRuns 0 bl.flatten)) rank hlen (bl.drop b).flatten (cumS bl b) (cumL bl b) fuel
        (v.data.len + 2) F (blockIter bl b) e hc rfl (by rw [he, c1, c2]) hf (cumL_le_cumS bl b) h1 (by omega)
        (by rw [c1, ← hones]; rfl) (by omega) (g.len_pos_of_blk b) hgapD
        (fun j => by
          unfold selectZeroR
          rw [selectZero_split v.len bl b _ (show cumS bl b - cumL bl b ≤ cumS bl b - cumL bl b + j by omega)]
          congr 1; omega) hF
      rw [e1, bind_ok, show (blockIter bl b).rank = cumL bl b from rfl, a1]
      simp only [bind_ok, pure_eq]
      exact ⟨_, rfl, a2, by show rank + _ = _; omega, a3⟩

/-- **`select_zero_iter(rank)`**: continues with the ranks `rank, rank+1, …` to the end, every forward call
history -/
theorem goodB_selectZeroIter_run (m : Mode) (g : GoodB v bl)
    (hgap : ∀ p rest, bl.flatten = p :: rest → ∀ q ∈ rest, 1 ≤ q.1) (rank : Nat) (calls : List FCall) :
    ∃ st, v.selectZeroIter m rank = ok st ∧
      zeroRun m v st calls = ok (dequeRunM
        (selItems (selectZeroR v.len (absRuns 0 bl.flatten)) rank (v.countZeros - rank))
        (calls.map FCall.toICall)) := by
  obtain ⟨st, h1, hs, hp, h2⟩ := goodB_selectZeroIter_drain m g hgap rank (v.countZeros - rank + 1) (Nat.le_refl _)
  refine ⟨st, h1, ?_⟩
  apply fwdRun_sim (zero_fwdSim m v) (zero_lenSim m v) calls
  refine ⟨⟨hs, ?_⟩, v.countZeros - rank + 1, by rw [← drainZero_eq]; exact h2⟩
  rw [selItems_length]; exact hp

/-! ### the reference sequences in terms of the bit sequence -/

theorem selItems_eq_seg (sel : Nat → Option Nat) (P : List Nat) (hsel : ∀ j, sel j = P[j]?) :
    ∀ (n k : Nat), k + n ≤ P.length → selItems sel k n = seg (pairs P) k (k + n) := by
  intro n
  induction n with
  | zero => intro k _; rw [seg_nil _ _ _ (by omega)]; rfl
  | succ n ih =>
    intro k h
    rw [seg_cons (pairs P) _ (pairs_get P) k (k + (n + 1)) (by omega) (by rw [pairs_length]; omega)]
    simp only [selItems, hsel]
    rw [ih (k + 1) (by omega), show k + 1 + n = k + (n + 1) by omega]

theorem selItems_to_end (sel : Nat → Option Nat) (P : List Nat) (hsel : ∀ j, sel j = P[j]?) (k : Nat) :
    selItems sel k (P.length - k) = (pairs P).drop k := by
  by_cases h : k ≤ P.length
  · rw [selItems_eq_seg sel P hsel _ k (by omega), show k + (P.length - k) = (pairs P).length by
      rw [pairs_length]; omega, Sp.seg_full]
  · rw [show P.length - k = 0 by omega, List.drop_eq_nil_of_le (by rw [pairs_length]; omega)]; rfl

theorem oneItems_eq_selItems (R : List (Nat × Nat)) : ∀ (n k : Nat), oneItems R k n = selItems (selectR R) k n := by
  intro n
  induction n with
  | zero => intro k; rfl
  | succ n ih => intro k; simp only [oneItems, selItems, ih]

theorem length_zerosPos (B : List Bool) : (zerosPos B).length = B.count false := by
  unfold zerosPos
  rw [length_onesFrom, count_map_not]

/-- **all iterators of a well-formed run-length vector, in terms of its bit sequence `B`**: every forward call
history on `run_iter()`, `iter()`, `one_iter()`, `zero_iter()`, `select_iter(r)`, `select_zero_iter(r)` answers as
the reference queue over the maximal runs / the bits / the `(rank, position)` pairs of the set resp. unset bits
(from rank `r` on), with no fault, in both modes -/
theorem good_iterators (m : Mode) {v : RL} (B : List Bool) (hg : Good v (maximalRuns B)) (e1 : v.len = B.length)
    (e2 : v.ones = B.count true) (e3 : v.countZeros = B.count false) :
    (∀ cs : List NCall, ∃ it, v.runIter = ok it ∧
      runRun m v it cs = ok (dequeRunM (maximalRuns B) (cs.map NCall.toICall))) ∧
    (∀ cs : List FCall, ∃ st, v.iter = ok st ∧
      bitRun m v st cs = ok (dequeRunM B (cs.map FCall.toICall))) ∧
    (∀ cs : List FCall, ∃ st, v.oneIter = ok st ∧
      oneRun m v st cs = ok (dequeRunM (pairs (onesPos B)) (cs.map FCall.toICall))) ∧
    (∀ cs : List FCall, ∃ st, v.zeroIter m = ok st ∧
      zeroRun m v st cs = ok (dequeRunM (pairs (zerosPos B)) (cs.map FCall.toICall))) ∧
    (∀ (r : Nat) (cs : List FCall), ∃ st, v.selectIter m r = ok st ∧
      oneRun m v st cs = ok (dequeRunM ((pairs (onesPos B)).drop r) (cs.map FCall.toICall))) ∧
    (∀ (r : Nat) (cs : List FCall), ∃ st, v.selectZeroIter m r = ok st ∧
      zeroRun m v st cs = ok (dequeRunM ((pairs (zerosPos B)).drop r) (cs.map FCall.toICall))) := by
  obtain ⟨bl, g, hR⟩ := hg
  have hsep := maximalRuns_sep B
  have hgap : ∀ p rest, bl.flatten = p :: rest → ∀ q ∈ rest, 1 ≤ q.1 := by
    intro p rest hpr
    rw [hR, hpr] at hsep
    exact sep_gap_tail hsep
  have hselO : ∀ j, selectR (maximalRuns B) j = (onesPos B)[j]? := fun j => by
    rw [selectR_maximalRuns, selectSpec_eq_onesPos]
  have hselZ : ∀ j, selectZeroR B.length (maximalRuns B) j = (zerosPos B)[j]? := fun j => by
    rw [selectZeroR_maximalRuns]; unfold selectZeroSpec zerosPos
    exact selectSpec_eq_onesPos (B.map not) j
  have hlo := length_onesPos B
  have hlz := length_zerosPos B
  refine ⟨?_, ?_, ?_, ?_, ?_, ?_⟩
  · intro cs
    obtain ⟨it, h1, h2⟩ := goodB_runIter_run m g cs
    rw [← hR] at h2
    exact ⟨it, h1, h2⟩
  · intro cs
    obtain ⟨st, h1, h2⟩ := goodB_iter_run m g cs
    rw [← hR, e1, bitItems_all] at h2
    exact ⟨st, h1, h2⟩
  · intro cs
    obtain ⟨st, h1, h2⟩ := goodB_oneIter_run m g cs
    rw [← hR, e2, oneItems_eq_selItems, ← hlo] at h2
    have := selItems_to_end _ (onesPos B) hselO 0
    rw [Nat.sub_zero, List.drop_zero] at this
    rw [this] at h2
    exact ⟨st, h1, h2⟩
  · intro cs
    obtain ⟨st, h1, h2⟩ := goodB_zeroIter_run m g hgap cs
    rw [← hR, e1, e3, ← hlz] at h2
    have := selItems_to_end _ (zerosPos B) hselZ 0
    rw [Nat.sub_zero, List.drop_zero] at this
    rw [this] at h2
    exact ⟨st, h1, h2⟩
  · intro r cs
    obtain ⟨st, h1, h2⟩ := goodB_selectIter_run m g r cs
    rw [← hR, e2, oneItems_eq_selItems, ← hlo, selItems_to_end _ (onesPos B) hselO r] at h2
    exact ⟨st, h1, h2⟩
  · intro r cs
    obtain ⟨st, h1, h2⟩ := goodB_selectZeroIter_run m g hgap r cs
    rw [← hR, e1, e3, ← hlz, selItems_to_end _ (zerosPos B) hselZ r] at h2
    exact ⟨st, h1, h2⟩

/-- the same for every vector built by accepted builder calls (`B` = the bit sequence the calls describe) -/
theorem build_iterators (m : Mode) (calls : List RL.BCall) (hc : ∀ c ∈ calls, RL.callArgsOk c)
    (b : RLBuilder) (hb : RL.runBCalls m calls {} = ok b) (v : RL) (hv : RL.ofBuilder m b = ok v)
    (hsz : v.blocks + 8 < U64) :
    let B := calls.foldl RL.specCall []
    (∀ cs : List NCall, ∃ it, v.runIter = ok it ∧
      runRun m v it cs = ok (dequeRunM (maximalRuns B) (cs.map NCall.toICall))) ∧
    (∀ cs : List FCall, ∃ st, v.iter = ok st ∧
      bitRun m v st cs = ok (dequeRunM B (cs.map FCall.toICall))) ∧
    (∀ cs : List FCall, ∃ st, v.oneIter = ok st ∧
      oneRun m v st cs = ok (dequeRunM (pairs (onesPos B)) (cs.map FCall.toICall))) ∧
    (∀ cs : List FCall, ∃ st, v.zeroIter m = ok st ∧
      zeroRun m v st cs = ok (dequeRunM (pairs (zerosPos B)) (cs.map FCall.toICall))) ∧
    (∀ (r : Nat) (cs : List FCall), ∃ st, v.selectIter m r = ok st ∧
      oneRun m v st cs = ok (dequeRunM ((pairs (onesPos B)).drop r) (cs.map FCall.toICall))) ∧
    (∀ (r : Nat) (cs : List FCall), ∃ st, v.selectZeroIter m r = ok st ∧
      zeroRun m v st cs = ok (dequeRunM ((pairs (zerosPos B)).drop r) (cs.map FCall.toICall))) := by
  intro B
  obtain ⟨hg, e1, e2, e3⟩ := build_good m calls hc b hb v hv hsz
  exact good_iterators m B hg e1 e2 e3

end RLI

/-! ## 4. the wavelet matrix -/

namespace WMI

variable {w : WM} {V : List Nat} {width : Nat}

/-- the positions of the occurrences of `v` in `V`, ascending -/
def occ (V : List Nat) (v : Nat) : List Nat := onesPos (V.map (fun u => u == v))

theorem selectVal_eq_occ (V : List Nat) (v r : Nat) : selectVal V v r = (occ V v)[r]? := by
  unfold selectVal occ
  rw [← selectSpec_eq_onesPos]; rfl

theorem occ_length_le (V : List Nat) (v : Nat) : (occ V v).length ≤ V.length := by
  unfold occ
  rw [length_onesPos]
  have := List.count_le_length (a := true) (l := V.map (fun u => u == v))
  simpa using this

/-! ### `ValueIter` (forward only, no `size_hint`: `wavelet_matrix.rs:302-320`) -/

/-- the state `r` (next rank) stands for the occurrences of rank `≥ r` -/
def ValRel (V : List Nat) (v : Nat) (r : Nat) (d : List (Nat × Nat)) : Prop :=
  d = seg (pairs (occ V v)) r (occ V v).length

theorem value_fwdSim (hw : w.Ok V width) (m : Mode) (v : Nat) :
    FwdSim (fun r => w.valueIterNext m v r) (ValRel V v) := by
  have hle := occ_length_le V v
  have hx := pairs_get (occ V v)
  constructor
  · intro r hd
    unfold ValRel at hd
    have hl := congrArg List.length hd
    rw [seg_length _ _ _ (by rw [pairs_length]; exact Nat.le_refl _)] at hl
    simp only [List.length_nil] at hl
    show ∃ it', w.valueIterNext m v r = _ ∧ _
    rw [valueIterNext_ok hw]
    by_cases h : r ≥ V.length
    · rw [if_pos h]; exact ⟨r, rfl, hd⟩
    · rw [if_neg h, selectVal_eq_occ, List.getElem?_eq_none (by omega)]
      refine ⟨V.length, rfl, ?_⟩
      unfold ValRel
      rw [seg_nil _ _ _ hle]
  · intro r x d hd
    unfold ValRel at hd
    have hr : r < (occ V v).length := by
      have := congrArg List.length hd
      rw [seg_length _ _ _ (by rw [pairs_length]; exact Nat.le_refl _)] at this
      simp at this; omega
    rw [seg_cons _ _ hx r _ hr (by rw [pairs_length]; exact Nat.le_refl _)] at hd
    injection hd with hx' hd
    show ∃ it', w.valueIterNext m v r = _ ∧ _
    rw [valueIterNext_ok hw, if_neg (by omega), selectVal_eq_occ, List.getElem?_eq_getElem hr]
    refine ⟨r + 1, ?_, hd⟩
    rw [hx', List.getElem?_eq_getElem hr]; rfl

def valueRun (m : Mode) (w : WM) (v : Nat) : Nat → List NCall → Outcome (List (IOut (Nat × Nat))) :=
  nRun (fun r => w.valueIterNext m v r)

/-- **`value_iter(v)` / `select_iter(r, v)`**: from the state `r`, every forward call history (`next` / `nth k`)
yields the `(rank, index)` pairs of the occurrences of `v` of rank `≥ r` -/
theorem valueRun_from (hw : w.Ok V width) (m : Mode) (v r : Nat) (calls : List NCall) :
    valueRun m w v r calls = ok (dequeRunM ((pairs (occ V v)).drop r) (calls.map NCall.toICall)) := by
  have := nRun_sim (value_fwdSim hw m v) calls (it := r) (d := seg (pairs (occ V v)) r (occ V v).length) rfl
  have e := Sp.seg_full (pairs (occ V v)) r
  rw [pairs_length] at e
  rw [← e]
  exact this

/-! ### `IntoIter` (forward only, exact size: `wavelet_matrix.rs:344-366`) -/

/-- `IntoIter::next` (`wavelet_matrix.rs:347-355`): state = `index` -/
def intoNext (m : Mode) (w : WM) (i : Nat) : Outcome (Option Nat × Nat) :=
  if i ≥ w.len then ok (none, i) else do
    let x ← w.get m i
    let j ← addM m i 1
    return (some x, j)

/-- `IntoIter::size_hint().0` (`wavelet_matrix.rs:358-361`): `self.parent.len() - self.index` -/
def intoLen (m : Mode) (w : WM) (i : Nat) : Outcome Nat := subM m w.len i

def IntoRel (V : List Nat) (i : Nat) (d : List Nat) : Prop := i ≤ V.length ∧ d = V.drop i

theorem into_fwdSim (hw : w.Ok V width) (m : Mode) : FwdSim (intoNext m w) (IntoRel V) := by
  have hlt := hw.core.len_lt
  have hU : U64 = 2 ^ 64 := U64_eq
  constructor
  · intro i ⟨hi, hd⟩
    have hl := congrArg List.length hd
    simp only [List.length_nil, List.length_drop] at hl
    refine ⟨i, ?_, hi, hd⟩
    unfold intoNext
    rw [hw.len, if_pos (by omega)]
  · intro i x d ⟨hi, hd⟩
    have hlt' : i < V.length := by
      have := congrArg List.length hd
      simp only [List.length_cons, List.length_drop] at this
      omega
    rw [List.drop_eq_getElem_cons hlt'] at hd
    injection hd with hx hd
    refine ⟨i + 1, ?_, by omega, hd⟩
    unfold intoNext
    rw [hw.len, if_neg (by omega), get_ok_wm hw m i hlt', bind_ok, addM_ok (by omega), bind_ok, hx]
    rfl

theorem into_lenSim (hw : w.Ok V width) (m : Mode) : LenSim (intoLen m w) (IntoRel V) := by
  intro i d ⟨hi, hd⟩
  unfold intoLen
  rw [hw.len, subM_ok hi, hd, List.length_drop]

def intoRun (m : Mode) (w : WM) : Nat → List FCall → Outcome (List (IOut Nat)) :=
  fwdRun (intoNext m w) (intoLen m w)

/-- **`into_iter()`**: every forward call history (`next` / `nth k` / `len`) yields the items -/
theorem intoRun_full (hw : w.Ok V width) (m : Mode) (calls : List FCall) :
    intoRun m w 0 calls = ok (dequeRunM V (calls.map FCall.toICall)) :=
  fwdRun_sim (into_fwdSim hw m) (into_lenSim hw m) calls ⟨Nat.zero_le _, rfl⟩

end WMI

/-! ## 5. `AccessIter` over a parent whose `get` can fault (`ops.rs:287-330`; `WaveletMatrix::iter`) -/

/-- `cursorStep` of Model/Iter.lean with the item fetched through a fallible `get` -/
def cursorStepM {α} (get : Nat → Outcome α) (c : Cursor) : ICall → Outcome (IOut α × Cursor)
  | .next => if c.next ≥ c.limit then ok (.none, c) else do
      let x ← get c.next
      return (.item x, { c with next := c.next + 1 })
  | .nextBack => if c.next ≥ c.limit then ok (.none, c) else do
      let x ← get (c.limit - 1)
      return (.item x, { c with limit := c.limit - 1 })
  | .nth k =>
    let n := c.next + min k (c.limit - c.next)
    if n ≥ c.limit then ok (.none, { c with next := n }) else do
      let x ← get n
      return (.item x, { c with next := n + 1 })
  | .nthBack k =>
    let l := c.limit - min k (c.limit - c.next)
    if c.next ≥ l then ok (.none, { c with limit := l }) else do
      let x ← get (l - 1)
      return (.item x, { c with limit := l - 1 })
  | .len => ok (.len (c.limit - c.next), c)

def cursorRunM {α} (get : Nat → Outcome α) : Cursor → List ICall → Outcome (List (IOut α))
  | _, [] => ok []
  | c, k :: ks => do
    let r ← cursorStepM get c k
    let os ← cursorRunM get r.2 ks
    return r.1 :: os

/-- while every index below `n` can be fetched, the fallible machine is the pure one and never faults -/
theorem cursorStepM_eq {α} (get : Nat → Outcome α) (g : Nat → α) (n : Nat) (hg : ∀ i, i < n → get i = ok (g i))
    (c : Cursor) (hc : c.limit ≤ n) (call : ICall) :
    cursorStepM get c call = ok (cursorStep g c call) ∧ (cursorStep g c call).2.limit ≤ n := by
  cases call with
  | next =>
    simp only [cursorStepM, cursorStep]
    by_cases h : c.next ≥ c.limit
    · rw [if_pos h, if_pos h]; exact ⟨rfl, hc⟩
    · rw [if_neg h, if_neg h, hg _ (by omega)]; exact ⟨rfl, hc⟩
  | nextBack =>
    simp only [cursorStepM, cursorStep]
    by_cases h : c.next ≥ c.limit
    · rw [if_pos h, if_pos h]; exact ⟨rfl, hc⟩
    · rw [if_neg h, if_neg h, hg _ (by omega)]; exact ⟨rfl, by show c.limit - 1 ≤ n; omega⟩
  | nth k =>
    simp only [cursorStepM, cursorStep]
    by_cases h : c.next + min k (c.limit - c.next) ≥ c.limit
    · rw [if_pos h, if_pos h]; exact ⟨rfl, hc⟩
    · rw [if_neg h, if_neg h, hg _ (by omega)]; exact ⟨rfl, hc⟩
  | nthBack k =>
    simp only [cursorStepM, cursorStep]
    by_cases h : c.next ≥ c.limit - min k (c.limit - c.next)
    · rw [if_pos h, if_pos h]; exact ⟨rfl, by show c.limit - min k (c.limit - c.next) ≤ n; omega⟩
    · rw [if_neg h, if_neg h, hg _ (by omega)]
      exact ⟨rfl, by show c.limit - min k (c.limit - c.next) - 1 ≤ n; omega⟩
  | len => exact ⟨rfl, hc⟩

theorem cursorRunM_eq {α} (get : Nat → Outcome α) (g : Nat → α) (n : Nat) (hg : ∀ i, i < n → get i = ok (g i))
    (calls : List ICall) : ∀ (c : Cursor), c.limit ≤ n → cursorRunM get c calls = ok (cursorRun g c calls) := by
  induction calls with
  | nil => intro c _; rfl
  | cons k ks ih =>
    intro c hc
    obtain ⟨h1, h2⟩ := cursorStepM_eq get g n hg c hc k
    unfold cursorRunM cursorRun
    rw [h1]
    simp only [bind_ok]
    rw [ih _ h2]
    rfl

/-- **`AccessIter` with a fallible `get`**: if `get i` answers `xs[i]` for every `i < |xs|`, every call history
over the full alphabet answers as the reference queue, with no fault -/
theorem cursorRunM_deque {α} (xs : List α) (get : Nat → Outcome α)
    (hget : ∀ i (h : i < xs.length), get i = ok xs[i]) (calls : List ICall) :
    cursorRunM get ⟨0, xs.length⟩ calls = ok (dequeRunM xs calls) := by
  cases xs with
  | nil =>
    have : ∀ (c : Cursor), c.next ≥ c.limit → ∀ cs, cursorRunM get c cs = ok (dequeRunM ([] : List α) cs) := by
      intro c hc cs
      induction cs generalizing c with
      | nil => rfl
      | cons k ks ih =>
        unfold cursorRunM
        cases k with
        | next =>
          simp only [cursorStepM, if_pos hc, bind_ok]
          rw [ih c hc]; rfl
        | nextBack =>
          simp only [cursorStepM, if_pos hc, bind_ok]
          rw [ih c hc]; rfl
        | nth k =>
          simp only [cursorStepM]
          rw [if_pos (by omega), bind_ok, ih _ (by show c.next + min k (c.limit - c.next) ≥ c.limit; omega)]
          simp [dequeRunM, dequeStep]
        | nthBack k =>
          simp only [cursorStepM]
          rw [if_pos (by omega), bind_ok, ih _ (by show c.next ≥ c.limit - min k (c.limit - c.next); omega)]
          simp [dequeRunM, dequeStep]
        | len =>
          simp only [cursorStepM, bind_ok]
          rw [ih c hc]
          have : c.limit - c.next = 0 := by omega
          simp [dequeRunM, dequeStep, this]
    exact this ⟨0, 0⟩ (Nat.le_refl _) calls
  | cons x xs' =>
    have hg : ∀ i, i < (x :: xs').length → get i = ok ((x :: xs')[i]?.getD x) := by
      intro i hi
      rw [hget i hi, List.getElem?_eq_getElem hi]; rfl
    rw [cursorRunM_eq get _ _ hg calls _ (Nat.le_refl _)]
    congr 1
    exact cursorRun_eq (x :: xs') _ (fun i hi => by rw [List.getElem?_eq_getElem hi]; rfl) calls

/-- **`WaveletMatrix::iter()`** (`AccessIter` over `get`): every call history over the full alphabet yields the
items, with no fault -/
theorem wm_iter_run {w : WM} {V : List Nat} {width : Nat} (hw : w.Ok V width) (m : Mode) (calls : List ICall) :
    cursorRunM (w.get m) ⟨0, w.len⟩ calls = ok (dequeRunM V calls) := by
  rw [hw.len]
  exact cursorRunM_deque V (w.get m) (fun i h => get_ok_wm hw m i h) calls

/-! ## 6. the owning `IntoIter` of `IntVector` (`int_vector.rs:366-388`): forward index cursor, exact size -/

/-- `intoIterStep` of Model/Iter.lean as a step function of the forward machine -/
def intoStep {α} (get : Nat → α) (len : Nat) (i : Nat) : Outcome (Option α × Nat) :=
  ok (match intoIterStep get len i with
    | (.item a, j) => (some a, j)
    | (_, j) => (none, j))

/-- `IntoIter::size_hint().0` (`int_vector.rs:380-383`): `self.parent.len() - self.index` -/
def intoStepLen (m : Mode) (len : Nat) (i : Nat) : Outcome Nat := subM m len i

def IntoStepRel {α} (xs : List α) (i : Nat) (d : List α) : Prop := i ≤ xs.length ∧ d = xs.drop i

theorem intoStep_fwdSim {α} (xs : List α) (get : Nat → α) (hx : ∀ i, i < xs.length → xs[i]? = some (get i)) :
    FwdSim (intoStep get xs.length) (IntoStepRel xs) := by
  constructor
  · intro i ⟨hi, hd⟩
    have hl := congrArg List.length hd
    simp only [List.length_nil, List.length_drop] at hl
    refine ⟨i, ?_, hi, hd⟩
    unfold intoStep intoIterStep
    rw [if_pos (by omega)]
  · intro i x d ⟨hi, hd⟩
    have hlt : i < xs.length := by
      have := congrArg List.length hd
      simp only [List.length_cons, List.length_drop] at this
      omega
    rw [List.drop_eq_getElem_cons hlt] at hd
    injection hd with hx' hd
    refine ⟨i + 1, ?_, by omega, hd⟩
    unfold intoStep intoIterStep
    rw [if_neg (by omega)]
    have := hx i hlt
    rw [List.getElem?_eq_getElem hlt] at this
    injection this with this
    rw [hx', this]

theorem intoStep_lenSim {α} (xs : List α) (m : Mode) : LenSim (intoStepLen m xs.length) (IntoStepRel xs) := by
  intro i d ⟨hi, hd⟩
  unfold intoStepLen
  rw [subM_ok hi, hd, List.length_drop]

/-- **owning `IntoIter`**: every forward call history (`next` / `nth k` / `len`) yields the items -/
theorem intoStep_run {α} (xs : List α) (get : Nat → α) (hx : ∀ i, i < xs.length → xs[i]? = some (get i))
    (m : Mode) (calls : List FCall) :
    fwdRun (intoStep get xs.length) (intoStepLen m xs.length) 0 calls =
      ok (dequeRunM xs (calls.map FCall.toICall)) :=
  fwdRun_sim (intoStep_fwdSim xs get hx) (intoStep_lenSim xs m) calls ⟨Nat.zero_le _, rfl⟩

end Sds.Iter2
