/-
Proofs/LoadWF: (A) what the loaders return on an **arbitrary** accepted file — the checks each loader performs
(`…Ld`, "accepted" predicates: exactly the clauses a loader tests), that these checks suffice for the codec law
(`LawfulP IsEof c …Ld`: round trip with any continuation, every strict prefix refused with `eof`), and that what was
read is a serialization of the returned value (`…_load_inv`: `es = c.ser x ++ rest`, up to the un-checked length
prefixes of optional structures and the support structures a loader adds).
(B) the sink protocol of `serialize`: `write_all` calls joined by `?` into a sink that fails after a byte budget.
-/
import Sds.Proofs.Codec2
import Sds.Model.Sink

namespace Sds.LoadWF
open Sds Outcome SupportProofs Codec2

/-! ## A. loaders on arbitrary accepted files -/

/-! ### primitive readers -/

theorem readElem_inv {es r : Elems} {w : Word} (h : readElem es = ok (w, r)) : es = w :: r := by
  cases es with
  | nil => cases h
  | cons a t => injection h with h; injection h with h1 h2; subst h1; subst h2; rfl

theorem readN_inv {n : Nat} {es r ws : Elems} (h : readN n es = ok (ws, r)) : es = ws ++ r ∧ ws.length = n := by
  unfold readN at h
  split at h
  · injection h with h; injection h with h1 h2
    subst h1; subst h2
    exact ⟨(List.take_append_drop n es).symm, by rw [List.length_take]; omega⟩
  · cases h

theorem ite_fault_eq_ok {β} {c : Prop} [Decidable c] {e : Fault} {x : Outcome β} {v : β}
    (h : (if c then fault e else x) = ok v) : ¬ c ∧ x = ok v := by
  by_cases hc : c
  · rw [if_pos hc] at h; cases h
  · rw [if_neg hc] at h; exact ⟨hc, h⟩

theorem ofNat_toNat64 (w : Word) : BitVec.ofNat 64 w.toNat = w := by simp

theorem usizeC_inv {es r : Elems} {n : Nat} (h : usizeC.load es = ok (n, r)) :
    es = BitVec.ofNat 64 n :: r ∧ n < 2 ^ 64 := by
  obtain ⟨⟨w, r1⟩, h1, h2⟩ := Outcome.bind_eq_ok (x := readElem es) h
  injection h2 with h2; injection h2 with h3 h4
  subst h3; subst h4
  exact ⟨by rw [ofNat_toNat64]; exact readElem_inv h1, w.isLt⟩

theorem vecU64C_inv {es r : Elems} {a : Array Word} (h : vecU64C.load es = ok (a, r)) :
    es = vecU64C.ser a ++ r ∧ a.size < 2 ^ 64 := by
  obtain ⟨⟨n, r1⟩, h1, h2⟩ := Outcome.bind_eq_ok (x := readElem es) h
  obtain ⟨⟨ws, r2⟩, h3, h4⟩ := Outcome.bind_eq_ok (x := readN n.toNat r1) h2
  injection h4 with h4; injection h4 with h5 h6
  subst h5; subst h6
  obtain ⟨e1, e2⟩ := readN_inv h3
  have e0 := readElem_inv h1
  refine ⟨?_, by simp [e2]; exact n.isLt⟩
  show es = BitVec.ofNat 64 ws.toArray.size :: ws.toArray.toList ++ r2
  simp only [List.size_toArray, e2, ofNat_toNat64]
  rw [e0, e1]; rfl

theorem pairsOf_length (ws : List Word) (k : Nat) (h : ws.length = 2 * k) :
    (pairsOf ws).length = k ∧ (pairsOf ws).flatMap (fun p => [p.1, p.2]) = ws := by
  induction k generalizing ws with
  | zero =>
    have : ws = [] := List.eq_nil_of_length_eq_zero (by omega)
    subst this; exact ⟨rfl, rfl⟩
  | succ k ih =>
    match ws, h with
    | a :: b :: t, h =>
      have := ih t (by simp at h; omega)
      simp [pairsOf, List.flatMap_cons, this.1, this.2]

theorem vecPairC_inv {es r : Elems} {a : Array (Word × Word)} (h : vecPairC.load es = ok (a, r)) :
    es = vecPairC.ser a ++ r ∧ a.size < 2 ^ 64 := by
  obtain ⟨⟨n, r1⟩, h1, h2⟩ := Outcome.bind_eq_ok (x := readElem es) h
  obtain ⟨⟨ws, r2⟩, h3, h4⟩ := Outcome.bind_eq_ok (x := readN (2 * n.toNat) r1) h2
  injection h4 with h4; injection h4 with h5 h6
  subst h5; subst h6
  obtain ⟨e1, e2⟩ := readN_inv h3
  have e0 := readElem_inv h1
  obtain ⟨p1, p2⟩ := pairsOf_length ws n.toNat e2
  refine ⟨?_, by simp [p1]; exact n.isLt⟩
  show es = BitVec.ofNat 64 (pairsOf ws).toArray.size ::
    ((pairsOf ws).toArray.toList.flatMap fun p => [p.1, p.2]) ++ r2
  simp only [List.size_toArray, p1, p2, ofNat_toNat64]
  rw [e0, e1]; rfl

/-! ### the checks of the loaders ("accepted" predicates)

`…Ld x` lists exactly the facts the loader of the type tests before it returns `x` (plus: every stored length is a
`usize`, which holds of anything read from a file).  Compare with the representation invariants `…WF` used by the
builders: the differences are the facts **trusted on load**. -/

/-- `RawVector::load`: the word count matches the bit length.  **Not** checked: the unused bits of the last word
(`RawVec.WF` requires them to be zero). -/
def rawVecLd (v : RawVec) : Prop := (v.len + 63) / 64 = v.data.size ∧ v.len < 2 ^ 64

/-- `IntVector::load`: `len * width` is the bit length of the data.  **Not** checked: `1 ≤ width ≤ 64`
(`IntVec.WF`), the unused bits. -/
def intVecLd (v : IntVec) : Prop :=
  v.len < 2 ^ 64 ∧ v.width < 2 ^ 64 ∧ v.len * v.width = v.data.len ∧ rawVecLd v.data

/-- `SelectSupport::load`: three integer vectors, and the superblock count splits into long and short ones.
**Not** checked: any relation between the contents and a bitvector. -/
def selSupLd (s : SelSup) : Prop :=
  intVecLd s.samples ∧ intVecLd s.long ∧ intVecLd s.short ∧
  s.superblocks = s.longSuperblocks + s.shortSuperblocks

theorem rawVecLd_of_wf {v : RawVec} (h : rawVecWF v) : rawVecLd v := ⟨h.1.1.symm, h.2⟩
theorem intVecLd_of_wf {v : IntVec} (h : intVecWF v) : intVecLd v :=
  ⟨h.2.1, h.2.2.1, h.1.2.2.1.symm, h.1.2.2.2.1.symm, h.2.2.2⟩
theorem selSupLd_of_wf {s : SelSup} (h : selSupWF s) : selSupLd s :=
  ⟨intVecLd_of_wf h.1, intVecLd_of_wf h.2.1, intVecLd_of_wf h.2.2.1, h.2.2.2⟩

/-! ### raw vector, integer vector, rank / select support: exact -/

theorem rawVecC_load_inv {es r : Elems} {v : RawVec} (h : rawVecC.load es = ok (v, r)) :
    es = rawVecC.ser v ++ r ∧ rawVecLd v := by
  obtain ⟨⟨len, r1⟩, h1, h2⟩ := Outcome.bind_eq_ok (x := usizeC.load es) h
  obtain ⟨⟨data, r2⟩, h3, h4⟩ := Outcome.bind_eq_ok (x := vecU64C.load r1) h2
  dsimp only at h4
  by_cases c : (len + 63) / 64 ≠ data.size
  · rw [if_pos c] at h4; cases h4
  · rw [if_neg c] at h4
    injection h4 with h4; injection h4 with h5 h6
    subst h5; subst h6
    obtain ⟨e1, l1⟩ := usizeC_inv h1
    obtain ⟨e2, _⟩ := vecU64C_inv h3
    refine ⟨?_, Decidable.of_not_not c, l1⟩
    rw [e1, e2]; rfl

theorem intVecC_load_inv {es r : Elems} {v : IntVec} (h : intVecC.load es = ok (v, r)) :
    es = intVecC.ser v ++ r ∧ intVecLd v := by
  obtain ⟨⟨len, r1⟩, h1, h2⟩ := Outcome.bind_eq_ok (x := usizeC.load es) h
  obtain ⟨⟨width, r2⟩, h3, h4⟩ := Outcome.bind_eq_ok (x := usizeC.load r1) h2
  obtain ⟨⟨data, r3⟩, h5, h6⟩ := Outcome.bind_eq_ok (x := rawVecC.load r2) h4
  dsimp only at h6
  by_cases c : len * width ≠ data.len
  · rw [if_pos c] at h6; cases h6
  · rw [if_neg c] at h6
    injection h6 with h6; injection h6 with h7 h8
    subst h7; subst h8
    obtain ⟨e1, l1⟩ := usizeC_inv h1
    obtain ⟨e2, l2⟩ := usizeC_inv h3
    obtain ⟨e3, l3⟩ := rawVecC_load_inv h5
    refine ⟨?_, l1, l2, Decidable.of_not_not c, l3⟩
    rw [e1, e2, e3]; rfl

theorem rankSupC_load_inv {es r : Elems} {s : RankSup} (h : rankSupC.load es = ok (s, r)) :
    es = rankSupC.ser s ++ r ∧ rankSupWF s := by
  obtain ⟨⟨a, r1⟩, h1, h2⟩ := Outcome.bind_eq_ok (x := vecPairC.load es) h
  injection h2 with h2; injection h2 with h3 h4
  subst h3; subst h4
  exact vecPairC_inv h1

theorem selSupC_load_inv {es r : Elems} {s : SelSup} (h : selSupC.load es = ok (s, r)) :
    es = selSupC.ser s ++ r ∧ selSupLd s := by
  obtain ⟨⟨a, r1⟩, h1, h2⟩ := Outcome.bind_eq_ok (x := intVecC.load es) h
  obtain ⟨⟨b, r2⟩, h3, h4⟩ := Outcome.bind_eq_ok (x := intVecC.load r1) h2
  obtain ⟨⟨c, r3⟩, h5, h6⟩ := Outcome.bind_eq_ok (x := intVecC.load r2) h4
  dsimp only at h6
  by_cases cc : SelSup.superblocks ⟨a, b, c⟩ ≠ SelSup.longSuperblocks ⟨a, b, c⟩ + SelSup.shortSuperblocks ⟨a, b, c⟩
  · rw [if_pos cc] at h6; cases h6
  · rw [if_neg cc] at h6
    injection h6 with h6; injection h6 with h7 h8
    subst h7; subst h8
    obtain ⟨e1, l1⟩ := intVecC_load_inv h1
    obtain ⟨e2, l2⟩ := intVecC_load_inv h3
    obtain ⟨e3, l3⟩ := intVecC_load_inv h5
    refine ⟨?_, l1, l2, l3, Decidable.of_not_not cc⟩
    rw [e1, e2, e3]
    show _ = (intVecC.ser a ++ intVecC.ser b ++ intVecC.ser c) ++ _
    simp only [List.append_assoc]

/-! ### the checks suffice for the codec law -/

theorem rawVecC_loads_ld {P} (hP : P (.err .eof)) {v : RawVec} (h : rawVecLd v) :
    Loads P rawVecC.load (rawVecC.ser v) v := by
  obtain ⟨hsz, hlen⟩ := h
  refine Loads.cast (s := [BitVec.ofNat 64 v.len] ++ (vecU64C.ser v.data ++ [])) ?_ (by simp [rawVecC]) rfl
  refine Loads.bind (usizeC_loads hP hlen) ?_
  refine Loads.bind (vecU64C_loads hP (by omega)) ?_
  refine Loads.ite_neg (by omega) ?_
  exact Loads.ret' rfl

theorem intVecC_loads_ld {P} (hP : P (.err .eof)) {v : IntVec} (h : intVecLd v) :
    Loads P intVecC.load (intVecC.ser v) v := by
  obtain ⟨hlen, hw, hdl, hd⟩ := h
  refine Loads.cast (s := [BitVec.ofNat 64 v.len] ++ ([BitVec.ofNat 64 v.width] ++ (rawVecC.ser v.data ++ [])))
    ?_ (by simp [intVecC]) rfl
  refine Loads.bind (usizeC_loads hP hlen) ?_
  refine Loads.bind (usizeC_loads hP hw) ?_
  refine Loads.bind (rawVecC_loads_ld hP hd) ?_
  refine Loads.ite_neg (by omega) ?_
  exact Loads.ret' rfl

theorem selSupC_loads_ld {P} (hP : P (.err .eof)) {s : SelSup} (h : selSupLd s) :
    Loads P selSupC.load (selSupC.ser s) s := by
  obtain ⟨h1, h2, h3, hsb⟩ := h
  refine Loads.cast (s := intVecC.ser s.samples ++ (intVecC.ser s.long ++ (intVecC.ser s.short ++ [])))
    ?_ (by simp [selSupC]) rfl
  refine Loads.bind (intVecC_loads_ld hP h1) ?_
  refine Loads.bind (intVecC_loads_ld hP h2) ?_
  refine Loads.bind (intVecC_loads_ld hP h3) ?_
  refine Loads.ite_neg (fun hne => hne hsb) ?_
  exact Loads.ret' rfl

theorem rawVecC_lawful_ld : LawfulP IsEof rawVecC rawVecLd := ⟨fun _ h => rawVecC_loads_ld isEof_eof h⟩
theorem intVecC_lawful_ld : LawfulP IsEof intVecC intVecLd := ⟨fun _ h => intVecC_loads_ld isEof_eof h⟩
theorem selSupC_lawful_ld : LawfulP IsEof selSupC selSupLd := ⟨fun _ h => selSupC_loads_ld isEof_eof h⟩

/-! ### optional structures and the plain bitvector: exact up to the length prefixes of the options -/

/-- an optional structure as it may appear in an accepted file: for a present one **any** length prefix `n` (`load`
only tests `n ≠ 0`; it is not compared with the size of what follows), `0` for an absent one -/
def optRaw {α} (c : Codec α) (n : Word) : Option α → Elems
  | none => [0]
  | some x => n :: c.ser x

/-- the length prefix `serialize` writes -/
def optLen {α} (c : Codec α) : Option α → Word
  | none => 0
  | some x => BitVec.ofNat 64 (c.ser x).length

theorem optRaw_canon {α} (c : Codec α) (o : Option α) : optRaw c (optLen c o) o = (optionC c).ser o := by
  cases o <;> rfl

theorem optRaw_length {α} (c : Codec α) (n : Word) (o : Option α) :
    (optRaw c n o).length = ((optionC c).ser o).length := by
  cases o <;> rfl

theorem optionC_load_inv {α} {c : Codec α} {W : α → Prop}
    (hc : ∀ es x r, c.load es = ok (x, r) → es = c.ser x ++ r ∧ W x)
    {es r : Elems} {o : Option α} (h : (optionC c).load es = ok (o, r)) :
    ∃ n : Word, es = optRaw c n o ++ r ∧ (∀ x, o = some x → n.toNat ≠ 0 ∧ W x) := by
  obtain ⟨⟨n, r1⟩, h1, h2⟩ := Outcome.bind_eq_ok (x := readElem es) h
  have e0 := readElem_inv h1
  dsimp only at h2
  by_cases c0 : n.toNat = 0
  · rw [if_pos c0] at h2
    injection h2 with h2; injection h2 with h3 h4
    subst h3; subst h4
    refine ⟨0, ?_, fun x hx => by cases hx⟩
    have : n = 0 := by apply BitVec.eq_of_toNat_eq; simpa using c0
    rw [e0, this]; rfl
  · rw [if_neg c0] at h2
    obtain ⟨⟨x, r2⟩, h3, h4⟩ := Outcome.bind_eq_ok (x := c.load r1) h2
    injection h4 with h4; injection h4 with h5 h6
    subst h5; subst h6
    obtain ⟨e1, w1⟩ := hc _ _ _ h3
    refine ⟨n, ?_, fun y hy => ?_⟩
    · rw [e0, e1]; rfl
    · injection hy with hy; subst hy; exact ⟨c0, w1⟩

/-- a plain bitvector as it may appear in an accepted file (`n1 n2 n3`: the length prefixes of the three options) -/
def bitVectorRaw (b : BitVector) (n1 n2 n3 : Word) : Elems :=
  BitVec.ofNat 64 b.ones :: (rawVecC.ser b.data ++ optRaw rankSupC n1 b.rank ++
    optRaw selSupC n2 b.select ++ optRaw selSupC n3 b.selectZero)

/-- … `serialize` writes the one with the true sizes as prefixes -/
theorem bitVectorRaw_canon (b : BitVector) :
    bitVectorRaw b (optLen rankSupC b.rank) (optLen selSupC b.select) (optLen selSupC b.selectZero) =
      bitVectorC.ser b := by
  simp only [bitVectorRaw, optRaw_canon]; rfl

theorem bitVectorRaw_length (b : BitVector) (n1 n2 n3 : Word) :
    (bitVectorRaw b n1 n2 n3).length = (bitVectorC.ser b).length := by
  simp only [bitVectorRaw, bitVectorC, List.length_cons, List.length_append, optRaw_length]

/-- `BitVector::load`: the checks of the raw vector and of each present support, `ones ≤ len`, and one count per
present support (rank blocks for `len`, select superblocks for `ones`, select_zero superblocks for `len - ones`);
the last clause of each select support says that its size fits the length prefix of the option (true of every file
shorter than 2^64 elements).  **Not** checked: that `ones` is the number of set bits of `data`, the unused bits of
`data`, the contents of any support. -/
def bitVectorLd (b : BitVector) : Prop :=
  rawVecLd b.data ∧ b.ones ≤ b.data.len ∧
  (∀ s, b.rank = some s → s.samples.size = (b.data.len + 511) / 512) ∧
  (∀ s, b.select = some s →
    selSupLd s ∧ s.superblocks = (b.ones + 4095) / 4096 ∧ (selSupC.ser s).length < 2 ^ 64) ∧
  (∀ s, b.selectZero = some s →
    selSupLd s ∧ s.superblocks = (b.data.len - b.ones + 4095) / 4096 ∧ (selSupC.ser s).length < 2 ^ 64)

theorem bitVectorLd_of_wf {b : BitVector} (h : bitVectorWF b) : bitVectorLd b := by
  obtain ⟨h1, h2, _, h4, h5, h6⟩ := h
  exact ⟨rawVecLd_of_wf h1, h2, fun s e => (h4 s e).2.1,
    fun s e => ⟨selSupLd_of_wf (h5 s e).1, (h5 s e).2⟩, fun s e => ⟨selSupLd_of_wf (h6 s e).1, (h6 s e).2⟩⟩

theorem bitVectorC_load_inv {es r : Elems} {b : BitVector} (h : bitVectorC.load es = ok (b, r)) :
    ∃ n1 n2 n3 : Word, es = bitVectorRaw b n1 n2 n3 ++ r ∧
      ((bitVectorC.ser b).length < 2 ^ 64 → bitVectorLd b) := by
  obtain ⟨⟨ones, r1⟩, h1, h2⟩ := Outcome.bind_eq_ok (x := usizeC.load es) h
  obtain ⟨⟨data, r2⟩, h3, h4⟩ := Outcome.bind_eq_ok (x := rawVecC.load r1) h2
  dsimp only at h4
  obtain ⟨c0, h4⟩ := ite_fault_eq_ok h4
  obtain ⟨⟨rank, r3⟩, h5, h6⟩ := Outcome.bind_eq_ok (x := (optionC rankSupC).load r2) h4
  dsimp only at h6
  obtain ⟨c1, h6⟩ := ite_fault_eq_ok h6
  obtain ⟨⟨sel, r4⟩, h7, h8⟩ := Outcome.bind_eq_ok (x := (optionC selSupC).load r3) h6
  dsimp only at h8
  obtain ⟨c2, h8⟩ := ite_fault_eq_ok h8
  obtain ⟨⟨selz, r5⟩, h9, h10⟩ := Outcome.bind_eq_ok (x := (optionC selSupC).load r4) h8
  dsimp only at h10
  obtain ⟨c3, h10⟩ := ite_fault_eq_ok h10
  injection h10 with h10; injection h10 with h11 h12
  subst h11; subst h12
  obtain ⟨e1, _⟩ := usizeC_inv h1
  obtain ⟨e2, l2⟩ := rawVecC_load_inv h3
  obtain ⟨n1, e3, l3⟩ := optionC_load_inv (fun _ _ _ => rankSupC_load_inv) h5
  obtain ⟨n2, e4, l4⟩ := optionC_load_inv (fun _ _ _ => selSupC_load_inv) h7
  obtain ⟨n3, e5, l5⟩ := optionC_load_inv (fun _ _ _ => selSupC_load_inv) h9
  refine ⟨n1, n2, n3, ?_, fun hl => ⟨l2, Nat.le_of_not_gt c0, ?_, ?_, ?_⟩⟩
  · rw [e1, e2, e3, e4, e5]
    simp only [bitVectorRaw, List.append_assoc, List.cons_append]
  · intro s hs
    dsimp only at hs
    subst hs
    simpa using c1
  · intro s hs
    dsimp only at hs
    subst hs
    refine ⟨(l4 s rfl).2, by simpa using c2, ?_⟩
    have : (bitVectorC.ser ⟨ones, data, rank, some s, selz⟩).length ≥ (selSupC.ser s).length := by
      simp only [bitVectorC, optionC, List.length_cons, List.length_append]; omega
    omega
  · intro s hs
    dsimp only at hs
    subst hs
    refine ⟨(l5 s rfl).2, by simpa using c3, ?_⟩
    have : (bitVectorC.ser ⟨ones, data, rank, sel, some s⟩).length ≥ (selSupC.ser s).length := by
      simp only [bitVectorC, optionC, List.length_cons, List.length_append]; omega
    omega

theorem bitVectorC_loads_ld {P} (hP : P (.err .eof)) {b : BitVector} (h : bitVectorLd b) :
    Loads P bitVectorC.load (bitVectorC.ser b) b := by
  obtain ⟨hd, hle, hr, hs, hz⟩ := h
  have hlen := hd.2
  have hr' : optWF rankSupC rankSupWF b.rank := by
    cases hb : b.rank with
    | none => trivial
    | some s =>
      have := hr s hb
      refine ⟨?_, rankSupC_ser_pos s, ?_⟩
      · unfold rankSupWF; omega
      · rw [rankSupC_ser_length]; omega
  have hs' : optWF selSupC selSupLd b.select := by
    cases hb : b.select with
    | none => trivial
    | some s => exact ⟨(hs s hb).1, selSupC_ser_pos s, (hs s hb).2.2⟩
  have hz' : optWF selSupC selSupLd b.selectZero := by
    cases hb : b.selectZero with
    | none => trivial
    | some s => exact ⟨(hz s hb).1, selSupC_ser_pos s, (hz s hb).2.2⟩
  refine Loads.cast (s := [BitVec.ofNat 64 b.ones] ++ (rawVecC.ser b.data ++ ((optionC rankSupC).ser b.rank ++
    ((optionC selSupC).ser b.select ++ ((optionC selSupC).ser b.selectZero ++ [])))))
    ?_ (by simp [bitVectorC]) rfl
  refine Loads.bind (usizeC_loads hP (by omega)) ?_
  refine Loads.bind (rawVecC_loads_ld hP hd) ?_
  refine Loads.ite_neg (by omega) ?_
  refine Loads.bind (optionC_loads hP (fun _ => rankSupC_loads hP) hr') ?_
  refine Loads.ite_neg ?_ ?_
  · cases hb : b.rank with
    | none => simp
    | some s => simp [hr s hb]
  refine Loads.bind (optionC_loads hP (fun _ => selSupC_loads_ld hP) hs') ?_
  refine Loads.ite_neg ?_ ?_
  · cases hb : b.select with
    | none => simp
    | some s => simp [(hs s hb).2.1]
  refine Loads.bind (optionC_loads hP (fun _ => selSupC_loads_ld hP) hz') ?_
  refine Loads.ite_neg ?_ ?_
  · cases hb : b.selectZero with
    | none => simp
    | some s => simp [(hz s hb).2.1]
  exact Loads.ret' rfl

theorem bitVectorC_lawful_ld : LawfulP IsEof bitVectorC bitVectorLd :=
  ⟨fun _ h => bitVectorC_loads_ld isEof_eof h⟩

/-! ### enabling supports on a loaded bitvector

`SparseVector::load` and `WMCore::load` add the supports the file does not carry.  A support that **is** in the file
is kept as read.  A support that is **built** passes the checks of `BitVector::load` again iff its superblock count
matches the stored `ones` counter; the model builds it from the set bits of `data` (`SelSup.build … (positionsT …)`),
so this needs the one fact the loader trusts: `ones` is the number of set bits.  (The Rust constructor is driven by
the stored counter `count_ones()` instead, so on a file with a wrong counter the two differ — there the model is
not a transcription of the code; see Props/C06.) -/

/-- the trusted fact: the stored counter is the number of set bits among the first `len` bits, `len < 2^63` -/
def CountOk (b : BitVector) : Prop := b.ones = b.data.bits.count true ∧ b.data.len < 2 ^ 63

theorem enableRank_ld {b : BitVector} (h : bitVectorLd b) : bitVectorLd b.enableRank := by
  obtain ⟨h1, h2, h3, h4, h5⟩ := h
  unfold bitVectorLd
  simp only [enableRank_data, enableRank_ones, enableRank_select, enableRank_selectZero]
  refine ⟨h1, h2, ?_, h4, h5⟩
  intro s e
  rw [enableRank_rank] at e
  cases hr : b.rank with
  | some s0 =>
    rw [hr] at e
    have : s0 = s := by simpa using e
    subst this
    exact h3 s0 hr
  | none =>
    rw [hr] at e
    have : RankSup.build b.data = s := by simpa using e
    subst this
    exact rankBuild_size b.data

theorem enableSelect_ld {b : BitVector} (h : bitVectorLd b) (hc : b.select = none → CountOk b) :
    bitVectorLd b.enableSelect := by
  obtain ⟨h1, h2, h3, h4, h5⟩ := h
  unfold bitVectorLd
  simp only [enableSelect_data, enableSelect_ones, enableSelect_rank, enableSelect_selectZero]
  refine ⟨h1, h2, h3, ?_, h5⟩
  intro s e
  rw [enableSelect_select] at e
  cases hr : b.select with
  | some s0 =>
    rw [hr] at e
    have : s0 = s := by simpa using e
    subst this
    exact h4 s0 hr
  | none =>
    rw [hr] at e
    have : SelSup.build b.len (positionsT .ident b.data) = s := by simpa using e
    subst this
    obtain ⟨hones, hlen⟩ := hc hr
    have := selBuild_wf_T .ident b.data hlen
    rw [hones]
    exact ⟨selSupLd_of_wf this.1, this.2⟩

theorem enableSelectZero_ld {b : BitVector} (h : bitVectorLd b) (hc : b.selectZero = none → CountOk b) :
    bitVectorLd b.enableSelectZero := by
  obtain ⟨h1, h2, h3, h4, h5⟩ := h
  unfold bitVectorLd
  simp only [enableSelectZero_data, enableSelectZero_ones, enableSelectZero_rank, enableSelectZero_select]
  refine ⟨h1, h2, h3, h4, ?_⟩
  intro s e
  rw [enableSelectZero_selectZero] at e
  cases hr : b.selectZero with
  | some s0 =>
    rw [hr] at e
    have : s0 = s := by simpa using e
    subst this
    exact h5 s0 hr
  | none =>
    rw [hr] at e
    have : SelSup.build b.len (positionsT .compl b.data) = s := by simpa using e
    subst this
    obtain ⟨hones, hlen⟩ := hc hr
    have := selBuild_wf_T .compl b.data hlen
    have hcnt : (bitsT .compl b.data.bits).count true = b.data.len - b.ones := by
      show (b.data.bits.map not).count true = _
      rw [count_true_map_not, length_bits, hones]
    rw [hcnt] at this
    exact ⟨selSupLd_of_wf this.1, this.2⟩

theorem CountOk_enableSelect {b : BitVector} : CountOk b.enableSelect ↔ CountOk b := by
  unfold CountOk; rw [enableSelect_data, enableSelect_ones]
theorem CountOk_enableRank {b : BitVector} : CountOk b.enableRank ↔ CountOk b := by
  unfold CountOk; rw [enableRank_data, enableRank_ones]

/-! ### the sparse vector -/

/-- `SparseVector::load`: what the loaders of the parts check, the two consistency checks, and `high` carries
the two select supports (`load` enables them).  **Not** checked: everything `BitVector::load` / `IntVector::load`
do not check, `low.width` against `len`, that the positions encoded are below `len` or sorted. -/
def sparseLd (s : Sparse) : Prop :=
  s.high.enableSelect.enableSelectZero = s.high ∧ bitVectorLd s.high ∧ intVecLd s.low ∧
  s.low.len = s.high.countOnes ∧ s.high.len = s.low.len + Sparse.getBuckets s.len s.low.width ∧
  s.len < 2 ^ 64

theorem sparseLd_of_wf {s : Sparse} (h : Codec2.sparseWF s) : sparseLd s :=
  ⟨h.1, bitVectorLd_of_wf h.2.1, intVecLd_of_wf h.2.2.1, h.2.2.2⟩

theorem sparseC_loads_ld {P} (hP : P (.err .eof)) {s : Sparse} (h : sparseLd s) :
    Loads P sparseC.load (sparseC.ser s) s := by
  obtain ⟨hen, hh, hl, h1, h2, hlen⟩ := h
  refine Loads.cast (s := [BitVec.ofNat 64 s.len] ++ (bitVectorC.ser s.high ++ (intVecC.ser s.low ++ [])))
    ?_ (by simp [sparseC]) rfl
  refine Loads.bind (usizeC_loads hP hlen) ?_
  refine Loads.bind (bitVectorC_loads_ld hP hh) ?_
  refine Loads.bind (intVecC_loads_ld hP hl) ?_
  refine Loads.ite_neg (by rw [hen]; exact fun hne => hne h1) ?_
  refine Loads.ite_neg (by rw [hen]; exact fun hne => hne h2) ?_
  refine Loads.ret' ?_
  rw [hen]

theorem sparseC_lawful_ld : LawfulP IsEof sparseC sparseLd := ⟨fun _ h => sparseC_loads_ld isEof_eof h⟩

/-- what `SparseVector::load` read: the universe size, a bitvector `h0` (as in the file, its option prefixes
arbitrary), the low parts; the returned `high` is `h0` with the select supports enabled -/
theorem sparseC_load_inv {es r : Elems} {s : Sparse} (h : sparseC.load es = ok (s, r)) :
    ∃ (h0 : BitVector) (n1 n2 n3 : Word),
      es = BitVec.ofNat 64 s.len :: (bitVectorRaw h0 n1 n2 n3 ++ intVecC.ser s.low) ++ r ∧
      s.high = h0.enableSelect.enableSelectZero ∧
      ((bitVectorC.ser h0).length < 2 ^ 64 → bitVectorLd h0) ∧ intVecLd s.low ∧
      s.low.len = s.high.countOnes ∧ s.high.len = s.low.len + Sparse.getBuckets s.len s.low.width ∧
      s.len < 2 ^ 64 := by
  obtain ⟨⟨len, r1⟩, h1, h2⟩ := Outcome.bind_eq_ok (x := usizeC.load es) h
  obtain ⟨⟨high, r2⟩, h3, h4⟩ := Outcome.bind_eq_ok (x := bitVectorC.load r1) h2
  obtain ⟨⟨low, r3⟩, h5, h6⟩ := Outcome.bind_eq_ok (x := intVecC.load r2) h4
  dsimp only at h6
  obtain ⟨c1, h6⟩ := ite_fault_eq_ok h6
  obtain ⟨c2, h6⟩ := ite_fault_eq_ok h6
  injection h6 with h6; injection h6 with h7 h8
  subst h7; subst h8
  obtain ⟨e1, l1⟩ := usizeC_inv h1
  obtain ⟨n1, n2, n3, e2, l2⟩ := bitVectorC_load_inv h3
  obtain ⟨e3, l3⟩ := intVecC_load_inv h5
  refine ⟨high, n1, n2, n3, ?_, rfl, l2, l3, Decidable.of_not_not c1, Decidable.of_not_not c2, l1⟩
  rw [e1, e2, e3]
  simp only [List.append_assoc, List.cons_append]

/-- `SparseVector::load` on a file shorter than 2^64 elements: the returned value passes every check of the loader
again (hence round-trips, `sparseC_lawful_ld`) as soon as the supports `load` had to **build** match the stored
counter — which holds when the file carried both select supports, or when the counter is right (`CountOk`) -/
theorem sparseC_loaded {es r : Elems} {s : Sparse} (h : sparseC.load es = ok (s, r)) (hl : es.length < 2 ^ 64) :
    ∃ (h0 : BitVector) (n1 n2 n3 : Word),
      es = BitVec.ofNat 64 s.len :: (bitVectorRaw h0 n1 n2 n3 ++ intVecC.ser s.low) ++ r ∧
      s.high = h0.enableSelect.enableSelectZero ∧ bitVectorLd h0 ∧
      (((h0.select = none ∨ h0.selectZero = none) → CountOk h0) → sparseLd s) := by
  obtain ⟨h0, n1, n2, n3, e, hh, l1, l2, c1, c2, l3⟩ := sparseC_load_inv h
  have hlen : (bitVectorC.ser h0).length < 2 ^ 64 := by
    rw [← bitVectorRaw_length h0 n1 n2 n3]
    have := congrArg List.length e
    simp only [List.length_cons, List.length_append] at this
    omega
  have hld := l1 hlen
  refine ⟨h0, n1, n2, n3, e, hh, hld, fun hc => ?_⟩
  refine ⟨by rw [hh]; exact enableSelSelz_idem h0, ?_, l2, c1, c2, l3⟩
  rw [hh]
  refine enableSelectZero_ld (enableSelect_ld hld (fun hn => hc (Or.inl hn))) (fun hn => ?_)
  rw [enableSelect_selectZero] at hn
  exact CountOk_enableSelect.mpr (hc (Or.inr hn))

/-! ### the core of a wavelet matrix and the wavelet matrix -/

/-- `WMCore::load`: 1..64 levels, each passing the checks of `BitVector::load` and carrying all three supports
(`load` enables them), all of the length of the first.  **Not** checked: everything `BitVector::load` does not
check; that the levels are consistent with each other as a wavelet matrix. -/
def wmCoreLd (c : WMCore) : Prop :=
  1 ≤ c.width ∧ c.width ≤ 64 ∧ (∀ b, b ∈ c.levels.toList → bitVectorLd b ∧ b.enableAll = b) ∧
  (∀ b b', b ∈ c.levels.toList → b' ∈ c.levels.toList → b.len = b'.len)

theorem wmCoreLd_of_wf {c : WMCore} (h : wmCoreWF c) : wmCoreLd c :=
  ⟨h.1, h.2.1, fun b hb => ⟨bitVectorLd_of_wf (h.2.2.1 b hb).1, (h.2.2.1 b hb).2⟩, h.2.2.2⟩

theorem wmCoreLd_len {c : WMCore} (h : wmCoreLd c) : ∃ n, c.len = ok n ∧ ∀ b, b ∈ c.levels.toList → b.len = n := by
  obtain ⟨h1, _, _, heq⟩ := h
  rcases c with ⟨lv⟩
  rcases lv with ⟨l⟩
  cases l with
  | nil => simp [WMCore.width] at h1
  | cons b0 l =>
    refine ⟨b0.len, by simp [WMCore.len], fun b hb => heq b b0 hb (by simp)⟩

theorem lvlStep_loads_ld {P} (hP : P (.err .eof)) (acc : Array BitVector) (b : BitVector) (i : Nat) (len0 : Nat)
    (hb : bitVectorLd b) (hlen : b.len = len0) (hacc : ∀ b0, acc[0]? = some b0 → b0.len = len0) :
    Loads P (fun r => lvlStep (acc, r) i) (bitVectorC.ser b) (acc.push b) := by
  refine Loads.cast (s := bitVectorC.ser b ++ []) ?_ (by simp) rfl
  refine Loads.congr (L' := fun r => bitVectorC.load r >>= fun p => match acc[0]? with
    | some b0 => if p.1.len ≠ b0.len then fault (.err .invalid) else pure (acc.push p.1, p.2)
    | none => pure (acc.push p.1, p.2)) (fun r => rfl) ?_
  refine Loads.bind (bitVectorC_loads_ld hP hb) ?_
  show Loads P (fun r => match acc[0]? with
    | some b0 => if b.len ≠ b0.len then fault (.err .invalid) else pure (acc.push b, r)
    | none => pure (acc.push b, r)) [] (acc.push b)
  cases h0 : acc[0]? with
  | none => exact Loads.ret _
  | some b0 =>
    have := hacc b0 h0
    exact Loads.ite_neg (by omega) (Loads.ret _)

theorem levels_loads_ld {P} (hP : P (.err .eof)) (len0 : Nat) :
    ∀ (L : List BitVector) (idx : List Nat) (acc : Array BitVector), idx.length = L.length →
    (∀ b, b ∈ L → bitVectorLd b ∧ b.len = len0) → (∀ b0, acc[0]? = some b0 → b0.len = len0) →
    Loads P (fun r => idx.foldlM lvlStep (acc, r)) (L.flatMap bitVectorC.ser) (acc ++ L.toArray) := by
  intro L
  induction L with
  | nil =>
    intro idx acc hl _ _
    have : idx = [] := List.eq_nil_of_length_eq_zero (by simpa using hl)
    subst this
    exact Loads.cast (Loads.ret acc) (by simp) (by simp)
  | cons b L ih =>
    intro idx acc hl hL hacc
    cases idx with
    | nil => simp at hl
    | cons i idx =>
      have hb := hL b (by simp)
      refine Loads.congr (fun r => List.foldlM_cons) ?_
      refine Loads.cast (s := bitVectorC.ser b ++ L.flatMap bitVectorC.ser) (x := acc.push b ++ L.toArray)
        ?_ (by simp) ?_
      · exact Loads.bind (lvlStep_loads_ld hP acc b i len0 hb.1 hb.2 hacc)
          (ih idx (acc.push b) (by simpa using hl) (fun b' hb' => hL b' (by simp [hb']))
            (push_head_len acc b len0 hb.2 hacc))
      · simp

theorem wmCoreC_loads_ld {P} (hP : P (.err .eof)) {c : WMCore} (h : wmCoreLd c) :
    Loads P wmCoreC.load (wmCoreC.ser c) c := by
  obtain ⟨n, _, hn⟩ := wmCoreLd_len h
  obtain ⟨h1, h64, hlv, _⟩ := h
  refine Loads.congr wmCoreC_load_eq ?_
  refine Loads.cast (s := [BitVec.ofNat 64 c.width] ++ (c.levels.toList.flatMap bitVectorC.ser ++ []))
    ?_ (by simp [wmCoreC]) rfl
  refine Loads.bind (usizeC_loads hP (by omega)) ?_
  refine Loads.ite_neg (by omega) ?_
  refine Loads.bind (levels_loads_ld hP n c.levels.toList (List.range c.width) #[] (by simp [WMCore.width])
    (fun b hb => ⟨(hlv b hb).1, hn b hb⟩) (by simp)) ?_
  refine Loads.ret' ?_
  rcases c with ⟨lv⟩
  simp only [WMCore.initSupport, Array.toArray_toList, Array.empty_append]
  congr 1
  apply Array.ext'
  rw [Array.toList_map]
  calc lv.toList.map BitVector.enableAll = lv.toList.map id :=
        List.map_congr_left (fun b hb => (hlv b hb).2)
    _ = lv.toList := List.map_id _

theorem wmCoreC_lawful_ld : LawfulP IsEof wmCoreC wmCoreLd := ⟨fun _ h => wmCoreC_loads_ld isEof_eof h⟩

/-- `WaveletMatrix::load`: the core, `len` = the length of the levels, the `first` array as an integer vector.
**Not** checked: the contents of `first` (it is trusted to hold the start offsets), its length against the width. -/
def wmLd (w : WM) : Prop :=
  wmCoreLd w.data ∧ w.data.len = ok w.len ∧ w.len < 2 ^ 64 ∧ intVecLd w.first

theorem wmLd_of_wf {w : WM} (h : wmWF w) : wmLd w :=
  ⟨wmCoreLd_of_wf h.1, h.2.1, h.2.2.1, intVecLd_of_wf h.2.2.2⟩

theorem wmC_loads_ld {P} (hP : P (.err .eof)) {w : WM} (h : wmLd w) : Loads P wmC.load (wmC.ser w) w := by
  obtain ⟨hc, hl, hlen, hf⟩ := h
  refine Loads.cast (s := [BitVec.ofNat 64 w.len] ++ (wmCoreC.ser w.data ++ (intVecC.ser w.first ++ [])))
    ?_ (by simp [wmC]) rfl
  refine Loads.bind (usizeC_loads hP hlen) ?_
  refine Loads.bind (wmCoreC_loads_ld hP hc) ?_
  refine Loads.pure_bind hl ?_
  refine Loads.ite_neg (fun hne => hne rfl) ?_
  refine Loads.bind (intVecC_loads_ld hP hf) ?_
  exact Loads.ret' rfl

theorem wmC_lawful_ld : LawfulP IsEof wmC wmLd := ⟨fun _ h => wmC_loads_ld isEof_eof h⟩

theorem enableAll_ld {b : BitVector} (h : bitVectorLd b)
    (hc : (b.select = none ∨ b.selectZero = none) → CountOk b) : bitVectorLd b.enableAll := by
  unfold BitVector.enableAll
  refine enableSelectZero_ld (enableSelect_ld (enableRank_ld h) (fun hn => ?_)) (fun hn => ?_)
  · rw [enableRank_select] at hn
    exact CountOk_enableRank.mpr (hc (Or.inl hn))
  · rw [enableSelect_selectZero, enableRank_selectZero] at hn
    exact CountOk_enableSelect.mpr (CountOk_enableRank.mpr (hc (Or.inr hn)))

/-- the levels of a core as they may appear in an accepted file: bitvectors back to back, each with its own
(unchecked) option prefixes -/
def levelsRaw : List BitVector → List (Word × Word × Word) → Elems
  | b :: L, n :: ns => bitVectorRaw b n.1 n.2.1 n.2.2 ++ levelsRaw L ns
  | _, _ => []

theorem levelsRaw_length_ge : ∀ (L : List BitVector) (ns : List (Word × Word × Word)), ns.length = L.length →
    ∀ b, b ∈ L → (bitVectorC.ser b).length ≤ (levelsRaw L ns).length := by
  intro L
  induction L with
  | nil => intro _ _ b hb; cases hb
  | cons b0 L ih =>
    intro ns hn b hb
    cases ns with
    | nil => simp at hn
    | cons n ns =>
      simp only [levelsRaw, List.length_append, bitVectorRaw_length]
      rcases List.mem_cons.mp hb with rfl | hb'
      · omega
      · have := ih ns (by simpa using hn) b hb'
        omega

theorem levelsRaw_length : ∀ (L : List BitVector) (ns : List (Word × Word × Word)), ns.length = L.length →
    (levelsRaw L ns).length = (L.flatMap bitVectorC.ser).length := by
  intro L
  induction L with
  | nil => intro ns _; cases ns <;> rfl
  | cons b0 L ih =>
    intro ns hn
    cases ns with
    | nil => simp at hn
    | cons n ns =>
      simp only [levelsRaw, List.length_append, bitVectorRaw_length, List.flatMap_cons]
      rw [ih ns (by simpa using hn)]

theorem lvlStep_inv {acc acc' : Array BitVector} {es r : Elems} {i : Nat}
    (h : lvlStep (acc, es) i = ok (acc', r)) :
    ∃ b, bitVectorC.load es = ok (b, r) ∧ acc' = acc.push b ∧ (∀ b0, acc[0]? = some b0 → b.len = b0.len) := by
  obtain ⟨⟨b, r1⟩, h1, h2⟩ := Outcome.bind_eq_ok (x := bitVectorC.load es) h
  dsimp only at h2
  cases h0 : acc[0]? with
  | none =>
    rw [h0] at h2
    injection h2 with h2; injection h2 with h3 h4
    subst h3; subst h4
    exact ⟨b, h1, rfl, fun b0 hb0 => by cases hb0⟩
  | some b0 =>
    rw [h0] at h2
    dsimp only at h2
    obtain ⟨c, h2⟩ := ite_fault_eq_ok h2
    injection h2 with h2; injection h2 with h3 h4
    subst h3; subst h4
    exact ⟨b, h1, rfl, fun b1 hb1 => by injection hb1 with hb1; subst hb1; exact Decidable.of_not_not c⟩

theorem head_push_append (acc : Array BitVector) (b : BitVector) (X : Array BitVector) :
    (acc.push b ++ X)[0]? = if acc.size = 0 then some b else acc[0]? := by
  by_cases hs : acc.size = 0
  · have : acc = #[] := by simpa using hs
    subst this
    show (#[b] ++ X)[0]? = some b
    rw [Array.getElem?_append_left (by simp)]; rfl
  · rw [if_neg hs, Array.getElem?_append_left (by simp), Array.getElem?_push_lt (by omega),
      Array.getElem?_eq_getElem (by omega)]

theorem levels_inv : ∀ (idx : List Nat) (acc : Array BitVector) (es : Elems) (lv : Array BitVector) (r : Elems),
    idx.foldlM lvlStep (acc, es) = ok (lv, r) →
    ∃ (L : List BitVector) (ns : List (Word × Word × Word)),
      lv = acc ++ L.toArray ∧ L.length = idx.length ∧ ns.length = idx.length ∧ es = levelsRaw L ns ++ r ∧
      (∀ b, b ∈ L → (bitVectorC.ser b).length < 2 ^ 64 → bitVectorLd b) ∧
      (∀ b, b ∈ L → ∀ b0, lv[0]? = some b0 → b.len = b0.len) := by
  intro idx
  induction idx with
  | nil =>
    intro acc es lv r h
    injection h with h; injection h with h1 h2
    subst h1; subst h2
    refine ⟨[], [], by simp, rfl, rfl, rfl, ?_, ?_⟩
    · intro b hb; cases hb
    · intro b hb; cases hb
  | cons i idx ih =>
    intro acc es lv r h
    rw [List.foldlM_cons] at h
    obtain ⟨⟨acc', r1⟩, h1, h2⟩ := Outcome.bind_eq_ok h
    obtain ⟨b, hb, ha, hlen⟩ := lvlStep_inv h1
    subst ha
    obtain ⟨L, ns, e1, e2, e3, e4, e5, e6⟩ := ih _ _ _ _ h2
    obtain ⟨n1, n2, n3, f1, f2⟩ := bitVectorC_load_inv hb
    refine ⟨b :: L, (n1, n2, n3) :: ns, ?_, by simp [e2], by simp [e3], ?_, ?_, ?_⟩
    · rw [e1]; simp
    · rw [f1, e4]; simp only [levelsRaw, List.append_assoc]
    · intro b' hb'
      rcases List.mem_cons.mp hb' with rfl | hb''
      · exact f2
      · exact e5 b' hb''
    · intro b' hb' b0 h0
      rcases List.mem_cons.mp hb' with rfl | hb''
      · rw [e1, head_push_append] at h0
        by_cases hs : acc.size = 0
        · rw [if_pos hs] at h0; injection h0 with h0; rw [h0]
        · rw [if_neg hs] at h0; exact hlen b0 h0
      · exact e6 b' hb'' b0 h0

/-- what `WMCore::load` read: the width and `width` bitvectors `L` (as in the file); the returned levels are those
with all supports enabled -/
theorem wmCoreC_load_inv {es r : Elems} {c : WMCore} (h : wmCoreC.load es = ok (c, r)) :
    ∃ (L : List BitVector) (ns : List (Word × Word × Word)),
      es = BitVec.ofNat 64 c.width :: levelsRaw L ns ++ r ∧
      c.levels.toList = L.map BitVector.enableAll ∧ L.length = c.width ∧ ns.length = c.width ∧
      1 ≤ c.width ∧ c.width ≤ 64 ∧
      (∀ b, b ∈ L → (bitVectorC.ser b).length < 2 ^ 64 → bitVectorLd b) ∧
      (∀ b b', b ∈ L → b' ∈ L → b.len = b'.len) := by
  rw [wmCoreC_load_eq] at h
  obtain ⟨⟨width, r1⟩, h1, h⟩ := Outcome.bind_eq_ok h
  dsimp only at h
  obtain ⟨c1, h⟩ := ite_fault_eq_ok h
  obtain ⟨⟨levels, r2⟩, h2, h⟩ := Outcome.bind_eq_ok h
  injection h with h; injection h with h3 h4
  subst h3; subst h4
  obtain ⟨e0, _⟩ := usizeC_inv h1
  obtain ⟨L, ns, e1, e2, e3, e4, e5, e6⟩ := levels_inv _ _ _ _ _ h2
  have hlv : levels = L.toArray := by rw [e1]; simp
  subst hlv
  have hw : (WMCore.initSupport ⟨L.toArray⟩).width = width := by
    simp [WMCore.initSupport, WMCore.width, e2]
  refine ⟨L, ns, ?_, by simp [WMCore.initSupport], by rw [hw, e2]; simp, by rw [hw, e3]; simp,
    by rw [hw]; omega, by rw [hw]; omega, e5, ?_⟩
  · rw [hw, e0, e4]; rfl
  · intro b b' hb hb'
    cases L with
    | nil => cases hb
    | cons b0 L' =>
      have h0 : (b0 :: L').toArray[0]? = some b0 := by simp
      rw [e6 b hb b0 h0, e6 b' hb' b0 h0]

theorem wmCoreC_loaded {es r : Elems} {c : WMCore} (h : wmCoreC.load es = ok (c, r)) (hl : es.length < 2 ^ 64) :
    ∃ (L : List BitVector) (ns : List (Word × Word × Word)),
      es = BitVec.ofNat 64 c.width :: levelsRaw L ns ++ r ∧
      c.levels.toList = L.map BitVector.enableAll ∧ L.length = c.width ∧ ns.length = c.width ∧
      (∀ b, b ∈ L → bitVectorLd b) ∧
      ((∀ b, b ∈ L → (b.select = none ∨ b.selectZero = none) → CountOk b) → wmCoreLd c) := by
  obtain ⟨L, ns, e, hlv, hL, hns, w1, w64, hld, hlen⟩ := wmCoreC_load_inv h
  have hld' : ∀ b, b ∈ L → bitVectorLd b := by
    intro b hb
    refine hld b hb ?_
    have h1 := levelsRaw_length_ge L ns (by omega) b hb
    have h2 := congrArg List.length e
    simp only [List.length_cons, List.length_append] at h2
    omega
  refine ⟨L, ns, e, hlv, hL, hns, hld', fun hc => ⟨w1, w64, ?_, ?_⟩⟩
  · intro b hb
    rw [hlv] at hb
    obtain ⟨b0, hb0, rfl⟩ := List.mem_map.mp hb
    exact ⟨enableAll_ld (hld' b0 hb0) (hc b0 hb0), enableAll_idem b0⟩
  · intro b b' hb hb'
    rw [hlv] at hb hb'
    obtain ⟨b0, hb0, rfl⟩ := List.mem_map.mp hb
    obtain ⟨b1, hb1, rfl⟩ := List.mem_map.mp hb'
    rw [enableAll_len, enableAll_len]
    exact hlen b0 b1 hb0 hb1

theorem wmC_loaded {es r : Elems} {w : WM} (h : wmC.load es = ok (w, r)) (hl : es.length < 2 ^ 64) :
    ∃ (L : List BitVector) (ns : List (Word × Word × Word)),
      es = BitVec.ofNat 64 w.len :: (BitVec.ofNat 64 w.data.width :: levelsRaw L ns ++ intVecC.ser w.first) ++ r ∧
      w.data.levels.toList = L.map BitVector.enableAll ∧ L.length = w.data.width ∧ ns.length = w.data.width ∧
      (∀ b, b ∈ L → bitVectorLd b) ∧
      ((∀ b, b ∈ L → (b.select = none ∨ b.selectZero = none) → CountOk b) → wmLd w) := by
  obtain ⟨⟨len, r1⟩, h1, h2⟩ := Outcome.bind_eq_ok (x := usizeC.load es) h
  obtain ⟨⟨data, r2⟩, h3, h4⟩ := Outcome.bind_eq_ok (x := wmCoreC.load r1) h2
  obtain ⟨n, h5, h6⟩ := Outcome.bind_eq_ok (x := data.len) h4
  dsimp only at h6
  obtain ⟨c1, h6⟩ := ite_fault_eq_ok h6
  obtain ⟨⟨first, r3⟩, h7, h8⟩ := Outcome.bind_eq_ok (x := intVecC.load r2) h6
  injection h8 with h8; injection h8 with h9 h10
  subst h9; subst h10
  obtain ⟨e1, l1⟩ := usizeC_inv h1
  have hl1 : r1.length < 2 ^ 64 := by
    have := congrArg List.length e1
    simp only [List.length_cons] at this
    omega
  obtain ⟨L, ns, e2, hlv, hL, hns, hld, hcore⟩ := wmCoreC_loaded h3 hl1
  obtain ⟨e3, l3⟩ := intVecC_load_inv h7
  have hn : n = len := Decidable.of_not_not c1
  subst hn
  refine ⟨L, ns, ?_, hlv, hL, hns, hld, fun hc => ⟨hcore hc, h5, l1, l3⟩⟩
  rw [e1, e2, e3]
  simp only [List.append_assoc, List.cons_append]

/-! ### the run-length encoded vector: exact -/

/-- `RLVector::load`: the checks of the two integer vectors, one sample pair per 64-unit block of `data`, and the
three sample indexes are what `SampleIndex::new` builds from the stored samples (they are not stored; a failing
construction — an assertion of `SampleIndex::new`, an overflowing subtraction in checked mode — makes `load` fail
or panic, so whatever is returned has them).  This is `Codec2.rlWFg` with the loader-level predicate for the two
integer vectors.  **Not** checked: `ones ≤ len`, that the samples are the block starts of `data`, that `data`
decodes to `ones` ones in `len` bits. -/
def rlLd (m : Mode) (v : RL) : Prop :=
  intVecLd v.samples ∧ intVecLd v.data ∧ v.samples.len / 2 = (v.data.len + 63) / 64 ∧
  v.len < 2 ^ 64 ∧ v.ones < 2 ^ 64 ∧
  SampleIndex.new m (bitsCol v.samples) v.len = ok v.rankIndex ∧
  SampleIndex.new m (onesCol v.samples) v.ones = ok v.selectIndex ∧
  ∃ Z z, zerosColQ m v.samples (v.samples.len / 2) = ok Z ∧ subM m v.len v.ones = ok z ∧
    SampleIndex.new m Z z = ok v.selectZeroIndex

theorem rlLd_of_wfg {m : Mode} {v : RL} (h : rlWFg m v) : rlLd m v :=
  ⟨intVecLd_of_wf h.1, intVecLd_of_wf h.2.1, h.2.2⟩

theorem rlC_loads_ld {P} (hP : P (.err .eof)) (m : Mode) {v : RL} (h : rlLd m v) :
    Loads P (rlC m).load ((rlC m).ser v) v := by
  obtain ⟨hs, hd, hsb, hlen, hones, hri, hsi, Z, z, hZ, hz, hzi⟩ := h
  refine Loads.congr (rlC_load_eq m) ?_
  refine Loads.cast (s := [BitVec.ofNat 64 v.len] ++ ([BitVec.ofNat 64 v.ones] ++
    (intVecC.ser v.samples ++ (intVecC.ser v.data ++ [])))) ?_ (by simp [rlC]) rfl
  refine Loads.bind (usizeC_loads hP hlen) ?_
  refine Loads.bind (usizeC_loads hP hones) ?_
  refine Loads.bind (intVecC_loads_ld hP hs) ?_
  refine Loads.bind (intVecC_loads_ld hP hd) ?_
  refine Loads.ite_neg (fun hne => hne hsb) ?_
  refine Loads.pure_bind (bitsColQ_eq v.samples) ?_
  refine Loads.pure_bind (onesColQ_eq v.samples) ?_
  refine Loads.pure_bind hZ ?_
  refine Loads.pure_bind hri ?_
  refine Loads.pure_bind hsi ?_
  refine Loads.pure_bind hz ?_
  refine Loads.pure_bind hzi ?_
  exact Loads.ret' rfl

theorem rlC_lawful_ld (m : Mode) : LawfulP IsEof (rlC m) (rlLd m) := ⟨fun _ h => rlC_loads_ld isEof_eof m h⟩

theorem rlC_load_inv (m : Mode) {es r : Elems} {v : RL} (h : (rlC m).load es = ok (v, r)) :
    es = (rlC m).ser v ++ r ∧ rlLd m v := by
  rw [rlC_load_eq] at h
  obtain ⟨⟨len, r1⟩, h1, h⟩ := Outcome.bind_eq_ok h
  obtain ⟨⟨ones, r2⟩, h2, h⟩ := Outcome.bind_eq_ok h
  obtain ⟨⟨samples, r3⟩, h3, h⟩ := Outcome.bind_eq_ok h
  obtain ⟨⟨data, r4⟩, h4, h⟩ := Outcome.bind_eq_ok h
  dsimp only at h
  obtain ⟨c, h⟩ := ite_fault_eq_ok h
  rw [bitsColQ_eq, bind_ok, onesColQ_eq, bind_ok] at h
  obtain ⟨Z, hZ, h⟩ := Outcome.bind_eq_ok h
  obtain ⟨ri, hri, h⟩ := Outcome.bind_eq_ok h
  obtain ⟨si, hsi, h⟩ := Outcome.bind_eq_ok h
  obtain ⟨z, hz, h⟩ := Outcome.bind_eq_ok h
  obtain ⟨zi, hzi, h⟩ := Outcome.bind_eq_ok h
  injection h with h; injection h with h5 h6
  subst h5; subst h6
  obtain ⟨e1, l1⟩ := usizeC_inv h1
  obtain ⟨e2, l2⟩ := usizeC_inv h2
  obtain ⟨e3, l3⟩ := intVecC_load_inv h3
  obtain ⟨e4, l4⟩ := intVecC_load_inv h4
  refine ⟨?_, l3, l4, Decidable.of_not_not c, l1, l2, hri, hsi, Z, z, hZ, hz, hzi⟩
  rw [e1, e2, e3, e4]
  simp only [rlC, List.append_assoc, List.cons_append]

/-! ## B. the sink protocol: `write_all` calls joined by `?` into a sink with a byte budget -/

section SinkProofs
open Sink

theorem sink_eta (s : Sink) : (⟨s.content, s.budget, s.e⟩ : Sink) = s := rfl

/-- `write_all` on a budgeted sink, closed form: the whole buffer is accepted iff it fits the budget; otherwise
exactly the first `budget` bytes are accepted and the sink's error is returned -/
theorem writeAll_eq (s : Sink) (buf : List UInt8) :
    s.writeAll buf =
      if buf.length ≤ s.budget then (⟨s.content ++ buf, s.budget - buf.length, s.e⟩, ok ())
      else (⟨s.content ++ buf.take s.budget, 0, s.e⟩, fault (.err s.e)) := by
  rcases s with ⟨content, budget, e⟩
  unfold writeAll
  by_cases h0 : buf.length = 0
  · have : buf = [] := List.eq_nil_of_length_eq_zero h0
    subst this
    simp [writeAllLoop]
  · obtain ⟨k, hk⟩ : ∃ k, buf.length + 1 = k + 2 := ⟨buf.length - 1, by omega⟩
    rw [hk]
    unfold writeAllLoop
    rw [if_neg h0]
    unfold write
    by_cases hb : budget = 0
    · subst hb
      simp only [if_true]
      rw [if_neg (by omega)]
      simp
    · simp only [if_neg hb]
      have hn : min buf.length budget ≠ 0 := by omega
      simp only [if_neg hn]
      unfold writeAllLoop
      by_cases hle : buf.length ≤ budget
      · have hm : min buf.length budget = buf.length := by omega
        rw [hm, if_pos (by simp), if_pos hle, List.take_length]
      · have hm : min buf.length budget = budget := by omega
        rw [hm, if_neg (by simp; omega), if_neg hle]
        unfold write
        simp

/-- the `?`-joined sequence, closed form, for **every** list of chunks -/
theorem serializeTo_eq : ∀ (chunks : List (List UInt8)) (s : Sink),
    serializeTo s chunks =
      if chunks.flatten.length ≤ s.budget then
        (⟨s.content ++ chunks.flatten, s.budget - chunks.flatten.length, s.e⟩, ok ())
      else (⟨s.content ++ chunks.flatten.take s.budget, 0, s.e⟩, fault (.err s.e)) := by
  intro chunks
  induction chunks with
  | nil => intro s; simp [serializeTo, sink_eta]
  | cons c cs ih =>
    intro s
    unfold serializeTo
    rw [writeAll_eq]
    by_cases hc : c.length ≤ s.budget
    · rw [if_pos hc]
      simp only []
      rw [ih]
      simp only [List.flatten_cons, List.length_append]
      by_cases ht : cs.flatten.length ≤ s.budget - c.length
      · rw [if_pos ht, if_pos (by omega)]
        simp only [List.append_assoc, Nat.sub_sub]
      · rw [if_neg ht, if_neg (by omega)]
        simp only [List.append_assoc, List.take_append, List.take_of_length_le hc]
    · rw [if_neg hc]
      simp only [List.flatten_cons, List.length_append]
      rw [if_neg (by omega), List.take_append_of_le_length (by omega)]

end SinkProofs

/-- **serialization into a sink with byte budget `b`**, for every codec, every value and **every** partition of
the output bytes into consecutive chunks (one `write_all` per chunk, joined by `?`): with `L` the number of bytes,
`b ≥ L` → `Ok(())` and the sink holds exactly the bytes; `b < L` → the result is the sink's error (never `Ok`), and
the sink holds exactly the first `b` bytes, a strict prefix. -/
theorem serialize_to_budget_sink {α} (c : Codec α) (x : α) (chunks : List (List UInt8))
    (hchunks : chunks.flatten = toBytes (c.ser x)) (b : Nat) (e : ErrKind) :
    (8 * c.size x ≤ b →
      Sink.serializeTo (Sink.new b e) chunks = (⟨toBytes (c.ser x), b - 8 * c.size x, e⟩, ok ())) ∧
    (b < 8 * c.size x →
      (Sink.serializeTo (Sink.new b e) chunks).2 = fault (.err e) ∧
      (Sink.serializeTo (Sink.new b e) chunks).1.content = (toBytes (c.ser x)).take b ∧
      (Sink.serializeTo (Sink.new b e) chunks).1.content.length = b ∧
      (Sink.serializeTo (Sink.new b e) chunks).1.content.length < (toBytes (c.ser x)).length) := by
  have hL : chunks.flatten.length = 8 * c.size x := by rw [hchunks, length_toBytes]; rfl
  rw [serializeTo_eq, hchunks]
  rw [hchunks] at hL
  constructor
  · intro h
    rw [if_pos (by simp only [Sink.new]; omega)]
    simp [Sink.new, hL]
  · intro h
    rw [if_neg (by simp only [Sink.new]; omega)]
    refine ⟨rfl, ?_, ?_, ?_⟩
    · simp [Sink.new]
    · simp only [Sink.new, List.nil_append, List.length_take]; omega
    · simp only [Sink.new, List.nil_append, List.length_take]; omega

end Sds.LoadWF
