/-
Proofs/Round: the rounding helpers equal their mathematical values on their documented domains and
fault exactly as modelled outside them.
-/
import Sds.Model.Bits

namespace Sds
open Outcome

theorem bitsToWords_ok (m : Mode) (n : Nat) (h : n + 63 < U64) : bitsToWords m n = ok ((n + 63) / 64) := by
  unfold bitsToWords
  rw [addM_ok h]
  simp

theorem bytesToWords_ok (m : Mode) (n : Nat) (h : n + 7 < U64) : bytesToWords m n = ok ((n + 7) / 8) := by
  unfold bytesToWords
  rw [addM_ok h]
  simp

theorem wordsToBits_ok (m : Mode) (n : Nat) (h : n * 64 < U64) : wordsToBits m n = ok (n * 64) := mulM_ok h
theorem wordsToBytes_ok (m : Mode) (n : Nat) (h : n * 8 < U64) : wordsToBytes m n = ok (n * 8) := mulM_ok h

theorem roundUpToWordBits_ok (m : Mode) (n : Nat) (h : n + 63 < U64) :
    roundUpToWordBits m n = ok (((n + 63) / 64) * 64) := by
  unfold roundUpToWordBits
  rw [bitsToWords_ok m n h]
  simp only [bind_ok]
  exact wordsToBits_ok m _ (by omega)

theorem roundUpToWordBytes_ok (m : Mode) (n : Nat) (h : n + 7 < U64) :
    roundUpToWordBytes m n = ok (((n + 7) / 8) * 8) := by
  unfold roundUpToWordBytes
  rw [bytesToWords_ok m n h]
  simp only [bind_ok]
  exact wordsToBytes_ok m _ (by omega)

theorem divRoundUp_ok (m : Mode) (v n : Nat) (hn : n ≠ 0) (h : v + n < U64) :
    divRoundUp m v n = ok ((v + n - 1) / n) := by
  unfold divRoundUp
  rw [addM_ok h]
  simp only [bind_ok]
  rw [subM_ok (by omega)]
  simp [hn]

/-- F12: as originally coded the helpers fail at the last value of the documented domain (checked builds) -/
theorem bitsToWordsOld_counterexample :
    U64 - 64 + 63 < U64 ∧ bitsToWordsOld .checked (U64 - 64) = fault (.panic .overflow) := by decide
theorem bytesToWordsOld_counterexample :
    U64 - 8 + 7 < U64 ∧ bytesToWordsOld .checked (U64 - 8) = fault (.panic .overflow) := by decide

theorem splitOffset_eq (n : Nat) : splitOffset n = (n / 64, n % 64) := by
  unfold splitOffset
  rw [Nat.shiftRight_eq_div_pow]
  congr 1
  exact Nat.and_two_pow_sub_one_eq_mod n 6

theorem bitOffset_ok (m : Mode) (i o : Nat) (h : i * 64 + o < U64) : bitOffset m i o = ok (i * 64 + o) := by
  unfold bitOffset
  have e : (i <<< 6) % U64 = i * 64 := by
    rw [Nat.shiftLeft_eq]; apply Nat.mod_eq_of_lt; omega
  rw [e, addM_ok h]

end Sds
