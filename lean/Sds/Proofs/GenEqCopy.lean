/-
Proofs/GenEqCopy: the three conversions `copy_bit_vec` (`BitVector`, `SparseVector`, `RLVector`; generic over the source,
whose `len()`, `count_ones()` and the list `items` of the (rank, position) pairs of its `one_iter()` are parameters), as
TRANSLATED statement by statement from the source (Generated/FnsCopy.lean), are equal to the chains of hand-written
model operations that C11 is stated about.  The model has no "copy" function: each equation is against the fold of the
model operations.

Method: `items_loop` — the translated `for (_, index) in source.one_iter()` (a counter `loopM` reading
`items.getD i (0, 0)`) is the `foldlM` of the body over `items.map (·.2)` (from `for_loop_range`, GenEqLoop4);
`*_copy_pieces` cut each function at the loop; `foldlM_congr_prefix` replaces the translated body by the model's on
every state the MODEL fold reaches.

* plain.  `bv_copy_eq' : … = if every position falls in a word of the vector then ok (BitVector.ofRaw (fold setBit
  (withLen len false))) else fault (.panic .index)` under `len + 63 < U64` only (exact form).  `bv_copy_eq_of_words`
  (weakest hypothesis on the positions: `p / 64 < (len + 63) / 64`), `bv_copy_eq` (`p < len`).  `ones` is unused.
  C11: `bv_copy_eq_set` (the fold is `RawVec.ofBits (bitsOfSet P len)`, C11 `positions_into_plain`), `bv_copy_eq_bits`
  (a source with bits `B`: the result is `BitVector.ofRaw (RawVec.ofBits B)`, C11 `bits_into_plain`).
  Sharp: `bv_copy_ne_len`, `bv_copy_ne_pos`.
* run-length.  `rlCopyModel m len P` = fold of `setRunUnchecked · · 1` (= `set_bit_unchecked`) from `{}`, `setLen len`,
  `RL.ofBuilder`.  `rl_copy_eq_of`: hypotheses on the builders of the model chain only (the `FlushBounds` where a call
  flushes, the representation bounds of `From<RLBuilder>`) — no order on the positions.  `rl_copy_eq`: positions
  strictly increasing below `len < U64`, and `128 * items.length + 319 < U64` (one sample per flushed run at most; the
  bound of `rl_from_builder_eq` on the samples vector).  C11: `rl_copy_eq_calls` (the code computes `RL.ofBuilder` of
  `RL.runBCalls m (RL.callsOf (P × 1) len) {}`, every `set_bit_unchecked` being an accepted `try_set`),
  `rl_copy_eq_bits` (a source with bits `B`: the conversion SUCCEEDS with the canonical `RL.ofBuilder m
  (RLCanon.canonFlushed B)`, length `|B|`, `count true` ones — C11 `bits_into_rl_is_canonical`).
  Sharp: `rl_copy_ne_len` (`len = 2^64`, not a `usize`).  `hn` is inherited from `rl_from_builder_eq`; no
  counterexample is given for it (it would need 2^57 positions).
* sparse.  `spCopyModel w len ones P` = `unwrapRes (SparseBuilder.new w len ones)`, fold of `setUnchecked`,
  `unwrapRes build`; `w = spWidth fw len ones`.  `sp_copy_eq_of`: the hypotheses of `spb_new_eq` (WITHOUT `1 ≤ fw`: the
  `unwrap()` makes the model's `Err` the code's panic, `sp_new_unwrap_eq`), of `spb_set_unchecked_eq` on every builder
  of the model chain, of `sparse_try_from_eq'` on the last.  `sp_copy_eq`: `fw ≤ 64`, `len < U64`, the two bit-length
  bounds of `new`, positions below `len` — NO hypothesis on order, repetitions or number of positions (too many: the
  same assertion panic; too few / `ones > len`: the same `unwrap` panic).  C11: `sp_copy_eq_values` (strictly
  increasing, `ones = items.length`, `fw ≤ 63`: the conversion SUCCEEDS with `Sparse.ofValues w len false P`, which
  `Encodes` the positions — the value of C11 §3).  Sharp: `sp_copy_ne_pos` (a surplus position far outside the
  universe: index panic vs assertion panic — the order of the two writes, `spb_set_unchecked_ne`), `sp_copy_ne_fw`.

NO divergence between the translated code and the model was found on inputs a source can produce (`len()` a `usize`,
positions below it): every counterexample needs a length that is not a `usize` (or within 63 of `2^64`), a position
outside the source, or a width the f64 rule never yields.
-/
import Sds.Generated.FnsCopy
import Sds.Proofs.GenFns
import Sds.Proofs.GenEqVec
import Sds.Proofs.GenEqBuild
import Sds.Proofs.GenEqConstr3
import Sds.Proofs.GenEqConstr4
import Sds.Proofs.GenEqLoop4
import Sds.Proofs.RawVec
import Sds.Proofs.Glue4
import Sds.Proofs.RLCanon

set_option linter.unusedVariables false

namespace Sds.GenEq
open Sds Outcome Generated

private theorem obind_okC {α β : Type} (a : α) (f : α → Outcome β) : (ok a).bind f = f a := rfl

/-! ### the loop `for (_, index) in source.one_iter()` -/

/-- a fold over the counter reading `items.getD j (0, 0)` is the fold over the listed positions -/
theorem foldlM_items {σ : Type} (items : List (Nat × Nat)) (f : σ → Nat → Outcome σ) :
    ∀ k i s, i + k = items.length →
      (List.range' i k).foldlM (fun s j => f s (items.getD j (0, 0)).2) s =
        ((items.drop i).map (·.2)).foldlM f s := by
  intro k
  induction k with
  | zero =>
    intro i s hi
    rw [List.drop_eq_nil_of_le (by omega)]
    rfl
  | succ k ih =>
    intro i s hi
    have hlt : i < items.length := by omega
    rw [List.range'_succ, List.foldlM_cons, List.drop_eq_getElem_cons hlt, List.map_cons, List.foldlM_cons]
    have hget : items.getD i (0, 0) = items[i] := by
      rw [List.getD_eq_getElem?_getD, List.getElem?_eq_getElem hlt]; rfl
    rw [hget]
    simp only [Bind.bind]
    cases f s items[i].2 with
    | fault e => rfl
    | ok s' => exact ih (i + 1) s' (by omega)

/-- `for (_, index) in items { s = f(s, index)? }` as translated (a counter `loopM` reading `items.getD i (0, 0)`)
is the `foldlM` of `f` over the positions -/
theorem items_loop {σ ρ : Type} (items : List (Nat × Nat)) (f : σ → Nat → Outcome σ)
    (step : Nat × σ → Outcome (Ctl (Nat × σ) ρ))
    (h1 : ∀ i s, i < items.length →
      step (i, s) = (f s (items.getD i (0, 0)).2).bind (fun s' => ok (Ctl.next (i + 1, s'))))
    (h2 : ∀ i s, ¬ i < items.length → step (i, s) = ok (Ctl.brk (i, s))) (s : σ) :
    loopM (items.length - 0 + 1) step (0, s) =
      ((items.map (·.2)).foldlM f s).bind (fun s' => ok (Ctl.brk (items.length, s'))) := by
  rw [for_loop_range (ρ := ρ) items.length (fun s j => f s (items.getD j (0, 0)).2) step h1 h2 s,
    List.range_eq_range', foldlM_items items f items.length 0 s (by omega), List.drop_zero]

/-! ### `BitVector::copy_bit_vec` -/

theorem size_setBit (v : RawVec) (i : Nat) (b : Bool) : (v.setBit i b).data.size = v.data.size := by
  simp [RawVec.setBit]

theorem size_foldl_setBit (P : List Nat) : ∀ v : RawVec,
    (P.foldl (fun v i => v.setBit i true) v).data.size = v.data.size := by
  induction P with
  | nil => intro v; rfl
  | cons p t ih => intro v; rw [List.foldl_cons, ih, size_setBit]

theorem size_withLen (len : Nat) (b : Bool) : (RawVec.withLen len b).data.size = (len + 63) / 64 := by
  have h := (RawVec.withLen_WF len b).1
  rw [RawVec.len_withLen] at h
  exact h

/-- the loop of `set_bit` calls, exactly: all the model's `setBit` when every word index is in range, the
index panic of the first out-of-range word otherwise (the model's `setBit` would silently skip it) -/
theorem set_bit_fold (m : Mode) : ∀ (P : List Nat) (v : RawVec),
    P.foldlM (fun v i => gen_RawVector_set_bit m v i true) v =
      if ∀ p ∈ P, p / 64 < v.data.size then ok (P.foldl (fun v i => v.setBit i true) v)
      else fault (.panic .index) := by
  intro P
  induction P with
  | nil => intro v; simp
  | cons p t ih =>
    intro v
    rw [List.foldlM_cons]
    by_cases hp : p / 64 < v.data.size
    · rw [raw_set_bit_eq m v p true hp, bind_ok, ih, size_setBit, List.foldl_cons]
      by_cases ht : ∀ q ∈ t, q / 64 < v.data.size
      · rw [if_pos ht, if_pos (by intro q hq; rcases List.mem_cons.mp hq with h | h; exact h ▸ hp; exact ht q h)]
      · rw [if_neg ht, if_neg (fun h => ht (fun q hq => h q (List.mem_cons_of_mem _ hq)))]
    · rw [raw_set_bit_out m v p true hp, bind_fault, if_neg (fun h => hp (h p (List.mem_cons_self ..)))]

/-- the translated function cut at the loop: `with_len`, the fold of `set_bit` over the listed positions,
`BitVector::from` -/
theorem bv_copy_pieces (m : Mode) (len ones : Nat) (items : List (Nat × Nat)) :
    gen_BitVector_copy_bit_vec m len ones items =
      (gen_RawVector_with_len m len false).bind (fun v0 =>
        ((items.map (·.2)).foldlM (fun v i => gen_RawVector_set_bit m v i true) v0).bind
          (gen_BitVector_from_raw m)) := by
  unfold gen_BitVector_copy_bit_vec
  simp only [Bind.bind]
  cases gen_RawVector_with_len m len false with
  | fault e => rfl
  | ok v0 =>
    simp only [Outcome.bind]
    rw [items_loop (ρ := BitVector) items (fun v i => gen_RawVector_set_bit m v i true) _
      (fun i s hi => by
        simp only [decide_eq_true hi, if_true, Pure.pure]
        rfl)
      (fun i s hi => by simp only [hi, decide_false, Bool.false_eq_true, if_false]; rfl)]
    cases List.foldlM (fun v i => gen_RawVector_set_bit m v i true) v0 (items.map (·.2)) with
    | fault e => rfl
    | ok v =>
      dsimp only [Outcome.bind]

/-- **`BitVector::copy_bit_vec`, exact form** under `len + 63 < U64` (`bits_to_words(len)` of `with_len`): the
model's fold when every listed position falls in a word of the vector, the index panic of `set_bit` otherwise.
`ones` (the source's `count_ones()`) is not used by this conversion. -/
theorem bv_copy_eq' (m : Mode) (len ones : Nat) (items : List (Nat × Nat)) (hl : len + 63 < U64) :
    gen_BitVector_copy_bit_vec m len ones items =
      if ∀ p ∈ items.map (fun x : Nat × Nat => x.2), p / 64 < (len + 63) / 64 then
        ok (BitVector.ofRaw ((items.map (·.2)).foldl (fun v i => v.setBit i true) (RawVec.withLen len false)))
      else fault (.panic .index) := by
  rw [bv_copy_pieces, raw_with_len_eq m len false hl, obind_okC, set_bit_fold, size_withLen]
  by_cases h : ∀ p ∈ items.map (fun x : Nat × Nat => x.2), p / 64 < (len + 63) / 64
  · rw [if_pos h, if_pos h, obind_okC]
    exact bv_from_raw_eq m _ (by rw [size_foldl_setBit, size_withLen]; omega)
  · rw [if_neg h, if_neg h]; rfl

/-- **`BitVector::copy_bit_vec`**, weakest hypothesis on the positions: each falls in a word of the vector -/
theorem bv_copy_eq_of_words (m : Mode) (len ones : Nat) (items : List (Nat × Nat)) (hl : len + 63 < U64)
    (hp : ∀ p ∈ items.map (fun x : Nat × Nat => x.2), p / 64 < (len + 63) / 64) :
    gen_BitVector_copy_bit_vec m len ones items =
      ok (BitVector.ofRaw ((items.map (·.2)).foldl (fun v i => v.setBit i true) (RawVec.withLen len false))) := by
  rw [bv_copy_eq' m len ones items hl, if_pos hp]

/-- **`BitVector::copy_bit_vec`** for positions below the length (what every `one_iter()` yields) -/
theorem bv_copy_eq (m : Mode) (len ones : Nat) (items : List (Nat × Nat)) (hl : len + 63 < U64)
    (hp : ∀ p ∈ items.map (fun x : Nat × Nat => x.2), p < len) :
    gen_BitVector_copy_bit_vec m len ones items =
      ok (BitVector.ofRaw ((items.map (·.2)).foldl (fun v i => v.setBit i true) (RawVec.withLen len false))) :=
  bv_copy_eq_of_words m len ones items hl (fun p h => by have := hp p h; omega)

/-- a position in a word beyond the vector: the code panics (`set_bit` indexes the words checked); the model's
`setBit` (`setIfInBounds`) would leave the vector unchanged, so the hypothesis on the positions is needed -/
theorem bv_copy_out (m : Mode) (len ones : Nat) (items : List (Nat × Nat)) (hl : len + 63 < U64)
    (hp : ¬ ∀ p ∈ items.map (fun x : Nat × Nat => x.2), p / 64 < (len + 63) / 64) :
    gen_BitVector_copy_bit_vec m len ones items = fault (.panic .index) := by
  rw [bv_copy_eq' m len ones items hl, if_neg hp]

/-! ### `RLVector::copy_bit_vec` -/

/-- two folds agree when their steps agree on every state the second one reaches -/
theorem foldlM_congr_prefix {σ : Type} (f g : σ → Nat → Outcome σ) : ∀ (P : List Nat) (s0 : σ),
    (∀ k (hk : k < P.length) s, (P.take k).foldlM g s0 = ok s → f s P[k] = g s P[k]) →
    P.foldlM f s0 = P.foldlM g s0 := by
  intro P
  induction P with
  | nil => intro s0 _; rfl
  | cons p t ih =>
    intro s0 h
    have h0 := h 0 (by simp) s0 rfl
    simp only [List.getElem_cons_zero] at h0
    rw [List.foldlM_cons, List.foldlM_cons, h0]
    show (g s0 p >>= _) = (g s0 p >>= _)
    cases hg : g s0 p with
    | fault e => rfl
    | ok s1 =>
      rw [bind_ok, bind_ok]
      apply ih s1
      intro k hk s hs
      have := h (k + 1) (by simp; omega) s (by
        rw [List.take_succ_cons, List.foldlM_cons, hg]; exact hs)
      simpa using this

/-- the model step of the loop: `set_bit_unchecked(index)` is `set_run_unchecked(index, 1)` -/
abbrev rlStep (m : Mode) (b : RLBuilder) (i : Nat) : Outcome RLBuilder := b.setRunUnchecked m i 1

/-- the model chain the conversion is compared with: the fold of `set_bit_unchecked` over the positions from the
empty builder, then `set_len(len)`, then `From<RLBuilder>` -/
def rlCopyModel (m : Mode) (len : Nat) (P : List Nat) : Outcome RL :=
  (P.foldlM (rlStep m) {}).bind (fun b => (b.setLen m len).bind (RL.ofBuilder m))

/-- the translated function cut at the loop -/
theorem rl_copy_pieces (m : Mode) (len ones : Nat) (items : List (Nat × Nat)) :
    gen_RLVector_copy_bit_vec m len ones items =
      ((items.map (·.2)).foldlM (fun b i => gen_RLBuilder_set_bit_unchecked m b i) {}).bind (fun b =>
        (gen_RLBuilder_set_len m b len).bind (gen_RLVector_from_builder m)) := by
  unfold gen_RLVector_copy_bit_vec
  rw [rlb_new_eq]
  simp only [bind_ok]
  rw [items_loop (ρ := RL) items (fun b i => gen_RLBuilder_set_bit_unchecked m b i) _
    (fun i s hi => by
      simp only [decide_eq_true hi, if_true, Pure.pure]
      rfl)
    (fun i s hi => by simp only [hi, decide_false, Bool.false_eq_true, if_false]; rfl)]
  cases List.foldlM (fun b i => gen_RLBuilder_set_bit_unchecked m b i) {} (items.map (·.2)) with
  | fault e => rfl
  | ok b => rfl

/-- **`RLVector::copy_bit_vec`, general form**: the hypotheses are those of the equations of the pieces, on the
builders the MODEL chain reaches.  `hstep`: the flush bounds at each `set_bit_unchecked` that flushes (a position
not adjacent to `len`, a pending run); `hlen`: the same for `set_len`; `hfin`: the representation bounds of
`From<RLBuilder>`.  No hypothesis orders the positions: out of the safety contract of `set_bit_unchecked` the code
and the model still agree. -/
theorem rl_chain_eq_of (m : Mode) (len : Nat) (P : List Nat)
    (hstep : ∀ k (hk : k < P.length) b, (P.take k).foldlM (rlStep m) {} = ok b →
      P[k] ≠ b.len → b.run.2 ≠ 0 → FlushBounds b)
    (hlen : ∀ b, P.foldlM (rlStep m) {} = ok b → len > b.len → b.run.2 ≠ 0 → FlushBounds b)
    (hfin : ∀ b b', P.foldlM (rlStep m) {} = ok b → b.setLen m len = ok b' →
      b'.len < U64 ∧ b'.ones < U64 ∧ 128 * b'.samples.size + 191 < U64 ∧
      (b'.run.2 ≠ 0 → b'.data.len + 44 < U64 ∧ b'.run.2 ≤ b'.ones ∧ b'.run.1 + b'.run.2 < U64)) :
    (P.foldlM (fun b i => gen_RLBuilder_set_bit_unchecked m b i) {}).bind (fun b =>
        (gen_RLBuilder_set_len m b len).bind (gen_RLVector_from_builder m)) = rlCopyModel m len P := by
  unfold rlCopyModel
  rw [foldlM_congr_prefix (fun b i => gen_RLBuilder_set_bit_unchecked m b i) (rlStep m) P {}
    (fun k hk b hb => rlb_set_bit_unchecked_eq' m b P[k] (hstep k hk b hb))]
  cases hf : P.foldlM (rlStep m) {} with
  | fault e => rfl
  | ok b =>
    rw [obind_okC, obind_okC, rlb_set_len_eq' m b len (hlen b hf)]
    cases hs : b.setLen m len with
    | fault e => rfl
    | ok b' =>
      obtain ⟨h1, h2, h3, h4⟩ := hfin b b' hf hs
      rw [obind_okC, obind_okC]
      exact rl_from_builder_eq m b' h1 h2 h3 h4

theorem rl_copy_eq_of (m : Mode) (len ones : Nat) (items : List (Nat × Nat))
    (hstep : ∀ k (hk : k < (items.map (·.2)).length) b, ((items.map (·.2)).take k).foldlM (rlStep m) {} = ok b →
      (items.map (·.2))[k] ≠ b.len → b.run.2 ≠ 0 → FlushBounds b)
    (hlen : ∀ b, (items.map (·.2)).foldlM (rlStep m) {} = ok b → len > b.len → b.run.2 ≠ 0 → FlushBounds b)
    (hfin : ∀ b b', (items.map (·.2)).foldlM (rlStep m) {} = ok b → b.setLen m len = ok b' →
      b'.len < U64 ∧ b'.ones < U64 ∧ 128 * b'.samples.size + 191 < U64 ∧
      (b'.run.2 ≠ 0 → b'.data.len + 44 < U64 ∧ b'.run.2 ≤ b'.ones ∧ b'.run.1 + b'.run.2 < U64)) :
    gen_RLVector_copy_bit_vec m len ones items = rlCopyModel m len (items.map (·.2)) := by
  rw [rl_copy_pieces]
  exact rl_chain_eq_of m len _ hstep hlen hfin

/-! #### positions in increasing order below `len`: the hypotheses hold -/

theorem setRunUnchecked_samples (m : Mode) (b b' : RLBuilder) (s l : Nat)
    (h : b.setRunUnchecked m s l = ok b') : b'.samples.size ≤ b.samples.size + 1 := by
  unfold RLBuilder.setRunUnchecked at h
  by_cases hl : l = 0
  · rw [if_pos hl] at h; cases h; omega
  · rw [if_neg hl] at h
    by_cases hs : s = b.len
    · rw [if_pos hs] at h
      cases h1 : addM m b.len l with
      | fault e => rw [h1] at h; cases h
      | ok a1 =>
        cases h2 : addM m b.ones l with
        | fault e => rw [h1, h2] at h; cases h
        | ok a2 =>
          cases h3 : addM m b.run.2 l with
          | fault e => rw [h1, h2, h3] at h; cases h
          | ok a3 => rw [h1, h2, h3] at h; cases h; show b.samples.size ≤ _; omega
    · rw [if_neg hs] at h
      cases h0 : b.flush m with
      | fault e => rw [h0] at h; cases h
      | ok b1 =>
        have hf := (flush_fields m b b1 h0).2.2
        cases h1 : addM m s l with
        | fault e => rw [h0, h1] at h; cases h
        | ok a1 =>
          cases h2 : addM m b1.ones l with
          | fault e => rw [h0, h1] at h; simp only [bind_ok, h2] at h; cases h
          | ok a2 => rw [h0, h1] at h; simp only [bind_ok, h2] at h; cases h; exact hf

theorem setLen_samples (m : Mode) (b b' : RLBuilder) (n : Nat) (h : b.setLen m n = ok b') :
    b'.samples.size ≤ b.samples.size + 1 := by
  unfold RLBuilder.setLen at h
  by_cases hc : n > b.len
  · rw [if_pos hc] at h
    cases h0 : b.flush m with
    | fault e => rw [h0] at h; cases h
    | ok b1 => rw [h0] at h; cases h; exact (flush_fields m b b1 h0).2.2
  · rw [if_neg hc] at h; cases h; omega

/-- the loop over positions in increasing order below `N`, from a reachable builder with at most `c` samples:
every call is inside the safety contract (`try_set` would accept it and IS `set_bit_unchecked`), the translated
loop computes the model's builder, the invariant is kept and each call adds at most one sample -/
theorem rl_fold_spec (m : Mode) (N : Nat) (hN : N < U64) : ∀ (P : List Nat) (b : RLBuilder) (c : Nat),
    b.Inv → b.samples.size ≤ c → b.len ≤ N → P.Pairwise (· < ·) → (∀ p ∈ P, b.len ≤ p ∧ p < N) →
    64 * (c + P.length) + 44 < U64 →
    ∃ b', P.foldlM (rlStep m) b = ok b' ∧ P.foldlM (fun b i => b.trySet m i 1) b = ok b' ∧
      P.foldlM (fun b i => gen_RLBuilder_set_bit_unchecked m b i) b = ok b' ∧
      b'.Inv ∧ b'.samples.size ≤ c + P.length ∧ b'.len ≤ N := by
  have hU := U64_eq
  intro P
  induction P with
  | nil => intro b c hi hc hl _ _ _; exact ⟨b, rfl, rfl, rfl, hi, by simpa using hc, hl⟩
  | cons p t ih =>
    intro b c hi hc hl hpw hb hs
    obtain ⟨hp1, hp2⟩ := hb p (List.mem_cons_self ..)
    rw [List.pairwise_cons] at hpw
    rw [List.length_cons] at hs
    obtain ⟨b1, e1, i1, _, hne⟩ := (RLBuilder.trySet_spec m hi p 1 (by decide)).2 (by omega)
    obtain ⟨l1, _, _⟩ := hne (by decide)
    have e1' : rlStep m b p = ok b1 := by
      unfold RLBuilder.trySet at e1
      rw [if_neg (by omega), if_neg (by omega)] at e1
      exact e1
    have hs1 := setRunUnchecked_samples m b b1 p 1 e1'
    have eg : gen_RLBuilder_set_bit_unchecked m b p = ok b1 := by
      rw [rlb_set_bit_unchecked_eq_of_inv m b p hi (by omega)]; exact e1'
    obtain ⟨b', f1, f2, f3, i', s', l'⟩ := ih b1 (c + 1) i1 (by omega) (by omega) hpw.2
      (fun q hq => ⟨by have := hpw.1 q hq; omega, (hb q (List.mem_cons_of_mem _ hq)).2⟩) (by omega)
    refine ⟨b', ?_, ?_, ?_, i', by rw [List.length_cons]; omega, l'⟩
    · rw [List.foldlM_cons, e1', bind_ok]; exact f1
    · rw [List.foldlM_cons, e1, bind_ok]; exact f2
    · rw [List.foldlM_cons, eg, bind_ok]; exact f3

/-- **`RLVector::copy_bit_vec`** for what a `one_iter()` yields: positions in strictly increasing order below
`len`, a `usize` length.  `hn` bounds the number of listed positions (hence of samples: one per flushed run at most)
so that the compressed samples vector of `From<RLBuilder>` has a representable bit length; `ones` is not used by
this conversion.  The model chain succeeds and every intermediate call is within the safety contract. -/
theorem rl_copy_eq (m : Mode) (len ones : Nat) (items : List (Nat × Nat)) (hl : len < U64)
    (hsorted : (items.map (·.2)).Pairwise (· < ·)) (hp : ∀ p ∈ items.map (·.2), p < len)
    (hn : 128 * items.length + 319 < U64) :
    gen_RLVector_copy_bit_vec m len ones items = rlCopyModel m len (items.map (·.2)) := by
  have hlen : (items.map (·.2)).length = items.length := List.length_map ..
  obtain ⟨b, f1, _, f3, hi, hs, hbl⟩ := rl_fold_spec m len hl (items.map (·.2)) {} 0 RLBuilder.inv_empty
    (by decide) (Nat.zero_le _) hsorted (fun p h => ⟨Nat.zero_le _, hp p h⟩) (by omega)
  rw [rl_copy_pieces, f3]
  unfold rlCopyModel
  rw [f1, obind_okC, obind_okC, rlb_set_len_eq_of_inv m b len hi (by omega)]
  cases hsl : b.setLen m len with
  | fault e => rfl
  | ok b' =>
    rw [obind_okC, obind_okC]
    have hs' := setLen_samples m b b' len hsl
    exact rl_from_builder_eq_of_inv m b' (RLBuilder.setLen_inv m hi len hl hsl) (by omega)

/-! #### connection with the conversion theorems of C11 (stated on `RL.runBCalls … (RL.callsOf …)`) -/

/-- the call history of C11 (`try_set(p, 1)` per position, then `set_len(n)`) as a fold -/
theorem runBCalls_bits (m : Mode) (n : Nat) : ∀ (P : List Nat) (b : RLBuilder),
    RL.runBCalls m (RL.callsOf (P.map fun i => (i, 1)) n) b =
      (P.foldlM (fun (b : RLBuilder) i => b.trySet m i 1) b).bind (fun b => b.setLen m n) := by
  intro P
  induction P with
  | nil =>
    intro b
    show (b.setLen m n >>= fun b => RL.runBCalls m [] b) = b.setLen m n
    cases b.setLen m n <;> rfl
  | cons p t ih =>
    intro b
    show (b.trySet m p 1 >>= fun b => RL.runBCalls m (RL.callsOf (t.map fun i => (i, 1)) n) b) = _
    rw [List.foldlM_cons]
    cases b.trySet m p 1 with
    | fault e => rfl
    | ok b1 => exact ih b1

/-- **the translated conversion IS the history C11 is stated about**: under the hypotheses of `rl_copy_eq` every
`set_bit_unchecked` is an accepted `try_set(p, 1)`, so the code computes `From<RLBuilder>` of
`runBCalls (callsOf (positions × 1) len) {}` -/
theorem rl_copy_eq_calls (m : Mode) (len ones : Nat) (items : List (Nat × Nat)) (hl : len < U64)
    (hsorted : (items.map (·.2)).Pairwise (· < ·)) (hp : ∀ p ∈ items.map (·.2), p < len)
    (hn : 128 * items.length + 319 < U64) :
    gen_RLVector_copy_bit_vec m len ones items =
      (RL.runBCalls m (RL.callsOf ((items.map (·.2)).map fun i => (i, 1)) len) {}).bind (RL.ofBuilder m) := by
  have hlen : (items.map (·.2)).length = items.length := List.length_map ..
  obtain ⟨b, f1, f2, _, _⟩ := rl_fold_spec m len hl (items.map (·.2)) {} 0 RLBuilder.inv_empty
    (by decide) (Nat.zero_le _) hsorted (fun p h => ⟨Nat.zero_le _, hp p h⟩) (by omega)
  rw [rl_copy_eq m len ones items hl hsorted hp hn, runBCalls_bits, f2]
  unfold rlCopyModel
  rw [f1]
  rfl

/-- **conversion of a source with bits `B` into a run-length vector**: when the source lists `onesPos B` (C11 §1)
and reports `len() = |B|`, the translated `copy_bit_vec` SUCCEEDS with the vector of C11's
`bits_into_rl_is_canonical`: `From<RLBuilder>` of the bit-at-a-time history, equal to the canonical representative
`RL.ofBuilder m (RLCanon.canonFlushed B)` (C11's `rlOf m B`), of length `|B|` with `count true` ones -/
theorem rl_copy_eq_bits (m : Mode) (B : List Bool) (ones : Nat) (items : List (Nat × Nat)) (hB : B.length < U64)
    (hitems : items.map (·.2) = onesPos B) (hn : 128 * items.length + 319 < U64) :
    ∃ b x, RL.runBCalls m (RL.callsOf ((onesPos B).map fun i => (i, 1)) B.length) {} = ok b ∧
      RL.ofBuilder m b = ok x ∧ gen_RLVector_copy_bit_vec m B.length ones items = ok x ∧
      RL.ofBuilder m (RLCanon.canonFlushed B) = ok x ∧ x.len = B.length ∧ x.ones = B.count true := by
  obtain ⟨hr, hbits⟩ := RL.bitCalls_spec B hB
  obtain ⟨b, hb, _⟩ := RL.runBCalls_accepts m B.length hB _ {} RLBuilder.inv_empty hr
  have hc := RL.callsOf_argsOk _ B.length 0 hr hB
  obtain ⟨x, hx, hl, ho, _⟩ := RL.build_iterate_calls_total m _ hc b hb
  have hd := (RL.callsOf_spec _ B.length hr).trans hbits
  have hcf := RLCanon.ofBuilder_closed_form m _ hc b hb
  rw [hd] at hl ho hcf
  refine ⟨b, x, hb, hx, ?_, hcf ▸ hx, hl, ho⟩
  rw [rl_copy_eq_calls m B.length ones items hB (by rw [hitems]; exact onesPos_pairwise B)
    (by rw [hitems]; exact onesPos_lt B) hn, hitems, hb]
  exact hx

/-! ### `SparseVector::copy_bit_vec` -/

/-- a builder method lifted to the Rust layout, on the Rust layout of a model builder -/
theorem spbrLift_spbR (f : SparseBuilder → Outcome SparseBuilder) (b : SparseBuilder) :
    spbrLift f (spbR b) = (f b).bind (fun b' => ok (spbR b')) := by
  unfold spbrLift
  show (f b >>= _) = _
  cases f b <;> rfl

/-- the loop on the Rust layout is the loop on the model's flat layout -/
theorem spbr_fold (f : SparseBuilder → Nat → Outcome SparseBuilder) : ∀ (P : List Nat) (b : SparseBuilder),
    P.foldlM (fun br i => spbrLift (fun b => f b i) br) (spbR b) =
      (P.foldlM f b).bind (fun b' => ok (spbR b')) := by
  intro P
  induction P with
  | nil => intro b; rfl
  | cons p t ih =>
    intro b
    rw [List.foldlM_cons, List.foldlM_cons, spbrLift_spbR]
    show ((f b p).bind _ >>= _) = _
    cases f b p with
    | fault e => rfl
    | ok b1 => exact ih b1

/-- `SparseBuilder::new(len, ones).unwrap()`: for EVERY `fw ≤ 64` (no `1 ≤ fw`): with the non-width `fw = 0` the code
panics in `with_len(..).unwrap()` and the model's `new` returns the `Err` of `IntVec.withLen`, which the `unwrap()` of
`copy_bit_vec` turns into the same panic -/
theorem sp_new_unwrap_eq (m : Mode) (fw univ ones : Nat) (hfw2 : fw ≤ 64) (hu : univ < U64)
    (hh : ones + Sparse.getBuckets univ (spWidth fw univ ones) + 63 < U64)
    (hl : ones * spWidth fw univ ones + 63 < U64) :
    unwrapRes (gen_SparseBuilder_new m fw univ ones) =
      (unwrapRes (SparseBuilder.new (spWidth fw univ ones) univ ones)).bind (fun b => ok (spbR b)) := by
  rw [spb_new_eq_any m fw univ ones hfw2 hu hh hl]
  unfold SparseBuilder.new
  by_cases h : ones > univ
  · rw [if_pos h, if_pos h]; rfl
  · rw [if_neg h, if_neg h]
    cases IntVec.withLen ones (spWidth fw univ ones) 0 with
    | ok low => rfl
    | fault e => cases e <;> rfl

/-- the model chain the conversion is compared with: `SparseBuilder::new(len, ones).unwrap()` for the low width `w`,
the fold of `set_unchecked` over the positions, `SparseVector::try_from(builder).unwrap()` -/
def spCopyModel (w len ones : Nat) (P : List Nat) : Outcome Sparse :=
  (unwrapRes (SparseBuilder.new w len ones)).bind (fun b0 =>
    (P.foldlM SparseBuilder.setUnchecked b0).bind (fun b => unwrapRes b.build))

/-- the translated function cut at the loop -/
theorem sp_copy_pieces (m : Mode) (fw len ones : Nat) (items : List (Nat × Nat)) :
    gen_SparseVector_copy_bit_vec m fw len ones items =
      (unwrapRes (gen_SparseBuilder_new m fw len ones)).bind (fun b0 =>
        ((items.map (·.2)).foldlM
            (fun br i => spbrLift (fun b => gen_SparseBuilder_set_unchecked m b i) br) b0).bind (fun b =>
          unwrapRes (gen_SparseVector_try_from m b))) := by
  unfold gen_SparseVector_copy_bit_vec
  show (unwrapRes (gen_SparseBuilder_new m fw len ones) >>= _) = _
  cases unwrapRes (gen_SparseBuilder_new m fw len ones) with
  | fault e => rfl
  | ok b0 =>
    simp only [bind_ok]
    rw [items_loop (ρ := Sparse) items
      (fun br i => spbrLift (fun b => gen_SparseBuilder_set_unchecked m b i) br) _
      (fun i s hi => by
        simp only [decide_eq_true hi, if_true, Pure.pure]
        rfl)
      (fun i s hi => by simp only [hi, decide_false, Bool.false_eq_true, if_false]; rfl)]
    rw [obind_okC]
    cases List.foldlM (fun br i => spbrLift (fun b => gen_SparseBuilder_set_unchecked m b i) br) b0
      (items.map (·.2)) with
    | fault e => rfl
    | ok b => rfl

/-- **`SparseVector::copy_bit_vec`, general form**: the hypotheses of `spb_new_eq`, then those of
`spb_set_unchecked_eq` on every builder the MODEL chain reaches, then that of `sparse_try_from_eq'` on the last one -/
theorem sp_copy_eq_of (m : Mode) (fw len ones : Nat) (items : List (Nat × Nat))
    (hfw2 : fw ≤ 64) (hu : len < U64)
    (hh : ones + Sparse.getBuckets len (spWidth fw len ones) + 63 < U64)
    (hl : ones * spWidth fw len ones + 63 < U64)
    (hstep : ∀ b0, SparseBuilder.new (spWidth fw len ones) len ones = ok b0 →
      ∀ k (hk : k < (items.map (·.2)).length) (b : SparseBuilder),
        ((items.map (·.2)).take k).foldlM SparseBuilder.setUnchecked b0 = ok b →
        b.low.WF ∧ b.low.len * b.low.width < U64 ∧ (items.map (·.2))[k] >>> b.low.width + b.len < U64 ∧
        (items.map (·.2))[k] + b.increment < U64 ∧
        (b.len < b.low.len ∨ ((items.map (·.2))[k] >>> b.low.width + b.len) / 64 < b.high.data.size))
    (hfin : ∀ b0 b, SparseBuilder.new (spWidth fw len ones) len ones = ok b0 →
      (items.map (·.2)).foldlM SparseBuilder.setUnchecked b0 = ok b → b.len = b.low.len →
      64 * b.high.data.size < U64) :
    gen_SparseVector_copy_bit_vec m fw len ones items =
      spCopyModel (spWidth fw len ones) len ones (items.map (·.2)) := by
  rw [sp_copy_pieces, sp_new_unwrap_eq m fw len ones hfw2 hu hh hl]
  unfold spCopyModel
  cases hnew : unwrapRes (SparseBuilder.new (spWidth fw len ones) len ones) with
  | fault e => rfl
  | ok b0 =>
    have hnew' : SparseBuilder.new (spWidth fw len ones) len ones = ok b0 := by
      cases hx : SparseBuilder.new (spWidth fw len ones) len ones with
      | ok a => rw [hx] at hnew; exact hnew
      | fault e => rw [hx] at hnew; cases e <;> cases hnew
    rw [obind_okC, obind_okC, obind_okC, spbr_fold,
      foldlM_congr_prefix (fun b i => gen_SparseBuilder_set_unchecked m b i) SparseBuilder.setUnchecked _ b0
        (fun k hk b hb => by
          obtain ⟨h1, h2, h3, h4, h5⟩ := hstep b0 hnew' k hk b hb
          exact spb_set_unchecked_eq m b _ h1 h2 h3 h4 h5)]
    cases hf : (items.map (·.2)).foldlM SparseBuilder.setUnchecked b0 with
    | fault e => rfl
    | ok b =>
      rw [obind_okC, obind_okC, obind_okC]
      exact congrArg unwrapRes (sparse_try_from_eq' m (spbR b) (fun hfull => hfin b0 b hnew' hf hfull))

/-! #### positions below `len`: the hypotheses hold -/

/-- the builders the model chain reaches from a reachable builder, with positions inside the universe, are reachable
builders of the same shape (a `set_unchecked` on a full builder fails, so the chain stops there) -/
theorem sp_fold_inv : ∀ (P : List Nat) (b b' : SparseBuilder), BuildersProofs.SbInv b → (∀ p ∈ P, p < b.univ) →
    P.foldlM SparseBuilder.setUnchecked b = ok b' →
    BuildersProofs.SbInv b' ∧ b'.univ = b.univ ∧ b'.increment = b.increment ∧ b'.low.len = b.low.len ∧
      b'.low.width = b.low.width ∧ b'.high.len = b.high.len := by
  intro P
  induction P with
  | nil =>
    intro b b' hi _ h
    cases h
    exact ⟨hi, rfl, rfl, rfl, rfl, rfl⟩
  | cons p t ih =>
    intro b b' hi hp h
    rw [List.foldlM_cons] at h
    have hpu := hp p (List.mem_cons_self ..)
    by_cases hl : b.len < b.capacity
    · rw [BuildersProofs.setUnchecked_ok hi hpu hl, bind_ok] at h
      obtain ⟨i', e1, e2, e3, e4, e5⟩ := ih _ b' (BuildersProofs.setResult_inv hi hpu hl)
        (fun q hq => hp q (List.mem_cons_of_mem _ hq)) h
      exact ⟨i', e1, e2, e3, e4, by rw [e5]; simp [BuildersProofs.setResult, RawVec.setBit]⟩
    · exfalso
      have hf : b.setUnchecked p = fault (.panic .assert) := by
        unfold SparseBuilder.setUnchecked
        simp only []
        rw [IntVec.set_fault _ _ _ (by unfold SparseBuilder.capacity at hl; omega)]
        rfl
      rw [hf] at h
      cases h

/-- **`SparseVector::copy_bit_vec`** for positions below `len` (what every `one_iter()` yields).  `hfw2`: the value of
the f64 rule is at most 64 (`1 ≤ fw` is NOT needed here, see `sp_new_unwrap_eq`); `hu`: `len` is a `usize`; `hh`, `hl`: the bit lengths of `high` and `low` are
representable (the hypotheses of `spb_new_eq`; `hh` also covers the bit counter of `BitVector::from(high)`).
NO hypothesis on the order of the positions, on repetitions, or on their number: `set_unchecked` does not check the
order; with `ones > len` both sides panic in `new(..).unwrap()`; with more than `ones` positions both panic in the
assertion of `IntVector::set` (the high bit written first is in range); with fewer both panic in
`try_from(..).unwrap()`. -/
theorem sp_copy_eq (m : Mode) (fw len ones : Nat) (items : List (Nat × Nat))
    (hfw2 : fw ≤ 64) (hu : len < U64)
    (hh : ones + Sparse.getBuckets len (spWidth fw len ones) + 63 < U64)
    (hl : ones * spWidth fw len ones + 63 < U64)
    (hp : ∀ p ∈ items.map (·.2), p < len) :
    gen_SparseVector_copy_bit_vec m fw len ones items =
      spCopyModel (spWidth fw len ones) len ones (items.map (·.2)) := by
  have hw2 : spWidth fw len ones ≤ 64 := spWidth_le hfw2
  -- the initial builder
  have hinit : ∀ b0, SparseBuilder.new (spWidth fw len ones) len ones = ok b0 →
      BuildersProofs.SbInv b0 ∧ b0.univ = len ∧ b0.increment = 1 ∧ b0.low.len = ones ∧
        b0.low.width = spWidth fw len ones ∧
        b0.high.len = ones + Sparse.getBuckets len (spWidth fw len ones) := by
    intro b0 h0
    have ho : ones ≤ len := by
      apply Classical.byContradiction
      intro hc
      rw [BuildersProofs.new_reject _ _ _ (by omega)] at h0
      cases h0
    have hw1 : 1 ≤ spWidth fw len ones := by
      apply Classical.byContradiction
      intro hc
      rw [BuildersProofs.new_reject_width _ _ _ (Or.inl (by omega))] at h0
      cases h0
    obtain ⟨b, hb, hi, c1, c2, c3, _, _, c6⟩ :=
      BuildersProofs.new_ok (spWidth fw len ones) len ones hw1 hw2 ho (Or.inr hu)
    rw [h0] at hb
    cases hb
    refine ⟨hi, c2, c6, c1, c3, ?_⟩
    have := hi.high_len
    rw [c1, c2, c3] at this
    exact this
  -- every builder reached from it
  have hreach : ∀ b0 (Q : List Nat) b, SparseBuilder.new (spWidth fw len ones) len ones = ok b0 →
      (∀ p ∈ Q, p < len) → Q.foldlM SparseBuilder.setUnchecked b0 = ok b →
      BuildersProofs.SbInv b ∧ b.univ = len ∧ b.increment = 1 ∧ b.low.len = ones ∧
        b.low.width = spWidth fw len ones ∧
        b.high.len = ones + Sparse.getBuckets len (spWidth fw len ones) := by
    intro b0 Q b h0 hQ hf
    obtain ⟨i0, a1, a2, a3, a4, a5⟩ := hinit b0 h0
    obtain ⟨i, e1, e2, e3, e4, e5⟩ := sp_fold_inv Q b0 b i0 (by rw [a1]; exact hQ) hf
    exact ⟨i, e1.trans a1, e2.trans a2, e3.trans a3, e4.trans a4, e5.trans a5⟩
  apply sp_copy_eq_of m fw len ones items hfw2 hu hh hl
  · intro b0 h0 k hk b hb
    obtain ⟨i, e1, e2, e3, e4, e5⟩ := hreach b0 _ b h0
      (fun p hq => hp p (List.mem_of_mem_take hq)) hb
    have hpk : (items.map (·.2))[k] < len := hp _ (List.getElem_mem hk)
    have hsh := BuildersProofs.shr_lt_getBuckets' (w := b.low.width) (Or.inr (e1 ▸ hu)) i.w64 (e1.symm ▸ hpk)
    have hle : b.len ≤ b.low.len := i.len_le
    have hsz := i.high_wf.1
    rw [e1, e4] at hsh
    rw [e5] at hsz
    rw [e2, e3, e4]
    rw [e3] at hle
    refine ⟨i.low_wf, by omega, by omega, by omega, ?_⟩
    by_cases hc : b.len < ones
    · exact Or.inl hc
    · exact Or.inr (by rw [hsz]; omega)
  · intro b0 b h0 hf _
    obtain ⟨i, _, _, _, _, e5⟩ := hreach b0 _ b h0 hp hf
    have hsz := i.high_wf.1
    rw [e5] at hsz
    rw [hsz]; omega

/-! #### connection with the conversion theorems of C11 (stated on `Sparse.ofValues`, the `try_set` chain) -/

/-- an accepted `try_set` chain is the `set_unchecked` chain -/
theorem trySet_fold_ok : ∀ (P : List Nat) (b b' : SparseBuilder),
    P.foldlM (fun b v => b.trySet v) b = ok b' → P.foldlM SparseBuilder.setUnchecked b = ok b' := by
  intro P
  induction P with
  | nil => intro b b' h; exact h
  | cons p t ih =>
    intro b b' h
    rw [List.foldlM_cons] at h ⊢
    cases h1 : b.trySet p with
    | fault e => rw [h1] at h; cases h
    | ok b1 =>
      rw [h1, bind_ok] at h
      have h2 : b.setUnchecked p = ok b1 := by
        unfold SparseBuilder.trySet at h1
        split at h1
        · cases h1
        · split at h1
          · cases h1
          · split at h1
            · cases h1
            · exact h1
      rw [h2, bind_ok]
      exact ih b1 b' h

/-- when the model's checked construction (`Sparse.ofValues`: `new`, one `try_set` per value, `build`) succeeds, the
unchecked chain of the conversion is the same vector -/
theorem spCopyModel_of_ofValues (w n : Nat) (P : List Nat) (s : Sparse)
    (h : Sparse.ofValues w n false P = ok s) : spCopyModel w n P.length P = ok s := by
  unfold Sparse.ofValues at h
  simp only [Bool.false_eq_true, if_false] at h
  unfold spCopyModel
  cases h0 : SparseBuilder.new w n P.length with
  | fault e => rw [h0] at h; cases h
  | ok b0 =>
    rw [h0, bind_ok] at h
    cases h1 : P.foldlM (fun b v => b.trySet v) b0 with
    | fault e => rw [h1] at h; cases h
    | ok b =>
      rw [h1, bind_ok] at h
      show (P.foldlM SparseBuilder.setUnchecked b0).bind _ = _
      rw [trySet_fold_ok P b0 b h1, obind_okC, h]
      rfl

/-- **conversion into a sparse vector, as C11 states it**: for a strictly increasing list of positions below `len`,
`ones = ` their number, a low width of at most 63 (the theorems about `Sparse.ofValues` are stated for `w ≤ 63`), the
translated `copy_bit_vec` SUCCEEDS with the vector `Sparse.ofValues w len false positions` — the value C11's
`positions_into_sparse_closed_form` / `plain_into_sparse_preserves_bits` / `sparse_representation_is_canonical` are
about — which encodes the positions -/
theorem sp_copy_eq_values (m : Mode) (fw len ones : Nat) (items : List (Nat × Nat))
    (hfw1 : 1 ≤ fw) (hfw2 : fw ≤ 63) (hu : len < U64)
    (hh : ones + Sparse.getBuckets len (spWidth fw len ones) + 63 < U64)
    (hl : ones * spWidth fw len ones + 63 < U64)
    (hones : ones = items.length) (hm : items.length < 2 ^ 63)
    (hsorted : (items.map (·.2)).Pairwise (· < ·)) (hp : ∀ p ∈ items.map (·.2), p < len) :
    ∃ s, Sparse.ofValues (spWidth fw len ones) len false (items.map (·.2)) = ok s ∧
      gen_SparseVector_copy_bit_vec m fw len ones items = ok s ∧
      s.Encodes len (spWidth fw len ones) (items.map (·.2)) := by
  have hlen : (items.map (·.2)).length = items.length := List.length_map ..
  obtain ⟨s, hs, he⟩ := ofValues_set_ok (spWidth fw len ones) len (items.map (·.2)) (spWidth_pos hfw1)
    (by unfold spWidth; split <;> omega) (by rw [← U64_eq]; exact hu) (by rw [hlen]; exact hm)
    (sortedStrict_of_pairwise _ hsorted) hp
  refine ⟨s, hs, ?_, he⟩
  rw [sp_copy_eq m fw len ones items (by omega) hu hh hl hp, hones, ← hlen]
  exact spCopyModel_of_ofValues _ _ _ s (by rw [hlen, ← hones]; exact hs)

/-! #### `BitVector::copy_bit_vec`: connection with C11 (`positions_into_plain`, `bits_into_plain`) -/

/-- the converted plain vector is `BitVector::from` of THE raw vector with the membership bits of the positions (any
order, repetitions allowed) -/
theorem bv_copy_eq_set (m : Mode) (len ones : Nat) (items : List (Nat × Nat)) (hl : len + 63 < U64)
    (hp : ∀ p ∈ items.map (fun x : Nat × Nat => x.2), p < len) :
    gen_BitVector_copy_bit_vec m len ones items =
      ok (BitVector.ofRaw (RawVec.ofBits (bitsOfSet (items.map (·.2)) len))) := by
  rw [bv_copy_eq m len ones items hl hp]
  obtain ⟨h1, h2⟩ := copyPositions_spec len (items.map (·.2)) hp
  rw [RawVec.canonical h1 (RawVec.ofBits_WF _) (h2.trans (RawVec.bits_ofBits _).symm)]

/-- a source with bits `B` (it lists `onesPos B`, C11 §1, and reports `len() = |B|`) is converted into
`BitVector::from` of the raw vector the plain builder makes from `B` bit by bit -/
theorem bv_copy_eq_bits (m : Mode) (B : List Bool) (ones : Nat) (items : List (Nat × Nat))
    (hl : B.length + 63 < U64) (hitems : items.map (·.2) = onesPos B) :
    gen_BitVector_copy_bit_vec m B.length ones items = ok (BitVector.ofRaw (RawVec.ofBits B)) := by
  rw [bv_copy_eq m B.length ones items hl (by rw [hitems]; exact onesPos_lt B), hitems]
  have h := Glue.copyBits_spec B
  rw [RawVec.canonical h.1 (RawVec.ofBits_WF B) (h.2.trans (RawVec.bits_ofBits B).symm)]

/-! ### the hypotheses are needed; the theorems are not vacuous -/

/-- `hl` of `bv_copy_eq`: `with_len(len, false)` rounds `len + 63` in `usize` (`raw_with_len_ne_len`) -/
theorem bv_copy_ne_len : gen_BitVector_copy_bit_vec .checked (U64 - 63) 0 [] = fault (.panic .overflow) := by
  decide

/-- the hypothesis on the positions of `bv_copy_eq`: a position in a word beyond the vector makes `set_bit` panic, while
the model's total `setBit` leaves the vector unchanged.  Not a divergence on a real source (`one_iter()` yields
positions below `len()`): the model's `setBit` is simply total.  A position at or above `len` INSIDE the last word
is written by both sides alike (`bv_copy_eq_of_words` covers it). -/
theorem bv_copy_ne_pos :
    gen_BitVector_copy_bit_vec .checked 1 1 [(0, 64)] = fault (.panic .index) ∧
    ([64] : List Nat).foldl (fun v i => v.setBit i true) (RawVec.withLen 1 false) = RawVec.withLen 1 false ∧
    gen_BitVector_copy_bit_vec .checked 1 1 [(0, 5)] =
      ok (BitVector.ofRaw (([5] : List Nat).foldl (fun v i => v.setBit i true) (RawVec.withLen 1 false))) := by
  decide

/-- a conversion, computed: positions in any order, with a repetition -/
theorem bv_copy_example :
    gen_BitVector_copy_bit_vec .checked 4 3 [(0, 3), (1, 0), (2, 2), (3, 3)] =
      ok (BitVector.ofRaw (RawVec.ofBits [true, false, true, true])) := by decide

/-- `hl` of `rl_copy_eq`: with `len = 2^64` (not a `usize`) the rounding of `SampleIndex::new` overflows in the code
only (`rl_from_builder_ne_len`) -/
theorem rl_copy_ne_len :
    (gen_RLVector_copy_bit_vec .checked U64 1 [(0, 0)]).isOk = false ∧
    (rlCopyModel .checked U64 [0]).isOk = true := by decide +kernel

/-- `rl_copy_eq_of` / the agreement does not depend on the safety contract of `set_bit_unchecked`: positions out of
order give the same outcome on both sides — a value without overflow checks, the same overflow panic (the gap of a
run that starts before `tail`) with them; and a conversion inside the contract, computed -/
theorem rl_copy_examples :
    gen_RLVector_copy_bit_vec .wrapping 8 4 [(0, 5), (1, 3), (2, 4), (3, 1)] = rlCopyModel .wrapping 8 [5, 3, 4, 1] ∧
    (rlCopyModel .wrapping 8 [5, 3, 4, 1]).isOk = true ∧
    gen_RLVector_copy_bit_vec .checked 8 4 [(0, 5), (1, 3), (2, 4), (3, 1)] = fault (.panic .overflow) ∧
    rlCopyModel .checked 8 [5, 3, 4, 1] = fault (.panic .overflow) ∧
    gen_RLVector_copy_bit_vec .checked 6 3 [(0, 1), (1, 2), (2, 3)] = rlCopyModel .checked 6 [1, 2, 3] ∧
    (rlCopyModel .checked 6 [1, 2, 3]).toOption.map (fun v => (v.len, v.ones, v.data.items, v.samples.items)) =
      some (6, 3, [1, 2], [0, 0]) := by decide +kernel

/-- the hypothesis on the positions of `sp_copy_eq`: with MORE than `ones` positions AND the extra one outside the
universe, far enough for its high bit to fall outside `high`, the code (which writes the high bit first) panics on the
word index and the model (which writes the low part first) on the assertion of `IntVector::set`
(`spb_set_unchecked_ne`).  Both panic; only the kind differs; outside what any `one_iter()` yields. -/
theorem sp_copy_ne_pos :
    gen_SparseVector_copy_bit_vec .checked 1 4 1 [(0, 1), (1, 200)] = fault (.panic .index) ∧
    spCopyModel (spWidth 1 4 1) 4 1 [1, 200] = fault (.panic .assert) := by decide +kernel

/-- `hfw2` of `sp_copy_eq`: a width above 64 (never computed: `universe < 2^64`) indexes the `low_set` table out of
range in the code and is refused by `IntVec.withLen` in the model; `fw = 0` is the same `unwrap` panic on both sides -/
theorem sp_copy_ne_fw :
    gen_SparseVector_copy_bit_vec .checked 65 4 2 [(0, 1), (1, 2)] = fault (.panic .index) ∧
    spCopyModel (spWidth 65 4 2) 4 2 [1, 2] = fault (.panic .unwrap) ∧
    gen_SparseVector_copy_bit_vec .checked 0 4 2 [(0, 1), (1, 2)] = fault (.panic .unwrap) ∧
    spCopyModel (spWidth 0 4 2) 4 2 [1, 2] = fault (.panic .unwrap) := by decide +kernel

/-- `sp_copy_eq` is not vacuous and needs no hypothesis on order or number: a conversion that succeeds; positions out
of order with a repetition (accepted by `set_unchecked` on both sides); too many positions (the assertion of
`IntVector::set` on both sides); too few (`try_from(..).unwrap()`); `ones > len` (`new(..).unwrap()`) -/
theorem sp_copy_examples :
    gen_SparseVector_copy_bit_vec .checked 2 10 3 [(0, 1), (1, 5), (2, 9)] = spCopyModel (spWidth 2 10 3) 10 3 [1, 5, 9] ∧
    spCopyModel (spWidth 2 10 3) 10 3 [1, 5, 9] = Sparse.ofValues 2 10 false [1, 5, 9] ∧
    (Sparse.ofValues 2 10 false [1, 5, 9]).isOk = true ∧
    gen_SparseVector_copy_bit_vec .checked 2 10 3 [(0, 5), (1, 1), (2, 5)] = spCopyModel (spWidth 2 10 3) 10 3 [5, 1, 5] ∧
    (spCopyModel (spWidth 2 10 3) 10 3 [5, 1, 5]).isOk = true ∧
    gen_SparseVector_copy_bit_vec .checked 2 10 2 [(0, 1), (1, 5), (2, 9)] = fault (.panic .assert) ∧
    spCopyModel (spWidth 2 10 2) 10 2 [1, 5, 9] = fault (.panic .assert) ∧
    gen_SparseVector_copy_bit_vec .checked 2 10 4 [(0, 1), (1, 5), (2, 9)] = fault (.panic .unwrap) ∧
    spCopyModel (spWidth 2 10 4) 10 4 [1, 5, 9] = fault (.panic .unwrap) ∧
    gen_SparseVector_copy_bit_vec .checked 2 3 10 [(0, 1)] = fault (.panic .unwrap) ∧
    spCopyModel (spWidth 2 3 10) 3 10 [1] = fault (.panic .unwrap) := by decide +kernel

end Sds.GenEq

