/-
Proofs/RLCanon: the run-length builder is canonical.

The state reached by an accepted call history (`try_set` / `set_bit` / `set_len`, `RL.runBCalls`) is a FUNCTION
of the bit sequence `B` the history describes (`calls.foldl RL.specCall []`):
  * everything `flush` ever wrote (`tail`, flushed ones, block `samples`, encoded `data` — the `Core` of the
    builder) is `Core.ofRuns F`, the fold of the pure flush step `Core.push` over the flushed runs `F`;
  * `F` and the pending run are determined by `B`: `maximalRuns B = F ++ (pending run, if non-empty)`, and the
    pending run is non-empty exactly when `B` ends with a set bit.
Hence two accepted histories describing the same bits reach EQUAL builders (`builder_canonical`), the vectors
converted from them (`From<RLBuilder>`) are equal and serialize to identical elements (`vector_canonical`,
`bytes_canonical`).  Closed form: `flush_closed_form` / `ofBuilder_closed_form` — the flushed builder is
`canonFlushed B`, computed from `maximalRuns B`, `|B|` and the number of set bits alone.
-/
import Sds.Proofs.Glue4

namespace Sds.RLCanon
open Sds Outcome

/-! ### the pure flush step -/

/-- the part of the builder that `flush` writes: end of the last encoded run, ones in encoded runs, block
samples, encoded data -/
structure Core where
  tail : Nat
  ones : Nat
  samples : Array (Nat × Nat)
  data : IntVec
  deriving DecidableEq, Repr

/-- the core of `RLBuilder::default()` -/
def Core.empty : Core := ⟨0, 0, #[], ⟨0, 4, RawVec.empty⟩⟩

/-- `flush` of the run `r = (start, len)` as a pure function on the core (mirrors `RLBuilder.flush`): open a new
block (pad with zeros, sample `(ones, tail)`) when the two codes do not fit, append the codes of the gap and of
`len - 1` -/
def Core.push (c : Core) (r : Nat × Nat) : Core :=
  let c1 : Core :=
    if c.data.len + (RLBuilder.codeLen (r.1 - c.tail) + RLBuilder.codeLen (r.2 - 1)) > c.samples.size * 64 then
      { c with data := c.data.resize (c.samples.size * 64) 0, samples := c.samples.push (c.ones, c.tail) }
    else c
  { c1 with data := RLBuilder.encode (RLBuilder.encode c1.data (r.1 - c.tail)) (r.2 - 1),
            tail := r.1 + r.2, ones := c.ones + r.2 }

/-- the core after flushing the runs `R` (absolute `(start, len)`) in order -/
def Core.ofRuns (R : List (Nat × Nat)) : Core := R.foldl Core.push Core.empty

theorem Core.ofRuns_concat (R : List (Nat × Nat)) (r : Nat × Nat) :
    Core.ofRuns (R ++ [r]) = (Core.ofRuns R).push r := by
  unfold Core.ofRuns; rw [List.foldl_append]; rfl

/-- the core of a builder: the flushed ones are `ones` minus the pending run -/
def coreOf (b : RLBuilder) : Core := ⟨b.tail, b.ones - b.run.2, b.samples, b.data⟩

/-- a non-trivial `flush` is `Core.push` of the pending run; `len`, `ones` are kept, the pending run is parked
(empty) at `len` -/
theorem flush_core (m : Mode) {b : RLBuilder} (h : b.Inv) (hr : b.run.2 ≠ 0) :
    ∃ b', b.flush m = ok b' ∧ b'.len = b.len ∧ b'.ones = b.ones ∧ b'.run = (b.len, 0) ∧
      coreOf b' = (coreOf b).push b.run := by
  have h3 := h.run_le_ones
  unfold RLBuilder.flush
  rw [if_neg hr, subM_ok h.tail_le]
  simp only [bind_ok, pure_eq]
  by_cases hfit : b.data.len + (RLBuilder.codeLen (b.run.1 - b.tail) + RLBuilder.codeLen (b.run.2 - 1)) >
      b.samples.size * 64
  · rw [if_pos hfit]
    refine ⟨_, rfl, rfl, rfl, rfl, ?_⟩
    unfold coreOf Core.push
    simp only [if_pos hfit]
    rw [show b.ones - 0 = b.ones - b.run.2 + b.run.2 by omega]
  · rw [if_neg hfit]
    refine ⟨_, rfl, rfl, rfl, rfl, ?_⟩
    unfold coreOf Core.push
    simp only [if_neg hfit]
    rw [show b.ones - 0 = b.ones - b.run.2 + b.run.2 by omega]

/-- `flush` in general: the core becomes the old core with the pending run (if non-empty) pushed -/
theorem flush_core' (m : Mode) {b : RLBuilder} (h : b.Inv) :
    ∃ b', b.flush m = ok b' ∧ b'.len = b.len ∧ b'.ones = b.ones ∧ b'.run = (b.len, 0) ∧
      coreOf b' = (if b.run.2 = 0 then coreOf b else (coreOf b).push b.run) := by
  by_cases hr : b.run.2 = 0
  · refine ⟨b, by unfold RLBuilder.flush; rw [if_pos hr], rfl, rfl, ?_, by rw [if_pos hr]⟩
    have := h.run_end
    apply Prod.ext <;> simp <;> omega
  · rw [if_neg hr]; exact flush_core m h hr

/-! ### the invariant: the builder is determined by the described bits -/

/-- `B` = the bit sequence described so far, `F` = the runs flushed so far (absolute): the core of the builder
is the pure fold over `F`, and the maximal runs of `B` (continued by any `bs`) are `F` followed by the still
open pending run -/
structure Canon (b : RLBuilder) (B : List Bool) (F : List (Nat × Nat)) : Prop where
  inv : b.Inv
  len : B.length = b.len
  ones : B.count true = b.ones
  core : coreOf b = Core.ofRuns F
  runs : ∀ bs, runsOf (B ++ bs) 0 none = F ++ runsOf bs b.len (RLBuilder.pend b)

theorem canon_empty : Canon {} [] [] :=
  ⟨RLBuilder.inv_empty, rfl, rfl, rfl, fun bs => by simp [RLBuilder.pend]⟩

/-- the core does not change when only `len`, `ones`, `run` change with `ones - run.2` fixed -/
theorem coreOf_congr {b b' : RLBuilder} (h1 : b'.samples = b.samples) (h2 : b'.data = b.data)
    (h3 : b'.ones - b'.run.2 = b.ones - b.run.2) (h4 : b'.tail = b.tail) : coreOf b' = coreOf b := by
  unfold coreOf; rw [h1, h2, h3, h4]

/-- flushed runs after `flush`: the pending run, if any, is appended -/
def flushedAfter (b : RLBuilder) (F : List (Nat × Nat)) : List (Nat × Nat) :=
  if b.run.2 = 0 then F else F ++ [b.run]

theorem core_flushedAfter {b : RLBuilder} {F : List (Nat × Nat)} (hc : coreOf b = Core.ofRuns F) :
    (if b.run.2 = 0 then coreOf b else (coreOf b).push b.run) = Core.ofRuns (flushedAfter b F) := by
  unfold flushedAfter
  by_cases hr : b.run.2 = 0
  · rw [if_pos hr, if_pos hr, hc]
  · rw [if_neg hr, if_neg hr, Core.ofRuns_concat, hc]

theorem trySet_canon (m : Mode) {b b' : RLBuilder} {B : List Bool} {F : List (Nat × Nat)}
    (h : Canon b B F) (start len : Nat) (hlen : len < U64) (hs : b.trySet m start len = ok b') :
    ∃ F', Canon b' (B ++ RLBuilder.setBits b start len) F' := by
  obtain ⟨hi, hl, hcnt, hco, hrn⟩ := h
  have hinv' := RLBuilder.trySet_inv m hi start len hlen hs
  have hol := hi.ones_le
  unfold RLBuilder.trySet at hs
  by_cases c1 : start < b.len
  · rw [if_pos c1] at hs; cases hs
  rw [if_neg c1] at hs
  by_cases c2 : U64 - 1 - len < start
  · rw [if_pos c2] at hs; cases hs
  rw [if_neg c2] at hs
  unfold RLBuilder.setRunUnchecked at hs
  by_cases hz : len = 0
  · rw [if_pos hz] at hs; injection hs with hs; subst hs
    refine ⟨F, hi, by simp [RLBuilder.setBits, hz, hl], by simp [RLBuilder.setBits, hz, hcnt], hco, ?_⟩
    intro bs; simpa [RLBuilder.setBits, hz] using hrn bs
  rw [if_neg hz] at hs
  by_cases hst : start = b.len
  · -- the run extends the pending run: nothing is flushed
    rw [if_pos hst] at hs
    have i1 := hi.run_end; have i2 := hi.run_le_ones
    rw [addM_ok (by omega), bind_ok, addM_ok (by omega), bind_ok, addM_ok (by omega), bind_ok] at hs
    injection hs with hs; subst hs
    refine ⟨F, hinv', by simp [RLBuilder.setBits, hz, hl, hst],
      by simp [RLBuilder.setBits, hz, List.count_append, List.count_replicate, hcnt], ?_, ?_⟩
    · rw [← hco]
      exact coreOf_congr rfl rfl (by show b.ones + len - (b.run.2 + len) = _; omega) rfl
    intro bs
    have hB : (B ++ RLBuilder.setBits b start len) ++ bs = B ++ (List.replicate len true ++ bs) := by
      simp [RLBuilder.setBits, hz, hst]
    rw [hB, hrn]
    congr 1
    show _ = runsOf bs (b.len + len) _
    unfold RLBuilder.pend
    by_cases hr0 : b.run.2 = 0
    · rw [if_pos hr0, runsOf_true_none len (by omega)]
      have hr1 : b.run.1 = b.len := by omega
      simp only [hr0, Nat.zero_add, if_neg hz, hr1]
    · rw [if_neg hr0, show b.run = (b.run.1, b.run.2) from rfl, runsOf_true_some]
      simp only [if_neg (show ¬ b.run.2 + len = 0 by omega)]
  · -- a gap: the pending run is flushed first
    rw [if_neg hst] at hs
    obtain ⟨b1, e, l1, l2, l3, hc1⟩ := flush_core' m hi
    have hr2 : b1.run.2 = 0 := by rw [l3]
    rw [e, bind_ok, addM_ok (by omega), bind_ok, addM_ok (by omega), bind_ok] at hs
    injection hs with hs; subst hs
    refine ⟨flushedAfter b F, hinv', by simp [RLBuilder.setBits, hz, hl]; omega,
      by simp [RLBuilder.setBits, hz, List.count_append, List.count_replicate, hcnt, l2], ?_, ?_⟩
    · rw [← core_flushedAfter hco, ← hc1]
      exact coreOf_congr rfl rfl (by show b1.ones + len - len = _; omega) rfl
    intro bs
    have hB : (B ++ RLBuilder.setBits b start len) ++ bs =
        B ++ (List.replicate (start - b.len) false ++ (List.replicate len true ++ bs)) := by
      simp [RLBuilder.setBits, hz]
    rw [hB, hrn]
    have hpend : RLBuilder.pend { b1 with len := start + len, ones := b1.ones + len, run := (start, len) } =
        some (start, len) := by unfold RLBuilder.pend; rw [if_neg hz]
    rw [hpend]
    show _ = _ ++ runsOf bs (start + len) (some (start, len))
    unfold RLBuilder.pend flushedAfter
    by_cases hr0 : b.run.2 = 0
    · rw [if_pos hr0, if_pos hr0, runsOf_false_none, runsOf_true_none len (by omega),
        show b.len + (start - b.len) = start by omega]
    · rw [if_neg hr0, if_neg hr0, runsOf_false_some _ (by omega), runsOf_true_none len (by omega),
        show b.len + (start - b.len) = start by omega, List.append_assoc]
      rfl

theorem setLen_canon (m : Mode) {b b' : RLBuilder} {B : List Bool} {F : List (Nat × Nat)}
    (h : Canon b B F) (n : Nat) (hn : n < U64) (hs : b.setLen m n = ok b') :
    ∃ F', Canon b' (B ++ RLBuilder.setLenBits b n) F' := by
  obtain ⟨hi, hl, hcnt, hco, hrn⟩ := h
  have hinv' := RLBuilder.setLen_inv m hi n hn hs
  unfold RLBuilder.setLen at hs
  by_cases hc : n > b.len
  · rw [if_pos hc] at hs
    obtain ⟨b1, e, l1, l2, l3, hc1⟩ := flush_core' m hi
    have hr2 : b1.run.2 = 0 := by rw [l3]
    rw [e, bind_ok] at hs
    injection hs with hs; subst hs
    refine ⟨flushedAfter b F, hinv', by simp [RLBuilder.setLenBits, hl]; omega,
      by simp [RLBuilder.setLenBits, List.count_append, List.count_replicate, hcnt, l2], ?_, ?_⟩
    · rw [← core_flushedAfter hco, ← hc1]
      exact coreOf_congr rfl rfl (by show b1.ones - 0 = b1.ones - b1.run.2; omega) rfl
    intro bs
    have hB : (B ++ RLBuilder.setLenBits b n) ++ bs = B ++ (List.replicate (n - b.len) false ++ bs) := by
      simp [RLBuilder.setLenBits]
    rw [hB, hrn]
    have hpend : RLBuilder.pend { b1 with len := n, run := (n, 0) } = none := by
      unfold RLBuilder.pend; rw [if_pos rfl]
    rw [hpend]
    show _ = _ ++ runsOf bs n none
    unfold RLBuilder.pend flushedAfter
    by_cases hr0 : b.run.2 = 0
    · rw [if_pos hr0, if_pos hr0, runsOf_false_none, show b.len + (n - b.len) = n by omega]
    · rw [if_neg hr0, if_neg hr0, runsOf_false_some _ (by omega),
        show b.len + (n - b.len) = n by omega, List.append_assoc]
      rfl
  · rw [if_neg hc] at hs; injection hs with hs; subst hs
    have hz : n - b.len = 0 := by omega
    refine ⟨F, hi, by simp [RLBuilder.setLenBits, hz, hl], by simp [RLBuilder.setLenBits, hz, hcnt], hco, ?_⟩
    intro bs; simpa [RLBuilder.setLenBits, hz] using hrn bs

theorem applyCall_canon (m : Mode) {b b' : RLBuilder} {B : List Bool} {F : List (Nat × Nat)}
    (ha : Canon b B F) (c : RL.BCall) (hc : RL.callArgsOk c) (h : RL.applyCall m b c = ok b') :
    ∃ F', Canon b' (RL.specCall B c) F' := by
  cases c with
  | set start len =>
    obtain ⟨F1, ha1⟩ := trySet_canon m ha start len hc h
    have : B ++ RLBuilder.setBits b start len = RL.specCall B (.set start len) := by
      unfold RLBuilder.setBits RL.specCall RL.specStep; rw [ha.len]
    rw [this] at ha1; exact ⟨F1, ha1⟩
  | setLen n =>
    obtain ⟨F1, ha1⟩ := setLen_canon m ha n hc h
    have : B ++ RLBuilder.setLenBits b n = RL.specCall B (.setLen n) := by
      unfold RLBuilder.setLenBits RL.specCall; rw [ha.len]
    rw [this] at ha1; exact ⟨F1, ha1⟩
  | bit i =>
    obtain ⟨F1, ha1⟩ := trySet_canon m ha i 1 (by decide) h
    have : B ++ RLBuilder.setBits b i 1 = RL.specCall B (.bit i) := by
      unfold RLBuilder.setBits RL.specCall RL.specStep; rw [ha.len]
    rw [this] at ha1; exact ⟨F1, ha1⟩

theorem runBCalls_canon (m : Mode) : ∀ (calls : List RL.BCall) (b b' : RLBuilder) (B : List Bool)
    (F : List (Nat × Nat)), (∀ c ∈ calls, RL.callArgsOk c) → Canon b B F → RL.runBCalls m calls b = ok b' →
    ∃ F', Canon b' (calls.foldl RL.specCall B) F' := by
  intro calls
  induction calls with
  | nil =>
    intro b b' B F _ ha h
    injection h with h; subst h; exact ⟨F, ha⟩
  | cons c cs ih =>
    intro b b' B F hc ha h
    obtain ⟨b1, h1, h2⟩ := Outcome.bind_eq_ok h
    obtain ⟨F1, ha1⟩ := applyCall_canon m ha c (hc c (by simp)) h1
    exact ih b1 b' _ F1 (fun c' hc' => hc c' (by simp [hc'])) ha1 h2

/-- every accepted history from the empty builder reaches a `Canon` state for the bits it describes -/
theorem history_canon (m : Mode) (calls : List RL.BCall) (hc : ∀ c ∈ calls, RL.callArgsOk c)
    (b : RLBuilder) (hb : RL.runBCalls m calls {} = ok b) : ∃ F, Canon b (calls.foldl RL.specCall []) F :=
  runBCalls_canon m calls {} b [] [] hc canon_empty hb

/-! ### `Canon` determines the builder -/

theorem Canon.maximalRuns_eq {b : RLBuilder} {B : List Bool} {F : List (Nat × Nat)} (h : Canon b B F) :
    maximalRuns B = flushedAfter b F := by
  have := h.runs []
  rw [List.append_nil] at this
  unfold maximalRuns flushedAfter
  rw [this]
  unfold RLBuilder.pend
  by_cases hr : b.run.2 = 0
  · rw [if_pos hr, if_pos hr]; simp [runsOf]
  · rw [if_neg hr, if_neg hr]; simp [runsOf]

/-- the pending run is `(len, 0)` when empty -/
theorem Canon.run_eq {b : RLBuilder} {B : List Bool} {F : List (Nat × Nat)} (h : Canon b B F) :
    b.run = (match RLBuilder.pend b with | none => (B.length, 0) | some r => r) := by
  unfold RLBuilder.pend
  by_cases hr : b.run.2 = 0
  · rw [if_pos hr]
    have := h.inv.run_end
    have := h.len
    apply Prod.ext <;> simp <;> omega
  · rw [if_neg hr]

/-- two `Canon` states for the same bits have the same flushed runs and the same pending run -/
theorem Canon.unique {b₁ b₂ : RLBuilder} {B : List Bool} {F₁ F₂ : List (Nat × Nat)}
    (h₁ : Canon b₁ B F₁) (h₂ : Canon b₂ B F₂) : F₁ = F₂ ∧ RLBuilder.pend b₁ = RLBuilder.pend b₂ := by
  have hl : b₁.len = b₂.len := h₁.len.symm.trans h₂.len
  -- continue the bits with one set bit: the last run is then non-empty on both sides
  have e1 := h₁.runs [true]
  have e2 := h₂.runs [true]
  rw [e1, ← hl] at e2
  have hlast : ∀ p : Option (Nat × Nat), ∃ r, runsOf [true] b₁.len p = [r] ∧
      (p = none → r = (b₁.len, 1)) ∧ (∀ s l, p = some (s, l) → r = (s, l + 1)) := by
    intro p
    cases p with
    | none => exact ⟨_, rfl, fun _ => rfl, fun _ _ h => (by cases h)⟩
    | some q => exact ⟨(q.1, q.2 + 1), rfl, fun h => (by cases h), fun s l h => (by cases h; rfl)⟩
  obtain ⟨r₁, q1, n1, s1⟩ := hlast (RLBuilder.pend b₁)
  obtain ⟨r₂, q2, n2, s2⟩ := hlast (RLBuilder.pend b₂)
  rw [q1, q2] at e2
  obtain ⟨hF, hr⟩ := List.append_inj' e2 rfl
  refine ⟨hF, ?_⟩
  -- and without continuation: F ++ pend
  have d1 := h₁.runs []
  have d2 := h₂.runs []
  rw [d1, ← hl, hF] at d2
  have d3 := List.append_cancel_left d2
  have hr' : r₁ = r₂ := by simpa using hr
  cases hp1 : RLBuilder.pend b₁ with
  | none =>
    cases hp2 : RLBuilder.pend b₂ with
    | none => rfl
    | some q => rw [hp1, hp2] at d3; simp [runsOf] at d3
  | some p =>
    cases hp2 : RLBuilder.pend b₂ with
    | none => rw [hp1, hp2] at d3; simp [runsOf] at d3
    | some q =>
      rw [hp1, hp2] at d3
      simp only [runsOf, List.cons.injEq, and_true] at d3
      rw [d3]

/-- **the builder is a function of the described bits**: two builders in `Canon` states for the same bit
sequence are equal, field by field (`len`, `ones`, `tail`, `run`, `samples`, `data`) -/
theorem Canon.builder_eq {b₁ b₂ : RLBuilder} {B : List Bool} {F₁ F₂ : List (Nat × Nat)}
    (h₁ : Canon b₁ B F₁) (h₂ : Canon b₂ B F₂) : b₁ = b₂ := by
  obtain ⟨hF, hp⟩ := h₁.unique h₂
  have hrun : b₁.run = b₂.run := by rw [h₁.run_eq, h₂.run_eq, hp]
  have hcore : coreOf b₁ = coreOf b₂ := by rw [h₁.core, h₂.core, hF]
  have hlen : b₁.len = b₂.len := h₁.len.symm.trans h₂.len
  have hones : b₁.ones = b₂.ones := h₁.ones.symm.trans h₂.ones
  unfold coreOf at hcore
  injection hcore with c1 c2 c3 c4
  cases b₁; cases b₂
  simp only at hrun hlen hones c1 c3 c4
  subst hrun hlen hones c1 c3 c4
  rfl

/-! ### main theorems -/

/-- **builder canonicity**: two accepted call histories describing the same bit sequence reach the same
builder state -/
theorem builder_canonical (m : Mode) (calls₁ calls₂ : List RL.BCall)
    (hc₁ : ∀ c ∈ calls₁, RL.callArgsOk c) (hc₂ : ∀ c ∈ calls₂, RL.callArgsOk c)
    (hsame : calls₁.foldl RL.specCall [] = calls₂.foldl RL.specCall [])
    (b₁ b₂ : RLBuilder) (hb₁ : RL.runBCalls m calls₁ {} = ok b₁) (hb₂ : RL.runBCalls m calls₂ {} = ok b₂) :
    b₁ = b₂ := by
  obtain ⟨F₁, k₁⟩ := history_canon m calls₁ hc₁ b₁ hb₁
  obtain ⟨F₂, k₂⟩ := history_canon m calls₂ hc₂ b₂ hb₂
  rw [hsame] at k₁
  exact k₁.builder_eq k₂

/-- **vector canonicity**: the vectors converted from them are equal as values -/
theorem vector_canonical (m : Mode) (calls₁ calls₂ : List RL.BCall)
    (hc₁ : ∀ c ∈ calls₁, RL.callArgsOk c) (hc₂ : ∀ c ∈ calls₂, RL.callArgsOk c)
    (hsame : calls₁.foldl RL.specCall [] = calls₂.foldl RL.specCall [])
    (b₁ b₂ : RLBuilder) (hb₁ : RL.runBCalls m calls₁ {} = ok b₁) (hb₂ : RL.runBCalls m calls₂ {} = ok b₂)
    (v₁ v₂ : RL) (hv₁ : RL.ofBuilder m b₁ = ok v₁) (hv₂ : RL.ofBuilder m b₂ = ok v₂) : v₁ = v₂ := by
  have e := builder_canonical m calls₁ calls₂ hc₁ hc₂ hsame b₁ b₂ hb₁ hb₂
  subst e
  rw [hv₁] at hv₂
  injection hv₂

/-- … and serialize to identical elements -/
theorem bytes_canonical (m : Mode) (calls₁ calls₂ : List RL.BCall)
    (hc₁ : ∀ c ∈ calls₁, RL.callArgsOk c) (hc₂ : ∀ c ∈ calls₂, RL.callArgsOk c)
    (hsame : calls₁.foldl RL.specCall [] = calls₂.foldl RL.specCall [])
    (b₁ b₂ : RLBuilder) (hb₁ : RL.runBCalls m calls₁ {} = ok b₁) (hb₂ : RL.runBCalls m calls₂ {} = ok b₂)
    (v₁ v₂ : RL) (hv₁ : RL.ofBuilder m b₁ = ok v₁) (hv₂ : RL.ofBuilder m b₂ = ok v₂) :
    (rlC m).ser v₁ = (rlC m).ser v₂ := by
  rw [vector_canonical m calls₁ calls₂ hc₁ hc₂ hsame b₁ b₂ hb₁ hb₂ v₁ v₂ hv₁ hv₂]

/-! ### closed form -/

/-- the builder after the final `flush` (the one `From<RLBuilder>` performs), as a function of the bits: every
maximal run of `B` has been pushed, the empty pending run is parked at `|B|` -/
def canonFlushed (B : List Bool) : RLBuilder :=
  let c := Core.ofRuns (maximalRuns B)
  { len := B.length, ones := B.count true, tail := c.tail, run := (B.length, 0),
    samples := c.samples, data := c.data }

theorem Canon.flush_eq (m : Mode) {b : RLBuilder} {B : List Bool} {F : List (Nat × Nat)} (h : Canon b B F) :
    b.flush m = ok (canonFlushed B) := by
  obtain ⟨b', e, l1, l2, l3, hc⟩ := flush_core' m h.inv
  rw [e]; congr 1
  rw [core_flushedAfter h.core, ← h.maximalRuns_eq] at hc
  unfold coreOf at hc
  unfold canonFlushed
  rw [← hc]
  cases b'
  simp only at l1 l2 l3
  simp only [l1, l2, l3, ← h.len, ← h.ones]

/-- **closed form of the flushed builder**: after any accepted history describing `B`, `flush` yields
`canonFlushed B` -/
theorem flush_closed_form (m : Mode) (calls : List RL.BCall) (hc : ∀ c ∈ calls, RL.callArgsOk c)
    (b : RLBuilder) (hb : RL.runBCalls m calls {} = ok b) :
    b.flush m = ok (canonFlushed (calls.foldl RL.specCall [])) := by
  obtain ⟨F, k⟩ := history_canon m calls hc b hb
  exact k.flush_eq m

/-- `From<RLBuilder>` only looks at the flushed builder -/
theorem ofBuilder_of_flush (m : Mode) {b b' : RLBuilder} (hf : b.flush m = ok b') (hr : b'.run.2 = 0) :
    RL.ofBuilder m b = RL.ofBuilder m b' := by
  have hf' : b'.flush m = ok b' := by unfold RLBuilder.flush; rw [if_pos hr]
  unfold RL.ofBuilder
  rw [hf, hf']

/-- **closed form of the vector**: the conversion of any accepted history describing `B` is the conversion
of `canonFlushed B` — a function of `maximalRuns B`, `|B|` and the number of set bits alone -/
theorem ofBuilder_closed_form (m : Mode) (calls : List RL.BCall) (hc : ∀ c ∈ calls, RL.callArgsOk c)
    (b : RLBuilder) (hb : RL.runBCalls m calls {} = ok b) :
    RL.ofBuilder m b = RL.ofBuilder m (canonFlushed (calls.foldl RL.specCall [])) :=
  ofBuilder_of_flush m (flush_closed_form m calls hc b hb) rfl

/-- the builder does not depend on the arithmetic mode either -/
theorem builder_canonical_modes (m₁ m₂ : Mode) (calls₁ calls₂ : List RL.BCall)
    (hc₁ : ∀ c ∈ calls₁, RL.callArgsOk c) (hc₂ : ∀ c ∈ calls₂, RL.callArgsOk c)
    (hsame : calls₁.foldl RL.specCall [] = calls₂.foldl RL.specCall [])
    (b₁ b₂ : RLBuilder) (hb₁ : RL.runBCalls m₁ calls₁ {} = ok b₁) (hb₂ : RL.runBCalls m₂ calls₂ {} = ok b₂) :
    b₁ = b₂ := by
  obtain ⟨F₁, k₁⟩ := history_canon m₁ calls₁ hc₁ b₁ hb₁
  obtain ⟨F₂, k₂⟩ := history_canon m₂ calls₂ hc₂ b₂ hb₂
  rw [hsame] at k₁
  exact k₁.builder_eq k₂

/-! ### the number of blocks of a built vector -/

theorem Core.push_size (c : Core) (r : Nat × Nat) : (c.push r).samples.size ≤ c.samples.size + 1 := by
  unfold Core.push
  by_cases h : c.data.len + (RLBuilder.codeLen (r.1 - c.tail) + RLBuilder.codeLen (r.2 - 1)) > c.samples.size * 64
  · simp only [if_pos h, Array.size_push]; omega
  · simp only [if_neg h]; omega

theorem foldl_push_size (R : List (Nat × Nat)) : ∀ c : Core,
    (R.foldl Core.push c).samples.size ≤ c.samples.size + R.length := by
  induction R with
  | nil => intro c; simp
  | cons r R ih =>
    intro c
    have := ih (c.push r)
    have := Core.push_size c r
    simp only [List.foldl_cons, List.length_cons]; omega

/-- at most one block per flushed run -/
theorem Core.ofRuns_size (R : List (Nat × Nat)) : (Core.ofRuns R).samples.size ≤ R.length := by
  have := foldl_push_size R Core.empty
  unfold Core.ofRuns
  simpa [Core.empty] using this

/-- a bit sequence of length `n` has at most `(n + 1) / 2` maximal runs -/
theorem runsOf_length_le : ∀ (bs : List Bool) (i : Nat),
    2 * (runsOf bs i none).length ≤ bs.length + 1 ∧
    ∀ r, 2 * (runsOf bs i (some r)).length ≤ bs.length + 2 := by
  intro bs
  induction bs with
  | nil => intro i; exact ⟨by simp [runsOf], fun r => by simp [runsOf]⟩
  | cons x bs ih =>
    intro i
    obtain ⟨h1, h2⟩ := ih (i + 1)
    cases x with
    | true =>
      refine ⟨?_, fun r => ?_⟩
      · have := h2 (i, 1); simp only [runsOf, List.length_cons]; omega
      · have := h2 (r.1, r.2 + 1)
        rw [show r = (r.1, r.2) from rfl]; simp only [runsOf, List.length_cons]; omega
    | false =>
      refine ⟨?_, fun r => ?_⟩
      · simp only [runsOf, List.length_cons]; omega
      · simp only [runsOf, List.length_cons]; omega

theorem maximalRuns_length_le (B : List Bool) : 2 * (maximalRuns B).length ≤ B.length + 1 :=
  (runsOf_length_le B 0).1

/-- **the block-count side condition of the query theorems (`RLQ.build_good`, `build_oneIter`, …) always
holds**: a vector converted from an accepted history has at most one block per maximal run, i.e. at most
`(len + 1) / 2 ≤ 2^63` blocks -/
theorem blocks_bound (m : Mode) (calls : List RL.BCall) (hc : ∀ c ∈ calls, RL.callArgsOk c)
    (b : RLBuilder) (hb : RL.runBCalls m calls {} = ok b) (v : RL) (hv : RL.ofBuilder m b = ok v) :
    v.blocks ≤ (maximalRuns (calls.foldl RL.specCall [])).length ∧ v.blocks + 8 < U64 := by
  obtain ⟨F, k⟩ := history_canon m calls hc b hb
  obtain ⟨b', w, e', _, _, _, w1, w2, _, f4⟩ := RL.ofBuilder_fields m hv
  rw [k.flush_eq m] at e'
  injection e' with e'; subst e'
  obtain ⟨sl1, _⟩ := RL.samples_read (sl := (canonFlushed (calls.foldl RL.specCall [])).samples.toList) w1 w2
  rw [← f4] at sl1
  have hsz := Core.ofRuns_size (maximalRuns (calls.foldl RL.specCall []))
  have hml := maximalRuns_length_le (calls.foldl RL.specCall [])
  have hlt : (calls.foldl RL.specCall []).length < U64 := by rw [k.len]; exact k.inv.len_lt
  have hblocks : v.blocks = (Core.ofRuns (maximalRuns (calls.foldl RL.specCall []))).samples.size := by
    show v.samples.len / 2 = _
    rw [sl1, Array.length_toList]
    show 2 * (Core.ofRuns (maximalRuns (calls.foldl RL.specCall []))).samples.size / 2 = _
    omega
  rw [hblocks]
  rw [U64_eq] at hlt ⊢
  omega

/-! ### run at a time: the maximal runs of `B`, fed one `try_set` each, describe `B` -/

theorem runsOf_bits : ∀ (bs : List Bool) (i : Nat), i + bs.length < U64 →
    (∀ pos, pos ≤ i →
      RL.RunsFrom pos (runsOf bs i none) ∧
      RL.bitsOfRuns pos (runsOf bs i none) ++
          List.replicate (i + bs.length - RL.endOf pos (runsOf bs i none)) false =
        List.replicate (i - pos) false ++ bs) ∧
    (∀ pos s l, pos ≤ s → 1 ≤ l → s + l = i →
      RL.RunsFrom pos (runsOf bs i (some (s, l))) ∧
      RL.bitsOfRuns pos (runsOf bs i (some (s, l))) ++
          List.replicate (i + bs.length - RL.endOf pos (runsOf bs i (some (s, l)))) false =
        List.replicate (s - pos) false ++ List.replicate l true ++ bs) := by
  intro bs
  induction bs with
  | nil =>
    intro i hi
    refine ⟨fun pos hp => ⟨trivial, ?_⟩, fun pos s l h1 h2 h3 => ⟨⟨h1, h2, by simpa [h3] using hi, trivial⟩, ?_⟩⟩
    · simp [runsOf, RL.bitsOfRuns, RL.endOf]
    · simp only [runsOf, RL.bitsOfRuns, RL.endOf, List.length_nil, Nat.add_zero, List.append_nil]
      rw [h3, Nat.sub_self]; simp
  | cons x bs ih =>
    intro i hi
    have hi' : i + 1 + bs.length < U64 := by simp only [List.length_cons] at hi; omega
    obtain ⟨ihn, ihs⟩ := ih (i + 1) hi'
    have hlen : i + (x :: bs).length = i + 1 + bs.length := by simp only [List.length_cons]; omega
    rw [hlen]
    cases x with
    | true =>
      refine ⟨fun pos hp => ?_, fun pos s l h1 h2 h3 => ?_⟩
      · obtain ⟨a, b⟩ := ihs pos i 1 hp (Nat.le_refl _) rfl
        simp only [runsOf]
        exact ⟨a, by rw [b]; simp⟩
      · obtain ⟨a, b⟩ := ihs pos s (l + 1) h1 (by omega) (by omega)
        simp only [runsOf]
        refine ⟨a, ?_⟩
        rw [b, List.replicate_succ']; simp
    | false =>
      refine ⟨fun pos hp => ?_, fun pos s l h1 h2 h3 => ?_⟩
      · obtain ⟨a, b⟩ := ihn pos (by omega)
        simp only [runsOf]
        refine ⟨a, ?_⟩
        rw [b, show i + 1 - pos = (i - pos) + 1 by omega, List.replicate_succ']; simp
      · obtain ⟨a, b⟩ := ihn i (by omega)
        simp only [runsOf, RL.RunsFrom, RL.bitsOfRuns, RL.endOf]
        rw [h3]
        refine ⟨⟨h1, h2, by omega, a⟩, ?_⟩
        rw [List.append_assoc, b, show i + 1 - i = 1 by omega]; simp

/-- **run at a time**: one `try_set(start, len)` per maximal run of `B`, then `set_len(|B|)` — the natural use of
the run-length builder, and the copy of a run-length vector through `run_iter()` — is a valid run list and
describes `B` -/
theorem runCalls_spec (B : List Bool) (hB : B.length < U64) :
    RL.RunsFrom 0 (maximalRuns B) ∧ RL.runBits (maximalRuns B) B.length = B := by
  obtain ⟨h1, h2⟩ := (runsOf_bits B 0 (by omega)).1 0 (Nat.le_refl _)
  refine ⟨h1, ?_⟩
  have hl := RL.bitsOfRuns_length (maximalRuns B) 0 h1
  unfold RL.runBits
  unfold maximalRuns at hl ⊢
  rw [Nat.zero_add] at hl h2
  rw [hl]
  simpa using h2

/-! ### non-vacuity: corners where one might expect a difference -/

/-- bit at a time / run at a time / with redundant and no-op calls: the same builder -/
example : RL.runBCalls .checked [.bit 1, .bit 2, .bit 3, .setLen 6] {} =
    RL.runBCalls .checked [.set 1 3, .set 4 0, .setLen 2, .setLen 5, .setLen 6, .setLen 6] {} := by decide

/-- trailing zeros appended by `set_len` in one or several steps; a history ending in a set bit keeps its last
run pending — still equal builders for equal bits -/
example : RL.runBCalls .wrapping [.set 0 2, .set 2 1, .set 70 3] {} =
    RL.runBCalls .wrapping [.bit 0, .set 1 2, .setLen 3, .setLen 70, .bit 70, .bit 71, .bit 72] {} := by decide

end Sds.RLCanon
