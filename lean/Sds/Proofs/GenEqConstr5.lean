/-
Proofs/GenEqConstr5: `RawVector::complement`, `WMCore::init_support` and `WMCore::from(Vec<u64>)` (the body of
`macro_rules! wm_core_from` at `u64`), as TRANSLATED statement by statement from the source
(Generated/FnsConstr3.lean, Generated/FnsConstr5.lean), are equal to the hand-written model definitions
`RawVec.complement`, `WMCore.initSupport`, `WMCore.ofValues`.

* `raw_complement_eq' : gen_RawVector_complement m v = ok v.complement` under
  `v.len % 64 ≠ 0 → v.len / 64 < v.data.size` (the word holding the last bit exists: `set_unused_bits` indexes it);
  `raw_complement_eq` is the same under `v.data.size = (v.len + 63) / 64` (first conjunct of `RawVec.WF`).
  Sharp: `raw_complement_ne`.  The `iter_mut()` loop is `Array.map` (`c5_foldl_set_map`).
* `wm_init_support_eq : gen_WMCore_init_support m c = ok c.initSupport`, NO hypothesis.  `enable_pred_succ` after the
  other three is a no-op (`c5_enable_all_pred_succ`), and the four write-backs to `levels[i]` collapse into one.
* `wm_core_from_eq : gen_WMCore_from_u64 m source = ok (WMCore.ofValues (source.toList.map (·.toNat)))` under
  `source.size + 63 < U64` (`RawVector::with_capacity(source.len())` computes `bits_to_words`; the same bound covers
  every `push_bit` (`len + 1`) and `count_ones` in `BitVector::from`).  Sharp with overflow checks on:
  `wm_core_from_ne_size`.  Everything else is derived: `max().unwrap_or(0)` is the word of the model's `foldl max 0`
  (`c5_arr_max`), so both widths are the same `bit_len`; `1 ≤ width ≤ 64`, hence `width - 1`, `width - 1 - level` do
  not underflow and the shift amount is `< 64`; `value & bit_value != 0` is the model's `(v / 2^k) % 2 = 1`
  (`c5_bit_test`); the inner loop is the stable partition by `filter` plus `RawVec.ofBits (map …)`
  (`wm_inner_fold`); one outer iteration is one step of the model's fold (`wm_outer_step`), the new `source` holding
  the words of the model's new list with the same size; `init_support` at the end is `wm_init_support_eq`.
  NO divergence between the code and the model was found.

Method: `for_loop_range` (GenEqLoop4) turns each counter loop into a `foldlM` of the code's body (`wmInnerL`,
`wmOuterBody`); a second induction with the invariant (`raw_data` well-formed and with room; `source` of constant
size, its values the model's list) turns that into the model's fold.
-/
import Sds.Generated.FnsConstr5
import Sds.Proofs.GenFns
import Sds.Proofs.GenEqBits
import Sds.Proofs.GenEqVec
import Sds.Proofs.GenEqView
import Sds.Proofs.GenEqEnable
import Sds.Proofs.GenEqLoop4
import Sds.Proofs.BitsMore
import Sds.Proofs.RawVec

set_option linter.unusedVariables false

namespace Sds.GenEq
open Sds Outcome Generated

/-! ### vocabulary -/

private theorem c5_obind_ok {α β : Type} (a : α) (f : α → Outcome β) : (ok a).bind f = f a := rfl

/-- a fold whose body never faults -/
theorem c5_foldlM_ok {σ ι : Type} (f : σ → ι → σ) (l : List ι) :
    ∀ s, l.foldlM (fun s i => (ok (f s i) : Outcome σ)) s = ok (l.foldl f s) := by
  induction l with
  | nil => intro s; rfl
  | cons a t ih => intro s; rw [List.foldlM_cons, List.foldl_cons]; exact ih (f s a)

/-- `for x in a.iter_mut() { *x = f(*x) }` written with an index: every reader `g` that agrees with `a[i]` inside the
array will do (`rd`, `getD`) -/
theorem c5_foldl_set_map {α : Type} (f : α → α) (g : Array α → Nat → α)
    (hg : ∀ (a : Array α) (i : Nat) (h : i < a.size), g a i = a[i]) (a : Array α) :
    (List.range a.size).foldl (fun b i => b.setIfInBounds i (f (g b i))) a = a.map f := by
  have key : ∀ n, n ≤ a.size →
      ∀ k, ((List.range n).foldl (fun b i => b.setIfInBounds i (f (g b i))) a)[k]? =
        if k < n then a[k]?.map f else a[k]? := by
    intro n
    induction n with
    | zero => intro _ k; simp
    | succ n ih =>
      intro hn k
      rw [List.range_succ, List.foldl_append]
      simp only [List.foldl_cons, List.foldl_nil]
      have ihn := ih (by omega)
      generalize (List.range n).foldl (fun b i => b.setIfInBounds i (f (g b i))) a = b at ihn ⊢
      have hsz : b.size = a.size := by
        apply Classical.byContradiction
        intro hne
        rcases Nat.lt_or_gt_of_ne hne with h | h
        · have := ihn b.size
          rw [Array.getElem?_eq_none (Nat.le_refl _)] at this
          by_cases hb : b.size < n <;> simp [hb, h] at this
        · have := ihn a.size
          rw [Array.getElem?_eq_getElem h, if_neg (by omega), Array.getElem?_eq_none (Nat.le_refl _)] at this
          cases this
      have hnb : n < b.size := by omega
      have hbn : b[n] = a[n] := by
        have := ihn n
        rw [if_neg (Nat.lt_irrefl _), Array.getElem?_eq_getElem hnb, Array.getElem?_eq_getElem (by omega)] at this
        exact Option.some.inj this
      rw [Array.getElem?_setIfInBounds]
      by_cases hk : n = k
      · subst hk
        rw [if_pos rfl, if_pos hnb, if_pos (Nat.lt_succ_self _), hg b n hnb, hbn,
          Array.getElem?_eq_getElem (by omega)]
        rfl
      · rw [if_neg hk, ihn k]
        by_cases hkn : k < n
        · rw [if_pos hkn, if_pos (by omega)]
        · rw [if_neg hkn, if_neg (by omega)]
  apply Array.ext_getElem?
  intro k
  rw [key a.size (Nat.le_refl _) k, Array.getElem?_map]
  by_cases hk : k < a.size
  · rw [if_pos hk]
  · rw [if_neg hk, Array.getElem?_eq_none (by omega)]; rfl

/-! ### `RawVector::complement` -/

theorem raw_complement_eq' (m : Mode) (v : RawVec) (hs : v.len % 64 ≠ 0 → v.len / 64 < v.data.size) :
    gen_RawVector_complement m v = ok v.complement := by
  unfold gen_RawVector_complement
  simp only [Bind.bind]
  rw [for_loop_range (ρ := RawVec) v.data.size
      (fun (r : RawVec) i => ok { r with data := r.data.setIfInBounds i (~~~ rd r.data i) }) _
      (fun i s hi => by simp only [hi, decide_true, if_true]; rfl)
      (fun i s hi => by simp only [hi, decide_false, Bool.false_eq_true, if_false]; rfl),
    c5_foldlM_ok]
  have hfold : ∀ n (r : RawVec),
      (List.range n).foldl (fun (r : RawVec) i => { r with data := r.data.setIfInBounds i (~~~ rd r.data i) }) r =
        ⟨r.len, (List.range n).foldl (fun b i => b.setIfInBounds i (~~~ rd b i)) r.data⟩ := by
    intro n
    induction n with
    | zero => intro r; rfl
    | succ n ih => intro r; rw [List.range_succ, List.foldl_append, List.foldl_append, ih]; rfl
  rw [hfold, c5_foldl_set_map (fun w : Word => ~~~ w) rd
    (fun a i h => by unfold rd; rw [Array.getElem?_eq_getElem h]; rfl)]
  simp only [c5_obind_ok]
  rw [raw_set_unused_bits_eq' m _ false (by simpa using hs)]
  rfl

/-- `RawVector::complement` under the first conjunct of `RawVec.WF` -/
theorem raw_complement_eq (m : Mode) (v : RawVec) (hs : v.data.size = (v.len + 63) / 64) :
    gen_RawVector_complement m v = ok v.complement :=
  raw_complement_eq' m v (by omega)

/-- the hypothesis is needed: `set_unused_bits` indexes the word of the last bit (`self.data[index]`, index panic on a
vector with too few words), the model's `setIfInBounds` does nothing there.  Not a state of a real `RawVector`. -/
theorem raw_complement_ne :
    gen_RawVector_complement .checked ⟨1, #[]⟩ = fault (.panic .index) ∧
    RawVec.complement ⟨1, #[]⟩ = ⟨1, #[]⟩ := by decide +kernel

/-! ### `WMCore::init_support` -/

theorem c5_enable_all_pred_succ (b : BitVector) :
    b.enableRank.enableSelect.enableSelectZero.enableRank.enableSelect = b.enableAll := by
  obtain ⟨o, d, r, s, z⟩ := b
  cases r <;> cases s <;> cases z <;> rfl

theorem wm_init_support_eq (m : Mode) (c : WMCore) : gen_WMCore_init_support m c = ok c.initSupport := by
  unfold gen_WMCore_init_support
  simp only [Bind.bind]
  rw [for_loop_range (ρ := WMCore) c.levels.size
      (fun (L : Array BitVector) i => ok (L.setIfInBounds i (L.getD i default).enableAll)) _
      (fun i s hi => by
        simp only [hi, decide_true, if_true, enable_rank_eq, enable_select_eq, enable_select_zero_eq,
          enable_pred_succ_eq, c5_obind_ok, Array.setIfInBounds_setIfInBounds, c5_enable_all_pred_succ]
        rfl)
      (fun i s hi => by simp only [hi, decide_false, Bool.false_eq_true, if_false]; rfl),
    c5_foldlM_ok,
    c5_foldl_set_map BitVector.enableAll (fun L i => L.getD i default)
      (fun a i h => by simp [Array.getD, h])]
  rfl

/-! ### `WMCore::from(Vec<u64>)` : vocabulary -/

/-- `RawVector::with_capacity`: only `bits_to_words(capacity)` is computed -/
private theorem c5_with_capacity_eq (m : Mode) (cap : Nat) (h : cap + 63 < U64) :
    gen_RawVector_with_capacity m cap = ok RawVec.empty := by
  unfold gen_RawVector_with_capacity
  rw [vbits_to_words_ok m cap h]
  rfl

/-- `BitVector::from(RawVector)` -/
private theorem c5_from_raw_eq (m : Mode) (v : RawVec) (h : 64 * v.data.size < U64) :
    gen_BitVector_from_raw m v = ok (BitVector.ofRaw v) := by
  unfold gen_BitVector_from_raw
  rw [raw_count_ones_eq m v h]
  rfl

/-- a fold over the indices of an array that only reads the item is the fold over the items -/
theorem c5_foldlM_rd {σ : Type} (f : σ → Word → Outcome σ) (a : Array Word) (s : σ) :
    (List.range a.size).foldlM (fun s i => f s (rd a i)) s = a.toList.foldlM f s := by
  have hmap : ∀ (l : List Nat) (s : σ), (l.map (rd a)).foldlM f s = l.foldlM (fun s i => f s (rd a i)) s := by
    intro l
    induction l with
    | nil => intro s; rfl
    | cons x t ih =>
      intro s
      rw [List.map_cons, List.foldlM_cons, List.foldlM_cons]
      simp only [Bind.bind]
      cases f s (rd a x) with
      | fault e => rfl
      | ok s' => exact ih s'
  have hl : (List.range a.size).map (rd a) = a.toList := by
    apply List.ext_getElem
    · simp
    · intro i h1 h2
      simp only [List.getElem_map, List.getElem_range, rd, Array.getElem_toList]
      rw [Array.getElem?_eq_getElem (by simpa using h2)]
      rfl
  rw [← hmap, hl]

/-- `source.iter().cloned().max().unwrap_or(0)` is the word whose value is the model's `foldl max 0` -/
theorem c5_arr_max (a : Array Word) :
    (arrMaxW a).getD (0 : Word) = BitVec.ofNat 64 ((a.toList.map (·.toNat)).foldl max 0) := by
  have hsome : ∀ (l : List Word) (y : Word),
      ((l.foldl (fun (acc : Option Word) x => match acc with
        | none => some x
        | some y => some (if y ≤ x then x else y)) (some y)).getD (0 : Word)).toNat =
        (l.map (·.toNat)).foldl max y.toNat := by
    intro l
    induction l with
    | nil => intro y; rfl
    | cons x t ih =>
      intro y
      rw [List.foldl_cons, List.map_cons, List.foldl_cons]
      show ((t.foldl _ (some (if y ≤ x then x else y))).getD (0 : Word)).toNat = _
      rw [ih]
      congr 1
      by_cases hle : y ≤ x
      · rw [if_pos hle]; rw [BitVec.le_def] at hle; omega
      · rw [if_neg hle]; rw [BitVec.le_def] at hle; omega
  unfold arrMaxW
  rw [← Array.foldl_toList]
  apply BitVec.eq_of_toNat_eq
  cases hl : a.toList with
  | nil => rfl
  | cons x t =>
    rw [List.foldl_cons, List.map_cons, List.foldl_cons]
    refine (hsome t x).trans ?_
    rw [BitVec.toNat_ofNat, Nat.zero_max]
    have hx := x.isLt
    have : (t.map (·.toNat)).foldl max x.toNat < 2 ^ 64 := by
      have gen : ∀ (l : List Word) (b : Nat), b < 2 ^ 64 → (l.map (·.toNat)).foldl max b < 2 ^ 64 := by
        intro l
        induction l with
        | nil => intro b hb; exact hb
        | cons z u ih =>
          intro b hb
          rw [List.map_cons, List.foldl_cons]
          have := z.isLt
          exact ih _ (by omega)
      exact gen t _ hx
    rw [Nat.mod_eq_of_lt this]

/-- the bit test of the loop, `value & bit_value != 0` -/
def isOneW (bv : Word) (w : Word) : Bool := decide ((w &&& bv) ≠ (0 : Word))

theorem c5_one_shl (k : Nat) (hk : k < 64) : (1 : Word) <<< k = BitVec.ofNat 64 (2 ^ k) := by
  apply BitVec.eq_of_toNat_eq
  have hp : 2 ^ k < 2 ^ 64 := Nat.pow_lt_pow_right (by decide) hk
  rw [BitVec.toNat_shiftLeft, BitVec.toNat_ofNat, Nat.shiftLeft_eq]
  simp

/-- … is the model's test `(v / 2^k) % 2 = 1` on the value of the word -/
theorem c5_bit_test (w : Word) (k : Nat) (hk : k < 64) :
    isOneW ((1 : Word) <<< k) w = decide ((w.toNat / 2 ^ k) % 2 = 1) := by
  have := and_two_pow_ne_zero_iff w.toNat k hk
  rw [BitVec.ofNat_toNat, BitVec.setWidth_eq, ← c5_one_shl k hk] at this
  unfold isOneW
  exact decide_eq_decide.mpr this

/-! ### the inner loop: the stable partition and the bits of the level -/

/-- state of the inner loop: `ones`, `raw_data`, `zeros` -/
abbrev WmIn := Array Word × RawVec × Array Word

/-- one iteration of `for value in source.iter()` on the value read -/
def wmInnerL (m : Mode) (bv : Word) (s : WmIn) (value : Word) : Outcome WmIn :=
  if isOneW bv value then
    (gen_RawVector_push_bit m s.2.1 true).bind fun r => ok (s.1.push value, r, s.2.2)
  else
    (gen_RawVector_push_bit m s.2.1 false).bind fun r => ok (s.1, r, s.2.2.push value)

/-- **the inner loop against `filter` / `map`**: from any well-formed `raw_data` with room for the items -/
theorem wm_inner_fold (m : Mode) (bv : Word) :
    ∀ (L : List Word) (ones zeros : Array Word) (raw : RawVec), raw.WF → raw.len + L.length < U64 →
      L.foldlM (wmInnerL m bv) (ones, raw, zeros) =
        ok ((ones.toList ++ L.filter (isOneW bv)).toArray,
            (L.map (isOneW bv)).foldl RawVec.pushBit raw,
            (zeros.toList ++ L.filter (fun w => !isOneW bv w)).toArray) := by
  intro L
  induction L with
  | nil => intro ones zeros raw _ _; simp
  | cons w t ih =>
    intro ones zeros raw hwf hl
    simp only [List.length_cons] at hl
    have hsz := hwf.1
    have hp : ∀ b, gen_RawVector_push_bit m raw b = ok (raw.pushBit b) :=
      fun b => raw_push_bit_eq m raw b (by omega) (by omega)
    rw [List.foldlM_cons]
    by_cases hb : isOneW bv w = true
    · simp only [wmInnerL, hb, if_true, hp, c5_obind_ok, bind_ok]
      rw [ih _ _ _ (RawVec.pushBit_WF hwf true) (by rw [RawVec.len_pushBit]; omega)]
      simp [hb]
    · have hb' : isOneW bv w = false := by simpa using hb
      simp only [wmInnerL, hb', Bool.false_eq_true, if_false, hp, c5_obind_ok, bind_ok]
      rw [ih _ _ _ (RawVec.pushBit_WF hwf false) (by rw [RawVec.len_pushBit]; omega)]
      simp [hb']

theorem c5_len_ofBits (B : List Bool) : (RawVec.ofBits B).len = B.length := by
  rw [← RawVec.bits_length, RawVec.bits_ofBits]

theorem c5_partition_length {α : Type} (p : α → Bool) (l : List α) :
    (l.filter (fun x => !p x)).length + (l.filter p).length = l.length := by
  induction l with
  | nil => rfl
  | cons x t ih => cases hp : p x <;> simp [hp] <;> omega

/-! ### the outer loop -/

/-- state of the outer loop: `levels`, `source` -/
abbrev WmOut := Array BitVector × Array Word

/-- one iteration of `for level in 0..width` as the code computes it, once `bit_value` is known -/
def wmOuterBody (m : Mode) (width : Nat) (s : WmOut) (level : Nat) : Outcome WmOut :=
  (gen_RawVector_with_capacity m s.2.size).bind fun raw =>
  ((List.range s.2.size).foldlM
      (fun (t : WmIn) i => wmInnerL m ((1 : Word) <<< (width - 1 - level)) t (rd s.2 i)) (#[], raw, #[])).bind fun r =>
  (gen_BitVector_from_raw m r.2.1).bind fun t8 => ok (s.1.push t8, (#[] ++ r.2.2) ++ r.1)

/-- one step of the fold of `WMCore.ofValues` -/
def wmStep (width : Nat) (acc : Array BitVector × List Nat) (l : Nat) : Array BitVector × List Nat :=
  (acc.1.push (BitVector.ofRaw (RawVec.ofBits (acc.2.map fun v => decide ((v / 2 ^ (width - 1 - l)) % 2 = 1)))),
   acc.2.filter (fun v => !decide ((v / 2 ^ (width - 1 - l)) % 2 = 1)) ++
     acc.2.filter (fun v => decide ((v / 2 ^ (width - 1 - l)) % 2 = 1)))

theorem wm_ofValues_eq_fold (vals : List Nat) :
    WMCore.ofValues vals = WMCore.initSupport
      ⟨((List.range (bitLen (BitVec.ofNat 64 (vals.foldl max 0)))).foldl
          (wmStep (bitLen (BitVec.ofNat 64 (vals.foldl max 0)))) (#[], vals)).1⟩ := rfl

/-- **one iteration of the outer loop is one step of the model's fold**: the new level is the same bitvector, the new
`source` holds the words whose values are the model's new list (and has the same size) -/
theorem wm_outer_step (m : Mode) (width level : Nat) (hk : width - 1 - level < 64) (levels : Array BitVector)
    (src : Array Word) (hb : src.size + 63 < U64) :
    ∃ arr : Array Word,
      wmOuterBody m width (levels, src) level =
        ok ((wmStep width (levels, src.toList.map (·.toNat)) level).1, arr) ∧
      arr.toList.map (·.toNat) = (wmStep width (levels, src.toList.map (·.toNat)) level).2 ∧
      arr.size = src.size := by
  have hfun : isOneW ((1 : Word) <<< (width - 1 - level)) =
      fun w => decide ((w.toNat / 2 ^ (width - 1 - level)) % 2 = 1) :=
    funext fun w => c5_bit_test w _ hk
  have hofb : ∀ B : List Bool, B.foldl RawVec.pushBit RawVec.empty = RawVec.ofBits B := fun _ => rfl
  unfold wmOuterBody
  simp only [c5_with_capacity_eq m _ hb, c5_obind_ok]
  rw [c5_foldlM_rd (wmInnerL m ((1 : Word) <<< (width - 1 - level))) src,
    wm_inner_fold m _ src.toList #[] #[] RawVec.empty RawVec.empty_WF
      (by show 0 + src.toList.length < U64; rw [Array.length_toList]; omega),
    c5_obind_ok, hofb]
  dsimp only
  have hwf := RawVec.ofBits_WF (src.toList.map (isOneW ((1 : Word) <<< (width - 1 - level))))
  have hlen := c5_len_ofBits (src.toList.map (isOneW ((1 : Word) <<< (width - 1 - level))))
  rw [List.length_map, Array.length_toList] at hlen
  rw [c5_from_raw_eq m _ (by have := hwf.1; omega), c5_obind_ok]
  have hA : levels.push (BitVector.ofRaw (RawVec.ofBits
        (src.toList.map (isOneW ((1 : Word) <<< (width - 1 - level)))))) =
      (wmStep width (levels, src.toList.map (·.toNat)) level).1 := by
    simp only [wmStep, hfun, List.map_map]
    rfl
  rw [hA]
  refine ⟨_, rfl, ?_, ?_⟩
  · simp only [hfun]
    simp [wmStep, List.filter_map, Function.comp_def]
  · have := c5_partition_length (isOneW ((1 : Word) <<< (width - 1 - level))) src.toList
    simp only [Array.size_append, List.size_toArray, List.nil_append, Nat.zero_add, List.length_nil]
    rw [Array.length_toList] at this
    omega

/-- the outer loop, run for `n ≤ width` levels, against the model's fold -/
theorem wm_outer_fold (m : Mode) (width : Nat) (hw : width ≤ 64) (src : Array Word) (hb : src.size + 63 < U64) :
    ∀ n, n ≤ width → ∃ arr : Array Word,
      (List.range n).foldlM (wmOuterBody m width) (#[], src) =
        ok (((List.range n).foldl (wmStep width) (#[], src.toList.map (·.toNat))).1, arr) ∧
      arr.toList.map (·.toNat) = ((List.range n).foldl (wmStep width) (#[], src.toList.map (·.toNat))).2 ∧
      arr.size = src.size := by
  intro n
  induction n with
  | zero => intro _; exact ⟨src, rfl, rfl, rfl⟩
  | succ n ih =>
    intro hn
    obtain ⟨arr, e, hv, hsz⟩ := ih (by omega)
    obtain ⟨arr', e', hv', hsz'⟩ := wm_outer_step m width n (by omega)
      ((List.range n).foldl (wmStep width) (#[], src.toList.map (·.toNat))).1 arr (by omega)
    rw [hv] at e' hv'
    refine ⟨arr', ?_, ?_, by omega⟩
    · rw [foldlM_range_succ, e, bind_ok, e', List.range_succ, List.foldl_append]
      rfl
    · rw [hv', List.range_succ, List.foldl_append]
      rfl

/-! ### `WMCore::from(Vec<u64>)` -/

theorem wm_core_from_eq (m : Mode) (source : Array Word) (hb : source.size + 63 < U64) :
    gen_WMCore_from_u64 m source = ok (WMCore.ofValues (source.toList.map (·.toNat))) := by
  obtain ⟨w1, w64, _, _⟩ := bitLen_spec ((arrMaxW source).getD (0 : Word))
  unfold gen_WMCore_from_u64
  simp only [Bind.bind, bit_len_eq, c5_obind_ok]
  generalize hW : bitLen ((arrMaxW source).getD (0 : Word)) = W at w1 w64 ⊢
  rw [for_loop_range (ρ := WMCore) W (wmOuterBody m W) _
      (fun i s hi => by
        obtain ⟨levels, src⟩ := s
        have f1 : subM m W 1 = ok (W - 1) := subM_ok w1
        have f2 : subM m (W - 1) i = ok (W - 1 - i) := subM_ok (by omega)
        have f3 : shlW m (1 : Word) (W - 1 - i) = ok ((1 : Word) <<< (W - 1 - i)) := vshlW_lt m _ _ (by omega)
        simp only [hi, decide_true, if_true, f1, f2, f3, c5_obind_ok, wmOuterBody]
        cases gen_RawVector_with_capacity m src.size with
        | fault e => rfl
        | ok raw =>
          simp only [c5_obind_ok]
          rw [for_loop_range (ρ := WMCore) src.size
              (fun (t : WmIn) j => wmInnerL m ((1 : Word) <<< (W - 1 - i)) t (rd src j)) _
              (fun j t hj => by
                obtain ⟨ones, rw, zeros⟩ := t
                simp only [hj, decide_true, if_true]
                by_cases hc : decide ((rd src j &&& (1 : Word) <<< (W - 1 - i)) ≠ (0 : Word)) = true
                · have hc' : isOneW ((1 : Word) <<< (W - 1 - i)) (rd src j) = true := hc
                  rw [if_pos hc]
                  simp only [wmInnerL, hc', if_true]
                  cases gen_RawVector_push_bit m rw true <;> rfl
                · have hc' : ¬ isOneW ((1 : Word) <<< (W - 1 - i)) (rd src j) = true := hc
                  rw [if_neg hc]
                  simp only [wmInnerL, hc']
                  cases gen_RawVector_push_bit m rw false <;> rfl)
              (fun j t hj => by
                obtain ⟨ones, rw, zeros⟩ := t
                simp only [hj, decide_false, Bool.false_eq_true, if_false]; rfl)]
          cases List.foldlM (fun (t : WmIn) j => wmInnerL m ((1 : Word) <<< (W - 1 - i)) t (rd src j))
              (#[], raw, #[]) (List.range src.size) with
          | fault e => rfl
          | ok r =>
            obtain ⟨ones, rw, zeros⟩ := r
            simp only [c5_obind_ok]
            cases gen_BitVector_from_raw m rw <;> rfl)
      (fun i s hi => by
        obtain ⟨levels, src⟩ := s
        simp only [hi, decide_false, Bool.false_eq_true, if_false]; rfl)]
  obtain ⟨arr, e, _, _⟩ := wm_outer_fold m W w64 source hb W (Nat.le_refl _)
  rw [e]
  simp only [c5_obind_ok, wm_init_support_eq, wm_ofValues_eq_fold]
  rw [← c5_arr_max, hW]
  rfl

/-! ### the hypotheses are needed; the theorems are not vacuous -/

private theorem c5_loopM_succ {σ ρ : Type} (n : Nat) (step : σ → Outcome (Ctl σ ρ)) (s : σ) :
    loopM (n + 1) step s = (step s).bind (fun c => match c with | .next s' => loopM n step s' | r => ok r) := rfl

/-- `hb` is sharp with overflow checks on: the width is at least 1, so `RawVector::with_capacity(source.len())` is
called, and `bits_to_words` computes `source.len() + 63` in `usize`.  Only a `Vec<u64>` of ≥ 2^64 - 63 items gets
there (not a state of the real code: it would occupy 2^67 bytes). -/
theorem wm_core_from_ne_size (source : Array Word) (h : ¬ source.size + 63 < U64) :
    gen_WMCore_from_u64 .checked source = fault (.panic .overflow) := by
  obtain ⟨w1, w64, _, _⟩ := bitLen_spec ((arrMaxW source).getD (0 : Word))
  have hc : gen_RawVector_with_capacity .checked source.size = fault (.panic .overflow) := by
    unfold gen_RawVector_with_capacity gen_bits_to_words
    simp [addM, h]
  unfold gen_WMCore_from_u64
  simp only [Bind.bind, bit_len_eq, c5_obind_ok]
  generalize hW : bitLen ((arrMaxW source).getD (0 : Word)) = W at w1 w64 ⊢
  obtain ⟨W', rfl⟩ : ∃ W', W = W' + 1 := ⟨W - 1, by omega⟩
  have f1 : subM .checked (W' + 1) 1 = ok W' := subM_ok (by omega)
  have f2 : subM .checked W' 0 = ok W' := subM_ok (by omega)
  have f3 : shlW .checked (1 : Word) W' = ok ((1 : Word) <<< W') := vshlW_lt _ _ _ (by omega)
  rw [show W' + 1 - 0 + 1 = (W' + 1) + 1 from rfl, c5_loopM_succ]
  simp only [Nat.zero_lt_succ, decide_true, if_true, f1, f2, f3, c5_obind_ok, hc]
  rfl

/-- the capacity computation alone, at the first size outside `hb` -/
theorem c5_with_capacity_ne :
    gen_RawVector_with_capacity .checked (U64 - 63) = fault (.panic .overflow) := by decide

/-- evaluation of both sides: the empty vector (one empty level), a vector of zeros, the example of the documentation
of `wavelet_matrix` (7 values of width 3) -/
theorem wm_core_from_examples :
    gen_WMCore_from_u64 .checked #[] = ok (WMCore.ofValues []) ∧
    (WMCore.ofValues []).levels.size = 1 ∧
    gen_WMCore_from_u64 .checked #[0, 0] = ok (WMCore.ofValues [0, 0]) ∧
    gen_WMCore_from_u64 .checked #[1, 0, 3, 1, 1, 2, 4] = ok (WMCore.ofValues [1, 0, 3, 1, 1, 2, 4]) ∧
    (WMCore.ofValues [1, 0, 3, 1, 1, 2, 4]).levels.toList.map (·.data.bits) =
      [[false, false, false, false, false, false, true],
       [false, false, true, false, false, true, false],
       [true, false, true, true, false, true, false]] := by decide +kernel

theorem wm_init_support_example :
    gen_WMCore_init_support .checked ⟨#[BitVector.ofRaw ⟨3, #[5]⟩]⟩ =
      ok (WMCore.initSupport ⟨#[BitVector.ofRaw ⟨3, #[5]⟩]⟩) ∧
    ((WMCore.initSupport ⟨#[BitVector.ofRaw ⟨3, #[5]⟩]⟩).levels.toList.map
      (fun b => (b.rank.isSome, b.select.isSome, b.selectZero.isSome))) = [(true, true, true)] := by decide +kernel

end Sds.GenEq
