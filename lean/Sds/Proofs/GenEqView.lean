/-
Proofs/GenEqView: the read accessors of the memory-mapped views (`RawVectorMapper`, `IntVectorMapper`) and
`count_ones` of `raw_vector.rs` as TRANSLATED statement by statement from the source (Generated/FnsView.lean) are
equal to the hand-written model definitions (Model/RawVec.lean, Model/IntVec.lean).

* The four mapper accessors are the same terms as the accessors of the in-memory `RawVector` (`rfl`), so the
  equations of Proofs/GenEqVec.lean carry over.
* `count_ones` is `for value in self.data.iter() { result += value.count_ones() as usize }`, a `loopM` over an
  index and the accumulator.  Every word contributes at most 64 (`popcount_le`), so under
  `64 * v.data.size < U64` (the length in bits, rounded up to words, is below 2^64) the running sum never overflows
  and the loop is the model's `Array.foldl`.
-/
import Sds.Model.IntVec
import Sds.Generated.FnsView
import Sds.Proofs.BitsMore
import Sds.Proofs.GenEqVec

namespace Sds.GenEq
open Sds Outcome Generated

/-! ### mapper accessors = in-memory accessors -/

theorem mapper_bit_def : gen_RawVectorMapper_bit = gen_RawVector_bit := rfl
theorem mapper_int_def : gen_RawVectorMapper_int = gen_RawVector_int := rfl
theorem mapper_word_def : gen_RawVectorMapper_word = gen_RawVector_word := rfl
theorem mapper_word_unchecked_def : gen_RawVectorMapper_word_unchecked = gen_RawVector_word_unchecked := rfl
theorem mapper_get_def : gen_IntVectorMapper_get = gen_IntVector_get := rfl

theorem mapper_bit_eq (m : Mode) (v : RawVec) (i : Nat) : gen_RawVectorMapper_bit m v i = v.bitM i := by
  rw [mapper_bit_def]; exact raw_bit_eq m v i

theorem mapper_word_eq (m : Mode) (v : RawVec) (i : Nat) : gen_RawVectorMapper_word m v i = v.wordM i := by
  rw [mapper_word_def]; exact raw_word_eq m v i

theorem mapper_word_unchecked_eq (m : Mode) (v : RawVec) (i : Nat) :
    gen_RawVectorMapper_word_unchecked m v i = v.wordU i := by
  rw [mapper_word_unchecked_def]; exact raw_word_unchecked_eq m v i

theorem mapper_int_eq' (m : Mode) (v : RawVec) (off w : Nat) (hw : w ≤ 64) (ho : off < U64) :
    gen_RawVectorMapper_int m v off w = if w = 0 then ok 0 else readIntM v.data off w := by
  rw [mapper_int_def]; exact raw_int_eq' m v off w hw ho

theorem mapper_int_eq (m : Mode) (v : RawVec) (off w : Nat) (hw : w ≤ 64) (ho : off < U64)
    (hin : off + w ≤ 64 * v.data.size) : gen_RawVectorMapper_int m v off w = ok (v.int off w) := by
  rw [mapper_int_def]; exact raw_int_eq m v off w hw ho hin

theorem mapper_get_eq (m : Mode) (v : IntVec) (i : Nat) (hwf : v.WF) (hb : v.len * v.width < U64) :
    gen_IntVectorMapper_get m v i = v.get i := by
  rw [mapper_get_def]; exact int_get_eq m v i hwf hb

/-! ### `count_ones` -/

/-- the translated loop body of `count_ones` -/
private def countStep (m : Mode) (a : Array Word) : Nat × Nat → Outcome (Ctl (Nat × Nat) Nat) :=
  fun (for_i1, result) => do
    if (decide (for_i1 < a.size)) then do
      let value := rd a for_i1
      let t1 ← addM m result (popcount value)
      let result := t1
      pure (Ctl.next (for_i1 + 1, result))
    else do
      pure (Ctl.brk (for_i1, result))

private theorem vloopM_succ {σ ρ : Type} (n : Nat) (step : σ → Outcome (Ctl σ ρ)) (s : σ) :
    loopM (n + 1) step s = (step s).bind (fun c => match c with | .next s' => loopM n step s' | r => ok r) := rfl

private theorem countStep_lt (m : Mode) (a : Array Word) (i acc : Nat) (hi : i < a.size)
    (hacc : acc + popcount (rd a i) < U64) :
    countStep m a (i, acc) = ok (Ctl.next (i + 1, acc + popcount (rd a i))) := by
  simp [countStep, hi, addM_ok hacc]

private theorem countStep_ge (m : Mode) (a : Array Word) (i acc : Nat) (hi : ¬ i < a.size) :
    countStep m a (i, acc) = ok (Ctl.brk (i, acc)) := by
  simp [countStep, hi]

/-- the words from index `i` on, summed into `acc` -/
private theorem count_loop (m : Mode) (a : Array Word) :
    ∀ k i acc, i + k = a.size → acc + 64 * k < U64 →
      loopM (k + 1) (countStep m a) (i, acc) =
        ok (Ctl.brk (a.size, (a.toList.drop i).foldl (fun acc w => acc + popcount w) acc)) := by
  intro k
  induction k with
  | zero =>
    intro i acc hi _
    have : i = a.size := by omega
    subst this
    rw [vloopM_succ, countStep_ge m a _ acc (by omega)]
    have hd : a.toList.drop a.size = [] := List.drop_of_length_le (by simp)
    rw [hd]
    rfl
  | succ k ih =>
    intro i acc hi hacc
    have hlt : i < a.size := by omega
    have hp := popcount_le (rd a i)
    rw [vloopM_succ, countStep_lt m a i acc hlt (by omega)]
    simp only [Outcome.bind]
    rw [ih (i + 1) (acc + popcount (rd a i)) (by omega) (by omega)]
    have hd : a.toList.drop i = rd a i :: a.toList.drop (i + 1) := by
      rw [List.drop_eq_getElem_cons (by simpa using hlt)]
      simp [rd, hlt]
    rw [hd, List.foldl_cons]

private theorem count_loop_all (m : Mode) (a : Array Word) (h : 64 * a.size < U64) :
    loopM (a.size - 0 + 1) (countStep m a) (0, 0) =
      ok (Ctl.brk (a.size, a.foldl (fun acc w => acc + popcount w) 0)) := by
  rw [Nat.sub_zero, count_loop m a a.size 0 0 (by omega) (by omega), List.drop_zero, Array.foldl_toList]

theorem raw_count_ones_eq (m : Mode) (v : RawVec) (h : 64 * v.data.size < U64) :
    gen_RawVector_count_ones m v = ok v.countOnes := by
  have hl := count_loop_all m v.data h
  have e : gen_RawVector_count_ones m v =
      (loopM (ρ := Nat) (v.data.size - 0 + 1) (countStep m v.data) (0, 0)).bind (fun lr1 =>
        match lr1 with
        | .ret _ => fault .fuel
        | .next _ => fault .fuel
        | .brk (_, result) => ok result) := rfl
  rw [e, hl]
  rfl

theorem mapper_count_ones_def : gen_RawVectorMapper_count_ones = gen_RawVector_count_ones := rfl

theorem mapper_count_ones_eq (m : Mode) (v : RawVec) (h : 64 * v.data.size < U64) :
    gen_RawVectorMapper_count_ones m v = ok v.countOnes := by
  rw [mapper_count_ones_def]; exact raw_count_ones_eq m v h

/-! ### the hypothesis of `count_ones` is about overflow only: without overflow checks the code wraps, with them it
panics, where the model sums in `Nat`; on a vector whose length in bits is below 2^64 it holds. -/

theorem raw_count_ones_eq_of_wf (m : Mode) (v : RawVec) (hwf : v.WF) (hl : v.len + 63 < U64) :
    gen_RawVector_count_ones m v = ok v.countOnes :=
  raw_count_ones_eq m v (by have := hwf.1; omega)

theorem mapper_count_ones_eq_of_wf (m : Mode) (v : RawVec) (hwf : v.WF) (hl : v.len + 63 < U64) :
    gen_RawVectorMapper_count_ones m v = ok v.countOnes :=
  mapper_count_ones_eq m v (by have := hwf.1; omega)

end Sds.GenEq
