/-
Proofs/Glue5: glue lemmas for the property files C03, C08, C09 (all in namespace `Sds.Glue5`).

* `blocks_bound` / `blocks_bound_calls` — the block-count hypothesis `v.blocks + 8 < 2^64` of the run-length
  query theorems (Proofs/RLQueries) follows from the builder invariant: the flushed runs are the MAXIMAL runs
  of the bit sequence, so every run but the first is preceded by an unset bit, hence `2 · runs ≤ len + 1`,
  every block holds at least one run, and `len < 2^64`: at most `2^63` blocks.  `rl_good`: every vector built
  by accepted calls is `RLQ.Good`, with no further hypothesis.
* run-length vector: the answers decided by the first comparison in the code (`rl_select_past`,
  `rl_selectZero_past`, `rl_successor_past`, `rl_predecessor_clamp`), `select_zero_iter` succeeds
  (`rl_selectZeroIter_ok`), `select_iter` drained (`rl_selectIter_drain`), `getSpec` in list terms.
* list-level facts about the reference answers for out-of-range arguments (`succSpec_none_of_ge`,
  `predSpec_of_ge`, `predSpec_clamp`, `selectZeroSpec_eq_none`) and the set-level reference functions on
  `onesPos B` (`set_specs_onesPos`, `selectZeroSet_onesPos`, `onesPos_admissible`).
* sparse vector: "no out-of-bounds access" (`≠ fault .oob`) for `get(i)` with ANY `i` (`sparse_get_not_oob`),
  `select_zero_iter` succeeds (`sparse_selectZeroIter_ok`), the documented out-of-range answers
  (`sparse_rank_past`, …), first items of `predecessor` / `successor`, positioned iterators under every
  `next` / `next_back` history (`sparse_iter_histories`).
* wavelet matrix: index past the end, rank beyond the occurrences, absent value (`wm_rank_past`, …).
-/
import Sds.Proofs.Glue4
import Sds.Proofs.RLQueries
import Sds.Proofs.Sparse2
import Sds.Proofs.WM
import Sds.Proofs.Glue

namespace Sds
open Outcome

namespace Glue5
open RunIter RLBuilder SampleIndex

/-! ### the number of blocks of a converted run-length vector -/

/-- **at most 2^63 blocks**: the vector returned by `From<RLBuilder>` for a reachable builder has
`blocks + 8 < 2^64` (in fact `2 · blocks ≤ len + 1`) -/
theorem blocks_bound (m : Mode) {b : RLBuilder} {v : RL} {B : List Bool} {done : List (List (Nat × Nat))}
    {cur : List (Nat × Nat)} (ha : Abs b B done cur) (h : RL.ofBuilder m b = ok v) :
    2 * v.blocks ≤ v.len + 1 ∧ v.blocks + 8 < U64 := by
  have hruns := RLQ.abs_runs_eq ha
  obtain ⟨hi, hd, hl, hcnt, hrn⟩ := ha
  obtain ⟨b', w, e', f1, f2, f3, w1, w2, wdef, f4⟩ := RL.ofBuilder_fields m h
  obtain ⟨b1, done', cur', e, hd1, l1, l2, l3, hfl0⟩ := flush_dinv m hi hd
  have hfl : done'.flatten ++ cur' = done.flatten ++ cur ++ RLQ.pendRel b := hfl0
  rw [e] at e'
  injection e' with e'; subst e'
  have hi1 := flush_inv m hi e
  have hlt := hi1.len_lt
  have htl := hi1.tail_le
  obtain ⟨sl1, _⟩ := RL.samples_read (sl := b1.samples.toList) w1 w2
  rw [← f4] at sl1
  have hblocks : v.blocks = b1.samples.size := by
    show v.samples.len / 2 = _
    rw [sl1, Array.length_toList]; omega
  obtain ⟨d1, d2, d3, d4, d5, d6, d7, d8, d9, d10⟩ := hd1
  have hgaps : ∀ p ∈ (done'.flatten ++ cur').tail, 1 ≤ p.1 :=
    RL.gaps_of_sep_tail _ (by rw [hfl, hruns]; exact RL.maximalRuns_sep B)
  have hlens : ∀ p ∈ done'.flatten ++ cur', 1 ≤ p.2 := by
    intro p hp
    rcases List.mem_append.mp hp with hp | hp
    · obtain ⟨blk, hb, hp⟩ := List.mem_flatten.mp hp
      exact ((d1 blk hb).2.1 p hp).2
    · exact (d2.1 p hp).2
  have h2 := RL.two_runs_le_span (done'.flatten ++ cur') hlens hgaps
  have h1 := RL.length_le_flatten done' (fun blk hb => (d1 blk hb).1)
  have hr1 : b1.run.1 = b.len := by rw [l3]
  have hsp : span (done'.flatten ++ cur') ≤ b1.len := by rw [span_append, ← d10, l1]; omega
  have hsz : b1.samples.size ≤ (done'.flatten ++ cur').length := by
    rw [d4, List.length_append]
    by_cases hc : cur' = []
    · rw [if_pos hc]; omega
    · rw [if_neg hc]
      have : 1 ≤ cur'.length := by
        cases cur' with
        | nil => exact absurd rfl hc
        | cons _ _ => simp
      omega
  rw [hblocks, f1]
  rw [U64_eq] at hlt ⊢
  omega

/-- the same after any accepted call history -/
theorem blocks_bound_calls (m : Mode) (calls : List RL.BCall) (hc : ∀ c ∈ calls, RL.callArgsOk c)
    (b : RLBuilder) (hb : RL.runBCalls m calls {} = ok b) (v : RL) (hv : RL.ofBuilder m b = ok v) :
    2 * v.blocks ≤ v.len + 1 ∧ v.blocks + 8 < U64 := by
  obtain ⟨done, cur, ha⟩ := RL.runBCalls_abs m calls {} b [] [] [] hc abs_empty hb
  exact blocks_bound m ha hv

/-- every vector built by accepted builder calls is well formed (`RLQ.Good`) with the maximal runs of the bit
sequence the calls describe — no hypothesis besides the call history -/
theorem rl_good (m : Mode) (calls : List RL.BCall) (hc : ∀ c ∈ calls, RL.callArgsOk c)
    (b : RLBuilder) (hb : RL.runBCalls m calls {} = ok b) (v : RL) (hv : RL.ofBuilder m b = ok v) :
    RLQ.Good v (maximalRuns (calls.foldl RL.specCall [])) ∧ v.len = (calls.foldl RL.specCall []).length ∧
      v.ones = (calls.foldl RL.specCall []).count true ∧
      v.countZeros = (calls.foldl RL.specCall []).count false :=
  RLQ.build_good m calls hc b hb v hv (blocks_bound_calls m calls hc b hb v hv).2

/-! ### run-length vector: the answers the code gives before looking at the data -/

theorem rl_select_past (m : Mode) (v : RL) (r : Nat) (h : v.ones ≤ r) :
    v.select m r = ok none ∧ v.selectIter m r = ok (RLOneIter.emptyIter v) := by
  constructor
  · unfold RL.select; rw [if_pos h]
  · unfold RL.selectIter; rw [if_pos h]

/-- the iterator returned by `select_zero_iter(r)`, `r ≥ count_zeros` -/
def rlZeroEnd (v : RL) : RLZeroIter := ⟨RunIter.emptyIter v, true, (v.countZeros, v.len)⟩

theorem rl_selectZero_past (m : Mode) (v : RL) (r : Nat) (h : v.countZeros ≤ r) :
    v.selectZero m r = ok none ∧ v.selectZeroIter m r = ok (rlZeroEnd v) := by
  constructor
  · unfold RL.selectZero; rw [if_pos h]
  · unfold RL.selectZeroIter; rw [if_pos h]; rfl

/-- … which is empty (`ones ≤ len`: so that `rank_zero` of the end position does not underflow) -/
theorem rl_zeroEnd_next (m : Mode) (v : RL) (h : v.ones ≤ v.len) :
    (rlZeroEnd v).nextQ m v = ok (none, rlZeroEnd v) := by
  unfold RLZeroIter.nextQ rlZeroEnd RunIter.rankZero RunIter.emptyIter RunIter.offsetBits RunIter.rank
  simp only [subM_ok h, bind_ok]
  simp

theorem rl_successor_past (m : Mode) (v : RL) (x : Nat) (h : v.len ≤ x) :
    v.successor m x = ok (RLOneIter.emptyIter v) := by
  unfold RL.successor; rw [if_pos h]

/-- `predecessor(x)`, `x ≥ len`: literally the computation of `predecessor(len - 1)` (the argument is clamped
first); the empty iterator for the empty vector -/
theorem rl_predecessor_clamp (m : Mode) (v : RL) (x : Nat) (h : v.len ≤ x) :
    v.predecessor m x = v.predecessor m (v.len - 1) ∧
    (v.len = 0 → v.predecessor m x = ok (RLOneIter.emptyIter v)) := by
  constructor
  · unfold RL.predecessor
    rw [show min x (v.len - 1) = min (v.len - 1) (v.len - 1) by omega]
  · intro h0
    unfold RL.predecessor; rw [if_pos h0]

/-- `select_zero_iter(r)` succeeds for every `r` on a well-formed vector, positioned at `(r, select_zero(r))` -/
theorem rl_selectZeroIter_ok (m : Mode) {v : RL} {R : List (Nat × Nat)} (g : RLQ.Good v R) (r : Nat) :
    ∃ z, v.selectZeroIter m r = ok z ∧
      (r < v.countZeros → z.pos.1 = r ∧ v.selectZero m r = ok (some z.pos.2)) := by
  by_cases hr : r ≥ v.countZeros
  · exact ⟨_, (rl_selectZero_past m v r hr).2, fun h => absurd h (by omega)⟩
  · have h := g.selectZero m r
    unfold RL.selectZero at h
    rw [if_neg hr] at h
    obtain ⟨it, h1, h⟩ := Outcome.bind_eq_ok h
    obtain ⟨⟨r', it', gn⟩, h2, h3⟩ := Outcome.bind_eq_ok h
    refine ⟨⟨it', gn, (r, r')⟩, ?_, fun _ => ⟨rfl, ?_⟩⟩
    · unfold RL.selectZeroIter
      rw [if_neg hr, h1, bind_ok, h2]; rfl
    · unfold RL.selectZero
      rw [if_neg hr, h1, bind_ok, h2]; rfl

/-! ### the reference answers for out-of-range arguments -/

theorem selectZeroSpec_eq_none (B : List Bool) (r : Nat) (h : B.count false ≤ r) : selectZeroSpec B r = none := by
  unfold selectZeroSpec
  have := selectSpec_eq_none (B.map not) r (by rw [Glue.count_true_map_not]; exact h)
  exact this

theorem succSpec_none_of_ge (B : List Bool) (x : Nat) (h : B.length ≤ x) : succSpec B x = none := by
  rw [IterProofs.succSpec_eq, rankSpec_of_ge B x h,
    List.getElem?_eq_none (by rw [length_onesPos]; exact Nat.le_refl _)]

/-- `predSpec B x` for `x + 1 ≥ |B|`: the last set bit with its rank, `none` when there is none -/
theorem predSpec_of_ge (B : List Bool) (x : Nat) (h : B.length ≤ x + 1) :
    predSpec B x = if B.count true = 0 then none
      else some (B.count true - 1, (onesPos B)[B.count true - 1]?.getD 0) := by
  have e := IterProofs.predSpec_eq .ident (RawVec.ofBits B) x
  rw [RawVec.bits_ofBits, IterProofs.bitsT_ident, rankSpec_of_ge B (x + 1) h] at e
  exact e

theorem predSpec_clamp (B : List Bool) (x : Nat) (h : B.length ≤ x) : predSpec B x = predSpec B (B.length - 1) := by
  rw [predSpec_of_ge B x (by omega), predSpec_of_ge B (B.length - 1) (by omega)]

/-- the set-level reference functions on the list of set positions are the bit-level ones -/
theorem set_specs_onesPos (B : List Bool) :
    (∀ i, rankSet (onesPos B) i = rankSpec B i) ∧ (∀ r, selectSet (onesPos B) r = selectSpec B r) ∧
    (∀ x, predSet (onesPos B) x = predSpec B x) ∧ (∀ x, succSet (onesPos B) x = succSpec B x) := by
  refine ⟨fun i => IterProofs.filter_lt_length B i, fun r => (selectSpec_eq_onesPos B r).symm, fun x => rfl, ?_⟩
  intro x
  rw [IterProofs.succSpec_eq]
  unfold succSet
  simp only [IterProofs.filter_lt_length]
  cases (onesPos B)[rankSpec B x]? <;> rfl

/-! ### sparse vector: `get` past the end, `select_zero_iter` -/

theorem unwrapM_not_oob {α} (o : Option α) : unwrapM o ≠ fault .oob := by
  cases o <;> (intro h; cases h)

theorem intVec_get_not_oob (v : IntVec) (i : Nat) : v.get i ≠ fault .oob := by
  by_cases h : i < v.len
  · rw [IntVec.get_ok v i h]; exact Glue.ok_not_oob _
  · rw [IntVec.get_fault v i (by omega)]; intro h; cases h

theorem sparse_getLoop_not_oob {s : Sparse} {n w : Nat} {P : List Nat} (hs : s.Encodes n w P) (L : Nat) :
    ∀ (fuel : Nat) (p : Pos), Sparse.getLoop s L fuel p ≠ fault .oob := by
  intro fuel
  induction fuel with
  | zero => intro p h; simp [Sparse.getLoop] at h
  | succ f ih =>
    intro p
    unfold Sparse.getLoop
    split
    · rename_i hlt
      rw [hs.high_get _ hlt, bind_ok]
      split
      · refine Glue.bind_not_oob (intVec_get_not_oob _ _) (fun l => ?_)
        split
        · exact Glue.ok_not_oob _
        · exact ih _
      · exact Glue.ok_not_oob _
    · exact Glue.ok_not_oob _

theorem sparse_lowerBound_not_oob {s : Sparse} {n w : Nat} {P : List Nat} (hs : s.Encodes n w P) (m : Mode)
    (hp : Nat) : s.lowerBound m hp ≠ fault .oob := by
  unfold Sparse.lowerBound
  split
  · exact Glue.ok_not_oob _
  · rw [hs.high_selz, bind_ok]
    refine Glue.bind_not_oob (unwrapM_not_oob _) (fun z => ?_)
    refine Glue.bind_not_oob (Glue.addM_not_oob _ _ _) (fun ho => ?_)
    refine Glue.bind_not_oob (Glue.subM_not_oob _ _ _) (fun lo => ?_)
    exact Glue.ok_not_oob _

/-- **`get(i)` for EVERY `i`** — also `i ≥ len`, where the library documents a possible panic — never reads out
of bounds: the `high` bit vector is read below its length only, the `low` reads are asserted -/
theorem sparse_get_not_oob {s : Sparse} {n w : Nat} {P : List Nat} (hs : s.Encodes n w P) (m : Mode) (i : Nat) :
    s.get m i ≠ fault .oob := by
  unfold Sparse.get
  exact Glue.bind_not_oob (sparse_lowerBound_not_oob hs m _) (fun p => sparse_getLoop_not_oob hs _ _ p)

/-- **`select_zero_iter(r)` succeeds for every `r`** (set mode), both modes -/
theorem sparse_selectZeroIter_ok {s : Sparse} {n w : Nat} {P : List Nat} (hs : s.Encodes n w P)
    (hstrict : sortedStrict P = true) (m : Mode) (r : Nat) : ∃ z, s.selectZeroIter m r = ok z := by
  unfold Sparse.selectZeroIter
  by_cases hr : r ≥ s.countZeros
  · rw [if_pos hr]; exact ⟨_, rfl⟩
  · rw [if_neg hr]
    obtain ⟨K, it', h1, h2, h3, _, _⟩ := Sparse2.findZeroRun_ok hs hstrict m r
    have hnext : ∃ o it'', SpOneIter.nextQ m s it' = ok (o, it'') := by
      by_cases hK : K < P.length
      · exact ⟨_, _, (nextQ_ok hs m K it' h2 hK).1⟩
      · have : K = P.length := by omega
        subst this; exact ⟨_, _, nextQ_none hs m it' h2⟩
    obtain ⟨o, it'', h4⟩ := hnext
    have hlt : K + r < U64 := by
      have hn := hs.n_lt
      unfold Sparse.countZeros Sparse.countOnes at hr
      rw [hs.low_len, hs.len_eq] at hr
      rw [U64_eq]
      split at hr <;> omega
    simp only [h1, bind_ok, h4, addM_ok hlt, pure_eq]
    exact ⟨_, rfl⟩

/-- the empty zero-iterator returned for `r ≥ count_zeros` is empty -/
theorem sparse_zeroEmpty_next (m : Mode) (s : Sparse) :
    SpZeroIter.nextQ m s (SpZeroIter.emptyIter s) = ok (none, SpZeroIter.emptyIter s) := by
  unfold SpZeroIter.nextQ SpZeroIter.emptyIter
  simp

/-- `predecessor(x)`, `x ≥ len`, equals `predecessor(len - 1)` (set or multiset) -/
theorem sparse_predecessor_clamp {s : Sparse} {n w : Nat} {P : List Nat} (hs : s.Encodes n w P) (m : Mode)
    (x : Nat) (hx : n ≤ x) : s.predecessor m x = s.predecessor m (n - 1) ∧ predSet P x = predSet P (n - 1) := by
  have e : predSet P x = predSet P (n - 1) := by
    rw [← predSet_clamp hs x, ← predSet_clamp hs (n - 1)]
    rw [show min x (n - 1) = min (n - 1) (n - 1) by omega]
  refine ⟨?_, e⟩
  rw [pred_ok hs m x, pred_ok hs m (n - 1), e]

/-! ### run-length vector: `get` in terms of the list, `select_iter` -/

theorem getSpec_lt (B : List Bool) (i : Nat) (hi : i < B.length) : RLQ.getSpec B i = B[i] := by
  simp [RLQ.getSpec, List.getD_eq_getElem?_getD, hi]

theorem getSpec_ge (B : List Bool) (i : Nat) (hi : B.length ≤ i) : RLQ.getSpec B i = false := by
  simp [RLQ.getSpec, List.getD_eq_getElem?_getD, hi]

/-- **`select_iter(r)` on built vectors**, every `r`: the items are the set positions of rank `r, r+1, …` of
`B`, in order, each with its rank; then `None` (nothing at all for `r ≥ count_ones`) -/
theorem rl_selectIter_drain (m : Mode) {v : RL} (B : List Bool) (g : RLQ.Good v (maximalRuns B))
    (e2 : v.ones = B.count true) (r F : Nat) (hF : B.count true - r + 1 ≤ F) :
    ∃ st items, v.selectIter m r = ok st ∧ RLQ.drainOne m v F st = ok items ∧
      items.map (·.2) = (onesPos B).drop r ∧ items.map (·.1) = List.range' r (B.count true - r) := by
  obtain ⟨bl, gb, hR⟩ := g
  obtain ⟨st, h1, h2⟩ := gb.selectIter_drain m r F (by rw [e2]; exact hF)
  rw [← hR, e2] at h2
  refine ⟨st, _, h1, h2, ?_, RLQ.oneItems_fst _ _ _⟩
  by_cases hr : r ≤ B.count true
  · rw [RLQ.oneItems_snd B _ r (by omega)]
    apply List.take_of_length_le
    rw [List.length_drop, length_onesPos]; omega
  · rw [show B.count true - r = 0 by omega, List.drop_of_length_le (by rw [length_onesPos]; omega)]
    rfl

/-! ### sparse vector: the documented out-of-range answers -/

section SparsePast
variable {s : Sparse} {n w : Nat} {P : List Nat}

theorem sparse_counts (hs : s.Encodes n w P) :
    s.len = n ∧ s.countOnes = P.length ∧ s.countZeros = n - P.length := by
  refine ⟨hs.len_eq, hs.low_len, ?_⟩
  unfold Sparse.countZeros Sparse.countOnes
  rw [hs.low_len, hs.len_eq]
  split <;> omega

theorem sparse_rank_past (hs : s.Encodes n w P) (m : Mode) (i : Nat) (hi : n ≤ i) :
    s.rank m i = ok P.length := by
  rw [rank_ok hs m i, rankSet_of_ge hs i hi]

theorem sparse_select_past (hs : s.Encodes n w P) (m : Mode) (r : Nat) (hr : P.length ≤ r) :
    s.select m r = ok none ∧ s.selectIter m r = ok (SpOneIter.emptyIter s) ∧
    SpOneIter.nextQ m s (SpOneIter.emptyIter s) = ok (none, SpOneIter.emptyIter s) := by
  refine ⟨?_, ?_, nextQ_none hs m _ (empty_IterAt hs)⟩
  · rw [select_ok hs m r]; unfold selectSet; rw [List.getElem?_eq_none hr]
  · rw [selectIter_ok hs m r]; unfold Sparse.iterAt; rw [dif_neg (by omega)]

theorem sparse_successor_past (hs : s.Encodes n w P) (m : Mode) (x : Nat) (hx : n ≤ x) :
    s.successor m x = ok (SpOneIter.emptyIter s) := by
  rw [succ_ok hs m x, succSet_none_of_ge hs x hx]

theorem sparse_predecessor_empty (hs : s.Encodes n w P) (hP : P = []) (m : Mode) (x : Nat) :
    s.predecessor m x = ok (SpOneIter.emptyIter s) := by
  rw [pred_ok hs m x, hP]; rfl

theorem sparse_rankZero_past (hs : s.Encodes n w P) (hstrict : sortedStrict P = true) (m : Mode) (i : Nat)
    (hi : n ≤ i) : s.rankZero m i = ok (i - P.length) := by
  rw [rankZero_ok hs hstrict m i, rankSet_of_ge hs i hi]

theorem sparse_selectZero_past (hs : s.Encodes n w P) (hstrict : sortedStrict P = true) (m : Mode) (r : Nat)
    (hr : n - P.length ≤ r) :
    s.selectZero m r = ok none ∧ s.selectZeroIter m r = ok (SpZeroIter.emptyIter s) := by
  constructor
  · have := Sparse2.selectZero_ok hs hstrict m r
    rwa [if_neg (by omega)] at this
  · unfold Sparse.selectZeroIter
    rw [if_pos (by rw [(sparse_counts hs).2.2]; exact hr)]

/-- `predecessor(x)` in one form: the call succeeds and the first item of the returned iterator is
`predSet P x` (`None`: the iterator is empty) -/
theorem sparse_pred_first_item (hs : s.Encodes n w P) (m : Mode) (x : Nat) :
    ∃ it it', s.predecessor m x = ok it ∧ SpOneIter.nextQ m s it = ok (predSet P x, it') := by
  have h := pred_first hs m x
  cases hp : predSet P x with
  | none => rw [hp] at h; exact ⟨_, _, h.1, h.2⟩
  | some kv =>
    rw [hp] at h
    obtain ⟨it, it', h1, _, h3, _⟩ := h
    exact ⟨it, it', h1, h3⟩

theorem sparse_succ_first_item (hs : s.Encodes n w P) (m : Mode) (x : Nat) :
    ∃ it it', s.successor m x = ok it ∧ SpOneIter.nextQ m s it = ok (succSet P x, it') := by
  have h := succ_first hs m x
  cases hp : succSet P x with
  | none => rw [hp] at h; exact ⟨_, _, h.1, h.2⟩
  | some kv =>
    rw [hp] at h
    obtain ⟨it, it', h1, _, h3, _⟩ := h
    exact ⟨it, it', h1, h3⟩

end SparsePast

/-! ### the unset positions: set-level `select_zero` on the set positions of `B` is the bit-level one -/

theorem zeros_filter_eq (B : List Bool) :
    (List.range B.length).filter (fun i => !(onesPos B).contains i) = zerosPos B := by
  apply pairwise_lt_ext
  · exact List.pairwise_lt_range.filter _
  · exact onesPos_pairwise (B.map not)
  · intro x
    rw [List.mem_filter, List.mem_range]
    unfold zerosPos
    rw [show onesFrom (B.map not) 0 = onesPos (B.map not) from rfl, Glue.mem_onesPos]
    constructor
    · rintro ⟨hx, hc⟩
      rw [contains_onesPos B x hx] at hc
      rw [List.getElem?_map, List.getElem?_eq_getElem hx]
      simpa using hc
    · intro h
      have hx : x < B.length := by
        rcases Nat.lt_or_ge x B.length with h' | h'
        · exact h'
        · rw [List.getElem?_eq_none (by simpa using h')] at h; cases h
      refine ⟨hx, ?_⟩
      rw [contains_onesPos B x hx]
      rw [List.getElem?_map, List.getElem?_eq_getElem hx] at h
      simpa using h

theorem selectZeroSet_onesPos (B : List Bool) (r : Nat) :
    selectZeroSet (onesPos B) B.length r = selectZeroSpec B r := by
  unfold selectZeroSet selectZeroSpec
  rw [zeros_filter_eq]
  exact (selectSpec_eq_onesPos (B.map not) r).symm

/-- the set positions of a bit list are an admissible input of the sparse builder -/
theorem onesPos_admissible (B : List Bool) :
    sortedStrict (onesPos B) = true ∧ (∀ p ∈ onesPos B, p < B.length) ∧ (onesPos B).length = B.count true :=
  ⟨sortedStrict_of_pairwise _ (onesPos_pairwise B), fun p hp => onesPos_lt B p hp, length_onesPos B⟩

/-! ### wavelet matrix: out-of-range index, rank beyond the occurrences, absent value -/

section WMPast
variable {w : WM} {V : List Nat} {width : Nat}

theorem wm_rank_past (hw : w.Ok V width) (m : Mode) (i v : Nat) (hi : V.length ≤ i) :
    w.rank m i v = ok (V.count v) ∧ w.successor m i v = ok (V.count v) := by
  rw [successor_ok hw, rank_ok_wm hw, List.take_of_length_le hi]
  exact ⟨rfl, rfl⟩

theorem wm_select_past (hw : w.Ok V width) (m : Mode) (r v : Nat) (hr : V.count v ≤ r) :
    w.select m r v = ok none ∧ ∃ st, w.valueIterNext m v r = ok (none, st) := by
  have hn := (selectVal_eq_none V v r).mpr hr
  refine ⟨by rw [select_ok_wm hw, hn], ?_⟩
  rw [valueIterNext_ok hw, hn]
  by_cases h : r ≥ V.length
  · rw [if_pos h]; exact ⟨_, rfl⟩
  · rw [if_neg h]; exact ⟨_, rfl⟩

theorem wm_predecessor_past (hw : w.Ok V width) (m : Mode) (i v : Nat) (hi : V.length ≤ i + 1) :
    w.predecessor m i v = ok (if V.count v > 0 then V.count v - 1 else V.length) := by
  rw [predecessor_ok hw, List.take_of_length_le hi]

theorem wm_predecessor_clamp (hw : w.Ok V width) (m : Mode) (i v : Nat) (hi : V.length ≤ i) :
    w.predecessor m i v = w.predecessor m (V.length - 1) v := by
  rw [wm_predecessor_past hw m i v (by omega), wm_predecessor_past hw m (V.length - 1) v (by omega)]

/-- a value that does not occur — in particular every value outside the alphabet -/
theorem wm_absent (hw : w.Ok V width) (m : Mode) (v : Nat) (hv : v ∉ V) :
    w.contains v = ok false ∧ (∀ i, w.rank m i v = ok 0) ∧ (∀ r, w.select m r v = ok none) ∧
    (∀ i, w.predecessor m i v = ok V.length) ∧ (∀ i, w.successor m i v = ok 0) := by
  have h0 : ∀ i, (V.take i).count v = 0 := fun i =>
    List.count_eq_zero.mpr (fun h => hv (List.mem_of_mem_take h))
  refine ⟨by rw [contains_ok hw]; simp [hv], fun i => by rw [rank_ok_wm hw, h0], ?_, ?_, ?_⟩
  · intro r
    exact (wm_select_past hw m r v (by rw [List.count_eq_zero.mpr hv]; exact Nat.zero_le _)).1
  · intro i; rw [predecessor_ok hw, h0]; rfl
  · intro i; rw [successor_ok hw, h0]

theorem wm_outside_alphabet (hw : w.Ok V width) (v : Nat) (hv : 2 ^ width ≤ v) : v ∉ V := by
  intro hm
  have := hw.core.bound v hm
  omega

end WMPast

/-! ### sparse vector: positioned iterators under every `next` / `next_back` history -/

theorem sparse_iter_histories {s : Sparse} {n w : Nat} {P : List Nat} (hs : s.Encodes n w P) (m : Mode)
    (calls : List Sparse2.End) :
    (∀ r, ∃ it res, s.selectIter m r = ok it ∧ Sparse2.runCalls m s calls it = ok res) ∧
    (∀ x, ∃ it res, s.predecessor m x = ok it ∧ Sparse2.runCalls m s calls it = ok res) ∧
    (∀ x, ∃ it res, s.successor m x = ok it ∧ Sparse2.runCalls m s calls it = ok res) := by
  have key : ∀ r, ∃ res, Sparse2.runCalls m s calls (s.iterAt w P r) = ok res := by
    intro r
    obtain ⟨it', r', R', h, _⟩ :=
      Sparse2.runCalls_between hs m calls _ _ _ (Sparse2.between_of_IterAt hs (iterAt_IterAt hs r))
    exact ⟨_, h⟩
  have keyE : ∃ res, Sparse2.runCalls m s calls (SpOneIter.emptyIter s) = ok res := by
    obtain ⟨it', r', R', h, _⟩ :=
      Sparse2.runCalls_between hs m calls _ _ _ (Sparse2.between_of_IterAt hs (empty_IterAt hs))
    exact ⟨_, h⟩
  refine ⟨fun r => ?_, fun x => ?_, fun x => ?_⟩
  · obtain ⟨res, h⟩ := key r
    exact ⟨_, res, selectIter_ok hs m r, h⟩
  · have hp := pred_ok hs m x
    cases hq : predSet P x with
    | none => rw [hq] at hp; obtain ⟨res, h⟩ := keyE; exact ⟨_, res, hp, h⟩
    | some kv => rw [hq] at hp; obtain ⟨res, h⟩ := key kv.1; exact ⟨_, res, hp, h⟩
  · have hp := succ_ok hs m x
    cases hq : succSet P x with
    | none => rw [hq] at hp; obtain ⟨res, h⟩ := keyE; exact ⟨_, res, hp, h⟩
    | some kv => rw [hq] at hp; obtain ⟨res, h⟩ := key kv.1; exact ⟨_, res, hp, h⟩

end Glue5
end Sds
