/-
Proofs/GenEqRL1: the first part of Generated/FnsRL.lean (`rl_vector.rs`, translated statement by statement) is equal to
the hand-written model of Model/RL.lean.

Unconditional: `rl_count_zeros_eq` (`= subM m len ones`), `run_offset_eq`, `run_rank_eq`, `run_rank_zero_eq`,
`run_offset_for_eq`, `run_rank_at_eq`, `run_empty_iter_eq`, `rl_iter_eq`, `rl_one_iter_eq`.

Bounds (`RLBounds m v`): `data.len + 63 < 2^64` (`div_round_up(offset, 64)` adds `offset + 64`; sharp only outside the
representable range, `run_advance_if_data_ne`), `samples.len ≤ 2^64`, and in release builds "no 23-unit code"
(`rl_decode_eq`).

* `advance_if`: `run_advance_if_lazy`: the generated code IS `advanceIfLazy` (closure consulted before the new position
  is computed) for an arbitrary pure closure.  Against the model's `peek` (which adds first):
  `run_advance_if_eq_iff`: equal  ⟺  not (overflow checks on ∧ the closure declines a decoded run `(s, l)` ∧
  (`rank + l ≥ 2^64` ∨ `s + l ≥ 2^64`)).  Corollaries: closure accepts every run (`run_advance_if_eq_of_true`, hence
  `run_next_eq : gen_RunIter_next = nextQ`), release builds (`run_advance_if_eq_wrapping`), `peek` succeeds
  (`run_advance_if_eq_of_peek`).  The unconditional statement is false: `run_advance_if_ne`,
  `run_advance_if_not_unconditional` (a run ending at `2^64`: crafted data).
* `iter_for_bit/one/zero`: `len < 2^64` (resp. `ones < 2^64`; `ones ≤ len` for `zero`: `rl_count_zeros_ne`) and
  `RangeOK index x`: `numValues < 2^64` and the range `(lo, hi)` of the sample index has `lo ≤ hi` (`rl_iter_for_bit_ne`)
  and `hi * 64 < 2^64`.  The fuel `high + 1` of the code and the fuel 70 of the model agree (`blockFor_fuel_70`); the
  readers agree on the samples read (`blockFor_congr`).
* `get`, `rank`: `RLBounds` and the hypotheses of `iter_for_bit` (`get_loop`, `rank_loop` by induction on the fuel).
* `…_good`: on a well-formed vector (`RLQ.GoodB`) everything follows from `data.len + 63 < 2^64` (and, for the
  iterator in release builds, "no 23-unit code").
-/
import Sds.Generated.FnsRL
import Sds.Proofs.GenEqLoop3
import Sds.Proofs.GenEqIdx
import Sds.Proofs.RLQueries

namespace Sds.GenEq
open Sds Outcome Generated

/-! ### vocabulary -/

private theorem loopM_succR {σ ρ : Type} (n : Nat) (step : σ → Outcome (Ctl σ ρ)) (s : σ) :
    loopM (n + 1) step s = (step s).bind (fun c => match c with | .next s' => loopM n step s' | r => ok r) := rfl

theorem addM_wrapping (a b : Nat) : addM .wrapping a b = ok ((a + b) % U64) := by
  unfold addM
  by_cases h : a + b < U64
  · rw [if_pos h, Nat.mod_eq_of_lt h]
  · rw [if_neg h]

theorem addM_checked_of_le {a b : Nat} (h : U64 ≤ a + b) : addM .checked a b = fault (.panic .overflow) := by
  unfold addM; rw [if_neg (by omega)]

/-- `(start + len) + 1` in two `usize` additions (the code) is `start + (len + 1)` in one (the model), given that
`len + 1` has been computed already -/
theorem addM_assoc1 (m : Mode) (start len len1 : Nat) (h : addM m len 1 = ok len1) :
    (addM m start len >>= fun t => addM m t 1) = addM m start len1 := by
  cases m with
  | checked =>
    have hl : len + 1 < U64 := by
      unfold addM at h; by_cases hl : len + 1 < U64
      · exact hl
      · rw [if_neg hl] at h; cases h
    rw [addM_ok hl] at h
    injection h with h; subst h
    by_cases h1 : start + len < U64
    · rw [addM_ok h1, bind_ok]
      unfold addM
      rw [show start + len + 1 = start + (len + 1) from rfl]
    · rw [addM_checked_of_le (by omega), addM_checked_of_le (by omega)]; rfl
  | wrapping =>
    rw [addM_wrapping] at h
    injection h with h; subst h
    rw [addM_wrapping, bind_ok, addM_wrapping, addM_wrapping]
    congr 1
    simp only [U64]; omega

/-! ### `count_zeros` and the accessors of `RunIter` -/

theorem rl_count_zeros_eq (m : Mode) (v : RL) : gen_RLVector_count_zeros m v = subM m v.len v.ones := by
  unfold gen_RLVector_count_zeros
  cases subM m v.len v.ones <;> rfl

theorem rl_count_zeros_eq_ok (m : Mode) (v : RL) (h : v.ones ≤ v.len) :
    gen_RLVector_count_zeros m v = ok v.countZeros := by
  rw [rl_count_zeros_eq, subM_ok h]; rfl

theorem run_offset_eq (m : Mode) (v : RL) (it : RunIter) : gen_RunIter_offset m v it = ok it.offsetBits := rfl

theorem run_rank_eq (m : Mode) (v : RL) (it : RunIter) : gen_RunIter_rank m v it = ok it.rank := rfl

theorem run_rank_zero_eq (m : Mode) (v : RL) (it : RunIter) : gen_RunIter_rank_zero m v it = it.rankZero m := by
  unfold gen_RunIter_rank_zero RunIter.rankZero RunIter.offsetBits RunIter.rank
  cases subM m it.pos.2 it.pos.1 <;> rfl

theorem run_offset_for_eq (m : Mode) (v : RL) (it : RunIter) (r : Nat) :
    gen_RunIter_offset_for m v it r = it.offsetFor m r := by
  unfold gen_RunIter_offset_for RunIter.offsetFor RunIter.offsetBits RunIter.rank
  cases subM m it.pos.1 r with
  | fault e => rfl
  | ok d =>
    simp only [bind_ok]

theorem run_rank_at_eq (m : Mode) (v : RL) (it : RunIter) (i : Nat) :
    gen_RunIter_rank_at m v it i = it.rankAt m i := by
  unfold gen_RunIter_rank_at RunIter.rankAt RunIter.offsetBits RunIter.rank
  cases subM m it.pos.2 i with
  | fault e => rfl
  | ok d =>
    simp only [bind_ok]

theorem run_empty_iter_eq (m : Mode) (v : RL) : gen_RunIter_empty_iter m v v = ok (RunIter.emptyIter v) := rfl

/-- more generally, for any parent -/
theorem run_empty_iter_eq' (m : Mode) (v p : RL) : gen_RunIter_empty_iter m v p = ok (RunIter.emptyIter p) := rfl

theorem rl_iter_eq (m : Mode) (v : RL) : gen_RLVector_iter m v = v.iter := by
  unfold gen_RLVector_iter RL.iter
  rw [rl_run_iter_eq]

theorem rl_one_iter_eq (m : Mode) (v : RL) : gen_RLVector_one_iter m v = v.oneIter := by
  unfold gen_RLVector_one_iter RL.oneIter
  rw [rl_run_iter_eq]


/-! ### `advance_if` -/

/-- recurring representation bounds and the side condition of `rl_decode_eq` -/
structure RLBounds (m : Mode) (v : RL) : Prop where
  /-- the data (4-bit units) is addressable with room for rounding an offset up to a block boundary -/
  data : v.data.len + 63 < U64
  samples : v.samples.len ≤ U64
  /-- release builds: no 23-unit code in the data (`rl_decode_eq`; the builder writes at most 22 units) -/
  dec : m = .wrapping → ∀ o, ¬ units23 v o

theorem RLBounds.checked {v : RL} (hd : v.data.len + 63 < U64) (hs : v.samples.len ≤ U64) : RLBounds .checked v :=
  ⟨hd, hs, fun h => by cases h⟩

theorem RLBounds.decode_eq {m : Mode} {v : RL} (hb : RLBounds m v) (o : Nat) :
    gen_RLVector_decode m v o = v.decode m o :=
  rl_decode_eq m v o (by have := hb.data; omega) (fun h => hb.dec h o)

/-- what `advance_if` has computed when it consults the closure -/
inductive PrePeek
  | atEnd
  | noMoreBlocks (newOffset : Nat)
  | run (start len offset limit : Nat)
  deriving DecidableEq, Repr

deriving instance DecidableEq for Peek

/-- the first part of `peek`: move to the next block when the current one is used up -/
def peekHead (v : RL) (it : RunIter) : Outcome (Nat × Nat × Bool) :=
  if it.rank ≥ it.limit then do
    let block := (it.offset + 63) / 64
    if block ≥ v.blocks then return (block * 64, it.limit, true)
    else do let l ← v.onesAfter block; return (block * 64, l, false)
  else return (it.offset, it.limit, false)

/-- `RunIter.peek` without its last two additions (the new position) -/
def prePeek (m : Mode) (v : RL) (it : RunIter) : Outcome PrePeek :=
  if it.offset ≥ v.data.len then ok .atEnd else do
    let (offset, limit, stop) ← peekHead v it
    if stop then return .noMoreBlocks offset else do
    let (gap, offset) ← v.decode m offset
    let start ← addM m it.offsetBits gap
    let (len, offset) ← v.decode m offset
    let len1 ← addM m len 1
    return .run start len1 offset limit

/-- the two additions `peek` performs eagerly -/
def PrePeek.finish (m : Mode) (it : RunIter) : PrePeek → Outcome Peek
  | .atEnd => ok .atEnd
  | .noMoreBlocks o => ok (.noMoreBlocks o)
  | .run s l o lim => do
    let r ← addM m it.pos.1 l
    let e ← addM m s l
    return .run s l ⟨o, (r, e), lim⟩

theorem peek_eq_prePeek (m : Mode) (v : RL) (it : RunIter) :
    it.peek m v = prePeek m v it >>= PrePeek.finish m it := by
  unfold RunIter.peek prePeek
  by_cases h0 : it.offset ≥ v.data.len
  · rw [if_pos h0, if_pos h0]; rfl
  · rw [if_neg h0, if_neg h0]
    show (peekHead v it >>= _) = (peekHead v it >>= _) >>= _
    cases peekHead v it with
    | fault e => rfl
    | ok r =>
      obtain ⟨o, l, stop⟩ := r
      cases stop with
      | true => rfl
      | false =>
        simp only [bind_ok, Bool.false_eq_true, if_false]
        cases v.decode m o with
        | fault e => rfl
        | ok r1 =>
          obtain ⟨gap, o1⟩ := r1
          simp only [bind_ok]
          cases addM m it.offsetBits gap with
          | fault e => rfl
          | ok start =>
            simp only [bind_ok]
            cases v.decode m o1 with
            | fault e => rfl
            | ok r2 =>
              obtain ⟨len, o2⟩ := r2
              simp only [bind_ok]
              cases addM m len 1 with
              | fault e => rfl
              | ok len1 => rfl


/-- `advance_if` as coded: the closure is consulted BEFORE the new position is computed -/
def advanceIfLazy (m : Mode) (v : RL) (it : RunIter) (advance : Option (Nat × Nat) → Bool) :
    Outcome (Option (Nat × Nat) × RunIter) := do
  match ← prePeek m v it with
  | .atEnd => return (none, it)
  | .noMoreBlocks o => return (none, if advance none then { it with offset := o } else it)
  | .run s l o lim =>
    if advance (some (s, l)) then do
      let r ← addM m it.pos.1 l
      let e ← addM m s l
      return (some (s, l), ⟨o, (r, e), lim⟩)
    else return (some (s, l), it)

/-- the part of the generated `advance_if` after the block has been determined -/
def genTail (m : Mode) (v : RL) (it : RunIter) (advance : Option (Nat × Nat) → Bool) (limit offset : Nat) :
    Outcome (Option (Nat × Nat) × RunIter) := do
  let self_offset := it.offset
  let self_pos := it.pos
  let self_limit := it.limit
  let t5 ← gen_RLVector_decode m v offset
  let (gap, offset) := t5
  let t6 ← addM m (self_pos.2) gap
  let start := t6
  let t7 ← gen_RLVector_decode m v offset
  let (len, offset) := t7
  let t8 ← addM m len 1
  let result := (some (start, t8))
  let (self_limit, self_offset, self_pos) ← (if (advance result) then do
      let self_offset := offset
      let self_limit := limit
      let t9 ← addM m len 1
      let t10 ← addM m self_pos.1 t9
      let self_pos := (t10, self_pos.2)
      let t11 ← addM m start len
      let t12 ← addM m t11 1
      let self_pos := (self_pos.1, t12)
      pure (self_limit, self_offset, self_pos)
    else do
      pure (self_limit, self_offset, self_pos))
  return (result, (⟨self_offset, self_pos, self_limit⟩ : RunIter))

/-- the same part of the lazy model -/
def lazyTail (m : Mode) (v : RL) (it : RunIter) (advance : Option (Nat × Nat) → Bool) (limit offset : Nat) :
    Outcome (Option (Nat × Nat) × RunIter) := do
  let (gap, offset) ← v.decode m offset
  let start ← addM m it.offsetBits gap
  let (len, offset) ← v.decode m offset
  let len1 ← addM m len 1
  if advance (some (start, len1)) then do
    let r ← addM m it.pos.1 len1
    let e ← addM m start len1
    return (some (start, len1), ⟨offset, (r, e), limit⟩)
  else return (some (start, len1), it)

theorem genTail_eq {m : Mode} {v : RL} (hb : RLBounds m v) (it : RunIter) (advance : Option (Nat × Nat) → Bool)
    (limit offset : Nat) : genTail m v it advance limit offset = lazyTail m v it advance limit offset := by
  unfold genTail lazyTail
  simp only [hb.decode_eq]
  cases v.decode m offset with
  | fault e => rfl
  | ok r1 =>
    obtain ⟨gap, o1⟩ := r1
    simp only [bind_ok]
    show (addM m it.pos.2 gap >>= _) = (addM m it.pos.2 gap >>= _)
    cases addM m it.pos.2 gap with
    | fault e => rfl
    | ok start =>
      simp only [bind_ok]
      cases v.decode m o1 with
      | fault e => rfl
      | ok r2 =>
        obtain ⟨len, o2⟩ := r2
        simp only [bind_ok]
        cases hl : addM m len 1 with
        | fault e => rfl
        | ok len1 =>
          simp only [bind_ok]
          cases advance (some (start, len1)) with
          | false => rfl
          | true =>
            simp only [if_true]
            cases addM m it.pos.1 len1 with
            | fault e => rfl
            | ok r =>
              simp only [bind_ok]
              rw [← addM_assoc1 m start len len1 hl]
              cases addM m start len with
              | fault e => rfl
              | ok t =>
                simp only [bind_ok]
                cases addM m t 1 <;> rfl


theorem prePeek_tail (m : Mode) (v : RL) (it : RunIter) (advance : Option (Nat × Nat) → Bool) (limit offset : Nat) :
    lazyTail m v it advance limit offset =
      ((do
        let (gap, offset) ← v.decode m offset
        let start ← addM m it.offsetBits gap
        let (len, offset) ← v.decode m offset
        let len1 ← addM m len 1
        return PrePeek.run start len1 offset limit) >>= fun p =>
      match p with
      | .atEnd => return (none, it)
      | .noMoreBlocks o => return (none, if advance none then { it with offset := o } else it)
      | .run s l o lim =>
        if advance (some (s, l)) then do
          let r ← addM m it.pos.1 l
          let e ← addM m s l
          return (some (s, l), ⟨o, (r, e), lim⟩)
        else return (some (s, l), it)) := by
  unfold lazyTail
  cases v.decode m offset with
  | fault e => rfl
  | ok r1 =>
    obtain ⟨gap, o1⟩ := r1
    simp only [bind_ok]
    cases addM m it.offsetBits gap with
    | fault e => rfl
    | ok start =>
      simp only [bind_ok]
      cases v.decode m o1 with
      | fault e => rfl
      | ok r2 =>
        obtain ⟨len, o2⟩ := r2
        simp only [bind_ok]
        cases addM m len 1 with
        | fault e => rfl
        | ok len1 => rfl

/-- **`advance_if` is the lazy model**, for an arbitrary pure closure -/
theorem run_advance_if_lazy {m : Mode} {v : RL} (hb : RLBounds m v) (it : RunIter)
    (advance : Option (Nat × Nat) → Bool) :
    gen_RunIter_advance_if m v it advance = advanceIfLazy m v it advance := by
  have hU := U64_eq
  have hd := hb.data
  unfold gen_RunIter_advance_if advanceIfLazy prePeek
  by_cases h0 : it.offset ≥ v.data.len
  · simp only [h0, decide_true, if_true]; rfl
  · simp only [h0, decide_false, Bool.false_eq_true, if_false]
    unfold peekHead
    by_cases h1 : it.pos.1 ≥ it.limit
    · have h1' : it.rank ≥ it.limit := h1
      have hdr : gen_div_round_up m it.offset 64 = ok ((it.offset + 63) / 64) := by
        rw [GenFns.div_round_up_eq, divRoundUp_ok_rl (by omega) (by omega)]; rfl
      have hmul : mulM m ((it.offset + 63) / 64) 64 = ok ((it.offset + 63) / 64 * 64) := mulM_ok (by omega)
      simp only [h1, h1', decide_true, if_true, hdr, bind_ok, hmul, rl_blocks_eq]
      by_cases h2 : (it.offset + 63) / 64 ≥ v.blocks
      · simp only [h2, decide_true, if_true]
        cases advance none <;> rfl
      · simp only [h2, decide_false, Bool.false_eq_true, if_false]
        rw [rl_ones_after_eq_of_lt m v _ hb.samples (by omega)]
        cases v.onesAfter ((it.offset + 63) / 64) with
        | fault e => rfl
        | ok l =>
          simp only [bind_ok, pure_eq]
          have := genTail_eq hb it advance l ((it.offset + 63) / 64 * 64)
          rw [prePeek_tail] at this
          exact this
    · have h1' : ¬ it.rank ≥ it.limit := h1
      simp only [h1, h1', decide_false, Bool.false_eq_true, if_false, bind_ok, pure_eq]
      have := genTail_eq hb it advance it.limit it.offset
      rw [prePeek_tail] at this
      exact this


/-- what `advance_if` returns, read off the model's `peek`, for the closure `advance` -/
def advApply (it : RunIter) (advance : Option (Nat × Nat) → Bool) : Peek → Option (Nat × Nat) × RunIter
  | .atEnd => (none, it)
  | .noMoreBlocks o => (none, if advance none then { it with offset := o } else it)
  | .run s l adv => (some (s, l), if advance (some (s, l)) then adv else it)

/-- the continuation of `advanceIfLazy` after `prePeek` -/
def lazyK (m : Mode) (it : RunIter) (advance : Option (Nat × Nat) → Bool) : PrePeek →
    Outcome (Option (Nat × Nat) × RunIter)
  | .atEnd => return (none, it)
  | .noMoreBlocks o => return (none, if advance none then { it with offset := o } else it)
  | .run s l o lim =>
    if advance (some (s, l)) then do
      let r ← addM m it.pos.1 l
      let e ← addM m s l
      return (some (s, l), ⟨o, (r, e), lim⟩)
    else return (some (s, l), it)

theorem advanceIfLazy_eq (m : Mode) (v : RL) (it : RunIter) (advance : Option (Nat × Nat) → Bool) :
    advanceIfLazy m v it advance = prePeek m v it >>= lazyK m it advance := by
  unfold advanceIfLazy
  cases prePeek m v it with
  | fault e => rfl
  | ok p => cases p <;> rfl

/-- the situation in which the code and `peek` differ: the closure declines a run whose end position
(`rank + len`, `start + len`) is not representable, with overflow checks on -/
def AdvAgree (m : Mode) (it : RunIter) (advance : Option (Nat × Nat) → Bool) : PrePeek → Prop
  | .run s l _ _ => advance (some (s, l)) = false → m = .checked → it.pos.1 + l < U64 ∧ s + l < U64
  | _ => True

theorem lazyK_eq_iff (m : Mode) (it : RunIter) (advance : Option (Nat × Nat) → Bool) (p : PrePeek) :
    lazyK m it advance p = (PrePeek.finish m it p >>= fun q => ok (advApply it advance q)) ↔
      AdvAgree m it advance p := by
  cases p with
  | atEnd => exact ⟨fun _ => trivial, fun _ => rfl⟩
  | noMoreBlocks o => exact ⟨fun _ => trivial, fun _ => rfl⟩
  | run s l o lim =>
    show (if advance (some (s, l)) then (addM m it.pos.1 l >>= fun r => addM m s l >>= fun e =>
            ok (some (s, l), (⟨o, (r, e), lim⟩ : RunIter))) else ok (some (s, l), it)) =
          ((addM m it.pos.1 l >>= fun r => addM m s l >>= fun e => ok (Peek.run s l ⟨o, (r, e), lim⟩)) >>=
            fun q => ok (advApply it advance q)) ↔
        (advance (some (s, l)) = false → m = .checked → it.pos.1 + l < U64 ∧ s + l < U64)
    cases ha : advance (some (s, l)) with
    | true =>
      simp only [if_true]
      refine ⟨fun _ h => (by cases h), fun _ => ?_⟩
      cases addM m it.pos.1 l with
      | fault e => rfl
      | ok r =>
        simp only [bind_ok]
        cases addM m s l with
        | fault e => rfl
        | ok e => simp only [bind_ok, advApply, ha, if_true]
    | false =>
      simp only [Bool.false_eq_true, if_false]
      cases m with
      | wrapping =>
        simp only [addM_wrapping, bind_ok, advApply, ha, Bool.false_eq_true, if_false]
        exact ⟨fun _ _ h => (by cases h), fun _ => trivial⟩
      | checked =>
        by_cases h1 : it.pos.1 + l < U64
        · by_cases h2 : s + l < U64
          · simp only [addM_ok h1, addM_ok h2, bind_ok, advApply, ha, Bool.false_eq_true, if_false]
            exact ⟨fun _ _ _ => ⟨h1, h2⟩, fun _ => trivial⟩
          · simp only [addM_ok h1, bind_ok, addM_checked_of_le (Nat.le_of_not_lt h2), bind_fault]
            exact ⟨fun h => (by cases h), fun h => absurd (h trivial trivial).2 h2⟩
        · simp only [addM_checked_of_le (Nat.le_of_not_lt h1), bind_fault]
          exact ⟨fun h => (by cases h), fun h => absurd (h trivial trivial).1 h1⟩

/-- **`advance_if` against the model's `peek`: the EXACT condition.**  The model performs the two additions of the
new position before the closure is consulted, the code only when the closure says yes.  They agree iff it is not the
case that (overflow checks on) the closure declines a run whose end position overflows. -/
theorem run_advance_if_eq_iff {m : Mode} {v : RL} (hb : RLBounds m v) (it : RunIter)
    (advance : Option (Nat × Nat) → Bool) :
    gen_RunIter_advance_if m v it advance = (it.peek m v >>= fun q => ok (advApply it advance q)) ↔
      ∀ p, prePeek m v it = ok p → AdvAgree m it advance p := by
  rw [run_advance_if_lazy hb, advanceIfLazy_eq, peek_eq_prePeek]
  cases prePeek m v it with
  | fault e => exact ⟨fun _ p h => (by cases h), fun _ => rfl⟩
  | ok p =>
    simp only [bind_ok]
    rw [lazyK_eq_iff]
    exact ⟨fun h q hq => by injection hq with hq; subst hq; exact h, fun h => h p rfl⟩

theorem run_advance_if_eq {m : Mode} {v : RL} (hb : RLBounds m v) (it : RunIter)
    (advance : Option (Nat × Nat) → Bool)
    (h : ∀ s l o lim, prePeek m v it = ok (.run s l o lim) → advance (some (s, l)) = false → m = .checked →
      it.pos.1 + l < U64 ∧ s + l < U64) :
    gen_RunIter_advance_if m v it advance = (it.peek m v >>= fun q => ok (advApply it advance q)) := by
  rw [run_advance_if_eq_iff hb]
  intro p hp
  cases p with
  | run s l o lim => exact h s l o lim hp
  | _ => trivial

/-- a closure that accepts every run (`next`) -/
theorem run_advance_if_eq_of_true {m : Mode} {v : RL} (hb : RLBounds m v) (it : RunIter)
    (advance : Option (Nat × Nat) → Bool) (h : ∀ r, advance (some r) = true) :
    gen_RunIter_advance_if m v it advance = (it.peek m v >>= fun q => ok (advApply it advance q)) :=
  run_advance_if_eq hb it advance (fun s l _ _ _ hf => by rw [h] at hf; cases hf)

/-- release builds: unconditional in the closure -/
theorem run_advance_if_eq_wrapping {v : RL} (hb : RLBounds .wrapping v) (it : RunIter)
    (advance : Option (Nat × Nat) → Bool) :
    gen_RunIter_advance_if .wrapping v it advance =
      (it.peek .wrapping v >>= fun q => ok (advApply it advance q)) :=
  run_advance_if_eq hb it advance (fun _ _ _ _ _ _ hm => by cases hm)

/-- wherever the model's `peek` succeeds the code agrees with it, whatever the closure -/
theorem run_advance_if_eq_of_peek {m : Mode} {v : RL} (hb : RLBounds m v) (it : RunIter)
    (advance : Option (Nat × Nat) → Bool) (q : Peek) (h : it.peek m v = ok q) :
    gen_RunIter_advance_if m v it advance = ok (advApply it advance q) := by
  have := run_advance_if_eq hb it advance (fun s l o lim hp _ hm => by
    subst hm
    rw [peek_eq_prePeek, hp, bind_ok] at h
    replace h : (addM .checked it.pos.1 l >>= fun r => addM .checked s l >>= fun e =>
      ok (Peek.run s l ⟨o, (r, e), lim⟩)) = ok q := h
    by_cases h1 : it.pos.1 + l < U64
    · by_cases h2 : s + l < U64
      · exact ⟨h1, h2⟩
      · rw [addM_ok h1, bind_ok, addM_checked_of_le (Nat.le_of_not_lt h2)] at h; cases h
    · rw [addM_checked_of_le (Nat.le_of_not_lt h1)] at h; cases h)
  rw [this, h]; rfl

/-! ### `next` -/

theorem run_next_eq {m : Mode} {v : RL} (hb : RLBounds m v) (it : RunIter) :
    gen_RunIter_next m v it = it.nextQ m v := by
  unfold gen_RunIter_next RunIter.nextQ
  show (gen_RunIter_advance_if m v it (fun _ => true) >>= _) = _
  rw [run_advance_if_eq_of_true hb it _ (fun _ => rfl)]
  cases it.peek m v with
  | fault e => rfl
  | ok q => cases q <;> rfl


/-! ### `block_for`: the fuel and the sample reader -/

theorem blockFor_succ (f : Nat → Outcome Nat) (value n lo hi : Nat) :
    RL.blockFor f value (n + 1) lo hi =
      if hi - lo > 1 then
        (f (lo + (hi - lo) / 2)).bind (fun c =>
          if c ≤ value then RL.blockFor f value n (lo + (hi - lo) / 2) hi
          else RL.blockFor f value n lo (lo + (hi - lo) / 2))
      else ok lo := by
  rw [RL.blockFor]; rfl

/-- any fuel above `n` gives the same answer on a range of at most `2^n` blocks -/
theorem blockFor_fuel (f : Nat → Outcome Nat) (value : Nat) :
    ∀ n fuel lo hi, hi - lo ≤ 2 ^ n → n < fuel →
      RL.blockFor f value fuel lo hi = RL.blockFor f value (n + 1) lo hi := by
  intro n
  induction n with
  | zero =>
    intro fuel lo hi hsz hf
    obtain ⟨k, rfl⟩ : ∃ k, fuel = k + 1 := ⟨fuel - 1, by omega⟩
    have : ¬ hi - lo > 1 := by simp at hsz; omega
    rw [blockFor_succ, blockFor_succ, if_neg this, if_neg this]
  | succ n ih =>
    intro fuel lo hi hsz hf
    obtain ⟨k, rfl⟩ : ∃ k, fuel = k + 1 := ⟨fuel - 1, by omega⟩
    have hp : 2 ^ (n + 1) = 2 * 2 ^ n := by rw [Nat.pow_succ]; omega
    rw [blockFor_succ, blockFor_succ f value (n + 1)]
    by_cases hgt : hi - lo > 1
    · rw [if_pos hgt, if_pos hgt]
      cases f (lo + (hi - lo) / 2) with
      | fault e => rfl
      | ok c =>
        simp only [Outcome.bind]
        by_cases hc : c ≤ value
        · rw [if_pos hc, if_pos hc]; exact ih k _ _ (by omega) (by omega)
        · rw [if_neg hc, if_neg hc]; exact ih k _ _ (by omega) (by omega)
    · rw [if_neg hgt, if_neg hgt]

/-- the fuel `high + 1` of the code and the fuel 70 of the model give the same answer below `2^64` -/
theorem blockFor_fuel_70 (f : Nat → Outcome Nat) (value lo hi : Nat) (hh : hi < U64) :
    RL.blockFor f value (hi + 1) lo hi = RL.blockFor f value 70 lo hi := by
  have hU := U64_eq
  by_cases h : hi ≤ 69
  · have h1 : hi - lo ≤ 2 ^ hi := by have := @Nat.lt_two_pow_self hi; omega
    exact (blockFor_fuel f value hi 70 lo hi h1 (by omega)).symm
  · have h1 : hi - lo ≤ 2 ^ 69 := by omega
    exact blockFor_fuel f value 69 (hi + 1) lo hi h1 (by omega)

/-- only the samples strictly inside the range are read -/
theorem blockFor_congr (f g : Nat → Outcome Nat) (value : Nat) :
    ∀ fuel lo hi, (∀ i, lo < i → i < hi → f i = g i) →
      RL.blockFor f value fuel lo hi = RL.blockFor g value fuel lo hi := by
  intro fuel
  induction fuel with
  | zero => intro lo hi _; rfl
  | succ n ih =>
    intro lo hi hfg
    rw [blockFor_succ, blockFor_succ]
    by_cases hgt : hi - lo > 1
    · rw [if_pos hgt, if_pos hgt, hfg _ (by omega) (by omega)]
      cases g (lo + (hi - lo) / 2) with
      | fault e => rfl
      | ok c =>
        simp only [Outcome.bind]
        by_cases hc : c ≤ value
        · rw [if_pos hc, if_pos hc]; exact ih _ _ (fun i h1 h2 => hfg i (by omega) h2)
        · rw [if_neg hc, if_neg hc]; exact ih _ _ (fun i h1 h2 => hfg i h1 (by omega))
    · rw [if_neg hgt, if_neg hgt]

/-- the block found lies in the range -/
theorem blockFor_range (f : Nat → Outcome Nat) (value : Nat) :
    ∀ fuel lo hi b, lo ≤ hi → RL.blockFor f value fuel lo hi = ok b → lo ≤ b ∧ b ≤ hi := by
  intro fuel
  induction fuel with
  | zero => intro lo hi b _ h; cases h
  | succ n ih =>
    intro lo hi b hl h
    rw [blockFor_succ] at h
    by_cases hgt : hi - lo > 1
    · rw [if_pos hgt] at h
      cases hf : f (lo + (hi - lo) / 2) with
      | fault e => rw [hf] at h; cases h
      | ok c =>
        rw [hf] at h
        simp only [Outcome.bind] at h
        by_cases hc : c ≤ value
        · rw [if_pos hc] at h; have := ih _ _ _ (by omega) h; omega
        · rw [if_neg hc] at h; have := ih _ _ _ (by omega) h; omega
    · rw [if_neg hgt] at h; injection h with h; omega


/-! ### `iter_for_bit`, `iter_for_one`, `iter_for_zero` -/

/-- the range a sample index returns is a range of blocks: ordered (the code subtracts `high - low` in `usize`), and
small enough for `2 * block + 1` and `block * 64` to be representable.  (A valid index returns `lo < hi ≤ blocks`.) -/
structure RangeOK (s : SampleIndex) (x : Nat) : Prop where
  /-- `limit + 1` in `SampleIndex::range` cannot overflow -/
  numValues : s.numValues < U64
  range : ∀ lo hi, s.range x = ok (lo, hi) → lo ≤ hi ∧ hi * 64 < U64

theorem iter_for_common (m : Mode) (v : RL) (s : SampleIndex) (x : Nat) (fg fm : Nat → Outcome Nat)
    (hx : x / s.divisor + 1 < U64) (hr : RangeOK s x)
    (hf : ∀ i, 2 * i + 1 < U64 → fg i = fm i) :
    (gen_SampleIndex_range m s x >>= fun range =>
      gen_RLVector_block_for m range.1 range.2 x fg >>= fun block => gen_RLVector_iter_for_block m v block) =
    (s.range x >>= fun r => RL.blockFor fm x 70 r.1 r.2 >>= fun block => v.iterForBlock block) := by
  have hU := U64_eq
  rw [sample_range_eq m s x hx hr.numValues]
  cases hrg : s.range x with
  | fault e => rfl
  | ok r =>
    obtain ⟨lo, hi⟩ := r
    obtain ⟨hl, hh⟩ := hr.range lo hi hrg
    simp only [bind_ok]
    rw [rl_block_for_eq m lo hi x fg hl (by omega), blockFor_fuel_70 fg x lo hi (by omega),
      blockFor_congr fg fm x 70 lo hi (fun i _ h2 => hf i (by omega))]
    cases hbf : RL.blockFor fm x 70 lo hi with
    | fault e => rfl
    | ok b =>
      have := blockFor_range fm x 70 lo hi b hl hbf
      simp only [bind_ok]
      exact rl_iter_for_block_eq m v b (by omega)

/-- `RLVector::iter_for_bit` -/
theorem rl_iter_for_bit_eq (m : Mode) (v : RL) (index : Nat) (hlen : v.len < U64)
    (hr : index < v.len → RangeOK v.rankIndex index) :
    gen_RLVector_iter_for_bit m v index = v.iterForBit index := by
  unfold gen_RLVector_iter_for_bit RL.iterForBit
  by_cases h : index ≥ v.len
  · simp only [h, decide_true, if_true]; rfl
  · simp only [h, decide_false, Bool.false_eq_true, if_false]
    have hdiv : index / v.rankIndex.divisor + 1 < U64 := by
      have := Nat.div_le_self index v.rankIndex.divisor; omega
    exact iter_for_common m v v.rankIndex index _ _ hdiv (hr (by omega)) (fun i hi => by
      have h2 : 2 * i < U64 := by omega
      simp only [mulM_ok h2, addM_ok hi, bind_ok])

/-- `RLVector::iter_for_one` -/
theorem rl_iter_for_one_eq (m : Mode) (v : RL) (rank : Nat) (hones : v.ones < U64)
    (hr : rank < v.ones → RangeOK v.selectIndex rank) :
    gen_RLVector_iter_for_one m v rank = v.iterForOne rank := by
  unfold gen_RLVector_iter_for_one RL.iterForOne
  by_cases h : rank ≥ v.ones
  · simp only [h, decide_true, if_true]; rfl
  · simp only [h, decide_false, Bool.false_eq_true, if_false]
    have hdiv : rank / v.selectIndex.divisor + 1 < U64 := by
      have := Nat.div_le_self rank v.selectIndex.divisor; omega
    exact iter_for_common m v v.selectIndex rank _ _ hdiv (hr (by omega)) (fun i hi => by
      have h2 : 2 * i < U64 := by omega
      simp only [mulM_ok h2, bind_ok])

theorem subM_lt_rl {m : Mode} {a b s : Nat} (ha : a < U64) (h : subM m a b = ok s) : s < U64 := by
  unfold subM at h
  by_cases hba : b ≤ a
  · rw [if_pos hba] at h; injection h with h; omega
  · rw [if_neg hba] at h
    cases m with
    | checked => cases h
    | wrapping =>
      injection h with h
      have : 0 < U64 := by decide
      rw [← h]; exact Nat.mod_lt _ this

/-- `RLVector::iter_for_zero` (the code computes `count_zeros` with a `usize` subtraction: `ones ≤ len`) -/
theorem rl_iter_for_zero_eq (m : Mode) (v : RL) (rank : Nat) (hlen : v.len < U64) (hol : v.ones ≤ v.len)
    (hr : rank < v.countZeros → RangeOK v.selectZeroIndex rank) :
    gen_RLVector_iter_for_zero m v rank = v.iterForZero m rank := by
  unfold gen_RLVector_iter_for_zero RL.iterForZero
  rw [rl_count_zeros_eq_ok m v hol]
  simp only [bind_ok]
  by_cases h : rank ≥ v.countZeros
  · simp only [h, decide_true, if_true]; rfl
  · simp only [h, decide_false, Bool.false_eq_true, if_false]
    have hcz : v.countZeros ≤ v.len := Nat.sub_le _ _
    have hdiv : rank / v.selectZeroIndex.divisor + 1 < U64 := by
      have := Nat.div_le_self rank v.selectZeroIndex.divisor; omega
    exact iter_for_common m v v.selectZeroIndex rank _ _ hdiv (hr (by omega)) (fun i hi => by
      have h2 : 2 * i < U64 := by omega
      simp only [mulM_ok h2, addM_ok hi, bind_ok]
      cases v.samples.get (2 * i + 1) with
      | fault e => rfl
      | ok a =>
        simp only [bind_ok]
        cases v.samples.get (2 * i) with
        | fault e => rfl
        | ok b =>
          simp only [bind_ok, subW]
          cases hs : subM m a.toNat b.toNat with
          | fault e => rfl
          | ok s =>
            have hlt := subM_lt_rl (by have := a.isLt; rw [U64_eq]; exact this) hs
            simp only [bind_ok, pure_eq, BitVec.toNat_ofNat]
            rw [Nat.mod_eq_of_lt (by rw [← U64_eq]; exact hlt)])


/-! ### `get` -/

/-- the body of the loop of `get` (the lambda of the generated code, by `rfl`) -/
def stepGetRL (m : Mode) (v : RL) (index : Nat) : RunIter → Outcome (Ctl RunIter Bool) := fun iter => do
  let t2 ← gen_RunIter_next m v iter
  let iter := t2.2
  match t2.1 with
  | none => pure (Ctl.brk iter)
  | some some1 => do
      let (start, _) := some1
      if (decide (start > index)) then do
        pure (Ctl.ret false)
      else do
        if (decide (index < (iter.pos.2))) then do
          pure (Ctl.ret true)
        else do
          pure (Ctl.next iter)

def finGetRL : Ctl RunIter Bool → Outcome Bool
  | .ret r => pure r
  | .next _ => fault .fuel
  | .brk _ => pure false

theorem gen_rl_get_unfold (m : Mode) (v : RL) (index : Nat) :
    gen_RLVector_get m v index =
      (gen_RLVector_iter_for_bit m v index >>= fun iter =>
        loopM (v.data.len + 2) (stepGetRL m v index) iter >>= finGetRL) := rfl

theorem get_loop {m : Mode} {v : RL} (hb : RLBounds m v) (index : Nat) :
    ∀ fuel it, (loopM fuel (stepGetRL m v index) it >>= finGetRL) = RL.getLoop m v index fuel it := by
  intro fuel
  induction fuel with
  | zero => intro it; rfl
  | succ n ih =>
    intro it
    rw [loopM_succR, RL.getLoop]
    unfold stepGetRL
    rw [run_next_eq hb]
    cases it.nextQ m v with
    | fault e => rfl
    | ok r =>
      obtain ⟨o, it'⟩ := r
      cases o with
      | none => rfl
      | some r =>
        obtain ⟨start, len⟩ := r
        simp only [bind_ok]
        by_cases h1 : start > index
        · simp only [h1, decide_true, if_true]; rfl
        · simp only [h1, decide_false, Bool.false_eq_true, if_false]
          by_cases h2 : index < it'.pos.2
          · have h2' : index < it'.offsetBits := h2
            simp only [h2, h2', decide_true, if_true]; rfl
          · have h2' : ¬ index < it'.offsetBits := h2
            simp only [h2, h2', decide_false, Bool.false_eq_true, if_false]
            exact ih it'

/-- `RLVector::get` -/
theorem rl_get_eq {m : Mode} {v : RL} (hb : RLBounds m v) (index : Nat) (hlen : v.len < U64)
    (hr : index < v.len → RangeOK v.rankIndex index) :
    gen_RLVector_get m v index = v.get m index := by
  rw [gen_rl_get_unfold, rl_iter_for_bit_eq m v index hlen hr]
  unfold RL.get
  cases v.iterForBit index with
  | fault e => rfl
  | ok it => exact get_loop hb index _ it

/-! ### `rank` -/

/-- the body of the loop of `rank` (the lambda of the generated code, by `rfl`) -/
def stepRank (m : Mode) (v : RL) (index : Nat) : RunIter → Outcome (Ctl RunIter Nat) := fun iter => do
  let t2 ← gen_RunIter_next m v iter
  let iter := t2.2
  match t2.1 with
  | none => pure (Ctl.brk iter)
  | some some1 => do
      let (start, len) := some1
      if (decide (start ≥ index)) then do
        let t3 ← subM m (iter.pos.1) len
        pure (Ctl.ret t3)
      else do
        if (decide ((iter.pos.2) ≥ index)) then do
          let t4 ← gen_RunIter_rank_at m v iter index
          pure (Ctl.ret t4)
        else do
          pure (Ctl.next iter)

def finRank : Ctl RunIter Nat → Outcome Nat
  | .ret r => pure r
  | .next _ => fault .fuel
  | .brk iter => pure iter.pos.1

theorem gen_rl_rank_unfold (m : Mode) (v : RL) (index : Nat) :
    gen_RLVector_rank m v index =
      (gen_RLVector_iter_for_bit m v index >>= fun iter =>
        loopM (v.data.len + 2) (stepRank m v index) iter >>= finRank) := rfl

theorem rank_loop {m : Mode} {v : RL} (hb : RLBounds m v) (index : Nat) :
    ∀ fuel it, (loopM fuel (stepRank m v index) it >>= finRank) = RL.rankLoop m v index fuel it := by
  intro fuel
  induction fuel with
  | zero => intro it; rfl
  | succ n ih =>
    intro it
    rw [loopM_succR, RL.rankLoop]
    unfold stepRank
    rw [run_next_eq hb]
    cases it.nextQ m v with
    | fault e => rfl
    | ok r =>
      obtain ⟨o, it'⟩ := r
      cases o with
      | none => rfl
      | some r =>
        obtain ⟨start, len⟩ := r
        simp only [bind_ok]
        by_cases h1 : start ≥ index
        · simp only [h1, decide_true, if_true]
          show ((subM m it'.pos.1 len >>= _).bind _ >>= _) = subM m it'.pos.1 len
          cases subM m it'.pos.1 len <;> rfl
        · simp only [h1, decide_false, Bool.false_eq_true, if_false]
          by_cases h2 : it'.pos.2 ≥ index
          · have h2' : it'.offsetBits ≥ index := h2
            simp only [h2, h2', decide_true, if_true, run_rank_at_eq]
            cases it'.rankAt m index <;> rfl
          · have h2' : ¬ it'.offsetBits ≥ index := h2
            simp only [h2, h2', decide_false, Bool.false_eq_true, if_false]
            exact ih it'

/-- `RLVector::rank` -/
theorem rl_rank_eq {m : Mode} {v : RL} (hb : RLBounds m v) (index : Nat) (hlen : v.len < U64)
    (hr : index < v.len → RangeOK v.rankIndex index) :
    gen_RLVector_rank m v index = v.rank m index := by
  rw [gen_rl_rank_unfold, rl_iter_for_bit_eq m v index hlen hr]
  unfold RL.rank
  cases v.iterForBit index with
  | fault e => rfl
  | ok it => exact rank_loop hb index _ it


/-! ### corollaries for well-formed vectors (`RLQ.GoodB`: what `From<RLBuilder>` produces) -/

section Good
open RLQ

theorem good_blocks_mul {v : RL} {bl : Blocks} (g : GoodB v bl) (hd : v.data.len + 63 < U64) :
    bl.length * 64 < U64 := by
  by_cases hne : bl.length = 0
  · rw [hne]; decide
  · have hb : bl.length - 1 < bl.length := by omega
    have hL := g.layout (bl.length - 1) (Nat.le_of_lt hb)
    have hdrop : bl.drop (bl.length - 1) = bl[bl.length - 1] :: bl.drop (bl.length - 1 + 1) :=
      List.drop_eq_getElem_cons hb
    rw [hdrop] at hL
    have hgt := RunIter.Layout.data_len_gt hL
    have hm := g.blk_ok _ (List.getElem_mem hb)
    have hup := RunIter.unitsOf_length_pos hm.1 hm.2.1
    omega

theorem rangeOK_of_valid {s : SampleIndex} {col : List Nat} {univ x n : Nat} (hv : s.Valid col univ)
    (hlen : col.length = n) (hx : x < univ) (hmul : n * 64 < U64) : RangeOK s x := by
  refine ⟨by rw [hv.numValues]; exact hv.numValues_lt, fun lo hi h => ?_⟩
  obtain ⟨lo', hi', h1, h2, h3, _⟩ := SampleIndex.range_spec hv x hx
  rw [h1] at h
  injection h with h; injection h with ha hb
  subst ha hb
  omega

theorem rangeOK_of_trivial {s : SampleIndex} (h : TrivialIdx s) (x : Nat) (hx : x < U64 - 1) : RangeOK s x := by
  refine ⟨by rw [h.1]; decide, fun lo hi hr => ?_⟩
  rw [h.range x hx] at hr
  injection hr with hr; injection hr with ha hb
  subst ha hb
  exact ⟨Nat.le_refl _, by decide⟩

theorem good_ones_le {v : RL} {bl : Blocks} (g : GoodB v bl) : v.ones ≤ v.len := by
  have := g.span_le
  have := RunIter.lens_le_span bl.flatten
  rw [g.ones]; omega

theorem good_rank_range {v : RL} {bl : Blocks} (g : GoodB v bl) (hd : v.data.len + 63 < U64) (index : Nat)
    (hi : index < v.len) : RangeOK v.rankIndex index := by
  have := g.len_lt
  by_cases hne : bl = []
  · subst hne; exact rangeOK_of_trivial (g.triv rfl).1 index (by omega)
  · exact rangeOK_of_valid (g.rank_idx hne) (bitsCol_length bl) hi (good_blocks_mul g hd)

theorem good_select_range {v : RL} {bl : Blocks} (g : GoodB v bl) (hd : v.data.len + 63 < U64) (rank : Nat)
    (hi : rank < v.ones) : RangeOK v.selectIndex rank := by
  by_cases hne : bl = []
  · subst hne
    have := g.ones
    simp only [List.flatten_nil, RunIter.lens] at this
    omega
  · exact rangeOK_of_valid (g.sel_idx hne) (onesCol_length bl) hi (good_blocks_mul g hd)

theorem good_zero_range {v : RL} {bl : Blocks} (g : GoodB v bl) (hd : v.data.len + 63 < U64) (rank : Nat)
    (hi : rank < v.countZeros) : RangeOK v.selectZeroIndex rank := by
  have := g.len_lt
  have hi' : rank < v.len - v.ones := hi
  by_cases hne : bl = []
  · subst hne; exact rangeOK_of_trivial (g.triv rfl).2 rank (by omega)
  · exact rangeOK_of_valid (g.zero_idx hne (by omega)) (zerosCol_length bl) hi' (good_blocks_mul g hd)

/-- on a well-formed vector the bounds reduce to: the data is addressable and (release builds) holds no 23-unit code -/
theorem good_bounds {m : Mode} {v : RL} {bl : Blocks} (g : GoodB v bl) (hd : v.data.len + 63 < U64)
    (hdec : m = .wrapping → ∀ o, ¬ units23 v o) : RLBounds m v := by
  have := good_blocks_mul g hd
  exact ⟨hd, by rw [g.samples_len]; omega, hdec⟩

theorem rl_iter_for_bit_eq_good (m : Mode) {v : RL} {bl : Blocks} (g : GoodB v bl) (hd : v.data.len + 63 < U64)
    (index : Nat) : gen_RLVector_iter_for_bit m v index = v.iterForBit index :=
  rl_iter_for_bit_eq m v index g.len_lt (good_rank_range g hd index)

theorem rl_iter_for_one_eq_good (m : Mode) {v : RL} {bl : Blocks} (g : GoodB v bl) (hd : v.data.len + 63 < U64)
    (rank : Nat) : gen_RLVector_iter_for_one m v rank = v.iterForOne rank :=
  rl_iter_for_one_eq m v rank (by have := g.len_lt; have := good_ones_le g; omega) (good_select_range g hd rank)

theorem rl_iter_for_zero_eq_good (m : Mode) {v : RL} {bl : Blocks} (g : GoodB v bl) (hd : v.data.len + 63 < U64)
    (rank : Nat) : gen_RLVector_iter_for_zero m v rank = v.iterForZero m rank :=
  rl_iter_for_zero_eq m v rank g.len_lt (good_ones_le g) (good_zero_range g hd rank)

theorem rl_count_zeros_eq_good (m : Mode) {v : RL} {bl : Blocks} (g : GoodB v bl) :
    gen_RLVector_count_zeros m v = ok v.countZeros :=
  rl_count_zeros_eq_ok m v (good_ones_le g)

theorem rl_get_eq_good {m : Mode} {v : RL} {bl : Blocks} (g : GoodB v bl) (hd : v.data.len + 63 < U64)
    (hdec : m = .wrapping → ∀ o, ¬ units23 v o) (index : Nat) : gen_RLVector_get m v index = v.get m index :=
  rl_get_eq (good_bounds g hd hdec) index g.len_lt (good_rank_range g hd index)

theorem rl_rank_eq_good {m : Mode} {v : RL} {bl : Blocks} (g : GoodB v bl) (hd : v.data.len + 63 < U64)
    (hdec : m = .wrapping → ∀ o, ¬ units23 v o) (index : Nat) : gen_RLVector_rank m v index = v.rank m index :=
  rl_rank_eq (good_bounds g hd hdec) index g.len_lt (good_rank_range g hd index)

theorem run_next_eq_good {m : Mode} {v : RL} {bl : Blocks} (g : GoodB v bl) (hd : v.data.len + 63 < U64)
    (hdec : m = .wrapping → ∀ o, ¬ units23 v o) (it : RunIter) : gen_RunIter_next m v it = it.nextQ m v :=
  run_next_eq (good_bounds g hd hdec) it

end Good


/-! ### the hypotheses are needed: concrete witnesses -/

/-- a vector whose only run starts at 1 and has length `2^64 - 1` (code units `1`, then the 22 units of `2^64 - 2`):
its end position `2^64` is not representable.  `load` does not validate `data`, so this is a crafted file. -/
def rlBig : RL :=
  { (default : RL) with len := 100, ones := 5, data := IntVec.ofList 4 (1 :: RLBuilder.encodeUnits 23 (U64 - 2)) }

/-- DIVERGENCE between `advance_if` and the model's `peek` (overflow checks on, a closure that declines): on `rlBig`,
from the initial iterator, the code decodes the run `(1, 2^64 - 1)`, asks the closure, and returns without touching the
position; the model's `peek` has already added `1 + (2^64 - 1)` and panicked.  `AdvAgree` fails exactly here.  The
model's `predLoop` (the loop of `predecessor`, whose closure declines a run starting after the value) inherits the
panic; the real loop stops normally.  Without overflow checks both sides agree. -/
theorem run_advance_if_ne :
    rlBig.data.len = 23 ∧
    rlBig.runIter = ok ⟨0, (0, 0), 5⟩ ∧
    prePeek .checked rlBig ⟨0, (0, 0), 5⟩ = ok (.run 1 (U64 - 1) 23 5) ∧
    gen_RunIter_advance_if .checked rlBig ⟨0, (0, 0), 5⟩ (fun _ => false) =
      ok (some (1, U64 - 1), ⟨0, (0, 0), 5⟩) ∧
    RunIter.peek .checked rlBig ⟨0, (0, 0), 5⟩ = fault (.panic .overflow) ∧
    RL.predLoop .checked rlBig 0 25 ⟨0, (0, 0), 5⟩ = fault (.panic .overflow) ∧
    gen_RunIter_advance_if .wrapping rlBig ⟨0, (0, 0), 5⟩ (fun _ => false) =
      ok (some (1, U64 - 1), ⟨0, (0, 0), 5⟩) ∧
    RunIter.peek .wrapping rlBig ⟨0, (0, 0), 5⟩ = ok (.run 1 (U64 - 1) ⟨23, (U64 - 1, 0), 5⟩) := by
  decide +kernel

/-- hence the unconditional statement (arbitrary closure) is FALSE with overflow checks on, under all the bounds -/
theorem run_advance_if_not_unconditional :
    ¬ ∀ (v : RL) (it : RunIter) (advance : Option (Nat × Nat) → Bool), RLBounds .checked v →
      gen_RunIter_advance_if .checked v it advance = (it.peek .checked v >>= fun q => ok (advApply it advance q)) := by
  intro h
  have hb : RLBounds .checked rlBig := RLBounds.checked (by decide +kernel) (by decide +kernel)
  have := h rlBig ⟨0, (0, 0), 5⟩ (fun _ => false) hb
  rw [run_advance_if_ne.2.2.2.1, run_advance_if_ne.2.2.2.2.1] at this
  cases this

/-- `RLBounds.data` is sharp, but only outside the representable range (a header claiming `2^64 - 1` code units):
`div_round_up(offset, 64)` adds `offset + 64` in `usize`; the model rounds in `Nat`. -/
theorem run_advance_if_data_ne :
    let v : RL := { (default : RL) with data := ⟨U64 - 1, 4, ⟨0, #[]⟩⟩ }
    let it : RunIter := ⟨U64 - 2, (0, 0), 0⟩
    gen_RunIter_advance_if .checked v it (fun _ => true) = fault (.panic .overflow) ∧
    gen_RunIter_advance_if .wrapping v it (fun _ => true) = ok (none, ⟨0, (0, 0), 0⟩) ∧
    it.peek .checked v = ok (.noMoreBlocks U64) := by
  decide +kernel

/-- `ones ≤ len` is needed for `count_zeros` (a `usize` subtraction in the code, a truncated one in `RL.countZeros`)
and therefore for `iter_for_zero`: DIVERGENCE on a vector with `ones > len` (never built; `load` computes the same
subtraction, so it rejects such a file with overflow checks on and accepts it without): the code does not see
`rank ≥ count_zeros`, goes on to the sample index (here the default one: division by zero), the model returns the
empty iterator. -/
theorem rl_count_zeros_ne :
    let v : RL := { (default : RL) with len := 3, ones := 5 }
    gen_RLVector_count_zeros .checked v = fault (.panic .overflow) ∧
    gen_RLVector_count_zeros .wrapping v = ok (U64 - 2) ∧
    v.countZeros = 0 ∧
    gen_RLVector_iter_for_zero .checked v 0 = fault (.panic .overflow) ∧
    gen_RLVector_iter_for_zero .wrapping v 0 = fault (.panic .other) ∧
    v.iterForZero .wrapping 0 = ok (RunIter.emptyIter v) := by
  decide +kernel

/-- `RangeOK.range` (`lo ≤ hi`) is needed: `block_for` subtracts `high - low` in `usize`.  Not reachable: the sample
indexes are never read from a file, `SampleIndex::new` rebuilds them (`rangeOK_of_valid`). -/
theorem rl_iter_for_bit_ne :
    let v : RL := { (default : RL) with len := 10, rankIndex := ⟨10, 1, IntVec.ofList 8 [5, 0]⟩ }
    v.rankIndex.range 0 = ok (5, 1) ∧
    gen_RLVector_iter_for_bit .checked v 0 = fault (.panic .overflow) ∧
    gen_RLVector_iter_for_bit .wrapping v 0 = fault (.panic .assert) ∧
    v.iterForBit 0 = ok ⟨320, (0, 0), 0⟩ := by
  decide +kernel

end Sds.GenEq
