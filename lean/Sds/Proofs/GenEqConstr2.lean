/-
Proofs/GenEqConstr2: `IntVector::pack` and `SelectSupport::new`, as TRANSLATED statement by statement from the source
(Generated/FnsConstr2.lean), are equal to the hand-written model definitions `IntVec.pack` and `SelSup.build`.

* `int_pack_eq : gen_IntVector_pack m v = ok v.pack` under `v.WF` and `v.len * v.width + 63 < U64` (the bit length of
  the existing buffer, rounded up to words, is a `usize`: true of every vector in memory).  `int_pack_eq_of` is the
  general form: `v.len * v.width < U64` (what `get` needs: `index * width`) and
  `v.len * bit_len(max) + 63 < U64` for the NEW width (`len * new_width` for the capacity; `words_to_bits(data.len())`
  and `len + width` in every `push_int`); the new width is never larger than the old one (`pack_width_le`).
  `iter().max()` is `maxByGet` (`max_by_get_eq`: `None` only on the empty vector, else the word whose value is the
  model's `foldl max 0`; which of several equal maxima is returned is irrelevant, they are equal words).
  Sharpness of `WF`: `int_pack_ne_wf`.
* `select_support_new_eq_of : gen_SelectSupport_new m len pos.size (enumerate pos) = ok (SelSup.build len pos)` where
  `enumerate pos` are the items `(i, pos[i])` of `one_iter`, under
  `hmono` (positions weakly ascending), `hle` (positions `≤ len`), `hB : pos.size * 64 + 127 < U64`
  (the three vectors are filled at width 64; `samples` gets `2 * ⌈ones/4096⌉ ≤ ones + 1` items, `long`, `short` at most
  `ones`; this also covers `ones + 4096`, `superblocks * 2` and the three `pack`s).  No hypothesis on `len` itself.
  Corollaries: `select_support_new_eq` (strictly ascending list `< len`, `len * 64 + 127 < U64`),
  `select_support_new_eq_small` (`len < 2^57`), `select_support_new_positions` (the positions of the set / unset bits
  of any `RawVec`).  Sharpness: `select_support_new_ne_mono`, `select_support_new_ne_le`; evaluation of both sides:
  `select_support_new_examples`.
  NO divergence between the code and the model was found.  Points checked: `limit.1 - start.1` and
  `value.unwrap().1 - start.1` never underflow for ascending positions `≤ len`; `limit.0 - start.0` is the model's
  `min 4096 (ones - 4096 k)`; `sample_iter.nth(4095)` is item `4096 (k + 1)`, the model's `pos[4096 * (k + 1)]`;
  `value.unwrap()` never sees `None` inside the inner loops; in a short superblock the `blocks` calls of
  `iter.nth(63)` leave `value` at item `4096 k + 64 * blocks`: this is item `4096 (k + 1)` for a full superblock
  (`blocks = 64`), and when `cnt` is not a multiple of 64 the superblock is the last one, the iterator has run off the
  end (`value = None`, as after the `cnt` calls of `next()` in the long branch) and the outer loop stops because
  `next_sample = None` — so `value` is never read again (`enumerate_congr`).

Method: `select_support_new_pieces` (by `rfl`) cuts the translated function into its statements (`ssLongStep`,
`ssShortStep`, `ssLong`, `ssShort`, `ssLimit`, `ssOuterStep`, `ssFinish`).  `for_loop_range` (GenEqLoop4) turns the
inner counter loops into `foldlM` of the code's bodies (`ssLongBody`, `ssShortBody`), `ss_long_fold` / `ss_short_fold`
into the model's folds; `ss_outer_step` is ONE ITERATION of the `while` against `SelSup.buildStep` for any `result`
satisfying the invariant `SsInv` (width 64, well-formed, lengths); `loop_iter` runs the `while` along the known states
`ssState`.
-/
import Sds.Generated.FnsConstr2
import Sds.Proofs.GenFns
import Sds.Proofs.GenEqBits
import Sds.Proofs.GenEqIdx
import Sds.Proofs.GenEqVec
import Sds.Proofs.GenEqLoop4
import Sds.Proofs.IntVec
import Sds.Proofs.RawVec
import Sds.Proofs.Select

set_option linter.unusedVariables false

namespace Sds.GenEq
open Sds Outcome Generated

/-! ### `IntVector::pack` -/

private theorem obind_ok2 {α β : Type} (a : α) (f : α → Outcome β) : (ok a).bind f = f a := rfl

/-- the content of the vector as words -/
def rawItems (v : IntVec) (n : Nat) : List Nat := (List.range n).map fun i => (v.getRaw i).toNat

theorem rawItems_succ (v : IntVec) (n : Nat) : rawItems v (n + 1) = rawItems v n ++ [(v.getRaw n).toNat] := by
  unfold rawItems; rw [List.range_succ, List.map_append]; rfl

theorem rawItems_len (v : IntVec) : rawItems v v.len = v.items := rfl

/-- `self.iter().max()`: the items are read with `get` (no fault below `len`); the result is `None` only on the empty
vector and otherwise the word whose value is the model's `foldl max 0` -/
theorem max_by_get_eq (m : Mode) (v : IntVec) (hwf : v.WF) (hb : v.len * v.width < U64) :
    ∀ n, n ≤ v.len → ∃ acc, maxByGet n (fun i => gen_IntVector_get m v i) = ok acc ∧
      (n = 0 → acc = none) ∧ (n ≠ 0 → ∃ w : Word, acc = some w ∧ w.toNat = (rawItems v n).foldl max 0) := by
  intro n
  induction n with
  | zero => intro _; exact ⟨none, rfl, fun _ => rfl, fun h => absurd rfl h⟩
  | succ n ih =>
    intro hn
    obtain ⟨acc, e, h0, h1⟩ := ih (by omega)
    have hg : gen_IntVector_get m v n = ok (v.getRaw n) := by
      rw [int_get_eq m v n hwf hb, IntVec.get_ok v n (by omega)]
    unfold maxByGet at e ⊢
    rw [foldlM_range_succ, e, bind_ok]
    dsimp only
    rw [hg, bind_ok, rawItems_succ, List.foldl_append]
    by_cases hz : n = 0
    · subst hz
      rw [h0 rfl]
      refine ⟨_, rfl, fun h => absurd h (by omega), fun _ => ⟨_, rfl, ?_⟩⟩
      simp [rawItems]
    · obtain ⟨w, rfl, hw⟩ := h1 hz
      refine ⟨_, rfl, fun h => absurd h (by omega), fun _ => ⟨_, rfl, ?_⟩⟩
      rw [← hw]
      simp only [List.foldl_cons, List.foldl_nil]
      by_cases hle : w ≤ v.getRaw n
      · rw [if_pos hle]; rw [BitVec.le_def] at hle; omega
      · rw [if_neg hle]; rw [BitVec.le_def] at hle; omega

/-- one iteration of `for value in self.iter() { new_data.push_int(value, new_width) }` -/
def packBody (m : Mode) (v : IntVec) (nw : Nat) (d : RawVec) (i : Nat) : Outcome RawVec :=
  (gen_IntVector_get m v i).bind (fun x => gen_RawVector_push_int m d x nw)

theorem pack_fold (m : Mode) (v : IntVec) (hwf : v.WF) (hb : v.len * v.width < U64) (nw : Nat) (h1 : 1 ≤ nw)
    (h2 : nw ≤ 64) (hp : v.len * nw + 63 < U64) :
    ∀ n, n ≤ v.len →
      (List.range n).foldlM (packBody m v nw) RawVec.empty =
        ok ((rawItems v n).foldl (fun d x => d.pushInt (BitVec.ofNat 64 x) nw) RawVec.empty) ∧
      ((rawItems v n).foldl (fun d x => d.pushInt (BitVec.ofNat 64 x) nw) RawVec.empty).WF ∧
      ((rawItems v n).foldl (fun d x => d.pushInt (BitVec.ofNat 64 x) nw) RawVec.empty).len = n * nw := by
  intro n
  induction n with
  | zero => intro _; exact ⟨rfl, RawVec.empty_WF, by simp [rawItems, RawVec.empty]⟩
  | succ n ih =>
    intro hn
    obtain ⟨e, wf, hl⟩ := ih (by omega)
    have hg : gen_IntVector_get m v n = ok (v.getRaw n) := by
      rw [int_get_eq m v n hwf hb, IntVec.get_ok v n (by omega)]
    have hmul : (n + 1) * nw ≤ v.len * nw := Nat.mul_le_mul_right _ hn
    rw [Nat.succ_mul] at hmul
    rw [foldlM_range_succ, e, bind_ok, rawItems_succ, List.foldl_append]
    generalize (rawItems v n).foldl (fun d x => d.pushInt (BitVec.ofNat 64 x) nw) RawVec.empty = d at wf hl ⊢
    simp only [List.foldl_cons, List.foldl_nil, BitVec.ofNat_toNat, BitVec.setWidth_eq]
    refine ⟨?_, RawVec.pushInt_WF wf _ _ h1 h2, by rw [RawVec.len_pushInt, hl, Nat.succ_mul]⟩
    unfold packBody
    rw [hg, obind_ok2]
    have hs := wf.1
    exact raw_push_int_eq m d _ nw h2 (by omega) (by omega) (by omega)

/-- `IntVector::pack`, general form: `hg` is the hypothesis of `get` (`index * width` for `index < len`), `hp` says
that the bit length of the NEW buffer rounded up to whole words is a `usize` (`len * new_width` is computed for the
capacity, and every `push_int` computes `words_to_bits(data.len())` and `len + width`) -/
theorem int_pack_eq_of (m : Mode) (v : IntVec) (hwf : v.WF) (hg : v.len * v.width < U64)
    (hp : v.len * bitLen (BitVec.ofNat 64 v.maxItem) + 63 < U64) : gen_IntVector_pack m v = ok v.pack := by
  unfold gen_IntVector_pack IntVec.pack
  by_cases h0 : v.len = 0
  · simp only [decide_eq_true h0, if_true, if_pos h0]; rfl
  · obtain ⟨acc, e, _, hacc⟩ := max_by_get_eq m v hwf hg v.len (Nat.le_refl _)
    obtain ⟨w, rfl, hw⟩ := hacc h0
    rw [rawItems_len] at hw
    have hw' : BitVec.ofNat 64 v.maxItem = w := by
      unfold IntVec.maxItem; rw [← hw]; simp only [BitVec.ofNat_toNat, BitVec.setWidth_eq]
    rw [hw'] at hp
    simp only [decide_eq_false h0, if_neg h0, Bool.false_eq_true, if_false, e, bind_ok, unwrapM, bit_len_eq, hw']
    by_cases hs : bitLen w = v.width
    · simp only [hs, decide_true, if_true]; rfl
    · obtain ⟨b1, b2, _, _⟩ := bitLen_spec_int w
      simp only [hs, decide_false, Bool.false_eq_true, if_false, mulM_ok (show v.len * bitLen w < U64 by omega),
        bind_ok]
      rw [for_loop_range (ρ := IntVec) v.len (packBody m v (bitLen w)) _
          (fun i d hi => by
            simp only [hi, decide_true, if_true, packBody, Bind.bind]
            cases gen_IntVector_get m v i with
            | fault e => rfl
            | ok x =>
              simp only [Outcome.bind]
              cases gen_RawVector_push_int m d x (bitLen w) <;> rfl)
          (fun i d hi => by simp only [hi, decide_false, Bool.false_eq_true, if_false]; rfl)]
      rw [show (⟨0, #[]⟩ : RawVec) = RawVec.empty from rfl,
        (pack_fold m v hwf hg (bitLen w) b1 b2 hp v.len (Nat.le_refl _)).1]
      rfl

/-- the new width is at most the old one -/
theorem pack_width_le {v : IntVec} (hwf : v.WF) : bitLen (BitVec.ofNat 64 v.maxItem) ≤ v.width := by
  apply bitLen_le_of_lt _ _ hwf.1
  rw [BitVec.toNat_ofNat, Nat.mod_eq_of_lt (IntVec.maxItem_lt hwf)]
  exact foldl_max_lt _ _ _ (Nat.two_pow_pos _) (IntVec.items_lt hwf)

/-- `IntVector::pack` for every well-formed vector whose (old) buffer has a representable bit length rounded up to
words — a fact about every vector that exists in memory -/
theorem int_pack_eq (m : Mode) (v : IntVec) (hwf : v.WF) (hb : v.len * v.width + 63 < U64) :
    gen_IntVector_pack m v = ok v.pack := by
  have := Nat.mul_le_mul_left v.len (pack_width_le hwf)
  exact int_pack_eq_of m v hwf (by omega) (by omega)

/-! ### `SelectSupport::new` : the translated function, cut into named pieces

The pieces are the statements of `gen_SelectSupport_new`, verbatim; `select_support_new_pieces` (by `rfl`) says that
putting them together gives back the translated function. -/

/-- state of the inner `for` loops: counter, `iter`, `result`, `value` -/
abbrev SsIn := List (Nat × Nat) × SelSup × Option (Nat × Nat)
/-- state of the outer `while`: `iter`, `result`, `sample`, `sample_iter`, `value` -/
abbrev SsSt := List (Nat × Nat) × SelSup × Option (Nat × Nat) × List (Nat × Nat) × Option (Nat × Nat)

def ssLongStep (m : Mode) (start : Nat × Nat) (for_hi2 : Nat) : Nat × SsIn → Outcome (Ctl (Nat × SsIn) SelSup) :=
  fun (for_i2, iter, result, value) => do
    if (decide (for_i2 < for_hi2)) then do
      let _ := for_i2
      let t18 ← unwrapM value
      let t19 ← subM m t18.2 start.2
      let t20 ← gen_IntVector_push m result.long (BitVec.ofNat 64 t19)
      let result := { result with long := t20 }
      let t21 := (iter.head?, iter.tail)
      let iter := t21.2
      let value := t21.1
      pure (Ctl.next (for_i2 + 1, iter, result, value))
    else do
      pure (Ctl.brk (for_i2, iter, result, value))

def ssShortStep (m : Mode) (start : Nat × Nat) (for_hi3 : Nat) : Nat × SsIn → Outcome (Ctl (Nat × SsIn) SelSup) :=
  fun (for_i3, iter, result, value) => do
    if (decide (for_i3 < for_hi3)) then do
      let _ := for_i3
      let t29 ← unwrapM value
      let t30 ← subM m t29.2 start.2
      let t31 ← gen_IntVector_push m result.short (BitVec.ofNat 64 t30)
      let result := { result with short := t31 }
      let t32 := ((iter.drop 63).head?, iter.drop (63 + 1))
      let iter := t32.2
      let value := t32.1
      pure (Ctl.next (for_i3 + 1, iter, result, value))
    else do
      pure (Ctl.brk (for_i3, iter, result, value))

/-- the long-superblock branch -/
def ssLong (m : Mode) (start limit : Nat × Nat) (iter : List (Nat × Nat)) (result : SelSup)
    (value : Option (Nat × Nat)) : Outcome SsIn := do
  let t15 ← mulM m 2 (result.long.len)
  let t16 ← gen_IntVector_push m result.samples (BitVec.ofNat 64 t15)
  let result := { result with samples := t16 }
  let t17 ← subM m limit.1 start.1
  let values := t17
  let for_lo2 := 0
  let for_hi2 := values
  let lr2 ← loopM (ρ := SelSup) (for_hi2 - for_lo2 + 1) (ssLongStep m start for_hi2) (for_lo2, iter, result, value)
  match lr2 with
  | .ret _ => fault .fuel
  | .next _ => fault .fuel
  | .brk (for_i2, iter, result, value) => do
    pure (iter, result, value)

/-- the short-superblock branch -/
def ssShort (m : Mode) (start limit : Nat × Nat) (iter : List (Nat × Nat)) (result : SelSup)
    (value : Option (Nat × Nat)) : Outcome SsIn := do
  let t22 ← mulM m 2 (result.short.len)
  let t23 ← addM m t22 1
  let t24 ← gen_IntVector_push m result.samples (BitVec.ofNat 64 t23)
  let result := { result with samples := t24 }
  let t25 ← subM m limit.1 start.1
  let t26 ← addM m t25 64
  let t27 ← subM m t26 1
  let t28 ← gDiv t27 64
  let blocks := t28
  let for_lo3 := 0
  let for_hi3 := blocks
  let lr3 ← loopM (ρ := SelSup) (for_hi3 - for_lo3 + 1) (ssShortStep m start for_hi3) (for_lo3, iter, result, value)
  match lr3 with
  | .ret _ => fault .fuel
  | .next _ => fault .fuel
  | .brk (for_i3, iter, result, value) => do
    pure (iter, result, value)

/-- `match next_sample { Some(v) => v, None => (count_ones, len) }` -/
def ssLimit (ones len : Nat) (next_sample : Option (Nat × Nat)) : Outcome (Nat × Nat) :=
  match next_sample with
  | some v => do
      pure v
  | none => do
      pure ((ones), (len))

/-- the body of `while sample != None` -/
def ssOuterStep (m : Mode) (len ones log4 : Nat) : SsSt → Outcome (Ctl SsSt SelSup) :=
  fun (iter, result, sample, sample_iter, value) => do
    if (sample).isSome then do
      let t10 ← unwrapM sample
      let start := t10
      let t11 := ((sample_iter.drop 4095).head?, sample_iter.drop (4095 + 1))
      let sample_iter := t11.2
      let next_sample := t11.1
      let t12 ← ssLimit ones len next_sample
      let limit := t12
      let t13 ← gen_IntVector_push m result.samples (BitVec.ofNat 64 start.2)
      let result := { result with samples := t13 }
      let t14 ← subM m limit.2 start.2
      let (iter, result, value) ← (if (decide (t14 ≥ log4)) then ssLong m start limit iter result value
        else ssShort m start limit iter result value)
      let sample := next_sample
      pure (Ctl.next (iter, result, sample, sample_iter, value))
    else do
      pure (Ctl.brk (iter, result, sample, sample_iter, value))

/-- the three `pack()` calls -/
def ssFinish (m : Mode) (result : SelSup) : Outcome SelSup := do
  let t33 ← gen_IntVector_pack m result.samples
  let result := { result with samples := t33 }
  let t34 ← gen_IntVector_pack m result.long
  let result := { result with long := t34 }
  let t35 ← gen_IntVector_pack m result.short
  let result := { result with short := t35 }
  return result

def ssNew (m : Mode) (len ones : Nat) (items : List (Nat × Nat)) : Outcome SelSup := do
  let t1 ← addM m (ones) 4096
  let t2 ← subM m t1 1
  let t3 ← gDiv t2 4096
  let superblocks := t3
  let t4 ← gen_bit_len m (BitVec.ofNat 64 (len))
  let log4 := t4
  let t5 ← mulM m log4 log4
  let log4 := t5
  let t6 ← mulM m log4 log4
  let log4 := t6
  let result := (⟨(IntVec.default), (IntVec.default), (IntVec.default)⟩ : SelSup)
  let t7 ← mulM m superblocks 2
  let lr1 ← loopM (ρ := SelSup) (items.length + 1) (ssOuterStep m len ones log4)
    (items.tail, result, items.head?, items.tail, items.head?)
  match lr1 with
  | .ret _ => fault .fuel
  | .next _ => fault .fuel
  | .brk (iter, result, sample, sample_iter, value) => ssFinish m result

/-- the pieces put together are the translated function -/
theorem select_support_new_pieces (m : Mode) (len ones : Nat) (items : List (Nat × Nat)) :
    gen_SelectSupport_new m len ones items = ssNew m len ones items := rfl

/-! ### vocabulary -/

private theorem loopM_succ2 {σ ρ : Type} (n : Nat) (step : σ → Outcome (Ctl σ ρ)) (s : σ) :
    loopM (n + 1) step s = (step s).bind (fun c => match c with | .next s' => loopM n step s' | r => ok r) := rfl

private theorem obind_assoc2 {α β γ : Type} (x : Outcome α) (f : α → Outcome β) (g : β → Outcome γ) :
    (x.bind f).bind g = x.bind (fun a => (f a).bind g) := by cases x <;> rfl

/-- a `while` loop whose states are known in advance: `f k` after `k` iterations, leaving at `f n` -/
theorem loop_iter {σ ρ : Type} (step : σ → Outcome (Ctl σ ρ)) (f : Nat → σ) (n : Nat)
    (h1 : ∀ k, k < n → step (f k) = ok (Ctl.next (f (k + 1)))) (h2 : step (f n) = ok (Ctl.brk (f n))) :
    ∀ j k, k + j = n → ∀ fuel, j < fuel → loopM fuel step (f k) = ok (Ctl.brk (f n)) := by
  intro j
  induction j with
  | zero =>
    intro k hk fuel hf
    obtain ⟨g, rfl⟩ : ∃ g, fuel = g + 1 := ⟨fuel - 1, by omega⟩
    have : k = n := by omega
    subst this
    rw [loopM_succ2, h2]; rfl
  | succ j ih =>
    intro k hk fuel hf
    obtain ⟨g, rfl⟩ : ∃ g, fuel = g + 1 := ⟨fuel - 1, by omega⟩
    rw [loopM_succ2, h1 k (by omega)]
    exact ih (k + 1) (by omega) g (by omega)

/-- the iterator `T::one_iter(parent)` as the list of its items: (rank, position) with consecutive ranks -/
def enumerate (pos : Array Nat) : List (Nat × Nat) := (List.range pos.size).map fun i => (i, pos[i]?.getD 0)

theorem enumerate_length (pos : Array Nat) : (enumerate pos).length = pos.size := by simp [enumerate]

theorem enumerate_lt (pos : Array Nat) {i : Nat} (h : i < pos.size) :
    (enumerate pos)[i]? = some (i, pos[i]?.getD 0) := by simp [enumerate, h]

theorem enumerate_ge (pos : Array Nat) {i : Nat} (h : pos.size ≤ i) : (enumerate pos)[i]? = none := by
  simp [enumerate, h]

/-- two positions of the iterator are indistinguishable when they are equal or both past the end -/
theorem enumerate_congr (pos : Array Nat) {x y : Nat} (h : x = y ∨ (pos.size ≤ x ∧ pos.size ≤ y)) :
    (enumerate pos).drop (x + 1) = (enumerate pos).drop (y + 1) ∧ (enumerate pos)[x]? = (enumerate pos)[y]? := by
  rcases h with rfl | ⟨hx, hy⟩
  · exact ⟨rfl, rfl⟩
  · rw [enumerate_ge pos hx, enumerate_ge pos hy, List.drop_eq_nil_of_le (by rw [enumerate_length]; omega),
      List.drop_eq_nil_of_le (by rw [enumerate_length]; omega)]
    exact ⟨rfl, rfl⟩

/-- `n` pushes keep the representation invariant and the width, and add `n` items -/
theorem foldl_push_inv (g : Nat → Word) (v : IntVec) (hv : v.WF) : ∀ c,
    ((List.range c).foldl (fun (lv : IntVec) j => lv.push (g j)) v).WF ∧
    ((List.range c).foldl (fun (lv : IntVec) j => lv.push (g j)) v).width = v.width ∧
    ((List.range c).foldl (fun (lv : IntVec) j => lv.push (g j)) v).len = v.len + c := by
  intro c
  induction c with
  | zero => exact ⟨hv, rfl, rfl⟩
  | succ c ih =>
    obtain ⟨a, b, d⟩ := ih
    rw [List.range_succ, List.foldl_append]
    simp only [List.foldl_cons, List.foldl_nil]
    exact ⟨IntVec.push_WF a _, b, by rw [IntVec.len_push, d]; omega⟩

/-! ### the inner loops -/

/-- one iteration of the loop of a long superblock -/
def ssLongBody (m : Mode) (st : Nat) (s : SsIn) (_ : Nat) : Outcome SsIn :=
  (unwrapM s.2.2).bind fun t18 => (subM m t18.2 st).bind fun t19 =>
    (gen_IntVector_push m s.2.1.long (BitVec.ofNat 64 t19)).bind fun t20 =>
      ok (s.1.tail, { s.2.1 with long := t20 }, s.1.head?)

/-- one iteration of the loop of a short superblock -/
def ssShortBody (m : Mode) (st : Nat) (s : SsIn) (_ : Nat) : Outcome SsIn :=
  (unwrapM s.2.2).bind fun t29 => (subM m t29.2 st).bind fun t30 =>
    (gen_IntVector_push m s.2.1.short (BitVec.ofNat 64 t30)).bind fun t31 =>
      ok (s.1.drop (63 + 1), { s.2.1 with short := t31 }, (s.1.drop 63).head?)

theorem ss_long_fold (m : Mode) (pos : Array Nat) (st a : Nat) (r : SelSup) (hwf : r.long.WF)
    (hw : r.long.width = 64) (hmono : ∀ j, a + j < pos.size → st ≤ pos[a + j]?.getD 0) :
    ∀ c, a + c ≤ pos.size → (r.long.len + c) * 64 + 63 < U64 →
      (List.range c).foldlM (ssLongBody m st) ((enumerate pos).drop (a + 1), r, (enumerate pos)[a]?) =
        ok ((enumerate pos).drop (a + c + 1),
          { r with long := (List.range c).foldl (fun (lv : IntVec) j =>
              lv.push (BitVec.ofNat 64 (pos[a + j]?.getD 0 - st))) r.long },
          (enumerate pos)[a + c]?) := by
  intro c
  induction c with
  | zero => intro _ _; rfl
  | succ c ih =>
    intro hc hb
    obtain ⟨i1, i2, i3⟩ := foldl_push_inv (fun j => BitVec.ofNat 64 (pos[a + j]?.getD 0 - st)) r.long hwf c
    rw [foldlM_range_succ, ih (by omega) (by omega), bind_ok, List.range_succ, List.foldl_append]
    generalize (List.range c).foldl (fun (lv : IntVec) j =>
      lv.push (BitVec.ofNat 64 (pos[a + j]?.getD 0 - st))) r.long = L at i1 i2 i3 ⊢
    simp only [ssLongBody, enumerate_lt pos (show a + c < pos.size by omega), unwrapM, obind_ok2,
      subM_ok (hmono c (by omega)), List.foldl_cons, List.foldl_nil]
    rw [int_push_eq m L _ i1 (by rw [i2, i3, hw]; omega), obind_ok2, List.tail_drop, List.head?_drop]
    rfl

theorem ss_short_fold (m : Mode) (pos : Array Nat) (st a : Nat) (r : SelSup) (hwf : r.short.WF)
    (hw : r.short.width = 64) (hmono : ∀ j, a + j < pos.size → st ≤ pos[a + j]?.getD 0) :
    ∀ c, (∀ b, b < c → a + 64 * b < pos.size) → (r.short.len + c) * 64 + 63 < U64 →
      (List.range c).foldlM (ssShortBody m st) ((enumerate pos).drop (a + 1), r, (enumerate pos)[a]?) =
        ok ((enumerate pos).drop (a + 64 * c + 1),
          { r with short := (List.range c).foldl (fun (sv : IntVec) b =>
              sv.push (BitVec.ofNat 64 (pos[a + 64 * b]?.getD 0 - st))) r.short },
          (enumerate pos)[a + 64 * c]?) := by
  intro c
  induction c with
  | zero => intro _ _; rfl
  | succ c ih =>
    intro hc hb
    obtain ⟨i1, i2, i3⟩ := foldl_push_inv (fun b => BitVec.ofNat 64 (pos[a + 64 * b]?.getD 0 - st)) r.short hwf c
    rw [foldlM_range_succ, ih (fun b hb => hc b (by omega)) (by omega), bind_ok, List.range_succ, List.foldl_append]
    generalize (List.range c).foldl (fun (sv : IntVec) b =>
      sv.push (BitVec.ofNat 64 (pos[a + 64 * b]?.getD 0 - st))) r.short = L at i1 i2 i3 ⊢
    have hlt := hc c (by omega)
    simp only [ssShortBody, enumerate_lt pos hlt, unwrapM, obind_ok2,
      subM_ok (hmono (64 * c) hlt), List.foldl_cons, List.foldl_nil]
    rw [int_push_eq m L _ i1 (by rw [i2, i3, hw]; omega), obind_ok2, List.head?_drop, List.getElem?_drop,
      List.drop_drop]
    have e1 : a + 64 * c + 1 + (63 + 1) = a + 64 * (c + 1) + 1 := by omega
    have e2 : a + 64 * c + 1 + 63 = a + 64 * (c + 1) := by omega
    rw [e1, e2]

/-! ### the two branches -/

theorem ss_long_eq (m : Mode) (pos : Array Nat) (st a lim1 lim2 : Nat) (r : SelSup)
    (hs : r.samples.WF) (hsb : (r.samples.len + 1) * r.samples.width + 63 < U64)
    (hwf : r.long.WF) (hw : r.long.width = 64) (hmono : ∀ j, a + j < pos.size → st ≤ pos[a + j]?.getD 0)
    (h1 : a ≤ lim1) (h2 : lim1 ≤ pos.size) (hb : (r.long.len + (lim1 - a)) * 64 + 63 < U64) :
    ssLong m (a, st) (lim1, lim2) ((enumerate pos).drop (a + 1)) r (enumerate pos)[a]? =
      ok ((enumerate pos).drop (lim1 + 1),
        ⟨r.samples.push (BitVec.ofNat 64 (2 * r.long.len)),
         (List.range (lim1 - a)).foldl (fun (lv : IntVec) j =>
            lv.push (BitVec.ofNat 64 (pos[a + j]?.getD 0 - st))) r.long, r.short⟩,
        (enumerate pos)[lim1]?) := by
  have hU := U64_eq
  have e1 : mulM m 2 r.long.len = ok (2 * r.long.len) := mulM_ok (by omega)
  have e2 : subM m lim1 a = ok (lim1 - a) := subM_ok h1
  unfold ssLong
  simp only [e1, e2, bind_ok, int_push_eq m r.samples _ hs hsb]
  rw [for_loop_range (ρ := SelSup) (lim1 - a) (ssLongBody m st) _
      (fun i s hi => by
        obtain ⟨iter, result, value⟩ := s
        simp only [ssLongStep, hi, decide_true, if_true, ssLongBody, Bind.bind, Pure.pure, obind_assoc2, obind_ok2])
      (fun i s hi => by
        obtain ⟨iter, result, value⟩ := s
        simp only [ssLongStep, hi, decide_false, Bool.false_eq_true, if_false]; rfl)]
  rw [ss_long_fold m pos st a ⟨r.samples.push (BitVec.ofNat 64 (2 * r.long.len)), r.long, r.short⟩ hwf hw hmono
    (lim1 - a) (by omega) hb]
  simp only [obind_ok2, bind_ok, pure_eq, show a + (lim1 - a) = lim1 by omega]

theorem ss_short_eq (m : Mode) (pos : Array Nat) (st a lim1 lim2 : Nat) (r : SelSup)
    (hs : r.samples.WF) (hsb : (r.samples.len + 1) * r.samples.width + 63 < U64)
    (hwf : r.short.WF) (hw : r.short.width = 64) (hmono : ∀ j, a + j < pos.size → st ≤ pos[a + j]?.getD 0)
    (h1 : a ≤ lim1) (h2 : lim1 ≤ pos.size) (hn : pos.size + 64 < U64)
    (hb : (r.short.len + (lim1 - a + 63) / 64) * 64 + 63 < U64) :
    ssShort m (a, st) (lim1, lim2) ((enumerate pos).drop (a + 1)) r (enumerate pos)[a]? =
      ok ((enumerate pos).drop (a + 64 * ((lim1 - a + 63) / 64) + 1),
        ⟨r.samples.push (BitVec.ofNat 64 (2 * r.short.len + 1)), r.long,
         (List.range ((lim1 - a + 63) / 64)).foldl (fun (sv : IntVec) b =>
            sv.push (BitVec.ofNat 64 (pos[a + 64 * b]?.getD 0 - st))) r.short⟩,
        (enumerate pos)[a + 64 * ((lim1 - a + 63) / 64)]?) := by
  have hU := U64_eq
  have e1 : mulM m 2 r.short.len = ok (2 * r.short.len) := mulM_ok (by omega)
  have e1' : addM m (2 * r.short.len) 1 = ok (2 * r.short.len + 1) := addM_ok (by omega)
  have e2 : subM m lim1 a = ok (lim1 - a) := subM_ok h1
  have e3 : addM m (lim1 - a) 64 = ok (lim1 - a + 64) := addM_ok (by omega)
  have e4 : subM m (lim1 - a + 64) 1 = ok (lim1 - a + 63) := subM_ok (by omega)
  have e5 : gDiv (lim1 - a + 63) 64 = ok ((lim1 - a + 63) / 64) := Sds.GenFns.gDiv_pos _ _ (by decide)
  unfold ssShort
  simp only [e1, e1', e2, e3, e4, e5, bind_ok, int_push_eq m r.samples _ hs hsb]
  rw [for_loop_range (ρ := SelSup) ((lim1 - a + 63) / 64) (ssShortBody m st) _
      (fun i s hi => by
        obtain ⟨iter, result, value⟩ := s
        simp only [ssShortStep, hi, decide_true, if_true, ssShortBody, Bind.bind, Pure.pure, obind_assoc2, obind_ok2])
      (fun i s hi => by
        obtain ⟨iter, result, value⟩ := s
        simp only [ssShortStep, hi, decide_false, Bool.false_eq_true, if_false]; rfl)]
  rw [ss_short_fold m pos st a ⟨r.samples.push (BitVec.ofNat 64 (2 * r.short.len + 1)), r.long, r.short⟩ hwf hw hmono
    ((lim1 - a + 63) / 64) (fun b hb => by omega) hb]
  simp only [obind_ok2, bind_ok, pure_eq]

/-! ### the invariant of the model's loop -/

/-- what is known about the three vectors after `k` superblocks of a bitvector with `n` set bits -/
structure SsInv (n k : Nat) (R : SelSup) : Prop where
  swf : R.samples.WF
  sw : R.samples.width = 64
  sl : R.samples.len = 2 * k
  lwf : R.long.WF
  lw : R.long.width = 64
  ll : R.long.len ≤ min (4096 * k) n
  hwf : R.short.WF
  hw : R.short.width = 64
  hl : R.short.len ≤ min (64 * k) n

theorem ssInv_init (n : Nat) : SsInv n 0 ⟨IntVec.default, IntVec.default, IntVec.default⟩ :=
  ⟨IntVec.default_spec.1, rfl, rfl, IntVec.default_spec.1, rfl, Nat.zero_le _, IntVec.default_spec.1, rfl,
    Nat.zero_le _⟩

/-- the position of the first item of the next superblock, `len` after the last one -/
def ssLim (len : Nat) (pos : Array Nat) (k : Nat) : Nat :=
  if 4096 * (k + 1) < pos.size then pos[4096 * (k + 1)]?.getD 0 else len

theorem buildStep_long (len : Nat) (pos : Array Nat) (R : SelSup) (k : Nat)
    (hc : ssLim len pos k - pos[4096 * k]?.getD 0 ≥ log4 len) :
    SelSup.buildStep len pos R k =
      ⟨(R.samples.push (BitVec.ofNat 64 (pos[4096 * k]?.getD 0))).push (BitVec.ofNat 64 (2 * R.long.len)),
       (List.range (min 4096 (pos.size - 4096 * k))).foldl (fun (lv : IntVec) j =>
          lv.push (BitVec.ofNat 64 (pos[4096 * k + j]?.getD 0 - pos[4096 * k]?.getD 0))) R.long, R.short⟩ := by
  unfold ssLim log4 at hc
  unfold SelSup.buildStep
  simp only []
  rw [if_pos hc]

theorem buildStep_short (len : Nat) (pos : Array Nat) (R : SelSup) (k : Nat)
    (hc : ¬ ssLim len pos k - pos[4096 * k]?.getD 0 ≥ log4 len) :
    SelSup.buildStep len pos R k =
      ⟨(R.samples.push (BitVec.ofNat 64 (pos[4096 * k]?.getD 0))).push (BitVec.ofNat 64 (2 * R.short.len + 1)),
       R.long,
       (List.range ((min 4096 (pos.size - 4096 * k) + 63) / 64)).foldl (fun (sv : IntVec) b =>
          sv.push (BitVec.ofNat 64 (pos[4096 * k + 64 * b]?.getD 0 - pos[4096 * k]?.getD 0))) R.short⟩ := by
  unfold ssLim log4 at hc
  unfold SelSup.buildStep
  simp only []
  rw [if_neg hc]

theorem ss_buildStep_inv (len : Nat) (pos : Array Nat) (R : SelSup) (k : Nat) (h : SsInv pos.size k R)
    (hk : 4096 * k < pos.size) : SsInv pos.size (k + 1) (SelSup.buildStep len pos R k) := by
  obtain ⟨a1, a2, a3⟩ := foldl_push_inv
    (fun j => BitVec.ofNat 64 (pos[4096 * k + j]?.getD 0 - pos[4096 * k]?.getD 0)) R.long h.lwf
    (min 4096 (pos.size - 4096 * k))
  obtain ⟨b1, b2, b3⟩ := foldl_push_inv
    (fun b => BitVec.ofNat 64 (pos[4096 * k + 64 * b]?.getD 0 - pos[4096 * k]?.getD 0)) R.short h.hwf
    ((min 4096 (pos.size - 4096 * k) + 63) / 64)
  have hsl : R.samples.len + 1 + 1 = 2 * (k + 1) := by have := h.sl; omega
  have hll := h.ll
  have hhl := h.hl
  by_cases hc : ssLim len pos k - pos[4096 * k]?.getD 0 ≥ log4 len
  · rw [buildStep_long len pos R k hc]
    exact ⟨IntVec.push_WF (IntVec.push_WF h.swf _) _, h.sw, hsl, a1, a2.trans h.lw,
      Nat.le_trans (Nat.le_of_eq a3) (by omega), h.hwf, h.hw,
      show R.short.len ≤ min (64 * (k + 1)) pos.size by omega⟩
  · rw [buildStep_short len pos R k hc]
    exact ⟨IntVec.push_WF (IntVec.push_WF h.swf _) _, h.sw, hsl, h.lwf, h.lw,
      show R.long.len ≤ min (4096 * (k + 1)) pos.size by omega, b1, b2.trans h.hw,
      Nat.le_trans (Nat.le_of_eq b3) (by omega)⟩

theorem ss_buildLoop_inv (len : Nat) (pos : Array Nat) :
    ∀ k, 4096 * k < pos.size + 4096 → SsInv pos.size k (SelSup.buildLoop len pos k) := by
  intro k
  induction k with
  | zero => intro _; exact ssInv_init _
  | succ k ih =>
    intro hk
    rw [SelSup.buildLoop_succ]
    exact ss_buildStep_inv len pos _ k (ih (by omega)) (by omega)

/-! ### one iteration of the outer loop -/

/-- **one iteration of `while sample != None` is one step of the model's fold**: with both iterators in front of
item `4096 * k + 1`, `sample = value =` item `4096 * k`, and `result` any value satisfying the invariant -/
theorem ss_outer_step (m : Mode) (len : Nat) (pos : Array Nat)
    (hmono : ∀ i j, i ≤ j → j < pos.size → pos[i]?.getD 0 ≤ pos[j]?.getD 0)
    (hle : ∀ i, i < pos.size → pos[i]?.getD 0 ≤ len) (hB : pos.size * 64 + 127 < U64)
    (R : SelSup) (k : Nat) (hinv : SsInv pos.size k R) (hk : 4096 * k < pos.size) :
    ssOuterStep m len pos.size (log4 len)
        ((enumerate pos).drop (4096 * k + 1), R, (enumerate pos)[4096 * k]?,
          (enumerate pos).drop (4096 * k + 1), (enumerate pos)[4096 * k]?) =
      ok (Ctl.next ((enumerate pos).drop (4096 * (k + 1) + 1), SelSup.buildStep len pos R k,
          (enumerate pos)[4096 * (k + 1)]?, (enumerate pos).drop (4096 * (k + 1) + 1),
          (enumerate pos)[4096 * (k + 1)]?)) := by
  have hU := U64_eq
  have hs := enumerate_lt pos hk
  have hns : (((enumerate pos).drop (4096 * k + 1)).drop 4095).head? = (enumerate pos)[4096 * (k + 1)]? := by
    rw [List.head?_drop, List.getElem?_drop, show 4096 * k + 1 + 4095 = 4096 * (k + 1) by omega]
  have hsi : ((enumerate pos).drop (4096 * k + 1)).drop (4095 + 1) = (enumerate pos).drop (4096 * (k + 1) + 1) := by
    rw [List.drop_drop, show 4096 * k + 1 + (4095 + 1) = 4096 * (k + 1) + 1 by omega]
  have hsl := hinv.sl
  have hsw := hinv.sw
  have hll := hinv.ll
  have hhl := hinv.hl
  have hp1 := int_push_eq m R.samples (BitVec.ofNat 64 (pos[4096 * k]?.getD 0)) hinv.swf
    (by rw [hsw, hsl]; omega)
  obtain ⟨lim1, lim2, hlim, h1, h1', h1'', hc, h2, h2'⟩ : ∃ lim1 lim2,
      ssLimit pos.size len (enumerate pos)[4096 * (k + 1)]? = ok (lim1, lim2) ∧
      lim1 - 4096 * k = min 4096 (pos.size - 4096 * k) ∧ 4096 * k ≤ lim1 ∧ lim1 ≤ pos.size ∧
      (lim1 = 4096 * (k + 1) ∨ (pos.size ≤ lim1 ∧ pos.size ≤ 4096 * (k + 1))) ∧
      lim2 = ssLim len pos k ∧
      pos[4096 * k]?.getD 0 ≤ lim2 := by
    by_cases hlast : 4096 * (k + 1) < pos.size
    · refine ⟨4096 * (k + 1), pos[4096 * (k + 1)]?.getD 0, by rw [enumerate_lt pos hlast]; rfl, by omega, by omega,
        by omega, Or.inl rfl, by unfold ssLim; rw [if_pos hlast], hmono _ _ (by omega) hlast⟩
    · refine ⟨pos.size, len, by rw [enumerate_ge pos (by omega)]; rfl, by omega, by omega,
        by omega, Or.inr ⟨by omega, by omega⟩, by unfold ssLim; rw [if_neg hlast], hle _ hk⟩
  have hsub : subM m lim2 (pos[4096 * k]?.getD 0) = ok (lim2 - pos[4096 * k]?.getD 0) := subM_ok h2'
  have hswf' := IntVec.push_WF hinv.swf (BitVec.ofNat 64 (pos[4096 * k]?.getD 0))
  unfold ssOuterStep
  simp only [hs, Option.isSome_some, if_true, unwrapM, bind_ok, hns, hsi, hp1, hlim, hsub]
  by_cases hlong : lim2 - pos[4096 * k]?.getD 0 ≥ log4 len
  · simp only [hlong, decide_true, if_true]
    have hL := ss_long_eq m pos (pos[4096 * k]?.getD 0) (4096 * k) lim1 lim2
      ⟨R.samples.push (BitVec.ofNat 64 (pos[4096 * k]?.getD 0)), R.long, R.short⟩
      hswf' (by show (R.samples.len + 1 + 1) * R.samples.width + 63 < U64; rw [hsw, hsl]; omega)
      hinv.lwf hinv.lw (fun j hj => hmono (4096 * k) (4096 * k + j) (by omega) hj) h1' h1''
      (by show (R.long.len + _) * 64 + 63 < U64; omega)
    rw [hs] at hL
    rw [hL]
    obtain ⟨c1, c2⟩ := enumerate_congr pos hc
    simp only [bind_ok, pure_eq, c1, c2, h1]
    subst h2
    rw [buildStep_long len pos R k hlong]
  · simp only [hlong, decide_false, Bool.false_eq_true, if_false]
    have hS := ss_short_eq m pos (pos[4096 * k]?.getD 0) (4096 * k) lim1 lim2
      ⟨R.samples.push (BitVec.ofNat 64 (pos[4096 * k]?.getD 0)), R.long, R.short⟩
      hswf' (by show (R.samples.len + 1 + 1) * R.samples.width + 63 < U64; rw [hsw, hsl]; omega)
      hinv.hwf hinv.hw (fun j hj => hmono (4096 * k) (4096 * k + j) (by omega) hj) h1' h1'' (by omega)
      (by show (R.short.len + _) * 64 + 63 < U64; omega)
    rw [hs] at hS
    rw [hS]
    have hc' : 4096 * k + 64 * ((lim1 - 4096 * k + 63) / 64) = 4096 * (k + 1) ∨
        (pos.size ≤ 4096 * k + 64 * ((lim1 - 4096 * k + 63) / 64) ∧ pos.size ≤ 4096 * (k + 1)) := by
      rcases hc with hc | ⟨hc1, hc2⟩
      · left; omega
      · right; omega
    obtain ⟨c1, c2⟩ := enumerate_congr pos hc'
    simp only [bind_ok, pure_eq, c1, c2]
    rw [h1]
    subst h2
    rw [buildStep_short len pos R k hlong]

/-! ### the whole function -/

/-- the state of the outer loop after `k` superblocks -/
def ssState (len : Nat) (pos : Array Nat) (k : Nat) : SsSt :=
  ((enumerate pos).drop (4096 * k + 1), SelSup.buildLoop len pos k, (enumerate pos)[4096 * k]?,
    (enumerate pos).drop (4096 * k + 1), (enumerate pos)[4096 * k]?)

theorem ss_finish_eq (m : Mode) (n k : Nat) (R : SelSup) (hinv : SsInv n k R) (hB : n * 64 + 127 < U64)
    (hk : 2 * k ≤ n + 1) : ssFinish m R = ok ⟨R.samples.pack, R.long.pack, R.short.pack⟩ := by
  have hU := U64_eq
  have hsl := hinv.sl
  have hll := hinv.ll
  have hhl := hinv.hl
  unfold ssFinish
  simp only [int_pack_eq m R.samples hinv.swf (by rw [hinv.sw, hsl]; omega),
    int_pack_eq m R.long hinv.lwf (by rw [hinv.lw]; omega),
    int_pack_eq m R.short hinv.hwf (by rw [hinv.hw]; omega), bind_ok, pure_eq]

/-- `SelectSupport::new`, general form.  `pos` are the positions of the set bits (of the transformed vector), the
iterator yields them with their ranks.  `hmono`: ascending (weakly is enough); `hle`: inside the vector (`≤ len` is
enough); `hB`: `(ones + 1) * 64 + 63 < 2^64`, i.e. the three sample vectors, filled at width 64, have representable
bit lengths (`samples` holds `2 * ⌈ones / 4096⌉ ≤ ones + 1` items, `long` and `short` at most `ones` items) -/
theorem select_support_new_eq_of (m : Mode) (len : Nat) (pos : Array Nat)
    (hmono : ∀ i j, i ≤ j → j < pos.size → pos[i]?.getD 0 ≤ pos[j]?.getD 0)
    (hle : ∀ i, i < pos.size → pos[i]?.getD 0 ≤ len) (hB : pos.size * 64 + 127 < U64) :
    gen_SelectSupport_new m len pos.size (enumerate pos) = ok (SelSup.build len pos) := by
  have hU := U64_eq
  have hl1 := (bitLen_spec_int (BitVec.ofNat 64 len)).1
  have hl2 := (bitLen_spec_int (BitVec.ofNat 64 len)).2.1
  have hq := Nat.mul_le_mul hl2 hl2
  have hq2 := Nat.mul_le_mul hq hq
  have e1 : addM m pos.size 4096 = ok (pos.size + 4096) := addM_ok (by omega)
  have e2 : subM m (pos.size + 4096) 1 = ok (pos.size + 4095) := subM_ok (by omega)
  have e3 : gDiv (pos.size + 4095) 4096 = ok ((pos.size + 4095) / 4096) := Sds.GenFns.gDiv_pos _ _ (by decide)
  have e5 : mulM m (bitLen (BitVec.ofNat 64 len)) (bitLen (BitVec.ofNat 64 len)) =
      ok (bitLen (BitVec.ofNat 64 len) * bitLen (BitVec.ofNat 64 len)) := mulM_ok (by omega)
  have e6 : mulM m (bitLen (BitVec.ofNat 64 len) * bitLen (BitVec.ofNat 64 len))
      (bitLen (BitVec.ofNat 64 len) * bitLen (BitVec.ofNat 64 len)) = ok (log4 len) :=
    mulM_ok (by omega)
  have e7 : mulM m ((pos.size + 4095) / 4096) 2 = ok ((pos.size + 4095) / 4096 * 2) := mulM_ok (by omega)
  have h0 : ((enumerate pos).tail, (⟨IntVec.default, IntVec.default, IntVec.default⟩ : SelSup), (enumerate pos).head?,
      (enumerate pos).tail, (enumerate pos).head?) = ssState len pos 0 := by
    show _ = ((enumerate pos).drop 1, _, (enumerate pos)[0]?, (enumerate pos).drop 1, (enumerate pos)[0]?)
    rw [List.drop_one, List.head?_eq_getElem?]
    rfl
  rw [select_support_new_pieces]
  unfold ssNew
  simp only [e1, e2, e3, bit_len_eq, e5, e6, e7, bind_ok, h0]
  rw [loop_iter (ssOuterStep m len pos.size (log4 len)) (ssState len pos) ((pos.size + 4095) / 4096)
      (fun k hk => by
        unfold ssState
        rw [SelSup.buildLoop_succ]
        exact ss_outer_step m len pos hmono hle hB _ k (ss_buildLoop_inv len pos k (by omega)) (by omega))
      (by
        unfold ssState
        rw [enumerate_ge pos (show pos.size ≤ 4096 * ((pos.size + 4095) / 4096) by omega)]
        rfl)
      ((pos.size + 4095) / 4096) 0 (by omega) _ (by rw [enumerate_length]; omega)]
  simp only [bind_ok, ssState]
  rw [ss_finish_eq m pos.size _ _ (ss_buildLoop_inv len pos _ (by omega)) hB (by omega), SelSup.build_eq]

/-- positions given as a strictly ascending array below `len` (the hypotheses of `build_selValid`); then
`ones ≤ len`, and one bound on `len` is enough -/
theorem select_support_new_eq (m : Mode) (len : Nat) (pos : Array Nat) (hs : pos.toList.Pairwise (· < ·))
    (hlt : ∀ x, x ∈ pos.toList → x < len) (hlen : len * 64 + 127 < U64) :
    gen_SelectSupport_new m len pos.size (enumerate pos) = ok (SelSup.build len pos) := by
  have key : ∀ i, i < pos.size → pos.toList[i]? = some (pos[i]?.getD 0) := by
    intro i hi; simp [hi]
  have hsz := sorted_length_le hs len hlt
  rw [Array.length_toList] at hsz
  apply select_support_new_eq_of m len pos
  · intro i j hij hj
    exact sorted_get_le hs (key i (by omega)) (key j hj) hij
  · intro i hi
    exact Nat.le_of_lt (hlt _ (List.mem_of_getElem? (key i hi)))
  · omega

/-- every bitvector of fewer than 2^57 bits -/
theorem select_support_new_eq_small (m : Mode) (len : Nat) (pos : Array Nat) (hs : pos.toList.Pairwise (· < ·))
    (hlt : ∀ x, x ∈ pos.toList → x < len) (hlen : len < 2 ^ 57) :
    gen_SelectSupport_new m len pos.size (enumerate pos) = ok (SelSup.build len pos) :=
  select_support_new_eq m len pos hs hlt (by rw [U64_eq]; omega)

/-- the positions of the set bits (`tr = ident`, `select`) or of the unset bits (`tr = compl`, `select_zero`) of a
vector: the hypotheses on the positions hold -/
theorem select_support_new_positions (m : Mode) (tr : Tr) (v : RawVec) (hlen : v.len * 64 + 127 < U64) :
    gen_SelectSupport_new m v.len (positionsT tr v).size (enumerate (positionsT tr v)) =
      ok (SelSup.build v.len (positionsT tr v)) := by
  apply select_support_new_eq m v.len _ _ _ hlen
  · rw [positionsT_toList]; exact onesPos_sorted tr v
  · rw [positionsT_toList]; exact onesPos_mem_lt tr v

/-! ### the hypotheses are needed; the theorems are not vacuous -/

/-- `hwf` of `int_pack_eq`: on a vector whose buffer is shorter than `len * width` the code's `get` panics (index),
the model's total reader yields zeros -/
theorem int_pack_ne_wf :
    gen_IntVector_pack .checked ⟨1, 8, ⟨0, #[]⟩⟩ = fault (.panic .index) ∧
    (IntVec.pack ⟨1, 8, ⟨0, #[]⟩⟩).width = 1 := by decide

/-- `hmono`: a position below the start of its (long) superblock: `value.unwrap().1 - start.1` underflows (a panic
with overflow checks on, a wrapped 64-bit value without), the model subtracts in `Nat`.  Not an output of `one_iter`. -/
theorem select_support_new_ne_mono :
    gen_SelectSupport_new .checked 131072 2 (enumerate #[1, 0]) = fault (.panic .overflow) ∧
    (SelSup.build 131072 #[1, 0]).long.items = [0, 0] ∧
    (gen_SelectSupport_new .wrapping 131072 2 (enumerate #[1, 0])).toOption.map (·.long.items) =
      some [0, 2 ^ 64 - 1] := by decide +kernel

/-- `hle`: a position beyond `len`: `limit.1 - start.1` underflows -/
theorem select_support_new_ne_le :
    gen_SelectSupport_new .checked 3 1 (enumerate #[5]) = fault (.panic .overflow) ∧
    (SelSup.build 3 #[5]).short.items = [0] := by decide +kernel

/-- evaluation of both sides: the example of the documentation (one short superblock whose 5 items are not a multiple
of 64: after its only block `iter.nth(63)` runs off the end, `value = None`, and the outer loop ends because
`next_sample = None`), and a long superblock -/
theorem select_support_new_examples :
    gen_SelectSupport_new .checked 11 5 (enumerate #[1, 2, 4, 6, 7]) = ok (SelSup.build 11 #[1, 2, 4, 6, 7]) ∧
    (SelSup.build 11 #[1, 2, 4, 6, 7]).samples.items = [1, 1] ∧
    (SelSup.build 11 #[1, 2, 4, 6, 7]).short.items = [0] ∧
    gen_SelectSupport_new .checked 131072 3 (enumerate #[7, 9, 100000]) = ok (SelSup.build 131072 #[7, 9, 100000]) ∧
    (SelSup.build 131072 #[7, 9, 100000]).samples.items = [7, 0] ∧
    (SelSup.build 131072 #[7, 9, 100000]).long.items = [0, 2, 99993] := by decide +kernel

end Sds.GenEq
