/-
Proofs/RawVec: raw vectors behave as plain bit sequences under any operation history,
and the representation is canonical.
-/
import Sds.Model.RawVec
import Sds.Proofs.Bits
set_option linter.unusedSimpArgs false
set_option linter.unusedVariables false

namespace Sds
open Outcome

/-! ### array / reader helpers -/

theorem rd_of_lt (a : Array Word) (k : Nat) (h : k < a.size) : rd a k = a[k] := by
  unfold rd; simp [h]

theorem getBit_of_size_le (a : Array Word) (j : Nat) (h : 64 * a.size ≤ j) : getBit a j = false := by
  unfold getBit
  rw [rd_of_ge _ _ (by omega)]
  simp

theorem getBit_def (a : Array Word) (j : Nat) : getBit a j = (rd a (j / 64)).getLsbD (j % 64) := rfl

theorem getBit_mk (a : Array Word) (k i : Nat) (hi : i < 64) :
    getBit a (64 * k + i) = (rd a k).getLsbD i := by
  unfold getBit
  have e1 : (64 * k + i) / 64 = k := by omega
  have e2 : (64 * k + i) % 64 = i := by omega
  rw [e1, e2]

/-- word arrays of equal size with equal bits are equal -/
theorem data_ext (a b : Array Word) (hs : a.size = b.size) (h : ∀ j, getBit a j = getBit b j) : a = b := by
  apply Array.ext hs
  intro k hk1 hk2
  apply BitVec.eq_of_getLsbD_eq
  intro i hi
  have := h (64 * k + i)
  rw [getBit_mk _ _ _ hi, getBit_mk _ _ _ hi, rd_of_lt _ _ hk1, rd_of_lt _ _ hk2] at this
  exact this

theorem size_resizeArr (a : Array Word) (n : Nat) (x : Word) : (resizeArr a n x).size = n := by
  unfold resizeArr
  split
  · simp; omega
  · simp; omega

theorem rd_resizeArr (a : Array Word) (n : Nat) (x : Word) (k : Nat) :
    rd (resizeArr a n x) k = if k < n then (if k < a.size then rd a k else x) else 0 := by
  unfold resizeArr rd
  split
  · rename_i h
    by_cases hk : k < n
    · have : k < a.size := by omega
      simp [hk, this, Nat.min_eq_left h]
    · simp [hk, Nat.min_eq_left h]
  · rename_i h
    by_cases hk : k < n
    · by_cases hk2 : k < a.size
      · simp [hk, hk2, Array.getElem?_append_left]
      · have h3 : k - a.size < n - a.size := by omega
        simp [hk, hk2, Array.getElem?_append_right (show a.size ≤ k by omega), Array.getElem?_replicate, h3]
    · have h3 : ¬ (k - a.size < n - a.size) := by omega
      simp [hk, Array.getElem?_append_right (show a.size ≤ k by omega), Array.getElem?_replicate, h3]

theorem rd_replicate (n : Nat) (x : Word) (k : Nat) :
    rd (Array.replicate n x) k = if k < n then x else 0 := by
  unfold rd
  by_cases hk : k < n <;> simp [hk, Array.getElem?_replicate]

theorem rd_map (f : Word → Word) (a : Array Word) (k : Nat) :
    rd (a.map f) k = if k < a.size then f (rd a k) else 0 := by
  unfold rd
  by_cases hk : k < a.size <;> simp [hk]

theorem fillerValue_getLsbD (b : Bool) (i : Nat) (hi : i < 64) : (fillerValue b).getLsbD i = b := by
  unfold fillerValue
  cases b
  · simp
  · simp only [if_true]
    rw [BitVec.getLsbD_allOnes]; simp [hi]

namespace RawVec

/-! ### 1. the invariant, bit-level form -/

theorem WF.size_eq {v : RawVec} (h : v.WF) : v.data.size = (v.len + 63) / 64 := h.1

theorem WF.tail_zero {v : RawVec} (h : v.WF) (j : Nat) (hj : v.len ≤ j) : getBit v.data j = false := by
  obtain ⟨hs, ht⟩ := h
  by_cases hjs : 64 * v.data.size ≤ j
  · exact getBit_of_size_le _ _ hjs
  · have hm : v.len % 64 ≠ 0 := by omega
    have hd : j / 64 = v.len / 64 := by omega
    have hjl := Nat.mod_lt j (show 64 > 0 by decide)
    have h0 := ht hm
    have h1 : (rd v.data (v.len / 64) &&& ~~~ lowSet (v.len % 64)).getLsbD (j % 64) = false := by
      rw [h0]; simp
    rw [BitVec.getLsbD_and, BitVec.getLsbD_not, lowSet_getLsbD _ _ hjl] at h1
    have h2 : ¬ (j % 64 < v.len % 64) := by omega
    unfold getBit
    rw [hd]
    simpa [hjl, h2] using h1

/-- converse: exact word count and all bits at or beyond `len` zero give `WF` -/
theorem WF.of_tail_zero {v : RawVec} (hs : v.data.size = (v.len + 63) / 64)
    (ht : ∀ j, v.len ≤ j → getBit v.data j = false) : v.WF := by
  refine ⟨hs, fun hm => ?_⟩
  apply BitVec.eq_of_getLsbD_eq
  intro i hi
  rw [BitVec.getLsbD_and, BitVec.getLsbD_not, lowSet_getLsbD _ _ hi]
  by_cases hil : i < v.len % 64
  · simp [hil]
  · have := ht (64 * (v.len / 64) + i) (by omega)
    rw [getBit_mk _ _ _ hi] at this
    simp [this]

theorem WF_iff (v : RawVec) :
    v.WF ↔ v.data.size = (v.len + 63) / 64 ∧ ∀ j, v.len ≤ j → getBit v.data j = false :=
  ⟨fun h => ⟨h.1, h.tail_zero⟩, fun h => WF.of_tail_zero h.1 h.2⟩

theorem bits_length (v : RawVec) : v.bits.length = v.len := by
  unfold bits; simp

theorem bits_getElem? (v : RawVec) (i : Nat) :
    v.bits[i]? = if i < v.len then some (getBit v.data i) else none := by
  unfold bits
  by_cases h : i < v.len
  · simp [h]
  · simp [h]

/-- characterisation of `bits` used for all operations -/
theorem bits_eq_iff (v : RawVec) (L : List Bool) :
    v.bits = L ↔ L.length = v.len ∧ ∀ i, i < v.len → L[i]? = some (getBit v.data i) := by
  constructor
  · intro h; subst h
    refine ⟨bits_length v, fun i hi => ?_⟩
    rw [bits_getElem?]; simp [hi]
  · rintro ⟨hl, hb⟩
    apply List.ext_getElem?
    intro i
    rw [bits_getElem?]
    by_cases hi : i < v.len
    · simp only [hi, if_true]; exact (hb i hi).symm
    · simp only [hi, if_false]
      exact (List.getElem?_eq_none (by omega)).symm

/-! ### 2. canonicity -/

theorem canonical {v w : RawVec} (hv : v.WF) (hw : w.WF) (h : v.bits = w.bits) : v = w := by
  have hl : v.len = w.len := by rw [← bits_length v, ← bits_length w, h]
  have hd : v.data = w.data := by
    apply data_ext
    · rw [hv.1, hw.1, hl]
    · intro j
      by_cases hj : j < v.len
      · have h1 := bits_getElem? v j
        have h2 := bits_getElem? w j
        rw [h] at h1
        rw [h1] at h2
        simp only [hj, hl ▸ hj, if_true] at h2
        exact Option.some.inj h2
      · rw [hv.tail_zero j (by omega), hw.tail_zero j (by omega)]
  cases v; cases w; simp_all

/-! ### setUnusedBits -/

@[simp] theorem len_setUnusedBits (v : RawVec) (b : Bool) : (v.setUnusedBits b).len = v.len := by
  unfold setUnusedBits; simp only []
  split
  · split <;> rfl
  · rfl

@[simp] theorem size_setUnusedBits (v : RawVec) (b : Bool) :
    (v.setUnusedBits b).data.size = v.data.size := by
  unfold setUnusedBits; simp only []
  split
  · split <;> simp
  · rfl

theorem getBit_setUnusedBits (v : RawVec) (b : Bool) (hs : v.data.size = (v.len + 63) / 64) (j : Nat) :
    getBit (v.setUnusedBits b).data j =
      if v.len ≤ j ∧ j < 64 * v.data.size then b else getBit v.data j := by
  have hjl := Nat.mod_lt j (show 64 > 0 by decide)
  unfold setUnusedBits; simp only []
  split
  · rename_i hw
    have hidx : v.len / 64 < v.data.size := by omega
    by_cases hjw : j / 64 = v.len / 64
    · cases b
      · simp only [Bool.false_eq_true, if_false]
        unfold getBit
        rw [rd_set _ _ _ _ hidx]
        simp only [hjw, if_true, BitVec.getLsbD_and, lowSet_getLsbD _ _ hjl]
        by_cases hc : v.len ≤ j ∧ j < 64 * v.data.size
        · have : ¬ (j % 64 < v.len % 64) := by omega
          simp [hc, this]
        · have : j % 64 < v.len % 64 := by omega
          simp [hc, this]
      · simp only [if_true]
        unfold getBit
        rw [rd_set _ _ _ _ hidx]
        simp only [hjw, if_true, BitVec.getLsbD_or, BitVec.getLsbD_not, lowSet_getLsbD _ _ hjl]
        by_cases hc : v.len ≤ j ∧ j < 64 * v.data.size
        · have : ¬ (j % 64 < v.len % 64) := by omega
          simp [hc, this, hjl]
        · have : j % 64 < v.len % 64 := by omega
          simp [hc, this]
    · have hc : ¬ (v.len ≤ j ∧ j < 64 * v.data.size) := by omega
      simp only [hc, if_false]
      cases b
      · simp only [Bool.false_eq_true, if_false]
        unfold getBit
        rw [rd_set _ _ _ _ hidx]
        simp [hjw]
      · simp only [if_true]
        unfold getBit
        rw [rd_set _ _ _ _ hidx]
        simp [hjw]
  · rename_i hw
    have hc : ¬ (v.len ≤ j ∧ j < 64 * v.data.size) := by omega
    simp [hc]

/-- re-zeroing the tail of a vector with the exact word count always yields a well-formed vector -/
theorem setUnusedBits_false_WF (v : RawVec) (hs : v.data.size = (v.len + 63) / 64) :
    (v.setUnusedBits false).WF := by
  apply WF.of_tail_zero
  · simp [hs]
  · intro j hj
    rw [len_setUnusedBits] at hj
    rw [getBit_setUnusedBits _ _ hs]
    by_cases hc : j < 64 * v.data.size
    · simp [hj, hc]
    · simp [hc]; exact getBit_of_size_le _ _ (by omega)

theorem bits_eq_of_getBit {v w : RawVec} (hl : v.len = w.len)
    (h : ∀ i, i < v.len → getBit v.data i = getBit w.data i) : v.bits = w.bits := by
  unfold bits
  rw [← hl]
  apply List.map_congr_left
  intro i hi
  exact h i (by simpa using hi)

theorem bits_setUnusedBits (v : RawVec) (b : Bool) (hs : v.data.size = (v.len + 63) / 64) :
    (v.setUnusedBits b).bits = v.bits := by
  apply bits_eq_of_getBit (by simp)
  intro i hi
  rw [len_setUnusedBits] at hi
  rw [getBit_setUnusedBits _ _ hs]
  have : ¬ (v.len ≤ i ∧ i < 64 * v.data.size) := by omega
  simp [this]

/-- a well-formed vector is a fixed point of `set_unused_bits(false)` -/
theorem WF.setUnusedBits_false {v : RawVec} (h : v.WF) : v.setUnusedBits false = v := by
  apply canonical (setUnusedBits_false_WF v h.1) h (bits_setUnusedBits v false h.1)

/-! ### 3. empty / withLen -/

theorem empty_WF : RawVec.empty.WF := by decide

theorem withLen_WF (n : Nat) (b : Bool) : (withLen n b).WF := by
  unfold withLen
  apply setUnusedBits_false_WF
  simp

theorem bits_withLen (n : Nat) (b : Bool) : (withLen n b).bits = List.replicate n b := by
  unfold withLen
  rw [bits_setUnusedBits _ _ (by simp)]
  rw [bits_eq_iff]
  refine ⟨by simp, fun i hi => ?_⟩
  simp only [] at hi
  have hjl := Nat.mod_lt i (show 64 > 0 by decide)
  unfold getBit
  simp only []
  rw [rd_replicate, if_pos (by omega), fillerValue_getLsbD _ _ hjl]
  simp [hi]

@[simp] theorem len_withLen (n : Nat) (b : Bool) : (withLen n b).len = n := by
  unfold withLen; simp

/-! ### 4. pushBit -/

theorem bits_eq_append {v w : RawVec} (L : List Bool) (hl : w.len = v.len + L.length)
    (h1 : ∀ i, i < v.len → getBit w.data i = getBit v.data i)
    (h2 : ∀ i, i < L.length → L[i]? = some (getBit w.data (v.len + i))) : w.bits = v.bits ++ L := by
  rw [bits_eq_iff]
  refine ⟨by simp [bits_length, hl], fun i hi => ?_⟩
  by_cases hiv : i < v.len
  · rw [List.getElem?_append_left (by simpa [bits_length] using hiv), bits_getElem?]
    simp [hiv, h1 i hiv]
  · rw [List.getElem?_append_right (by simp [bits_length]; omega), bits_length, h2 _ (by omega)]
    congr 2; omega

theorem bitWord_getLsbD (b : Bool) (m : Nat) :
    (if b then (1 : Word) else 0).getLsbD m = (b && decide (m = 0)) := by
  cases b
  · simp
  · simp [BitVec.getLsbD_one]

theorem getBit_push_zero (a : Array Word) (j : Nat) : getBit (a.push 0) j = getBit a j := by
  unfold getBit
  rw [rd_push]
  split
  · rename_i h; rw [h, rd_of_ge _ _ (Nat.le_refl _)]
  · rfl

theorem getBit_pushBit {v : RawVec} (h : v.WF) (b : Bool) (j : Nat) :
    getBit (v.pushBit b).data j = if j = v.len then b else getBit v.data j := by
  have hs := h.1
  have hjl := Nat.mod_lt j (show 64 > 0 by decide)
  unfold pushBit; simp only []
  generalize hd : (if v.len / 64 = v.data.size then v.data.push 0 else v.data) = d
  have hdb : ∀ k, getBit d k = getBit v.data k := by
    intro k; rw [← hd]; split
    · exact getBit_push_zero _ _
    · rfl
  have hds : v.len / 64 < d.size := by
    rw [← hd]; split
    · simp; omega
    · omega
  have hrd : ∀ k, (rd d (k / 64)).getLsbD (k % 64) = getBit v.data k := hdb
  rw [getBit_def, rd_set _ _ _ _ hds]
  by_cases hjw : j / 64 = v.len / 64
  · simp only [hjw, if_true, BitVec.getLsbD_or, BitVec.getLsbD_shiftLeft, bitWord_getLsbD]
    have e := hrd j
    rw [hjw] at e
    rw [e]
    by_cases hjv : j = v.len
    · subst hjv
      simp [h.tail_zero _ (Nat.le_refl _), hjl]
    · have : ¬ (j % 64 - v.len % 64 = 0 ∧ ¬ (j % 64 < v.len % 64)) := by omega
      simp only [hjv, if_false]
      by_cases h3 : j % 64 < v.len % 64
      · simp [h3]
      · have : ¬ (j % 64 - v.len % 64 = 0) := by omega
        simp [this]
  · have hjv : j ≠ v.len := by intro e; apply hjw; rw [e]
    simp only [hjw, hjv, if_false]
    exact hrd j

@[simp] theorem len_pushBit (v : RawVec) (b : Bool) : (v.pushBit b).len = v.len + 1 := rfl

theorem size_pushBit {v : RawVec} (h : v.WF) (b : Bool) :
    (v.pushBit b).data.size = (v.len + 1 + 63) / 64 := by
  have hs := h.1
  unfold pushBit; simp only [Array.size_setIfInBounds]
  split
  · simp; omega
  · omega

theorem pushBit_WF {v : RawVec} (h : v.WF) (b : Bool) : (v.pushBit b).WF := by
  apply WF.of_tail_zero (size_pushBit h b)
  intro j hj
  rw [len_pushBit] at hj
  rw [getBit_pushBit h, if_neg (by omega)]
  exact h.tail_zero j (by omega)

theorem bits_pushBit {v : RawVec} (h : v.WF) (b : Bool) : (v.pushBit b).bits = v.bits ++ [b] := by
  apply bits_eq_append
  · simp
  · intro i hi; rw [getBit_pushBit h, if_neg (by omega)]
  · intro i hi
    have : i = 0 := by simpa using hi
    subst this
    simp [getBit_pushBit h]

theorem ofBits_aux (B : List Bool) (v : RawVec) (h : v.WF) :
    (B.foldl pushBit v).WF ∧ (B.foldl pushBit v).bits = v.bits ++ B := by
  induction B generalizing v with
  | nil => simp [h]
  | cons b B ih =>
    have := ih (v.pushBit b) (pushBit_WF h b)
    rw [bits_pushBit h] at this
    simpa using this

theorem ofBits_WF (B : List Bool) : (ofBits B).WF := (ofBits_aux B empty empty_WF).1

theorem bits_ofBits (B : List Bool) : (ofBits B).bits = B := by
  have := (ofBits_aux B empty empty_WF).2
  simpa [bits, empty, ofBits] using this

/-! ### 5. pushInt -/

theorem pushInt_zero (v : RawVec) (x : Word) : v.pushInt x 0 = v := by
  unfold pushInt; simp

theorem len_pushInt (v : RawVec) (x : Word) (w : Nat) : (v.pushInt x w).len = v.len + w := by
  unfold pushInt; split
  · rename_i h; simp [h]
  · rfl

theorem getBit_pushInt {v : RawVec} (h : v.WF) (x : Word) (w : Nat) (hw : 1 ≤ w) (hw' : w ≤ 64) (j : Nat) :
    getBit (v.pushInt x w).data j =
      if v.len ≤ j ∧ j < v.len + w then x.getLsbD (j - v.len) else getBit v.data j := by
  have hs := h.1
  unfold pushInt
  rw [if_neg (by omega)]; simp only []
  generalize hd : (if v.len + w > 64 * v.data.size then v.data.push 0 else v.data) = d
  have hdb : ∀ k, getBit d k = getBit v.data k := by
    intro k; rw [← hd]; split
    · exact getBit_push_zero _ _
    · rfl
  have hds : (v.len + w - 1) / 64 < d.size := by
    rw [← hd]; split
    · simp; omega
    · omega
  rw [getBit_writeInt _ _ _ _ hw hw' hds, hdb]

theorem size_pushInt {v : RawVec} (h : v.WF) (x : Word) (w : Nat) (hw : 1 ≤ w) (hw' : w ≤ 64) :
    (v.pushInt x w).data.size = (v.len + w + 63) / 64 := by
  have hs := h.1
  unfold pushInt
  rw [if_neg (by omega)]; simp only [size_writeInt]
  split
  · simp; omega
  · omega

theorem pushInt_WF {v : RawVec} (h : v.WF) (x : Word) (w : Nat) (hw : 1 ≤ w) (hw' : w ≤ 64) :
    (v.pushInt x w).WF := by
  apply WF.of_tail_zero
  · rw [size_pushInt h x w hw hw', len_pushInt]
  · intro j hj
    rw [len_pushInt] at hj
    rw [getBit_pushInt h x w hw hw', if_neg (by omega)]
    exact h.tail_zero j (by omega)

theorem bits_pushInt {v : RawVec} (h : v.WF) (x : Word) (w : Nat) (hw : 1 ≤ w) (hw' : w ≤ 64) :
    (v.pushInt x w).bits = v.bits ++ (List.range w).map (fun i => x.getLsbD i) := by
  apply bits_eq_append
  · simp [len_pushInt]
  · intro i hi; rw [getBit_pushInt h x w hw hw', if_neg (by omega)]
  · intro i hi
    have hi' : i < w := by simpa using hi
    rw [getBit_pushInt h x w hw hw', if_pos (by omega)]
    simp [hi']

/-! ### 6. bit / int / setBit / setInt -/

theorem bit_eq (v : RawVec) (i : Nat) : v.bit i = getBit v.data i := rfl

theorem bit_eq_getElem? (v : RawVec) (i : Nat) (hi : i < v.len) : v.bits[i]? = some (v.bit i) := by
  rw [bits_getElem?]; simp [hi, bit]

theorem int_getLsbD (v : RawVec) (off w : Nat) (hw : 1 ≤ w) (hw' : w ≤ 64) (i : Nat) :
    (v.int off w).getLsbD i = (decide (i < w) && getBit v.data (off + i)) := by
  unfold int
  rw [if_neg (by omega), getLsbD_readInt _ _ _ hw hw']

theorem int_zero (v : RawVec) (off : Nat) : v.int off 0 = 0 := by
  unfold int; simp

@[simp] theorem len_setBit (v : RawVec) (i : Nat) (b : Bool) : (v.setBit i b).len = v.len := rfl

theorem getBit_setBit {v : RawVec} (h : v.WF) (i : Nat) (hi : i < v.len) (b : Bool) (j : Nat) :
    getBit (v.setBit i b).data j = if j = i then b else getBit v.data j := by
  have hs := h.1
  have hjl := Nat.mod_lt j (show 64 > 0 by decide)
  have hidx : i / 64 < v.data.size := by omega
  unfold setBit; simp only []
  rw [getBit_def, rd_set _ _ _ _ hidx]
  by_cases hjw : j / 64 = i / 64
  · simp only [hjw, if_true, BitVec.getLsbD_or, BitVec.getLsbD_and, BitVec.getLsbD_not,
      BitVec.getLsbD_shiftLeft, bitWord_getLsbD]
    by_cases hji : j = i
    · subst hji
      simp [hjl]
    · simp only [hji, if_false]
      rw [getBit_def, hjw]
      by_cases h3 : j % 64 < i % 64
      · simp [h3, hjl]
      · have : ¬ (j % 64 - i % 64 = 0) := by omega
        simp [this, hjl]
  · have hji : j ≠ i := by intro e; apply hjw; rw [e]
    simp only [hjw, hji, if_false]
    rfl

theorem setBit_WF {v : RawVec} (h : v.WF) (i : Nat) (hi : i < v.len) (b : Bool) : (v.setBit i b).WF := by
  apply WF.of_tail_zero
  · simp [setBit, h.1]
  · intro j hj
    rw [len_setBit] at hj
    rw [getBit_setBit h i hi, if_neg (by omega)]
    exact h.tail_zero j hj

theorem bits_setBit {v : RawVec} (h : v.WF) (i : Nat) (hi : i < v.len) (b : Bool) :
    (v.setBit i b).bits = v.bits.set i b := by
  rw [bits_eq_iff]
  refine ⟨by simp [bits_length], fun j hj => ?_⟩
  rw [len_setBit] at hj
  rw [getBit_setBit h i hi, List.getElem?_set, bits_getElem?]
  by_cases hji : i = j
  · subst hji; simp [bits_length, hi]
  · have : ¬ (j = i) := fun e => hji e.symm
    simp [hji, this, hj]

theorem setInt_zero (v : RawVec) (off : Nat) (x : Word) : v.setInt off x 0 = v := by
  unfold setInt; simp

theorem len_setInt (v : RawVec) (off : Nat) (x : Word) (w : Nat) : (v.setInt off x w).len = v.len := by
  unfold setInt; split <;> rfl

theorem getBit_setInt {v : RawVec} (h : v.WF) (off : Nat) (x : Word) (w : Nat) (hw : 1 ≤ w) (hw' : w ≤ 64)
    (hr : off + w ≤ v.len) (j : Nat) :
    getBit (v.setInt off x w).data j =
      if off ≤ j ∧ j < off + w then x.getLsbD (j - off) else getBit v.data j := by
  have hs := h.1
  unfold setInt
  rw [if_neg (by omega)]; simp only []
  exact getBit_writeInt _ _ _ _ hw hw' (by omega) j

theorem setInt_WF {v : RawVec} (h : v.WF) (off : Nat) (x : Word) (w : Nat) (hw : 1 ≤ w) (hw' : w ≤ 64)
    (hr : off + w ≤ v.len) : (v.setInt off x w).WF := by
  apply WF.of_tail_zero
  · rw [len_setInt]; unfold setInt; rw [if_neg (by omega)]; simp only [size_writeInt]; exact h.1
  · intro j hj
    rw [len_setInt] at hj
    rw [getBit_setInt h off x w hw hw' hr, if_neg (by omega)]
    exact h.tail_zero j hj

/-- bits inside the field are the low `w` bits of `x`, all other bits are unchanged -/
theorem bits_setInt_getElem? {v : RawVec} (h : v.WF) (off : Nat) (x : Word) (w : Nat) (hw : 1 ≤ w)
    (hw' : w ≤ 64) (hr : off + w ≤ v.len) (j : Nat) :
    (v.setInt off x w).bits[j]? =
      if off ≤ j ∧ j < off + w then some (x.getLsbD (j - off)) else v.bits[j]? := by
  rw [bits_getElem?, bits_getElem?, len_setInt, getBit_setInt h off x w hw hw' hr]
  by_cases hc : off ≤ j ∧ j < off + w
  · have : j < v.len := by omega
    simp [hc, this]
  · simp [hc]

/-- the same as a list equation -/
theorem bits_setInt {v : RawVec} (h : v.WF) (off : Nat) (x : Word) (w : Nat) (hw : 1 ≤ w)
    (hw' : w ≤ 64) (hr : off + w ≤ v.len) :
    (v.setInt off x w).bits =
      v.bits.take off ++ (List.range w).map (fun i => x.getLsbD i) ++ v.bits.drop (off + w) := by
  apply List.ext_getElem?
  intro j
  rw [bits_setInt_getElem? h off x w hw hw' hr]
  by_cases h1 : j < off
  · rw [if_neg (by omega), List.append_assoc, List.getElem?_append_left (by simp [bits_length]; omega),
      List.getElem?_take, if_pos h1]
  · by_cases h2 : j < off + w
    · rw [if_pos (by omega), List.getElem?_append_left (by simp [bits_length]; omega),
        List.getElem?_append_right (by simp [bits_length]; omega)]
      have e : (List.take off v.bits).length = off := by simp [bits_length]; omega
      have : j - off < w := by omega
      simp [e, this]
    · rw [if_neg (by omega), List.getElem?_append_right (by simp [bits_length]; omega)]
      have e : (List.take off v.bits ++ List.map (fun i => x.getLsbD i) (List.range w)).length = off + w := by
        simp [bits_length]; omega
      rw [e, List.getElem?_drop]
      congr 1; omega

/-- read-after-write through the vector API -/
theorem int_setInt {v : RawVec} (h : v.WF) (off : Nat) (x : Word) (w : Nat) (hw : 1 ≤ w)
    (hw' : w ≤ 64) (hr : off + w ≤ v.len) : (v.setInt off x w).int off w = x &&& lowSet w := by
  have hs := h.1
  unfold setInt int
  rw [if_neg (by omega), if_neg (by omega)]
  exact readInt_writeInt _ _ _ _ hw hw' (by omega)

/-! ### 7. resize -/

theorem getBit_resizeArr (a : Array Word) (n : Nat) (x : Word) (j : Nat) :
    getBit (resizeArr a n x) j =
      if j < 64 * n then (if j < 64 * a.size then getBit a j else x.getLsbD (j % 64)) else false := by
  rw [getBit_def, rd_resizeArr]
  by_cases h1 : j < 64 * n
  · rw [if_pos (by omega), if_pos h1]
    by_cases h2 : j < 64 * a.size
    · rw [if_pos (by omega), if_pos h2]; rfl
    · rw [if_neg (by omega), if_neg h2]
  · rw [if_neg (by omega), if_neg h1]; simp

@[simp] theorem len_resize (v : RawVec) (n : Nat) (b : Bool) : (v.resize n b).len = n := by
  unfold resize; simp

theorem resize_WF' (v : RawVec) (n : Nat) (b : Bool) : (v.resize n b).WF := by
  unfold resize; simp only []
  apply setUnusedBits_false_WF
  simp [size_resizeArr]

theorem resize_WF {v : RawVec} (h : v.WF) (n : Nat) (b : Bool) : (v.resize n b).WF := resize_WF' v n b

theorem getBit_resize {v : RawVec} (h : v.WF) (n : Nat) (b : Bool) (j : Nat) (hj : j < n) :
    getBit (v.resize n b).data j = if j < v.len then getBit v.data j else b := by
  have hs := h.1
  have hjl := Nat.mod_lt j (show 64 > 0 by decide)
  unfold resize; simp only []
  rw [getBit_setUnusedBits _ _ (by simp [size_resizeArr])]
  simp only []
  rw [if_neg (by omega), getBit_resizeArr, if_pos (by omega), fillerValue_getLsbD _ _ hjl]
  by_cases hgrow : n > v.len
  · simp only [hgrow, if_true, size_setUnusedBits, getBit_setUnusedBits _ _ hs]
    by_cases h1 : j < v.len
    · rw [if_pos (by omega), if_neg (by omega), if_pos h1]
    · by_cases h2 : j < 64 * v.data.size
      · rw [if_pos h2, if_pos (by omega), if_neg h1]
      · rw [if_neg h2, if_neg h1]
  · simp only [hgrow, if_false]
    rw [if_pos (by omega), if_pos (by omega)]

theorem bits_resize {v : RawVec} (h : v.WF) (n : Nat) (b : Bool) :
    (v.resize n b).bits = v.bits.take n ++ List.replicate (n - v.len) b := by
  rw [bits_eq_iff]
  refine ⟨by simp [bits_length]; omega, fun j hj => ?_⟩
  rw [len_resize] at hj
  rw [getBit_resize h n b j hj]
  by_cases h1 : j < v.len
  · rw [if_pos h1, List.getElem?_append_left (by simp [bits_length]; omega), List.getElem?_take,
      if_pos hj, bits_getElem?, if_pos h1]
  · rw [if_neg h1, List.getElem?_append_right (by simp [bits_length]; omega)]
    have : j - (List.take n v.bits).length < n - v.len := by simp [bits_length]; omega
    rw [List.getElem?_replicate, if_pos this]

/-! ### 8. popBit / popInt -/

theorem popBit_empty (v : RawVec) (h : v.len = 0) : v.popBit = (none, v) := by
  unfold popBit; simp [h]

theorem popBit_eq (v : RawVec) (h : v.len ≠ 0) :
    v.popBit = (some (getBit v.data (v.len - 1)), v.resize (v.len - 1) false) := by
  unfold popBit resize
  rw [if_neg h, if_neg (by omega)]
  rfl

theorem popBit_spec {v : RawVec} (hv : v.WF) (h : v.len ≠ 0) :
    v.popBit.1 = some (getBit v.data (v.len - 1)) ∧ v.popBit.2.WF ∧
      v.popBit.2.bits = v.bits.take (v.len - 1) := by
  rw [popBit_eq v h]
  refine ⟨rfl, resize_WF hv _ _, ?_⟩
  simp only []
  rw [bits_resize hv, show v.len - 1 - v.len = 0 by omega]
  simp

/-- the popped bit is the last element of the content -/
theorem popBit_fst {v : RawVec} (h : v.len ≠ 0) : v.popBit.1 = v.bits[v.len - 1]? := by
  rw [popBit_eq v h, bits_getElem?, if_pos (by omega)]

theorem popInt_short (v : RawVec) (w : Nat) (h : v.len < w) : v.popInt w = (none, v) := by
  unfold popInt; rw [if_neg (by omega)]

theorem popInt_zero (v : RawVec) : v.popInt 0 = (some 0, v) := by
  unfold popInt; simp

theorem popInt_eq (v : RawVec) (w : Nat) (hw : 1 ≤ w) (h : w ≤ v.len) :
    v.popInt w = (some (v.int (v.len - w) w), v.resize (v.len - w) false) := by
  unfold popInt resize
  rw [if_pos h, if_neg (by omega), if_neg (by omega)]
  rfl

theorem popInt_spec {v : RawVec} (hv : v.WF) (w : Nat) (hw : 1 ≤ w) (hw' : w ≤ 64) (h : w ≤ v.len) :
    (∃ r, (v.popInt w).1 = some r ∧
      ∀ i, r.getLsbD i = (decide (i < w) && getBit v.data (v.len - w + i))) ∧
    (v.popInt w).2.WF ∧ (v.popInt w).2.bits = v.bits.take (v.len - w) := by
  rw [popInt_eq v w hw h]
  refine ⟨⟨_, rfl, fun i => int_getLsbD v _ w hw hw' i⟩, resize_WF hv _ _, ?_⟩
  simp only []
  rw [bits_resize hv, show v.len - w - v.len = 0 by omega]
  simp

/-! ### 9. countOnes / complement -/

/-- number of set values of `f` below `n` -/
def cnt (f : Nat → Bool) (n : Nat) : Nat := ((List.range n).map f).count true

theorem cnt_add (f : Nat → Bool) (n m : Nat) : cnt f (n + m) = cnt f n + cnt (fun i => f (n + i)) m := by
  unfold cnt
  rw [List.range_add, List.map_append, List.count_append, List.map_map]
  rfl

theorem cnt_congr (f g : Nat → Bool) (n : Nat) (h : ∀ i, i < n → f i = g i) : cnt f n = cnt g n := by
  unfold cnt
  congr 1
  apply List.map_congr_left
  intro i hi
  exact h i (by simpa using hi)

theorem cnt_false (n : Nat) : cnt (fun _ => false) n = 0 := by
  unfold cnt
  rw [List.count_eq_zero]
  simp

theorem getBit_cons (w : Word) (l : List Word) (i : Nat) :
    getBit (w :: l).toArray (64 + i) = getBit l.toArray i := by
  rw [getBit_def, getBit_def]
  have e1 : (64 + i) / 64 = i / 64 + 1 := by omega
  have e2 : (64 + i) % 64 = i % 64 := by omega
  rw [e1, e2]
  unfold rd
  simp

theorem getBit_cons_lt (w : Word) (l : List Word) (i : Nat) (hi : i < 64) :
    getBit (w :: l).toArray i = w.getLsbD i := by
  rw [getBit_def]
  have e1 : i / 64 = 0 := by omega
  have e2 : i % 64 = i := by omega
  rw [e1, e2]
  unfold rd
  simp

theorem foldl_popcount (l : List Word) (acc : Nat) :
    l.foldl (fun acc w => acc + popcount w) acc = acc + cnt (getBit l.toArray) (64 * l.length) := by
  induction l generalizing acc with
  | nil => simp [cnt]
  | cons w l ih =>
    rw [List.foldl_cons, ih, List.length_cons, show 64 * (l.length + 1) = 64 + 64 * l.length by omega,
      cnt_add]
    have e1 : cnt (getBit (w :: l).toArray) 64 = popcount w := by
      unfold cnt popcount bitsOfWord
      have : List.map (getBit (w :: l).toArray) (List.range 64)
          = List.map (fun i => w.getLsbD i) (List.range 64) := by
        apply List.map_congr_left
        intro i hi
        exact getBit_cons_lt w l i (by simpa using hi)
      rw [this]
    have e2 : cnt (fun i => getBit (w :: l).toArray (64 + i)) (64 * l.length)
        = cnt (getBit l.toArray) (64 * l.length) :=
      cnt_congr _ _ _ (fun i _ => getBit_cons w l i)
    rw [e1, e2]; omega

theorem countOnes_eq_cnt (v : RawVec) : v.countOnes = cnt (getBit v.data) (64 * v.data.size) := by
  unfold countOnes
  rw [← Array.foldl_toList, foldl_popcount]
  simp

theorem countOnes_eq {v : RawVec} (h : v.WF) : v.countOnes = v.bits.count true := by
  have hs := h.1
  rw [countOnes_eq_cnt]
  have : 64 * v.data.size = v.len + (64 * v.data.size - v.len) := by omega
  rw [this, cnt_add, cnt_congr (fun i => getBit v.data (v.len + i)) (fun _ => false) _
    (fun i _ => h.tail_zero _ (by omega)), cnt_false]
  rfl


@[simp] theorem len_complement (v : RawVec) : v.complement.len = v.len := by
  unfold complement; simp

theorem complement_WF' (v : RawVec) (hs : v.data.size = (v.len + 63) / 64) : v.complement.WF := by
  unfold complement
  apply setUnusedBits_false_WF
  simp [hs]

theorem complement_WF {v : RawVec} (h : v.WF) : v.complement.WF := complement_WF' v h.1

theorem bits_complement {v : RawVec} (h : v.WF) : v.complement.bits = v.bits.map not := by
  have hs := h.1
  unfold complement
  rw [bits_setUnusedBits _ _ (by simp [hs]), bits_eq_iff]
  refine ⟨by simp [bits_length], fun i hi => ?_⟩
  simp only [] at hi
  have hil := Nat.mod_lt i (show 64 > 0 by decide)
  rw [List.getElem?_map, bits_getElem?, if_pos hi, getBit_def, getBit_def]
  simp only []
  rw [rd_map, if_pos (by omega), BitVec.getLsbD_not]
  simp [hil]

/-! ### 10. clear -/

theorem clear_spec (v : RawVec) : (v.clear).WF ∧ (v.clear).bits = [] := by
  refine ⟨empty_WF, ?_⟩
  simp [clear, empty, bits]

/-! ### operation histories -/

/-- the mutating operations of the in-memory API -/
inductive Op
  | pushBit (b : Bool) | pushInt (x : Word) (w : Nat) | setBit (i : Nat) (b : Bool)
  | setInt (off : Nat) (x : Word) (w : Nat) | resize (n : Nat) (b : Bool)
  | popBit | popInt (w : Nat) | complement | clear

/-- effect on the representation -/
def Op.run : Op → RawVec → RawVec
  | .pushBit b, v => v.pushBit b
  | .pushInt x w, v => v.pushInt x w
  | .setBit i b, v => v.setBit i b
  | .setInt off x w, v => v.setInt off x w
  | .resize n b, v => v.resize n b
  | .popBit, v => v.popBit.2
  | .popInt w, v => (v.popInt w).2
  | .complement, v => v.complement
  | .clear, v => v.clear

/-- effect on a plain bit sequence -/
def Op.spec : Op → List Bool → List Bool
  | .pushBit b, L => L ++ [b]
  | .pushInt x w, L => L ++ (List.range w).map (fun i => x.getLsbD i)
  | .setBit i b, L => L.set i b
  | .setInt off x w, L => L.take off ++ (List.range w).map (fun i => x.getLsbD i) ++ L.drop (off + w)
  | .resize n b, L => L.take n ++ List.replicate (n - L.length) b
  | .popBit, L => L.take (L.length - 1)
  | .popInt w, L => if w ≤ L.length then L.take (L.length - w) else L
  | .complement, L => L.map not
  | .clear, _ => []

/-- documented domain of each operation, given the current length -/
def Op.pre : Op → Nat → Prop
  | .pushInt _ w, _ => w ≤ 64
  | .setBit i _, n => i < n
  | .setInt off _ w, n => w ≤ 64 ∧ off + w ≤ n
  | .popInt w, _ => w ≤ 64
  | _, _ => True

theorem Op.step (op : Op) {v : RawVec} (h : v.WF) (hp : op.pre v.len) :
    (op.run v).WF ∧ (op.run v).bits = op.spec v.bits := by
  cases op with
  | pushBit b => exact ⟨pushBit_WF h b, bits_pushBit h b⟩
  | pushInt x w =>
    have hw : w ≤ 64 := hp
    by_cases h0 : w = 0
    · subst h0; simp [Op.run, Op.spec, pushInt_zero, h]
    · exact ⟨pushInt_WF h x w (by omega) hw, bits_pushInt h x w (by omega) hw⟩
  | setBit i b => exact ⟨setBit_WF h i hp b, bits_setBit h i hp b⟩
  | setInt off x w =>
    obtain ⟨hw, hr⟩ : w ≤ 64 ∧ off + w ≤ v.len := hp
    by_cases h0 : w = 0
    · subst h0; simp [Op.run, Op.spec, setInt_zero, h]
    · exact ⟨setInt_WF h off x w (by omega) hw hr, bits_setInt h off x w (by omega) hw hr⟩
  | resize n b =>
    refine ⟨resize_WF h n b, ?_⟩
    simp only [Op.run, Op.spec, bits_resize h, bits_length]
  | popBit =>
    by_cases h0 : v.len = 0
    · simp only [Op.run, Op.spec, popBit_empty v h0, bits_length, h0]
      refine ⟨h, ?_⟩
      have : v.bits = [] := List.eq_nil_of_length_eq_zero (by rw [bits_length, h0])
      simp [this]
    · have := popBit_spec h h0
      simp only [Op.run, Op.spec, bits_length]
      exact ⟨this.2.1, this.2.2⟩
  | popInt w =>
    have hw : w ≤ 64 := hp
    simp only [Op.run, Op.spec, bits_length]
    by_cases hl : w ≤ v.len
    · rw [if_pos hl]
      by_cases h0 : w = 0
      · subst h0; simp [popInt_zero, h, List.take_of_length_le, bits_length]
      · have := popInt_spec h w (by omega) hw hl
        exact ⟨this.2.1, this.2.2⟩
    · rw [if_neg hl, popInt_short v w (by omega)]
      exact ⟨h, rfl⟩
  | complement => exact ⟨complement_WF h, bits_complement h⟩
  | clear => exact clear_spec v

/-- a history is valid when every operation is applied inside its domain -/
def Valid : List Op → List Bool → Prop
  | [], _ => True
  | op :: ops, L => op.pre L.length ∧ Valid ops (op.spec L)

/-- **Raw vectors behave as plain bit sequences under any operation history**: starting from any
well-formed vector, after any valid history the representation is well formed and its content is the
result of running the list-level specification on the initial content. -/
theorem history {v : RawVec} (h : v.WF) (ops : List Op) (hv : Valid ops v.bits) :
    (ops.foldl (fun v op => op.run v) v).WF ∧
      (ops.foldl (fun v op => op.run v) v).bits = ops.foldl (fun L op => op.spec L) v.bits := by
  induction ops generalizing v with
  | nil => exact ⟨h, rfl⟩
  | cons op ops ih =>
    obtain ⟨hp, hrest⟩ := hv
    rw [bits_length] at hp
    obtain ⟨h1, h2⟩ := op.step h hp
    rw [← h2] at hrest
    have := ih h1 hrest
    rw [h2] at this
    exact this

/-- two valid histories with the same list-level result produce identical representations
(same length, same words), hence equal `PartialEq`, serialisation and `count_ones`. -/
theorem history_canonical (ops1 ops2 : List Op) (h1 : Valid ops1 []) (h2 : Valid ops2 [])
    (he : ops1.foldl (fun L op => op.spec L) [] = ops2.foldl (fun L op => op.spec L) []) :
    ops1.foldl (fun v op => op.run v) empty = ops2.foldl (fun v op => op.run v) empty := by
  have hb : empty.bits = [] := rfl
  have r1 := history empty_WF ops1 (by rw [hb]; exact h1)
  have r2 := history empty_WF ops2 (by rw [hb]; exact h2)
  apply canonical r1.1 r2.1
  rw [r1.2, r2.2, hb, he]

end RawVec

end Sds
