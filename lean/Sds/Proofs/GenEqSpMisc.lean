/-
Proofs/GenEqSpMisc: `SparseBuilder::{set, extend}`, `SparseVector::{is_multiset, try_from_iter}` of sparse_vector.rs, as
TRANSLATED from the source (Generated/FnsSpMisc.lean, FnsSpMisc2.lean), are equal to the hand-written model.

* `spb_set_eq' : gen_SparseBuilder_set m b i = unwrapRes (gen_SparseBuilder_try_set m b i)` (no hypothesis);
  `spb_set_eq : … = unwrapRes (b.trySet i)` under the hypotheses of `spb_try_set_eq`; `spb_set_eq_of_inv` on a
  reachable builder (`SbInv` + representation bounds, no condition on the index).
* `spb_extend_eq' : gen_SparseBuilder_extend m b iter = iter.foldlM (gen_SparseBuilder_set m) b` (no hypothesis);
  `spb_extend_eq : … = iter.foldlM (fun b i => unwrapRes (b.trySet i)) b` under `SbBounds b` (`SbInv b`,
  `univ + increment ≤ 2^64`, `low.len * width < 2^64`, `high.len < 2^64`; preserved by `try_set`: `SbBounds.trySet`);
  `spb_extend_eq_of`: any invariant under which the `set` equation holds.  Sharp: `spb_extend_ne` (unreachable state).
* `sp_is_multiset_eq : gen_SparseVector_is_multiset m items s = ok (isMultisetList s.len (items.map (·.2)))` (no
  hypothesis), with `isMultisetList_iff : isMultisetList n l = true ↔ l.head? = some n ∨ ∃ i, l[i]? = l[i+1]? ∧
  i + 1 < l.length`.
* `sp_try_from_iter_eq : gen_SparseVector_try_from_iter m fw vals =
  Sparse.ofValues (spWidth fw U vals.length) U true vals` with `U = tfiUniv vals` (last item + 1, 0 for no items), under
  `1 ≤ fw ≤ 64`, `U < 2^64` (`pos + 1` in `usize`), and the two bounds of `spb_multiset_eq` (length of `high` and bit
  length of `low`).  The code sets all items but the last, then `universe - 1`: the same sequence as `vals`.  The
  `try_set` hypotheses at every step and the bound of `try_from` follow from the invariant of the constructed builder.
  Sharp: `sp_try_from_iter_ne_univ`, `sp_try_from_iter_ne_width0`; neither is a divergence of the real code.
-/
import Sds.Generated.FnsSpMisc
import Sds.Generated.FnsSpMisc2
import Sds.Proofs.GenEqConstr3
import Sds.Proofs.GenEqLoop4
import Sds.Proofs.Builders

namespace Sds.GenEq
open Sds Outcome Generated

/-! ### vocabulary: `for x in iter` over the list of the items -/

private theorem loopM_succ_misc {σ ρ : Type} (n : Nat) (step : σ → Outcome (Ctl σ ρ)) (s : σ) :
    loopM (n + 1) step s = (step s).bind (fun c => match c with | .next s' => loopM n step s' | r => ok r) := rfl

theorem range_map_getD {α : Type} (l : List α) (d : α) :
    (List.range l.length).map (fun i => l.getD i d) = l := by
  apply List.ext_getElem
  · simp
  · intro i h1 h2
    simp at h1
    simp [h1]

/-- reading the items by index is folding over the items -/
theorem foldlM_range_getD {α σ : Type} (l : List α) (d : α) (f : σ → α → Outcome σ) (s : σ) :
    (List.range l.length).foldlM (fun s i => f s (l.getD i d)) s = l.foldlM f s := by
  conv => rhs; rw [← range_map_getD l d]
  rw [List.foldlM_map]

/-- a fold over an embedded state space, with an invariant of the source states -/
theorem foldlM_transport {σ τ α : Type} (P : τ → Prop) (emb : τ → σ) (F : σ → α → Outcome σ)
    (g : τ → α → Outcome τ)
    (h : ∀ b x, P b → F (emb b) x = (g b x).bind (fun b' => ok (emb b')))
    (hp : ∀ b x b', P b → g b x = ok b' → P b') :
    ∀ (l : List α) (b : τ), P b → l.foldlM F (emb b) = (l.foldlM g b).bind (fun b' => ok (emb b')) := by
  intro l
  induction l with
  | nil => intro b _; rfl
  | cons x t ih =>
    intro b hb
    rw [List.foldlM_cons, List.foldlM_cons, h b x hb]
    simp only [Bind.bind]
    cases hg : g b x with
    | fault f => rfl
    | ok b' => exact ih b' (hp b x b' hb hg)

theorem foldlM_inv {τ α : Type} (P : τ → Prop) (g : τ → α → Outcome τ)
    (hp : ∀ b x b', P b → g b x = ok b' → P b') :
    ∀ (l : List α) (b b' : τ), P b → l.foldlM g b = ok b' → P b' := by
  intro l
  induction l with
  | nil => intro b b' hb h; cases h; exact hb
  | cons x t ih =>
    intro b b' hb h
    rw [List.foldlM_cons] at h
    simp only [Bind.bind] at h
    cases hg : g b x with
    | fault f => rw [hg] at h; cases h
    | ok b1 => rw [hg] at h; exact ih b1 b' (hp b x b1 hb hg) h

/-! ### `SparseBuilder::set` -/

private theorem spb_eta (b : SparseBuilder) :
    (⟨b.univ, b.low, b.high, b.len, b.next, b.increment⟩ : SparseBuilder) = b := by cases b; rfl

/-- `set` is `try_set(index).unwrap()` (no hypothesis) -/
theorem spb_set_eq' (m : Mode) (b : SparseBuilder) (index : Nat) :
    gen_SparseBuilder_set m b index = unwrapRes (gen_SparseBuilder_try_set m b index) := by
  unfold gen_SparseBuilder_set
  simp only [spb_eta, Bind.bind, Pure.pure]
  cases unwrapRes (gen_SparseBuilder_try_set m b index) with
  | fault f => rfl
  | ok b' => cases b'; rfl

/-- `set` against the model, under the hypotheses of `spb_try_set_eq` -/
theorem spb_set_eq (m : Mode) (b : SparseBuilder) (index : Nat)
    (hwf : b.low.WF) (hb : b.low.len * b.low.width < U64)
    (hh : index >>> b.low.width + b.len < U64) (hu : b.univ + b.increment ≤ U64)
    (hord : b.len ≤ b.low.len ∨ (index >>> b.low.width + b.len) / 64 < b.high.data.size) :
    gen_SparseBuilder_set m b index = unwrapRes (b.trySet index) := by
  rw [spb_set_eq', spb_try_set_eq m b index hwf hb hh hu hord]

/-- `set` on reachable builder states: no condition on the index -/
theorem spb_set_eq_of_inv (m : Mode) (b : SparseBuilder) (index : Nat) (h : BuildersProofs.SbInv b)
    (hu : b.univ + b.increment ≤ U64) (hb : b.low.len * b.low.width < U64) (hhl : b.high.len < U64) :
    gen_SparseBuilder_set m b index = unwrapRes (b.trySet index) := by
  rw [spb_set_eq', spb_try_set_eq_of_inv m b index h hu hb hhl]

/-! ### `SparseBuilder::extend` -/

/-- the representation bounds of a reachable builder: everything `try_set` / `set` need, preserved by both -/
structure SbBounds (b : SparseBuilder) : Prop where
  inv : BuildersProofs.SbInv b
  univ_ok : b.univ + b.increment ≤ U64
  low_ok : b.low.len * b.low.width < U64
  high_ok : b.high.len < U64

theorem SbBounds.trySet {b b' : SparseBuilder} {i : Nat} (h : SbBounds b) (hs : b.trySet i = ok b') :
    SbBounds b' := by
  rcases BuildersProofs.trySet_cases h.inv i with ⟨hr, _⟩ | ⟨b2, hb2, _, _, _, hc, hu, hi, hw, hinv⟩
  · rw [hr] at hs; cases hs
  · rw [hb2] at hs; cases hs
    have h1 := h.univ_ok
    have h2 := h.low_ok
    have h3 := h.high_ok
    have h4 := h.inv.high_len
    have h5 := hinv.high_len
    simp only [SparseBuilder.capacity] at hc h4 h5
    refine ⟨hinv, by rw [hu, hi]; exact h1, by rw [hc, hw]; exact h2, ?_⟩
    rw [h5, hc, hu, hw, ← h4]; exact h3

theorem unwrapRes_ok {α : Type} {x : Outcome α} {a : α} (h : unwrapRes x = ok a) : x = ok a := by
  cases x with
  | ok a' => exact h
  | fault f => cases f <;> cases h

theorem SbBounds.set {b b' : SparseBuilder} {i : Nat} (h : SbBounds b) (hs : unwrapRes (b.trySet i) = ok b') :
    SbBounds b' := h.trySet (unwrapRes_ok hs)

/-- the loop state of `extend`: the fields of `self` in the order of the translation -/
private def ofB (b : SparseBuilder) : RawVec × Nat × Nat × IntVec × Nat × Nat :=
  (b.high, b.increment, b.len, b.low, b.next, b.univ)

/-- `extend` is `set` on every item in order (no hypothesis) -/
theorem spb_extend_eq' (m : Mode) (b : SparseBuilder) (iter : List Nat) :
    gen_SparseBuilder_extend m b iter = iter.foldlM (fun b i => gen_SparseBuilder_set m b i) b := by
  unfold gen_SparseBuilder_extend
  simp only [Bind.bind]
  rw [for_loop_range (ρ := SparseBuilder) iter.length
      (fun (s : RawVec × Nat × Nat × IntVec × Nat × Nat) i =>
        (gen_SparseBuilder_set m ⟨s.2.2.2.2.2, s.2.2.2.1, s.1, s.2.2.1, s.2.2.2.2.1, s.2.1⟩ (iter.getD i 0)).bind
          (fun b' => ok (ofB b'))) _
      (fun i s hi => by
        obtain ⟨a1, a2, a3, a4, a5, a6⟩ := s
        simp only [hi, decide_true, if_true, Outcome.bind, Pure.pure]
        cases gen_SparseBuilder_set m ⟨a6, a4, a1, a3, a5, a2⟩ (iter.getD i 0) <;> rfl)
      (fun i s hi => by
        obtain ⟨a1, a2, a3, a4, a5, a6⟩ := s
        simp only [hi, decide_false, Bool.false_eq_true, if_false]; rfl)]
  rw [foldlM_range_getD iter 0
    (fun (s : RawVec × Nat × Nat × IntVec × Nat × Nat) x =>
        (gen_SparseBuilder_set m ⟨s.2.2.2.2.2, s.2.2.2.1, s.1, s.2.2.1, s.2.2.2.2.1, s.2.1⟩ x).bind
          (fun b' => ok (ofB b')))]
  have := foldlM_transport (fun _ => True) ofB
    (fun (s : RawVec × Nat × Nat × IntVec × Nat × Nat) x =>
        (gen_SparseBuilder_set m ⟨s.2.2.2.2.2, s.2.2.2.1, s.1, s.2.2.1, s.2.2.2.2.1, s.2.1⟩ x).bind
          (fun b' => ok (ofB b')))
    (fun b i => gen_SparseBuilder_set m b i)
    (fun b x _ => by simp only [ofB, spb_eta]) (fun _ _ _ _ _ => trivial) iter b trivial
  show Outcome.bind (Outcome.bind (List.foldlM _ (ofB b) iter) _) _ = _
  rw [this]
  cases List.foldlM (fun b i => gen_SparseBuilder_set m b i) b iter with
  | fault f => rfl
  | ok b' => cases b'; rfl

/-- `extend` against the model on a reachable builder: `try_set(..).unwrap()` on every item in order; the first
rejected item is the panic of both sides -/
theorem spb_extend_eq (m : Mode) (b : SparseBuilder) (iter : List Nat) (h : SbBounds b) :
    gen_SparseBuilder_extend m b iter = iter.foldlM (fun b i => unwrapRes (b.trySet i)) b := by
  rw [spb_extend_eq']
  have := foldlM_transport SbBounds id (fun b i => gen_SparseBuilder_set m b i)
    (fun b i => unwrapRes (b.trySet i))
    (fun b x hb => by
      rw [id, spb_set_eq_of_inv m b x hb.inv hb.univ_ok hb.low_ok hb.high_ok]
      cases unwrapRes (b.trySet x) <;> rfl)
    (fun b x b' hb hs => hb.set hs) iter b h
  simp only [id] at this
  rw [this]
  cases List.foldlM (fun b i => unwrapRes (b.trySet i)) b iter <;> rfl

/-- `extend` under any invariant that gives the `set` equation and is preserved by an accepted `set` -/
theorem spb_extend_eq_of (m : Mode) (P : SparseBuilder → Prop) (b : SparseBuilder) (iter : List Nat)
    (h : ∀ b i, P b → gen_SparseBuilder_set m b i = unwrapRes (b.trySet i))
    (hp : ∀ b i b', P b → b.trySet i = ok b' → P b') (hb : P b) :
    gen_SparseBuilder_extend m b iter = iter.foldlM (fun b i => unwrapRes (b.trySet i)) b := by
  rw [spb_extend_eq']
  have := foldlM_transport P id (fun b i => gen_SparseBuilder_set m b i)
    (fun b i => unwrapRes (b.trySet i))
    (fun b x hb => by
      rw [id, h b x hb]
      cases unwrapRes (b.trySet x) <;> rfl)
    (fun b x b' hb hs => hp b x b' hb (unwrapRes_ok hs)) iter b hb
  simp only [id] at this
  rw [this]
  cases List.foldlM (fun b i => unwrapRes (b.trySet i)) b iter <;> rfl

/-! ### `SparseVector::is_multiset` -/

/-- `prev` threaded through the positions: some position equals its predecessor (`n` before the first) -/
def isMultisetList : Nat → List Nat → Bool
  | _, [] => false
  | prev, v :: t => if v = prev then true else isMultisetList v t

private theorem is_multiset_loop (items : List (Nat × Nat))
    (step : Nat × Nat → Outcome (Ctl (Nat × Nat) Bool)) (F : Ctl (Nat × Nat) Bool → Outcome Bool)
    (h1 : ∀ i prev, i < items.length → step (i, prev) =
      if (items.getD i (0, 0)).2 = prev then ok (Ctl.ret true) else ok (Ctl.next (i + 1, (items.getD i (0, 0)).2)))
    (h2 : ∀ i prev, ¬ i < items.length → step (i, prev) = ok (Ctl.brk (i, prev)))
    (hF1 : ∀ b, F (.ret b) = ok b) (hF2 : ∀ s, F (.brk s) = ok false) :
    ∀ k i prev, i + k = items.length →
      (loopM (k + 1) step (i, prev)).bind F = ok (isMultisetList prev ((items.drop i).map (·.2))) := by
  intro k
  induction k with
  | zero =>
    intro i prev hi
    rw [loopM_succ_misc, h2 i prev (by omega), List.drop_of_length_le (by omega)]
    exact hF2 _
  | succ k ih =>
    intro i prev hi
    have hlt : i < items.length := by omega
    have hd : items.drop i = items.getD i (0, 0) :: items.drop (i + 1) := by
      rw [List.drop_eq_getElem_cons hlt]
      simp [hlt]
    rw [loopM_succ_misc, h1 i prev hlt, hd, List.map_cons]
    by_cases hv : (items.getD i (0, 0)).2 = prev
    · rw [if_pos hv]
      simp only [isMultisetList, hv, if_true]
      exact hF1 _
    · rw [if_neg hv]
      simp only [isMultisetList, hv, if_false]
      exact ih (i + 1) (items.getD i (0, 0)).2 (by omega)

/-- `is_multiset`: the one-iterator is the list `items` of its (rank, position) pairs; no hypothesis -/
theorem sp_is_multiset_eq (m : Mode) (items : List (Nat × Nat)) (s : Sparse) :
    gen_SparseVector_is_multiset m items s = ok (isMultisetList s.len (items.map (·.2))) := by
  unfold gen_SparseVector_is_multiset
  simp only [Bind.bind, Nat.sub_zero]
  rw [is_multiset_loop items _ _
    (fun i prev hi => by
      simp only [hi, decide_true, if_true]
      by_cases hv : (items.getD i (0, 0)).2 = prev
      · simp only [hv, decide_true, if_true]; rfl
      · simp only [hv, decide_false, Bool.false_eq_true, if_false]; rfl)
    (fun i prev hi => by simp only [hi, decide_false, Bool.false_eq_true, if_false]; rfl)
    (fun b => rfl) (fun s => rfl) items.length 0 s.len (by omega), List.drop_zero]

/-- the characterisation: the first position is `n`, or two adjacent positions are equal -/
theorem isMultisetList_iff (n : Nat) (l : List Nat) :
    isMultisetList n l = true ↔ (l.head? = some n ∨ ∃ i, l[i]? = l[i + 1]? ∧ i + 1 < l.length) := by
  induction l generalizing n with
  | nil => simp [isMultisetList]
  | cons v t ih =>
    unfold isMultisetList
    constructor
    · intro h
      by_cases hv : v = n
      · exact Or.inl (by simp [hv])
      · rw [if_neg hv] at h
        rcases (ih v).mp h with h0 | ⟨i, hi, hl⟩
        · refine Or.inr ⟨0, ?_, ?_⟩
          · cases t with
            | nil => cases h0
            | cons a t' => simpa using h0.symm
          · cases t with
            | nil => cases h0
            | cons a t' => simp
        · exact Or.inr ⟨i + 1, by simpa using hi, by simp; omega⟩
    · intro h
      by_cases hv : v = n
      · rw [if_pos hv]
      · rw [if_neg hv]
        rcases h with h | ⟨i, hi, hl⟩
        · exact absurd (by simpa using h) hv
        · cases i with
          | zero =>
            refine (ih v).mpr (Or.inl ?_)
            cases t with
            | nil => simp at hl
            | cons a t' => simpa using hi.symm
          | succ i =>
            exact (ih v).mpr (Or.inr ⟨i, by simpa using hi, by simp at hl; omega⟩)

/-! ### `SparseVector::try_from_iter` -/

/-- the universe `try_from_iter` chooses: one past the last item (0 for no items) -/
def tfiUniv (vals : List Nat) : Nat := match vals.getLast? with | some p => p + 1 | none => 0

theorem spbrLift_spbR_misc (f : SparseBuilder → Outcome SparseBuilder) (b : SparseBuilder) :
    spbrLift f (spbR b) = (f b).bind (fun b' => ok (spbR b')) := by
  unfold spbrLift
  simp only [spbR_toModel, Bind.bind, Pure.pure]
  cases f b <;> rfl

private theorem obind_ok_misc {α β : Type} (a : α) (f : α → Outcome β) : (ok a).bind f = f a := rfl
private theorem obind_fault' {α β : Type} (e : Fault) (f : α → Outcome β) :
    (fault e : Outcome α).bind f = fault e := rfl

theorem tfiUniv_nil : tfiUniv [] = 0 := rfl

theorem tfiUniv_ne_nil {vals : List Nat} (h : vals ≠ []) : tfiUniv vals = vals.getLast h + 1 := by
  unfold tfiUniv; rw [List.getLast?_eq_some_getLast h]

/-- `try_set` does not change the length of `high` -/
theorem SbBounds.trySet_high_len {b b' : SparseBuilder} {i : Nat} (h : SbBounds b) (hs : b.trySet i = ok b') :
    b'.high.len = b.high.len := by
  rcases BuildersProofs.trySet_cases h.inv i with ⟨hr, _⟩ | ⟨b2, hb2, _, _, _, hc, hu, hi, hw, hinv⟩
  · rw [hr] at hs; cases hs
  · rw [hb2] at hs; cases hs
    have h4 := h.inv.high_len
    have h5 := hinv.high_len
    simp only [SparseBuilder.capacity] at hc h4 h5
    rw [h5, hc, hu, hw, ← h4]

/-- the invariant of the builder of `try_from_iter`: reachable, and `bits_to_words(high.len())` does not overflow -/
private def TfiInv (b : SparseBuilder) : Prop := SbBounds b ∧ b.high.len + 63 < U64

private theorem TfiInv.trySet {b b' : SparseBuilder} {i : Nat} (h : TfiInv b) (hs : b.trySet i = ok b') :
    TfiInv b' := ⟨h.1.trySet hs, by rw [h.1.trySet_high_len hs]; exact h.2⟩

private theorem TfiInv.high_words {b : SparseBuilder} (h : TfiInv b) : 64 * b.high.data.size < U64 := by
  have h1 := h.1.inv.high_wf.1
  have h2 := h.2
  omega

theorem sp_try_from_iter_eq (m : Mode) (fw : Nat) (vals : List Nat) (hfw1 : 1 ≤ fw) (hfw2 : fw ≤ 64)
    (hu : tfiUniv vals < U64)
    (hh : vals.length + Sparse.getBuckets (tfiUniv vals) (spWidth fw (tfiUniv vals) vals.length) + 63 < U64)
    (hl : vals.length * spWidth fw (tfiUniv vals) vals.length + 63 < U64) :
    gen_SparseVector_try_from_iter m fw vals =
      Sparse.ofValues (spWidth fw (tfiUniv vals) vals.length) (tfiUniv vals) true vals := by
  unfold gen_SparseVector_try_from_iter
  simp only [Bind.bind, Pure.pure]
  refine Eq.trans (congrArg (fun x => Outcome.bind x _) (?_ : _ = ok (tfiUniv vals))) ?_
  · have hu' := hu
    unfold tfiUniv at hu' ⊢
    revert hu'
    cases vals.getLast? with
    | none => intro _; rfl
    | some p => intro hu'; exact addM_ok hu'
  simp only [obind_ok_misc]
  generalize hU : tfiUniv vals = U at *
  generalize hw : spWidth fw U vals.length = w at *
  have hw1 : 1 ≤ w := hw ▸ spWidth_pos hfw1
  have hw2 : w ≤ 64 := hw ▸ spWidth_le hfw2
  obtain ⟨b0, hb0, hinv, hcap, hun, hwd, hlen, hnext, hinc⟩ :=
    BuildersProofs.multiset_ok w U vals.length hw1 hw2 (Or.inr hu)
  have hB0 : TfiInv b0 := by
    have := hinv.high_len
    simp only [SparseBuilder.capacity] at hcap this
    refine ⟨⟨hinv, by rw [hun, hinc]; omega, by rw [hcap, hwd]; omega, ?_⟩, ?_⟩ <;>
      (rw [this, hcap, hun, hwd]; omega)
  rw [spb_multiset_eq m fw U vals.length hfw1 hfw2 hu (by rw [hw]; exact hh) (by rw [hw]; exact hl), hw, hb0]
  simp only [obind_ok_misc]
  rw [for_loop_range (ρ := Sparse) vals.dropLast.length
      (fun (s : SparseBuilderR) i => spbrLift (fun b => gen_SparseBuilder_try_set m b (vals.dropLast.getD i 0)) s) _
      (fun i s hi => by simp only [hi, decide_true, if_true])
      (fun i s hi => by simp only [hi, decide_false, Bool.false_eq_true, if_false])]
  rw [foldlM_range_getD vals.dropLast 0
      (fun (s : SparseBuilderR) x => spbrLift (fun b => gen_SparseBuilder_try_set m b x) s)]
  rw [foldlM_transport TfiInv spbR
      (fun (s : SparseBuilderR) x => spbrLift (fun b => gen_SparseBuilder_try_set m b x) s)
      (fun b x => b.trySet x)
      (fun b x hb => by
        simp only [spbrLift_spbR_misc, spb_try_set_eq_of_inv m b x hb.1.inv hb.1.univ_ok hb.1.low_ok hb.1.high_ok])
      (fun b x b' hb hs => hb.trySet hs) vals.dropLast b0 hB0]
  unfold Sparse.ofValues
  simp only [if_true, hb0, Bind.bind, obind_ok_misc]
  cases hf : List.foldlM (fun b x => b.trySet x) b0 vals.dropLast with
  | fault f =>
    simp only [obind_fault']
    by_cases hv : vals = []
    · subst hv; cases hf
    · rw [← List.dropLast_concat_getLast hv, foldlM_append_outcome, hf]; rfl
  | ok b1 =>
    have hB1 : TfiInv b1 := foldlM_inv TfiInv (fun b x => b.trySet x) (fun b x b' hb hs => hb.trySet hs)
      vals.dropLast b0 b1 hB0 hf
    simp only [obind_ok_misc]
    by_cases hv : vals = []
    · subst hv
      cases hf
      rw [tfiUniv_nil] at hU
      subst hU
      simp only [Nat.lt_irrefl, gt_iff_lt, decide_false, Bool.false_eq_true, if_false, obind_ok_misc,
        List.foldlM_nil, Pure.pure]
      exact sparse_try_from_eq m (spbR b0) hB0.high_words
    · have hU' := tfiUniv_ne_nil hv
      rw [hU] at hU'
      have hpos : U > 0 := by omega
      have hsub : subM m U 1 = ok (vals.getLast hv) := by rw [subM_ok (by omega)]; congr 1; omega
      conv => rhs; rw [← List.dropLast_concat_getLast hv, foldlM_append_outcome, hf]
      simp only [hpos, decide_true, if_true, hsub, obind_ok_misc, spbrLift_spbR_misc,
        spb_try_set_eq_of_inv m b1 _ hB1.1.inv hB1.1.univ_ok hB1.1.low_ok hB1.1.high_ok]
      show _ = ((b1.trySet (vals.getLast hv)).bind fun b' => ok b').bind fun b => b.build
      cases ht : b1.trySet (vals.getLast hv) with
      | fault f => rfl
      | ok b2 =>
        simp only [obind_ok_misc]
        exact sparse_try_from_eq m (spbR b2) (hB1.trySet ht).high_words

/-! ### sharpness and examples -/

/-- `SbBounds` (reachability) is needed for `spb_set_eq_of_inv` / `spb_extend_eq`: on an unreachable state
(`len > capacity`, `high` too short) `try_set` is not rejected and `set_unchecked` panics with different kinds (the code
writes the high bit first: word index; the model checks the low index first: assertion of `IntVector::set`).  Not a
divergence on builders made by the constructors. -/
theorem spb_extend_ne :
    let b : SparseBuilder := ⟨10, ⟨0, 1, RawVec.empty⟩, ⟨0, #[]⟩, 1, 0, 1⟩
    gen_SparseBuilder_extend .checked b [0] = fault (.panic .index) ∧
    gen_SparseBuilder_set .checked b 0 = fault (.panic .index) ∧
    [0].foldlM (fun b i => unwrapRes (b.trySet i)) b = fault (.panic .assert) := by
  decide

/-- `hu` of `sp_try_from_iter_eq`: with the last item `usize::MAX` the code computes `pos + 1` in `usize` (a panic with
overflow checks; universe 0 and then `Err` without), while the universe `2^64` of the model's right-hand side is not a
`usize`.  A boundary of the arithmetic, not a divergence: no `SparseVector` has universe `2^64`. -/
theorem sp_try_from_iter_ne_univ :
    gen_SparseVector_try_from_iter .checked 64 [U64 - 1] = fault (.panic .overflow) ∧
    gen_SparseVector_try_from_iter .wrapping 64 [U64 - 1] = fault (.err .other) ∧
    (Sparse.ofValues (spWidth 64 (tfiUniv [U64 - 1]) 1) (tfiUniv [U64 - 1]) true [U64 - 1]).isOk = true := by
  decide +kernel

/-- `hfw1`: as for `multiset`, the non-width `fw = 0` is a panic of the code (`with_len(..).unwrap()`) and an `Err` of
the model's constructor; the real `fw` is at least 1 -/
theorem sp_try_from_iter_ne_width0 :
    gen_SparseVector_try_from_iter .checked 0 [1, 3] = fault (.panic .unwrap) ∧
    Sparse.ofValues (spWidth 0 (tfiUniv [1, 3]) 2) (tfiUniv [1, 3]) true [1, 3] = fault (.err .other) := by
  decide +kernel

/-- the theorems are not vacuous: a multiset built from sorted items, no items, unsorted items (`Err` on both sides),
`extend` accepting and panicking, `is_multiset` on the pairs of a set and of a multiset -/
theorem sp_misc_examples :
    gen_SparseVector_try_from_iter .checked 2 [1, 3, 3, 7] = Sparse.ofValues 2 8 true [1, 3, 3, 7] ∧
    (Sparse.ofValues 2 8 true [1, 3, 3, 7]).isOk = true ∧
    gen_SparseVector_try_from_iter .checked 2 [] = Sparse.ofValues 1 0 true [] ∧
    (Sparse.ofValues 1 0 true []).isOk = true ∧
    gen_SparseVector_try_from_iter .checked 2 [3, 1, 7] = fault (.err .other) ∧
    Sparse.ofValues 2 8 true [3, 1, 7] = fault (.err .other) ∧
    (SparseBuilder.new 2 10 3).bind (fun b => gen_SparseBuilder_extend .checked b [1, 4, 9]) =
      (SparseBuilder.new 2 10 3).bind (fun b => [1, 4, 9].foldlM (fun b i => unwrapRes (b.trySet i)) b) ∧
    ((SparseBuilder.new 2 10 3).bind (fun b => gen_SparseBuilder_extend .checked b [1, 4, 9])).isOk = true ∧
    (SparseBuilder.new 2 10 3).bind (fun b => gen_SparseBuilder_extend .checked b [4, 1]) =
      fault (.panic .unwrap) ∧
    isMultisetList 8 [1, 3, 3, 7] = true ∧ isMultisetList 8 [1, 3, 7] = false ∧
    isMultisetList 0 [0, 3] = true := by
  decide +kernel

end Sds.GenEq
