/-
Proofs/GenEqBv: the methods of `bit_vector.rs` (`BitVector` and the `Transformation` impls `Identity` / `Complement`)
as TRANSLATED statement by statement from the source (Generated/FnsBv.lean) are equal to the hand-written model
definitions of Model/BitVector.lean that all other theorems are about.  The only hypothesis that is ever needed is the
one inherited from `rank_unchecked` (`hs`: every rank sample is at most `2^64 - 576`, so the two final additions do
not overflow); it is shown to be necessary by a concrete counterexample (`bv_rank_ne`).
-/
import Sds.Generated.FnsBv
import Sds.Proofs.GenFns
import Sds.Proofs.Tables
import Sds.Proofs.GenEqBits
import Sds.Proofs.GenEqVec
import Sds.Proofs.GenEqIdx

namespace Sds.GenEq
open Sds Outcome Generated

/-! ### helpers -/

theorem unwrapM_none {α} : unwrapM (none : Option α) = fault (.panic .unwrap) := rfl
theorem unwrapM_some {α} (a : α) : unwrapM (some a) = ok a := rfl

/-! ### plain accessors -/

theorem bv_len_eq (m : Mode) (b : BitVector) : gen_BitVector_len m b = ok b.len := rfl

theorem bv_count_ones_eq (m : Mode) (b : BitVector) : gen_BitVector_count_ones m b = ok b.countOnes := rfl

theorem bv_get_eq (m : Mode) (b : BitVector) (i : Nat) : gen_BitVector_get m b i = b.get i := by
  unfold gen_BitVector_get BitVector.get
  rw [raw_bit_eq]

theorem bv_iter_eq (m : Mode) (b : BitVector) : gen_BitVector_iter m b = ok ⟨0, b.len⟩ := rfl

theorem bv_one_iter_eq (m : Mode) (b : BitVector) : gen_BitVector_one_iter m b = ok (OneIterSt.full .ident b) := rfl

theorem bv_zero_iter_eq (m : Mode) (b : BitVector) : gen_BitVector_zero_iter m b = ok (OneIterSt.full .compl b) := rfl

/-! ### rank -/

/-- `rank`: only the sample of the block of `i` matters -/
theorem bv_rank_eq' (m : Mode) (b : BitVector) (i : Nat)
    (hs : ∀ s, b.rank = some s → ∀ h : i / 512 < s.samples.size, (s.samples[i / 512]).1.toNat + 575 < U64) :
    gen_BitVector_rank m b i = b.rankQ i := by
  unfold gen_BitVector_rank BitVector.rankQ
  by_cases hi : i ≥ b.len
  · simp [hi, Pure.pure]
  · cases hr : b.rank with
    | none => simp [hi, unwrapM_none, Bind.bind, Outcome.bind]
    | some s =>
      simp only [hi, decide_false, unwrapM_some, Bind.bind, Outcome.bind, Pure.pure, ite_false,
        Bool.false_eq_true]
      rw [rank_unchecked_eq' m s b.data i (hs s hr)]

theorem bv_rank_eq (m : Mode) (b : BitVector) (i : Nat)
    (hs : ∀ s, b.rank = some s → ∀ k (h : k < s.samples.size), (s.samples[k]).1.toNat + 575 < U64) :
    gen_BitVector_rank m b i = b.rankQ i :=
  bv_rank_eq' m b i (fun s hr h => hs s hr _ h)

/-- `hs` is necessary (inherited from `rank_unchecked`): the model adds in `Nat`, the code in `usize`.  With a sample
of `2^64 - 1` (never produced by `RankSupport::new` for a vector of length < 2^64) the code overflows and the model
returns `2^64`. -/
theorem bv_rank_ne :
    let b : BitVector := { ones := 1, data := ⟨64, #[1]⟩, rank := some ⟨#[(BitVec.ofNat 64 (2 ^ 64 - 1), 0)]⟩ }
    gen_BitVector_rank .checked b 1 = fault (.panic .overflow) ∧
    gen_BitVector_rank .wrapping b 1 = ok 0 ∧
    b.rankQ 1 = ok (2 ^ 64) := by
  decide

/-! ### select -/

theorem bv_selectT_ident (m : Mode) (b : BitVector) (r : Nat) :
    gen_BitVector_select m b r = b.selectT .ident m r := by
  unfold gen_BitVector_select BitVector.selectT
  simp only [BitVector.countT, BitVector.supT]
  by_cases hr : r ≥ b.countOnes
  · simp [hr, Pure.pure]
  · cases hsel : b.select with
    | none => simp [hr, unwrapM_none, Bind.bind, Outcome.bind]
    | some s =>
      simp only [hr, decide_false, unwrapM_some, Bind.bind, Outcome.bind, Pure.pure, ite_false,
        Bool.false_eq_true]

theorem bv_selectT_compl (m : Mode) (b : BitVector) (r : Nat) :
    gen_BitVector_select_zero m b r = b.selectT .compl m r := by
  unfold gen_BitVector_select_zero BitVector.selectT
  simp only [BitVector.countT, BitVector.supT]
  by_cases hr : r ≥ b.countZeros
  · simp [hr, Pure.pure]
  · cases hsel : b.selectZero with
    | none => simp [hr, unwrapM_none, Bind.bind, Outcome.bind]
    | some s =>
      simp only [hr, decide_false, unwrapM_some, Bind.bind, Outcome.bind, Pure.pure, ite_false,
        Bool.false_eq_true]

theorem bv_select_eq (m : Mode) (b : BitVector) (r : Nat) : gen_BitVector_select m b r = b.selectQ m r :=
  bv_selectT_ident m b r

theorem bv_select_zero_eq (m : Mode) (b : BitVector) (r : Nat) :
    gen_BitVector_select_zero m b r = b.selectZeroQ m r :=
  bv_selectT_compl m b r

theorem bv_select_iter_eq (m : Mode) (b : BitVector) (r : Nat) :
    gen_BitVector_select_iter m b r = b.selectIterT .ident m r := by
  unfold gen_BitVector_select_iter BitVector.selectIterT
  simp only [BitVector.countT, BitVector.supT]
  by_cases hr : r ≥ b.countOnes
  · simp [hr, Pure.pure]
  · cases hsel : b.select with
    | none => simp [hr, unwrapM_none, Bind.bind, Outcome.bind]
    | some s =>
      simp only [hr, decide_false, unwrapM_some, Bind.bind, Outcome.bind, Pure.pure, ite_false,
        Bool.false_eq_true]

theorem bv_select_zero_iter_eq (m : Mode) (b : BitVector) (r : Nat) :
    gen_BitVector_select_zero_iter m b r = b.selectIterT .compl m r := by
  unfold gen_BitVector_select_zero_iter BitVector.selectIterT
  simp only [BitVector.countT, BitVector.supT]
  by_cases hr : r ≥ b.countZeros
  · simp [hr, Pure.pure]
  · cases hsel : b.selectZero with
    | none => simp [hr, unwrapM_none, Bind.bind, Outcome.bind]
    | some s =>
      simp only [hr, decide_false, unwrapM_some, Bind.bind, Outcome.bind, Pure.pure, ite_false,
        Bool.false_eq_true]

/-! ### predecessor / successor -/

theorem bv_predecessor_eq' (m : Mode) (b : BitVector) (v : Nat)
    (hs : ∀ s, b.rank = some s → ∀ h : BitVector.satAdd v 1 / 512 < s.samples.size,
      (s.samples[BitVector.satAdd v 1 / 512]).1.toNat + 575 < U64) :
    gen_BitVector_predecessor m b v = b.predecessorQ m v := by
  unfold gen_BitVector_predecessor BitVector.predecessorQ
  rw [bv_rank_eq' m b _ hs]
  dsimp only
  cases b.rankQ (BitVector.satAdd v 1) with
  | fault f => rfl
  | ok rank =>
    simp only [Bind.bind, Outcome.bind, Pure.pure]
    by_cases h0 : rank = 0
    · simp [h0]
    · have hsub : subM m rank 1 = ok (rank - 1) := subM_ok (by omega)
      simp only [h0, decide_false, ite_false, Bool.false_eq_true, hsub, bv_select_iter_eq]

theorem bv_predecessor_eq (m : Mode) (b : BitVector) (v : Nat)
    (hs : ∀ s, b.rank = some s → ∀ k (h : k < s.samples.size), (s.samples[k]).1.toNat + 575 < U64) :
    gen_BitVector_predecessor m b v = b.predecessorQ m v :=
  bv_predecessor_eq' m b v (fun s hr h => hs s hr _ h)

theorem bv_successor_eq' (m : Mode) (b : BitVector) (v : Nat)
    (hs : ∀ s, b.rank = some s → ∀ h : v / 512 < s.samples.size, (s.samples[v / 512]).1.toNat + 575 < U64) :
    gen_BitVector_successor m b v = b.successorQ m v := by
  unfold gen_BitVector_successor BitVector.successorQ
  rw [bv_rank_eq' m b _ hs]
  cases b.rankQ v with
  | fault f => rfl
  | ok rank =>
    simp only [Bind.bind, Outcome.bind, Pure.pure]
    by_cases h0 : rank ≥ b.countOnes
    · simp [h0]
    · simp only [h0, decide_false, ite_false, Bool.false_eq_true, bv_select_iter_eq]

theorem bv_successor_eq (m : Mode) (b : BitVector) (v : Nat)
    (hs : ∀ s, b.rank = some s → ∀ k (h : k < s.samples.size), (s.samples[k]).1.toNat + 575 < U64) :
    gen_BitVector_successor m b v = b.successorQ m v :=
  bv_successor_eq' m b v (fun s hr h => hs s hr _ h)

/-! ### `Transformation` for `Identity` -/

theorem identity_bit_eq (m : Mode) (b : BitVector) (i : Nat) : gen_Identity_bit m b i = b.get i := by
  unfold gen_Identity_bit
  rw [bv_get_eq]

theorem identity_word_eq (m : Mode) (b : BitVector) (i : Nat) :
    gen_Identity_word m b i = wordSafeT .ident b.data i := by
  unfold gen_Identity_word wordSafeT
  rw [raw_word_eq]
  rfl

theorem identity_word_unchecked_eq (m : Mode) (b : BitVector) (i : Nat) :
    gen_Identity_word_unchecked m b i = wordT .ident b.data i := by
  unfold gen_Identity_word_unchecked wordT
  rw [raw_word_unchecked_eq]
  rfl

theorem identity_count_ones_eq (m : Mode) (b : BitVector) : gen_Identity_count_ones m b = ok b.countOnes := rfl

/-! ### `Transformation` for `Complement` -/

theorem complement_bit_eq (m : Mode) (b : BitVector) (i : Nat) :
    gen_Complement_bit m b i = (do let x ← b.get i; return !x) := by
  unfold gen_Complement_bit
  rw [bv_get_eq]

/-- `Complement::word_unchecked`.  No bound on `b.len` is needed: `split_offset` is a shift and a mask, and the
offset `len % 64` is always a valid index of the `LOW_SET` table. -/
theorem complement_word_unchecked_eq' (m : Mode) (b : BitVector) (i : Nat) :
    gen_Complement_word_unchecked m b i = wordT .compl b.data i := by
  unfold gen_Complement_word_unchecked wordT
  have ho : b.data.len % 64 ≤ 64 := by omega
  simp only [vsplit_eq, BitVector.len, raw_word_unchecked_eq, RawVec.wordU, low_set_unchecked_eq,
    lowSetU_eq _ ho, Bind.bind, Outcome.bind, Pure.pure]
  by_cases hi : i ≥ b.data.len / 64
  · simp only [hi, decide_true, ite_true]
  · simp only [hi, decide_false, ite_false, Bool.false_eq_true]

/-- `Complement::word` (the safe variant) -/
theorem complement_word_eq' (m : Mode) (b : BitVector) (i : Nat) :
    gen_Complement_word m b i = wordSafeT .compl b.data i := by
  unfold gen_Complement_word wordSafeT
  have ho : b.data.len % 64 ≤ 64 := by omega
  simp only [vsplit_eq, BitVector.len, raw_word_unchecked_eq, raw_word_eq, RawVec.wordU, RawVec.wordM,
    low_set_unchecked_eq, lowSetU_eq _ ho, Bind.bind, Outcome.bind, Pure.pure]
  by_cases hi : i ≥ b.data.len / 64
  · simp only [hi, decide_true, ite_true]
  · simp only [hi, decide_false, ite_false, Bool.false_eq_true]

/-- the forms with the representation bound `len < 2^64` in the signature (the bound is not used) -/
theorem complement_word_unchecked_eq (m : Mode) (b : BitVector) (i : Nat) (_ : b.len < U64) :
    gen_Complement_word_unchecked m b i = wordT .compl b.data i := complement_word_unchecked_eq' m b i

theorem complement_word_eq (m : Mode) (b : BitVector) (i : Nat) (_ : b.len < U64) :
    gen_Complement_word m b i = wordSafeT .compl b.data i := complement_word_eq' m b i

theorem complement_count_ones_eq (m : Mode) (b : BitVector) : gen_Complement_count_ones m b = ok b.countZeros := rfl

end Sds.GenEq

