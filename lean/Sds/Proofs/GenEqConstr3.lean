/-
Proofs/GenEqConstr3: the remaining constructors, as TRANSLATED from the source (Generated/FnsConstr3.lean), are equal to
the hand-written model definitions.

* `raw_new_eq : gen_RawVector_new m = ok RawVec.empty`.
* `raw_with_len_eq : gen_RawVector_with_len m len value = ok (RawVec.withLen len value)` under `len + 63 < U64`
  (`bits_to_words`; sharp: `raw_with_len_ne_len`).
* `bv_from_raw_eq : gen_BitVector_from_raw m v = ok (BitVector.ofRaw v)` under `64 * v.data.size < U64` (the bit counter of
  `count_ones`; `bv_from_raw_eq_of_size` from the exact word count and `len + 63 < U64`).
* `spb_get_params_eq` with `spWidth fw univ ones = if 0 < ones ∧ ones ≤ univ then fw else 1`, under `fw ≤ 64`,
  `univ < U64`, `ones + buckets < U64` (sharp: `spb_get_params_ne_fw`, `spb_get_params_ne_sum`).
* `spb_new_eq`, `spb_multiset_eq`: `gen … = (SparseBuilder.new/multiset (spWidth fw univ ones) univ ones).bind (ok ∘ spbR)`
  where `spbR b` is the Rust-layout builder of `b` (`(spbR b).toModel = b`, `(spbR b).data.high =
  BitVector.ofRaw RawVec.empty`), under `1 ≤ fw ≤ 64`, `univ < U64`, `ones + buckets + 63 < U64` (length of `high`),
  `ones * width + 63 < U64` (bit length of `low`).  `ones > universe` is the same `Err` on both sides for `new`; an
  overfull multiset gets width 1 on both sides.  `1 ≤ fw` is needed: `with_len(ones, 0, 0).unwrap()` PANICS while the
  model's constructor returns the `Err` of `IntVec.withLen` (`spb_new_ne_width0`, `spb_multiset_ne_width0`); the form
  valid for every `fw ≤ 64` is `spb_new_eq_any` / `spb_multiset_eq_any` (the model's `withLen` under `unwrapRes`).  The
  real `fw` is `ideal_width.max(1.0).round() ≥ 1`, so this is a totality artefact of the model, not a divergence.
* `sparse_try_from_eq : gen_SparseVector_try_from m b = b.toModel.build` under `64 * b.high.data.size < U64` (only used
  for a full builder: `sparse_try_from_eq'`).  A builder that is not full is `Err` on both sides.
-/
import Sds.Generated.FnsConstr3
import Sds.Proofs.GenFns
import Sds.Proofs.GenEqBits
import Sds.Proofs.GenEqVec
import Sds.Proofs.GenEqVec2
import Sds.Proofs.GenEqView
import Sds.Proofs.GenEqIdx
import Sds.Proofs.GenEqBuild
import Sds.Proofs.GenEqEnable
import Sds.Proofs.IntVec

namespace Sds.GenEq
open Sds Outcome Generated

theorem raw_new_eq (m : Mode) : gen_RawVector_new m = ok RawVec.empty := rfl

theorem raw_with_len_eq (m : Mode) (len : Nat) (value : Bool) (hl : len + 63 < U64) :
    gen_RawVector_with_len m len value = ok (RawVec.withLen len value) := by
  unfold gen_RawVector_with_len RawVec.withLen
  simp only [filler_value_eq, vbits_to_words_ok m len hl, Bind.bind, Outcome.bind]
  rw [raw_set_unused_bits_eq m _ false (by simp)]
  rfl

theorem bv_from_raw_eq (m : Mode) (v : RawVec) (h : 64 * v.data.size < U64) :
    gen_BitVector_from_raw m v = ok (BitVector.ofRaw v) := by
  unfold gen_BitVector_from_raw
  simp only [raw_count_ones_eq m v h, Bind.bind, Outcome.bind]
  rfl

theorem bv_from_raw_eq_of_size (m : Mode) (v : RawVec) (hs : v.data.size = (v.len + 63) / 64)
    (hl : v.len + 63 < U64) : gen_BitVector_from_raw m v = ok (BitVector.ofRaw v) :=
  bv_from_raw_eq m v (by omega)

/-- the low width the code chooses: the value `fw` of the f64 rule for `0 < ones ≤ universe`, else 1 -/
def spWidth (fw univ ones : Nat) : Nat := if 0 < ones ∧ ones ≤ univ then fw else 1

theorem spb_get_params_eq (m : Mode) (fw univ ones : Nat) (hfw : fw ≤ 64) (hu : univ < U64)
    (hb : ones + Sparse.getBuckets univ (spWidth fw univ ones) < U64) :
    gen_SparseBuilder_get_params m fw univ ones =
      ok (spWidth fw univ ones, ones + Sparse.getBuckets univ (spWidth fw univ ones)) := by
  unfold gen_SparseBuilder_get_params
  unfold spWidth at hb ⊢
  by_cases h : 0 < ones ∧ ones ≤ univ
  · rw [if_pos h] at hb ⊢
    simp only [h.1, h.2, decide_true, Bool.and_self, if_true, Bind.bind, Outcome.bind, Pure.pure,
      get_buckets_eq m univ fw hfw hu, addM_ok hb]
  · rw [if_neg h] at hb ⊢
    have h' : (decide (ones > 0) && decide (ones ≤ univ)) = false := by
      simp only [gt_iff_lt, Bool.and_eq_false_imp, decide_eq_true_eq, decide_eq_false_iff_not]
      intro h1 h2; exact h ⟨h1, h2⟩
    simp only [h', Bool.false_eq_true, if_false, Bind.bind, Outcome.bind, Pure.pure,
      get_buckets_eq m univ 1 (by decide) hu, addM_ok hb]

theorem spWidth_le {fw univ ones : Nat} (h : fw ≤ 64) : spWidth fw univ ones ≤ 64 := by
  unfold spWidth; split <;> omega

theorem spWidth_pos {fw univ ones : Nat} (h : 1 ≤ fw) : 1 ≤ spWidth fw univ ones := by
  unfold spWidth; split <;> omega

/-- the Rust-layout builder of a model builder: `data.high` is the bitvector of an empty raw vector until `try_from` -/
def spbR (b : SparseBuilder) : SparseBuilderR :=
  ⟨⟨b.univ, BitVector.ofRaw RawVec.empty, b.low⟩, b.high, b.len, b.next, b.increment⟩

theorem spbR_toModel (b : SparseBuilder) : (spbR b).toModel = b := rfl
theorem spbR_high (b : SparseBuilder) : (spbR b).data.high = BitVector.ofRaw RawVec.empty := rfl

/-- the part shared by `new` and `multiset` (after the `ones > universe` test of `new`): the parameters, then
`with_len(..).unwrap()`, then the rest, which cannot fail -/
theorem spb_common_eq (m : Mode) (fw univ ones inc : Nat) (hfw2 : fw ≤ 64)
    (hu : univ < U64) (hh : ones + Sparse.getBuckets univ (spWidth fw univ ones) + 63 < U64) :
    (do
      let t1 ← gen_SparseBuilder_get_params m fw univ ones
      let (width, high_len) := t1
      let t2 ← unwrapRes (gen_IntVector_with_len m ones width (0 : Word))
      let low := t2
      let t3 ← gen_RawVector_new m
      let t4 ← gen_BitVector_from_raw m t3
      let data := (⟨univ, t4, low⟩ : Sparse)
      let t5 ← gen_RawVector_with_len m high_len false
      let high := t5
      return (⟨data, high, 0, 0, inc⟩ : SparseBuilderR)) =
    (unwrapRes (gen_IntVector_with_len m ones (spWidth fw univ ones) (0 : Word))).bind (fun low =>
      ok (spbR ⟨univ, low, RawVec.withLen (ones + Sparse.getBuckets univ (spWidth fw univ ones)) false, 0, 0, inc⟩)) := by
  simp only [spb_get_params_eq m fw univ ones hfw2 hu (by omega), raw_new_eq,
    bv_from_raw_eq m RawVec.empty (by decide), raw_with_len_eq m _ false hh, Bind.bind, Outcome.bind, Pure.pure]
  cases unwrapRes (gen_IntVector_with_len m ones (spWidth fw univ ones) (0 : Word)) <;> rfl

/-- `SparseBuilder::multiset`: the translated constructor is the model's (for the width the code chooses: `fw` for
`0 < ones ≤ universe`, 1 for an empty or overfull multiset), in the Rust layout.  `hfw1`, `hfw2`: the value of the f64
rule is a width (`max(1.0)`; `universe < 2^64`).  `hh`: the length of `high` (`ones + buckets` in `usize`, then
`bits_to_words`).  `hl`: the bit length of `low` (`with_capacity(len * width)`, `words_to_bits`). -/
theorem spb_multiset_eq (m : Mode) (fw univ ones : Nat) (hfw1 : 1 ≤ fw) (hfw2 : fw ≤ 64) (hu : univ < U64)
    (hh : ones + Sparse.getBuckets univ (spWidth fw univ ones) + 63 < U64)
    (hl : ones * spWidth fw univ ones + 63 < U64) :
    gen_SparseBuilder_multiset m fw univ ones =
      (SparseBuilder.multiset (spWidth fw univ ones) univ ones).bind (fun b => ok (spbR b)) := by
  unfold gen_SparseBuilder_multiset SparseBuilder.multiset
  rw [spb_common_eq m fw univ ones 0 hfw2 hu hh, int_with_len_eq' m _ _ _ hl,
    IntVec.withLen_eq _ _ _ (spWidth_pos hfw1) (spWidth_le hfw2)]
  rfl

/-- `SparseBuilder::new`: same, after the `ones > universe` test (the same error on both sides) -/
theorem spb_new_eq (m : Mode) (fw univ ones : Nat) (hfw1 : 1 ≤ fw) (hfw2 : fw ≤ 64) (hu : univ < U64)
    (hh : ones + Sparse.getBuckets univ (spWidth fw univ ones) + 63 < U64)
    (hl : ones * spWidth fw univ ones + 63 < U64) :
    gen_SparseBuilder_new m fw univ ones =
      (SparseBuilder.new (spWidth fw univ ones) univ ones).bind (fun b => ok (spbR b)) := by
  unfold gen_SparseBuilder_new SparseBuilder.new
  by_cases h : ones > univ
  · simp only [h, decide_true, if_true]; rfl
  · simp only [h, decide_false, Bool.false_eq_true, if_false]
    rw [spb_common_eq m fw univ ones 1 hfw2 hu hh, int_with_len_eq' m _ _ _ hl,
      IntVec.withLen_eq _ _ _ (spWidth_pos hfw1) (spWidth_le hfw2)]
    rfl

/-- the drafted existential shapes -/
theorem spb_new_ok (m : Mode) (fw univ ones : Nat) (hfw1 : 1 ≤ fw) (hfw2 : fw ≤ 64) (hu : univ < U64)
    (hh : ones + Sparse.getBuckets univ (spWidth fw univ ones) + 63 < U64)
    (hl : ones * spWidth fw univ ones + 63 < U64) (mb : SparseBuilder)
    (hm : SparseBuilder.new (spWidth fw univ ones) univ ones = ok mb) :
    ∃ b, gen_SparseBuilder_new m fw univ ones = ok b ∧ b.toModel = mb ∧
      b.data.high = BitVector.ofRaw RawVec.empty :=
  ⟨spbR mb, by rw [spb_new_eq m fw univ ones hfw1 hfw2 hu hh hl, hm]; rfl, rfl, rfl⟩

theorem spb_new_fault (m : Mode) (fw univ ones : Nat) (hfw1 : 1 ≤ fw) (hfw2 : fw ≤ 64) (hu : univ < U64)
    (hh : ones + Sparse.getBuckets univ (spWidth fw univ ones) + 63 < U64)
    (hl : ones * spWidth fw univ ones + 63 < U64) (e : Fault)
    (hm : SparseBuilder.new (spWidth fw univ ones) univ ones = fault e) :
    gen_SparseBuilder_new m fw univ ones = fault e := by
  rw [spb_new_eq m fw univ ones hfw1 hfw2 hu hh hl, hm]; rfl

theorem spb_multiset_ok (m : Mode) (fw univ ones : Nat) (hfw1 : 1 ≤ fw) (hfw2 : fw ≤ 64) (hu : univ < U64)
    (hh : ones + Sparse.getBuckets univ (spWidth fw univ ones) + 63 < U64)
    (hl : ones * spWidth fw univ ones + 63 < U64) :
    ∃ b mb, gen_SparseBuilder_multiset m fw univ ones = ok b ∧
      SparseBuilder.multiset (spWidth fw univ ones) univ ones = ok mb ∧ b.toModel = mb ∧
      b.data.high = BitVector.ofRaw RawVec.empty := by
  have e : SparseBuilder.multiset (spWidth fw univ ones) univ ones =
      ok ⟨univ, (List.range ones).foldl (fun u _ => u.push 0) ⟨0, spWidth fw univ ones, RawVec.empty⟩,
        RawVec.withLen (ones + Sparse.getBuckets univ (spWidth fw univ ones)) false, 0, 0, 0⟩ := by
    unfold SparseBuilder.multiset
    rw [IntVec.withLen_eq _ _ _ (spWidth_pos hfw1) (spWidth_le hfw2)]
    rfl
  exact ⟨spbR _, _, by rw [spb_multiset_eq m fw univ ones hfw1 hfw2 hu hh hl, e]; rfl, e, rfl, rfl⟩

/-- `TryFrom<SparseBuilder> for SparseVector`: a builder that is not full is the same error on both sides; otherwise
`BitVector::from(high)` counts the ones of `high` with a bit counter in `usize` (`h`) -/
theorem sparse_try_from_eq' (m : Mode) (b : SparseBuilderR)
    (h : b.len = b.data.low.len → 64 * b.high.data.size < U64) :
    gen_SparseVector_try_from m b = b.toModel.build := by
  unfold gen_SparseVector_try_from SparseBuilder.build
  simp only [spb_is_full_eq, Bind.bind, Outcome.bind]
  by_cases hf : b.toModel.isFull = true
  · have hf' : b.len = b.data.low.len := by
      simpa [SparseBuilder.isFull, SparseBuilder.capacity, SparseBuilderR.toModel] using hf
    simp only [hf, Bool.not_true, Bool.false_eq_true, if_false, bv_from_raw_eq m b.high (h hf'),
      enable_select_eq, enable_select_zero_eq, Pure.pure]
    rfl
  · simp only [Bool.not_eq_true] at hf
    simp only [hf, Bool.not_false, if_true]

theorem sparse_try_from_eq (m : Mode) (b : SparseBuilderR) (h : 64 * b.high.data.size < U64) :
    gen_SparseVector_try_from m b = b.toModel.build :=
  sparse_try_from_eq' m b (fun _ => h)

/-! ### the width handed to `with_len(..).unwrap()`: fault kinds -/

/-- `multiset` for every `fw ≤ 64`, including the non-width `fw = 0`: the code is the model's `with_len` UNWRAPPED
(an `Err` of `with_len` is a panic of the code and an `Err` of the model's `multiset`) -/
theorem spb_multiset_eq_any (m : Mode) (fw univ ones : Nat) (hfw2 : fw ≤ 64) (hu : univ < U64)
    (hh : ones + Sparse.getBuckets univ (spWidth fw univ ones) + 63 < U64)
    (hl : ones * spWidth fw univ ones + 63 < U64) :
    gen_SparseBuilder_multiset m fw univ ones =
      (unwrapRes (IntVec.withLen ones (spWidth fw univ ones) 0)).bind (fun low =>
        ok (spbR ⟨univ, low, RawVec.withLen (ones + Sparse.getBuckets univ (spWidth fw univ ones)) false, 0, 0, 0⟩)) := by
  unfold gen_SparseBuilder_multiset
  rw [spb_common_eq m fw univ ones 0 hfw2 hu hh, int_with_len_eq' m _ _ _ hl]

theorem spb_new_eq_any (m : Mode) (fw univ ones : Nat) (hfw2 : fw ≤ 64) (hu : univ < U64)
    (hh : ones + Sparse.getBuckets univ (spWidth fw univ ones) + 63 < U64)
    (hl : ones * spWidth fw univ ones + 63 < U64) :
    gen_SparseBuilder_new m fw univ ones =
      if ones > univ then fault (.err .other) else
      (unwrapRes (IntVec.withLen ones (spWidth fw univ ones) 0)).bind (fun low =>
        ok (spbR ⟨univ, low, RawVec.withLen (ones + Sparse.getBuckets univ (spWidth fw univ ones)) false, 0, 0, 1⟩)) := by
  unfold gen_SparseBuilder_new
  by_cases h : ones > univ
  · simp only [h, decide_true, if_true]
  · simp only [h, decide_false, Bool.false_eq_true, if_false]
    rw [spb_common_eq m fw univ ones 1 hfw2 hu hh, int_with_len_eq' m _ _ _ hl]

/-- `hfw1` is needed for the equations with the model's `new` / `multiset`: with the non-width `fw = 0` (and
`0 < ones ≤ universe`, so that `fw` is used) the code PANICS (`with_len(ones, 0, 0).unwrap()`) while the model's
constructor, which propagates the error of `IntVec.withLen`, returns `Err`.  Not a divergence of the real code: its
`fw` is `ideal_width.max(1.0).round() as usize ≥ 1`; the model is simply total in a width the code never computes. -/
theorem spb_new_ne_width0 :
    gen_SparseBuilder_new .checked 0 4 2 = fault (.panic .unwrap) ∧
    SparseBuilder.new (spWidth 0 4 2) 4 2 = fault (.err .other) := by decide

theorem spb_multiset_ne_width0 :
    gen_SparseBuilder_multiset .checked 0 4 2 = fault (.panic .unwrap) ∧
    SparseBuilder.multiset (spWidth 0 4 2) 4 2 = fault (.err .other) := by decide

/-! ### sharpness of the other hypotheses, and examples -/

/-- `hl` of `raw_with_len_eq`: `bits_to_words(len)` is `(len + 63) / 64` in `usize` -/
theorem raw_with_len_ne_len :
    gen_RawVector_with_len .checked (U64 - 63) false = fault (.panic .overflow) := by decide

/-- `hb` of `spb_get_params_eq`: `ones + buckets` is a `usize` sum; it overflows only from `ones ≥ 2^63` on -/
theorem spb_get_params_ne_sum :
    gen_SparseBuilder_get_params .checked 1 (U64 - 1) (U64 - 1) = fault (.panic .overflow) := by decide

/-- `hfw` of `spb_get_params_eq`: a width above 64 indexes the `low_set` table out of range (never computed by the
code: `universe < 2^64`) -/
theorem spb_get_params_ne_fw :
    gen_SparseBuilder_get_params .checked 65 4 2 = fault (.panic .index) := by decide

/-- the theorems are not vacuous: a set builder, `ones > universe` for `new` (an `Err`, not a panic, on both sides),
an overfull and an empty multiset (width 1), `try_from` of a builder that is not full (`Err` on both sides) and of a
full one -/
theorem spb_examples :
    gen_SparseBuilder_new .checked 2 10 3 = (SparseBuilder.new (spWidth 2 10 3) 10 3).bind (fun b => ok (spbR b)) ∧
    (SparseBuilder.new (spWidth 2 10 3) 10 3).isOk = true ∧
    gen_SparseBuilder_new .checked 2 3 10 = fault (.err .other) ∧
    SparseBuilder.new (spWidth 2 3 10) 3 10 = fault (.err .other) ∧
    gen_SparseBuilder_multiset .checked 2 3 10 =
      (SparseBuilder.multiset 1 3 10).bind (fun b => ok (spbR b)) ∧
    (SparseBuilder.multiset 1 3 10).isOk = true ∧
    gen_SparseBuilder_multiset .checked 2 3 0 = (SparseBuilder.multiset 1 3 0).bind (fun b => ok (spbR b)) ∧
    (SparseBuilder.multiset 1 3 0).isOk = true ∧
    gen_SparseVector_try_from .checked (spbR ⟨10, ⟨3, 2, ⟨6, #[0]⟩⟩, ⟨6, #[5]⟩, 2, 0, 1⟩) = fault (.err .other) ∧
    SparseBuilder.build ⟨10, ⟨3, 2, ⟨6, #[0]⟩⟩, ⟨6, #[5]⟩, 2, 0, 1⟩ = fault (.err .other) ∧
    gen_SparseVector_try_from .checked (spbR ⟨10, ⟨3, 2, ⟨6, #[0]⟩⟩, ⟨6, #[5]⟩, 3, 0, 1⟩) =
      SparseBuilder.build ⟨10, ⟨3, 2, ⟨6, #[0]⟩⟩, ⟨6, #[5]⟩, 3, 0, 1⟩ ∧
    (SparseBuilder.build ⟨10, ⟨3, 2, ⟨6, #[0]⟩⟩, ⟨6, #[5]⟩, 3, 0, 1⟩).isOk = true := by decide +kernel

end Sds.GenEq
