/-
Proofs/Glue2: glue lemmas between proof files, used by the property files C02, C15, C04, C06, C19.

* the per-level hypothesis of `Proofs/WM` (`LevelOk` of a plain bitvector built from a bit list with all
  supports enabled) is discharged from `Proofs/Rank`, `Proofs/Select`, `Proofs/Supports`, `Proofs/RawVec`;
* the `IntVector` round trip used for the `first` array of the wavelet matrix is discharged from
  `Proofs/IntVec`;
* hence `WM.ofValues V` satisfies `WM.Ok` unconditionally (`WM.ofValues_ok_full`);
* the width chosen by the wavelet-matrix builder is minimal; its last level is sorted by `reverse_bits`;
* `Sparse.ofValues … = ok s` determines `s`, so the encoding relation holds of *that* `s`;
  the shape of the built sparse vector (`ofValues_shape`);
* the codecs of the structures that embed plain bitvectors (`sparseC`, `wmCoreC`, `wmC`): loading a file in
  which the embedded bitvectors carry any subset of their supports returns exactly the built value
  (`sparse_load_any_supports`, `wmCore_load_any_supports`, `wm_load_any_supports`), and the round trips
  `wmCore_roundtrip`, `wm_roundtrip`;
* histories of `enable_*` calls on a plain bitvector (`enable_history_inv`).
-/
import Sds.Proofs.WM
import Sds.Proofs.Supports
import Sds.Proofs.Sparse2
import Sds.Proofs.IntVec

namespace Sds
open Outcome

/-! ### plain bitvector with all supports: the interface `LevelOk` -/

theorem count_false_eq (B : List Bool) : B.count false = B.length - B.count true := by
  induction B with
  | nil => rfl
  | cons b bs ih =>
    have := List.count_le_length (a := true) (l := bs)
    cases b <;> simp [ih] <;> omega

/-- `BitVector::from(raw)` of a bit list, with rank / select / select_zero enabled, answers every query by
the list-level specification (the hypothesis `hbv` of `ofValues_encodes` / `WM.ofValues_ok`) -/
theorem levelOk_ofBits (B : List Bool) (h : B.length < 2 ^ 63) :
    LevelOk (BitVector.ofRaw (RawVec.ofBits B)).enableAll B := by
  have hwf := RawVec.ofBits_WF B
  have hbits := RawVec.bits_ofBits B
  have hlen : (RawVec.ofBits B).len = B.length := by rw [← RawVec.bits_length, hbits]
  have hl63 : (RawVec.ofBits B).len < 2 ^ 63 := by omega
  have hs0 := SupportProofs.ofRaw_sound hwf hl63
  have hs := SupportProofs.enableSome_sound true true true hs0
  have hv := SupportProofs.enableSome_supValid true true true hs0 (SupportProofs.ofRaw_supValid _)
  have hp := SupportProofs.enableSome_present true true true (RawVec.ofBits B)
  have hall : (BitVector.ofRaw (RawVec.ofBits B)).enableAll =
      SupportProofs.enableSome true true true (BitVector.ofRaw (RawVec.ofBits B)) := rfl
  have hdata : (BitVector.ofRaw (RawVec.ofBits B)).enableAll.data = RawVec.ofBits B :=
    SupportProofs.enableAll_data _
  have hones : (BitVector.ofRaw (RawVec.ofBits B)).enableAll.ones = B.count true := by
    rw [SupportProofs.enableAll_ones]
    show (RawVec.ofBits B).countOnes = _
    rw [RawVec.countOnes_eq hwf, hbits]
  have hblen : (BitVector.ofRaw (RawVec.ofBits B)).enableAll.len = B.length := by
    rw [SupportProofs.enableAll_len]; exact hlen
  refine ⟨hblen, ?_, hones, ?_, ?_, ?_, ?_, ?_⟩
  · show (BitVector.ofRaw (RawVec.ofBits B)).enableAll.len -
      (BitVector.ofRaw (RawVec.ofBits B)).enableAll.ones = _
    rw [hblen, hones, count_false_eq]
  · intro i hi
    show (BitVector.ofRaw (RawVec.ofBits B)).enableAll.data.bitM i = _
    rw [hdata]
    unfold RawVec.bitM
    rw [if_pos (by rw [hwf.size_eq]; omega)]
    have := RawVec.bits_getElem? (RawVec.ofBits B) i
    rw [hbits, if_pos (by omega)] at this
    rw [this]; rfl
  · intro i
    rw [hall]
    have := SupportProofs.rankQ_spec hs hv (by rw [hp.1]) i
    rw [SupportProofs.enableSome_data] at this
    rw [this]; show ok (rankSpec (RawVec.ofBits B).bits i) = _; rw [hbits]
  · intro m i _
    rw [hall]
    have := SupportProofs.rankZeroQ_spec hs hv (by rw [hp.1]) m i
    rw [SupportProofs.enableSome_data] at this
    rw [this]; show ok (i - rankSpec (RawVec.ofBits B).bits i) = _; rw [hbits]
  · intro m r
    rw [hall]
    have := SupportProofs.selectQ_spec hs hv (by rw [hp.2.1]) m r
    rw [SupportProofs.enableSome_data] at this
    rw [this]; show ok (selectSpec (RawVec.ofBits B).bits r) = _; rw [hbits]
  · intro m r
    rw [hall]
    have := SupportProofs.selectZeroQ_spec hs hv (by rw [hp.2.2]) m r
    rw [SupportProofs.enableSome_data] at this
    rw [this]; show ok (selectZeroSpec (RawVec.ofBits B).bits r) = _; rw [hbits]

/-! ### `IntVector` : `ofList 64` then `pack` keeps the content -/

/-- the hypothesis `hiv` of `WM.ofValues_ok` -/
theorem intVec_ofList_pack_get (xs : List Nat) (_hne : xs ≠ []) (hx : ∀ x, x ∈ xs → x < 2 ^ 63) :
    ((IntVec.ofList 64 xs).pack).len = xs.length ∧
    ∀ i (h : i < xs.length), ((IntVec.ofList 64 xs).pack).get i = ok (BitVec.ofNat 64 xs[i]) := by
  have hx64 : ∀ x ∈ xs, x < 2 ^ 64 := fun x h => Nat.lt_trans (hx x h) (by decide)
  obtain ⟨hwf, _, _⟩ := IntVec.ofList_spec 64 xs (by decide) (by decide)
  have hitems : (IntVec.ofList 64 xs).items = xs :=
    IntVec.ofList_items_of_lt 64 xs (by decide) (by decide) hx64
  obtain ⟨_, hpi, _⟩ := IntVec.pack_spec hwf
  have hplen : ((IntVec.ofList 64 xs).pack).len = xs.length := by
    rw [← IntVec.items_length, hpi, hitems]
  refine ⟨hplen, fun i hi => ?_⟩
  rw [IntVec.get_ok _ i (by omega)]
  congr 1
  apply BitVec.eq_of_toNat_eq
  have h1 := IntVec.items_getElem? ((IntVec.ofList 64 xs).pack) i
  rw [if_pos (by omega), hpi, hitems, List.getElem?_eq_getElem hi] at h1
  have h2 : xs[i] = (((IntVec.ofList 64 xs).pack).getRaw i).toNat := by simpa using h1
  rw [← h2, BitVec.toNat_ofNat, Nat.mod_eq_of_lt (hx64 _ (List.getElem_mem hi))]

/-! ### the wavelet-matrix builder, unconditionally -/

/-- **`WaveletMatrix::from(V)` satisfies `WM.Ok`** for every list of `u64` values shorter than 2^63 -/
theorem WM.ofValues_ok_full (V : List Nat) (hV : ∀ v, v ∈ V → v < 2 ^ 64) (hlen : V.length < 2 ^ 63) :
    (WM.ofValues V).Ok V (widthOf V) :=
  WM.ofValues_ok V hV hlen (fun B hB => levelOk_ofBits B (by omega)) intVec_ofList_pack_get

/-- the width of the builder is the least width (≥ 1) in which every value fits -/
theorem widthOf_minimal (V : List Nat) (w' : Nat) (hw : 1 ≤ w') (hfit : ∀ v, v ∈ V → v < 2 ^ w') :
    widthOf V ≤ w' := by
  by_cases h64 : w' ≤ 64
  · apply bitLen_le_of_lt _ _ hw
    have hlt : V.foldl max 0 < 2 ^ w' := foldl_max_lt V 0 _ (Nat.two_pow_pos w') hfit
    have : 2 ^ w' ≤ 2 ^ 64 := Nat.pow_le_pow_right (by decide) h64
    rw [BitVec.toNat_ofNat, Nat.mod_eq_of_lt (by omega)]
    exact hlt
  · have := widthOf_le V; omega

/-! ### Elias–Fano: the value returned by the builder is the one that encodes the list -/

theorem ofValues_set_encodes {w n : Nat} {P : List Nat} {s : Sparse} (hw1 : 1 ≤ w) (hw : w ≤ 63)
    (hn : n < 2 ^ 64) (hm : P.length < 2 ^ 63) (hsorted : sortedStrict P = true)
    (hbound : ∀ p ∈ P, p < n) (h : Sparse.ofValues w n false P = ok s) : s.Encodes n w P := by
  obtain ⟨s', h1, hs⟩ := ofValues_set_ok w n P hw1 hw hn hm hsorted hbound
  rw [h] at h1; cases h1; exact hs

theorem ofValues_multi_encodes {w n : Nat} {P : List Nat} {s : Sparse} (hw1 : 1 ≤ w) (hw : w ≤ 63)
    (hn : n < 2 ^ 64) (hm : P.length < 2 ^ 63) (hsorted : sortedLe P = true)
    (hbound : ∀ p ∈ P, p < n) (h : Sparse.ofValues w n true P = ok s) : s.Encodes n w P := by
  obtain ⟨s', h1, hs⟩ := ofValues_multi_ok w n P hw1 hw hn hm hsorted hbound
  rw [h] at h1; cases h1; exact hs

/-- `select_iter r` yields an iterator that delivers exactly the items `(i, P[i])`, `r ≤ i < |P|`, in order -/
theorem selectIter_drain {s : Sparse} {n w : Nat} {P : List Nat} (hs : s.Encodes n w P) (m : Mode) (r : Nat)
    (hr : r ≤ P.length) :
    ∃ it, s.selectIter m r = ok it ∧ drain m s (P.length + 1) it = ok (itemsFrom P r) := by
  refine ⟨_, selectIter_ok hs m r, ?_⟩
  have h := iterAt_IterAt hs r
  rw [Nat.min_eq_left hr] at h
  exact drain_ok hs m (P.length + 1) r _ h (by omega)

/-- in a non-decreasing list every element is at most the last one -/
theorem sortedLe_le_getLast (P : List Nat) (hP : sortedLe P = true) (hne : P ≠ []) :
    ∀ p ∈ P, p ≤ P.getLast hne := by
  have hpw := sortedLe_pairwise P hP
  intro p hp
  obtain ⟨i, hi, rfl⟩ := List.getElem_of_mem hp
  rw [List.getLast_eq_getElem]
  exact pairwise_le_getElem hpw i (P.length - 1) (by omega) (by omega)

/-- the last level of the wavelet matrix is `V` sorted by `u64::reverse_bits` -/
theorem S_sorted_rev64 (w : Nat) (V : List Nat) (hw1 : 1 ≤ w) (hw : w ≤ 64) (hV : ∀ v, v ∈ V → v < 2 ^ w) :
    (S w V w).Pairwise (fun a b => rev64 a ≤ rev64 b) := by
  apply (S_sorted w V w).imp_of_mem
  intro a b ha hb hab
  have ha' := hV a ((S_perm w V w).mem_iff.mp ha)
  have hb' := hV b ((S_perm w V w).mem_iff.mp hb)
  rw [rev64_eq_rkey w a hw1 hw ha', rev64_eq_rkey w b hw1 hw hb']
  exact Nat.mul_le_mul_right _ hab


/-! ### the sparse vector codec: loading from a file whose embedded bitvector carries any subset of supports -/

theorem sparseC_load_parts (len : Nat) (high0 : BitVector) (low : IntVec) (rest : Elems)
    (hlen : len < 2 ^ 64) (hh : bitVectorWF high0) (hl : intVecWF low)
    (h1 : low.len = high0.countOnes) (h2 : high0.len = low.len + Sparse.getBuckets len low.width) :
    sparseC.load (BitVec.ofNat 64 len :: (bitVectorC.ser high0 ++ intVecC.ser low) ++ rest) =
      ok (⟨len, high0.enableSelect.enableSelectZero, low⟩, rest) := by
  have e1 : (high0.enableSelect.enableSelectZero).countOnes = high0.countOnes := by
    unfold BitVector.countOnes; simp
  have e2 : (high0.enableSelect.enableSelectZero).len = high0.len := by simp
  show (do
    let (len, r) ← usizeC.load (BitVec.ofNat 64 len :: (bitVectorC.ser high0 ++ intVecC.ser low) ++ rest)
    let (high, r) ← bitVectorC.load r
    let (low, r) ← intVecC.load r
    let high := high.enableSelect.enableSelectZero
    if low.len ≠ high.countOnes then fault (.err .invalid)
    else if high.len ≠ low.len + Sparse.getBuckets len low.width then fault (.err .invalid)
    else return ((⟨len, high, low⟩ : Sparse), r)) = _
  have hu : usizeC.load (BitVec.ofNat 64 len :: (bitVectorC.ser high0 ++ intVecC.ser low) ++ rest) =
      ok (len, bitVectorC.ser high0 ++ (intVecC.ser low ++ rest)) := by
    have := usizeC_lawful.roundtrip len (bitVectorC.ser high0 ++ (intVecC.ser low ++ rest)) hlen
    simpa [usizeC, List.append_assoc] using this
  rw [hu]
  simp only [bind_ok]
  rw [bitVectorC_lawful.roundtrip high0 _ hh]
  simp only [bind_ok]
  rw [intVecC_lawful.roundtrip low rest hl]
  simp only [bind_ok, e1, e2, h1, h2, ne_eq, not_true_eq_false, if_false, pure_eq]

/-- the shape of what the builder returns: `high` is `BitVector::from(raw)` with select and select_zero
enabled (no rank support), for a well-formed raw vector holding `|P|` ones -/
theorem ofValues_shape (w n : Nat) (multi : Bool) (P : List Nat) (hw1 : 1 ≤ w) (hw : w ≤ 63)
    (hn : n < 2 ^ 64) (hm : P.length < 2 ^ 63)
    (hsorted : if multi then sortedLe P = true else sortedStrict P = true) (hbound : ∀ p ∈ P, p < n) :
    ∃ s raw, Sparse.ofValues w n multi P = ok s ∧ s.Encodes n w P ∧
      raw.WF ∧ raw.len = P.length + Sparse.getBuckets n w ∧ raw.countOnes = P.length ∧
      s.high = (BitVector.ofRaw raw).enableSelect.enableSelectZero ∧ s.low.WF := by
  have hle : sortedLe P = true := by
    cases multi with
    | true => simpa using hsorted
    | false => exact Sparse2.sortedStrict_le P (by simpa using hsorted)
  have hlen : multi = false → P.length ≤ n := by
    intro h; subst h
    exact Sparse2.strict_length_le (by simpa using hsorted) hbound
  have hacc : Sparse2.accepts n (if multi then 0 else 1) 0 P = true := by
    cases multi with
    | true => exact (Sparse2.accepts_le n P 0).mpr ⟨hle, hbound, fun _ _ => Nat.zero_le _⟩
    | false =>
      exact (Sparse2.accepts_strict n P 0).mpr ⟨by simpa using hsorted, hbound, fun _ _ => Nat.zero_le _⟩
  obtain ⟨b0, hb0, hnx, heq⟩ := Sparse2.ofValues_eq_fold w n multi P hw1 hw hlen
  have hf := Sparse2.fold_spec hw P.length 0 b0 (by omega) hb0
  rw [hnx, List.drop_zero, if_pos hacc] at hf
  obtain ⟨b', h1, h2⟩ := hf
  have hfull : b'.isFull = true := by
    unfold SparseBuilder.isFull SparseBuilder.capacity
    rw [h2.len_eq, h2.low_len]; simp
  have hbuild : b'.build = ok ⟨b'.univ, (BitVector.ofRaw b'.high).enableSelect.enableSelectZero, b'.low⟩ := by
    unfold SparseBuilder.build; rw [hfull]; rfl
  obtain ⟨s', g1, g2⟩ := Sparse2.build_encodes hw1 hw hn hm h2 hle hbound
  rw [hbuild] at g1; cases g1
  have hbits := Sparse2.high_bits_eq hw h2 hle hbound
  have hbk : ∀ p ∈ P, p >>> w < Sparse.getBuckets n w := fun p hp => shr_lt_getBuckets hw (hbound p hp)
  refine ⟨_, b'.high, ?_, g2, h2.high_wf, h2.high_len, ?_, rfl, h2.low_wf⟩
  · rw [heq, List.drop_zero, h1]; simp only [bind_ok]; exact hbuild
  · rw [RawVec.countOnes_eq h2.high_wf, hbits, highBits_count_true (sortedLe_pairwise P hle) hbk]

/-- **a sparse vector loads from a file in which the embedded bitvector `high` carries any subset of the
select / select_zero supports (in particular none), and the loaded value is exactly the built one** —
provided the serialized sizes fit a `usize` (`hhigh`, `hlow`) -/
theorem sparse_load_any_supports (w n : Nat) (multi : Bool) (P : List Nat) (hw1 : 1 ≤ w) (hw : w ≤ 63)
    (hn : n < 2 ^ 64) (hm : P.length < 2 ^ 63)
    (hsorted : if multi then sortedLe P = true else sortedStrict P = true) (hbound : ∀ p ∈ P, p < n)
    (hhigh : P.length + Sparse.getBuckets n w < 2 ^ 63) (hlow : P.length * w < 2 ^ 64) :
    ∃ s, Sparse.ofValues w n multi P = ok s ∧ s.Encodes n w P ∧
      ∀ (sel selz : Bool) (rest : Elems),
        sparseC.load (BitVec.ofNat 64 n ::
          (bitVectorC.ser (SupportProofs.enableSome false sel selz (BitVector.ofRaw s.high.data)) ++
            intVecC.ser s.low) ++ rest) = ok (s, rest) := by
  obtain ⟨s, raw, h1, he, hwf, hrl, hones, hhi, hlwf⟩ := ofValues_shape w n multi P hw1 hw hn hm hsorted hbound
  refine ⟨s, h1, he, fun sel selz rest => ?_⟩
  have hdata : s.high.data = raw := by rw [hhi]; simp; rfl
  rw [hdata]
  have hl63 : raw.len < 2 ^ 63 := by omega
  have hs0 := SupportProofs.ofRaw_sound hwf hl63
  have hbwf := SupportProofs.enableSome_wf false sel selz hs0 (SupportProofs.ofRaw_wf hwf hl63)
  have hiwf : intVecWF s.low := by
    obtain ⟨a, b, c, d⟩ := hlwf
    refine ⟨⟨a, b, c, d⟩, ?_, ?_, ?_⟩
    · rw [he.low_len]; omega
    · omega
    · rw [c, he.low_len, he.width_eq]; exact hlow
  have hc1 : s.low.len = (SupportProofs.enableSome false sel selz (BitVector.ofRaw raw)).countOnes := by
    unfold BitVector.countOnes
    rw [SupportProofs.enableSome_ones, he.low_len]; exact hones.symm
  have hc2 : (SupportProofs.enableSome false sel selz (BitVector.ofRaw raw)).len =
      s.low.len + Sparse.getBuckets n s.low.width := by
    unfold BitVector.len
    rw [SupportProofs.enableSome_data, he.low_len, he.width_eq]; exact hrl
  have := sparseC_load_parts n _ s.low rest hn hbwf hiwf hc1 hc2
  rw [this]
  congr 2
  rcases s with ⟨sl, sh, slow⟩
  simp only at hhi ⊢
  have hl : sl = n := he.len_eq
  subst hl; subst hhi
  cases sel <;> cases selz <;> rfl

/-! ## codecs of structures that embed plain bitvectors; histories of `enable_*` calls -/

section Embedded
open SupportProofs

/-! ### histories of `enable_*` calls on a plain bitvector -/

theorem enableSome_isSome (r s z : Bool) (b : BitVector) :
    (enableSome r s z b).rank.isSome = (r || b.rank.isSome) ∧
    (enableSome r s z b).select.isSome = (s || b.select.isSome) ∧
    (enableSome r s z b).selectZero.isSome = (z || b.selectZero.isSome) := by
  rcases b with ⟨o, d, br, bs, bz⟩
  cases r <;> cases s <;> cases z <;> cases br <;> cases bs <;> cases bz <;> exact ⟨rfl, rfl, rfl⟩

/-- any sequence of `enable_*` calls (each step enables the subset selected by three flags) keeps a sound,
serializable bitvector with valid supports in that state, never touches the data or the count, keeps
`enableAll` the same, and the supports present afterwards are those present before or enabled on the way -/
theorem enable_history_inv (steps : List (Bool × Bool × Bool)) : ∀ (b0 : BitVector),
    Sound b0 → bitVectorWF b0 → SupValid b0 →
    Sound (steps.foldl (fun b t => enableSome t.1 t.2.1 t.2.2 b) b0) ∧
    bitVectorWF (steps.foldl (fun b t => enableSome t.1 t.2.1 t.2.2 b) b0) ∧
    SupValid (steps.foldl (fun b t => enableSome t.1 t.2.1 t.2.2 b) b0) ∧
    (steps.foldl (fun b t => enableSome t.1 t.2.1 t.2.2 b) b0).data = b0.data ∧
    (steps.foldl (fun b t => enableSome t.1 t.2.1 t.2.2 b) b0).ones = b0.ones ∧
    (steps.foldl (fun b t => enableSome t.1 t.2.1 t.2.2 b) b0).enableAll = b0.enableAll ∧
    (steps.foldl (fun b t => enableSome t.1 t.2.1 t.2.2 b) b0).rank.isSome =
      (b0.rank.isSome || steps.any (fun t => t.1)) ∧
    (steps.foldl (fun b t => enableSome t.1 t.2.1 t.2.2 b) b0).select.isSome =
      (b0.select.isSome || steps.any (fun t => t.2.1)) ∧
    (steps.foldl (fun b t => enableSome t.1 t.2.1 t.2.2 b) b0).selectZero.isSome =
      (b0.selectZero.isSome || steps.any (fun t => t.2.2)) := by
  induction steps with
  | nil => intro b0 h1 h2 h3; simp [h1, h2, h3]
  | cons t ts ih =>
    intro b0 h1 h2 h3
    obtain ⟨a1, a2, a3, a4, a5, a6, a7, a8, a9⟩ := ih (enableSome t.1 t.2.1 t.2.2 b0)
      (enableSome_sound _ _ _ h1) (enableSome_wf _ _ _ h1 h2) (enableSome_supValid _ _ _ h1 h3)
    obtain ⟨p1, p2, p3⟩ := enableSome_isSome t.1 t.2.1 t.2.2 b0
    simp only [List.foldl_cons, List.any_cons]
    refine ⟨a1, a2, a3, by rw [a4, enableSome_data], by rw [a5, enableSome_ones],
      by rw [a6, enableSome_enableAll], ?_, ?_, ?_⟩
    · rw [a7, p1]; cases t.1 <;> cases b0.rank.isSome <;> simp
    · rw [a8, p2]; cases t.2.1 <;> cases b0.select.isSome <;> simp
    · rw [a9, p3]; cases t.2.2 <;> cases b0.selectZero.isSome <;> simp

/-- a history in which the vector is written and loaded back after every step is the same as the history of
the `enable_*` calls alone: no load fails and every load returns the value that was written -/
theorem enable_reload_history (steps : List (Bool × Bool × Bool)) : ∀ (b0 : BitVector),
    Sound b0 → bitVectorWF b0 → SupValid b0 →
    steps.foldlM (fun b t => do
        let p ← bitVectorC.load (bitVectorC.ser (enableSome t.1 t.2.1 t.2.2 b))
        pure p.1) b0 =
      ok (steps.foldl (fun b t => enableSome t.1 t.2.1 t.2.2 b) b0) := by
  induction steps with
  | nil => intro b0 _ _ _; rfl
  | cons t ts ih =>
    intro b0 h1 h2 h3
    have hwf := enableSome_wf t.1 t.2.1 t.2.2 h1 h2
    have hr := bitVectorC_lawful.roundtrip _ [] hwf
    rw [List.append_nil] at hr
    rw [List.foldlM_cons, hr]
    simp only [bind_ok, pure_eq, List.foldl_cons]
    exact ih _ (enableSome_sound _ _ _ h1) hwf (enableSome_supValid _ _ _ h1 h3)

/-! ### the wavelet matrix codecs -/

/-- a loop that loads one bitvector per step and appends it, run over a concatenation of serialized
bitvectors of equal length (the level loop of `WMCore::load`) -/
theorem levels_fold_gen (len0 : Nat) (rest : Elems)
    (f : Array BitVector × Elems → Nat → Outcome (Array BitVector × Elems))
    (hf : ∀ (acc : Array BitVector) (b : BitVector) (r : Elems) (i : Nat), bitVectorWF b → b.len = len0 →
      (∀ b0, acc[0]? = some b0 → b0.len = len0) → f (acc, bitVectorC.ser b ++ r) i = ok (acc.push b, r)) :
    ∀ (L : List BitVector) (idx : List Nat) (acc : Array BitVector), idx.length = L.length →
    (∀ b, b ∈ L → bitVectorWF b ∧ b.len = len0) → (∀ b0, acc[0]? = some b0 → b0.len = len0) →
    idx.foldlM f (acc, L.flatMap bitVectorC.ser ++ rest) = ok (acc ++ L.toArray, rest) := by
  intro L
  induction L with
  | nil =>
    intro idx acc hl _ _
    have : idx = [] := List.eq_nil_of_length_eq_zero (by simpa using hl)
    subst this
    simp
  | cons b L ih =>
    intro idx acc hl hL hacc
    cases idx with
    | nil => simp at hl
    | cons i idx =>
      have hb := hL b (by simp)
      rw [List.foldlM_cons]
      simp only [List.flatMap_cons, List.append_assoc]
      rw [hf acc b _ i hb.1 hb.2 hacc]
      simp only [bind_ok]
      rw [ih idx (acc.push b) (by simpa using hl) (fun b' hb' => hL b' (by simp [hb'])) ?_]
      · simp
      · intro b0 h0
        by_cases hs : acc.size = 0
        · have : acc = #[] := by simpa using hs
          subst this
          simp at h0
          subst h0; exact hb.2
        · have : (acc.push b)[0]? = acc[0]? := by
            rw [Array.getElem?_push_lt (by omega), Array.getElem?_eq_getElem (by omega)]
          rw [this] at h0
          exact hacc b0 h0

/-- `WMCore::load` on `width` followed by the serializations of `width` bitvectors of equal length: the levels
are loaded and all their supports enabled -/
theorem wmCoreC_load_levels (L : List BitVector) (len0 : Nat) (rest : Elems) (h1 : 1 ≤ L.length)
    (h64 : L.length ≤ 64) (hL : ∀ b, b ∈ L → bitVectorWF b ∧ b.len = len0) :
    wmCoreC.load (BitVec.ofNat 64 L.length :: L.flatMap bitVectorC.ser ++ rest) =
      ok (WMCore.initSupport ⟨L.toArray⟩, rest) := by
  dsimp only [wmCoreC]
  have hu : usizeC.load (BitVec.ofNat 64 L.length :: L.flatMap bitVectorC.ser ++ rest) =
      ok (L.length, L.flatMap bitVectorC.ser ++ rest) := by
    have := usizeC_lawful.roundtrip L.length (L.flatMap bitVectorC.ser ++ rest) (by omega)
    simpa [usizeC] using this
  rw [hu]
  simp only [bind_ok]
  rw [if_neg (by omega)]
  rw [levels_fold_gen len0 rest _ ?_ L (List.range L.length) #[] (by simp) hL (by simp)]
  · simp
  · intro acc b r i hb hlen hacc
    dsimp only
    rw [bitVectorC_lawful.roundtrip b r hb]
    simp only [bind_ok]
    cases h0 : acc[0]? with
    | none => rfl
    | some b0 =>
      have := hacc b0 h0
      simp only [hlen, this, ne_eq, not_true_eq_false, if_false, pure_eq]

/-- `WaveletMatrix::load` on `len`, a serialized core as above and a serialized `first` array -/
theorem wmC_load_parts (len : Nat) (L : List BitVector) (first : IntVec) (rest : Elems) (hlen : len < 2 ^ 64)
    (h1 : 1 ≤ L.length) (h64 : L.length ≤ 64) (hL : ∀ b, b ∈ L → bitVectorWF b ∧ b.len = len)
    (hf : intVecWF first) :
    wmC.load (BitVec.ofNat 64 len :: (BitVec.ofNat 64 L.length :: L.flatMap bitVectorC.ser) ++
        intVecC.ser first ++ rest) = ok (⟨len, WMCore.initSupport ⟨L.toArray⟩, first⟩, rest) := by
  dsimp only [wmC]
  have hu : usizeC.load (BitVec.ofNat 64 len :: (BitVec.ofNat 64 L.length :: L.flatMap bitVectorC.ser) ++
        intVecC.ser first ++ rest) =
      ok (len, BitVec.ofNat 64 L.length :: L.flatMap bitVectorC.ser ++ (intVecC.ser first ++ rest)) := by
    have := usizeC_lawful.roundtrip len
      (BitVec.ofNat 64 L.length :: L.flatMap bitVectorC.ser ++ (intVecC.ser first ++ rest)) hlen
    simpa [usizeC, List.append_assoc] using this
  rw [hu]
  simp only [bind_ok]
  rw [wmCoreC_load_levels L len _ h1 h64 hL]
  simp only [bind_ok]
  have hl0 : (WMCore.initSupport ⟨L.toArray⟩).len = ok len := by
    cases L with
    | nil => simp at h1
    | cons b L' =>
      have := (hL b (by simp)).2
      simp [WMCore.len, WMCore.initSupport, enableAll_len, this]
  rw [hl0]
  simp only [bind_ok, ne_eq, not_true_eq_false, if_false]
  rw [intVecC_lawful.roundtrip first rest hf]
  rfl

/-- the `first` array of a built wavelet matrix is serializable when it fits a `usize`-addressed file -/
theorem wm_first_wf (V : List Nat) (hV : ∀ v, v ∈ V → v < 2 ^ 64)
    (hfirst : (V.foldl max 0 + 1) * 64 < 2 ^ 64) : intVecWF (WM.ofValues V).first := by
  have hVw := lt_two_pow_widthOf V hV
  obtain ⟨hsize, _⟩ := startOffsetsRaw_ok (widthOf V) V (widthOf_pos V) (widthOf_le V) hVw
  show intVecWF (WM.startOffsets V V.length (V.foldl max 0))
  rw [startOffsets_eq]
  obtain ⟨hwf, _, _⟩ := IntVec.ofList_spec 64 (startOffsetsRaw V V.length (V.foldl max 0)).toList
    (by decide) (by decide)
  obtain ⟨hp, _, _⟩ := IntVec.pack_spec hwf
  have hl : ((IntVec.ofList 64 (startOffsetsRaw V V.length (V.foldl max 0)).toList).pack).len =
      V.foldl max 0 + 1 := by
    rw [IntVec.pack_len, ← IntVec.items_length, (IntVec.ofList_spec 64 _ (by decide) (by decide)).2.2]
    simp [hsize]
  obtain ⟨a, b, c, d⟩ := hp
  have hmul : ((IntVec.ofList 64 (startOffsetsRaw V V.length (V.foldl max 0)).toList).pack).len *
      ((IntVec.ofList 64 (startOffsetsRaw V V.length (V.foldl max 0)).toList).pack).width ≤
      (V.foldl max 0 + 1) * 64 := by
    rw [hl]; exact Nat.mul_le_mul_left _ b
  refine ⟨⟨a, b, c, d⟩, by omega, by omega, by omega⟩

/-- the levels of a built core, each with the subset of supports selected by `f`, are serializable bitvectors of
the length of `V` -/
theorem wm_levels_wf (V : List Nat) (hlen : V.length < 2 ^ 63) (f : Nat → Bool × Bool × Bool) :
    ∀ b, b ∈ ((List.range (widthOf V)).map fun l =>
        enableSome (f l).1 (f l).2.1 (f l).2.2 (BitVector.ofRaw (RawVec.ofBits (col (widthOf V) V l)))) →
      bitVectorWF b ∧ b.len = V.length := by
  have hcl : ∀ l, (RawVec.ofBits (col (widthOf V) V l)).len = V.length := by
    intro l
    rw [← RawVec.bits_length, RawVec.bits_ofBits]
    simp only [col, List.length_map, length_S]
  intro b hb
  obtain ⟨l, _, rfl⟩ := List.mem_map.mp hb
  have hl63 : (RawVec.ofBits (col (widthOf V) V l)).len < 2 ^ 63 := by rw [hcl]; exact hlen
  have hs0 := ofRaw_sound (RawVec.ofBits_WF _) hl63
  refine ⟨enableSome_wf _ _ _ hs0 (ofRaw_wf (RawVec.ofBits_WF _) hl63), ?_⟩
  unfold BitVector.len
  rw [enableSome_data]
  exact hcl l

/-- **a wavelet matrix loads from a file in which every level carries any subset of supports (in particular
none), and the loaded value is exactly the built one** — `f l` selects the subset present at level `l` -/
theorem wm_load_any_supports (V : List Nat) (hV : ∀ v, v ∈ V → v < 2 ^ 64) (hlen : V.length < 2 ^ 63)
    (hfirst : (V.foldl max 0 + 1) * 64 < 2 ^ 64) (f : Nat → Bool × Bool × Bool) (rest : Elems) :
    wmC.load (BitVec.ofNat 64 V.length ::
      (BitVec.ofNat 64 (widthOf V) :: ((List.range (widthOf V)).map fun l =>
          enableSome (f l).1 (f l).2.1 (f l).2.2
            (BitVector.ofRaw (RawVec.ofBits (col (widthOf V) V l)))).flatMap bitVectorC.ser) ++
        intVecC.ser (WM.ofValues V).first ++ rest) = ok (WM.ofValues V, rest) := by
  have h := wmC_load_parts V.length ((List.range (widthOf V)).map fun l =>
      enableSome (f l).1 (f l).2.1 (f l).2.2 (BitVector.ofRaw (RawVec.ofBits (col (widthOf V) V l))))
    (WM.ofValues V).first rest (by omega) (by simpa using widthOf_pos V) (by simpa using widthOf_le V) ?_
    (wm_first_wf V hV hfirst)
  · simp only [List.length_map, List.length_range] at h
    rw [h]
    congr 2
    show (⟨V.length, _, _⟩ : WM) = ⟨V.length, WMCore.ofValues V, _⟩
    congr 1
    rw [ofValues_eq]
    simp only [WMCore.initSupport, List.map_toArray, List.map_map]
    congr 2
    apply List.map_congr_left
    intro l _
    exact enableSome_enableAll _ _ _ _
  · exact wm_levels_wf V hlen f


/-- the core of a wavelet matrix loads from a file in which every level carries any subset of supports -/
theorem wmCore_load_any_supports (V : List Nat) (hlen : V.length < 2 ^ 63)
    (f : Nat → Bool × Bool × Bool) (rest : Elems) :
    wmCoreC.load (BitVec.ofNat 64 (widthOf V) :: ((List.range (widthOf V)).map fun l =>
          enableSome (f l).1 (f l).2.1 (f l).2.2
            (BitVector.ofRaw (RawVec.ofBits (col (widthOf V) V l)))).flatMap bitVectorC.ser ++ rest) =
      ok (WMCore.ofValues V, rest) := by
  have h := wmCoreC_load_levels ((List.range (widthOf V)).map fun l =>
      enableSome (f l).1 (f l).2.1 (f l).2.2 (BitVector.ofRaw (RawVec.ofBits (col (widthOf V) V l))))
    V.length rest (by simpa using widthOf_pos V) (by simpa using widthOf_le V) (wm_levels_wf V hlen f)
  simp only [List.length_map, List.length_range] at h
  rw [h]
  congr 2
  rw [ofValues_eq]
  simp only [WMCore.initSupport, List.map_toArray, List.map_map]
  congr 2
  apply List.map_congr_left
  intro l _
  exact enableSome_enableAll _ _ _ _

theorem wmCoreC_ser_ofValues (V : List Nat) :
    wmCoreC.ser (WMCore.ofValues V) = BitVec.ofNat 64 (widthOf V) :: ((List.range (widthOf V)).map fun l =>
      enableSome true true true (BitVector.ofRaw (RawVec.ofBits (col (widthOf V) V l)))).flatMap
        bitVectorC.ser := by
  rw [ofValues_eq]
  simp [wmCoreC, WMCore.width]
  rfl

/-- **round trip of the wavelet-matrix core** -/
theorem wmCore_roundtrip (V : List Nat) (hlen : V.length < 2 ^ 63) (rest : Elems) :
    wmCoreC.load (wmCoreC.ser (WMCore.ofValues V) ++ rest) = ok (WMCore.ofValues V, rest) := by
  rw [wmCoreC_ser_ofValues]
  exact wmCore_load_any_supports V hlen (fun _ => (true, true, true)) rest

/-- **round trip of the wavelet matrix** -/
theorem wm_roundtrip (V : List Nat) (hV : ∀ v, v ∈ V → v < 2 ^ 64) (hlen : V.length < 2 ^ 63)
    (hfirst : (V.foldl max 0 + 1) * 64 < 2 ^ 64) (rest : Elems) :
    wmC.load (wmC.ser (WM.ofValues V) ++ rest) = ok (WM.ofValues V, rest) := by
  have e : wmC.ser (WM.ofValues V) = BitVec.ofNat 64 V.length ::
      (wmCoreC.ser (WMCore.ofValues V) ++ intVecC.ser (WM.ofValues V).first) := rfl
  rw [e, wmCoreC_ser_ofValues]
  exact wm_load_any_supports V hV hlen hfirst (fun _ => (true, true, true)) rest

end Embedded

end Sds
