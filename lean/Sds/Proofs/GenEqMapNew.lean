/-
Proofs/GenEqMapNew: the constructors `new`, `map_offset`, `map_len` of the memory-mapped views (`MappedSlice<T>`,
`MappedBytes`, `RawVectorMapper`, `IntVectorMapper`), as TRANSLATED statement by statement from the source
(Generated/FnsMapNew.lean), against the hand-written `View.slice / bytes / raw / int` of Model/Mapper.lean.

* UNCONDITIONAL, both directions (same tests, same mode-checked arithmetic in the same order, hence the same faults):
  `mapped_slice_new_eq`  : gen_MappedSlice_new m k file offset = (View.slice …).bind (fun v => ok ⟨(v.len, v.payload), v.offset⟩)
  `mapped_slice_view_eq` : View.slice … = (gen_MappedSlice_new …).bind (fun r => ok (mn_sliceView k r))
     (`mn_sliceView k r = ⟨r.offset, r.data.1 * k + 1, r.data.1, r.data.2⟩`)
  `mapped_bytes_new_eq`, `mapped_bytes_view_eq` likewise (`mn_bytesView`, `mapLen = (len + 7) / 8 + 1`);
  `raw_mapper_view_eq`   : View.raw … = (gen_RawVectorMapper_new …).bind (mn_rawView m)   where `mn_rawView` performs
     the `- 1` of `map_offset()`; `raw_mapper_new_eq`: the record from the view and `(offset + 1) % 2^64`
     (`raw_mapper_new_eq_of_size`: `v.offset + 1` when `file.size < 2^64`).
* `int_mapper_view_eq : View.int … = (gen_IntVectorMapper_new …).bind (mn_intView m)` under
  `hoff : m = .wrapping → offset < file.size → offset + 1 < U64` (corollaries `_of_size`: `file.size < U64`,
  `_checked`: none).  The code reads the width at the computed (wrapped) `offset + 1`, the model at the exact one;
  sharp only on a map of `2^64` elements (`int_mapper_view_ne_huge`), which no Rust slice can be: not a divergence.
  `int_mapper_new_eq`: the record is (view's len, width, the `RawVectorMapper` at `offset + 2`) — the model's view
  forgets the bit length of the raw vector, so the record is not a function of the view alone.
* faults of the code: `mapped_slice_new_fault`, `mapped_bytes_new_fault`, `raw_mapper_new_fault`,
  `int_mapper_new_fault`: only `err eof` and (with overflow checks) `panic overflow`; never `panic index`.
* `map_offset()`: for EVERY record it is the offset of the record's view (`raw_mapper_map_offset_eq`,
  `int_mapper_map_offset_eq`), and after `new` it is the model view's `offset`, which is the offset passed to `new`
  when that is a `usize` (`*_map_of_view`; the subtractions never fault after a successful `new`).
* `map_len()` vs the model's `mapLen` (computed in `Nat`): for EVERY record `map_len() = ok mapLen ↔ mapLen < U64`
  (`mapped_slice_map_len_iff`, `mapped_bytes_map_len_iff` (`len + 7 < U64`), `raw_mapper_map_len_iff`,
  `int_mapper_map_len_iff`).  After a successful `new` with overflow checks this always holds
  (`*_new_checked_bound`: the view lies inside the file and `offset + mapLen < U64`); so `*_map_len_of_new` need
  `m = .checked ∨ (the bound)`.  WITHOUT overflow checks the bounds test of `new` itself wraps
  (`offset + 1 + len * T::elements()`): a header of `2^64 - 1` (or `2^63` for two-element items) is accepted, the code's
  `map_len()` wraps to a small number and the model's `mapLen` is the unbounded one: `*_map_len_wrapping_ne`.
  On these inputs both sides of the `new` equations agree (they are unconditional); this is a property of the source
  (release builds accept such a header and build a slice of that length), not a translation or model divergence.
-/
import Sds.Model.Mapper
import Sds.Generated.FnsMapNew

set_option linter.unusedVariables false

namespace Sds.GenEq
open Sds Outcome Generated

/-! ### helpers -/

theorem mn_obind_ok {α β : Type} (a : α) (f : α → Outcome β) : (ok a).bind f = f a := rfl
theorem mn_obind_fault {α β : Type} (e : Fault) (f : α → Outcome β) : (fault e : Outcome α).bind f = fault e := rfl
theorem mn_bind_def {α β : Type} (x : Outcome α) (f : α → Outcome β) : (x >>= f) = x.bind f := rfl

theorem mn_getC_lt {file : Array Word} {i : Nat} (h : i < file.size) : getC file i = ok (rd file i) := getC_ok h

theorem mn_fileAt_lt {file : Array Word} {i : Nat} (h : i < file.size) : fileAt file i = ok (rd file i).toNat := by
  unfold fileAt rd
  rw [Array.getElem?_eq_getElem h]; rfl

/-- the code reads the element and converts it, the model reads the converted element: same outcome at every index -/
theorem mn_getC_fileAt {β : Type} (file : Array Word) (i : Nat) (f : Nat → Outcome β) :
    (getC file i).bind (fun w => f w.toNat) = (fileAt file i).bind f := by
  by_cases h : i < file.size
  · rw [mn_getC_lt h, mn_fileAt_lt h]; rfl
  · have h' : file.size ≤ i := by omega
    unfold fileAt getC
    rw [Array.getElem?_eq_none h', dif_neg h]; rfl

theorem mn_gen_bytes_to_words (m : Mode) (n : Nat) : gen_bytes_to_words m n = bytesToWords m n := by
  unfold gen_bytes_to_words bytesToWords gDiv
  cases addM m n 7 <;> rfl

/-! #### what a successful `addM` / `mulM` / `subM` says -/

theorem mn_addM_lt {m : Mode} {a b c : Nat} (h : addM m a b = ok c) : c < U64 := by
  unfold addM at h
  by_cases hlt : a + b < U64
  · rw [if_pos hlt] at h; injection h with h; omega
  · rw [if_neg hlt] at h
    cases m with
    | checked => cases h
    | wrapping => injection h with h; subst h; exact Nat.mod_lt _ (by decide)

theorem mn_addM_mod {m : Mode} {a b c : Nat} (h : addM m a b = ok c) : c = (a + b) % U64 := by
  unfold addM at h
  by_cases hlt : a + b < U64
  · rw [if_pos hlt] at h; injection h with h; rw [Nat.mod_eq_of_lt hlt]; omega
  · rw [if_neg hlt] at h
    cases m with
    | checked => cases h
    | wrapping => injection h with h; exact h.symm

theorem mn_addM_checked {a b c : Nat} (h : addM .checked a b = ok c) : a + b < U64 ∧ c = a + b := by
  unfold addM at h
  by_cases hlt : a + b < U64
  · rw [if_pos hlt] at h; injection h with h; omega
  · rw [if_neg hlt] at h; cases h

theorem mn_mulM_lt {m : Mode} {a b c : Nat} (h : mulM m a b = ok c) : c < U64 := by
  unfold mulM at h
  by_cases hlt : a * b < U64
  · rw [if_pos hlt] at h; injection h with h; omega
  · rw [if_neg hlt] at h
    cases m with
    | checked => cases h
    | wrapping => injection h with h; subst h; exact Nat.mod_lt _ (by decide)

theorem mn_mulM_checked {a b c : Nat} (h : mulM .checked a b = ok c) : a * b < U64 ∧ c = a * b := by
  unfold mulM at h
  by_cases hlt : a * b < U64
  · rw [if_pos hlt] at h; injection h with h; omega
  · rw [if_neg hlt] at h; cases h

/-- an addition whose exact value is returned did not overflow -/
theorem mn_addM_exact_iff (m : Mode) (a b : Nat) : addM m a b = ok (a + b) ↔ a + b < U64 :=
  ⟨fun h => mn_addM_lt h, fun h => addM_ok h⟩

theorem mn_mulM_exact_iff (m : Mode) (a b : Nat) : mulM m a b = ok (a * b) ↔ a * b < U64 :=
  ⟨fun h => mn_mulM_lt h, fun h => mulM_ok h⟩

/-- `x - 1` after a successful `… + 1` never faults, in either mode -/
theorem mn_subM_after_addM {m : Mode} {a b c : Nat} (hb : 0 < b) (hbu : b < U64) (h : addM m a b = ok c) :
    ∃ d, subM m c b = ok d := by
  cases m with
  | checked =>
    have := mn_addM_checked h
    exact ⟨c - b, subM_ok (by omega)⟩
  | wrapping =>
    unfold subM
    by_cases hle : b ≤ c
    · exact ⟨_, by rw [if_pos hle]⟩
    · exact ⟨_, by rw [if_neg hle]⟩

/-! ### `MappedSlice::new` -/

/-- the view of a slice record (`k = T::elements()`): the `View` is determined by the record -/
def mn_sliceView (k : Nat) (r : MappedSliceR) : View := ⟨r.offset, r.data.1 * k + 1, r.data.1, r.data.2⟩

/-- `MappedSlice<T>::new`: the record is the model's view without its (derived) `mapLen`.  Unconditional: same tests,
same arithmetic in the same order, same faults. -/
theorem mapped_slice_new_eq (m : Mode) (k : Nat) (file : Array Word) (offset : Nat) :
    gen_MappedSlice_new m k file offset
      = (View.slice m k file offset).bind (fun v => ok ⟨(v.len, v.payload), v.offset⟩) := by
  unfold gen_MappedSlice_new View.slice
  by_cases h : offset ≥ file.size
  · simp only [h, decide_true, if_true]; rfl
  · have hlt : offset < file.size := by omega
    simp only [h, decide_false, if_false, mn_bind_def, Bool.false_eq_true]
    rw [mn_getC_lt hlt, mn_fileAt_lt hlt]
    simp only [mn_obind_ok]
    cases addM m offset 1 with
    | fault e => rfl
    | ok a =>
      simp only [mn_obind_ok]
      cases mulM m (rd file offset).toNat k with
      | fault e => rfl
      | ok b =>
        simp only [mn_obind_ok]
        cases addM m a b with
        | fault e => rfl
        | ok e =>
          simp only [mn_obind_ok]
          by_cases h2 : e > file.size
          · simp only [h2, decide_true, if_true]; rfl
          · simp only [h2, decide_false, if_false, Bool.false_eq_true]; rfl

/-- converse: the model's view is the view of the record (`offset`, `mapLen = len * k + 1`, `len`, `payload`) -/
theorem mapped_slice_view_eq (m : Mode) (k : Nat) (file : Array Word) (offset : Nat) :
    View.slice m k file offset
      = (gen_MappedSlice_new m k file offset).bind (fun r => ok (mn_sliceView k r)) := by
  unfold gen_MappedSlice_new View.slice
  by_cases h : offset ≥ file.size
  · simp only [h, decide_true, if_true]; rfl
  · have hlt : offset < file.size := by omega
    simp only [h, decide_false, if_false, mn_bind_def, Bool.false_eq_true]
    rw [mn_getC_lt hlt, mn_fileAt_lt hlt]
    simp only [mn_obind_ok]
    cases addM m offset 1 with
    | fault e => rfl
    | ok a =>
      simp only [mn_obind_ok]
      cases mulM m (rd file offset).toNat k with
      | fault e => rfl
      | ok b =>
        simp only [mn_obind_ok]
        cases addM m a b with
        | fault e => rfl
        | ok e =>
          simp only [mn_obind_ok]
          by_cases h2 : e > file.size
          · simp only [h2, decide_true, if_true]; rfl
          · simp only [h2, decide_false, if_false, Bool.false_eq_true]; rfl

/-- what a successful `MappedSlice::new` computed -/
theorem mn_slice_new_ok {m : Mode} {k : Nat} {file : Array Word} {offset : Nat} {r : MappedSliceR}
    (h : gen_MappedSlice_new m k file offset = ok r) :
    offset < file.size ∧ r.offset = offset ∧ r.data.1 = (rd file offset).toNat ∧
    r.data.2 = (file.toList.drop (offset + 1)).take (r.data.1 * k) ∧
    ∃ a b e, addM m offset 1 = ok a ∧ mulM m r.data.1 k = ok b ∧ addM m a b = ok e ∧ e ≤ file.size := by
  unfold gen_MappedSlice_new at h
  by_cases h0 : offset ≥ file.size
  · simp only [h0, decide_true, if_true] at h; cases h
  · have hlt : offset < file.size := by omega
    simp only [h0, decide_false, if_false, mn_bind_def, Bool.false_eq_true] at h
    rw [mn_getC_lt hlt] at h
    simp only [mn_obind_ok] at h
    cases h1 : addM m offset 1 with
    | fault e => rw [h1] at h; cases h
    | ok a =>
      rw [h1] at h; simp only [mn_obind_ok] at h
      cases h2 : mulM m (rd file offset).toNat k with
      | fault e => rw [h2] at h; cases h
      | ok b =>
        rw [h2] at h; simp only [mn_obind_ok] at h
        cases h3 : addM m a b with
        | fault e => rw [h3] at h; cases h
        | ok e =>
          rw [h3] at h; simp only [mn_obind_ok] at h
          by_cases h4 : e > file.size
          · simp only [h4, decide_true, if_true] at h; cases h
          · simp only [h4, decide_false, if_false, Bool.false_eq_true] at h
            injection h with h; subst h
            exact ⟨hlt, rfl, rfl, rfl, a, b, e, rfl, h2, h3, by omega⟩

theorem mapped_slice_map_offset_eq (m : Mode) (r : MappedSliceR) :
    gen_MappedSlice_map_offset m r = ok (mn_sliceView 0 r).offset := rfl

/-- `map_len` as a function of the record -/
theorem mapped_slice_map_len_eq' (m : Mode) (k : Nat) (r : MappedSliceR) :
    gen_MappedSlice_map_len m k r = (mulM m r.data.1 k).bind (fun t => addM m t 1) := by
  unfold gen_MappedSlice_map_len
  cases mulM m r.data.1 k with
  | fault e => rfl
  | ok t => simp only [mn_bind_def, mn_obind_ok]

/-- for EVERY record: `map_len` returns the model's `mapLen = len * k + 1` (computed in `Nat`) exactly when that number
is a `usize` -/
theorem mapped_slice_map_len_iff (m : Mode) (k : Nat) (r : MappedSliceR) :
    gen_MappedSlice_map_len m k r = ok (mn_sliceView k r).mapLen ↔ r.data.1 * k + 1 < U64 := by
  rw [mapped_slice_map_len_eq']
  show (mulM m r.data.1 k).bind (fun t => addM m t 1) = ok (r.data.1 * k + 1) ↔ _
  constructor
  · intro h
    cases h1 : mulM m r.data.1 k with
    | fault e => rw [h1] at h; cases h
    | ok t => rw [h1, mn_obind_ok] at h; exact mn_addM_lt h
  · intro h
    rw [mulM_ok (by omega), mn_obind_ok, addM_ok h]

/-- with overflow checks a successful `new` has computed `offset + 1 + len * k` exactly: the view lies inside the file
and `mapLen` is a `usize` -/
theorem mapped_slice_new_checked_bound {k : Nat} {file : Array Word} {offset : Nat} {r : MappedSliceR}
    (h : gen_MappedSlice_new .checked k file offset = ok r) :
    r.offset + (r.data.1 * k + 1) ≤ file.size ∧ r.offset + (r.data.1 * k + 1) < U64 := by
  obtain ⟨_, ho, _, _, a, b, e, h1, h2, h3, h4⟩ := mn_slice_new_ok h
  have := mn_addM_checked h1
  have := mn_mulM_checked h2
  have := mn_addM_checked h3
  rw [ho]; omega

/-- `map_len` of a record produced by `new` is the model's `mapLen`: always with overflow checks, and without them
when `len * k + 1` is a `usize` (see `mapped_slice_map_len_wrapping_ne`) -/
theorem mapped_slice_map_len_of_new {m : Mode} {k : Nat} {file : Array Word} {offset : Nat} {r : MappedSliceR}
    (h : gen_MappedSlice_new m k file offset = ok r) (hb : m = .checked ∨ r.data.1 * k + 1 < U64) :
    gen_MappedSlice_map_len m k r = ok (mn_sliceView k r).mapLen := by
  rw [mapped_slice_map_len_iff]
  cases hb with
  | inl hm => subst hm; have := mapped_slice_new_checked_bound h; omega
  | inr hb => exact hb

/-- the same in terms of the model's view -/
theorem mapped_slice_map_of_view {m : Mode} {k : Nat} {file : Array Word} {offset : Nat} {r : MappedSliceR} {v : View}
    (h : gen_MappedSlice_new m k file offset = ok r) (hv : View.slice m k file offset = ok v) :
    v = mn_sliceView k r ∧ gen_MappedSlice_map_offset m r = ok v.offset ∧
    (gen_MappedSlice_map_len m k r = ok v.mapLen ↔ v.mapLen < U64) ∧ (m = .checked → v.mapLen < U64) := by
  rw [mapped_slice_view_eq, h, mn_obind_ok] at hv
  injection hv with hv; subst hv
  refine ⟨rfl, rfl, mapped_slice_map_len_iff m k r, ?_⟩
  intro hm; subst hm
  have := mapped_slice_new_checked_bound h
  show r.data.1 * k + 1 < U64
  omega

/-- without overflow checks the bounds test `offset + 1 + len * k > map.len()` of `new` wraps: a header `2^63` for
two-element items (or `2^64 - 1` for one-element items) is ACCEPTED, the code's `map_len()` wraps as well (1, resp. 0)
while the model's `mapLen` is the unbounded `len * k + 1`.  Both sides of `mapped_slice_new_eq` agree on these files
(the equation is unconditional); the difference is only between `View.mapLen` and `map_len()`. -/
theorem mapped_slice_map_len_wrapping_ne :
    (gen_MappedSlice_new .wrapping 2 #[0x8000000000000000#64] 0).bind (gen_MappedSlice_map_len .wrapping 2) = ok 1 ∧
    (View.slice .wrapping 2 #[0x8000000000000000#64] 0).bind (fun v => ok v.mapLen) = ok (U64 + 1) ∧
    (gen_MappedSlice_new .wrapping 1 #[0xFFFFFFFFFFFFFFFF#64] 0).bind (gen_MappedSlice_map_len .wrapping 1) = ok 0 ∧
    (View.slice .wrapping 1 #[0xFFFFFFFFFFFFFFFF#64] 0).bind (fun v => ok v.mapLen) = ok U64 ∧
    (gen_MappedSlice_new .checked 2 #[0x8000000000000000#64] 0) = fault (.panic .overflow) ∧
    (View.slice .checked 2 #[0x8000000000000000#64] 0) = fault (.panic .overflow) := by
  decide +kernel

/-! ### `MappedBytes::new` -/

def mn_bytesView (r : MappedSliceR) : View := ⟨r.offset, (r.data.1 + 7) / 8 + 1, r.data.1, r.data.2⟩

theorem mapped_bytes_new_eq (m : Mode) (file : Array Word) (offset : Nat) :
    gen_MappedBytes_new m file offset
      = (View.bytes m file offset).bind (fun v => ok ⟨(v.len, v.payload), v.offset⟩) := by
  unfold gen_MappedBytes_new View.bytes
  by_cases h : offset ≥ file.size
  · simp only [h, decide_true, if_true]; rfl
  · have hlt : offset < file.size := by omega
    simp only [h, decide_false, if_false, mn_bind_def, Bool.false_eq_true]
    rw [mn_getC_lt hlt, mn_fileAt_lt hlt]
    simp only [mn_obind_ok, mn_gen_bytes_to_words]
    cases addM m offset 1 with
    | fault e => rfl
    | ok a =>
      simp only [mn_obind_ok]
      cases bytesToWords m (rd file offset).toNat with
      | fault e => rfl
      | ok b =>
        simp only [mn_obind_ok]
        cases addM m a b with
        | fault e => rfl
        | ok e =>
          simp only [mn_obind_ok]
          by_cases h2 : e > file.size
          · simp only [h2, decide_true, if_true]; rfl
          · simp only [h2, decide_false, if_false, Bool.false_eq_true]; rfl

theorem mapped_bytes_view_eq (m : Mode) (file : Array Word) (offset : Nat) :
    View.bytes m file offset = (gen_MappedBytes_new m file offset).bind (fun r => ok (mn_bytesView r)) := by
  unfold gen_MappedBytes_new View.bytes
  by_cases h : offset ≥ file.size
  · simp only [h, decide_true, if_true]; rfl
  · have hlt : offset < file.size := by omega
    simp only [h, decide_false, if_false, mn_bind_def, Bool.false_eq_true]
    rw [mn_getC_lt hlt, mn_fileAt_lt hlt]
    simp only [mn_obind_ok, mn_gen_bytes_to_words]
    cases addM m offset 1 with
    | fault e => rfl
    | ok a =>
      simp only [mn_obind_ok]
      cases bytesToWords m (rd file offset).toNat with
      | fault e => rfl
      | ok b =>
        simp only [mn_obind_ok]
        cases addM m a b with
        | fault e => rfl
        | ok e =>
          simp only [mn_obind_ok]
          by_cases h2 : e > file.size
          · simp only [h2, decide_true, if_true]; rfl
          · simp only [h2, decide_false, if_false, Bool.false_eq_true]; rfl

theorem mn_bytes_new_ok {m : Mode} {file : Array Word} {offset : Nat} {r : MappedSliceR}
    (h : gen_MappedBytes_new m file offset = ok r) :
    offset < file.size ∧ r.offset = offset ∧ r.data.1 = (rd file offset).toNat ∧
    r.data.2 = (file.toList.drop (offset + 1)).take ((r.data.1 + 7) / 8) ∧
    ∃ a b e, addM m offset 1 = ok a ∧ bytesToWords m r.data.1 = ok b ∧ addM m a b = ok e ∧ e ≤ file.size := by
  unfold gen_MappedBytes_new at h
  by_cases h0 : offset ≥ file.size
  · simp only [h0, decide_true, if_true] at h; cases h
  · have hlt : offset < file.size := by omega
    simp only [h0, decide_false, if_false, mn_bind_def, Bool.false_eq_true] at h
    rw [mn_getC_lt hlt] at h
    simp only [mn_obind_ok, mn_gen_bytes_to_words] at h
    cases h1 : addM m offset 1 with
    | fault e => rw [h1] at h; cases h
    | ok a =>
      rw [h1] at h; simp only [mn_obind_ok] at h
      cases h2 : bytesToWords m (rd file offset).toNat with
      | fault e => rw [h2] at h; cases h
      | ok b =>
        rw [h2] at h; simp only [mn_obind_ok] at h
        cases h3 : addM m a b with
        | fault e => rw [h3] at h; cases h
        | ok e =>
          rw [h3] at h; simp only [mn_obind_ok] at h
          by_cases h4 : e > file.size
          · simp only [h4, decide_true, if_true] at h; cases h
          · simp only [h4, decide_false, if_false, Bool.false_eq_true] at h
            injection h with h; subst h
            exact ⟨hlt, rfl, rfl, rfl, a, b, e, rfl, h2, h3, by omega⟩

/-- `MappedStr::new` as translated: the translated `MappedBytes::new` followed by the UTF-8 test of the payload -/
theorem mapped_str_new_eq_bytes (m : Mode) (valid : List UInt8 → Bool) (file : Array Word) (offset : Nat) :
    gen_MappedStr_new m valid file offset
      = (gen_MappedBytes_new m file offset).bind
          (fun r => if valid (payloadBytes r.data) then ok r else fault (.err .invalid)) := by
  unfold gen_MappedStr_new gen_MappedBytes_new
  by_cases h : offset ≥ file.size
  · simp only [h, decide_true, if_true]; rfl
  · have hlt : offset < file.size := by omega
    simp only [h, decide_false, if_false, mn_bind_def, Bool.false_eq_true]
    rw [mn_getC_lt hlt]
    simp only [mn_obind_ok, mn_gen_bytes_to_words]
    cases addM m offset 1 with
    | fault e => rfl
    | ok a =>
      simp only [mn_obind_ok]
      cases bytesToWords m (rd file offset).toNat with
      | fault e => rfl
      | ok b =>
        simp only [mn_obind_ok]
        cases addM m a b with
        | fault e => rfl
        | ok e =>
          simp only [mn_obind_ok]
          by_cases h2 : e > file.size
          · simp only [h2, decide_true, if_true]; rfl
          · simp only [h2, decide_false, if_false, Bool.false_eq_true]
            by_cases hv : valid (payloadBytes ((rd file offset).toNat, List.take (((rd file offset).toNat + 7) / 8) (List.drop (offset + 1) file.toList))) = true
            · simp [hv, mn_obind_ok, Outcome.bind]
            · simp [hv, mn_obind_ok, Outcome.bind]

/-- … hence the model's string view: the same acceptance, the same faults, the view of the accepted payload -/
theorem mapped_str_view_eq (m : Mode) (valid : List UInt8 → Bool) (file : Array Word) (offset : Nat) :
    View.str m valid file offset = (gen_MappedStr_new m valid file offset).bind (fun r => ok (mn_bytesView r)) := by
  rw [mapped_str_new_eq_bytes]
  unfold View.str
  rw [mapped_bytes_view_eq]
  cases hg : gen_MappedBytes_new m file offset with
  | fault e => rfl
  | ok r =>
    by_cases hv : valid (List.take r.data.1 (toBytes r.data.2)) = true
    · simp [hv, Outcome.bind, mn_bytesView, payloadBytes, mn_bind_def]
    · simp [hv, Outcome.bind, mn_bytesView, payloadBytes, mn_bind_def]

/-! ### `MappedOption<T>::new` -/

/-- what a `MappedOption` denotes, given what its inner view denotes -/
def mn_optionView (toV : MappedSliceR → View) (r : MappedOptionR) : View × Bool :=
  (⟨r.offset, r.dataLen + 1, r.dataLen, match r.data with | some d => (toV d).payload | none => []⟩, r.data.isSome)

/-- `MappedOption<T>::new` as translated, for ANY inner constructor `T::new` (a parameter) and any reading `toV` of its
result: the model's optional view is exactly the image of what the code returns, faults included -/
theorem mapped_option_view_eq (m : Mode) (inner : Array Word → Nat → Outcome MappedSliceR) (toV : MappedSliceR → View)
    (file : Array Word) (offset : Nat) :
    View.option m (fun f o => (inner f o).bind (fun r => ok (toV r))) file offset
      = (gen_MappedOption_new m inner file offset).bind (fun r => ok (mn_optionView toV r)) := by
  unfold gen_MappedOption_new View.option
  by_cases h : offset ≥ file.size
  · simp only [h, decide_true, if_true]; rfl
  · have hlt : offset < file.size := by omega
    simp only [h, decide_false, if_false, mn_bind_def, Bool.false_eq_true]
    rw [mn_getC_lt hlt, mn_fileAt_lt hlt]
    simp only [mn_obind_ok]
    by_cases hd : (rd file offset).toNat > 0
    · simp only [hd, decide_true, if_true]
      cases addM m offset 1 with
      | fault e => rfl
      | ok a =>
        simp only [mn_obind_ok]
        cases inner file a with
        | fault e => rfl
        | ok v => rfl
    · have h0 : (rd file offset).toNat = 0 := by omega
      simp only [hd, decide_false, if_false, Bool.false_eq_true]
      show _ = ok (mn_optionView toV ⟨none, offset, (rd file offset).toNat⟩)
      rw [h0]; rfl

/-- non-vacuity: an absent and a present optional byte view -/
example : gen_MappedOption_new .checked (gen_MappedBytes_new .checked) #[0, 9] 0 = ok ⟨none, 0, 0⟩ ∧
    gen_MappedOption_new .checked (gen_MappedBytes_new .checked) #[2, 3, 0x616263] 0
      = ok ⟨some ⟨(3, [0x616263]), 1⟩, 0, 2⟩ := by decide

theorem mapped_bytes_map_len_eq' (m : Mode) (r : MappedSliceR) :
    gen_MappedBytes_map_len m r = (bytesToWords m r.data.1).bind (fun t => addM m t 1) := by
  unfold gen_MappedBytes_map_len
  rw [mn_gen_bytes_to_words]
  cases bytesToWords m r.data.1 with
  | fault e => rfl
  | ok t => simp only [mn_bind_def, mn_obind_ok]

theorem mn_bytesToWords_eq' (m : Mode) (n : Nat) : bytesToWords m n = (addM m n 7).bind (fun a => ok (a / 8)) := by
  unfold bytesToWords
  cases addM m n 7 <;> rfl

/-- for EVERY record: `map_len` returns the model's `mapLen = (len + 7) / 8 + 1` exactly when `len + 7` is a `usize` -/
theorem mapped_bytes_map_len_iff (m : Mode) (r : MappedSliceR) :
    gen_MappedBytes_map_len m r = ok (mn_bytesView r).mapLen ↔ r.data.1 + 7 < U64 := by
  rw [mapped_bytes_map_len_eq', mn_bytesToWords_eq']
  show ((addM m r.data.1 7).bind (fun a => ok (a / 8))).bind (fun t => addM m t 1) = ok ((r.data.1 + 7) / 8 + 1) ↔ _
  have hU : U64 = 18446744073709551616 := rfl
  constructor
  · intro h
    cases h1 : addM m r.data.1 7 with
    | fault e => rw [h1] at h; cases h
    | ok a =>
      rw [h1, mn_obind_ok, mn_obind_ok] at h
      have ha := mn_addM_lt h1
      have hm := mn_addM_mod h1
      rw [addM_ok (by omega)] at h
      injection h with h
      by_cases hlt : r.data.1 + 7 < U64
      · exact hlt
      · exfalso; omega
  · intro h
    rw [addM_ok h, mn_obind_ok, mn_obind_ok, addM_ok (by omega)]

theorem mapped_bytes_new_checked_bound {file : Array Word} {offset : Nat} {r : MappedSliceR}
    (h : gen_MappedBytes_new .checked file offset = ok r) :
    r.offset + ((r.data.1 + 7) / 8 + 1) ≤ file.size ∧ r.data.1 + 7 < U64 := by
  obtain ⟨_, ho, _, _, a, b, e, h1, h2, h3, h4⟩ := mn_bytes_new_ok h
  have := mn_addM_checked h1
  rw [mn_bytesToWords_eq'] at h2
  cases h5 : addM .checked r.data.1 7 with
  | fault e => rw [h5] at h2; cases h2
  | ok c =>
    rw [h5, mn_obind_ok] at h2
    injection h2 with h2
    have := mn_addM_checked h5
    have := mn_addM_checked h3
    rw [ho]; omega

theorem mapped_bytes_map_len_of_new {m : Mode} {file : Array Word} {offset : Nat} {r : MappedSliceR}
    (h : gen_MappedBytes_new m file offset = ok r) (hb : m = .checked ∨ r.data.1 + 7 < U64) :
    gen_MappedBytes_map_len m r = ok (mn_bytesView r).mapLen := by
  rw [mapped_bytes_map_len_iff]
  cases hb with
  | inl hm => subst hm; exact (mapped_bytes_new_checked_bound h).2
  | inr hb => exact hb

theorem mapped_bytes_map_of_view {m : Mode} {file : Array Word} {offset : Nat} {r : MappedSliceR} {v : View}
    (h : gen_MappedBytes_new m file offset = ok r) (hv : View.bytes m file offset = ok v) :
    v = mn_bytesView r ∧ gen_MappedSlice_map_offset m r = ok v.offset ∧
    (gen_MappedBytes_map_len m r = ok v.mapLen ↔ v.len + 7 < U64) ∧ (m = .checked → v.len + 7 < U64) := by
  rw [mapped_bytes_view_eq, h, mn_obind_ok] at hv
  injection hv with hv; subst hv
  refine ⟨rfl, rfl, mapped_bytes_map_len_iff m r, ?_⟩
  intro hm; subst hm
  exact (mapped_bytes_new_checked_bound h).2

/-- without overflow checks `bytes_to_words(len)` wraps for the seven largest lengths: the header is accepted,
`map_len()` is 1, the model's `mapLen` is `2^61 + 1` -/
theorem mapped_bytes_map_len_wrapping_ne :
    (gen_MappedBytes_new .wrapping #[0xFFFFFFFFFFFFFFFF#64] 0).bind (gen_MappedBytes_map_len .wrapping) = ok 1 ∧
    (View.bytes .wrapping #[0xFFFFFFFFFFFFFFFF#64] 0).bind (fun v => ok v.mapLen) = ok (2 ^ 61 + 1) ∧
    gen_MappedBytes_new .checked #[0xFFFFFFFFFFFFFFFF#64] 0 = fault (.panic .overflow) ∧
    View.bytes .checked #[0xFFFFFFFFFFFFFFFF#64] 0 = fault (.panic .overflow) := by
  decide +kernel

/-! ### more arithmetic facts -/

/-- `(a + b) - b` in the mode's arithmetic is `a` for a `usize` `a`, in either mode (the wrapped sum unwraps) -/
theorem mn_sub_add {m : Mode} {a b c : Nat} (ha : a < U64) (hb : b < U64) (h : addM m a b = ok c) :
    subM m c b = ok a := by
  have hU : U64 = 18446744073709551616 := rfl
  have hc := mn_addM_mod h
  cases m with
  | checked =>
    have := mn_addM_checked h
    rw [subM_ok (by omega)]; congr 1; omega
  | wrapping =>
    unfold subM
    rw [hU] at hc ha hb ⊢
    by_cases hle : b ≤ c
    · rw [if_pos hle]; congr 1; omega
    · rw [if_neg hle]; show ok _ = ok _; congr 1; omega

theorem mn_subM_wrapping (a b : Nat) : ∃ d, subM .wrapping a b = ok d := by
  unfold subM
  by_cases hle : b ≤ a
  · exact ⟨_, by rw [if_pos hle]⟩
  · exact ⟨_, by rw [if_neg hle]⟩

theorem mn_addM_fault {m : Mode} {a b : Nat} {f : Fault} (h : addM m a b = fault f) :
    f = .panic .overflow ∧ m = .checked := by
  unfold addM at h
  by_cases hlt : a + b < U64
  · rw [if_pos hlt] at h; cases h
  · rw [if_neg hlt] at h
    cases m with
    | checked => injection h with h; exact ⟨h.symm, rfl⟩
    | wrapping => cases h

theorem mn_mulM_fault {m : Mode} {a b : Nat} {f : Fault} (h : mulM m a b = fault f) :
    f = .panic .overflow ∧ m = .checked := by
  unfold mulM at h
  by_cases hlt : a * b < U64
  · rw [if_pos hlt] at h; cases h
  · rw [if_neg hlt] at h
    cases m with
    | checked => injection h with h; exact ⟨h.symm, rfl⟩
    | wrapping => cases h

/-- chaining `+ c` on a `map_len` that is exact when representable -/
theorem mn_chain_add (m : Mode) (X : Outcome Nat) (n c : Nat) (hX : n < U64 → X = ok n) :
    X.bind (fun t => addM m t c) = ok (n + c) ↔ n + c < U64 := by
  constructor
  · intro h
    cases h1 : X with
    | fault e => rw [h1] at h; cases h
    | ok t => rw [h1, mn_obind_ok] at h; exact mn_addM_lt h
  · intro h
    rw [hX (by omega), mn_obind_ok, addM_ok h]

/-! ### the faults of `MappedSlice::new` / `MappedBytes::new`

Only `UnexpectedEof` and, with overflow checks, the arithmetic panic: the read `slice[offset]` is guarded. -/

theorem mapped_slice_new_fault {m : Mode} {k : Nat} {file : Array Word} {offset : Nat} {f : Fault}
    (h : gen_MappedSlice_new m k file offset = fault f) :
    f = .err .eof ∨ (f = .panic .overflow ∧ m = .checked) := by
  unfold gen_MappedSlice_new at h
  by_cases h0 : offset ≥ file.size
  · simp only [h0, decide_true, if_true] at h; injection h with h; exact Or.inl h.symm
  · have hlt : offset < file.size := by omega
    simp only [h0, decide_false, if_false, mn_bind_def, Bool.false_eq_true] at h
    rw [mn_getC_lt hlt] at h
    simp only [mn_obind_ok] at h
    cases h1 : addM m offset 1 with
    | fault e => rw [h1] at h; injection h with h; subst h; exact Or.inr (mn_addM_fault h1)
    | ok a =>
      rw [h1] at h; simp only [mn_obind_ok] at h
      cases h2 : mulM m (rd file offset).toNat k with
      | fault e => rw [h2] at h; injection h with h; subst h; exact Or.inr (mn_mulM_fault h2)
      | ok b =>
        rw [h2] at h; simp only [mn_obind_ok] at h
        cases h3 : addM m a b with
        | fault e => rw [h3] at h; injection h with h; subst h; exact Or.inr (mn_addM_fault h3)
        | ok e =>
          rw [h3] at h; simp only [mn_obind_ok] at h
          by_cases h4 : e > file.size
          · simp only [h4, decide_true, if_true] at h; injection h with h; exact Or.inl h.symm
          · simp only [h4, decide_false, if_false, Bool.false_eq_true] at h; cases h

theorem mapped_bytes_new_fault {m : Mode} {file : Array Word} {offset : Nat} {f : Fault}
    (h : gen_MappedBytes_new m file offset = fault f) :
    f = .err .eof ∨ (f = .panic .overflow ∧ m = .checked) := by
  unfold gen_MappedBytes_new at h
  by_cases h0 : offset ≥ file.size
  · simp only [h0, decide_true, if_true] at h; injection h with h; exact Or.inl h.symm
  · have hlt : offset < file.size := by omega
    simp only [h0, decide_false, if_false, mn_bind_def, Bool.false_eq_true] at h
    rw [mn_getC_lt hlt] at h
    simp only [mn_obind_ok, mn_gen_bytes_to_words, mn_bytesToWords_eq'] at h
    cases h1 : addM m offset 1 with
    | fault e => rw [h1] at h; injection h with h; subst h; exact Or.inr (mn_addM_fault h1)
    | ok a =>
      rw [h1] at h; simp only [mn_obind_ok] at h
      cases h2 : addM m (rd file offset).toNat 7 with
      | fault e => rw [h2] at h; injection h with h; subst h; exact Or.inr (mn_addM_fault h2)
      | ok b =>
        rw [h2] at h; simp only [mn_obind_ok] at h
        cases h3 : addM m a (b / 8) with
        | fault e => rw [h3] at h; injection h with h; subst h; exact Or.inr (mn_addM_fault h3)
        | ok e =>
          rw [h3] at h; simp only [mn_obind_ok] at h
          by_cases h4 : e > file.size
          · simp only [h4, decide_true, if_true] at h; injection h with h; exact Or.inl h.symm
          · simp only [h4, decide_false, if_false, Bool.false_eq_true] at h; cases h

/-! ### `RawVectorMapper::new` -/

/-- the view of a `RawVectorMapper` record, computed as the code's `map_offset()` does (`data.map_offset() - 1`);
`mapLen` is the model's unbounded `len * 1 + 1 + 1` -/
def mn_rawView (m : Mode) (r : RawMapperR) : Outcome View :=
  (subM m r.data.offset 1).bind (fun mo => ok ⟨mo, r.data.data.1 * 1 + 1 + 1, r.len, r.data.data.2⟩)

/-- `RawVectorMapper::new`, unconditional: the model's view is the view of the code's record.  The record stores the
inner slice (at `offset + 1`), the model subtracts the 1 at once; that subtraction is the one `map_offset()` performs. -/
theorem raw_mapper_view_eq (m : Mode) (file : Array Word) (offset : Nat) :
    View.raw m file offset = (gen_RawVectorMapper_new m file offset).bind (mn_rawView m) := by
  unfold gen_RawVectorMapper_new View.raw
  by_cases h : offset ≥ file.size
  · simp only [h, decide_true, if_true]; rfl
  · have hlt : offset < file.size := by omega
    simp only [h, decide_false, if_false, mn_bind_def, Bool.false_eq_true]
    rw [mn_getC_lt hlt, mn_fileAt_lt hlt]
    simp only [mn_obind_ok]
    cases addM m offset 1 with
    | fault e => rfl
    | ok a =>
      simp only [mn_obind_ok]
      rw [mapped_slice_view_eq]
      cases gen_MappedSlice_new m 1 file a with
      | fault e => rfl
      | ok d => rfl

theorem mn_raw_new_ok {m : Mode} {file : Array Word} {offset : Nat} {r : RawMapperR}
    (h : gen_RawVectorMapper_new m file offset = ok r) :
    offset < file.size ∧ r.len = (rd file offset).toNat ∧
    ∃ a, addM m offset 1 = ok a ∧ gen_MappedSlice_new m 1 file a = ok r.data := by
  unfold gen_RawVectorMapper_new at h
  by_cases h0 : offset ≥ file.size
  · simp only [h0, decide_true, if_true] at h; cases h
  · have hlt : offset < file.size := by omega
    simp only [h0, decide_false, if_false, mn_bind_def, Bool.false_eq_true] at h
    rw [mn_getC_lt hlt] at h
    simp only [mn_obind_ok] at h
    cases h1 : addM m offset 1 with
    | fault e => rw [h1] at h; cases h
    | ok a =>
      rw [h1] at h; simp only [mn_obind_ok] at h
      cases h2 : gen_MappedSlice_new m 1 file a with
      | fault e => rw [h2] at h; cases h
      | ok d =>
        rw [h2] at h; simp only [mn_obind_ok] at h
        injection h with h; subst h
        exact ⟨hlt, rfl, a, rfl, h2⟩

/-- after a successful `new` the subtraction of `map_offset()` does not fault, and gives back the offset -/
theorem mn_raw_new_sub {m : Mode} {file : Array Word} {offset : Nat} {r : RawMapperR}
    (h : gen_RawVectorMapper_new m file offset = ok r) :
    ∃ mo, subM m r.data.offset 1 = ok mo ∧ (offset < U64 → mo = offset) ∧
      r.data.offset = (offset + 1) % U64 := by
  obtain ⟨_, _, a, h1, h2⟩ := mn_raw_new_ok h
  obtain ⟨_, ho, _⟩ := mn_slice_new_ok h2
  rw [ho]
  obtain ⟨mo, hmo⟩ := mn_subM_after_addM (by decide) (by decide) h1
  refine ⟨mo, hmo, ?_, mn_addM_mod h1⟩
  intro hlt
  rw [mn_sub_add hlt (by decide) h1] at hmo
  injection hmo with hmo; exact hmo.symm

/-- the faults of `RawVectorMapper::new` -/
theorem raw_mapper_new_fault {m : Mode} {file : Array Word} {offset : Nat} {f : Fault}
    (h : gen_RawVectorMapper_new m file offset = fault f) :
    f = .err .eof ∨ (f = .panic .overflow ∧ m = .checked) := by
  unfold gen_RawVectorMapper_new at h
  by_cases h0 : offset ≥ file.size
  · simp only [h0, decide_true, if_true] at h; injection h with h; exact Or.inl h.symm
  · have hlt : offset < file.size := by omega
    simp only [h0, decide_false, if_false, mn_bind_def, Bool.false_eq_true] at h
    rw [mn_getC_lt hlt] at h
    simp only [mn_obind_ok] at h
    cases h1 : addM m offset 1 with
    | fault e => rw [h1] at h; injection h with h; subst h; exact Or.inr (mn_addM_fault h1)
    | ok a =>
      rw [h1] at h; simp only [mn_obind_ok] at h
      cases h2 : gen_MappedSlice_new m 1 file a with
      | fault e => rw [h2] at h; injection h with h; subst h; exact mapped_slice_new_fault h2
      | ok d => rw [h2] at h; cases h

/-- converse direction, unconditional: the record is determined by the view and the offset (the inner slice has
`mapLen - 2` items and starts at `offset + 1`, wrapped in a release build) -/
theorem raw_mapper_new_eq (m : Mode) (file : Array Word) (offset : Nat) :
    gen_RawVectorMapper_new m file offset
      = (View.raw m file offset).bind
          (fun v => ok ⟨v.len, ⟨(v.mapLen - 2, v.payload), (offset + 1) % U64⟩⟩) := by
  rw [raw_mapper_view_eq]
  cases h : gen_RawVectorMapper_new m file offset with
  | fault e => rfl
  | ok r =>
    obtain ⟨mo, hmo, _, ho⟩ := mn_raw_new_sub h
    rw [mn_obind_ok]
    unfold mn_rawView
    rw [hmo, mn_obind_ok, mn_obind_ok]
    congr 1
    obtain ⟨len, ⟨n, pl⟩, off⟩ := r
    simp only at ho
    subst ho
    simp only [RawMapperR.mk.injEq, MappedSliceR.mk.injEq, Prod.mk.injEq, true_and, and_true]
    omega

/-- for files below `2^64` elements the slice starts at `v.offset + 1` -/
theorem raw_mapper_new_eq_of_size (m : Mode) (file : Array Word) (offset : Nat) (hsz : file.size < U64) :
    gen_RawVectorMapper_new m file offset
      = (View.raw m file offset).bind
          (fun v => ok ⟨v.len, ⟨(v.mapLen - 2, v.payload), v.offset + 1⟩⟩) := by
  rw [raw_mapper_view_eq]
  cases h : gen_RawVectorMapper_new m file offset with
  | fault e => rfl
  | ok r =>
    obtain ⟨mo, hmo, hoff, ho⟩ := mn_raw_new_sub h
    have hlt := (mn_raw_new_ok h).1
    have hmo' := hoff (by omega)
    rw [mn_obind_ok]
    unfold mn_rawView
    rw [hmo, mn_obind_ok, mn_obind_ok]
    congr 1
    obtain ⟨len, ⟨n, pl⟩, off⟩ := r
    simp only at ho
    rw [Nat.mod_eq_of_lt (by omega)] at ho
    subst ho; subst hmo'
    simp only [RawMapperR.mk.injEq, MappedSliceR.mk.injEq, Prod.mk.injEq, true_and, and_true]
    omega

/-- `map_offset()` of EVERY record is the offset of its view (same subtraction, same fault) -/
theorem raw_mapper_map_offset_eq (m : Mode) (r : RawMapperR) :
    gen_RawVectorMapper_map_offset m r = (mn_rawView m r).bind (fun v => ok v.offset) := by
  unfold gen_RawVectorMapper_map_offset gen_MappedSlice_map_offset mn_rawView
  simp only [mn_bind_def, pure_eq, mn_obind_ok]
  cases subM m r.data.offset 1 <;> rfl

theorem raw_mapper_map_len_eq' (m : Mode) (r : RawMapperR) :
    gen_RawVectorMapper_map_len m r = (gen_MappedSlice_map_len m 1 r.data).bind (fun t => addM m t 1) := by
  unfold gen_RawVectorMapper_map_len
  cases gen_MappedSlice_map_len m 1 r.data with
  | fault e => rfl
  | ok t => simp only [mn_bind_def, mn_obind_ok]

/-- `map_len()` of EVERY record is the model's `mapLen` exactly when that number is a `usize` -/
theorem raw_mapper_map_len_iff (m : Mode) (r : RawMapperR) :
    gen_RawVectorMapper_map_len m r = ok (r.data.data.1 * 1 + 1 + 1) ↔ r.data.data.1 * 1 + 1 + 1 < U64 := by
  rw [raw_mapper_map_len_eq']
  exact mn_chain_add m _ _ 1 (fun h => (mapped_slice_map_len_iff m 1 r.data).mpr h)

theorem raw_mapper_new_checked_bound {file : Array Word} {offset : Nat} {r : RawMapperR}
    (h : gen_RawVectorMapper_new .checked file offset = ok r) :
    offset + (r.data.data.1 * 1 + 1 + 1) ≤ file.size ∧ offset + (r.data.data.1 * 1 + 1 + 1) < U64 := by
  obtain ⟨_, _, a, h1, h2⟩ := mn_raw_new_ok h
  obtain ⟨_, ho, _⟩ := mn_slice_new_ok h2
  have hb := mapped_slice_new_checked_bound h2
  have := mn_addM_checked h1
  rw [ho] at hb
  omega

/-- records produced by `new`: `map_offset()` is the model view's `offset` (and the offset passed to `new`),
`map_len()` is its `mapLen` whenever that is a `usize`, which is always the case with overflow checks -/
theorem raw_mapper_map_of_view {m : Mode} {file : Array Word} {offset : Nat} {r : RawMapperR} {v : View}
    (h : gen_RawVectorMapper_new m file offset = ok r) (hv : View.raw m file offset = ok v) :
    mn_rawView m r = ok v ∧ gen_RawVectorMapper_map_offset m r = ok v.offset ∧
    (gen_RawVectorMapper_map_len m r = ok v.mapLen ↔ v.mapLen < U64) ∧
    (m = .checked → v.offset + v.mapLen ≤ file.size ∧ v.mapLen < U64) ∧
    (offset < U64 → v.offset = offset) := by
  rw [raw_mapper_view_eq, h, mn_obind_ok] at hv
  obtain ⟨mo, hmo, hoff, _⟩ := mn_raw_new_sub h
  have hv' := hv
  unfold mn_rawView at hv'
  rw [hmo, mn_obind_ok] at hv'
  injection hv' with hv'
  refine ⟨hv, ?_, ?_, ?_, ?_⟩
  · rw [raw_mapper_map_offset_eq, hv]; rfl
  · subst hv'; exact raw_mapper_map_len_iff m r
  · intro hm; subst hm
    have hb := raw_mapper_new_checked_bound h
    have := hoff (by omega)
    subst hv'; subst this
    show mo + (r.data.data.1 * 1 + 1 + 1) ≤ file.size ∧ r.data.data.1 * 1 + 1 + 1 < U64
    omega
  · intro hlt; subst hv'; exact hoff hlt

theorem raw_mapper_map_len_of_new {m : Mode} {file : Array Word} {offset : Nat} {r : RawMapperR}
    (h : gen_RawVectorMapper_new m file offset = ok r) (hb : m = .checked ∨ r.data.data.1 + 2 < U64) :
    gen_RawVectorMapper_map_len m r = ok (r.data.data.1 * 1 + 1 + 1) := by
  rw [raw_mapper_map_len_iff]
  cases hb with
  | inl hm => subst hm; have := raw_mapper_new_checked_bound h; omega
  | inr hb => omega

/-- without overflow checks a data length of `2^64 - 1` words passes the wrapped bounds test of the inner slice:
`map_len()` wraps to 1, the model's `mapLen` is `2^64 + 1`; with overflow checks both panic -/
theorem raw_mapper_map_len_wrapping_ne :
    (gen_RawVectorMapper_new .wrapping #[5#64, 0xFFFFFFFFFFFFFFFF#64] 0).bind (gen_RawVectorMapper_map_len .wrapping)
      = ok 1 ∧
    (View.raw .wrapping #[5#64, 0xFFFFFFFFFFFFFFFF#64] 0).bind (fun v => ok v.mapLen) = ok (U64 + 1) ∧
    (gen_RawVectorMapper_new .wrapping #[5#64, 0xFFFFFFFFFFFFFFFF#64] 0).bind (gen_RawVectorMapper_map_offset .wrapping)
      = ok 0 ∧
    gen_RawVectorMapper_new .checked #[5#64, 0xFFFFFFFFFFFFFFFF#64] 0 = fault (.panic .overflow) ∧
    View.raw .checked #[5#64, 0xFFFFFFFFFFFFFFFF#64] 0 = fault (.panic .overflow) := by
  decide +kernel

/-! ### `IntVectorMapper::new` -/

/-- the view (and width) of an `IntVectorMapper` record, offsets computed as `map_offset()` does -/
def mn_intView (m : Mode) (r : IntMapperR) : Outcome (View × Nat) :=
  (mn_rawView m r.data).bind (fun d => (subM m d.offset 2).bind (fun mo =>
    ok (⟨mo, d.mapLen + 2, r.len, d.payload⟩, r.width)))

/-- the only difference between the code and the model: the code reads the width at the COMPUTED `offset + 1`
(wrapped in a release build), the model at the exact `offset + 1`.  They are the same index unless
`offset + 1 = 2^64` with `offset` inside the file, i.e. a map of at least `2^64` elements. -/
theorem int_mapper_view_eq (m : Mode) (file : Array Word) (offset : Nat)
    (hoff : m = .wrapping → offset < file.size → offset + 1 < U64) :
    View.int m file offset = (gen_IntVectorMapper_new m file offset).bind (mn_intView m) := by
  unfold gen_IntVectorMapper_new View.int
  by_cases h : offset ≥ file.size
  · simp only [h, decide_true, if_true]; rfl
  · have hlt : offset < file.size := by omega
    simp only [h, decide_false, if_false, mn_bind_def, Bool.false_eq_true]
    cases h1 : addM m offset 1 with
    | fault e => rfl
    | ok a =>
      have ha : a = offset + 1 := by
        cases m with
        | checked => exact (mn_addM_checked h1).2
        | wrapping => rw [addM_ok (hoff rfl hlt)] at h1; injection h1 with h1; exact h1.symm
      subst ha
      simp only [mn_obind_ok, pure_eq]
      by_cases h2 : offset + 1 ≥ file.size
      · simp only [h2, decide_true, if_true]; rfl
      · have hlt2 : offset + 1 < file.size := by omega
        simp only [h2, decide_false, if_false, Bool.false_eq_true]
        rw [mn_getC_lt hlt, mn_fileAt_lt hlt, mn_getC_lt hlt2, mn_fileAt_lt hlt2]
        simp only [mn_obind_ok]
        cases addM m offset 2 with
        | fault e => rfl
        | ok o2 =>
          simp only [mn_obind_ok]
          rw [raw_mapper_view_eq]
          cases gen_RawVectorMapper_new m file o2 with
          | fault e => rfl
          | ok d => rfl

theorem int_mapper_view_eq_of_size (m : Mode) (file : Array Word) (offset : Nat) (hsz : file.size < U64) :
    View.int m file offset = (gen_IntVectorMapper_new m file offset).bind (mn_intView m) :=
  int_mapper_view_eq m file offset (fun _ h => by omega)

theorem int_mapper_view_eq_checked (file : Array Word) (offset : Nat) :
    View.int .checked file offset = (gen_IntVectorMapper_new .checked file offset).bind (mn_intView .checked) :=
  int_mapper_view_eq .checked file offset (fun h => by cases h)

theorem mn_int_new_ok {m : Mode} {file : Array Word} {offset : Nat} {r : IntMapperR}
    (h : gen_IntVectorMapper_new m file offset = ok r) :
    offset < file.size ∧ r.len = (rd file offset).toNat ∧
    (∃ a, addM m offset 1 = ok a ∧ a < file.size ∧ r.width = (rd file a).toNat) ∧
    ∃ o2, addM m offset 2 = ok o2 ∧ gen_RawVectorMapper_new m file o2 = ok r.data := by
  unfold gen_IntVectorMapper_new at h
  by_cases h0 : offset ≥ file.size
  · simp only [h0, decide_true, if_true, mn_bind_def, pure_eq, mn_obind_ok] at h; cases h
  · have hlt : offset < file.size := by omega
    simp only [h0, decide_false, if_false, mn_bind_def, Bool.false_eq_true] at h
    cases h1 : addM m offset 1 with
    | fault e => rw [h1] at h; cases h
    | ok a =>
      rw [h1] at h
      simp only [mn_obind_ok, pure_eq] at h
      by_cases h2 : a ≥ file.size
      · simp only [h2, decide_true, if_true] at h; cases h
      · have hlt2 : a < file.size := by omega
        simp only [h2, decide_false, if_false, Bool.false_eq_true] at h
        rw [mn_getC_lt hlt, mn_obind_ok, mn_getC_lt hlt2, mn_obind_ok] at h
        cases h3 : addM m offset 2 with
        | fault e => rw [h3] at h; cases h
        | ok o2 =>
          rw [h3, mn_obind_ok] at h
          cases h4 : gen_RawVectorMapper_new m file o2 with
          | fault e => rw [h4] at h; cases h
          | ok d =>
            rw [h4, mn_obind_ok] at h
            injection h with h; subst h
            exact ⟨hlt, rfl, ⟨a, rfl, hlt2, rfl⟩, o2, rfl, h4⟩

/-- the faults of `IntVectorMapper::new` (the code): `UnexpectedEof` and the arithmetic panic only; both reads are
guarded by the tests on the very indices that are read -/
theorem int_mapper_new_fault {m : Mode} {file : Array Word} {offset : Nat} {f : Fault}
    (h : gen_IntVectorMapper_new m file offset = fault f) :
    f = .err .eof ∨ (f = .panic .overflow ∧ m = .checked) := by
  unfold gen_IntVectorMapper_new at h
  by_cases h0 : offset ≥ file.size
  · simp only [h0, decide_true, if_true, mn_bind_def, pure_eq, mn_obind_ok] at h
    injection h with h; exact Or.inl h.symm
  · have hlt : offset < file.size := by omega
    simp only [h0, decide_false, if_false, mn_bind_def, Bool.false_eq_true] at h
    cases h1 : addM m offset 1 with
    | fault e => rw [h1] at h; injection h with h; subst h; exact Or.inr (mn_addM_fault h1)
    | ok a =>
      rw [h1] at h
      simp only [mn_obind_ok, pure_eq] at h
      by_cases h2 : a ≥ file.size
      · simp only [h2, decide_true, if_true] at h; injection h with h; exact Or.inl h.symm
      · have hlt2 : a < file.size := by omega
        simp only [h2, decide_false, if_false, Bool.false_eq_true] at h
        rw [mn_getC_lt hlt, mn_obind_ok, mn_getC_lt hlt2, mn_obind_ok] at h
        cases h3 : addM m offset 2 with
        | fault e => rw [h3] at h; injection h with h; subst h; exact Or.inr (mn_addM_fault h3)
        | ok o2 =>
          rw [h3, mn_obind_ok] at h
          cases h4 : gen_RawVectorMapper_new m file o2 with
          | fault e => rw [h4] at h; injection h with h; subst h; exact raw_mapper_new_fault h4
          | ok d => rw [h4] at h; cases h

/-- after a successful `new` neither subtraction of `map_offset()` faults, and the result is the offset -/
theorem mn_int_new_sub {m : Mode} {file : Array Word} {offset : Nat} {r : IntMapperR}
    (h : gen_IntVectorMapper_new m file offset = ok r) :
    ∃ mo1 mo, subM m r.data.data.offset 1 = ok mo1 ∧ subM m mo1 2 = ok mo ∧ (offset < U64 → mo = offset) ∧
      mo1 = (offset + 2) % U64 := by
  obtain ⟨_, _, _, o2, h3, h4⟩ := mn_int_new_ok h
  obtain ⟨mo1, hmo1, hoff1, _⟩ := mn_raw_new_sub h4
  have ho2 := mn_addM_lt h3
  have h1 := hoff1 ho2
  subst h1
  obtain ⟨mo, hmo⟩ := mn_subM_after_addM (by decide) (by decide) h3
  refine ⟨mo1, mo, hmo1, hmo, ?_, mn_addM_mod h3⟩
  intro hlt
  rw [mn_sub_add hlt (by decide) h3] at hmo
  injection hmo with hmo; exact hmo.symm

/-- converse direction: length and width are the view's, the data is the `RawVectorMapper` at `offset + 2`.  (The
model's view does not keep the bit length of the raw vector, so the record is not a function of the view alone.) -/
theorem int_mapper_new_eq (m : Mode) (file : Array Word) (offset : Nat)
    (hoff : m = .wrapping → offset < file.size → offset + 1 < U64) :
    gen_IntVectorMapper_new m file offset
      = (View.int m file offset).bind (fun vw =>
          (gen_RawVectorMapper_new m file ((offset + 2) % U64)).bind (fun d => ok ⟨vw.1.len, vw.2, d⟩)) := by
  rw [int_mapper_view_eq m file offset hoff]
  cases h : gen_IntVectorMapper_new m file offset with
  | fault e => rfl
  | ok r =>
    obtain ⟨mo1, mo, hmo1, hmo, _, _⟩ := mn_int_new_sub h
    obtain ⟨_, _, _, o2, h3, h4⟩ := mn_int_new_ok h
    rw [← mn_addM_mod h3, h4, mn_obind_ok]
    unfold mn_intView mn_rawView
    rw [hmo1]
    simp only [mn_obind_ok]
    rw [hmo]
    rfl

theorem int_mapper_new_eq_of_size (m : Mode) (file : Array Word) (offset : Nat) (hsz : file.size < U64) :
    gen_IntVectorMapper_new m file offset
      = (View.int m file offset).bind (fun vw =>
          (gen_RawVectorMapper_new m file (offset + 2)).bind (fun d => ok ⟨vw.1.len, vw.2, d⟩)) := by
  by_cases h : offset + 2 < U64
  · have := int_mapper_new_eq m file offset (fun _ h => by omega)
    rw [Nat.mod_eq_of_lt h] at this; exact this
  · -- `offset + 2 ≥ 2^64 > file.size + 1`: both sides are `UnexpectedEof`
    unfold gen_IntVectorMapper_new View.int
    by_cases h1 : offset ≥ file.size
    · simp only [h1, decide_true, if_true]; rfl
    · have h2 : offset + 1 ≥ file.size := by omega
      simp only [h1, decide_false, if_false, mn_bind_def, Bool.false_eq_true]
      rw [addM_ok (by omega)]
      simp only [mn_obind_ok, pure_eq, h2, decide_true, if_true]; rfl

/-- `map_offset()` of EVERY record is the offset of its view -/
theorem int_mapper_map_offset_eq (m : Mode) (r : IntMapperR) :
    gen_IntVectorMapper_map_offset m r = (mn_intView m r).bind (fun vw => ok vw.1.offset) := by
  unfold gen_IntVectorMapper_map_offset mn_intView
  rw [raw_mapper_map_offset_eq]
  cases mn_rawView m r.data with
  | fault e => rfl
  | ok d =>
    simp only [mn_bind_def, mn_obind_ok]
    cases subM m d.offset 2 <;> rfl

theorem int_mapper_map_len_eq' (m : Mode) (r : IntMapperR) :
    gen_IntVectorMapper_map_len m r = (gen_RawVectorMapper_map_len m r.data).bind (fun t => addM m t 2) := by
  unfold gen_IntVectorMapper_map_len
  cases gen_RawVectorMapper_map_len m r.data with
  | fault e => rfl
  | ok t => simp only [mn_bind_def, mn_obind_ok]

/-- `map_len()` of EVERY record is the model's `mapLen` exactly when that number is a `usize` -/
theorem int_mapper_map_len_iff (m : Mode) (r : IntMapperR) :
    gen_IntVectorMapper_map_len m r = ok (r.data.data.data.1 * 1 + 1 + 1 + 2)
      ↔ r.data.data.data.1 * 1 + 1 + 1 + 2 < U64 := by
  rw [int_mapper_map_len_eq']
  exact mn_chain_add m _ _ 2 (fun h => (raw_mapper_map_len_iff m r.data).mpr h)

theorem int_mapper_new_checked_bound {file : Array Word} {offset : Nat} {r : IntMapperR}
    (h : gen_IntVectorMapper_new .checked file offset = ok r) :
    offset + (r.data.data.data.1 * 1 + 1 + 1 + 2) ≤ file.size ∧
    offset + (r.data.data.data.1 * 1 + 1 + 1 + 2) < U64 := by
  obtain ⟨_, _, _, o2, h3, h4⟩ := mn_int_new_ok h
  have hb := raw_mapper_new_checked_bound h4
  have := mn_addM_checked h3
  omega

/-- records produced by `new`: `map_offset()` is the model view's `offset` (and the offset passed to `new`),
`map_len()` is its `mapLen` whenever that is a `usize`, which is always the case with overflow checks -/
theorem int_mapper_map_of_view {m : Mode} {file : Array Word} {offset : Nat} {r : IntMapperR} {vw : View × Nat}
    (hoff : m = .wrapping → offset < file.size → offset + 1 < U64)
    (h : gen_IntVectorMapper_new m file offset = ok r) (hv : View.int m file offset = ok vw) :
    mn_intView m r = ok vw ∧ gen_IntVectorMapper_map_offset m r = ok vw.1.offset ∧
    (gen_IntVectorMapper_map_len m r = ok vw.1.mapLen ↔ vw.1.mapLen < U64) ∧
    (m = .checked → vw.1.offset + vw.1.mapLen ≤ file.size ∧ vw.1.mapLen < U64) ∧
    (offset < U64 → vw.1.offset = offset) ∧ vw.1.len = r.len ∧ vw.2 = r.width := by
  rw [int_mapper_view_eq m file offset hoff, h, mn_obind_ok] at hv
  obtain ⟨mo1, mo, hmo1, hmo, hoff', _⟩ := mn_int_new_sub h
  have hv' := hv
  unfold mn_intView mn_rawView at hv'
  rw [hmo1] at hv'
  simp only [mn_obind_ok] at hv'
  rw [hmo, mn_obind_ok] at hv'
  injection hv' with hv'
  refine ⟨hv, ?_, ?_, ?_, ?_, ?_, ?_⟩
  · rw [int_mapper_map_offset_eq, hv]; rfl
  · subst hv'; exact int_mapper_map_len_iff m r
  · intro hm; subst hm
    have hb := int_mapper_new_checked_bound h
    have := hoff' (by omega)
    subst hv'; subst this
    show mo + (r.data.data.data.1 * 1 + 1 + 1 + 2) ≤ file.size ∧ r.data.data.data.1 * 1 + 1 + 1 + 2 < U64
    omega
  · intro hlt; subst hv'; exact hoff' hlt
  · subst hv'; rfl
  · subst hv'; rfl

theorem int_mapper_map_len_of_new {m : Mode} {file : Array Word} {offset : Nat} {r : IntMapperR}
    (h : gen_IntVectorMapper_new m file offset = ok r) (hb : m = .checked ∨ r.data.data.data.1 + 4 < U64) :
    gen_IntVectorMapper_map_len m r = ok (r.data.data.data.1 * 1 + 1 + 1 + 2) := by
  rw [int_mapper_map_len_iff]
  cases hb with
  | inl hm => subst hm; have := int_mapper_new_checked_bound h; omega
  | inr hb => omega

/-- without overflow checks: the wrapped bounds test accepts `2^64 - 1` data words; `map_len()` is 3, the model's
`mapLen` is `2^64 + 3` -/
theorem int_mapper_map_len_wrapping_ne :
    (gen_IntVectorMapper_new .wrapping #[3#64, 7#64, 21#64, 0xFFFFFFFFFFFFFFFF#64] 0).bind
        (gen_IntVectorMapper_map_len .wrapping) = ok 3 ∧
    (View.int .wrapping #[3#64, 7#64, 21#64, 0xFFFFFFFFFFFFFFFF#64] 0).bind (fun v => ok v.1.mapLen) = ok (U64 + 3) ∧
    (gen_IntVectorMapper_new .wrapping #[3#64, 7#64, 21#64, 0xFFFFFFFFFFFFFFFF#64] 0).bind
        (gen_IntVectorMapper_map_offset .wrapping) = ok 0 ∧
    gen_IntVectorMapper_new .checked #[3#64, 7#64, 21#64, 0xFFFFFFFFFFFFFFFF#64] 0 = fault (.panic .overflow) ∧
    View.int .checked #[3#64, 7#64, 21#64, 0xFFFFFFFFFFFFFFFF#64] 0 = fault (.panic .overflow) := by
  decide +kernel

/-- the hypothesis `hoff` is sharp, but only on a map of `2^64` elements (no such slice exists: a Rust slice has at
most `isize::MAX` bytes): there the model reads the width at index `2^64` (an index panic) while the code reads it at
the wrapped index 0 and never panics on an index (`int_mapper_new_fault`).  Not a divergence of the real code. -/
theorem int_mapper_view_ne_huge (file : Array Word) (hs : file.size = U64) :
    View.int .wrapping file (U64 - 1) = fault (.panic .index) ∧
    gen_IntVectorMapper_new .wrapping file (U64 - 1) ≠ fault (.panic .index) := by
  constructor
  · unfold View.int
    have h0 : ¬ (U64 - 1 ≥ file.size) := by rw [hs]; decide
    have h1 : addM .wrapping (U64 - 1) 1 = ok 0 := by decide
    have h2 : ¬ (0 ≥ file.size) := by rw [hs]; decide
    have hlt : U64 - 1 < file.size := by rw [hs]; decide
    have hoob : fileAt file (U64 - 1 + 1) = fault (.panic .index) := by
      unfold fileAt
      rw [Array.getElem?_eq_none (by rw [hs]; decide)]
    simp only [h0, if_false, mn_bind_def, h1, mn_obind_ok, h2]
    rw [mn_fileAt_lt hlt, mn_obind_ok, hoob]; rfl
  · intro h
    cases int_mapper_new_fault h with
    | inl h => cases h
    | inr h => cases h.1

end Sds.GenEq
