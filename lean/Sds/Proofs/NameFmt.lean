/-
Proofs/NameFmt: the formatted temporary file name (Model/Atomic.lean: `decDigits`, `renderFmt`,
`tempFileNameText`) — decimal notation is injective and underscore-free, the name of shape
`part ++ "_" ++ dec pid ++ "_" ++ dec count` determines `count` (indeed all three arguments) whatever
the name part is, and it contains the name part.  Used by Props/C20.lean to pass from distinct counter
values to distinct path texts.
-/
import Sds.Model.Atomic
import Sds.Generated.TempName

namespace Sds.NameFmt
open Sds

/-! ### decimal digits -/

/-- the character of the digit `k` (meaningful for `k < 10`) -/
def digitChar (k : Nat) : Char := Char.ofNat (48 + k)

theorem digitChar_toNat {k : Nat} (h : k < 10) : (digitChar k).toNat = 48 + k := by
  have : k = 0 ∨ k = 1 ∨ k = 2 ∨ k = 3 ∨ k = 4 ∨ k = 5 ∨ k = 6 ∨ k = 7 ∨ k = 8 ∨ k = 9 := by omega
  rcases this with rfl | rfl | rfl | rfl | rfl | rfl | rfl | rfl | rfl | rfl <;> decide

/-- reference definition of decimal notation by recursion on the value (no fuel) -/
def digs (n : Nat) : List Char :=
  if n < 10 then [digitChar n] else digs (n / 10) ++ [digitChar (n % 10)]
termination_by n
decreasing_by omega

/-- any fuel larger than the number suffices -/
theorem decDigitsAux_eq (fuel : Nat) :
    ∀ (n : Nat) (acc : List Char), n < fuel → decDigitsAux fuel n acc = digs n ++ acc := by
  induction fuel with
  | zero => intro n acc h; omega
  | succ f ih =>
    intro n acc h
    rw [digs]
    simp only [decDigitsAux]
    by_cases h10 : n < 10
    · have h0 : n / 10 = 0 := by omega
      have hm : n % 10 = n := Nat.mod_eq_of_lt h10
      simp [h10, h0, hm, digitChar]
    · have h0 : ¬ n / 10 = 0 := by omega
      simp only [h0, h10, if_false]
      rw [ih (n / 10) _ (by omega)]
      simp [digitChar]

/-- the fuel `n + 1` used by `decDigits` always suffices: `decDigits` is decimal notation -/
theorem decDigits_eq_digs (n : Nat) : decDigits n = digs n := by
  unfold decDigits
  rw [decDigitsAux_eq (n + 1) n [] (by omega), List.append_nil]

/-- the fuel is never exhausted: more fuel gives the same digits -/
theorem decDigitsAux_fuel_irrelevant (n extra : Nat) :
    decDigitsAux (n + 1 + extra) n [] = decDigits n := by
  rw [decDigitsAux_eq _ n [] (by omega), List.append_nil, decDigits_eq_digs]

/-- a decimal digit character `'0'..'9'` (code points 48..57) -/
def IsDig (c : Char) : Prop := 48 ≤ c.toNat ∧ c.toNat ≤ 57

theorem digitChar_isDig {k : Nat} (h : k < 10) : IsDig (digitChar k) := by
  unfold IsDig; rw [digitChar_toNat h]; omega

theorem digs_isDig (n : Nat) : ∀ c ∈ digs n, IsDig c := by
  fun_induction digs n with
  | case1 n h =>
    intro c hc
    rw [List.mem_singleton] at hc
    subst hc; exact digitChar_isDig h
  | case2 n h ih =>
    intro c hc
    rw [List.mem_append, List.mem_singleton] at hc
    rcases hc with hc | hc
    · exact ih c hc
    · subst hc; exact digitChar_isDig (Nat.mod_lt _ (by omega))

/-- every character of `decDigits n` is one of `'0'..'9'` -/
theorem decDigits_isDig (n : Nat) : ∀ c ∈ decDigits n, IsDig c := by
  rw [decDigits_eq_digs]; exact digs_isDig n

theorem IsDig.isDigit {c : Char} (h : IsDig c) : c.isDigit = true := by
  obtain ⟨h1, h2⟩ := h
  have e : c.toNat = c.val.toNat := rfl
  simp only [Char.isDigit, Bool.and_eq_true, decide_eq_true_eq, UInt32.le_iff_toNat_le]
  rw [e] at h1 h2
  exact ⟨h1, h2⟩

theorem IsDig.le_chars {c : Char} (h : IsDig c) : '0' ≤ c ∧ c ≤ '9' := by
  obtain ⟨h1, h2⟩ := h
  have e : c.toNat = c.val.toNat := rfl
  rw [e] at h1 h2
  constructor
  · show ('0' : Char).val ≤ c.val
    rw [UInt32.le_iff_toNat_le]; exact h1
  · show c.val ≤ ('9' : Char).val
    rw [UInt32.le_iff_toNat_le]; exact h2

theorem IsDig.ne_underscore {c : Char} (h : IsDig c) : c ≠ '_' := by
  intro e
  subst e
  obtain ⟨_, h2⟩ := h
  have : ('_' : Char).toNat = 95 := by decide
  omega

/-- decimal notation never contains an underscore -/
theorem underscore_not_mem_decDigits (n : Nat) : '_' ∉ decDigits n := by
  intro h
  exact (decDigits_isDig n '_' h).ne_underscore rfl

theorem digs_ne_nil (n : Nat) : digs n ≠ [] := by
  rw [digs]
  split
  · simp
  · simp

theorem decDigits_ne_nil (n : Nat) : decDigits n ≠ [] := by
  rw [decDigits_eq_digs]; exact digs_ne_nil n

/-- the value denoted by a list of digit characters -/
def ofDigits (l : List Char) : Nat := l.foldl (fun a c => 10 * a + (c.toNat - 48)) 0

theorem ofDigits_snoc (l : List Char) (c : Char) :
    ofDigits (l ++ [c]) = 10 * ofDigits l + (c.toNat - 48) := by
  simp [ofDigits, List.foldl_append]

theorem ofDigits_digs (n : Nat) : ofDigits (digs n) = n := by
  fun_induction digs n with
  | case1 n h =>
    simp [ofDigits, digitChar_toNat h]
  | case2 n h ih =>
    rw [ofDigits_snoc, ih, digitChar_toNat (Nat.mod_lt _ (by omega))]
    omega

/-- `ofDigits` is a left inverse of `decDigits` … -/
theorem ofDigits_decDigits (n : Nat) : ofDigits (decDigits n) = n := by
  rw [decDigits_eq_digs]; exact ofDigits_digs n

/-- … hence decimal notation is injective (for unbounded `n`) -/
theorem decDigits_injective {a b : Nat} (h : decDigits a = decDigits b) : a = b := by
  have := congrArg ofDigits h
  rwa [ofDigits_decDigits, ofDigits_decDigits] at this

/-! ### splitting at the last separator -/

/-- if the separator `u` does not occur in `s`, `s'`, then `x ++ u :: s` determines both `x` and `s`
(`s` is the text after the LAST `u`) -/
theorem split_last {u : Char} :
    ∀ (x x' s s' : List Char), u ∉ s → u ∉ s' → x ++ u :: s = x' ++ u :: s' → x = x' ∧ s = s' := by
  intro x
  induction x with
  | nil =>
    intro x' s s' hs hs' h
    cases x' with
    | nil =>
      simp only [List.nil_append, List.cons.injEq, true_and] at h
      exact ⟨rfl, h⟩
    | cons a t =>
      exfalso
      simp only [List.nil_append, List.cons_append, List.cons.injEq] at h
      apply hs
      rw [h.2]
      simp
  | cons a t ih =>
    intro x' s s' hs hs' h
    cases x' with
    | nil =>
      exfalso
      simp only [List.nil_append, List.cons_append, List.cons.injEq] at h
      apply hs'
      rw [← h.2]
      simp
    | cons a' t' =>
      simp only [List.cons_append, List.cons.injEq] at h
      obtain ⟨rfl, h⟩ := h
      obtain ⟨e1, e2⟩ := ih t' s s' hs hs' h
      exact ⟨by rw [e1], e2⟩

/-! ### the name built by `format!("{}_{}_{}", name_part, process::id(), count)` -/

/-- the format string and the argument list the theorems below are about; Props/C20.lean checks on every run
that the generated ones are these -/
def fmt3 : List Char := ['{', '}', '_', '{', '}', '_', '{', '}']
def args3 : List NameArg := [.part, .pid, .counter]

theorem renderFmt_fmt3 (a b c : List Char) :
    renderFmt fmt3 [a, b, c] = a ++ '_' :: (b ++ '_' :: c) := by
  simp [fmt3, renderFmt]

/-- shape of the name -/
theorem name_shape (part : List Char) (pid c : Nat) :
    tempFileNameText fmt3 args3 part pid c = part ++ '_' :: (decDigits pid ++ '_' :: decDigits c) := by
  simp only [tempFileNameText, args3, List.map, nameArgText]
  exact renderFmt_fmt3 _ _ _

/-- the same with the conventional bracketing `((part ++ "_") ++ dec pid) ++ "_" ++ dec c` -/
theorem name_shape' (part : List Char) (pid c : Nat) :
    tempFileNameText fmt3 args3 part pid c = (part ++ '_' :: decDigits pid) ++ '_' :: decDigits c := by
  rw [name_shape]; simp

/-- **Injectivity, general form.**  Whatever texts `d`, `d'` precede the names (a directory and a separator,
or nothing), and whatever the name parts are (they may contain underscores and digits), equal texts have equal
counters: the counter is the text after the last underscore. -/
theorem counter_of_prefixed_name (d d' part part' : List Char) (pid pid' c c' : Nat)
    (h : d ++ tempFileNameText fmt3 args3 part pid c = d' ++ tempFileNameText fmt3 args3 part' pid' c') :
    c = c' := by
  rw [name_shape', name_shape'] at h
  have h' : (d ++ (part ++ '_' :: decDigits pid)) ++ '_' :: decDigits c =
      (d' ++ (part' ++ '_' :: decDigits pid')) ++ '_' :: decDigits c' := by
    simpa [List.append_assoc] using h
  exact decDigits_injective
    (split_last _ _ _ _ (underscore_not_mem_decDigits c) (underscore_not_mem_decDigits c') h').2

/-- **Injectivity.**  The name determines all three arguments. -/
theorem name_injective (part part' : List Char) (pid pid' c c' : Nat)
    (h : tempFileNameText fmt3 args3 part pid c = tempFileNameText fmt3 args3 part' pid' c') :
    part = part' ∧ pid = pid' ∧ c = c' := by
  rw [name_shape', name_shape'] at h
  obtain ⟨h1, h2⟩ :=
    split_last _ _ _ _ (underscore_not_mem_decDigits c) (underscore_not_mem_decDigits c') h
  obtain ⟨h3, h4⟩ :=
    split_last _ _ _ _ (underscore_not_mem_decDigits pid) (underscore_not_mem_decDigits pid') h1
  exact ⟨h3, decDigits_injective h4, decDigits_injective h2⟩

/-- the form asked for: same process id, arbitrary name parts -/
theorem name_injective_counter (part part' : List Char) (pid c c' : Nat)
    (h : tempFileNameText fmt3 args3 part pid c = tempFileNameText fmt3 args3 part' pid c') : c = c' :=
  (name_injective part part' pid pid c c' h).2.2

/-- **Containment.**  The name part is a prefix, hence an infix, of the name … -/
theorem part_prefix_name (part : List Char) (pid c : Nat) :
    part <+: tempFileNameText fmt3 args3 part pid c := by
  rw [name_shape]; exact List.prefix_append _ _

theorem part_infix_name (part : List Char) (pid c : Nat) :
    part <:+: tempFileNameText fmt3 args3 part pid c :=
  (part_prefix_name part pid c).isInfix

/-- … and of any text that ends with the name -/
theorem part_infix_prefixed_name (d part : List Char) (pid c : Nat) :
    part <:+: d ++ tempFileNameText fmt3 args3 part pid c :=
  List.IsInfix.trans (part_infix_name part pid c) (List.suffix_append _ _).isInfix

/-! ### lists of names -/

/-- a list without duplicates stays without duplicates under an index-dependent map that is injective in
the element whatever the indices are -/
theorem nodup_mapIdx {α β : Type} (f : Nat → α → β) (l : List α) (hl : l.Nodup)
    (hf : ∀ i j a b, f i a = f j b → a = b) : (l.mapIdx f).Nodup := by
  rw [List.Nodup, List.pairwise_iff_getElem] at *
  intro i j hi hj hij
  simp only [List.getElem_mapIdx]
  intro e
  simp only [List.length_mapIdx] at hi hj
  exact hl i j hi hj hij (hf _ _ _ _ e)

theorem nodup_zipWith {α β γ : Type} (f : γ → α → β) (ps : List γ) (l : List α) (hl : l.Nodup)
    (hf : ∀ p q a b, f p a = f q b → a = b) : (List.zipWith f ps l).Nodup := by
  rw [List.Nodup, List.pairwise_iff_getElem] at *
  intro i j hi hj hij
  simp only [List.getElem_zipWith]
  intro e
  simp only [List.length_zipWith] at hi hj
  exact hl i j (by omega) (by omega) hij (hf _ _ _ _ e)

/-- values below the modulus are unchanged by reduction -/
theorem map_mod_eq_self (M : Nat) (l : List Nat) (h : ∀ c ∈ l, c < M) : l.map (· % M) = l := by
  induction l with
  | nil => rfl
  | cons a t ih =>
    simp only [List.map_cons, List.cons.injEq]
    exact ⟨Nat.mod_eq_of_lt (h a (by simp)), ih (fun c hc => h c (by simp [hc]))⟩

end Sds.NameFmt
