/-
Proofs/WM: the wavelet matrix (`wm_core.rs`, `wavelet_matrix.rs`) against a list specification.
Core Lean only.
-/
import Sds.Model.WM
import Sds.Proofs.Rank

namespace Sds
open Outcome

/-! ## 1. One level: stable partition of a list by a predicate -/

section OneLevel
variable {α : Type}

/-- stable partition: the elements with bit 0 (in order), then the elements with bit 1 (in order) -/
def part (p : α → Bool) (L : List α) : List α := L.filter (fun x => !p x) ++ L.filter p

/-- where position `i` of `L` (real, or virtual when `i = L.length` / the bit is supplied from outside)
goes in `part p L` when its bit is `b` -/
def stepPos (p : α → Bool) (L : List α) (i : Nat) (b : Bool) : Nat :=
  if b then L.countP (fun x => !p x) + (L.take i).countP p else (L.take i).countP (fun x => !p x)

theorem countP_part (p q : α → Bool) (L : List α) :
    (part p L).countP q = L.countP (fun x => !p x && q x) + L.countP (fun x => p x && q x) := by
  simp only [part, List.countP_append, List.countP_filter]
  congr 1
  · congr 1; funext x; cases p x <;> cases q x <;> rfl
  · congr 1; funext x; cases p x <;> cases q x <;> rfl

theorem countP_split (p q : α → Bool) (L : List α) :
    L.countP q = L.countP (fun x => !p x && q x) + L.countP (fun x => p x && q x) := by
  induction L with
  | nil => rfl
  | cons a t ih =>
    simp only [List.countP_cons, ih]
    cases p a <;> cases q a <;> simp <;> omega

theorem countP_not_add (p : α → Bool) (L : List α) :
    L.countP (fun x => !p x) + L.countP p = L.length := by
  have := countP_split p (fun _ => true) L
  simp only [Bool.and_true, List.countP_true] at this
  have e : L.countP (fun x => p x) = L.countP p := rfl
  omega

theorem length_part (p : α → Bool) (L : List α) : (part p L).length = L.length := by
  simp only [part, List.length_append, ← List.countP_eq_length_filter]
  exact countP_not_add p L

theorem countP_take_le (p : α → Bool) (L : List α) (i : Nat) : (L.take i).countP p ≤ L.countP p := by
  conv => rhs; rw [← List.take_append_drop i L]
  rw [List.countP_append]; omega

theorem stepPos_le (p : α → Bool) (L : List α) (i : Nat) (b : Bool) : stepPos p L i b ≤ L.length := by
  have h1 := countP_not_add p L
  have h2 := countP_take_le p L i
  have h3 := countP_take_le (fun x => !p x) L i
  unfold stepPos; split <;> omega

/-- the `k`-th element satisfying `p` (counting from 0) sits at index `k` of the filtered list -/
theorem getElem?_filter_countP (p : α → Bool) (L : List α) (i : Nat) (x : α)
    (hx : L[i]? = some x) (hp : p x = true) : (L.filter p)[(L.take i).countP p]? = some x := by
  induction L generalizing i with
  | nil => simp at hx
  | cons a t ih =>
    cases i with
    | zero =>
      simp only [List.getElem?_cons_zero, Option.some.injEq] at hx
      subst hx
      simp [hp]
    | succ i =>
      simp only [List.getElem?_cons_succ] at hx
      have := ih i hx
      by_cases ha : p a = true
      · simp [ha, List.take_succ_cons, this]
      · simp [ha, List.take_succ_cons, this]

/-- **one-level lemma**: the element at position `i` lands at `stepPos` in the partitioned list -/
theorem getElem?_part (p : α → Bool) (L : List α) (i : Nat) (x : α) (hx : L[i]? = some x) :
    (part p L)[stepPos p L i (p x)]? = some x := by
  unfold part stepPos
  cases hp : p x with
  | true =>
    simp only [if_true]
    rw [List.countP_eq_length_filter, List.getElem?_append_right (Nat.le_add_right _ _),
      Nat.add_sub_cancel_left]
    exact getElem?_filter_countP p L i x hx hp
  | false =>
    simp only [Bool.false_eq_true, if_false]
    have h := getElem?_filter_countP (fun x => !p x) L i x hx (by simp [hp])
    have hlt := (List.getElem?_eq_some_iff.mp h).1
    rw [List.getElem?_append_left hlt]; exact h

/-! ### `selectBits` -/

theorem selectBits_eq_some (B : List Bool) (r j : Nat) :
    selectBits B r = some j ↔ B[j]? = some true ∧ (B.take j).count true = r := by
  induction B generalizing r j with
  | nil => simp [selectBits]
  | cons b bs ih =>
    cases b with
    | true =>
      cases r with
      | zero =>
        cases j with
        | zero => simp [selectBits]
        | succ j => simp [selectBits, List.take_succ_cons]
      | succ r =>
        cases j with
        | zero => simp [selectBits]
        | succ j =>
          simp only [selectBits, Option.map_eq_some_iff, List.getElem?_cons_succ, List.take_succ_cons,
            List.count_cons_self]
          constructor
          · rintro ⟨a, ha, hj⟩
            have hj' : a = j := by omega
            subst hj'
            have := (ih r a).mp ha
            exact ⟨this.1, by omega⟩
          · rintro ⟨h1, h2⟩
            exact ⟨j, (ih r j).mpr ⟨h1, by omega⟩, rfl⟩
    | false =>
      cases j with
      | zero => simp [selectBits]
      | succ j =>
        simp only [selectBits, Option.map_eq_some_iff, List.getElem?_cons_succ, List.take_succ_cons]
        constructor
        · rintro ⟨a, ha, hj⟩
          have hj' : a = j := by omega
          subst hj'
          have := (ih r a).mp ha
          exact ⟨this.1, by simpa using this.2⟩
        · rintro ⟨h1, h2⟩
          exact ⟨j, (ih r j).mpr ⟨h1, by simpa using h2⟩, rfl⟩

theorem selectBits_eq_none (B : List Bool) (r : Nat) : selectBits B r = none ↔ B.count true ≤ r := by
  induction B generalizing r with
  | nil => simp [selectBits]
  | cons b bs ih =>
    cases b with
    | true =>
      cases r with
      | zero => simp [selectBits]
      | succ r => simp [selectBits, ih]
    | false => simp [selectBits, ih]

theorem count_true_map (p : α → Bool) (L : List α) : (L.map p).count true = L.countP p := by
  induction L with
  | nil => rfl
  | cons a t ih => simp only [List.map_cons, List.count_cons, List.countP_cons, ih]; cases p a <;> simp

theorem count_false_map (p : α → Bool) (L : List α) : (L.map p).count false = L.countP (fun x => !p x) := by
  induction L with
  | nil => rfl
  | cons a t ih => simp only [List.map_cons, List.count_cons, List.countP_cons, ih]; cases p a <;> simp

theorem rankSpec_map (p : α → Bool) (L : List α) (i : Nat) :
    rankSpec (L.map p) i = (L.take i).countP p := by
  unfold rankSpec; rw [← List.map_take, count_true_map]

theorem sub_rankSpec_map (p : α → Bool) (L : List α) (i : Nat) (hi : i ≤ L.length) :
    i - rankSpec (L.map p) i = (L.take i).countP (fun x => !p x) := by
  rw [rankSpec_map]
  have := countP_not_add p (L.take i)
  rw [List.length_take, Nat.min_eq_left hi] at this
  omega

/-- position of the `r`-th element satisfying `p` -/
theorem selectBits_map_eq_some (p : α → Bool) (L : List α) (r j : Nat) :
    selectBits (L.map p) r = some j ↔ (∃ x, L[j]? = some x ∧ p x = true) ∧ (L.take j).countP p = r := by
  rw [selectBits_eq_some, ← List.map_take, count_true_map]
  simp only [List.getElem?_map, Option.map_eq_some_iff]

/-- inverse of `stepPos`: from a position in the partitioned list back to the position in `L`,
as computed by `select(idx - zeros)` / `select_zero(idx)` -/
def upStep (p : α → Bool) (L : List α) (idx : Nat) (b : Bool) : Option Nat :=
  if b then
    (if idx < L.countP (fun x => !p x) then none
     else selectSpec (L.map p) (idx - L.countP (fun x => !p x)))
  else selectZeroSpec (L.map p) idx

/-- **one-level lemma, inverse direction** -/
theorem upStep_eq_some (p : α → Bool) (L : List α) (idx : Nat) (b : Bool) (j : Nat) :
    upStep p L idx b = some j ↔ (∃ x, L[j]? = some x ∧ p x = b) ∧ stepPos p L j b = idx := by
  unfold upStep stepPos selectSpec selectZeroSpec
  cases b with
  | true =>
    simp only [if_true]
    split
    · simp only [reduceCtorEq, false_iff, not_and]; intro _; omega
    · rw [selectBits_map_eq_some]
      constructor
      · rintro ⟨h1, h2⟩; exact ⟨h1, by omega⟩
      · rintro ⟨h1, h2⟩; exact ⟨h1, by omega⟩
  | false =>
    simp only [Bool.false_eq_true, if_false, List.map_map]
    rw [show (not ∘ p) = (fun x => !p x) from rfl, selectBits_map_eq_some]
    simp

/-- the one-level lemma in the `rankSpec` / `selectSpec` vocabulary of the bitvector interface:
with `B = L.map bit`, the element `L[i]` sits in `part bit L` at
`if bit L[i] then B.count false + rankSpec B i else i - rankSpec B i`, and `select` / `select_zero` recover `i`. -/
theorem one_level (bit : α → Bool) (L : List α) (i : Nat) (hi : i < L.length) :
    let B := L.map bit
    let pos := if bit L[i] then B.count false + rankSpec B i else i - rankSpec B i
    (part bit L)[pos]? = some L[i] ∧
    (bit L[i] = true → selectSpec B (pos - B.count false) = some i) ∧
    (bit L[i] = false → selectZeroSpec B pos = some i) := by
  intro B pos
  have hx : L[i]? = some L[i] := List.getElem?_eq_getElem hi
  have hpos : pos = stepPos bit L i (bit L[i]) := by
    simp only [pos, B, stepPos, count_false_map, sub_rankSpec_map bit L i (Nat.le_of_lt hi)]
    simp only [rankSpec_map]
  refine ⟨hpos ▸ getElem?_part bit L i _ hx, ?_, ?_⟩
  · intro hb
    have := (upStep_eq_some bit L pos true i).mpr ⟨⟨_, hx, hb⟩, by rw [hpos, hb]⟩
    have hz : ¬ pos < L.countP (fun x => !bit x) := by
      rw [hpos, hb]; simp only [stepPos, if_true]; omega
    simpa only [upStep, if_true, hz, if_false, B, count_false_map] using this
  · intro hb
    have := (upStep_eq_some bit L pos false i).mpr ⟨⟨_, hx, hb⟩, by rw [hpos, hb]⟩
    simpa only [upStep, Bool.false_eq_true, if_false] using this

/-- the virtual-position version: for any `i ≤ L.length` and an externally supplied bit `b`,
`zeros·[b] + rank_b(i)` is the number of elements of `L[0..i)` whose bit is `b`, offset by the zeros if `b = 1`. -/
theorem one_level_virtual (bit : α → Bool) (L : List α) (i : Nat) (hi : i ≤ L.length) (b : Bool) :
    let B := L.map bit
    (if b then B.count false + rankSpec B i else i - rankSpec B i) =
      (if b then L.countP (fun x => !bit x) else 0) + (L.take i).countP (fun x => bit x == b) := by
  intro B
  cases b with
  | true =>
    simp only [if_true, B, count_false_map, rankSpec_map]
    congr 2; funext x; cases bit x <;> rfl
  | false =>
    simp only [Bool.false_eq_true, if_false, B, sub_rankSpec_map bit L i hi, Nat.zero_add]
    congr 1; funext x; cases bit x <;> rfl

end OneLevel

/-! ## 2. The levels of the wavelet matrix as lists -/

/-- the bit tested at level `l` of a `w`-level matrix: bit `w-1-l` (most significant first) -/
def bitAt (w l v : Nat) : Bool := decide ((v / 2 ^ (w - 1 - l)) % 2 = 1)

/-- `S w V l` : the sequence stored (conceptually) at level `l` -/
def S (w : Nat) (V : List Nat) : Nat → List Nat
  | 0 => V
  | l + 1 => part (bitAt w l) (S w V l)

/-- the bit column of level `l` -/
def col (w : Nat) (V : List Nat) (l : Nat) : List Bool := (S w V l).map (bitAt w l)

theorem length_S (w : Nat) (V : List Nat) (l : Nat) : (S w V l).length = V.length := by
  induction l with
  | zero => rfl
  | succ l ih => simp only [S, length_part, ih]

theorem countP_S (w : Nat) (V : List Nat) (l : Nat) (q : Nat → Bool) : (S w V l).countP q = V.countP q := by
  induction l generalizing q with
  | zero => rfl
  | succ l ih => simp only [S, countP_part, ih]; exact (countP_split _ q V).symm

/-- equality of the bits tested by the first `n` levels -/
def keyEq (w : Nat) : Nat → Nat → Nat → Bool
  | 0, _, _ => true
  | n + 1, u, v => keyEq w n u v && (bitAt w n u == bitAt w n v)

/-- strict order of the (bit-reversed) keys formed by the first `n` levels; level `n-1` is most significant -/
def keyLt (w : Nat) : Nat → Nat → Nat → Bool
  | 0, _, _ => false
  | n + 1, u, v => (!bitAt w n u && bitAt w n v) || ((bitAt w n u == bitAt w n v) && keyLt w n u v)

/-- (virtual) position after `n` levels of index `i` (clamped) carrying value `v` -/
def vpos (w : Nat) (V : List Nat) : Nat → Nat → Nat → Nat
  | 0, i, _ => min i V.length
  | n + 1, i, v => stepPos (bitAt w n) (S w V n) (vpos w V n i v) (bitAt w n v)

theorem vpos_le (w : Nat) (V : List Nat) (n i v : Nat) : vpos w V n i v ≤ V.length := by
  cases n with
  | zero => exact Nat.min_le_right _ _
  | succ n => simp only [vpos]; rw [← length_S w V n]; exact stepPos_le _ _ _ _

theorem take_min_length' {α : Type} (L : List α) (i : Nat) : L.take (min i L.length) = L.take i := by
  by_cases h : i ≤ L.length
  · rw [Nat.min_eq_left h]
  · rw [Nat.min_eq_right (by omega), List.take_length, List.take_of_length_le (by omega)]

theorem take_filter_countP {α : Type} (q : α → Bool) (L : List α) (p : Nat) :
    (L.filter q).take ((L.take p).countP q) = (L.take p).filter q := by
  induction L generalizing p with
  | nil => simp
  | cons a t ih =>
    cases p with
    | zero => simp
    | succ p =>
      by_cases ha : q a = true
      · simp [List.take_succ_cons, ha, ih p]
      · simp [List.take_succ_cons, ha, ih p]

theorem countP_filter' {α : Type} (p q : α → Bool) (L : List α) :
    (L.filter p).countP q = L.countP (fun x => p x && q x) := by
  rw [List.countP_filter]; congr 1; funext x; exact Bool.and_comm _ _

theorem countP_take_stepPos {α : Type} (b q : α → Bool) (L : List α) (p : Nat) (β : Bool) :
    ((part b L).take (stepPos b L p β)).countP q =
      (if β then L.countP (fun x => !b x && q x) else 0) + (L.take p).countP (fun x => (b x == β) && q x) := by
  unfold part stepPos
  cases β with
  | true =>
    simp only [if_true]
    rw [List.countP_eq_length_filter (p := fun x => !b x), List.take_append, List.take_of_length_le
      (Nat.le_add_right _ _), Nat.add_sub_cancel_left, take_filter_countP, List.countP_append,
      countP_filter', countP_filter']
    congr 2; funext x; cases b x <;> rfl
  | false =>
    simp only [Bool.false_eq_true, if_false, Nat.zero_add]
    have hle : (L.take p).countP (fun x => !b x) ≤ (L.filter (fun x => !b x)).length := by
      rw [← List.countP_eq_length_filter]; exact countP_take_le _ _ _
    rw [List.take_append_of_le_length hle, take_filter_countP, countP_filter']
    congr 1; funext x; cases b x <;> rfl

/-- **the sorting invariant**: the first `vpos` elements of level `n` are exactly (as a multiset) the elements
of `V` with a smaller key, plus the elements among the first `i` with an equal key. -/
theorem countP_take_vpos (w : Nat) (V : List Nat) (n i v : Nat) (q : Nat → Bool) :
    ((S w V n).take (vpos w V n i v)).countP q =
      V.countP (fun u => keyLt w n u v && q u) + (V.take i).countP (fun u => keyEq w n u v && q u) := by
  induction n generalizing q with
  | zero =>
    simp only [S, vpos, keyLt, keyEq, Bool.false_and, Bool.true_and, List.countP_false]
    rw [take_min_length']
    exact (Nat.zero_add _).symm
  | succ n ih =>
    simp only [S, vpos]
    rw [countP_take_stepPos, ih]
    cases hv : bitAt w n v with
    | true =>
      simp only [if_true, countP_S]
      rw [countP_split (bitAt w n) (fun u => keyLt w (n + 1) u v && q u) V]
      simp only [keyLt, keyEq, hv]
      rw [← Nat.add_assoc]
      congr 2
      · congr 1; funext u; cases bitAt w n u <;> simp
      · congr 1; funext u; cases bitAt w n u <;> simp
      · congr 1; funext u; cases bitAt w n u <;> cases keyEq w n u v <;> simp
    | false =>
      simp only [Bool.false_eq_true, if_false, Nat.zero_add, keyLt, keyEq, hv]
      congr 2
      · funext u; cases bitAt w n u <;> cases keyLt w n u v <;> simp
      · funext u; cases bitAt w n u <;> cases keyEq w n u v <;> simp

/-- closed form of the virtual position -/
theorem vpos_eq (w : Nat) (V : List Nat) (n i v : Nat) :
    vpos w V n i v = V.countP (fun u => keyLt w n u v) + (V.take i).countP (fun u => keyEq w n u v) := by
  have h := countP_take_vpos w V n i v (fun _ => true)
  simp only [Bool.and_true, List.countP_true, List.length_take, length_S] at h
  rw [Nat.min_eq_left (vpos_le w V n i v)] at h
  exact h

/-- a real element is found at its position on every level -/
theorem getElem?_S_vpos (w : Nat) (V : List Nat) (n i x : Nat) (hx : V[i]? = some x) :
    (S w V n)[vpos w V n i x]? = some x := by
  induction n with
  | zero =>
    have := (List.getElem?_eq_some_iff.mp hx).1
    simp only [S, vpos]; rw [Nat.min_eq_left (Nat.le_of_lt this)]; exact hx
  | succ n ih => simp only [S, vpos]; exact getElem?_part _ _ _ _ ih

theorem vpos_congr (w : Nat) (V : List Nat) (n i v v' : Nat) (h : ∀ l, l < n → bitAt w l v = bitAt w l v') :
    vpos w V n i v = vpos w V n i v' := by
  induction n with
  | zero => rfl
  | succ n ih =>
    simp only [vpos]
    rw [ih (fun l hl => h l (Nat.lt_succ_of_lt hl)), h n (Nat.lt_succ_self n)]

/-! ## 3. The model against the lists -/

/-- the abstract interface of a per-level bitvector `b` holding the bits `B` -/
structure LevelOk (b : BitVector) (B : List Bool) : Prop where
  len : b.len = B.length
  zeros : b.countZeros = B.count false
  ones : b.countOnes = B.count true
  get : ∀ i, i < B.length → b.get i = .ok (B[i]?.getD false)
  rank : ∀ i, b.rankQ i = .ok (rankSpec B i)
  rank0 : ∀ m i, i ≤ B.length → b.rankZeroQ m i = .ok (i - rankSpec B i)
  sel : ∀ m r, b.selectQ m r = .ok (selectSpec B r)
  selz : ∀ m r, b.selectZeroQ m r = .ok (selectZeroSpec B r)

/-- `c` is a `width`-level wavelet matrix of the sequence `V` -/
structure WMCore.Encodes (c : WMCore) (V : List Nat) (width : Nat) : Prop where
  width_eq : c.width = width
  width_pos : 1 ≤ width
  width_le : width ≤ 64
  bound : ∀ v, v ∈ V → v < 2 ^ width
  len_lt : V.length < 2 ^ 63
  level : ∀ l, l < width → ∃ b, c.levels[l]? = some b ∧ LevelOk b (col width V l)

theorem foldlM_append_outcome {α β : Type} (f : β → α → Outcome β) (l1 l2 : List α) (b : β) :
    (l1 ++ l2).foldlM f b = (l1.foldlM f b >>= fun b' => l2.foldlM f b') := by
  induction l1 generalizing b with
  | nil => rfl
  | cons a t ih =>
    simp only [List.cons_append, List.foldlM_cons]
    cases f b a with
    | ok x => simp only [bind_ok]; exact ih x
    | fault e => rfl

theorem foldlM_range_succ {β : Type} (f : β → Nat → Outcome β) (n : Nat) (b : β) :
    (List.range (n + 1)).foldlM f b = ((List.range n).foldlM f b >>= fun b' => f b' n) := by
  rw [List.range_succ, foldlM_append_outcome]
  congr 1; funext b'
  simp only [List.foldlM_cons, List.foldlM_nil]
  cases f b' n <;> rfl

section Model
variable {c : WMCore} {V : List Nat} {width : Nat}

theorem level_ok (hc : c.Encodes V width) {l : Nat} (hl : l < width) :
    ∃ b, c.level l = ok b ∧ LevelOk b (col width V l) := by
  obtain ⟨b, hb, hok⟩ := hc.level l hl
  exact ⟨b, by simp only [WMCore.level, hb], hok⟩

theorem len_ok (hc : c.Encodes V width) : c.len = ok V.length := by
  obtain ⟨b, hb, hok⟩ := hc.level 0 hc.width_pos
  simp only [WMCore.len, hb, hok.len, col, List.length_map, length_S]

theorem bitValue_eq (hc : c.Encodes V width) (l : Nat) : c.bitValue l = 2 ^ (width - 1 - l) := by
  simp only [WMCore.bitValue, hc.width_eq]

theorem mapDownOne_ok (hc : c.Encodes V width) {l : Nat} (hl : l < width) (p : Nat) :
    c.mapDownOne p l = ok (stepPos (bitAt width l) (S width V l) p true) := by
  obtain ⟨b, hb, hok⟩ := level_ok hc hl
  simp only [WMCore.mapDownOne, hb, bind_ok, hok.rank, hok.zeros, col, count_false_map, rankSpec_map,
    stepPos, if_true, pure_eq]

theorem mapDownZero_ok (hc : c.Encodes V width) {l : Nat} (hl : l < width) (m : Mode) (p : Nat)
    (hp : p ≤ V.length) :
    c.mapDownZero m p l = ok (stepPos (bitAt width l) (S width V l) p false) := by
  obtain ⟨b, hb, hok⟩ := level_ok hc hl
  have hp' : p ≤ (col width V l).length := by simp only [col, List.length_map, length_S]; exact hp
  have hp'' : p ≤ (S width V l).length := by simp only [length_S]; exact hp
  simp only [WMCore.mapDownZero, hb, bind_ok, hok.rank0 m p hp', col, sub_rankSpec_map _ _ _ hp'',
    stepPos, Bool.false_eq_true, if_false]

theorem mapDownWith_fold (hc : c.Encodes V width) (m : Mode) (i v n : Nat) (hn : n ≤ width) :
    (List.range n).foldlM (fun i l =>
      if (v / c.bitValue l) % 2 = 1 then c.mapDownOne i l else c.mapDownZero m i l) (min i V.length)
      = ok (vpos width V n i v) := by
  induction n with
  | zero => rfl
  | succ n ih =>
    rw [foldlM_range_succ, ih (Nat.le_of_succ_le hn), bind_ok, bitValue_eq hc]
    have hn' : n < width := hn
    simp only [vpos]
    by_cases h : (v / 2 ^ (width - 1 - n)) % 2 = 1
    · rw [if_pos h, mapDownOne_ok hc hn']; simp only [bitAt, h, decide_true]
    · rw [if_neg h, mapDownZero_ok hc hn' m _ (vpos_le _ _ _ _ _)]; simp only [bitAt, h, decide_false]

/-- `first v` : the number of elements whose (bit-reversed) key is smaller than that of `v` -/
def firstPos (width : Nat) (V : List Nat) (v : Nat) : Nat := V.countP (fun u => keyLt width width u v)

theorem mapDownWith_eq_vpos (hc : c.Encodes V width) (m : Mode) (i v : Nat) :
    c.mapDownWith m i v = ok (vpos width V width i v) := by
  simp only [WMCore.mapDownWith, len_ok hc, bind_ok, hc.width_eq]
  exact mapDownWith_fold hc m i v width (Nat.le_refl _)

/-! ### keys -/

theorem keyEq_iff_bits (w n u v : Nat) : keyEq w n u v = true ↔ ∀ l, l < n → bitAt w l u = bitAt w l v := by
  induction n with
  | zero => simp [keyEq]
  | succ n ih =>
    simp only [keyEq, Bool.and_eq_true, ih, beq_iff_eq]
    constructor
    · rintro ⟨h1, h2⟩ l hl
      by_cases hln : l = n
      · subst hln; exact h2
      · exact h1 l (by omega)
    · intro h; exact ⟨fun l hl => h l (by omega), h n (by omega)⟩

theorem bitAt_eq_testBit (w l v : Nat) : bitAt w l v = v.testBit (w - 1 - l) := by
  rw [Nat.testBit_eq_decide_div_mod_eq, bitAt]

/-- only the low `w` bits of a value are ever looked at -/
theorem bitAt_mod (w l v : Nat) (hl : l < w) : bitAt w l (v % 2 ^ w) = bitAt w l v := by
  rw [bitAt_eq_testBit, bitAt_eq_testBit, Nat.testBit_mod_two_pow]
  simp only [show w - 1 - l < w by omega, decide_true, Bool.true_and]

theorem keyEq_iff (w u v : Nat) : keyEq w w u v = true ↔ u % 2 ^ w = v % 2 ^ w := by
  rw [keyEq_iff_bits]
  constructor
  · intro h
    apply Nat.eq_of_testBit_eq
    intro k
    rw [Nat.testBit_mod_two_pow, Nat.testBit_mod_two_pow]
    by_cases hk : k < w
    · have := h (w - 1 - k) (by omega)
      rw [bitAt_eq_testBit, bitAt_eq_testBit, show w - 1 - (w - 1 - k) = k by omega] at this
      simp only [hk, decide_true, Bool.true_and, this]
    · simp only [hk, decide_false, Bool.false_and]
  · intro h l hl
    rw [← bitAt_mod w l u hl, ← bitAt_mod w l v hl, h]

theorem keyEq_iff_of_lt (w u v : Nat) (hu : u < 2 ^ w) : keyEq w w u v = true ↔ u = v % 2 ^ w := by
  rw [keyEq_iff, Nat.mod_eq_of_lt hu]

/-- the bit-reversed key: the bit tested at level `l` has weight `2^l` -/
def rkey (w : Nat) : Nat → Nat → Nat
  | 0, _ => 0
  | n + 1, v => rkey w n v + (if bitAt w n v then 2 ^ n else 0)

theorem rkey_lt (w n v : Nat) : rkey w n v < 2 ^ n := by
  induction n with
  | zero => simp [rkey]
  | succ n ih => simp only [rkey, Nat.pow_succ]; split <;> omega

theorem keyEq_iff_rkey (w n u v : Nat) : keyEq w n u v = decide (rkey w n u = rkey w n v) := by
  induction n with
  | zero => simp [keyEq, rkey]
  | succ n ih =>
    have hu := rkey_lt w n u
    have hv := rkey_lt w n v
    simp only [keyEq, rkey, ih]
    by_cases hbu : bitAt w n u = true <;> by_cases hbv : bitAt w n v = true <;> simp [hbu, hbv] <;> omega

theorem keyLt_iff_rkey (w n u v : Nat) : keyLt w n u v = decide (rkey w n u < rkey w n v) := by
  induction n with
  | zero => simp [keyLt, rkey]
  | succ n ih =>
    have hu := rkey_lt w n u
    have hv := rkey_lt w n v
    simp only [keyLt, rkey, ih]
    by_cases hbu : bitAt w n u = true <;> by_cases hbv : bitAt w n v = true <;> simp [hbu, hbv] <;> omega

theorem firstPos_eq_rkey (w : Nat) (V : List Nat) (v : Nat) :
    firstPos w V v = V.countP (fun u => decide (rkey w w u < rkey w w v)) := by
  unfold firstPos; congr 1; funext u; exact keyLt_iff_rkey w w u v

theorem firstPos_mod (w : Nat) (V : List Nat) (v : Nat) : firstPos w V (v % 2 ^ w) = firstPos w V v := by
  have h : vpos w V w 0 (v % 2 ^ w) = vpos w V w 0 v := vpos_congr w V w 0 _ _ (fun l hl => bitAt_mod w l v hl)
  unfold firstPos
  simpa only [vpos_eq, List.take_zero, List.countP_nil, Nat.add_zero] using h

theorem countP_keyEq (hc : c.Encodes V width) (i v : Nat) :
    (V.take i).countP (fun u => keyEq width width u v) = (V.take i).count (v % 2 ^ width) := by
  rw [List.count_eq_countP]
  apply List.countP_congr
  intro u hu
  have hu' : u < 2 ^ width := hc.bound u (List.mem_of_mem_take hu)
  rw [keyEq_iff_of_lt width u v hu']
  simp

/-- **`map_down_with`**: for every index `i` (clamped to the length by `take`) and every value `v`
(only the low `width` bits of `v` matter): the position is `first v` plus the number of occurrences before `i`. -/
theorem mapDownWith_ok' (hc : c.Encodes V width) (m : Mode) (i v : Nat) :
    c.mapDownWith m i v = ok (firstPos width V v + (V.take i).count (v % 2 ^ width)) := by
  rw [mapDownWith_eq_vpos hc, vpos_eq, countP_keyEq hc]; rfl

theorem mapDownWith_ok (hc : c.Encodes V width) (m : Mode) (i v : Nat) (hv : v < 2 ^ width) :
    c.mapDownWith m i v = ok (firstPos width V v + (V.take i).count v) := by
  rw [mapDownWith_ok' hc, Nat.mod_eq_of_lt hv]

theorem mapDownWith_mod (hc : c.Encodes V width) (m : Mode) (i v : Nat) :
    c.mapDownWith m i v = c.mapDownWith m i (v % 2 ^ width) := by
  rw [mapDownWith_ok' hc, mapDownWith_ok' hc, Nat.mod_mod, firstPos_mod]

/-! ### `map_down` -/

theorem valAcc_step (x k : Nat) : x / 2 ^ (k + 1) * 2 ^ (k + 1) + (x / 2 ^ k % 2) * 2 ^ k = x / 2 ^ k * 2 ^ k := by
  rw [Nat.pow_succ, ← Nat.div_div_eq_div_mul]
  generalize x / 2 ^ k = y
  generalize 2 ^ k = P
  have : y / 2 * (P * 2) = (y / 2 * 2) * P := by
    rw [Nat.mul_assoc, Nat.mul_comm 2 P]
  rw [this, ← Nat.add_mul, Nat.div_add_mod']

theorem mapDown_fold (hc : c.Encodes V width) (m : Mode) (i x n : Nat) (hx : V[i]? = some x) (hn : n ≤ width) :
    (List.range n).foldlM (fun (acc : Nat × Nat) l => do
      let b ← c.level l
      let bit ← b.get acc.1
      if bit then do
        let i ← c.mapDownOne acc.1 l
        return (i, acc.2 + c.bitValue l)
      else do
        let i ← c.mapDownZero m acc.1 l
        return (i, acc.2)) (i, 0)
      = ok (vpos width V n i x, x / 2 ^ (width - n) * 2 ^ (width - n)) := by
  induction n with
  | zero =>
    have hlt := (List.getElem?_eq_some_iff.mp hx).1
    have hxw : x < 2 ^ width := hc.bound x (List.mem_of_getElem? hx)
    simp only [List.range_zero, List.foldlM_nil, pure_eq, vpos, Nat.sub_zero,
      Nat.min_eq_left (Nat.le_of_lt hlt), Nat.div_eq_of_lt hxw, Nat.zero_mul]
  | succ n ih =>
    have hn' : n < width := hn
    rw [foldlM_range_succ, ih (Nat.le_of_succ_le hn), bind_ok]
    obtain ⟨b, hb, hok⟩ := level_ok hc hn'
    have hget := getElem?_S_vpos width V n i x hx
    have hlt := (List.getElem?_eq_some_iff.mp hget).1
    have hB : (col width V n)[vpos width V n i x]? = some (bitAt width n x) := by
      simp only [col, List.getElem?_map, hget, Option.map_some]
    have hg := hok.get (vpos width V n i x) (by simp only [col, List.length_map]; exact hlt)
    rw [hB] at hg
    have hstep := valAcc_step x (width - 1 - n)
    rw [show width - 1 - n + 1 = width - n by omega] at hstep
    simp only [hb, bind_ok, hg, Option.getD_some, bitValue_eq hc, vpos]
    rw [show width - (n + 1) = width - 1 - n by omega, ← hstep]
    cases hbit : bitAt width n x with
    | true =>
      have : x / 2 ^ (width - 1 - n) % 2 = 1 := by simpa [bitAt] using hbit
      simp only [if_true, mapDownOne_ok hc hn', bind_ok, pure_eq, this, Nat.one_mul]
    | false =>
      have : x / 2 ^ (width - 1 - n) % 2 = 0 := by
        have : ¬ x / 2 ^ (width - 1 - n) % 2 = 1 := by simpa [bitAt] using hbit
        omega
      simp only [Bool.false_eq_true, if_false, mapDownZero_ok hc hn' m _ (vpos_le _ _ _ _ _), bind_ok, pure_eq,
        this, Nat.zero_mul, Nat.add_zero]

/-- position of the `i`-th element in the last level -/
def finalPos (width : Nat) (V : List Nat) (i : Nat) (x : Nat) : Nat := firstPos width V x + (V.take i).count x

theorem vpos_real (hc : c.Encodes V width) (i x : Nat) (hx : V[i]? = some x) :
    vpos width V width i x = finalPos width V i x := by
  have hxw : x < 2 ^ width := hc.bound x (List.mem_of_getElem? hx)
  rw [vpos_eq, countP_keyEq hc, Nat.mod_eq_of_lt hxw]; rfl

/-- **`map_down`**: `(position in the last level, value)`; the position is
`|{j : key V[j] < key V[i]}| + |{j < i : V[j] = V[i]}|` and the last level holds `V[i]` there. -/
theorem mapDown_ok (hc : c.Encodes V width) (m : Mode) (i : Nat) (hi : i < V.length) :
    c.mapDown m i = ok (some (finalPos width V i V[i], V[i])) ∧
    (S width V width)[finalPos width V i V[i]]? = some V[i] := by
  have hx : V[i]? = some V[i] := List.getElem?_eq_getElem hi
  constructor
  · simp only [WMCore.mapDown, len_ok hc, bind_ok, ge_iff_le, Nat.not_le.mpr hi, if_false, hc.width_eq]
    rw [mapDown_fold hc m i V[i] width hx (Nat.le_refl _), bind_ok, vpos_real hc i _ hx]
    simp only [Nat.sub_self, Nat.pow_zero, Nat.div_one, Nat.mul_one, pure_eq]
  · rw [← vpos_real hc i _ hx]; exact getElem?_S_vpos width V width i _ hx

theorem mapDown_none (hc : c.Encodes V width) (m : Mode) (i : Nat) (hi : V.length ≤ i) :
    c.mapDown m i = ok none := by
  simp only [WMCore.mapDown, len_ok hc, bind_ok, ge_iff_le, hi, if_true, pure_eq]

/-! ### `map_up_with` -/

theorem countP_take_mono {α : Type} (q : α → Bool) (L : List α) {a b : Nat} (h : a ≤ b) :
    (L.take a).countP q ≤ (L.take b).countP q := by
  have : L.take a = (L.take b).take a := by rw [List.take_take, Nat.min_eq_left h]
  rw [this]; exact countP_take_le _ _ _

theorem countP_take_lt {α : Type} (q : α → Bool) (L : List α) (j p : Nat) (x : α)
    (hx : L[j]? = some x) (hq : q x = true) (hjp : j < p) :
    (L.take j).countP q < (L.take p).countP q := by
  have h1 := countP_take_mono q L (show j + 1 ≤ p from hjp)
  have h2 : (L.take (j + 1)).countP q = (L.take j).countP q + 1 := by
    rw [List.take_add_one, hx, List.countP_append]; simp [hq]
  omega

/-- `stepPos` reflects the order on positions carrying the bit `β` -/
theorem le_of_stepPos_le {α : Type} (b : α → Bool) (L : List α) (j p : Nat) (β : Bool) (x : α)
    (hx : L[j]? = some x) (hb : b x = β) (h : stepPos b L p β ≤ stepPos b L j β) : p ≤ j := by
  apply Nat.le_of_not_lt
  intro hjp
  unfold stepPos at h
  cases β with
  | true =>
    have := countP_take_lt b L j p x hx hb hjp
    simp only [if_true] at h; omega
  | false =>
    have := countP_take_lt (fun x => !b x) L j p x hx (by simp [hb]) hjp
    simp only [Bool.false_eq_true, if_false] at h; omega

/-- pure specification of `map_up_with` through the first `n` levels (from level `n-1` up to level 0) -/
def upS (w : Nat) (V : List Nat) (v : Nat) : Nat → Nat → Option Nat
  | 0, idx => some idx
  | n + 1, idx => (upStep (bitAt w n) (S w V n) idx (bitAt w n v)).bind (upS w V v n)

theorem upS_eq_some (w : Nat) (V : List Nat) (v n idx i : Nat) (h0 : n = 0 → idx < V.length) :
    upS w V v n idx = some i ↔
      ∃ x, V[i]? = some x ∧ keyEq w n x v = true ∧ vpos w V n i x = idx := by
  induction n generalizing idx with
  | zero =>
    have h0 := h0 rfl
    simp only [upS, keyEq, vpos, Option.some.injEq, true_and]
    constructor
    · intro h; subst h
      exact ⟨V[idx], List.getElem?_eq_getElem h0, Nat.min_eq_left (Nat.le_of_lt h0)⟩
    · rintro ⟨x, hx, h⟩
      have := (List.getElem?_eq_some_iff.mp hx).1
      rw [Nat.min_eq_left (Nat.le_of_lt this)] at h; exact h.symm
  | succ n ih =>
    simp only [upS, Option.bind_eq_some_iff, upStep_eq_some, keyEq, vpos, Bool.and_eq_true, beq_iff_eq]
    constructor
    · rintro ⟨j, ⟨⟨y, hy, hby⟩, hstep⟩, hup⟩
      have hj : j < V.length := by
        have := (List.getElem?_eq_some_iff.mp hy).1; rwa [length_S] at this
      obtain ⟨x, hx, hk, hp⟩ := (ih j (fun _ => hj)).mp hup
      have hget := getElem?_S_vpos w V n i x hx
      rw [hp, hy] at hget
      have hxy : y = x := Option.some.inj hget
      subst hxy
      exact ⟨y, hx, ⟨hk, hby⟩, by rw [hp, hby]; exact hstep⟩
    · rintro ⟨x, hx, ⟨hk, hb⟩, hp⟩
      refine ⟨vpos w V n i x, ⟨⟨x, getElem?_S_vpos w V n i x hx, hb⟩, by rw [← hb]; exact hp⟩, ?_⟩
      have hlt : vpos w V n i x < V.length := by
        have := (List.getElem?_eq_some_iff.mp (getElem?_S_vpos w V n i x hx)).1; rwa [length_S] at this
      exact (ih _ (fun _ => hlt)).mpr ⟨x, hx, hk, rfl⟩

theorem mapUpZero_ok (hc : c.Encodes V width) {l : Nat} (hl : l < width) (m : Mode) (idx : Nat) :
    c.mapUpZero m idx l = ok (upStep (bitAt width l) (S width V l) idx false) := by
  obtain ⟨b, hb, hok⟩ := level_ok hc hl
  simp only [WMCore.mapUpZero, hb, bind_ok, hok.selz, col, upStep, Bool.false_eq_true, if_false]

/-- the repaired `map_up_one` (`index.checked_sub(zeros)?`) is total in both modes, for every index -/
theorem mapUpOne_ok (hc : c.Encodes V width) {l : Nat} (hl : l < width) (m : Mode) (idx : Nat) :
    c.mapUpOne m idx l = ok (upStep (bitAt width l) (S width V l) idx true) := by
  obtain ⟨b, hb, hok⟩ := level_ok hc hl
  simp only [WMCore.mapUpOne, hb, bind_ok, hok.zeros, col, count_false_map, upStep, if_true]
  by_cases hz : idx < (S width V l).countP (fun x => !bitAt width l x)
  · rw [if_pos hz, if_pos hz]; rfl
  · rw [if_neg hz, if_neg hz, hok.sel]; rfl

theorem up_fold_none (g : Option Nat → Nat → Outcome (Option Nat)) (hg : ∀ l, g none l = ok none)
    (ls : List Nat) : ls.foldlM g none = ok none := by
  induction ls with
  | nil => rfl
  | cons a t ih => rw [List.foldlM_cons, hg, bind_ok, ih]

theorem range_succ_reverse (n : Nat) : (List.range (n + 1)).reverse = n :: (List.range n).reverse := by
  rw [List.range_succ, List.reverse_append]; rfl

theorem up_fold (hc : c.Encodes V width) (m : Mode) (v : Nat)
    (g : Option Nat → Nat → Outcome (Option Nat)) (hg : ∀ l, g none l = ok none)
    (hg' : ∀ i l, g (some i) l =
      if (v / c.bitValue l) % 2 = 1 then c.mapUpOne m i l else c.mapUpZero m i l)
    (n : Nat) (hn : n ≤ width) (idx : Nat) :
    (List.range n).reverse.foldlM g (some idx) = ok (upS width V v n idx) := by
  induction n generalizing idx with
  | zero => rfl
  | succ n ih =>
    have hn' : n < width := hn
    rw [range_succ_reverse, List.foldlM_cons, hg', bitValue_eq hc]
    simp only [upS]
    have hstep : (if (v / 2 ^ (width - 1 - n)) % 2 = 1 then c.mapUpOne m idx n else c.mapUpZero m idx n)
        = ok (upStep (bitAt width n) (S width V n) idx (bitAt width n v)) := by
      by_cases h : (v / 2 ^ (width - 1 - n)) % 2 = 1
      · have hb : bitAt width n v = true := by simp only [bitAt, h, decide_true]
        rw [if_pos h, hb]
        exact mapUpOne_ok hc hn' m idx
      · have hb : bitAt width n v = false := by simp only [bitAt, h, decide_false]
        rw [if_neg h, hb]
        exact mapUpZero_ok hc hn' m idx
    rw [hstep, bind_ok]
    cases hup : upStep (bitAt width n) (S width V n) idx (bitAt width n v) with
    | none => rw [up_fold_none g hg]; rfl
    | some j =>
      simp only [Option.bind_some]
      exact ih (Nat.le_of_succ_le hn) j

/-- index of the `r`-th occurrence (from 0) of `v` in `V` -/
def selectVal (V : List Nat) (v r : Nat) : Option Nat := selectBits (V.map (fun u => u == v)) r

theorem selectVal_eq_some (V : List Nat) (v r i : Nat) :
    selectVal V v r = some i ↔ V[i]? = some v ∧ (V.take i).count v = r := by
  unfold selectVal
  rw [selectBits_map_eq_some, List.count_eq_countP]
  simp only [beq_iff_eq]
  constructor
  · rintro ⟨⟨x, hx, rfl⟩, h⟩; exact ⟨hx, h⟩
  · rintro ⟨hx, h⟩; exact ⟨⟨v, hx, rfl⟩, h⟩

theorem selectVal_eq_none (V : List Nat) (v r : Nat) : selectVal V v r = none ↔ V.count v ≤ r := by
  unfold selectVal
  rw [selectBits_eq_none, count_true_map, List.count_eq_countP]

/-- **`map_up_with`** (repaired) is total: in both modes, for every start index and every value the result is
`upS`, characterised by `upS_eq_some` as the inverse of `map_down`. -/
theorem mapUpWith_eq_upS (hc : c.Encodes V width) (m : Mode) (idx v : Nat) :
    c.mapUpWith m idx v = ok (upS width V v width idx) := by
  unfold WMCore.mapUpWith
  rw [hc.width_eq]
  exact up_fold hc m v _ (fun _ => rfl) (fun _ _ => rfl) width (Nat.le_refl _) idx

theorem upS_width_eq_some (hc : c.Encodes V width) (v idx i : Nat) :
    upS width V v width idx = some i ↔
      V[i]? = some (v % 2 ^ width) ∧ firstPos width V v + (V.take i).count (v % 2 ^ width) = idx := by
  rw [upS_eq_some width V v width idx i (fun h => absurd h (by have := hc.width_pos; omega))]
  constructor
  · rintro ⟨x, hx, hk, hp⟩
    have hxw : x < 2 ^ width := hc.bound x (List.mem_of_getElem? hx)
    have hxv := (keyEq_iff_of_lt width x v hxw).mp hk
    subst hxv
    rw [vpos_real hc i _ hx, finalPos, firstPos_mod] at hp
    exact ⟨hx, hp⟩
  · rintro ⟨hx, hp⟩
    have hxw : v % 2 ^ width < 2 ^ width := hc.bound _ (List.mem_of_getElem? hx)
    refine ⟨_, hx, (keyEq_iff_of_lt width _ v hxw).mpr rfl, ?_⟩
    rw [vpos_real hc i _ hx, finalPos, firstPos_mod]; exact hp

/-- **`map_up_with`** (both modes): from `first v + r` to the position in `V` of the `r`-th occurrence of `v`
(`none` when there are at most `r` occurrences). Only the low `width` bits of `v` matter. -/
theorem mapUpWith_ok' (hc : c.Encodes V width) (m : Mode) (v r : Nat) :
    c.mapUpWith m (firstPos width V v + r) v = ok (selectVal V (v % 2 ^ width) r) := by
  rw [mapUpWith_eq_upS hc m _ v]
  congr 1
  apply Option.ext
  intro i
  rw [upS_width_eq_some hc, selectVal_eq_some]
  constructor
  · rintro ⟨h1, h2⟩; exact ⟨h1, by omega⟩
  · rintro ⟨h1, h2⟩; exact ⟨h1, by omega⟩

theorem mapUpWith_ok (hc : c.Encodes V width) (m : Mode) (v r : Nat) (hv : v < 2 ^ width) :
    c.mapUpWith m (firstPos width V v + r) v = ok (selectVal V v r) := by
  rw [mapUpWith_ok' hc, Nat.mod_eq_of_lt hv]

theorem mapUpWith_none (hc : c.Encodes V width) (m : Mode) (v r : Nat) (hr : V.count (v % 2 ^ width) ≤ r) :
    c.mapUpWith m (firstPos width V v + r) v = ok none := by
  rw [mapUpWith_ok' hc, (selectVal_eq_none _ _ _).mpr hr]

/-- below `first v` both builds answer `none` (as first coded the checked build could panic there: see
`F4_mapUpWith_checked`) -/
theorem mapUpWith_lt (hc : c.Encodes V width) (m : Mode) (idx v : Nat) (h : idx < firstPos width V v) :
    c.mapUpWith m idx v = ok none := by
  rw [mapUpWith_eq_upS hc m idx v]
  congr 1
  apply Option.eq_none_iff_forall_ne_some.mpr
  intro i hi
  have := ((upS_width_eq_some hc v idx i).mp hi).2
  omega

theorem mapUpWith_wrapping_lt (hc : c.Encodes V width) (idx v : Nat) (h : idx < firstPos width V v) :
    c.mapUpWith .wrapping idx v = ok none := mapUpWith_lt hc .wrapping idx v h

/-- **`map_up_with`, every index** (both modes): below `first v` the answer is `none`, at `first v + r` it is the
position of the `r`-th occurrence of `v` -/
theorem mapUpWith_total (hc : c.Encodes V width) (m : Mode) (idx v : Nat) :
    c.mapUpWith m idx v = ok (if idx < firstPos width V v then none
      else selectVal V (v % 2 ^ width) (idx - firstPos width V v)) := by
  by_cases h : idx < firstPos width V v
  · rw [if_pos h, mapUpWith_lt hc m idx v h]
  · rw [if_neg h]
    have := mapUpWith_ok' hc m v (idx - firstPos width V v)
    rwa [Nat.add_sub_cancel' (Nat.le_of_not_lt h)] at this

/-- `map_up_with (map_down_with i V[i]) V[i] = some i` -/
theorem mapUpWith_mapDownWith (hc : c.Encodes V width) (m : Mode) (i : Nat) (hi : i < V.length) :
    (c.mapDownWith m i V[i] >>= fun d => c.mapUpWith m d V[i]) = ok (some i) := by
  have hx : V[i]? = some V[i] := List.getElem?_eq_getElem hi
  have hv : V[i] < 2 ^ width := hc.bound _ (List.getElem_mem hi)
  rw [mapDownWith_ok hc m i _ hv, bind_ok, mapUpWith_ok hc m _ _ hv]
  congr 1
  exact (selectVal_eq_some V V[i] _ i).mpr ⟨hx, rfl⟩

end Model

/-! ## 4. `WaveletMatrix` -/

/-- the `first` array is correct: defined on (at least) the values that occur, it holds `first v` for an
occurring value and `len` for an absent one.  (The library builds it with length `max V + 1`.) -/
structure WM.Ok (w : WM) (V : List Nat) (width : Nat) : Prop where
  core : w.data.Encodes V width
  len : w.len = V.length
  mem_lt : ∀ v, v ∈ V → v < w.first.len
  first : ∀ v, v < w.first.len →
    ∃ x : Word, w.first.get v = ok x ∧ x.toNat = if v ∈ V then firstPos width V v else V.length

section WMTop
variable {w : WM} {V : List Nat} {width : Nat}

theorem firstPos_add_count_le (hw : w.Ok V width) (v : Nat) (hv : v < 2 ^ width) :
    firstPos width V v + V.count v ≤ V.length := by
  have h := vpos_le width V width V.length v
  rw [vpos_eq, countP_keyEq hw.core, Nat.mod_eq_of_lt hv, List.take_length] at h
  exact h

theorem firstPos_lt_of_mem (hw : w.Ok V width) (v : Nat) (hv : v ∈ V) : firstPos width V v < V.length := by
  have h := firstPos_add_count_le hw v (hw.core.bound v hv)
  have := List.count_pos_iff.mpr hv
  omega

theorem start_ok (hw : w.Ok V width) (v : Nat) (hv : v < w.first.len) :
    w.start v = ok (if v ∈ V then firstPos width V v else V.length) := by
  obtain ⟨x, hx, hxv⟩ := hw.first v hv
  simp only [WM.start, hx, bind_ok, pure_eq, hxv]

theorem contains_ok (hw : w.Ok V width) (v : Nat) : w.contains v = ok (decide (v ∈ V)) := by
  unfold WM.contains
  by_cases hv : v < w.first.len
  · rw [if_pos hv, start_ok hw v hv, bind_ok, pure_eq, hw.len]
    by_cases hm : v ∈ V
    · simp only [hm, if_true, firstPos_lt_of_mem hw v hm, decide_true]
    · simp only [hm, if_false, Nat.lt_irrefl, decide_false]
  · rw [if_neg hv]
    have hm : ¬ v ∈ V := fun h => hv (hw.mem_lt v h)
    simp only [hm, decide_false]

/-- **`rank`**: occurrences of `v` before `i`, for every `i` and every `v` (absent / out of alphabet: 0), both modes -/
theorem rank_ok_wm (hw : w.Ok V width) (m : Mode) (i v : Nat) : w.rank m i v = ok ((V.take i).count v) := by
  simp only [WM.rank, contains_ok hw, bind_ok]
  by_cases hm : v ∈ V
  · have hv := hw.core.bound v hm
    simp only [hm, decide_true, Bool.not_true, Bool.false_eq_true, if_false,
      mapDownWith_ok hw.core m i v hv, bind_ok, start_ok hw v (hw.mem_lt v hm), if_true]
    rw [subM_ok (Nat.le_add_right _ _), Nat.add_sub_cancel_left]
  · have : (V.take i).count v = 0 := List.count_eq_zero.mpr (fun h => hm (List.mem_of_mem_take h))
    simp only [hm, decide_false, Bool.not_false, if_true, pure_eq, this]

/-- **`select`** (repaired, `start.checked_add(rank)?`): correct in both modes for every rank and every value.
When `start + rank` does not fit a `usize` the answer is `none`, which is right since `rank ≥ 2^63 >` occurrences. -/
theorem select_ok_wm (hw : w.Ok V width) (m : Mode) (r v : Nat) :
    w.select m r v = ok (selectVal V v r) := by
  simp only [WM.select, contains_ok hw, bind_ok]
  by_cases hm : v ∈ V
  · have hv := hw.core.bound v hm
    have hf := firstPos_lt_of_mem hw v hm
    simp only [hm, decide_true, Bool.not_true, Bool.false_eq_true, if_false,
      start_ok hw v (hw.mem_lt v hm), bind_ok, if_true]
    by_cases hov : firstPos width V v + r ≥ U64
    · have hlen := hw.core.len_lt
      have hU : U64 = 2 ^ 64 := U64_eq
      have hnone : selectVal V v r = none := (selectVal_eq_none V v r).mpr (by
        have : V.count v ≤ V.length := List.count_le_length; omega)
      rw [if_pos hov, hnone]; rfl
    · rw [if_neg hov, mapUpWith_ok hw.core m v r hv]
  · have : selectVal V v r = none := (selectVal_eq_none V v r).mpr (by
      rw [List.count_eq_zero.mpr hm]; exact Nat.zero_le _)
    simp only [hm, decide_false, Bool.not_false, if_true, pure_eq, this]

/-- `select` in the wrapping build (corollary of `select_ok_wm`; kept for reference) -/
theorem select_wrapping (hw : w.Ok V width) (r v : Nat) :
    w.select .wrapping r v = ok (selectVal V v r) := select_ok_wm hw .wrapping r v

/-- **`inverse_select`** -/
theorem inverseSelect_ok (hw : w.Ok V width) (m : Mode) (i : Nat) (hi : i < V.length) :
    w.inverseSelect m i = ok (some ((V.take i).count V[i], V[i])) := by
  have hm : V[i] ∈ V := List.getElem_mem hi
  simp only [WM.inverseSelect, (mapDown_ok hw.core m i hi).1, bind_ok, start_ok hw _ (hw.mem_lt _ hm), hm,
    if_true, finalPos]
  rw [subM_ok (Nat.le_add_right _ _), Nat.add_sub_cancel_left]; rfl

theorem inverseSelect_none (hw : w.Ok V width) (m : Mode) (i : Nat) (hi : V.length ≤ i) :
    w.inverseSelect m i = ok none := by
  simp only [WM.inverseSelect, mapDown_none hw.core m i hi, bind_ok, pure_eq]

/-- **`get`** -/
theorem get_ok_wm (hw : w.Ok V width) (m : Mode) (i : Nat) (hi : i < V.length) : w.get m i = ok V[i] := by
  simp only [WM.get, inverseSelect_ok hw m i hi, bind_ok, unwrapM, pure_eq]

/-- `get` past the end is the `unwrap` panic of the library -/
theorem get_panic (hw : w.Ok V width) (m : Mode) (i : Nat) (hi : V.length ≤ i) :
    w.get m i = fault (.panic .unwrap) := by
  simp only [WM.get, inverseSelect_none hw m i hi, bind_ok, unwrapM, bind_fault]

/-- **`ValueIter::next`** (any mode) -/
theorem valueIterNext_ok (hw : w.Ok V width) (m : Mode) (v r : Nat) :
    w.valueIterNext m v r = ok (if r ≥ V.length then (none, r) else
      match selectVal V v r with
      | some idx => (some (r, idx), r + 1)
      | none => (none, V.length)) := by
  unfold WM.valueIterNext
  rw [hw.len]
  by_cases hr : r ≥ V.length
  · rw [if_pos hr, if_pos hr]
  · rw [if_neg hr, if_neg hr, select_ok_wm hw m r v, bind_ok]
    cases selectVal V v r <;> rfl

/-- default `successor` = `rank` -/
theorem successor_ok (hw : w.Ok V width) (m : Mode) (i v : Nat) :
    w.successor m i v = ok ((V.take i).count v) := rank_ok_wm hw m i v

/-- default `predecessor` (repaired, `index.saturating_add(1)`): rank of the last occurrence at or before `i`, or
`len`; holds for every `i` (for `i + 1 ≥ 2^64` the clamped prefix is already the whole vector) -/
theorem predecessor_ok (hw : w.Ok V width) (m : Mode) (i v : Nat) :
    w.predecessor m i v = ok (if (V.take (i + 1)).count v > 0 then (V.take (i + 1)).count v - 1 else V.length) := by
  have htake : V.take (BitVector.satAdd i 1) = V.take (i + 1) := by
    unfold BitVector.satAdd
    by_cases h : i + 1 ≤ U64 - 1
    · rw [Nat.min_eq_left h]
    · have hlen := hw.core.len_lt
      have hU : U64 = 2 ^ 64 := U64_eq
      rw [Nat.min_eq_right (by omega), List.take_of_length_le (by omega), List.take_of_length_le (by omega)]
  simp only [WM.predecessor, bind_ok, rank_ok_wm hw, pure_eq, hw.len, htake]

/-- finding F3: as first coded, `predecessor(usize::MAX, _)` overflows `index + 1` in the checked build, on every
structure -/
theorem F3_predecessorOld_checked (w : WM) (v : Nat) :
    WM.predecessorOld .checked w (2 ^ 64 - 1) v = fault (.panic .overflow) := by
  have h : ¬ (2 ^ 64 - 1 + 1 < U64) := by rw [U64_eq]; omega
  simp only [WM.predecessorOld, addM, h, if_false, bind_fault]

/-- the repaired `predecessor` answers there -/
theorem F3_predecessor_ok (hw : w.Ok V width) (m : Mode) (v : Nat) :
    w.predecessor m (2 ^ 64 - 1) v = ok (if V.count v > 0 then V.count v - 1 else V.length) := by
  have hlen := hw.core.len_lt
  rw [predecessor_ok hw, List.take_of_length_le (by omega)]

end WMTop

/-! ## 4b. The builder `WMCore::from` produces the levels `col`; keys vs `reverse_bits` -/

theorem clzBelow_le_wm (w : Word) (k : Nat) : clzBelow w k ≤ k := by
  induction k with
  | zero => simp [clzBelow]
  | succ k ih => simp only [clzBelow]; split <;> omega

theorem clzBelow_spec_wm (w : Word) (k i : Nat) (h1 : k - clzBelow w k ≤ i) (h2 : i < k) : w.getLsbD i = false := by
  induction k with
  | zero => omega
  | succ k ih =>
    simp only [clzBelow] at h1
    split at h1
    · omega
    · rename_i hb
      by_cases hik : i = k
      · subst hik; simpa using hb
      · exact ih (by omega) (by omega)

theorem clzBelow_lt_of_bit0 (w : Word) (k : Nat) (h : w.getLsbD 0 = true) (hk : 0 < k) : clzBelow w k < k := by
  induction k with
  | zero => omega
  | succ k ih =>
    simp only [clzBelow]
    split
    · omega
    · rename_i hb
      by_cases hk0 : k = 0
      · subst hk0; exact absurd h hb
      · have := ih (by omega); omega

theorem bitLen_pos_wm (n : Word) : 1 ≤ bitLen n := by
  have := clzBelow_lt_of_bit0 (n ||| 1) 64 (by simp) (by omega)
  unfold bitLen clz; omega

theorem bitLen_le_wm (n : Word) : bitLen n ≤ 64 := by unfold bitLen; omega

theorem lt_two_pow_bitLen (n : Word) : n.toNat < 2 ^ bitLen n := by
  apply Nat.lt_of_le_of_lt (m := (n ||| 1).toNat)
  · rw [BitVec.toNat_or]; exact Nat.left_le_or
  · apply Nat.lt_pow_two_of_testBit
    intro i hi
    rw [← BitVec.getLsbD]
    by_cases h64 : i < 64
    · exact clzBelow_spec_wm (n ||| 1) 64 i (by unfold bitLen clz at hi; omega) h64
    · exact getLsbD_ge64 _ _ (by omega)

theorem foldl_max_ge_wm (V : List Nat) (a : Nat) : a ≤ V.foldl max a ∧ ∀ v, v ∈ V → v ≤ V.foldl max a := by
  induction V generalizing a with
  | nil => simp
  | cons x t ih =>
    simp only [List.foldl_cons, List.mem_cons]
    have := ih (max a x)
    refine ⟨by omega, ?_⟩
    rintro v (rfl | hv)
    · omega
    · exact this.2 v hv

theorem foldl_max_lt_wm (V : List Nat) (a b : Nat) (ha : a < b) (h : ∀ v, v ∈ V → v < b) : V.foldl max a < b := by
  induction V generalizing a with
  | nil => simpa
  | cons x t ih =>
    simp only [List.foldl_cons]
    apply ih
    · have := h x (List.mem_cons_self); omega
    · intro v hv; exact h v (List.mem_cons_of_mem _ hv)



/-- the construction loop of `WMCore::from` after `n` levels -/
def ofValuesFold (w : Nat) (V : List Nat) (n : Nat) : Array BitVector × List Nat :=
  (List.range n).foldl (fun (acc : Array BitVector × List Nat) l =>
      let bv := 2 ^ (w - 1 - l)
      let isOne := fun v => (v / bv) % 2 = 1
      let raw := RawVec.ofBits (acc.2.map (fun v => decide (isOne v)))
      (acc.1.push (BitVector.ofRaw raw),
        acc.2.filter (fun v => !decide (isOne v)) ++ acc.2.filter (fun v => decide (isOne v))))
    (#[], V)

theorem ofValuesFold_eq (w : Nat) (V : List Nat) (n : Nat) :
    ofValuesFold w V n =
      (((List.range n).map fun l => BitVector.ofRaw (RawVec.ofBits (col w V l))).toArray, S w V n) := by
  induction n with
  | zero => rfl
  | succ n ih =>
    unfold ofValuesFold at ih ⊢
    rw [List.range_succ, List.foldl_append, ih]
    simp only [List.foldl_cons, List.foldl_nil, List.push_toArray, List.map_append, List.map_cons, List.map_nil]
    rfl

/-- the width chosen by the builder -/
def widthOf (V : List Nat) : Nat := bitLen (BitVec.ofNat 64 (V.foldl max 0))

/-- **the builder produces exactly the levels `col`** (with all support structures enabled) -/
theorem ofValues_eq (V : List Nat) :
    WMCore.ofValues V =
      ⟨((List.range (widthOf V)).map fun l =>
        (BitVector.ofRaw (RawVec.ofBits (col (widthOf V) V l))).enableAll).toArray⟩ := by
  have h : WMCore.ofValues V = WMCore.initSupport ⟨(ofValuesFold (widthOf V) V (widthOf V)).1⟩ := rfl
  rw [h, ofValuesFold_eq]
  simp only [WMCore.initSupport, List.map_toArray, List.map_map]
  rfl



theorem widthOf_pos (V : List Nat) : 1 ≤ widthOf V := bitLen_pos_wm _
theorem widthOf_le (V : List Nat) : widthOf V ≤ 64 := bitLen_le_wm _

theorem lt_two_pow_widthOf (V : List Nat) (hV : ∀ v, v ∈ V → v < 2 ^ 64) (v : Nat) (hv : v ∈ V) :
    v < 2 ^ widthOf V := by
  have hmax : V.foldl max 0 < 2 ^ 64 := foldl_max_lt_wm V 0 _ (by decide) hV
  have h := lt_two_pow_bitLen (BitVec.ofNat 64 (V.foldl max 0))
  rw [BitVec.toNat_ofNat, Nat.mod_eq_of_lt hmax] at h
  exact Nat.lt_of_le_of_lt ((foldl_max_ge_wm V 0).2 v hv) h

/-- **the builder output encodes its input**, given the plain-bitvector theorem `hbv` for the bit columns
(every column has the length of `V`) -/
theorem ofValues_encodes (V : List Nat) (hV : ∀ v, v ∈ V → v < 2 ^ 64) (hlen : V.length < 2 ^ 63)
    (hbv : ∀ B : List Bool, B.length = V.length →
      LevelOk (BitVector.ofRaw (RawVec.ofBits B)).enableAll B) :
    (WMCore.ofValues V).Encodes V (widthOf V) where
  width_eq := by rw [ofValues_eq]; simp [WMCore.width]
  width_pos := widthOf_pos V
  width_le := widthOf_le V
  bound := lt_two_pow_widthOf V hV
  len_lt := hlen
  level := by
    intro l hl
    refine ⟨_, ?_, hbv (col (widthOf V) V l) (by simp only [col, List.length_map, length_S])⟩
    rw [ofValues_eq]
    simp [hl]



theorem testBit_rkey (w n v l : Nat) : (rkey w n v).testBit l = (decide (l < n) && bitAt w l v) := by
  induction n with
  | zero => simp [rkey]
  | succ n ih =>
    have hlt := rkey_lt w n v
    simp only [rkey]
    by_cases hb : bitAt w n v = true
    · rw [if_pos hb, Nat.add_comm]
      rcases Nat.lt_trichotomy l n with h | h | h
      · rw [Nat.testBit_two_pow_add_gt h, ih]; simp [h, Nat.lt_succ_of_lt h]
      · subst h
        rw [Nat.testBit_two_pow_add_eq, Nat.testBit_lt_two_pow hlt, hb]; simp
      · have h2 : 2 ^ n + rkey w n v < 2 ^ l := by
          have : 2 ^ (n + 1) ≤ 2 ^ l := Nat.pow_le_pow_right (by omega) h
          rw [Nat.pow_succ] at this; omega
        rw [Nat.testBit_lt_two_pow h2]
        simp [show ¬ l < n + 1 by omega]
    · rw [if_neg hb, Nat.add_zero, ih]
      by_cases hl : l = n
      · subst hl; simp [Bool.eq_false_iff.mpr hb]
      · by_cases hln : l < n
        · simp [hln, Nat.lt_succ_of_lt hln]
        · simp [hln, show ¬ l < n + 1 by omega]

/-- `u64::reverse_bits` is the key shifted to the top of the word -/
theorem rev64_eq_rkey (w v : Nat) (hw1 : 1 ≤ w) (hw : w ≤ 64) (hv : v < 2 ^ w) :
    rev64 v = rkey w w v * 2 ^ (64 - w) := by
  apply Nat.eq_of_testBit_eq
  intro j
  rw [Nat.testBit_mul_two_pow, testBit_rkey, bitAt_eq_testBit]
  unfold rev64
  rw [← BitVec.getLsbD, BitVec.getLsbD_reverse, BitVec.getMsbD_eq_getLsbD, BitVec.getLsbD_ofNat]
  by_cases h1 : j < 64
  · by_cases h2 : 64 - w ≤ j
    · simp only [h1, h2, decide_true, Bool.true_and, show 64 - 1 - j < 64 by omega,
        show j - (64 - w) < w by omega]
      congr 1; omega
    · have : v < 2 ^ (64 - 1 - j) := Nat.lt_of_lt_of_le hv (Nat.pow_le_pow_right (by omega) (by omega))
      simp only [h2, decide_false, Bool.false_and, Nat.testBit_lt_two_pow this, Bool.and_false]
  · simp only [h1, decide_false, Bool.false_and]
    simp only [show ¬ j - (64 - w) < w by omega, decide_false, Bool.false_and, Bool.and_false]

theorem rev64_lt_iff (w u v : Nat) (hw1 : 1 ≤ w) (hw : w ≤ 64) (hu : u < 2 ^ w) (hv : v < 2 ^ w) :
    rev64 u < rev64 v ↔ rkey w w u < rkey w w v := by
  rw [rev64_eq_rkey w u hw1 hw hu, rev64_eq_rkey w v hw1 hw hv]
  exact Nat.mul_lt_mul_right (Nat.two_pow_pos _)

/-- `bits::reverse_low(v, w)` is the key -/
theorem reverseLow_eq_rkey (w v : Nat) (hw1 : 1 ≤ w) (hw : w ≤ 64) (hv : v < 2 ^ w) :
    (reverseLow (BitVec.ofNat 64 v) w).toNat = rkey w w v := by
  have h := rev64_eq_rkey w v hw1 hw hv
  unfold rev64 at h
  unfold reverseLow
  rw [BitVec.toNat_ushiftRight, h, Nat.shiftRight_eq_div_pow, Nat.mul_div_cancel _ (Nat.two_pow_pos _)]



theorem firstPos_eq_rev64 {c : WMCore} {V : List Nat} {width : Nat} (hc : c.Encodes V width) (v : Nat)
    (hv : v < 2 ^ width) :
    firstPos width V v = V.countP (fun u => decide (rev64 u < rev64 v)) := by
  rw [firstPos_eq_rkey]
  apply List.countP_congr
  intro u hu
  simp only [decide_eq_true_eq]
  exact (rev64_lt_iff width u v hc.width_pos hc.width_le (hc.bound u hu) hv).symm

theorem part_perm {α : Type} (p : α → Bool) (L : List α) : (part p L).Perm L := by
  unfold part
  have h := List.filter_append_perm (fun x => !p x) L
  have e : (fun x => !(fun x => !p x) x) = p := by funext x; simp
  simp only [e] at h
  exact h

theorem S_perm (w : Nat) (V : List Nat) (n : Nat) : (S w V n).Perm V := by
  induction n with
  | zero => exact List.Perm.refl _
  | succ n ih => exact (part_perm _ _).trans ih

/-- level `n` is sorted by the key formed by the first `n` levels -/
theorem S_sorted (w : Nat) (V : List Nat) (n : Nat) :
    (S w V n).Pairwise (fun a b => rkey w n a ≤ rkey w n b) := by
  induction n with
  | zero => simp [S, rkey, List.pairwise_iff_forall_sublist]
  | succ n ih =>
    simp only [S, part, List.pairwise_append]
    refine ⟨?_, ?_, ?_⟩
    · apply (ih.filter _).imp_of_mem
      intro a b ha hb hab
      have ha' := (List.mem_filter.mp ha).2
      have hb' := (List.mem_filter.mp hb).2
      simp only [Bool.not_eq_eq_eq_not, Bool.not_true] at ha' hb'
      simp only [rkey, ha', hb']; simpa using hab
    · apply (ih.filter _).imp_of_mem
      intro a b ha hb hab
      have ha' := (List.mem_filter.mp ha).2
      have hb' := (List.mem_filter.mp hb).2
      simp only [rkey, ha', hb', if_true]; omega
    · intro a ha b hb
      have ha' := (List.mem_filter.mp ha).2
      have hb' := (List.mem_filter.mp hb).2
      simp only [Bool.not_eq_eq_eq_not, Bool.not_true] at ha'
      have := rkey_lt w n a
      simp only [rkey, ha', hb', if_true]
      simp; omega



/-! ## 4c. `start_offsets` (the part before packing into an `IntVector`) -/

theorem rev64_inj (u v : Nat) (hu : u < 2 ^ 64) (hv : v < 2 ^ 64) (h : rev64 u = rev64 v) : u = v := by
  rw [rev64_eq_rkey 64 u (by omega) (by omega) hu, rev64_eq_rkey 64 v (by omega) (by omega) hv] at h
  simp only [Nat.sub_self, Nat.pow_zero, Nat.mul_one] at h
  have := (keyEq_iff 64 u v).mp (by rw [keyEq_iff_rkey]; simpa using h)
  rwa [Nat.mod_eq_of_lt hu, Nat.mod_eq_of_lt hv] at this

theorem firstPos_eq_rev64' (w : Nat) (V : List Nat) (hw1 : 1 ≤ w) (hw : w ≤ 64) (hV : ∀ u, u ∈ V → u < 2 ^ w)
    (v : Nat) (hv : v < 2 ^ w) :
    firstPos w V v = V.countP (fun u => decide (rev64 u < rev64 v)) := by
  rw [firstPos_eq_rkey]
  apply List.countP_congr
  intro u hu
  simp only [decide_eq_true_eq]
  exact (rev64_lt_iff w u v hw1 hw (hV u hu) hv).symm

/-- occurrence counters -/
theorem counts_fold (L : List Nat) (a : Array Nat) (v : Nat) (hv : v < a.size) :
    (L.foldl (fun a v => a.modify v (· + 1)) a).size = a.size ∧
    (L.foldl (fun a v => a.modify v (· + 1)) a)[v]?.getD 0 = a[v]?.getD 0 + L.count v := by
  induction L generalizing a with
  | nil => simp
  | cons x t ih =>
    simp only [List.foldl_cons]
    have := ih (a.modify x (· + 1)) (by rw [Array.size_modify]; exact hv)
    rw [Array.size_modify] at this
    refine ⟨this.1, ?_⟩
    rw [this.2, Array.getElem?_modify, List.count_cons]
    by_cases hx : x = v
    · subst hx; simp [hv]; omega
    · have : ¬ (x == v) = true := by simpa using hx
      simp [hx]

def offsStep (cnt : Nat → Nat) (len : Nat) (acc : Array Nat × Nat) (v : Nat) : Array Nat × Nat :=
  if cnt v = 0 then (acc.1.setIfInBounds v len, acc.2) else (acc.1.setIfInBounds v acc.2, acc.2 + cnt v)

/-- the offsets loop over an arbitrary duplicate-free visiting order -/
theorem offs_fold (cnt : Nat → Nat) (len : Nat) (O : List Nat) (arr : Array Nat) (run : Nat)
    (hnd : O.Nodup) (hlt : ∀ u, u ∈ O → u < arr.size) :
    let r := O.foldl (offsStep cnt len) (arr, run)
    r.1.size = arr.size ∧
    ∀ v, (v ∉ O → r.1[v]? = arr[v]?) ∧
      (v ∈ O → r.1[v]? = some (if cnt v = 0 then len else
        run + ((O.takeWhile (fun u => u != v)).map cnt).sum)) := by
  induction O generalizing arr run with
  | nil => intro r; exact ⟨rfl, fun v => ⟨fun _ => rfl, fun h => absurd h (List.not_mem_nil)⟩⟩
  | cons u t ih =>
    intro r
    have hu : u < arr.size := hlt u List.mem_cons_self
    have hnd' := List.nodup_cons.mp hnd
    by_cases hc : cnt u = 0
    · have hr : r = t.foldl (offsStep cnt len) (arr.setIfInBounds u len, run) := by
        simp only [r, List.foldl_cons, offsStep, hc, if_true]
      have := ih (arr.setIfInBounds u len) run hnd'.2
        (fun x hx => by rw [Array.size_setIfInBounds]; exact hlt x (List.mem_cons_of_mem _ hx))
      rw [← hr, Array.size_setIfInBounds] at this
      refine ⟨this.1, fun v => ⟨?_, ?_⟩⟩
      · intro hv
        have hvu : u ≠ v := fun h => hv (h ▸ List.mem_cons_self)
        rw [(this.2 v).1 (fun h => hv (List.mem_cons_of_mem _ h)), Array.getElem?_setIfInBounds, if_neg hvu]
      · intro hv
        by_cases hvu : u = v
        · subst hvu
          rw [(this.2 u).1 hnd'.1, Array.getElem?_setIfInBounds]
          simp [hu, hc]
        · have hvt : v ∈ t := by
            rcases List.mem_cons.mp hv with h | h
            · exact absurd h.symm hvu
            · exact h
          rw [(this.2 v).2 hvt, List.takeWhile_cons]
          simp [hvu, hc]
    · have hr : r = t.foldl (offsStep cnt len) (arr.setIfInBounds u run, run + cnt u) := by
        simp only [r, List.foldl_cons, offsStep, hc, if_false]
      have := ih (arr.setIfInBounds u run) (run + cnt u) hnd'.2
        (fun x hx => by rw [Array.size_setIfInBounds]; exact hlt x (List.mem_cons_of_mem _ hx))
      rw [← hr, Array.size_setIfInBounds] at this
      refine ⟨this.1, fun v => ⟨?_, ?_⟩⟩
      · intro hv
        have hvu : u ≠ v := fun h => hv (h ▸ List.mem_cons_self)
        rw [(this.2 v).1 (fun h => hv (List.mem_cons_of_mem _ h)), Array.getElem?_setIfInBounds, if_neg hvu]
      · intro hv
        by_cases hvu : u = v
        · subst hvu
          rw [(this.2 u).1 hnd'.1, Array.getElem?_setIfInBounds]
          simp [hu, hc]
        · have hvt : v ∈ t := by
            rcases List.mem_cons.mp hv with h | h
            · exact absurd h.symm hvu
            · exact h
          rw [(this.2 v).2 hvt, List.takeWhile_cons]
          simp [hvu, Nat.add_assoc]

theorem takeWhile_ne_eq_filter (key : Nat → Nat) (O : List Nat)
    (hs : O.Pairwise (fun a b => key a ≤ key b))
    (hinj : ∀ a, a ∈ O → ∀ b, b ∈ O → key a = key b → a = b) (v : Nat) (hv : v ∈ O) :
    O.takeWhile (fun u => u != v) = O.filter (fun u => decide (key u < key v)) := by
  induction O with
  | nil => exact absurd hv List.not_mem_nil
  | cons a t ih =>
    have hs' := List.pairwise_cons.mp hs
    rw [List.takeWhile_cons, List.filter_cons]
    by_cases hav : a = v
    · subst hav
      simp only [bne_self_eq_false, Bool.false_eq_true, if_false, Nat.lt_irrefl, decide_false]
      symm
      apply List.filter_eq_nil_iff.mpr
      intro x hx
      have := hs'.1 x hx
      simp only [decide_eq_true_eq]; omega
    · have hvt : v ∈ t := by
        rcases List.mem_cons.mp hv with h | h
        · exact absurd h.symm hav
        · exact h
      have hle := hs'.1 v hvt
      have hne : key a ≠ key v := fun h => hav (hinj a List.mem_cons_self v hv h)
      have hlt : key a < key v := by omega
      have hb : (a != v) = true := by simpa using hav
      simp only [hb, if_true, hlt, decide_true]
      rw [ih hs'.2 (fun x hx y hy => hinj x (List.mem_cons_of_mem _ hx) y (List.mem_cons_of_mem _ hy)) hvt]

theorem countP_lt_succ (p : Nat → Bool) (V : List Nat) (N : Nat) :
    V.countP (fun x => p x && decide (x < N + 1)) =
      V.countP (fun x => p x && decide (x < N)) + (if p N then V.count N else 0) := by
  induction V with
  | nil => simp
  | cons x t ih =>
    simp only [List.countP_cons, List.count_cons, ih]
    rcases Nat.lt_trichotomy x N with h | h | h
    · have h1 : (x == N) = false := by simpa using Nat.ne_of_lt h
      simp only [h, Nat.lt_succ_of_lt h, decide_true, Bool.and_true, h1, Bool.false_eq_true, if_false,
        Nat.add_zero]
      omega
    · subst h
      simp only [Nat.lt_irrefl, Nat.lt_succ_self, decide_true, decide_false, Bool.and_true, Bool.and_false,
        Bool.false_eq_true, if_false, beq_self_eq_true, if_true, Nat.add_zero]
      split <;> omega
    · have h1 : (x == N) = false := by simpa using Nat.ne_of_gt h
      simp only [show ¬ x < N by omega, show ¬ x < N + 1 by omega, decide_false, Bool.and_false,
        Bool.false_eq_true, if_false, Nat.add_zero, h1]

theorem sum_count_filter_range (p : Nat → Bool) (V : List Nat) (N : Nat) :
    (((List.range N).filter p).map (fun u => V.count u)).sum = V.countP (fun x => p x && decide (x < N)) := by
  induction N with
  | zero => simp
  | succ N ih =>
    rw [List.range_succ, List.filter_append, List.map_append, List.sum_append, ih, countP_lt_succ]
    congr 1
    by_cases hp : p N = true
    · simp [hp]
    · simp [hp]

/-- `start_offsets` before the conversion to a packed `IntVector` -/
def startOffsetsRaw (vals : List Nat) (len maxv : Nat) : Array Nat :=
  (((List.range (maxv + 1)).mergeSort (fun a b => rev64 a ≤ rev64 b)).foldl
    (offsStep (fun v => (vals.foldl (fun a v => a.modify v (· + 1)) (Array.replicate (maxv + 1) 0))[v]?.getD 0) len)
    (Array.replicate (maxv + 1) 0, 0)).1

theorem startOffsets_eq (vals : List Nat) (len maxv : Nat) :
    WM.startOffsets vals len maxv = (IntVec.ofList 64 (startOffsetsRaw vals len maxv).toList).pack := rfl

/-- **`start_offsets` computes `first`**: entry `v` is `first v` for an occurring value and `len` otherwise -/
theorem startOffsetsRaw_ok (w : Nat) (V : List Nat) (hw1 : 1 ≤ w) (hw : w ≤ 64) (hV : ∀ u, u ∈ V → u < 2 ^ w) :
    (startOffsetsRaw V V.length (V.foldl max 0)).size = V.foldl max 0 + 1 ∧
    ∀ v, v ≤ V.foldl max 0 →
      (startOffsetsRaw V V.length (V.foldl max 0))[v]? =
        some (if v ∈ V then firstPos w V v else V.length) := by
  generalize hN : V.foldl max 0 = maxv
  have hmaxlt : maxv < 2 ^ w := by
    rw [← hN]; exact foldl_max_lt_wm V 0 _ (Nat.two_pow_pos w) hV
  have h64 : 2 ^ w ≤ 2 ^ 64 := Nat.pow_le_pow_right (by omega) hw
  have hVle : ∀ u, u ∈ V → u ≤ maxv := by rw [← hN]; exact (foldl_max_ge_wm V 0).2
  let order := (List.range (maxv + 1)).mergeSort (fun a b => rev64 a ≤ rev64 b)
  have hperm : order.Perm (List.range (maxv + 1)) := List.mergeSort_perm _ _
  have hmem : ∀ u, u ∈ order ↔ u < maxv + 1 := fun u => by rw [hperm.mem_iff, List.mem_range]
  have hnd : order.Nodup := hperm.nodup_iff.mpr List.nodup_range
  have hsorted : order.Pairwise (fun a b => rev64 a ≤ rev64 b) := by
    have := List.pairwise_mergeSort (le := fun a b => decide (rev64 a ≤ rev64 b))
      (fun a b c h1 h2 => by simp only [decide_eq_true_eq] at *; omega)
      (fun a b => by simp only [Bool.or_eq_true, decide_eq_true_eq]; omega) (List.range (maxv + 1))
    exact this.imp (fun h => by simpa using h)
  let cnt : Nat → Nat := fun v =>
    (V.foldl (fun a v => a.modify v (· + 1)) (Array.replicate (maxv + 1) 0))[v]?.getD 0
  have hcnt : ∀ u, u < maxv + 1 → cnt u = V.count u := by
    intro u hu
    have := (counts_fold V (Array.replicate (maxv + 1) 0) u (by simpa using hu)).2
    simp only [cnt, this, Array.getElem?_replicate, hu, if_true, Option.getD_some, Nat.zero_add]
  have hfold := offs_fold cnt V.length order (Array.replicate (maxv + 1) 0) 0 hnd
    (fun u hu => by simpa using (hmem u).mp hu)
  simp only [Array.size_replicate] at hfold
  refine ⟨hfold.1, fun v hv => ?_⟩
  have hvo : v ∈ order := (hmem v).mpr (by omega)
  have := (hfold.2 v).2 hvo
  unfold startOffsetsRaw
  rw [this, hcnt v (by omega)]
  congr 1
  by_cases hvV : v ∈ V
  · have hpos := List.count_pos_iff.mpr hvV
    rw [if_neg (by omega), if_pos hvV, Nat.zero_add,
      takeWhile_ne_eq_filter rev64 order hsorted
        (fun a ha b hb h => rev64_inj a b (by have := (hmem a).mp ha; omega) (by have := (hmem b).mp hb; omega) h)
        v hvo,
      firstPos_eq_rev64' w V hw1 hw hV v (hV v hvV)]
    have hmap : (order.filter (fun u => decide (rev64 u < rev64 v))).map cnt =
        (order.filter (fun u => decide (rev64 u < rev64 v))).map (fun u => V.count u) :=
      List.map_congr_left (fun u hu => hcnt u ((hmem u).mp (List.mem_filter.mp hu).1))
    rw [hmap, ((hperm.filter _).map _).sum_nat, sum_count_filter_range]
    apply List.countP_congr
    intro u hu
    have := hVle u hu
    simp only [show u < maxv + 1 by omega, decide_true, Bool.and_true]
  · rw [if_pos (List.count_eq_zero.mpr hvV), if_neg hvV]

/-- **the builder `WaveletMatrix::from` satisfies `WM.Ok`**, given the plain-bitvector theorem for the bit
columns (`hbv`) and the `IntVector` round trip for `first` (`hiv`) -/
theorem WM.ofValues_ok (V : List Nat) (hV : ∀ v, v ∈ V → v < 2 ^ 64) (hlen : V.length < 2 ^ 63)
    (hbv : ∀ B : List Bool, B.length = V.length →
      LevelOk (BitVector.ofRaw (RawVec.ofBits B)).enableAll B)
    (hiv : ∀ xs : List Nat, xs ≠ [] → (∀ x, x ∈ xs → x < 2 ^ 63) →
      ((IntVec.ofList 64 xs).pack).len = xs.length ∧
      ∀ i (h : i < xs.length), ((IntVec.ofList 64 xs).pack).get i = ok (BitVec.ofNat 64 xs[i])) :
    (WM.ofValues V).Ok V (widthOf V) := by
  have hVw := lt_two_pow_widthOf V hV
  obtain ⟨hsize, hget⟩ := startOffsetsRaw_ok (widthOf V) V (widthOf_pos V) (widthOf_le V) hVw
  have htl : (startOffsetsRaw V V.length (V.foldl max 0)).toList.length = V.foldl max 0 + 1 :=
    Array.length_toList.trans hsize
  have hxs : ∀ x, x ∈ (startOffsetsRaw V V.length (V.foldl max 0)).toList → x < 2 ^ 63 := by
    intro x hx
    obtain ⟨i, hi, rfl⟩ := List.getElem_of_mem hx
    rw [htl] at hi
    have h := hget i (by omega)
    rw [Array.getElem_toList, Array.getElem_eq_iff.mpr h]
    split
    · exact Nat.lt_of_le_of_lt List.countP_le_length hlen
    · exact hlen
  have hne : (startOffsetsRaw V V.length (V.foldl max 0)).toList ≠ [] := by
    intro h
    have := congrArg List.length h
    rw [htl] at this
    simp at this
  obtain ⟨hl, hg⟩ := hiv _ hne hxs
  rw [htl] at hl
  refine ⟨ofValues_encodes V hV hlen hbv, rfl, ?_, ?_⟩
  · intro v hv
    show v < (WM.startOffsets V V.length (V.foldl max 0)).len
    rw [startOffsets_eq, hl]
    have := (foldl_max_ge_wm V 0).2 v hv
    omega
  · intro v hv
    change v < (WM.startOffsets V V.length (V.foldl max 0)).len at hv
    rw [startOffsets_eq, hl] at hv
    have hv' : v < (startOffsetsRaw V V.length (V.foldl max 0)).toList.length := by
      rw [htl]; exact hv
    refine ⟨BitVec.ofNat 64 (startOffsetsRaw V V.length (V.foldl max 0)).toList[v], ?_, ?_⟩
    · show (WM.startOffsets V V.length (V.foldl max 0)).get v = _
      rw [startOffsets_eq]; exact hg v hv'
    · have hx := hxs _ (List.getElem_mem hv')
      rw [BitVec.toNat_ofNat, Nat.mod_eq_of_lt (by omega)]
      have h := hget v (by omega)
      rw [Array.getElem_toList, Array.getElem_eq_iff.mpr h]


/-! ## 5. The known defect F4 as closed counterexamples (about the code as first written) -/

/-- `map_up_with` as first coded: the fold of `WMCore.mapUpWith` over the unrepaired `mapUpOneOld` -/
def mapUpWithOld (m : Mode) (c : WMCore) (index value : Nat) : Outcome (Option Nat) :=
  (List.range c.width).reverse.foldlM (fun (acc : Option Nat) l =>
      match acc with
      | none => return none
      | some i => if (value / c.bitValue l) % 2 = 1 then c.mapUpOneOld m i l else c.mapUpZero m i l) (some index)

/-- position 0 of the last level holds the value 0; mapping it up as a 1 computes `0 - zeros` at level 0 -/
theorem F4_mapUpWith_checked :
    mapUpWithOld .checked (WMCore.ofValues [0, 1]) 0 1 = fault (.panic .overflow) := by decide +kernel

theorem F4_mapUpWith_wrapping :
    mapUpWithOld .wrapping (WMCore.ofValues [0, 1]) 0 1 = ok none := by decide +kernel

/-- the repaired `map_up_with` answers `none` on the same input, in both builds -/
theorem F4_mapUpWith_repaired_checked :
    (WMCore.ofValues [0, 1]).mapUpWith .checked 0 1 = ok none := by decide +kernel

theorem F4_mapUpWith_repaired_wrapping :
    (WMCore.ofValues [0, 1]).mapUpWith .wrapping 0 1 = ok none := by decide +kernel

theorem F4_mergeSort : (List.range (1 + 1)).mergeSort (fun a b => decide (rev64 a ≤ rev64 b)) = [0, 1] := by
  apply List.mergeSort_of_pairwise; decide +kernel

theorem F4_max : ([0, 1] : List Nat).foldl max 0 = 1 := by decide

/-- `WM.ofValues [0,1]` with the (well-founded, hence kernel-opaque) merge sort of `start_offsets` evaluated -/
theorem F4_ofValues : WM.ofValues [0, 1] = ⟨2, WMCore.ofValues [0, 1],
    (IntVec.ofList 64 ((([0, 1] : List Nat).foldl (fun (acc : Array Nat × Nat) v =>
      let c := (([0, 1] : List Nat).foldl (fun a v => a.modify v (· + 1)) (Array.replicate (1 + 1) 0))[v]?.getD 0
      if c = 0 then (acc.1.setIfInBounds v 2, acc.2) else (acc.1.setIfInBounds v acc.2, acc.2 + c))
    (Array.replicate (1 + 1) 0, 0)).1).toList).pack⟩ := by
  unfold WM.ofValues WM.startOffsets
  simp only [F4_max, F4_mergeSort, List.length_cons, List.length_nil]

/-- `start + rank` overflows in `select` as first coded -/
theorem F4_select_checked :
    (WM.ofValues [0, 1]).selectOld .checked (2 ^ 64 - 1) 1 = fault (.panic .overflow) := by
  rw [F4_ofValues]; decide +kernel

theorem F4_select_wrapping :
    (WM.ofValues [0, 1]).selectOld .wrapping (2 ^ 64 - 1) 1 = ok none := by
  rw [F4_ofValues]; decide +kernel

/-- the repaired `select` answers `none` on the same input, in both builds -/
theorem F4_select_repaired_checked :
    (WM.ofValues [0, 1]).select .checked (2 ^ 64 - 1) 1 = ok none := by
  rw [F4_ofValues]; decide +kernel

theorem F4_select_repaired_wrapping :
    (WM.ofValues [0, 1]).select .wrapping (2 ^ 64 - 1) 1 = ok none := by
  rw [F4_ofValues]; decide +kernel

end Sds
