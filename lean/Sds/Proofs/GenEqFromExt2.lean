/-
Proofs/GenEqFromExt2: the `u8` / `u16` / `u32` / `usize` instances of `macro_rules! from_extend_int_vector` as translated from
the source on this run (`Generated/FnsFromExt2.lean`).  The `Extend` body does not mention the item type: its translation
at every instance is, definitionally, the translation at `u64` (`rfl`).  `From<Vec<$t>>` and `FromIterator<$t>` differ in
the width `$w` handed to `with_capacity` / `new`: each builds the empty vector of that width and extends it — the model's
`extend` on `⟨0, $w, empty⟩`, which truncates every item to `$w` bits (an item of type `$t` is below `2^$w` anyway).
-/
import Sds.Generated.FnsFromExt2
import Sds.Proofs.GenEqFromExt
namespace Sds.GenEq
open Sds Outcome Generated

theorem int_extend_u8_is_u64 : @gen_IntVector_extend_u8 = @gen_IntVector_extend_u64 := rfl
theorem int_extend_u16_is_u64 : @gen_IntVector_extend_u16 = @gen_IntVector_extend_u64 := rfl
theorem int_extend_u32_is_u64 : @gen_IntVector_extend_u32 = @gen_IntVector_extend_u64 := rfl
theorem int_extend_usize_is_u64 : @gen_IntVector_extend_usize = @gen_IntVector_extend_u64 := rfl

/-- `with_capacity(n, w).unwrap()` followed by the (width-independent) `extend`, for any admissible width -/
theorem fe2_from_vec_w (m : Mode) (cap n w : Nat) (items : List Word) (hw1 : 1 ≤ w) (hw : w ≤ 64)
    (hc : n * w + 63 < U64) (hb : items.length * w + 63 < U64) :
    ((unwrapRes (gen_IntVector_with_capacity m n w)) >>= fun r => (gen_IntVector_extend_u64 m cap r items >>= fun t2 => ok t2)) =
      ok ((⟨0, w, RawVec.empty⟩ : IntVec).extend items) := by
  rw [int_with_capacity_eq m n w hc]
  unfold IntVec.withCapacity IntVec.new
  rw [if_neg (by omega)]
  have he := int_extend_eq m cap ⟨0, w, RawVec.empty⟩ items (IntVec.empty_WF w hw1 hw) (by simpa using hb)
  simp only [unwrapRes, bind_ok, he]

theorem fe2_from_iter_w (m : Mode) (cap w : Nat) (items : List Word) (hw1 : 1 ≤ w) (hw : w ≤ 64)
    (hb : items.length * w + 63 < U64) :
    ((unwrapRes (gen_IntVector_new m w)) >>= fun r => (gen_IntVector_extend_u64 m cap r items >>= fun t2 => ok t2)) =
      ok ((⟨0, w, RawVec.empty⟩ : IntVec).extend items) := by
  rw [int_new_eq]
  unfold IntVec.new
  rw [if_neg (by omega)]
  have he := int_extend_eq m cap ⟨0, w, RawVec.empty⟩ items (IntVec.empty_WF w hw1 hw) (by simpa using hb)
  simp only [unwrapRes, bind_ok, he]

theorem int_from_vec_u8_eq (m : Mode) (cap : Nat) (a : Array Word) (hb : a.size * 8 + 63 < U64) :
    gen_IntVector_from_vec_u8 m cap a = ok ((⟨0, 8, RawVec.empty⟩ : IntVec).extend a.toList) := by
  have h := fe2_from_vec_w m cap a.size 8 a.toList (by decide) (by decide) hb (by simpa using hb)
  unfold gen_IntVector_from_vec_u8; rw [int_extend_u8_is_u64]; simpa using h

theorem int_from_vec_u16_eq (m : Mode) (cap : Nat) (a : Array Word) (hb : a.size * 16 + 63 < U64) :
    gen_IntVector_from_vec_u16 m cap a = ok ((⟨0, 16, RawVec.empty⟩ : IntVec).extend a.toList) := by
  have h := fe2_from_vec_w m cap a.size 16 a.toList (by decide) (by decide) hb (by simpa using hb)
  unfold gen_IntVector_from_vec_u16; rw [int_extend_u16_is_u64]; simpa using h

theorem int_from_vec_u32_eq (m : Mode) (cap : Nat) (a : Array Word) (hb : a.size * 32 + 63 < U64) :
    gen_IntVector_from_vec_u32 m cap a = ok ((⟨0, 32, RawVec.empty⟩ : IntVec).extend a.toList) := by
  have h := fe2_from_vec_w m cap a.size 32 a.toList (by decide) (by decide) hb (by simpa using hb)
  unfold gen_IntVector_from_vec_u32; rw [int_extend_u32_is_u64]; simpa using h

theorem int_from_vec_usize_eq (m : Mode) (cap : Nat) (a : Array Word) (hb : a.size * 64 + 63 < U64) :
    gen_IntVector_from_vec_usize m cap a = ok ((⟨0, 64, RawVec.empty⟩ : IntVec).extend a.toList) := by
  have h := fe2_from_vec_w m cap a.size 64 a.toList (by decide) (by decide) hb (by simpa using hb)
  unfold gen_IntVector_from_vec_usize; rw [int_extend_usize_is_u64]; simpa using h

theorem int_from_iter_u8_eq (m : Mode) (cap : Nat) (it : List Word) (hb : it.length * 8 + 63 < U64) :
    gen_IntVector_from_iter_u8 m cap it = ok ((⟨0, 8, RawVec.empty⟩ : IntVec).extend it) := by
  have h := fe2_from_iter_w m cap 8 it (by decide) (by decide) hb
  unfold gen_IntVector_from_iter_u8; rw [int_extend_u8_is_u64]; simpa using h

theorem int_from_iter_u16_eq (m : Mode) (cap : Nat) (it : List Word) (hb : it.length * 16 + 63 < U64) :
    gen_IntVector_from_iter_u16 m cap it = ok ((⟨0, 16, RawVec.empty⟩ : IntVec).extend it) := by
  have h := fe2_from_iter_w m cap 16 it (by decide) (by decide) hb
  unfold gen_IntVector_from_iter_u16; rw [int_extend_u16_is_u64]; simpa using h

theorem int_from_iter_u32_eq (m : Mode) (cap : Nat) (it : List Word) (hb : it.length * 32 + 63 < U64) :
    gen_IntVector_from_iter_u32 m cap it = ok ((⟨0, 32, RawVec.empty⟩ : IntVec).extend it) := by
  have h := fe2_from_iter_w m cap 32 it (by decide) (by decide) hb
  unfold gen_IntVector_from_iter_u32; rw [int_extend_u32_is_u64]; simpa using h

theorem int_from_iter_usize_eq (m : Mode) (cap : Nat) (it : List Word) (hb : it.length * 64 + 63 < U64) :
    gen_IntVector_from_iter_usize m cap it = ok ((⟨0, 64, RawVec.empty⟩ : IntVec).extend it) := by
  have h := fe2_from_iter_w m cap 64 it (by decide) (by decide) hb
  unfold gen_IntVector_from_iter_usize; rw [int_extend_usize_is_u64]; simpa using h

/-- non-vacuity: three bytes become a width-8 vector holding them -/
example : gen_IntVector_from_vec_u8 .checked 0 #[5, 255, 0] = ok ((⟨0, 8, RawVec.empty⟩ : IntVec).extend [5, 255, 0]) ∧
    ((⟨0, 8, RawVec.empty⟩ : IntVec).extend [5, 255, 0]).len = 3 := by decide +kernel

end Sds.GenEq
