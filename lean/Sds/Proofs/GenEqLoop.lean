/-
Proofs/GenEqLoop: the methods of `sparse_vector.rs` that contain `while` loops, as TRANSLATED statement by statement
from the source (Generated/FnsLoop.lean, loops through `loopM` / `Ctl`), are equal to the hand-written model
definitions (Model/Sparse.lean, fuel-indexed structural recursions) — under explicit hypotheses, each of which is
either a representation bound (lengths < 2^64) or shown to be necessary by a concrete counterexample.

  count_zeros : unconditional
  get, successor : width ≤ 64 (argument < 2^64 at width 64), `high.len < 2^64`, `low.len < 2^64`
  rank, predecessor : width ≤ 64 (argument < 2^64 at width 64) and `low ≤ high` for the position returned by
    `upper_bound` — automatic with overflow checks on, and in both modes when `select_zero(h) ≥ h`
  every `Sparse.Encodes` vector: unconditional, both modes (`*_of_encodes`)

Each loop is related to its model recursion by induction on the fuel (`loop_get`, `loop_back`, `loop_skip`,
`loop_succ1`, `loop_succ2`); the bodies `step*` are the lambdas of the generated code (`gen_*_unfold : … := rfl`).
-/
import Sds.Generated.FnsLoop
import Sds.Proofs.GenEqIdx
import Sds.Proofs.Sparse

set_option linter.unusedSimpArgs false
set_option linter.unusedVariables false

namespace Sds.GenEq
open Sds Outcome Generated

/-! ### count_zeros -/

theorem sparse_count_zeros_eq (m : Mode) (s : Sparse) :
    gen_SparseVector_count_zeros m s = ok s.countZeros := by
  unfold gen_SparseVector_count_zeros Sparse.countZeros
  by_cases h : s.countOnes ≥ s.len
  · simp [h]
  · have h1 : subM m s.len s.countOnes = ok (s.len - s.countOnes) := subM_ok (by omega)
    simp [h, h1]

/-! ### get -/

/-- the body of the loop of `get` (the lambda of the generated code, by `rfl`) -/
def stepGet (m : Mode) (s : Sparse) (lo : Nat) (pos : Pos) : Outcome (Ctl Pos Bool) := do
  let t4 ← (if (decide (pos.high < (BitVector.len s.high))) then do
      let t3 ← BitVector.get s.high pos.high
      pure t3
    else do
      pure false)
  if t4 then do
    let t5 ← IntVec.get s.low pos.low
    let low := (t5).toNat
    if (decide (low ≥ lo)) then do
      pure (Ctl.ret (decide (low = lo)))
    else do
      let t6 ← addM m pos.high 1
      let pos := { pos with high := t6 }
      let t7 ← addM m pos.low 1
      let pos := { pos with low := t7 }
      pure (Ctl.next pos)
  else do
    pure (Ctl.brk pos)

def finGet : Ctl Pos Bool → Outcome Bool
  | .ret r => pure r
  | .next _ => fault .fuel
  | .brk _ => pure false

theorem gen_get_unfold (m : Mode) (s : Sparse) (i : Nat) :
    gen_SparseVector_get m s i = (do
      let t1 ← gen_SparseVector_split m s i
      let t2 ← gen_SparseVector_lower_bound m s t1.1
      loopM (s.high.len + 1) (stepGet m s t1.2) t2 >>= finGet) := rfl

theorem loop_get (m : Mode) (s : Sparse) (lo : Nat) (hh : s.high.len < U64) (hl : s.low.len < U64) :
    ∀ (fuel : Nat) (p : Pos), (loopM fuel (stepGet m s lo) p >>= finGet) = s.getLoop lo fuel p := by
  intro fuel
  induction fuel with
  | zero => intro p; rfl
  | succ n ih =>
    intro p
    rw [loopM, Sparse.getLoop]
    by_cases h1 : p.high < s.high.len
    · have h1' : p.high < BitVector.len s.high := h1
      cases hb : s.high.get p.high with
      | fault f => simp [stepGet, h1', hb, Bind.bind, Outcome.bind]
      | ok b =>
        cases b with
        | false => simp [stepGet, h1', hb, Bind.bind, Outcome.bind, finGet, Pure.pure]
        | true =>
          by_cases h2 : p.low < s.low.len
          · have e1 : addM m p.high 1 = ok (p.high + 1) := addM_ok (by omega)
            have e2 : addM m p.low 1 = ok (p.low + 1) := addM_ok (by omega)
            by_cases h3 : (s.low.getRaw p.low).toNat ≥ lo
            · simp [stepGet, h1', hb, IntVec.get, h2, h3, finGet]
              by_cases h4 : (s.low.getRaw p.low).toNat = lo <;> simp [h4]
            · simp only [stepGet, h1', hb, IntVec.get, h2, h3, e1, e2, decide_true, decide_false, if_true, if_false,
                bind_ok, pure_eq, Bool.false_eq_true]
              exact ih _
          · simp [stepGet, h1', hb, Bind.bind, Outcome.bind, IntVec.get, h2]
    · have h1' : ¬ p.high < BitVector.len s.high := h1
      simp [stepGet, h1', Bind.bind, Outcome.bind, finGet, Pure.pure]

/-- `get`.  `hw`, `hi`: as for `split` (`hi` only matters at width 64); `hh`, `hl`: representation bounds (the model
advances positions in `Nat`, the code with `usize` additions; the loop continues only below the lengths).  `hl` can
only fail with a length `≥ 2^64`: `sparse_get_ne`. -/
theorem sparse_get_eq (m : Mode) (s : Sparse) (i : Nat) (hw : s.width ≤ 64) (hi : s.width = 64 → i < U64)
    (hh : s.high.len < U64) (hl : s.low.len < U64) :
    gen_SparseVector_get m s i = s.get m i := by
  rw [gen_get_unfold, split_eq m s i hw hi]
  simp only [bind_ok, lower_bound_eq]
  show _ = (s.lowerBound m (s.split i).1 >>= fun p => s.getLoop (s.split i).2 (s.high.len + 1) p)
  cases h : s.lowerBound m (s.split i).1 with
  | fault f => rfl
  | ok p => simp only [bind_ok]; exact loop_get m s _ hh hl _ p

/-! ### the backward scan of `rank` and `predecessor` -/

/-- the body of the first loop of `rank` / `predecessor`; `c` is the comparison with the low part of the argument, `r0`
the value returned when the scan runs off the front -/
def stepBack {ρ : Type} (m : Mode) (s : Sparse) (c : Nat → Bool) (r0 : ρ) (pos : Pos) : Outcome (Ctl Pos ρ) := do
  let t5 ← BitVector.get s.high pos.high
  let t7 ← (if t5 then do
      let t6 ← IntVec.get s.low pos.low
      pure (c (t6).toNat)
    else do
      pure false)
  if t7 then do
    if (decide (pos.low = 0)) then do
      pure (Ctl.ret r0)
    else do
      let t8 ← subM m pos.high 1
      let pos := { pos with high := t8 }
      let t9 ← subM m pos.low 1
      let pos := { pos with low := t9 }
      pure (Ctl.next pos)
  else do
    pure (Ctl.brk pos)

def finBack {ρ : Type} (r0 : ρ) : Option Pos → Ctl Pos ρ
  | none => .ret r0
  | some q => .brk q

theorem loop_back {ρ : Type} (m : Mode) (s : Sparse) (lo : Nat) (strict : Bool) (c : Nat → Bool) (r0 : ρ)
    (hc : ∀ l, c l = true ↔ (if strict = true then l > lo else l ≥ lo)) :
    ∀ (fuel : Nat) (p : Pos), p.low ≤ p.high →
      loopM fuel (stepBack m s c r0) p = (s.backLoop lo strict fuel p >>= fun o => pure (finBack r0 o)) := by
  intro fuel
  induction fuel with
  | zero => intro p _; rfl
  | succ n ih =>
    intro p hp
    rw [loopM, Sparse.backLoop]
    cases hb : s.high.get p.high with
    | fault f => simp [stepBack, hb]
    | ok b =>
      cases b with
      | false => simp [stepBack, hb, finBack]
      | true =>
        by_cases h2 : p.low < s.low.len
        · by_cases h3 : (if strict = true then (s.low.getRaw p.low).toNat > lo else (s.low.getRaw p.low).toNat ≥ lo)
          · have h3' := (hc _).mpr h3
            by_cases h4 : p.low = 0
            · simp only [stepBack, hb, IntVec.get, h2, h3, h3', if_pos h4, decide_eq_true h4, finBack, if_true,
                bind_ok, pure_eq]
            · have e1 : subM m p.high 1 = ok (p.high - 1) := subM_ok (by omega)
              have e2 : subM m p.low 1 = ok (p.low - 1) := subM_ok (by omega)
              simp only [stepBack, hb, IntVec.get, h2, h3, h3', h4, e1, e2, decide_true, decide_false, if_true,
                if_false, bind_ok, pure_eq, Bool.false_eq_true]
              exact ih _ (by simp only; omega)
          · have h3' : c (s.low.getRaw p.low).toNat = false := by
              cases hcv : c (s.low.getRaw p.low).toNat with
              | false => rfl
              | true => exact absurd ((hc _).mp hcv) h3
            simp [stepBack, hb, IntVec.get, h2, h3, h3', finBack]
        · simp [stepBack, hb, IntVec.get, h2]

/-- the backward scan never moves `low` up -/
theorem backLoop_low_le (s : Sparse) (lo : Nat) (strict : Bool) :
    ∀ (fuel : Nat) (p q : Pos), s.backLoop lo strict fuel p = ok (some q) → q.low ≤ p.low := by
  intro fuel
  induction fuel with
  | zero => intro p q h; simp [Sparse.backLoop] at h
  | succ n ih =>
    intro p q h
    rw [Sparse.backLoop] at h
    cases hb : s.high.get p.high with
    | fault f => simp [hb] at h
    | ok b =>
      cases b with
      | false =>
        simp [hb] at h
        rw [← h]; exact Nat.le_refl _
      | true =>
        cases hl : s.low.get p.low with
        | fault f => simp [hb, hl] at h
        | ok l =>
          simp only [hb, hl, bind_ok, if_true] at h
          by_cases h3 : (if strict = true then l.toNat > lo else l.toNat ≥ lo)
          · by_cases h4 : p.low = 0
            · simp [h3, h4] at h
            · rw [if_pos h3, if_neg h4] at h
              have := ih _ _ h
              simp only at this
              omega
          · rw [if_neg h3] at h
            simp at h
            rw [← h]; exact Nat.le_refl _

/-! ### the hypothesis on `upper_bound` -/

theorem bind_eq_ok {α β : Type} {x : Outcome α} {f : α → Outcome β} {r : β} (h : (x >>= f) = ok r) :
    ∃ a, x = ok a ∧ f a = ok r := by
  cases x with
  | fault e => simp at h
  | ok a => exact ⟨a, rfl, h⟩

theorem addM_lt {m : Mode} {a b r : Nat} (h : addM m a b = ok r) : r < U64 := by
  unfold addM at h
  by_cases h1 : a + b < U64
  · simp [h1] at h; omega
  · cases m with
    | checked => simp [h1] at h
    | wrapping =>
      simp [h1] at h
      rw [← h]; exact Nat.mod_lt _ (by decide)

theorem subM_lt {m : Mode} {a b r : Nat} (ha : a < U64) (h : subM m a b = ok r) : r < U64 := by
  unfold subM at h
  by_cases h1 : b ≤ a
  · simp [h1] at h; omega
  · cases m with
    | checked => simp [h1] at h
    | wrapping =>
      simp [h1] at h
      rw [← h]; exact Nat.mod_lt _ (by decide)

theorem scan_lt (tr : Tr) (m : Mode) (v : RawVec) :
    ∀ (fuel word : Nat) (value : Word) (rr r : Nat), SelSup.scan tr m v fuel word value rr = ok r → r < U64 := by
  intro fuel
  induction fuel with
  | zero => intro word value rr r h; simp [SelSup.scan] at h
  | succ n ih =>
    intro word value rr r h
    rw [SelSup.scan] at h
    split at h
    · obtain ⟨p, _, h2⟩ := bind_eq_ok h
      exact addM_lt h2
    · obtain ⟨nv, _, h2⟩ := bind_eq_ok h
      exact ih _ _ _ _ h2

/-- `select_unchecked` returns a `usize` -/
theorem selectU_lt (s : SelSup) (tr : Tr) (m : Mode) (v : RawVec) (rank r : Nat)
    (h : s.selectU tr m v rank = ok r) : r < U64 := by
  unfold SelSup.selectU at h
  simp only at h
  obtain ⟨r0, _, h⟩ := bind_eq_ok h
  have hr0 : r0.toNat < U64 := by rw [U64_eq]; exact r0.isLt
  split at h
  · simp at h; omega
  · obtain ⟨p, _, h⟩ := bind_eq_ok h
    split at h
    · obtain ⟨d, _, h⟩ := bind_eq_ok h
      exact addM_lt h
    · obtain ⟨d, _, h⟩ := bind_eq_ok h
      obtain ⟨res, hres, h⟩ := bind_eq_ok h
      split at h
      · obtain ⟨w, _, h⟩ := bind_eq_ok h
        exact scan_lt _ _ _ _ _ _ _ _ h
      · simp at h
        have := addM_lt hres
        omega

theorem selectT_lt (tr : Tr) (m : Mode) (b : BitVector) (r z : Nat)
    (h : BitVector.selectT tr m b r = ok (some z)) : z < U64 := by
  unfold BitVector.selectT at h
  split at h
  · simp at h
  · split at h
    · simp at h
    · obtain ⟨p, hp, h⟩ := bind_eq_ok h
      simp at h
      rw [← h]; exact selectU_lt _ _ _ _ _ _ hp

/-- the pair returned by `upper_bound` consists of `usize` values -/
theorem upperBound_lt (m : Mode) (s : Sparse) (hp : Nat) (p : Pos) (h : s.upperBound m hp = ok p) :
    p.high < U64 ∧ p.low < U64 := by
  unfold Sparse.upperBound at h
  obtain ⟨ho, h1, h⟩ := bind_eq_ok h
  obtain ⟨lo, h2, h⟩ := bind_eq_ok h
  obtain ⟨o, h3, h1⟩ := bind_eq_ok h1
  cases o with
  | none => simp [unwrapM] at h1
  | some z =>
    simp [unwrapM] at h1 h
    have hz := selectT_lt _ _ _ _ _ h3
    subst h1
    have := subM_lt hz h2
    rw [← h]; exact ⟨hz, this⟩

/-- with overflow checks on, a position returned by `upper_bound` has `low ≤ high` (the subtraction did not panic) -/
theorem upperBound_le_checked (s : Sparse) (hp : Nat) (p : Pos) (h : s.upperBound .checked hp = ok p) :
    p.low ≤ p.high := by
  unfold Sparse.upperBound at h
  obtain ⟨ho, h1, h⟩ := bind_eq_ok h
  obtain ⟨lo, h2, h⟩ := bind_eq_ok h
  simp at h
  unfold subM at h2
  by_cases h3 : hp ≤ ho
  · simp [h3] at h2
    rw [← h]; simp only; omega
  · simp [h3] at h2

/-- in either mode: `low ≤ high` as soon as `select_zero(hp)`, when it answers, answers with a position `≥ hp` (the
`hp`-th zero is preceded by `hp` zeros) -/
theorem upperBound_le_of_selz (m : Mode) (s : Sparse) (hp : Nat)
    (hz : ∀ z, s.high.selectZeroQ m hp = ok (some z) → hp ≤ z) (p : Pos) (h : s.upperBound m hp = ok p) :
    p.low ≤ p.high := by
  unfold Sparse.upperBound at h
  obtain ⟨ho, h1, h⟩ := bind_eq_ok h
  obtain ⟨lo, h2, h⟩ := bind_eq_ok h
  obtain ⟨o, h3, h1⟩ := bind_eq_ok h1
  cases o with
  | none => simp [unwrapM] at h1
  | some z =>
    simp [unwrapM] at h1 h
    subst h1
    have := hz _ h3
    rw [subM_ok this] at h2
    simp at h2
    rw [← h]; simp only; omega

/-! ### rank -/

theorem gen_rank_unfold (m : Mode) (s : Sparse) (i : Nat) :
    gen_SparseVector_rank m s i =
      (if (decide (i ≥ s.len)) then pure (Sparse.countOnes s) else do
        let t1 ← gen_SparseVector_split m s i
        let t2 ← gen_SparseVector_upper_bound m s t1.1
        if (decide (t2.low = 0)) then pure 0 else do
          let t3 ← subM m t2.high 1
          let t4 ← subM m t2.low 1
          let lr1 ← loopM (s.high.len + 1) (stepBack m s (fun l => decide (l ≥ t1.2)) 0) ⟨t3, t4⟩
          match lr1 with
          | .ret r => pure r
          | .next _ => fault .fuel
          | .brk pos => addM m pos.low 1) := rfl

/-- `rank`.  `hw`, `hi`: as for `split` (`hi` only matters at width 64).  `hub`: the position returned by `upper_bound`
(for an argument in range) has `low ≤ high`; it keeps `high ≥ 1` whenever the scan steps back (the code computes
`high - 1` in `usize`, the model in `Nat`).  It holds with overflow checks on (`upperBound_le_checked`), when
`select_zero` is correct (`upperBound_le_of_selz`), hence for every encoding (`sparse_rank_eq_of_encodes`); without
it the statement is false (`sparse_rank_ne`). -/
theorem sparse_rank_eq (m : Mode) (s : Sparse) (i : Nat) (hw : s.width ≤ 64) (hi : s.width = 64 → i < U64)
    (hub : i < s.len → ∀ p, s.upperBound m (s.split i).1 = ok p → p.low ≤ p.high) :
    gen_SparseVector_rank m s i = s.rank m i := by
  rw [gen_rank_unfold]
  unfold Sparse.rank
  by_cases h0 : i ≥ s.len
  · simp [h0]
  · simp only [h0, decide_false, if_false, split_eq m s i hw hi, bind_ok, upper_bound_eq, Bool.false_eq_true]
    cases h : s.upperBound m (s.split i).1 with
    | fault f => rfl
    | ok p =>
      have hle := hub (by omega) p h
      have hlt := (upperBound_lt m s _ p h).2
      by_cases h1 : p.low = 0
      · simp only [bind_ok, if_pos h1, decide_eq_true h1, if_true]
      · have e1 : subM m p.high 1 = ok (p.high - 1) := subM_ok (by omega)
        have e2 : subM m p.low 1 = ok (p.low - 1) := subM_ok (by omega)
        simp only [bind_ok, if_neg h1, decide_eq_false h1, if_false, e1, e2, Bool.false_eq_true]
        rw [loop_back m s (s.split i).2 false _ 0 (by simp) _ ⟨p.high - 1, p.low - 1⟩ (by simp only; omega)]
        cases hb : s.backLoop (s.split i).2 false (s.high.len + 1) ⟨p.high - 1, p.low - 1⟩ with
        | fault f => rfl
        | ok o =>
          cases o with
          | none => rfl
          | some q =>
            have := backLoop_low_le s _ _ _ _ _ hb
            simp only at this
            have e3 : addM m q.low 1 = ok (q.low + 1) := addM_ok (by omega)
            simp only [bind_ok, pure_eq, finBack, e3]

/-! ### predecessor -/

/-- the body of the second loop of `predecessor` -/
def stepSkip (m : Mode) (s : Sparse) (pos : Pos) : Outcome (Ctl Pos SpOneIter) := do
  let t11 ← BitVector.get s.high pos.high
  if (!t11) then do
    let t12 ← subM m pos.high 1
    let pos := { pos with high := t12 }
    pure (Ctl.next pos)
  else do
    pure (Ctl.brk pos)

/-- the second loop is the model's `skipBwd` (which subtracts with the mode's arithmetic as well): no hypothesis -/
theorem loop_skip (m : Mode) (s : Sparse) :
    ∀ (fuel : Nat) (p : Pos),
      loopM fuel (stepSkip m s) p = (SpOneIter.skipBwd m s fuel p.high >>= fun h => pure (Ctl.brk ⟨h, p.low⟩)) := by
  intro fuel
  induction fuel with
  | zero => intro p; rfl
  | succ n ih =>
    intro p
    rw [loopM, SpOneIter.skipBwd]
    cases hb : s.high.get p.high with
    | fault f => simp [stepSkip, hb]
    | ok b =>
      cases b with
      | true => simp [stepSkip, hb]
      | false =>
        cases hs : subM m p.high 1 with
        | fault f => simp [stepSkip, hb, hs]
        | ok h' =>
          simp only [stepSkip, hb, hs, bind_ok, pure_eq, Bool.not_false, if_true, Bool.false_eq_true, if_false]
          exact ih _

theorem gen_pred_unfold (m : Mode) (s : Sparse) (v : Nat) :
    gen_SparseVector_predecessor m s v =
      (if (decide (s.len = 0)) then pure (SpOneIter.emptyIter s) else do
        let t1 ← subM m s.len 1
        let t2 ← gen_SparseVector_split m s (min v t1)
        let t3 ← gen_SparseVector_upper_bound m s t2.1
        if (decide (t3.low = 0)) then pure (SpOneIter.emptyIter s) else do
          let t4 ← subM m t3.high 1
          let t5 ← subM m t3.low 1
          let lr1 ← loopM (s.high.len + 1)
            (stepBack m s (fun l => decide (l > t2.2)) (SpOneIter.emptyIter s)) ⟨t4, t5⟩
          match lr1 with
          | .ret r => pure r
          | .next _ => fault .fuel
          | .brk pos => do
            let lr2 ← loopM (s.high.len + 1) (stepSkip m s) pos
            match lr2 with
            | .ret _ => fault .fuel
            | .next _ => fault .fuel
            | .brk pos => pure (⟨pos, (⟨(BitVector.len s.high), (s.low.len)⟩ : Pos)⟩ : SpOneIter)) := rfl

/-- `predecessor`.  `hv`: as for `split` (only matters at width 64); `hub`: the position returned by `upper_bound` has
`low ≤ high`, as for `rank` (necessary: `sparse_predecessor_ne`).  The second loop subtracts with the mode's
arithmetic in the model as well and needs nothing. -/
theorem sparse_predecessor_eq (m : Mode) (s : Sparse) (v : Nat) (hw : s.width ≤ 64)
    (hv : s.width = 64 → min v (s.len - 1) < U64)
    (hub : s.len ≠ 0 → ∀ p, s.upperBound m (s.split (min v (s.len - 1))).1 = ok p → p.low ≤ p.high) :
    gen_SparseVector_predecessor m s v = s.predecessor m v := by
  rw [gen_pred_unfold]
  unfold Sparse.predecessor
  by_cases h0 : s.len = 0
  · simp [h0]
  · have e0 : subM m s.len 1 = ok (s.len - 1) := subM_ok (by omega)
    simp only [h0, decide_false, if_false, e0, split_eq m s _ hw hv, bind_ok, upper_bound_eq, Bool.false_eq_true]
    cases h : s.upperBound m (s.split (min v (s.len - 1))).1 with
    | fault f => rfl
    | ok p =>
      have hle := hub h0 p h
      by_cases h1 : p.low = 0
      · simp only [bind_ok, if_pos h1, decide_eq_true h1, if_true]
      · have e1 : subM m p.high 1 = ok (p.high - 1) := subM_ok (by omega)
        have e2 : subM m p.low 1 = ok (p.low - 1) := subM_ok (by omega)
        simp only [bind_ok, if_neg h1, decide_eq_false h1, if_false, e1, e2, Bool.false_eq_true]
        rw [loop_back m s (s.split (min v (s.len - 1))).2 true _ (SpOneIter.emptyIter s) (by simp) _
          ⟨p.high - 1, p.low - 1⟩ (by simp only; omega)]
        cases hb : s.backLoop (s.split (min v (s.len - 1))).2 true (s.high.len + 1) ⟨p.high - 1, p.low - 1⟩ with
        | fault f => rfl
        | ok o =>
          cases o with
          | none => rfl
          | some q =>
            simp only [bind_ok, pure_eq, finBack, loop_skip]
            cases hk : SpOneIter.skipBwd m s (s.high.len + 1) q.high with
            | fault f => rfl
            | ok h' => rfl

/-! ### successor -/

/-- the body of the first loop of `successor` -/
def stepSucc1 (m : Mode) (s : Sparse) (lo : Nat) (pos : Pos) : Outcome (Ctl Pos SpOneIter) := do
  let t4 ← (if (decide (pos.high < (BitVector.len s.high))) then do
      let t3 ← BitVector.get s.high pos.high
      pure t3
    else do
      pure false)
  if t4 then do
    let t5 ← IntVec.get s.low pos.low
    if (decide ((t5).toNat ≥ lo)) then do
      pure (Ctl.ret (⟨pos, (⟨(BitVector.len s.high), (s.low.len)⟩ : Pos)⟩ : SpOneIter))
    else do
      let t6 ← addM m pos.high 1
      let pos := { pos with high := t6 }
      let t7 ← addM m pos.low 1
      let pos := { pos with low := t7 }
      pure (Ctl.next pos)
  else do
    pure (Ctl.brk pos)

/-- the body of the second loop of `successor` -/
def stepSucc2 (m : Mode) (s : Sparse) (pos : Pos) : Outcome (Ctl Pos SpOneIter) := do
  if (decide (pos.high < (BitVector.len s.high))) then do
    let t8 ← BitVector.get s.high pos.high
    if t8 then do
      pure (Ctl.ret (⟨pos, (⟨(BitVector.len s.high), (s.low.len)⟩ : Pos)⟩ : SpOneIter))
    else do
      let t9 ← addM m pos.high 1
      let pos := { pos with high := t9 }
      pure (Ctl.next pos)
  else do
    pure (Ctl.brk pos)

def finSucc2 (s : Sparse) : Ctl Pos SpOneIter → Outcome SpOneIter
  | .ret r => pure r
  | .next _ => fault .fuel
  | .brk _ => pure (SpOneIter.emptyIter s)

theorem loop_succ1 (m : Mode) (s : Sparse) (lo : Nat) (hh : s.high.len < U64) (hl : s.low.len < U64) :
    ∀ (fuel : Nat) (p : Pos),
      loopM fuel (stepSucc1 m s lo) p = (s.succLoop1 lo fuel p >>= fun r =>
        pure (if r.1 then Ctl.ret (⟨r.2, (⟨s.high.len, s.low.len⟩ : Pos)⟩ : SpOneIter) else Ctl.brk r.2)) := by
  intro fuel
  induction fuel with
  | zero => intro p; rfl
  | succ n ih =>
    intro p
    rw [loopM, Sparse.succLoop1]
    by_cases h1 : p.high < s.high.len
    · have h1' : p.high < BitVector.len s.high := h1
      cases hb : s.high.get p.high with
      | fault f => simp [stepSucc1, h1', hb]
      | ok b =>
        cases b with
        | false => simp [stepSucc1, h1', hb]
        | true =>
          by_cases h2 : p.low < s.low.len
          · have e1 : addM m p.high 1 = ok (p.high + 1) := addM_ok (by omega)
            have e2 : addM m p.low 1 = ok (p.low + 1) := addM_ok (by omega)
            by_cases h3 : (s.low.getRaw p.low).toNat ≥ lo
            · simp [stepSucc1, h1', hb, IntVec.get, h2, h3]
            · simp only [stepSucc1, h1', hb, IntVec.get, h2, h3, e1, e2, decide_true, decide_false, if_true, if_false,
                bind_ok, pure_eq, Bool.false_eq_true]
              exact ih _
          · simp [stepSucc1, h1', hb, IntVec.get, h2]
    · have h1' : ¬ p.high < BitVector.len s.high := h1
      simp [stepSucc1, h1']

theorem loop_succ2 (m : Mode) (s : Sparse) (hh : s.high.len < U64) :
    ∀ (fuel : Nat) (p : Pos),
      (loopM fuel (stepSucc2 m s) p >>= finSucc2 s) = (s.succLoop2 fuel p >>= fun r =>
        match r with
        | some q => pure (⟨q, (⟨s.high.len, s.low.len⟩ : Pos)⟩ : SpOneIter)
        | none => pure (SpOneIter.emptyIter s)) := by
  intro fuel
  induction fuel with
  | zero => intro p; rfl
  | succ n ih =>
    intro p
    rw [loopM, Sparse.succLoop2]
    by_cases h1 : p.high < s.high.len
    · have h1' : p.high < BitVector.len s.high := h1
      cases hb : s.high.get p.high with
      | fault f => simp [stepSucc2, h1', hb]
      | ok b =>
        cases b with
        | true => simp [stepSucc2, h1', hb, finSucc2]
        | false =>
          have e1 : addM m p.high 1 = ok (p.high + 1) := addM_ok (by omega)
          simp only [stepSucc2, h1', hb, e1, decide_true, if_true, if_false, bind_ok, pure_eq, Bool.false_eq_true]
          exact ih _
    · have h1' : ¬ p.high < BitVector.len s.high := h1
      simp [stepSucc2, h1', finSucc2]

theorem gen_succ_unfold (m : Mode) (s : Sparse) (v : Nat) :
    gen_SparseVector_successor m s v =
      (if (decide (v ≥ s.len)) then pure (SpOneIter.emptyIter s) else do
        let t1 ← gen_SparseVector_split m s v
        let t2 ← gen_SparseVector_lower_bound m s t1.1
        let lr1 ← loopM (s.high.len + 1) (stepSucc1 m s t1.2) t2
        match lr1 with
        | .ret r => pure r
        | .next _ => fault .fuel
        | .brk pos => loopM (s.high.len + 1) (stepSucc2 m s) pos >>= finSucc2 s) := rfl

/-- `successor`.  `hw`, `hi`: as for `split`; `hh`, `hl`: representation bounds, as for `get` (`sparse_successor_ne`). -/
theorem sparse_successor_eq (m : Mode) (s : Sparse) (v : Nat) (hw : s.width ≤ 64) (hi : s.width = 64 → v < U64)
    (hh : s.high.len < U64) (hl : s.low.len < U64) :
    gen_SparseVector_successor m s v = s.successor m v := by
  rw [gen_succ_unfold]
  unfold Sparse.successor
  by_cases h0 : v ≥ s.len
  · simp [h0]
  · simp only [h0, decide_false, if_false, split_eq m s v hw hi, bind_ok, lower_bound_eq, Bool.false_eq_true,
      loop_succ1 m s _ hh hl]
    cases h : s.lowerBound m (s.split v).1 with
    | fault f => rfl
    | ok p =>
      simp only [bind_ok]
      cases h1 : s.succLoop1 (s.split v).2 (s.high.len + 1) p with
      | fault f => rfl
      | ok r =>
        obtain ⟨found, q⟩ := r
        cases found with
        | true => rfl
        | false =>
          simp only [bind_ok, pure_eq, Bool.false_eq_true, if_false]
          exact loop_succ2 m s hh _ q

/-! ### corollaries: overflow checks on -/

/-- with overflow checks on, `rank` needs nothing beyond the hypotheses of `split` -/
theorem sparse_rank_eq_checked (s : Sparse) (i : Nat) (hw : s.width ≤ 64) (hi : s.width = 64 → i < U64) :
    gen_SparseVector_rank .checked s i = s.rank .checked i :=
  sparse_rank_eq .checked s i hw hi (fun _ p h => upperBound_le_checked s _ p h)

theorem sparse_predecessor_eq_checked (s : Sparse) (v : Nat) (hw : s.width ≤ 64)
    (hv : s.width = 64 → min v (s.len - 1) < U64) :
    gen_SparseVector_predecessor .checked s v = s.predecessor .checked v :=
  sparse_predecessor_eq .checked s v hw hv (fun _ p h => upperBound_le_checked s _ p h)

/-! ### corollaries: either mode, `select_zero` answers with a position `≥` its argument -/

theorem sparse_rank_eq_of_selz (m : Mode) (s : Sparse) (i : Nat) (hw : s.width ≤ 64) (hi : s.width = 64 → i < U64)
    (hz : ∀ z, s.high.selectZeroQ m (s.split i).1 = ok (some z) → (s.split i).1 ≤ z) :
    gen_SparseVector_rank m s i = s.rank m i :=
  sparse_rank_eq m s i hw hi (fun _ p h => upperBound_le_of_selz m s _ hz p h)

theorem sparse_predecessor_eq_of_selz (m : Mode) (s : Sparse) (v : Nat) (hw : s.width ≤ 64)
    (hv : s.width = 64 → min v (s.len - 1) < U64)
    (hz : ∀ z, s.high.selectZeroQ m (s.split (min v (s.len - 1))).1 = ok (some z) →
      (s.split (min v (s.len - 1))).1 ≤ z) :
    gen_SparseVector_predecessor m s v = s.predecessor m v :=
  sparse_predecessor_eq m s v hw hv (fun _ p h => upperBound_le_of_selz m s _ hz p h)

/-! ### corollaries: well-formed vectors (`Sparse.Encodes`), both modes, all arguments -/

section Encodes
variable {s : Sparse} {n w : Nat} {P : List Nat}

theorem encodes_width (hs : s.Encodes n w P) : s.width ≤ 64 ∧ s.width ≠ 64 := by
  have h1 := hs.width_eq
  have h2 := hs.w_lt
  unfold Sparse.width
  omega

theorem encodes_low_lt (hs : s.Encodes n w P) : s.low.len < U64 := by
  have := hs.m_lt
  rw [hs.low_len, U64_eq]; omega

theorem encodes_upperBound_le (hs : s.Encodes n w P) (m : Mode) (i : Nat) (hi : i < n) :
    ∀ p, s.upperBound m (s.split i).1 = ok p → p.low ≤ p.high := by
  intro p h
  have e : (s.split i).1 = i >>> w := by simp [Sparse.split, Sparse.width, hs.width_eq]
  rw [e, upperBound_ok hs m _ (shr_lt_getBuckets hs.w_lt hi)] at h
  injection h with h
  subst h
  exact Nat.le_add_left _ _

theorem sparse_get_eq_of_encodes (hs : s.Encodes n w P) (m : Mode) (i : Nat) :
    gen_SparseVector_get m s i = s.get m i :=
  sparse_get_eq m s i (encodes_width hs).1 (fun h => absurd h (encodes_width hs).2) hs.high_lt (encodes_low_lt hs)

theorem sparse_rank_eq_of_encodes (hs : s.Encodes n w P) (m : Mode) (i : Nat) :
    gen_SparseVector_rank m s i = s.rank m i :=
  sparse_rank_eq m s i (encodes_width hs).1 (fun h => absurd h (encodes_width hs).2)
    (fun hi => encodes_upperBound_le hs m i (by rw [← hs.len_eq]; exact hi))

theorem sparse_predecessor_eq_of_encodes (hs : s.Encodes n w P) (m : Mode) (v : Nat) :
    gen_SparseVector_predecessor m s v = s.predecessor m v :=
  sparse_predecessor_eq m s v (encodes_width hs).1 (fun h => absurd h (encodes_width hs).2)
    (fun h0 => encodes_upperBound_le hs m _ (by have := hs.len_eq; omega))

theorem sparse_successor_eq_of_encodes (hs : s.Encodes n w P) (m : Mode) (v : Nat) :
    gen_SparseVector_successor m s v = s.successor m v :=
  sparse_successor_eq m s v (encodes_width hs).1 (fun h => absurd h (encodes_width hs).2) hs.high_lt
    (encodes_low_lt hs)

end Encodes

/-! ### the hypotheses are necessary

All three examples use a hand-made `select_zero` support that answers `select_zero(1) = 0` (no support built by
`SelectSupport::new`, in particular none obtained by loading a file, does that) and arithmetic without overflow
checks: `upper_bound(1)` is then `(0, 0 - 1) = (0, 2^64 - 1)`, a position with `low > high`. -/

/-- a `select_zero` support with `select_zero(1) = 0` -/
def badSelZero : SelSup := ⟨⟨2, 64, ⟨128, #[0, 0]⟩⟩, ⟨2, 64, ⟨128, #[0, 0]⟩⟩, ⟨0, 64, ⟨0, #[]⟩⟩⟩

/-- universe 8, width 1, `high` = 128 bits with first word `w0`, an empty-data `low` of length `ll` -/
def badSparse (w0 : Word) (ones ll : Nat) : Sparse :=
  ⟨8, { ones := ones, data := ⟨128, #[w0, 0]⟩, selectZero := some badSelZero }, ⟨ll, 1, ⟨0, #[]⟩⟩⟩

/-- `hub` is necessary for `rank`: from `(0, 2^64 - 1)` the code steps to `high = 0 - 1 = 2^64 - 1` and the read of
`high` panics; the model steps to `high = 0` (truncated subtraction), finds an unset bit and answers `2^64 - 1`. -/
theorem sparse_rank_ne :
    (badSparse 0 0 0).upperBound .wrapping ((badSparse 0 0 0).split 2).1 = ok ⟨0, 2 ^ 64 - 1⟩ ∧
    gen_SparseVector_rank .wrapping (badSparse 0 0 0) 2 = fault (.panic .index) ∧
    (badSparse 0 0 0).rank .wrapping 2 = ok (2 ^ 64 - 1) := by
  decide +kernel

/-- `hub` is necessary for `predecessor`: same position, bit 0 of `high` set; the code panics on the read of `high` at
`2^64 - 1`, the model on the read of `low` at `2^64 - 2` (a different panic). -/
theorem sparse_predecessor_ne :
    gen_SparseVector_predecessor .wrapping (badSparse 1 1 0) 2 = fault (.panic .index) ∧
    (badSparse 1 1 0).predecessor .wrapping 2 = fault (.panic .assert) := by
  decide +kernel

/-- `hl` is necessary for `get` and `successor`, but only violated by a `low` of length `≥ 2^64` (not representable):
`lower_bound(2) = (1, 2^64 - 1)`, the code wraps `low + 1` to 0, the model goes on to `2^64`. -/
theorem sparse_get_ne :
    gen_SparseVector_get .wrapping (badSparse 6 2 (2 ^ 64)) 5 = ok false ∧
    (badSparse 6 2 (2 ^ 64)).get .wrapping 5 = fault (.panic .assert) := by
  decide +kernel

theorem sparse_successor_ne :
    gen_SparseVector_successor .wrapping (badSparse 6 2 (2 ^ 64)) 5 =
      ok ⟨⟨128, 2 ^ 64⟩, ⟨128, 2 ^ 64⟩⟩ ∧
    (badSparse 6 2 (2 ^ 64)).successor .wrapping 5 = fault (.panic .assert) := by
  decide +kernel

end Sds.GenEq
