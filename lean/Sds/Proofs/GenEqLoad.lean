/-
Proofs/GenEqLoad: the `Serialize::load` functions as TRANSLATED from the source (Generated/FnsLoad.lean) are equal to the
`load` of the hand-written model codecs (Model/Ser, Model/Sparse, Model/WM) — under explicit hypotheses on the stream.

The model computes in `Nat`, the code in `usize`, and every operand is a word READ FROM THE STREAM.  Each hypothesis below
is a predicate on the stream that mirrors the loader ("whenever the loader gets this far, this sum/product of the values
read fits in a `usize`"), and for each there is a stream on which the equation fails without it (`…_load_ne_…`):

* `RawOk`      `len + 63 < 2^64`                          (`bits_to_words(len)`); necessary in the checked build
                                                           (`raw_load_eq_iff_checked`)
* `IntOk`      `RawOk` of the raw vector, `len * width < 2^64`
* (RankSupport: unconditional)
* `SelOk`      `IntOk` three times, `long.len + 4096 < 2^64`, `short.len + 64 < 2^64`
* `BvOk`       `RawOk`, and per PRESENT support `len + 512`, `ones + 4096`, `len - ones + 4096 < 2^64`; the last three
               hold of every stream shorter than `2^57` words (`BvOk_of_length`).  The optional supports are read by the
               generic `Option<T>::load`, i.e. by the model codecs, so no `SelOk` is needed here.
* `SparseOk`   `BvOk`, `IntOk`, `low.width ≤ 64` (`low_set(width)` is a table lookup), `low.len + buckets < 2^64`
* `WmOk`       `IntOk` of `first` (the levels are read by the model's `wmCoreC`)

All of them hold when every word of the stream is below `2^32` (`Small`; not `2^60`: `[2^32, 2^32, 0, 0]` is the
counterexample for `IntVector`), except `low.width ≤ 64`, which stays a hypothesis of `sparse_load_eq_small`.
-/
import Sds.Generated.FnsLoad
import Sds.Proofs.GenFns
import Sds.Proofs.Round
import Sds.Proofs.GenEqIdx
import Sds.Proofs.LoadWF

set_option linter.unusedSimpArgs false
namespace Sds.GenEq
open Sds Outcome Generated

/-- rewriting with these (rather than with the `rfl` lemmas `bind_ok`/`bind_fault`) keeps the kernel from comparing
`ok a` with the next computation by evaluation -/
theorem bind_eq_of_ok {α β} {x : Outcome α} {a : α} (h : x = ok a) (f : α → Outcome β) : (x >>= f) = f a := by
  subst h; rfl
theorem bind_eq_of_fault {α β} {x : Outcome α} {e : Fault} (h : x = fault e) (f : α → Outcome β) :
    (x >>= f) = fault e := by
  subst h; rfl

/-! ### superblock counts -/

theorem sel_superblocks_eq (m : Mode) (s : SelSup) :
    gen_SelectSupport_superblocks m s = ok s.superblocks := by
  simp [gen_SelectSupport_superblocks, SelSup.superblocks, gDiv, Bind.bind, Outcome.bind, Pure.pure]

theorem sel_long_superblocks_eq (m : Mode) (s : SelSup) (h : s.long.len + 4096 < U64) :
    gen_SelectSupport_long_superblocks m s = ok s.longSuperblocks := by
  unfold gen_SelectSupport_long_superblocks SelSup.longSuperblocks
  rw [addM_ok h]
  simp only [bind_ok]
  rw [subM_ok (by omega)]
  simp [gDiv, Pure.pure]

theorem sel_short_superblocks_eq (m : Mode) (s : SelSup) (h : s.short.len + 64 < U64) :
    gen_SelectSupport_short_superblocks m s = ok s.shortSuperblocks := by
  unfold gen_SelectSupport_short_superblocks SelSup.shortSuperblocks
  rw [addM_ok h]
  simp only [bind_ok]
  rw [subM_ok (by omega)]
  simp [gDiv, Pure.pure]

/-! ### RawVector -/

def RawOk (es : Elems) : Prop :=
  ∀ len r data r', usizeC.load es = ok (len, r) → vecU64C.load r = ok (data, r') → len + 63 < U64

theorem raw_load_eq (m : Mode) (es : Elems) (h : RawOk es) :
    gen_RawVector_load m es = rawVecC.load es := by
  unfold gen_RawVector_load rawVecC
  dsimp only
  cases h1 : usizeC.load es with
  | fault f => simp only [bind_fault]
  | ok p =>
    obtain ⟨len, r⟩ := p
    simp only [bind_ok]
    cases h2 : vecU64C.load r with
    | fault f => simp only [bind_fault]
    | ok q =>
      obtain ⟨data, r'⟩ := q
      simp only [bind_ok]
      rw [GenFns.bits_to_words_eq, bitsToWords_ok m len (h _ _ _ _ h1 h2)]
      simp only [bind_ok]
      by_cases c : (len + 63) / 64 = data.size <;> simp [c, Pure.pure]

/-- without the hypothesis: a length word `≥ 2^64 − 63` followed by an empty word vector.  The checked build panics
in `bits_to_words`, the wrapping build ACCEPTS a vector of length `2^64 − 1` without any data word, the model
(Nat arithmetic) refuses with `InvalidData`. -/
theorem raw_load_ne_overflow :
    gen_RawVector_load .checked [0xFFFFFFFFFFFFFFFF#64, 0#64] = fault (.panic .overflow) ∧
    gen_RawVector_load .wrapping [0xFFFFFFFFFFFFFFFF#64, 0#64] = ok (⟨18446744073709551615, #[]⟩, []) ∧
    rawVecC.load [0xFFFFFFFFFFFFFFFF#64, 0#64] = fault (.err .invalid) := by
  decide +kernel

theorem raw_load_ne_checked :
    gen_RawVector_load .checked [0xFFFFFFFFFFFFFFFF#64, 0#64] ≠ rawVecC.load [0xFFFFFFFFFFFFFFFF#64, 0#64] := by
  decide +kernel

theorem raw_load_ne_wrapping :
    gen_RawVector_load .wrapping [0xFFFFFFFFFFFFFFFF#64, 0#64] ≠ rawVecC.load [0xFFFFFFFFFFFFFFFF#64, 0#64] := by
  decide +kernel

/-- in the checked build the hypothesis is also necessary -/
theorem raw_load_eq_iff_checked (es : Elems) : gen_RawVector_load .checked es = rawVecC.load es ↔ RawOk es := by
  refine ⟨fun e len r data r' h1 h2 => ?_, raw_load_eq _ es⟩
  apply Decidable.byContradiction
  intro hn
  unfold gen_RawVector_load rawVecC at e
  dsimp only at e
  rw [h1] at e
  simp only [bind_ok] at e
  rw [h2] at e
  simp only [bind_ok] at e
  rw [GenFns.bits_to_words_eq] at e
  have : bitsToWords .checked len = fault (.panic .overflow) := by
    unfold bitsToWords addM; simp [hn]
  rw [this] at e
  by_cases c : (len + 63) / 64 = data.size <;> simp [c, Pure.pure] at e

/-! ### IntVector -/

def IntOk (es : Elems) : Prop :=
  ∀ len r width r', usizeC.load es = ok (len, r) → usizeC.load r = ok (width, r') →
    RawOk r' ∧ ∀ data r'', rawVecC.load r' = ok (data, r'') → len * width < U64

theorem int_load_eq (m : Mode) (es : Elems) (h : IntOk es) :
    gen_IntVector_load m es = intVecC.load es := by
  unfold gen_IntVector_load intVecC
  dsimp only
  cases h1 : usizeC.load es with
  | fault f => simp only [bind_fault]
  | ok p =>
    obtain ⟨len, r⟩ := p
    simp only [bind_ok]
    cases h2 : usizeC.load r with
    | fault f => simp only [bind_fault]
    | ok q =>
      obtain ⟨width, r'⟩ := q
      simp only [bind_ok]
      obtain ⟨hr, hm⟩ := h _ _ _ _ h1 h2
      rw [raw_load_eq m r' hr]
      cases h3 : rawVecC.load r' with
      | fault f => simp only [bind_fault]
      | ok q =>
        obtain ⟨data, r''⟩ := q
        simp only [bind_ok]
        rw [mulM_ok (hm _ _ h3)]
        simp only [bind_ok]
        by_cases c : len * width = data.len <;> simp [c, Pure.pure]

/-- the recorded observation: `len * width` is multiplied unchecked.  `[2^32, 2^32, 0, 0]`: the checked build panics,
the wrapping build ACCEPTS an integer vector of 2^32 elements of width 2^32 over an empty raw vector, the model refuses -/
theorem int_load_ne_overflow :
    gen_IntVector_load .checked [0x100000000#64, 0x100000000#64, 0#64, 0#64] = fault (.panic .overflow) ∧
    gen_IntVector_load .wrapping [0x100000000#64, 0x100000000#64, 0#64, 0#64] =
      ok (⟨4294967296, 4294967296, ⟨0, #[]⟩⟩, []) ∧
    intVecC.load [0x100000000#64, 0x100000000#64, 0#64, 0#64] = fault (.err .invalid) := by
  decide +kernel

theorem int_load_ne_checked :
    gen_IntVector_load .checked [0x100000000#64, 0x100000000#64, 0#64, 0#64] ≠
      intVecC.load [0x100000000#64, 0x100000000#64, 0#64, 0#64] := by
  decide +kernel

theorem int_load_ne_wrapping :
    gen_IntVector_load .wrapping [0x100000000#64, 0x100000000#64, 0#64, 0#64] ≠
      intVecC.load [0x100000000#64, 0x100000000#64, 0#64, 0#64] := by
  decide +kernel

/-- the raw-vector hypothesis is inherited: one element of width `2^64 − 1` over a raw vector whose length word
`2^64 − 1` overflows in `bits_to_words`: accepted by the wrapping build -/
theorem int_load_ne_raw :
    gen_IntVector_load .checked [1#64, 0xFFFFFFFFFFFFFFFF#64, 0xFFFFFFFFFFFFFFFF#64, 0#64] = fault (.panic .overflow) ∧
    gen_IntVector_load .wrapping [1#64, 0xFFFFFFFFFFFFFFFF#64, 0xFFFFFFFFFFFFFFFF#64, 0#64] =
      ok (⟨1, 18446744073709551615, ⟨18446744073709551615, #[]⟩⟩, []) ∧
    intVecC.load [1#64, 0xFFFFFFFFFFFFFFFF#64, 0xFFFFFFFFFFFFFFFF#64, 0#64] = fault (.err .invalid) := by
  decide +kernel

/-! ### RankSupport: unconditional -/

theorem rank_load_eq (m : Mode) (es : Elems) : gen_RankSupport_load m es = rankSupC.load es := by
  unfold gen_RankSupport_load rankSupC
  dsimp only

/-! ### SelectSupport -/

def SelOk (es : Elems) : Prop :=
  IntOk es ∧ ∀ a r1, intVecC.load es = ok (a, r1) →
    IntOk r1 ∧ ∀ b r2, intVecC.load r1 = ok (b, r2) →
      IntOk r2 ∧ ∀ c r3, intVecC.load r2 = ok (c, r3) → b.len + 4096 < U64 ∧ c.len + 64 < U64

set_option maxRecDepth 4000 in
theorem sel_load_eq (m : Mode) (es : Elems) (h : SelOk es) :
    gen_SelectSupport_load m es = selSupC.load es := by
  unfold gen_SelectSupport_load selSupC
  dsimp only
  obtain ⟨ha, h⟩ := h
  rw [int_load_eq m es ha]
  cases h1 : intVecC.load es with
  | fault f => simp only [bind_fault]
  | ok p =>
    obtain ⟨a, r1⟩ := p
    simp only [bind_ok]
    obtain ⟨hb, h⟩ := h _ _ h1
    rw [int_load_eq m r1 hb]
    cases h2 : intVecC.load r1 with
    | fault f => simp only [bind_fault]
    | ok p =>
      obtain ⟨b, r2⟩ := p
      simp only [bind_ok]
      obtain ⟨hc, h⟩ := h _ _ h2
      rw [int_load_eq m r2 hc]
      cases h3 : intVecC.load r2 with
      | fault f => simp only [bind_fault]
      | ok p =>
        obtain ⟨c, r3⟩ := p
        simp only [bind_ok]
        obtain ⟨hl, hs⟩ := h _ _ h3
        have hsum : SelSup.longSuperblocks ⟨a, b, c⟩ + SelSup.shortSuperblocks ⟨a, b, c⟩ < U64 := by
          have e := U64_eq
          simp only [SelSup.longSuperblocks, SelSup.shortSuperblocks]
          omega
        simp only [bind_eq_of_ok (sel_superblocks_eq m ⟨a, b, c⟩),
          bind_eq_of_ok (sel_long_superblocks_eq m ⟨a, b, c⟩ hl),
          bind_eq_of_ok (sel_short_superblocks_eq m ⟨a, b, c⟩ hs), bind_eq_of_ok (addM_ok (m := m) hsum)]
        by_cases cc : SelSup.superblocks ⟨a, b, c⟩ = SelSup.longSuperblocks ⟨a, b, c⟩ + SelSup.shortSuperblocks ⟨a, b, c⟩ <;>
          simp [cc, Pure.pure]

/-- a long-array length word `2^64 − 1` (width 0, so the integer vector itself is consistent): `len + 4096` overflows.
The checked build panics, the wrapping build ACCEPTS (its long superblock count wraps to 0), the model refuses. -/
theorem sel_load_ne_long :
    gen_SelectSupport_load .checked
      [0#64, 0#64, 0#64, 0#64, 0xFFFFFFFFFFFFFFFF#64, 0#64, 0#64, 0#64, 0#64, 0#64, 0#64, 0#64] = fault (.panic .overflow) ∧
    gen_SelectSupport_load .wrapping
      [0#64, 0#64, 0#64, 0#64, 0xFFFFFFFFFFFFFFFF#64, 0#64, 0#64, 0#64, 0#64, 0#64, 0#64, 0#64] =
        ok (⟨⟨0, 0, ⟨0, #[]⟩⟩, ⟨18446744073709551615, 0, ⟨0, #[]⟩⟩, ⟨0, 0, ⟨0, #[]⟩⟩⟩, []) ∧
    selSupC.load
      [0#64, 0#64, 0#64, 0#64, 0xFFFFFFFFFFFFFFFF#64, 0#64, 0#64, 0#64, 0#64, 0#64, 0#64, 0#64] = fault (.err .invalid) := by
  decide +kernel

/-- the same with the short array: `len + 64` overflows -/
theorem sel_load_ne_short :
    gen_SelectSupport_load .checked
      [0#64, 0#64, 0#64, 0#64, 0#64, 0#64, 0#64, 0#64, 0xFFFFFFFFFFFFFFFF#64, 0#64, 0#64, 0#64] = fault (.panic .overflow) ∧
    gen_SelectSupport_load .wrapping
      [0#64, 0#64, 0#64, 0#64, 0#64, 0#64, 0#64, 0#64, 0xFFFFFFFFFFFFFFFF#64, 0#64, 0#64, 0#64] =
        ok (⟨⟨0, 0, ⟨0, #[]⟩⟩, ⟨0, 0, ⟨0, #[]⟩⟩, ⟨18446744073709551615, 0, ⟨0, #[]⟩⟩⟩, []) ∧
    selSupC.load
      [0#64, 0#64, 0#64, 0#64, 0#64, 0#64, 0#64, 0#64, 0xFFFFFFFFFFFFFFFF#64, 0#64, 0#64, 0#64] = fault (.err .invalid) := by
  decide +kernel

/-! ### BitVector -/

def BvOk (es : Elems) : Prop :=
  ∀ ones r, usizeC.load es = ok (ones, r) →
    RawOk r ∧ ∀ data r1, rawVecC.load r = ok (data, r1) → ones ≤ data.len →
      ∀ rank r2, (optionC rankSupC).load r1 = ok (rank, r2) →
        (rank.isSome → data.len + 512 < U64) ∧
        ((∀ s, rank = some s → s.samples.size = (data.len + 511) / 512) →
          ∀ sel r3, (optionC selSupC).load r2 = ok (sel, r3) →
            (sel.isSome → ones + 4096 < U64) ∧
            ((∀ s, sel = some s → s.superblocks = (ones + 4095) / 4096) →
              ∀ selz r4, (optionC selSupC).load r3 = ok (selz, r4) →
                (selz.isSome → data.len - ones + 4096 < U64)))

theorem div_round_up_ok (m : Mode) (v n k : Nat) (hn : n = k + 1) (h : v + n < U64) :
    gen_div_round_up m v n = ok ((v + k) / n) := by
  rw [GenFns.div_round_up_eq, divRoundUp_ok m v n (by omega) h]
  congr 2
  omega

theorem chk_pass {α} {o : Option α} {f : α → Nat} {t : Nat}
    (c : ¬ (match o with | some s => decide (f s ≠ t) | none => false) = true) : ∀ s, o = some s → f s = t := by
  intro s e
  subst e
  simpa using c

set_option maxRecDepth 4000 in
theorem bv_load_eq (m : Mode) (es : Elems) (h : BvOk es) :
    gen_BitVector_load m es = bitVectorC.load es := by
  unfold gen_BitVector_load bitVectorC
  dsimp only
  cases h1 : usizeC.load es with
  | fault f => simp only [bind_fault]
  | ok p =>
    obtain ⟨ones, r⟩ := p
    simp only [bind_ok]
    obtain ⟨hr, h⟩ := h _ _ h1
    rw [raw_load_eq m r hr]
    cases h2 : rawVecC.load r with
    | fault f => simp only [bind_fault]
    | ok p =>
      obtain ⟨data, r1⟩ := p
      simp only [bind_ok]
      by_cases c0 : ones > data.len
      · simp [c0]
      · simp only [c0, decide_false, if_false, Bool.false_eq_true]
        have h := h _ _ h2 (by omega)
        cases h3 : (optionC rankSupC).load r1 with
        | fault f => simp only [bind_fault]
        | ok p =>
          obtain ⟨rank, r2⟩ := p
          simp only [bind_ok]
          obtain ⟨hk, h⟩ := h _ _ h3
          rcases rank with _ | s
          case' some =>
            dsimp only
            rw [div_round_up_ok m _ 512 511 rfl (hk rfl)]
            simp only [bind_ok]
            by_cases c1 : s.samples.size = (data.len + 511) / 512
            case' neg => simp [c1]
            case' pos => simp only [c1, ne_eq, not_true_eq_false, decide_false, if_false, Bool.false_eq_true]
          all_goals (
            try dsimp only
            try simp only [Bool.false_eq_true, if_false]
            have h := h (by intro s' e; cases e <;> assumption)
            cases h4 : (optionC selSupC).load r2 with
            | fault f => simp only [bind_fault]
            | ok p =>
              obtain ⟨sel, r3⟩ := p
              simp only [bind_ok]
              obtain ⟨hk2, h⟩ := h _ _ h4
              rcases sel with _ | s2
              case' some =>
                dsimp only
                rw [sel_superblocks_eq, div_round_up_ok m _ 4096 4095 rfl (hk2 rfl)]
                simp only [bind_ok]
                by_cases c2 : s2.superblocks = (ones + 4095) / 4096
                case' neg => simp [c2]
                case' pos => simp only [c2, ne_eq, not_true_eq_false, decide_false, if_false, Bool.false_eq_true]
              all_goals (
                try dsimp only
                try simp only [Bool.false_eq_true, if_false]
                have h := h (by intro s' e; cases e <;> assumption)
                cases h5 : (optionC selSupC).load r3 with
                | fault f => simp only [bind_fault]
                | ok p =>
                  obtain ⟨selz, r4⟩ := p
                  simp only [bind_ok]
                  have hk3 := h _ _ h5
                  rcases selz with _ | s3
                  · simp [Pure.pure]
                  · dsimp only
                    rw [sel_superblocks_eq, subM_ok (by omega)]
                    simp only [bind_ok]
                    rw [div_round_up_ok m _ 4096 4095 rfl (hk3 rfl)]
                    simp only [bind_ok]
                    by_cases c3 : s3.superblocks = (data.len - ones + 4095) / 4096 <;> simp [c3, Pure.pure]))

/-! ### SparseVector -/

def SparseOk (es : Elems) : Prop :=
  ∀ len r, usizeC.load es = ok (len, r) →
    BvOk r ∧ ∀ high r1, bitVectorC.load r = ok (high, r1) →
      IntOk r1 ∧ ∀ low r2, intVecC.load r1 = ok (low, r2) →
        low.len = high.enableSelect.enableSelectZero.countOnes →
          low.width ≤ 64 ∧ low.len + Sparse.getBuckets len low.width < U64

set_option maxRecDepth 4000 in
theorem sparse_load_eq (m : Mode) (es : Elems) (h : SparseOk es) :
    gen_SparseVector_load m es = sparseC.load es := by
  unfold gen_SparseVector_load sparseC
  dsimp only
  cases h1 : usizeC.load es with
  | fault f => simp only [bind_fault]
  | ok p =>
    obtain ⟨len, r⟩ := p
    simp only [bind_ok]
    obtain ⟨hb, h⟩ := h _ _ h1
    rw [bv_load_eq m r hb]
    cases h2 : bitVectorC.load r with
    | fault f => simp only [bind_fault]
    | ok p =>
      obtain ⟨high, r1⟩ := p
      simp only [bind_ok]
      obtain ⟨hi, h⟩ := h _ _ h2
      rw [int_load_eq m r1 hi]
      cases h3 : intVecC.load r1 with
      | fault f => simp only [bind_fault]
      | ok p =>
        obtain ⟨low, r2⟩ := p
        simp only [bind_ok]
        by_cases c1 : low.len = high.enableSelect.enableSelectZero.countOnes
        · obtain ⟨hw, hs⟩ := h _ _ h3 c1
          have hlen : len < U64 := by rw [U64_eq]; exact (LoadWF.usizeC_inv h1).2
          rw [get_buckets_eq m len low.width hw hlen]
          simp only [bind_ok]
          rw [addM_ok hs]
          simp only [bind_ok]
          by_cases c2 : high.enableSelect.enableSelectZero.len = low.len + Sparse.getBuckets len low.width <;>
            simp [c1, c2, Pure.pure]
        · simp [c1]

/-! ### WaveletMatrix -/

def WmOk (es : Elems) : Prop :=
  ∀ len r, usizeC.load es = ok (len, r) → ∀ data r1, wmCoreC.load r = ok (data, r1) → data.len = ok len → IntOk r1

set_option maxRecDepth 4000 in
theorem wm_load_eq (m : Mode) (es : Elems) (h : WmOk es) :
    gen_WaveletMatrix_load m es = wmC.load es := by
  unfold gen_WaveletMatrix_load wmC
  dsimp only
  cases h1 : usizeC.load es with
  | fault f => simp only [bind_fault]
  | ok p =>
    obtain ⟨len, r⟩ := p
    simp only [bind_ok]
    cases h2 : wmCoreC.load r with
    | fault f => simp only [bind_fault]
    | ok p =>
      obtain ⟨data, r1⟩ := p
      simp only [bind_ok]
      cases h3 : data.len with
      | fault f => simp only [bind_fault]
      | ok n =>
        simp only [bind_ok]
        by_cases c : n = len
        · subst c
          rw [int_load_eq m r1 (h _ _ h1 _ _ h2 h3)]
          simp
        · simp [c]

/-! ### streams of small words: every hypothesis above holds

`2^32` and not `2^60`: `[2^32, 2^32, 0, 0]` (`int_load_ne_overflow`) consists of words below `2^60`. -/

def Small (es : Elems) : Prop := ∀ w ∈ es, w.toNat < 2 ^ 32

theorem Small.suffix {es r : Elems} (h : Small es) (hs : r <:+ es) : Small r :=
  fun w hw => h w (hs.subset hw)

theorem suffix_of_eq {es a r : Elems} (e : es = a ++ r) : r <:+ es := ⟨a, e.symm⟩

theorem usizeC_suffix {es r : Elems} {n : Nat} (h : usizeC.load es = ok (n, r)) : r <:+ es :=
  suffix_of_eq (a := [BitVec.ofNat 64 n]) (LoadWF.usizeC_inv h).1

theorem vecU64C_suffix {es r : Elems} {a : Array Word} (h : vecU64C.load es = ok (a, r)) : r <:+ es :=
  suffix_of_eq (LoadWF.vecU64C_inv h).1

theorem vecPairC_suffix {es r : Elems} {a : Array (Word × Word)} (h : vecPairC.load es = ok (a, r)) : r <:+ es :=
  suffix_of_eq (LoadWF.vecPairC_inv h).1

theorem rawVecC_suffix {es r : Elems} {v : RawVec} (h : rawVecC.load es = ok (v, r)) : r <:+ es :=
  suffix_of_eq (LoadWF.rawVecC_load_inv h).1

theorem intVecC_suffix {es r : Elems} {v : IntVec} (h : intVecC.load es = ok (v, r)) : r <:+ es :=
  suffix_of_eq (LoadWF.intVecC_load_inv h).1

theorem rankSupC_suffix {es r : Elems} {v : RankSup} (h : rankSupC.load es = ok (v, r)) : r <:+ es :=
  suffix_of_eq (LoadWF.rankSupC_load_inv h).1

theorem selSupC_suffix {es r : Elems} {v : SelSup} (h : selSupC.load es = ok (v, r)) : r <:+ es :=
  suffix_of_eq (LoadWF.selSupC_load_inv h).1

theorem optionC_suffix {α} {c : Codec α} (hc : ∀ es x r, c.load es = ok (x, r) → r <:+ es)
    {es r : Elems} {o : Option α} (h : (optionC c).load es = ok (o, r)) : r <:+ es := by
  obtain ⟨⟨n, r1⟩, h1, h2⟩ := Outcome.bind_eq_ok (x := readElem es) h
  have e0 := LoadWF.readElem_inv h1
  dsimp only at h2
  by_cases c0 : n.toNat = 0
  · rw [if_pos c0] at h2
    injection h2 with h2; injection h2 with h3 h4
    subst h4
    exact suffix_of_eq (a := [n]) e0
  · rw [if_neg c0] at h2
    obtain ⟨⟨x, r2⟩, h3, h4⟩ := Outcome.bind_eq_ok (x := c.load r1) h2
    injection h4 with h4; injection h4 with h5 h6
    subst h6
    exact (hc _ _ _ h3).trans (suffix_of_eq (a := [n]) e0)

theorem bitVectorC_suffix {es r : Elems} {v : BitVector} (h : bitVectorC.load es = ok (v, r)) : r <:+ es := by
  obtain ⟨n1, n2, n3, e, _⟩ := LoadWF.bitVectorC_load_inv h
  exact suffix_of_eq e

theorem wmCoreC_suffix {es r : Elems} {v : WMCore} (h : wmCoreC.load es = ok (v, r)) : r <:+ es := by
  obtain ⟨L, ns, e, _⟩ := LoadWF.wmCoreC_load_inv h
  exact suffix_of_eq (a := BitVec.ofNat 64 v.width :: LoadWF.levelsRaw L ns) e

theorem usizeC_small {es r : Elems} {n : Nat} (hs : Small es) (h : usizeC.load es = ok (n, r)) : n < 2 ^ 32 := by
  obtain ⟨e, hn⟩ := LoadWF.usizeC_inv h
  have := hs (BitVec.ofNat 64 n) (by rw [e]; exact List.mem_cons_self)
  rwa [BitVec.toNat_ofNat, Nat.mod_eq_of_lt hn] at this

theorem rawVecC_small {es r : Elems} {v : RawVec} (hs : Small es) (h : rawVecC.load es = ok (v, r)) :
    v.len < 2 ^ 32 := by
  obtain ⟨e, _, hn⟩ := LoadWF.rawVecC_load_inv h
  have := hs (BitVec.ofNat 64 v.len) (by rw [e]; exact List.mem_cons_self)
  rwa [BitVec.toNat_ofNat, Nat.mod_eq_of_lt hn] at this

theorem intVecC_small {es r : Elems} {v : IntVec} (hs : Small es) (h : intVecC.load es = ok (v, r)) :
    v.len < 2 ^ 32 ∧ v.width < 2 ^ 32 := by
  obtain ⟨e, hn, hw, _⟩ := LoadWF.intVecC_load_inv h
  have h1 := hs (BitVec.ofNat 64 v.len) (by rw [e]; exact List.mem_cons_self)
  have h2 := hs (BitVec.ofNat 64 v.width) (by rw [e]; exact List.mem_cons_of_mem _ List.mem_cons_self)
  rw [BitVec.toNat_ofNat, Nat.mod_eq_of_lt hn] at h1
  rw [BitVec.toNat_ofNat, Nat.mod_eq_of_lt hw] at h2
  exact ⟨h1, h2⟩

theorem RawOk_of_small {es : Elems} (hs : Small es) : RawOk es := by
  intro len r data r' h1 _
  have := usizeC_small hs h1
  rw [U64_eq]; omega

theorem IntOk_of_small {es : Elems} (hs : Small es) : IntOk es := by
  intro len r width r' h1 h2
  have s1 := hs.suffix (usizeC_suffix h1)
  have s2 := s1.suffix (usizeC_suffix h2)
  refine ⟨RawOk_of_small s2, fun data r'' _ => ?_⟩
  have l1 := usizeC_small hs h1
  have l2 := usizeC_small s1 h2
  have := Nat.mul_lt_mul'' l1 l2
  rw [U64_eq]; omega

theorem SelOk_of_small {es : Elems} (hs : Small es) : SelOk es := by
  refine ⟨IntOk_of_small hs, fun a r1 h1 => ?_⟩
  have s1 := hs.suffix (intVecC_suffix h1)
  refine ⟨IntOk_of_small s1, fun b r2 h2 => ?_⟩
  have s2 := s1.suffix (intVecC_suffix h2)
  refine ⟨IntOk_of_small s2, fun c r3 h3 => ?_⟩
  have l1 := (intVecC_small s1 h2).1
  have l2 := (intVecC_small s2 h3).1
  rw [U64_eq]; omega

theorem BvOk_of_small {es : Elems} (hs : Small es) : BvOk es := by
  intro ones r h1
  have s1 := hs.suffix (usizeC_suffix h1)
  refine ⟨RawOk_of_small s1, fun data r1 h2 hle rank r2 _ => ?_⟩
  have l1 := usizeC_small hs h1
  have l2 := rawVecC_small s1 h2
  rw [U64_eq]
  refine ⟨fun _ => by omega, fun _ sel r3 _ => ⟨fun _ => by omega, fun _ selz r4 _ _ => by omega⟩⟩

/-- for `SparseVector::load` small words do not suffice: the width of the low array is a stream word -/
def SparseWidthOk (es : Elems) : Prop :=
  ∀ len r high r1 low r2, usizeC.load es = ok (len, r) → bitVectorC.load r = ok (high, r1) →
    intVecC.load r1 = ok (low, r2) → low.len = high.enableSelect.enableSelectZero.countOnes → low.width ≤ 64

theorem getBuckets_le (univ w : Nat) : Sparse.getBuckets univ w ≤ univ + 1 := by
  unfold Sparse.getBuckets
  have : univ >>> w ≤ univ := by rw [Nat.shiftRight_eq_div_pow]; exact Nat.div_le_self _ _
  dsimp only
  split <;> split <;> omega

theorem SparseOk_of_small {es : Elems} (hs : Small es) (hw : SparseWidthOk es) : SparseOk es := by
  intro len r h1
  have s1 := hs.suffix (usizeC_suffix h1)
  refine ⟨BvOk_of_small s1, fun high r1 h2 => ?_⟩
  have s2 := s1.suffix (bitVectorC_suffix h2)
  refine ⟨IntOk_of_small s2, fun low r2 h3 c => ⟨hw _ _ _ _ _ _ h1 h2 h3 c, ?_⟩⟩
  have l1 := usizeC_small hs h1
  have l2 := (intVecC_small s2 h3).1
  have := getBuckets_le len low.width
  rw [U64_eq]; omega

theorem WmOk_of_small {es : Elems} (hs : Small es) : WmOk es := by
  intro len r h1 data r1 h2 _
  exact IntOk_of_small ((hs.suffix (usizeC_suffix h1)).suffix (wmCoreC_suffix h2))

theorem raw_load_eq_small (m : Mode) (es : Elems) (h : ∀ w ∈ es, w.toNat < 2 ^ 32) :
    gen_RawVector_load m es = rawVecC.load es := raw_load_eq m es (RawOk_of_small h)
theorem int_load_eq_small (m : Mode) (es : Elems) (h : ∀ w ∈ es, w.toNat < 2 ^ 32) :
    gen_IntVector_load m es = intVecC.load es := int_load_eq m es (IntOk_of_small h)
theorem sel_load_eq_small (m : Mode) (es : Elems) (h : ∀ w ∈ es, w.toNat < 2 ^ 32) :
    gen_SelectSupport_load m es = selSupC.load es := sel_load_eq m es (SelOk_of_small h)
theorem bv_load_eq_small (m : Mode) (es : Elems) (h : ∀ w ∈ es, w.toNat < 2 ^ 32) :
    gen_BitVector_load m es = bitVectorC.load es := bv_load_eq m es (BvOk_of_small h)
theorem sparse_load_eq_small (m : Mode) (es : Elems) (h : ∀ w ∈ es, w.toNat < 2 ^ 32) (hw : SparseWidthOk es) :
    gen_SparseVector_load m es = sparseC.load es := sparse_load_eq m es (SparseOk_of_small h hw)
theorem wm_load_eq_small (m : Mode) (es : Elems) (h : ∀ w ∈ es, w.toNat < 2 ^ 32) :
    gen_WaveletMatrix_load m es = wmC.load es := wm_load_eq m es (WmOk_of_small h)

/-! ### counterexamples for the composite loaders -/

/-- inherited from the raw vector: the wrapping build ACCEPTS a bitvector of `2^64 − 1` bits without a data word -/
theorem bv_load_ne_raw :
    gen_BitVector_load .checked [0#64, 0xFFFFFFFFFFFFFFFF#64, 0#64, 0#64, 0#64, 0#64] = fault (.panic .overflow) ∧
    gen_BitVector_load .wrapping [0#64, 0xFFFFFFFFFFFFFFFF#64, 0#64, 0#64, 0#64, 0#64] =
      ok ({ ones := 0, data := ⟨18446744073709551615, #[]⟩ }, []) ∧
    bitVectorC.load [0#64, 0xFFFFFFFFFFFFFFFF#64, 0#64, 0#64, 0#64, 0#64] = fault (.err .invalid) := by
  decide +kernel

/-- `low.width = 65` (the empty sparse vector otherwise): `low_set(65)` indexes past the 65-entry table, so both builds
panic where the model accepts -/
theorem sparse_load_ne_width :
    gen_SparseVector_load .checked [0#64, 0#64, 0#64, 0#64, 0#64, 0#64, 0#64, 0#64, 65#64, 0#64, 0#64] =
      fault (.panic .index) ∧
    gen_SparseVector_load .wrapping [0#64, 0#64, 0#64, 0#64, 0#64, 0#64, 0#64, 0#64, 65#64, 0#64, 0#64] =
      fault (.panic .index) ∧
    (sparseC.load [0#64, 0#64, 0#64, 0#64, 0#64, 0#64, 0#64, 0#64, 65#64, 0#64, 0#64]).isOk = true := by
  decide +kernel

/-- universe `2^64 − 1` with `low.width = 0` and one element: `low.len + buckets = 1 + (2^64 − 1)` overflows in the checked
build; the wrapping build and the model refuse -/
theorem sparse_load_ne_buckets :
    gen_SparseVector_load .checked
      [0xFFFFFFFFFFFFFFFF#64, 1#64, 1#64, 1#64, 1#64, 0#64, 0#64, 0#64, 1#64, 0#64, 0#64, 0#64] =
        fault (.panic .overflow) ∧
    gen_SparseVector_load .wrapping
      [0xFFFFFFFFFFFFFFFF#64, 1#64, 1#64, 1#64, 1#64, 0#64, 0#64, 0#64, 1#64, 0#64, 0#64, 0#64] =
        fault (.err .invalid) ∧
    sparseC.load [0xFFFFFFFFFFFFFFFF#64, 1#64, 1#64, 1#64, 1#64, 0#64, 0#64, 0#64, 1#64, 0#64, 0#64, 0#64] =
      fault (.err .invalid) := by
  decide +kernel

/-- inherited from the integer vector `first`: a one-level wavelet matrix of length 0 followed by `[2^32, 2^32, 0, 0]` -/
theorem wm_load_ne_int :
    gen_WaveletMatrix_load .checked
      [0#64, 1#64, 0#64, 0#64, 0#64, 0#64, 0#64, 0#64, 0x100000000#64, 0x100000000#64, 0#64, 0#64] =
        fault (.panic .overflow) ∧
    (gen_WaveletMatrix_load .wrapping
      [0#64, 1#64, 0#64, 0#64, 0#64, 0#64, 0#64, 0#64, 0x100000000#64, 0x100000000#64, 0#64, 0#64]).isOk = true ∧
    wmC.load [0#64, 1#64, 0#64, 0#64, 0#64, 0#64, 0#64, 0#64, 0x100000000#64, 0x100000000#64, 0#64, 0#64] =
      fault (.err .invalid) := by
  decide +kernel

/-! ### the three size clauses of `BvOk` beyond `RawOk`

They can fail only on a stream of at least `2^57` words (the raw vector must carry `⌈len/64⌉` data words):
`BvOk_of_length`.  On such streams they do fail: `bv_load_ne_rank / _select / _select_zero` below, stated for an
arbitrary block `ws` of `2^58 − 1` data words. -/

def BvRawOk (es : Elems) : Prop := ∀ ones r, usizeC.load es = ok (ones, r) → RawOk r

theorem rawVecC_len_le {es r : Elems} {v : RawVec} (h : rawVecC.load es = ok (v, r)) : v.len ≤ 64 * es.length := by
  obtain ⟨e, hsz, _⟩ := LoadWF.rawVecC_load_inv h
  have : es.length = 2 + v.data.size + r.length := by
    rw [e]; simp [rawVecC, vecU64C]; omega
  omega

theorem BvOk_of_length {es : Elems} (hl : es.length < 2 ^ 57) (h : BvRawOk es) : BvOk es := by
  intro ones r h1
  refine ⟨h _ _ h1, fun data r1 h2 hle rank r2 _ => ?_⟩
  have l1 := rawVecC_len_le h2
  have l2 : r.length < es.length := by rw [(LoadWF.usizeC_inv h1).1]; simp
  rw [U64_eq]
  refine ⟨fun _ => by omega, fun _ sel r3 _ => ⟨fun _ => by omega, fun _ selz r4 _ _ => by omega⟩⟩

theorem bv_load_eq_of_length (m : Mode) (es : Elems) (hl : es.length < 2 ^ 57) (h : BvRawOk es) :
    gen_BitVector_load m es = bitVectorC.load es := bv_load_eq m es (BvOk_of_length hl h)

theorem readN_append (ws rest : Elems) : readN ws.length (ws ++ rest) = ok (ws, rest) := by
  simp [readN]

theorem usizeC_cons (w : Word) (r : Elems) : usizeC.load (w :: r) = ok (w.toNat, r) := rfl

theorem opt_rank_lit (r : Elems) :
    (optionC rankSupC).load (1#64 :: 0#64 :: r) = ok (some ⟨#[]⟩, r) := by
  simp [optionC, rankSupC, vecPairC, readElem, readN, pairsOf, Bind.bind, Outcome.bind, Pure.pure]

theorem opt_none_cons {α} (c : Codec α) (r : Elems) : (optionC c).load (0#64 :: r) = ok (none, r) := by
  simp [optionC, readElem, Bind.bind, Outcome.bind, Pure.pure]

/-- the empty select support as it appears in a file: three empty integer vectors -/
def emptySel : SelSup := ⟨⟨0, 0, ⟨0, #[]⟩⟩, ⟨0, 0, ⟨0, #[]⟩⟩, ⟨0, 0, ⟨0, #[]⟩⟩⟩
def selLit (r : Elems) : Elems :=
  1#64 :: 0#64 :: 0#64 :: 0#64 :: 0#64 :: 0#64 :: 0#64 :: 0#64 :: 0#64 :: 0#64 :: 0#64 :: 0#64 :: 0#64 :: r

theorem opt_sel_lit (r : Elems) : (optionC selSupC).load (selLit r) = ok (some emptySel, r) := by
  simp [selLit, emptySel, optionC, selSupC, intVecC, rawVecC, vecU64C, usizeC, readElem, readN, Bind.bind, Outcome.bind,
    Pure.pure, SelSup.superblocks, SelSup.longSuperblocks, SelSup.shortSuperblocks]

/-- `ones`, the bit length, the word count, the data words, the rest -/
def bigS (wo wL wN : Word) (ws tl : Elems) : Elems := wo :: wL :: wN :: (ws ++ tl)

section big
variable {wL wN : Word} {L : Nat} {ws : Elems}

theorem big_raw (tl : Elems) (hL : wL.toNat = L) (hN : wN.toNat = ws.length) (h64 : (L + 63) / 64 = ws.length) :
    rawVecC.load (wL :: wN :: (ws ++ tl)) = ok (⟨L, ws.toArray⟩, tl) := by
  simp [rawVecC, usizeC, vecU64C, readElem, Bind.bind, Outcome.bind, Pure.pure, hL, hN, readN_append, h64]

theorem big_rawOk (tl : Elems) (hL : wL.toNat = L) (h63 : L + 63 < U64) : RawOk (wL :: wN :: (ws ++ tl)) := by
  intro len r data r' h1 _
  rw [usizeC_cons] at h1
  injection h1 with h1; injection h1 with h1 _
  rw [← h1, hL]; exact h63

end big

/-! what the two loaders do at each of the three clauses, with every value read so far symbolic (with literals in their
place the kernel evaluates `x + 4095` in unary when it checks the `rfl` steps) -/
section stages
variable {m : Mode} {es r r1 r2 r3 r4 r5 : Elems} {ones : Nat} {data : RawVec}

set_option maxRecDepth 4000 in
theorem bv_rank_stage {s : RankSup} (h1 : usizeC.load es = ok (ones, r)) (hk : RawOk r)
    (h2 : rawVecC.load r = ok (data, r1)) (hle : ¬ ones > data.len)
    (h3 : (optionC rankSupC).load r1 = ok (some s, r2)) :
    (∀ e, gen_div_round_up m data.len 512 = fault e → gen_BitVector_load m es = fault e) ∧
    (∀ t, gen_div_round_up m data.len 512 = ok t → s.samples.size = t →
      (optionC selSupC).load r2 = ok (none, r3) → (optionC selSupC).load r3 = ok (none, r4) →
      gen_BitVector_load m es = ok ({ ones := ones, data := data, rank := some s }, r4)) ∧
    (s.samples.size ≠ (data.len + 511) / 512 → bitVectorC.load es = fault (.err .invalid)) := by
  refine ⟨fun e f1 => ?_, fun t f2 f3 h4 h5 => ?_, fun f5 => ?_⟩
  · unfold gen_BitVector_load
    simp only [bind_eq_of_ok h1, bind_eq_of_ok ((raw_load_eq _ _ hk).trans h2)]
    simp only [hle, decide_false, if_false, Bool.false_eq_true, bind_eq_of_ok h3, bind_eq_of_fault f1]
  · unfold gen_BitVector_load
    simp only [bind_eq_of_ok h1, bind_eq_of_ok ((raw_load_eq _ _ hk).trans h2)]
    simp only [hle, decide_false, if_false, Bool.false_eq_true, bind_eq_of_ok h3, bind_eq_of_ok f2, f3, ne_eq,
      not_true_eq_false, bind_eq_of_ok h4, bind_eq_of_ok h5, Pure.pure]
  · unfold bitVectorC
    simp only [bind_eq_of_ok h1, bind_eq_of_ok h2]
    simp only [hle, if_false, bind_eq_of_ok h3, f5, ne_eq, not_false_eq_true, decide_true, if_true]

set_option maxRecDepth 4000 in
theorem bv_select_stage {s : SelSup} (h1 : usizeC.load es = ok (ones, r)) (hk : RawOk r)
    (h2 : rawVecC.load r = ok (data, r1)) (hle : ¬ ones > data.len)
    (h3 : (optionC rankSupC).load r1 = ok (none, r2)) (h4 : (optionC selSupC).load r2 = ok (some s, r3)) :
    (∀ e, gen_div_round_up m ones 4096 = fault e → gen_BitVector_load m es = fault e) ∧
    (∀ t, gen_div_round_up m ones 4096 = ok t → s.superblocks = t →
      (optionC selSupC).load r3 = ok (none, r4) →
      gen_BitVector_load m es = ok ({ ones := ones, data := data, select := some s }, r4)) ∧
    (s.superblocks ≠ (ones + 4095) / 4096 → bitVectorC.load es = fault (.err .invalid)) := by
  refine ⟨fun e f1 => ?_, fun t f2 f3 h5 => ?_, fun f5 => ?_⟩
  · unfold gen_BitVector_load
    simp only [bind_eq_of_ok h1, bind_eq_of_ok ((raw_load_eq _ _ hk).trans h2)]
    simp only [hle, decide_false, if_false, Bool.false_eq_true, bind_eq_of_ok h3, bind_eq_of_ok h4,
      bind_eq_of_ok (sel_superblocks_eq m s), bind_eq_of_fault f1]
  · unfold gen_BitVector_load
    simp only [bind_eq_of_ok h1, bind_eq_of_ok ((raw_load_eq _ _ hk).trans h2)]
    simp only [hle, decide_false, if_false, Bool.false_eq_true, bind_eq_of_ok h3, bind_eq_of_ok h4,
      bind_eq_of_ok (sel_superblocks_eq m s), bind_eq_of_ok f2, f3, ne_eq,
      not_true_eq_false, bind_eq_of_ok h5, Pure.pure]
  · unfold bitVectorC
    simp only [bind_eq_of_ok h1, bind_eq_of_ok h2]
    simp only [hle, if_false, bind_eq_of_ok h3, Bool.false_eq_true, bind_eq_of_ok h4, f5, ne_eq, not_false_eq_true,
      decide_true, if_true]

set_option maxRecDepth 4000 in
theorem bv_select_zero_stage {s : SelSup} (h1 : usizeC.load es = ok (ones, r)) (hk : RawOk r)
    (h2 : rawVecC.load r = ok (data, r1)) (hle : ¬ ones > data.len)
    (h3 : (optionC rankSupC).load r1 = ok (none, r2)) (h4 : (optionC selSupC).load r2 = ok (none, r3))
    (h5 : (optionC selSupC).load r3 = ok (some s, r4)) :
    (∀ e, gen_div_round_up m (data.len - ones) 4096 = fault e → gen_BitVector_load m es = fault e) ∧
    (∀ t, gen_div_round_up m (data.len - ones) 4096 = ok t → s.superblocks = t →
      gen_BitVector_load m es = ok ({ ones := ones, data := data, selectZero := some s }, r4)) ∧
    (s.superblocks ≠ (data.len - ones + 4095) / 4096 → bitVectorC.load es = fault (.err .invalid)) := by
  have hs : subM m data.len ones = ok (data.len - ones) := subM_ok (by omega)
  refine ⟨fun e f1 => ?_, fun t f2 f3 => ?_, fun f5 => ?_⟩
  · unfold gen_BitVector_load
    simp only [bind_eq_of_ok h1, bind_eq_of_ok ((raw_load_eq _ _ hk).trans h2)]
    simp only [hle, decide_false, if_false, Bool.false_eq_true, bind_eq_of_ok h3, bind_eq_of_ok h4, bind_eq_of_ok h5,
      bind_eq_of_ok (sel_superblocks_eq m s), bind_eq_of_ok hs, bind_eq_of_fault f1]
  · unfold gen_BitVector_load
    simp only [bind_eq_of_ok h1, bind_eq_of_ok ((raw_load_eq _ _ hk).trans h2)]
    simp only [hle, decide_false, if_false, Bool.false_eq_true, bind_eq_of_ok h3, bind_eq_of_ok h4, bind_eq_of_ok h5,
      bind_eq_of_ok (sel_superblocks_eq m s), bind_eq_of_ok hs, bind_eq_of_ok f2, f3,
      ne_eq, not_true_eq_false, Pure.pure]
  · unfold bitVectorC
    simp only [bind_eq_of_ok h1, bind_eq_of_ok h2]
    simp only [hle, if_false, bind_eq_of_ok h3, bind_eq_of_ok h4, bind_eq_of_ok h5, Bool.false_eq_true, f5, ne_eq,
      not_false_eq_true, decide_true, if_true]

end stages

theorem big_facts :
    (18446744073709551489#64).toNat = 18446744073709551489 ∧
    (288230376151711743#64).toNat = 288230376151711743 ∧
    (18446744073709551489 + 63) / 64 = 288230376151711743 ∧
    18446744073709551489 + 63 < U64 ∧
    ¬ (0 > 18446744073709551489) ∧
    ¬ (18446744073709551489 > 18446744073709551489) ∧
    gen_div_round_up .checked 18446744073709551489 512 = fault (.panic .overflow) ∧
    gen_div_round_up .wrapping 18446744073709551489 512 = ok 0 ∧
    gen_div_round_up .checked 18446744073709551489 4096 = fault (.panic .overflow) ∧
    gen_div_round_up .wrapping 18446744073709551489 4096 = ok 0 ∧
    gen_div_round_up .checked (18446744073709551489 - 0) 4096 = fault (.panic .overflow) ∧
    gen_div_round_up .wrapping (18446744073709551489 - 0) 4096 = ok 0 ∧
    (#[] : Array (Word × Word)).size ≠ (18446744073709551489 + 511) / 512 ∧
    emptySel.superblocks ≠ (18446744073709551489 + 4095) / 4096 ∧
    emptySel.superblocks ≠ (18446744073709551489 - 0 + 4095) / 4096 := by
  decide +kernel

/-- a bitvector of `2^64 − 127` bits (`2^58 − 1` data words `ws`) with a rank support of no samples: `len + 512` overflows
in `div_round_up`.  The raw vector itself is fine (`len + 63 < 2^64`).  The checked build panics, the wrapping build
ACCEPTS, the model refuses. -/
theorem bv_load_ne_rank (ws : Elems) (hl : ws.length = 288230376151711743) :
    gen_BitVector_load .checked
      (bigS 0#64 18446744073709551489#64 288230376151711743#64 ws [1#64, 0#64, 0#64, 0#64]) = fault (.panic .overflow) ∧
    gen_BitVector_load .wrapping
      (bigS 0#64 18446744073709551489#64 288230376151711743#64 ws [1#64, 0#64, 0#64, 0#64]) =
        ok ({ ones := 0, data := ⟨18446744073709551489, ws.toArray⟩, rank := some ⟨#[]⟩ }, []) ∧
    bitVectorC.load
      (bigS 0#64 18446744073709551489#64 288230376151711743#64 ws [1#64, 0#64, 0#64, 0#64]) = fault (.err .invalid) := by
  obtain ⟨a1, a2, a3, a4, a5, a6, a7, a8, a9, a10, a11, a12, a13, a14, a15⟩ := big_facts
  have hr := big_raw (ws := ws) [1#64, 0#64, 0#64, 0#64] a1 (a2.trans hl.symm) (a3.trans hl.symm)
  have hk := big_rawOk (wN := 288230376151711743#64) (ws := ws) [1#64, 0#64, 0#64, 0#64] a1 a4
  obtain ⟨g1, _, g3⟩ := bv_rank_stage (m := .checked) (r3 := []) (r4 := []) (usizeC_cons 0#64 _) hk hr a5
    (opt_rank_lit _)
  obtain ⟨_, g2, _⟩ := bv_rank_stage (m := .wrapping) (usizeC_cons 0#64 _) hk hr a5 (opt_rank_lit _)
  exact ⟨g1 _ a7, g2 _ a8 rfl (opt_none_cons _ _) (opt_none_cons _ _), g3 a13⟩

/-- the same vector with `ones = len` and an (empty) select support: `ones + 4096` overflows -/
theorem bv_load_ne_select (ws : Elems) (hl : ws.length = 288230376151711743) :
    gen_BitVector_load .checked
      (bigS 18446744073709551489#64 18446744073709551489#64 288230376151711743#64 ws (0#64 :: selLit [0#64])) =
        fault (.panic .overflow) ∧
    gen_BitVector_load .wrapping
      (bigS 18446744073709551489#64 18446744073709551489#64 288230376151711743#64 ws (0#64 :: selLit [0#64])) =
        ok ({ ones := 18446744073709551489, data := ⟨18446744073709551489, ws.toArray⟩, select := some emptySel }, []) ∧
    bitVectorC.load
      (bigS 18446744073709551489#64 18446744073709551489#64 288230376151711743#64 ws (0#64 :: selLit [0#64])) =
        fault (.err .invalid) := by
  obtain ⟨a1, a2, a3, a4, a5, a6, a7, a8, a9, a10, a11, a12, a13, a14, a15⟩ := big_facts
  have hr := big_raw (ws := ws) (0#64 :: selLit [0#64]) a1 (a2.trans hl.symm) (a3.trans hl.symm)
  have hk := big_rawOk (wN := 288230376151711743#64) (ws := ws) (0#64 :: selLit [0#64]) a1 a4
  have h1 : usizeC.load (bigS 18446744073709551489#64 18446744073709551489#64 288230376151711743#64 ws
      (0#64 :: selLit [0#64])) = ok (18446744073709551489, _) := (usizeC_cons _ _).trans (by rw [a1])
  obtain ⟨g1, _, g3⟩ := bv_select_stage (m := .checked) (r4 := []) h1 hk hr a6 (opt_none_cons _ _) (opt_sel_lit _)
  obtain ⟨_, g2, _⟩ := bv_select_stage (m := .wrapping) h1 hk hr a6 (opt_none_cons _ _) (opt_sel_lit _)
  exact ⟨g1 _ a9, g2 _ a10 rfl (opt_none_cons _ _), g3 a14⟩

/-- the same vector with `ones = 0` and an (empty) select_zero support: `len - ones + 4096` overflows -/
theorem bv_load_ne_select_zero (ws : Elems) (hl : ws.length = 288230376151711743) :
    gen_BitVector_load .checked
      (bigS 0#64 18446744073709551489#64 288230376151711743#64 ws (0#64 :: 0#64 :: selLit [])) =
        fault (.panic .overflow) ∧
    gen_BitVector_load .wrapping
      (bigS 0#64 18446744073709551489#64 288230376151711743#64 ws (0#64 :: 0#64 :: selLit [])) =
        ok ({ ones := 0, data := ⟨18446744073709551489, ws.toArray⟩, selectZero := some emptySel }, []) ∧
    bitVectorC.load
      (bigS 0#64 18446744073709551489#64 288230376151711743#64 ws (0#64 :: 0#64 :: selLit [])) =
        fault (.err .invalid) := by
  obtain ⟨a1, a2, a3, a4, a5, a6, a7, a8, a9, a10, a11, a12, a13, a14, a15⟩ := big_facts
  have hr := big_raw (ws := ws) (0#64 :: 0#64 :: selLit []) a1 (a2.trans hl.symm) (a3.trans hl.symm)
  have hk := big_rawOk (wN := 288230376151711743#64) (ws := ws) (0#64 :: 0#64 :: selLit []) a1 a4
  obtain ⟨g1, _, g3⟩ := bv_select_zero_stage (m := .checked) (usizeC_cons 0#64 _) hk hr a5
    (opt_none_cons _ _) (opt_none_cons _ _) (opt_sel_lit _)
  obtain ⟨_, g2, _⟩ := bv_select_zero_stage (m := .wrapping) (usizeC_cons 0#64 _) hk hr a5
    (opt_none_cons _ _) (opt_none_cons _ _) (opt_sel_lit _)
  exact ⟨g1 _ a11, g2 _ a12 rfl, g3 a15⟩

end Sds.GenEq
