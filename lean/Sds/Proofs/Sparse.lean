/-
Proofs/Sparse: the Elias–Fano vector (`Sparse`) answers select / rank / get / rank_zero / iterators /
predecessor / successor correctly, for every sparse vector that encodes a sorted list `P` of values
(`Sparse.Encodes`), in both arithmetic modes.  The concrete bitvector `high` enters only through an
abstract interface (len / get / select / select_zero agree with the bit list `highBits`).
-/
import Sds.Model.Sparse
import Sds.Spec.Bits
set_option linter.unusedSimpArgs false
set_option linter.unusedVariables false

namespace Sds
open Outcome

/-! ### sorted lists -/

theorem sortedLe_pairwise : ∀ (P : List Nat), sortedLe P = true → P.Pairwise (· ≤ ·)
  | [], _ => List.Pairwise.nil
  | [a], _ => by simp
  | a :: b :: t, h => by
    simp only [sortedLe, Bool.and_eq_true, decide_eq_true_eq] at h
    have ih := sortedLe_pairwise (b :: t) h.2
    have ih' := List.pairwise_cons.mp ih
    refine List.pairwise_cons.mpr ⟨?_, ih⟩
    intro q hq
    rcases List.mem_cons.mp hq with rfl | hq
    · exact h.1
    · exact Nat.le_trans h.1 (ih'.1 q hq)

theorem sortedStrict_pairwise : ∀ (P : List Nat), sortedStrict P = true → P.Pairwise (· < ·)
  | [], _ => List.Pairwise.nil
  | [a], _ => by simp
  | a :: b :: t, h => by
    simp only [sortedStrict, Bool.and_eq_true, decide_eq_true_eq] at h
    have ih := sortedStrict_pairwise (b :: t) h.2
    have ih' := List.pairwise_cons.mp ih
    refine List.pairwise_cons.mpr ⟨?_, ih⟩
    intro q hq
    rcases List.mem_cons.mp hq with rfl | hq
    · exact h.1
    · exact Nat.lt_trans h.1 (ih'.1 q hq)

theorem pairwise_le_getElem {P : List Nat} (h : P.Pairwise (· ≤ ·)) (i j : Nat) (hij : i ≤ j)
    (hj : j < P.length) : P[i]'(by omega) ≤ P[j] := by
  by_cases e : i = j
  · subst e; exact Nat.le_refl _
  · exact (List.pairwise_iff_getElem.mp h) i j (by omega) hj (by omega)

theorem pairwise_lt_getElem {P : List Nat} (h : P.Pairwise (· < ·)) (i j : Nat) (hij : i < j)
    (hj : j < P.length) : P[i]'(by omega) < P[j] :=
  (List.pairwise_iff_getElem.mp h) i j (by omega) hj hij

/-- in a strictly increasing list of naturals the `j`-th element is at least `j` -/
theorem strict_getElem_ge {P : List Nat} (h : P.Pairwise (· < ·)) (j : Nat) (hj : j < P.length) :
    j ≤ P[j] := by
  induction j with
  | zero => exact Nat.zero_le _
  | succ j ih =>
    have := ih (by omega)
    have := pairwise_lt_getElem h j (j + 1) (by omega) hj
    omega

/-- `filter` by a predicate that holds exactly on the first `k` entries keeps exactly those -/
theorem filter_length_of_split (f : Nat → Bool) : ∀ (P : List Nat) (k : Nat), k ≤ P.length →
    (∀ j (hj : j < P.length), j < k → f P[j] = true) →
    (∀ j (hj : j < P.length), k ≤ j → f P[j] = false) → (P.filter f).length = k
  | [], k, hk, _, _ => by simp at hk; simp [hk]
  | p :: ps, 0, _, _, h2 => by
    have : ∀ q ∈ p :: ps, ¬ (f q = true) := by
      intro q hq
      obtain ⟨j, hj, rfl⟩ := List.mem_iff_getElem.mp hq
      rw [h2 j hj (Nat.zero_le _)]; simp
    rw [List.filter_eq_nil_iff.mpr this]; rfl
  | p :: ps, k + 1, hk, h1, h2 => by
    have hp : f p = true := h1 0 (by simp) (by omega)
    rw [List.filter_cons_of_pos hp, List.length_cons]
    congr 1
    apply filter_length_of_split f ps k (by simpa using hk)
    · intro j hj hjk
      have := h1 (j + 1) (by simp; omega) (by omega)
      simpa using this
    · intro j hj hjk
      have := h2 (j + 1) (by simp; omega) (by omega)
      simpa using this

/-- the same with the sortedness of the list doing most of the work: for a downward closed predicate it
suffices to look at the two entries around the cut -/
theorem filter_length_sorted {P : List Nat} (hP : P.Pairwise (· ≤ ·)) (f : Nat → Bool)
    (hf : ∀ a b, a ≤ b → f b = true → f a = true) (k : Nat) (hk : k ≤ P.length)
    (h1 : ∀ (h : 0 < k), f (P[k - 1]'(by omega)) = true)
    (h2 : ∀ (h : k < P.length), f P[k] = false) : (P.filter f).length = k := by
  apply filter_length_of_split f P k hk
  · intro j hj hjk
    exact hf _ _ (pairwise_le_getElem hP j (k - 1) (by omega) (by omega)) (h1 (by omega))
  · intro j hj hjk
    have h2' := h2 (by omega)
    cases hfj : f P[j] with
    | false => rfl
    | true =>
      have := hf _ _ (pairwise_le_getElem hP k j hjk hj) hfj
      rw [h2'] at this; exact absurd this (by simp)

/-- for a sorted list and a downward closed predicate, `j` is below the count iff `P[j]` satisfies it -/
theorem lt_filter_length_iff {P : List Nat} (hP : P.Pairwise (· ≤ ·)) (f : Nat → Bool)
    (hf : ∀ a b, a ≤ b → f b = true → f a = true) (j : Nat) (hj : j < P.length) :
    j < (P.filter f).length ↔ f P[j] = true := by
  induction P generalizing j with
  | nil => simp at hj
  | cons p ps ih =>
    have hP' := List.pairwise_cons.mp hP
    cases hfp : f p with
    | true =>
      rw [List.filter_cons_of_pos hfp]
      cases j with
      | zero => simp [hfp]
      | succ j =>
        have := ih hP'.2 j (by simpa using hj)
        simp only [List.length_cons, List.getElem_cons_succ] at hj ⊢
        rw [← this]; omega
    | false =>
      have hall : ∀ q ∈ p :: ps, ¬ (f q = true) := by
        intro q hq hfq
        rcases List.mem_cons.mp hq with rfl | hq
        · rw [hfp] at hfq; exact absurd hfq (by simp)
        · have := hf p q (hP'.1 q hq) hfq
          rw [hfp] at this; exact absurd this (by simp)
      rw [List.filter_eq_nil_iff.mpr hall]
      have : ¬ (f (p :: ps)[j] = true) := hall _ (List.getElem_mem hj)
      simp [this]

theorem filter_length_le (f : Nat → Bool) (P : List Nat) : (P.filter f).length ≤ P.length :=
  List.length_filter_le f P

/-! ### `selectBits` -/

theorem selectBits_true : ∀ (B : List Bool) (r y : Nat), selectBits B r = some y → B[y]? = some true
  | [], _, _, h => by simp [selectBits] at h
  | true :: bs, 0, y, h => by
    simp only [selectBits, Option.some.injEq] at h; subst h; rfl
  | true :: bs, r + 1, y, h => by
    simp only [selectBits, Option.map_eq_some_iff] at h
    obtain ⟨y', h', rfl⟩ := h
    simpa using selectBits_true bs r y' h'
  | false :: bs, r, y, h => by
    simp only [selectBits, Option.map_eq_some_iff] at h
    obtain ⟨y', h', rfl⟩ := h
    simpa using selectBits_true bs r y' h'

/-- every set bit is selected by some rank -/
theorem selectBits_of_true : ∀ (B : List Bool) (q : Nat), B[q]? = some true → ∃ r, selectBits B r = some q
  | [], _, h => by simp at h
  | true :: bs, 0, _ => ⟨0, rfl⟩
  | true :: bs, q + 1, h => by
    obtain ⟨r, hr⟩ := selectBits_of_true bs q (by simpa using h)
    exact ⟨r + 1, by simp [selectBits, hr]⟩
  | false :: bs, 0, h => by simp at h
  | false :: bs, q + 1, h => by
    obtain ⟨r, hr⟩ := selectBits_of_true bs q (by simpa using h)
    exact ⟨r, by simp [selectBits, hr]⟩

theorem selectBits_lt_count : ∀ (B : List Bool) (r y : Nat), selectBits B r = some y → r < B.count true
  | [], _, _, h => by simp [selectBits] at h
  | true :: bs, 0, y, h => by simp
  | true :: bs, r + 1, y, h => by
    simp only [selectBits, Option.map_eq_some_iff] at h
    obtain ⟨y', h', rfl⟩ := h
    have := selectBits_lt_count bs r y' h'
    simp; omega
  | false :: bs, r, y, h => by
    simp only [selectBits, Option.map_eq_some_iff] at h
    obtain ⟨y', h', rfl⟩ := h
    have := selectBits_lt_count bs r y' h'
    simpa using this

/-! ### the unary bucket sequence -/

/-- `k` buckets starting with bucket number `h`: a one for every value of the current bucket, then a zero -/
def highBitsFrom (w : Nat) : Nat → Nat → List Nat → List Bool
  | 0, _, _ => []
  | k + 1, h, [] => false :: highBitsFrom w k (h + 1) []
  | k + 1, h, p :: ps =>
    if p >>> w ≤ h then true :: highBitsFrom w (k + 1) h ps
    else false :: highBitsFrom w k (h + 1) (p :: ps)
termination_by k _ P => k + P.length

/-- the unary bucket sequence -/
def highBits (w buckets : Nat) (P : List Nat) : List Bool := highBitsFrom w buckets 0 P

theorem shr_mono (w : Nat) {a b : Nat} (h : a ≤ b) : a >>> w ≤ b >>> w := by
  rw [Nat.shiftRight_eq_div_pow, Nat.shiftRight_eq_div_pow]
  exact Nat.div_le_div_right h

/-- the hypotheses under which `highBitsFrom w k h P` is the encoding of `P` -/
structure HBInv (w k h : Nat) (P : List Nat) : Prop where
  sorted : P.Pairwise (· ≤ ·)
  lower : ∀ p ∈ P, h ≤ p >>> w
  upper : ∀ p ∈ P, p >>> w < h + k

theorem HBInv.tail {w k h p ps} (hi : HBInv w k h (p :: ps)) : HBInv w k h ps :=
  ⟨(List.pairwise_cons.mp hi.sorted).2, fun q hq => hi.lower q (List.mem_cons_of_mem _ hq),
   fun q hq => hi.upper q (List.mem_cons_of_mem _ hq)⟩

theorem HBInv.next {w k h p ps} (hi : HBInv w (k + 1) h (p :: ps)) (hp : ¬ p >>> w ≤ h) :
    HBInv w k (h + 1) (p :: ps) := by
  refine ⟨hi.sorted, ?_, ?_⟩
  · intro q hq
    rcases List.mem_cons.mp hq with rfl | hq'
    · omega
    · have := shr_mono w ((List.pairwise_cons.mp hi.sorted).1 q hq')
      omega
  · intro q hq
    have := hi.upper q hq
    omega

theorem HBInv.nil_next {w k h} : HBInv w k (h + 1) [] :=
  ⟨List.Pairwise.nil, by simp, by simp⟩

theorem highBitsFrom_length (w k h : Nat) (P : List Nat) (hi : HBInv w k h P) :
    (highBitsFrom w k h P).length = P.length + k := by
  induction k, h, P using highBitsFrom.induct w with
  | case1 h P =>
    cases P with
    | nil => simp [highBitsFrom]
    | cons p ps =>
      have h1 := hi.lower p (by simp)
      have h2 := hi.upper p (by simp)
      omega
  | case2 k h ih =>
    rw [highBitsFrom, List.length_cons, ih HBInv.nil_next]; simp
  | case3 k h p ps hp ih =>
    rw [highBitsFrom, if_pos hp, List.length_cons, ih hi.tail]; simp; omega
  | case4 k h p ps hp ih =>
    rw [highBitsFrom, if_neg hp, List.length_cons, ih (hi.next hp)]; omega

theorem highBitsFrom_count (w k h : Nat) (P : List Nat) (hi : HBInv w k h P) :
    (highBitsFrom w k h P).count true = P.length ∧ (highBitsFrom w k h P).count false = k := by
  induction k, h, P using highBitsFrom.induct w with
  | case1 h P =>
    cases P with
    | nil => simp [highBitsFrom]
    | cons p ps =>
      have h1 := hi.lower p (by simp)
      have h2 := hi.upper p (by simp)
      omega
  | case2 k h ih =>
    have := ih HBInv.nil_next
    rw [highBitsFrom]; simp [List.count_cons]; simpa using this
  | case3 k h p ps hp ih =>
    have := ih hi.tail
    rw [highBitsFrom, if_pos hp]; simp [List.count_cons]; simpa using this
  | case4 k h p ps hp ih =>
    have := ih (hi.next hp)
    rw [highBitsFrom, if_neg hp]; simp [List.count_cons]; simpa using this

theorem highBitsFrom_select (w k h : Nat) (P : List Nat) (hi : HBInv w k h P) (i : Nat) (hlt : i < P.length) :
    selectBits (highBitsFrom w k h P) i = some (P[i] >>> w - h + i) := by
  induction k, h, P using highBitsFrom.induct w generalizing i with
  | case1 h P =>
    have h1 := hi.lower P[i] (List.getElem_mem hlt)
    have h2 := hi.upper P[i] (List.getElem_mem hlt)
    omega
  | case2 k h ih => simp at hlt
  | case3 k h p ps hp ih =>
    rw [highBitsFrom, if_pos hp]
    cases i with
    | zero =>
      have := hi.lower p (by simp)
      simp [selectBits]; omega
    | succ i =>
      have hlt' : i < ps.length := by simpa using hlt
      simp only [selectBits, ih hi.tail i hlt', List.getElem_cons_succ, Option.map_some]
      congr 1
  | case4 k h p ps hp ih =>
    rw [highBitsFrom, if_neg hp]
    have h1 := (hi.next hp).lower (p :: ps)[i] (List.getElem_mem hlt)
    simp only [selectBits, ih (hi.next hp) i hlt, Option.map_some]
    congr 1; omega

theorem highBitsFrom_selectZero (w k h : Nat) (P : List Nat) (hi : HBInv w k h P) (j : Nat) (hlt : j < k) :
    selectBits ((highBitsFrom w k h P).map not) j =
      some (j + (P.filter (fun p => p >>> w ≤ h + j)).length) := by
  induction k, h, P using highBitsFrom.induct w generalizing j with
  | case1 h P => omega
  | case2 k h ih =>
    rw [highBitsFrom]
    cases j with
    | zero => simp [selectBits]
    | succ j =>
      simp only [List.map_cons, Bool.not_false, selectBits, ih HBInv.nil_next j (by omega), Option.map_some]
      simp
  | case3 k h p ps hp ih =>
    rw [highBitsFrom, if_pos hp]
    have hp' : p >>> w ≤ h + j := by omega
    simp only [List.map_cons, Bool.not_true, selectBits, ih hi.tail j hlt, Option.map_some]
    rw [List.filter_cons_of_pos (by simpa using hp')]
    simp; omega
  | case4 k h p ps hp ih =>
    rw [highBitsFrom, if_neg hp]
    cases j with
    | zero =>
      have hall : ∀ q ∈ p :: ps, ¬ ((fun p => decide (p >>> w ≤ h + 0)) q = true) := by
        intro q hq
        have := (hi.next hp).lower q hq
        simp; omega
      rw [List.filter_eq_nil_iff.mpr hall]
      simp [selectBits]
    | succ j =>
      simp only [List.map_cons, Bool.not_false, selectBits, ih (hi.next hp) j (by omega), Option.map_some]
      have e : h + 1 + j = h + (j + 1) := by omega
      rw [e]; congr 1; omega

/-! ### top-level facts about `highBits` -/

theorem hbinv_top {w buckets : Nat} {P : List Nat} (hP : P.Pairwise (· ≤ ·))
    (hb : ∀ p ∈ P, p >>> w < buckets) : HBInv w buckets 0 P :=
  ⟨hP, fun _ _ => Nat.zero_le _, fun p hp => by have := hb p hp; omega⟩

theorem highBits_length {w buckets : Nat} {P : List Nat} (hP : P.Pairwise (· ≤ ·))
    (hb : ∀ p ∈ P, p >>> w < buckets) : (highBits w buckets P).length = P.length + buckets :=
  highBitsFrom_length w buckets 0 P (hbinv_top hP hb)

theorem highBits_count_true {w buckets : Nat} {P : List Nat} (hP : P.Pairwise (· ≤ ·))
    (hb : ∀ p ∈ P, p >>> w < buckets) : (highBits w buckets P).count true = P.length :=
  (highBitsFrom_count w buckets 0 P (hbinv_top hP hb)).1

theorem highBits_count_false {w buckets : Nat} {P : List Nat} (hP : P.Pairwise (· ≤ ·))
    (hb : ∀ p ∈ P, p >>> w < buckets) : (highBits w buckets P).count false = buckets :=
  (highBitsFrom_count w buckets 0 P (hbinv_top hP hb)).2

/-- the `i`-th one of the bucket sequence is at `(P[i] >>> w) + i` -/
theorem highBits_select {w buckets : Nat} {P : List Nat} (hP : P.Pairwise (· ≤ ·))
    (hb : ∀ p ∈ P, p >>> w < buckets) (i : Nat) (hi : i < P.length) :
    selectSpec (highBits w buckets P) i = some (P[i] >>> w + i) := by
  have := highBitsFrom_select w buckets 0 P (hbinv_top hP hb) i hi
  simpa [selectSpec, highBits] using this

/-- the zero closing bucket `h` is at `h + |{p : p >>> w ≤ h}|` -/
theorem highBits_selectZero {w buckets : Nat} {P : List Nat} (hP : P.Pairwise (· ≤ ·))
    (hb : ∀ p ∈ P, p >>> w < buckets) (h : Nat) (hh : h < buckets) :
    selectZeroSpec (highBits w buckets P) h = some (h + (P.filter (fun p => p >>> w ≤ h)).length) := by
  have := highBitsFrom_selectZero w buckets 0 P (hbinv_top hP hb) h hh
  simpa [selectZeroSpec, highBits] using this

theorem highBits_select_none {w buckets : Nat} {P : List Nat} (hP : P.Pairwise (· ≤ ·))
    (hb : ∀ p ∈ P, p >>> w < buckets) (i : Nat) (hi : P.length ≤ i) :
    selectSpec (highBits w buckets P) i = none := by
  cases h : selectSpec (highBits w buckets P) i with
  | none => rfl
  | some y =>
    have := selectBits_lt_count _ _ _ h
    rw [highBits_count_true hP hb] at this
    omega

/-- the set bits of the bucket sequence are exactly the positions `(P[i] >>> w) + i` -/
theorem highBits_true_iff {w buckets : Nat} {P : List Nat} (hP : P.Pairwise (· ≤ ·))
    (hb : ∀ p ∈ P, p >>> w < buckets) (q : Nat) :
    (highBits w buckets P)[q]? = some true ↔ ∃ i, ∃ (hi : i < P.length), q = P[i] >>> w + i := by
  constructor
  · intro h
    obtain ⟨r, hr⟩ := selectBits_of_true _ _ h
    have hlt : r < P.length := by
      have := selectBits_lt_count _ _ _ hr
      rwa [highBits_count_true hP hb] at this
    have := highBits_select hP hb r hlt
    unfold selectSpec at this
    rw [hr] at this
    exact ⟨r, hlt, Option.some.inj this⟩
  · rintro ⟨i, hi, rfl⟩
    exact selectBits_true _ _ _ (highBits_select hP hb i hi)

theorem highBits_zero_pos {w buckets : Nat} {P : List Nat} (hP : P.Pairwise (· ≤ ·))
    (hb : ∀ p ∈ P, p >>> w < buckets) (h : Nat) (hh : h < buckets) :
    (highBits w buckets P)[h + (P.filter (fun p => p >>> w ≤ h)).length]? = some false := by
  have := selectBits_true _ _ _ (highBits_selectZero hP hb h hh)
  simpa using this

/-- The bucket sequence is determined by its length and the positions of its ones (the form in which the
builder produces it: it sets bit `(p >>> w) + i` for the `i`-th value). -/
theorem highBits_unique {w buckets : Nat} {P : List Nat} (hP : P.Pairwise (· ≤ ·))
    (hb : ∀ p ∈ P, p >>> w < buckets) (B : List Bool) (hlen : B.length = P.length + buckets)
    (h : ∀ q, B[q]? = some true ↔ ∃ i, ∃ (hi : i < P.length), q = P[i] >>> w + i) :
    B = highBits w buckets P := by
  apply List.ext_getElem?
  intro q
  have hl := highBits_length hP hb
  have ht := highBits_true_iff hP hb q
  have hB := h q
  by_cases hq : q < B.length
  · have hq' : q < (highBits w buckets P).length := by omega
    rw [List.getElem?_eq_getElem hq] at hB ⊢
    rw [List.getElem?_eq_getElem hq'] at ht ⊢
    rw [← ht] at hB
    cases h1 : B[q] <;> cases h2 : (highBits w buckets P)[q] <;> simp [h1, h2] at hB ⊢
  · rw [List.getElem?_eq_none (by omega), List.getElem?_eq_none (by omega)]

/-! ### arithmetic of the split -/

theorem split_eq (w p : Nat) : (p >>> w) * 2 ^ w + p % 2 ^ w = p := by
  rw [Nat.shiftRight_eq_div_pow]; exact Nat.div_add_mod' p (2 ^ w)

theorem lt_of_shr_lt {w a b : Nat} (h : a >>> w < b >>> w) : a < b := by
  rw [Nat.shiftRight_eq_div_pow, Nat.shiftRight_eq_div_pow] at h
  exact Nat.lt_of_div_lt_div h

theorem lt_iff_of_shr_eq {w a b : Nat} (h : a >>> w = b >>> w) : a < b ↔ a % 2 ^ w < b % 2 ^ w := by
  have ha := split_eq w a
  have hb := split_eq w b
  rw [h] at ha
  generalize (b >>> w) * 2 ^ w = t at ha hb
  omega

theorem eq_iff_of_shr_eq {w a b : Nat} (h : a >>> w = b >>> w) : a = b ↔ a % 2 ^ w = b % 2 ^ w := by
  have ha := split_eq w a
  have hb := split_eq w b
  rw [h] at ha
  generalize (b >>> w) * 2 ^ w = t at ha hb
  omega

/-- every value below the universe size falls into one of the `getBuckets` buckets -/
theorem shr_lt_getBuckets {n w p : Nat} (hw : w ≤ 63) (hp : p < n) : p >>> w < Sparse.getBuckets n w := by
  unfold Sparse.getBuckets
  have hw' : w < 64 := by omega
  simp only [if_pos hw', Nat.shiftRight_eq_div_pow]
  have hd : 0 < 2 ^ w := Nat.two_pow_pos w
  by_cases hm : n % 2 ^ w = 0
  · simp only [hm, ne_eq, not_true_eq_false, if_false]
    rw [Nat.div_lt_iff_lt_mul hd]
    have := Nat.div_add_mod' n (2 ^ w)
    omega
  · simp only [hm, ne_eq, not_false_eq_true, if_true]
    have := Nat.div_le_div_right (c := 2 ^ w) (Nat.le_of_lt hp)
    omega

theorem getBuckets_le {n w : Nat} (hw1 : 1 ≤ w) (hn : n < 2 ^ 64) : Sparse.getBuckets n w ≤ 2 ^ 63 := by
  unfold Sparse.getBuckets
  have h2 : 2 ^ 1 ≤ 2 ^ w := Nat.pow_le_pow_right (by decide) hw1
  have h1 : n >>> w ≤ n / 2 := by
    rw [Nat.shiftRight_eq_div_pow]
    exact Nat.div_le_div_left h2 (by decide)
  have h3 : (if w < 64 then n >>> w else 0) ≤ n / 2 := by split <;> omega
  show (if n % 2 ^ w ≠ 0 then (if w < 64 then n >>> w else 0) + 1 else (if w < 64 then n >>> w else 0)) ≤ 2 ^ 63
  split <;> omega

/-! ### the encoding relation -/

/-- number of values whose high part is at most / below `h` -/
def cntLe (w : Nat) (P : List Nat) (h : Nat) : Nat := (P.filter (fun p => p >>> w ≤ h)).length
def cntLt (w : Nat) (P : List Nat) (h : Nat) : Nat := (P.filter (fun p => p >>> w < h)).length

/-- `s` is the Elias–Fano encoding of the sorted list `P` (universe `n`, low width `w`).  The concrete
bitvector `high` enters only through the last four fields: its `len`, `get`, `select` and `select_zero`
agree with the bit list `highBits w (getBuckets n w) P`. -/
structure Sparse.Encodes (s : Sparse) (n w : Nat) (P : List Nat) : Prop where
  len_eq : s.len = n
  w_pos : 1 ≤ w
  w_lt : w ≤ 63
  n_lt : n < 2 ^ 64
  width_eq : s.low.width = w
  low_len : s.low.len = P.length
  low_val : ∀ i (h : i < P.length), (s.low.getRaw i).toNat = P[i] % 2 ^ w
  sorted : sortedLe P = true
  bound : ∀ p ∈ P, p < n
  m_lt : P.length < 2 ^ 63
  high_len : s.high.len = P.length + Sparse.getBuckets n w
  high_get : ∀ i, i < s.high.len →
    s.high.get i = .ok ((highBits w (Sparse.getBuckets n w) P)[i]?.getD false)
  high_sel : ∀ m r, s.high.selectQ m r = .ok (selectSpec (highBits w (Sparse.getBuckets n w) P) r)
  high_selz : ∀ m r, s.high.selectZeroQ m r = .ok (selectZeroSpec (highBits w (Sparse.getBuckets n w) P) r)

theorem cntLe_le (w : Nat) (P : List Nat) (h : Nat) : cntLe w P h ≤ P.length := List.length_filter_le _ _
theorem cntLt_le (w : Nat) (P : List Nat) (h : Nat) : cntLt w P h ≤ P.length := List.length_filter_le _ _

theorem cntLt_succ (w : Nat) (P : List Nat) (h : Nat) : cntLt w P (h + 1) = cntLe w P h := by
  unfold cntLt cntLe
  congr 2
  funext p
  simp [Nat.lt_succ_iff]

theorem cntLt_zero (w : Nat) (P : List Nat) : cntLt w P 0 = 0 := by
  unfold cntLt; simp

theorem lt_cntLe_iff {w : Nat} {P : List Nat} (hP : P.Pairwise (· ≤ ·)) (h j : Nat) (hj : j < P.length) :
    j < cntLe w P h ↔ P[j] >>> w ≤ h := by
  have := lt_filter_length_iff hP (fun p => decide (p >>> w ≤ h))
    (by intro a b hab hb; have := shr_mono w hab; simp at hb ⊢; omega) j hj
  simpa [cntLe] using this

theorem lt_cntLt_iff {w : Nat} {P : List Nat} (hP : P.Pairwise (· ≤ ·)) (h j : Nat) (hj : j < P.length) :
    j < cntLt w P h ↔ P[j] >>> w < h := by
  have := lt_filter_length_iff hP (fun p => decide (p >>> w < h))
    (by intro a b hab hb; have := shr_mono w hab; simp at hb ⊢; omega) j hj
  simpa [cntLt] using this

theorem cntLt_le_cntLe {w : Nat} {P : List Nat} (hP : P.Pairwise (· ≤ ·)) (h : Nat) :
    cntLt w P h ≤ cntLe w P h := by
  cases h with
  | zero => rw [cntLt_zero]; exact Nat.zero_le _
  | succ h =>
    rw [cntLt_succ]
    apply Nat.le_of_not_lt
    intro hlt
    have hj : cntLe w P (h + 1) < P.length := by have := cntLe_le w P h; omega
    have h1 := (lt_cntLe_iff hP h _ hj).mp hlt
    have h2 := (lt_cntLe_iff (w := w) hP (h + 1) _ hj).mpr (by omega)
    omega

/-- below width 64 `combine` subtracts, shifts and adds (at width ≥ 64 the code skips the subtraction and the high
part is 0) -/
theorem Sparse.combine_of_lt {m : Mode} {s : Sparse} {p : Pos} (h : s.width < 64) :
    s.combine m p = (do
      let d ← subM m p.high p.low
      let l ← s.low.get p.low
      let v ← addM m ((d <<< s.width) % U64) l.toNat
      return (p.low, v)) := by
  unfold Sparse.combine
  rw [if_pos h]
  cases subM m p.high p.low <;> rfl

/-- at width ≥ 64 `combine` does not look at `p.high` -/
theorem Sparse.combine_of_ge {m : Mode} {s : Sparse} {p : Pos} (h : ¬ s.width < 64) :
    s.combine m p = (do
      let l ← s.low.get p.low
      let v ← addM m 0 l.toNat
      return (p.low, v)) := by
  unfold Sparse.combine
  rw [if_neg h]
  rfl

namespace Sparse.Encodes
variable {s : Sparse} {n w : Nat} {P : List Nat}

theorem pw (hs : s.Encodes n w P) : P.Pairwise (· ≤ ·) := sortedLe_pairwise P hs.sorted

theorem hb (hs : s.Encodes n w P) : ∀ p ∈ P, p >>> w < Sparse.getBuckets n w :=
  fun p hp => shr_lt_getBuckets hs.w_lt (hs.bound p hp)

theorem mono (hs : s.Encodes n w P) (i j : Nat) (hij : i ≤ j) (hj : j < P.length) :
    P[i]'(by omega) ≤ P[j] := pairwise_le_getElem hs.pw i j hij hj

theorem H_len (hs : s.Encodes n w P) :
    (highBits w (Sparse.getBuckets n w) P).length = P.length + Sparse.getBuckets n w :=
  highBits_length hs.pw hs.hb

theorem high_lt (hs : s.Encodes n w P) : s.high.len < U64 := by
  have := getBuckets_le hs.w_pos hs.n_lt
  have := hs.m_lt
  rw [hs.high_len, U64_eq]; omega

theorem pos_lt (hs : s.Encodes n w P) (i : Nat) (hi : i < P.length) : P[i] >>> w + i < s.high.len := by
  have := hs.hb P[i] (List.getElem_mem hi)
  rw [hs.high_len]; omega

theorem zpos_lt (hs : s.Encodes n w P) (h : Nat) (hh : h < Sparse.getBuckets n w) :
    h + cntLe w P h < s.high.len := by
  have := cntLe_le w P h
  rw [hs.high_len]; omega

theorem get_one (hs : s.Encodes n w P) (i : Nat) (hi : i < P.length) :
    s.high.get (P[i] >>> w + i) = ok true := by
  rw [hs.high_get _ (hs.pos_lt i hi), (highBits_true_iff hs.pw hs.hb _).mpr ⟨i, hi, rfl⟩]; rfl

theorem get_zero (hs : s.Encodes n w P) (h : Nat) (hh : h < Sparse.getBuckets n w) :
    s.high.get (h + cntLe w P h) = ok false := by
  rw [hs.high_get _ (hs.zpos_lt h hh)]
  have := highBits_zero_pos hs.pw hs.hb h hh
  unfold cntLe; rw [this]; rfl

theorem get_not_one (hs : s.Encodes n w P) (q : Nat) (hq : q < s.high.len)
    (hne : ∀ i (hi : i < P.length), q ≠ P[i] >>> w + i) : s.high.get q = ok false := by
  rw [hs.high_get _ hq]
  congr 1
  cases hb : (highBits w (Sparse.getBuckets n w) P)[q]? with
  | none => rfl
  | some b =>
    cases b with
    | false => rfl
    | true =>
      obtain ⟨i, hi, e⟩ := (highBits_true_iff hs.pw hs.hb q).mp hb
      exact absurd e (hne i hi)

theorem low_get (hs : s.Encodes n w P) (i : Nat) (hi : i < P.length) : s.low.get i = ok (s.low.getRaw i) := by
  unfold IntVec.get; rw [hs.low_len, if_pos hi]

/-- the positions of the ones are strictly increasing -/
theorem pos_strict (hs : s.Encodes n w P) (i j : Nat) (hij : i < j) (hj : j < P.length) :
    P[i]'(by omega) >>> w + i < P[j] >>> w + j := by
  have := shr_mono w (hs.mono i j (by omega) hj)
  omega

/-- `combine` at the position of the `i`-th one reassembles `P[i]`, without overflow in either mode -/
theorem combine_ok (hs : s.Encodes n w P) (m : Mode) (i : Nat) (hi : i < P.length) :
    s.combine m ⟨P[i] >>> w + i, i⟩ = ok (i, P[i]) := by
  rw [Sparse.combine_of_lt (by have := hs.width_eq; have := hs.w_lt; unfold Sparse.width; omega)]
  unfold Sparse.width
  have hsub : subM m (P[i] >>> w + i) i = ok (P[i] >>> w) := by
    rw [subM_ok (Nat.le_add_left _ _), Nat.add_sub_cancel]
  have hsp := split_eq w P[i]
  have hlt : P[i] < U64 := by
    have := hs.bound P[i] (List.getElem_mem hi)
    have := hs.n_lt
    rw [U64_eq]; omega
  have hshl : (P[i] >>> w) <<< w = (P[i] >>> w) * 2 ^ w := Nat.shiftLeft_eq _ _
  have hmod : ((P[i] >>> w) <<< w) % U64 = (P[i] >>> w) * 2 ^ w := by
    rw [hshl]; apply Nat.mod_eq_of_lt; omega
  simp only [hsub, bind_ok, hs.low_get i hi, hs.width_eq, hmod, hs.low_val i hi]
  rw [addM_ok (by omega), hsp]; rfl

end Sparse.Encodes

/-! ### select -/

theorem pos_ok {s : Sparse} {n w : Nat} {P : List Nat} (hs : s.Encodes n w P) (m : Mode) (r : Nat)
    (hr : r < P.length) : s.pos m r = ok ⟨P[r] >>> w + r, r⟩ := by
  unfold Sparse.pos
  rw [hs.high_sel, highBits_select hs.pw hs.hb r hr]; rfl

/-- `select` returns `P[r]?` for every `r`, in both modes -/
theorem select_ok {s : Sparse} {n w : Nat} {P : List Nat} (hs : s.Encodes n w P) (m : Mode) (r : Nat) :
    s.select m r = .ok (selectSet P r) := by
  unfold Sparse.select Sparse.countOnes selectSet
  rw [hs.low_len]
  by_cases hr : r ≥ P.length
  · rw [if_pos hr, List.getElem?_eq_none hr]
  · have hr' : r < P.length := by omega
    rw [if_neg hr, pos_ok hs m r hr']
    simp only [bind_ok, hs.combine_ok m r hr', pure_eq, List.getElem?_eq_getElem hr']

/-! ### bucket bounds -/

theorem selz_cntLe {s : Sparse} {n w : Nat} {P : List Nat} (hs : s.Encodes n w P) (h : Nat)
    (hh : h < Sparse.getBuckets n w) :
    selectZeroSpec (highBits w (Sparse.getBuckets n w) P) h = some (h + cntLe w P h) :=
  highBits_selectZero hs.pw hs.hb h hh

theorem upperBound_ok {s : Sparse} {n w : Nat} {P : List Nat} (hs : s.Encodes n w P) (m : Mode) (hp : Nat)
    (hhp : hp < Sparse.getBuckets n w) :
    s.upperBound m hp = ok ⟨hp + cntLe w P hp, cntLe w P hp⟩ := by
  unfold Sparse.upperBound
  rw [hs.high_selz, selz_cntLe hs hp hhp]
  simp only [bind_ok, unwrapM]
  rw [subM_ok (Nat.le_add_right _ _), Nat.add_sub_cancel_left]
  rfl

theorem lowerBound_ok {s : Sparse} {n w : Nat} {P : List Nat} (hs : s.Encodes n w P) (m : Mode) (hp : Nat)
    (hhp : hp < Sparse.getBuckets n w) :
    s.lowerBound m hp = ok ⟨hp + cntLt w P hp, cntLt w P hp⟩ := by
  unfold Sparse.lowerBound
  cases hp with
  | zero => simp [cntLt_zero]
  | succ h =>
    have hh : h < Sparse.getBuckets n w := by omega
    have hz := hs.zpos_lt h hh
    have hl := hs.high_lt
    rw [if_neg (by omega), Nat.add_sub_cancel, hs.high_selz, selz_cntLe hs h hh, cntLt_succ]
    simp only [bind_ok, unwrapM]
    rw [addM_ok (by omega)]
    simp only [bind_ok]
    rw [subM_ok (by omega)]
    simp only [bind_ok, pure_eq]
    congr 2 <;> omega

/-! ### the backward bucket scan -/

theorem eq_pred_succ_of_lt {a b : Nat} (h : a < b) : b = b - 1 + 1 := by omega

/-- the skip test of `backLoop` -/
def backT (strict : Bool) (L l : Nat) : Prop := if strict = true then l > L else l ≥ L

instance (strict : Bool) (L l : Nat) : Decidable (backT strict L l) := by unfold backT; exact inferInstance

theorem backLoop_one {s : Sparse} {n w : Nat} {P : List Nat} (hs : s.Encodes n w P) (L : Nat) (strict : Bool)
    (fuel j : Nat) (hj : j < P.length) :
    Sparse.backLoop s L strict (fuel + 1) ⟨P[j] >>> w + j, j⟩ =
      if backT strict L (P[j] % 2 ^ w) then
        (if j = 0 then ok none else Sparse.backLoop s L strict fuel ⟨P[j] >>> w + j - 1, j - 1⟩)
      else ok (some ⟨P[j] >>> w + j, j⟩) := by
  rw [Sparse.backLoop]
  simp only [hs.get_one j hj, bind_ok, hs.low_get j hj, hs.low_val j hj, if_true]
  cases strict <;> simp [backT]

theorem backLoop_zero {s : Sparse} (L : Nat) (strict : Bool) (fuel q j : Nat)
    (h : s.high.get q = ok false) : Sparse.backLoop s L strict (fuel + 1) ⟨q, j⟩ = ok (some ⟨q, j⟩) := by
  rw [Sparse.backLoop]
  simp only [h, bind_ok]
  rfl

/-- The backward scan started inside (or just below) bucket `hp` at index `j`: it stops at the largest
index `k ≤ j` of the bucket whose low part fails the skip test, or at the index just below the bucket, or runs
off the front of the vector. -/
theorem backLoop_spec {s : Sparse} {n w : Nat} {P : List Nat} (hs : s.Encodes n w P) (L : Nat) (strict : Bool)
    (hp : Nat) (hhp : hp < Sparse.getBuckets n w) :
    ∀ (fuel j : Nat), j < cntLe w P hp → cntLt w P hp ≤ j + 1 → j + 2 ≤ fuel + cntLt w P hp →
    (Sparse.backLoop s L strict fuel ⟨hp + j, j⟩ = ok none ∧ cntLt w P hp = 0 ∧
        ∀ j' (hj' : j' < P.length), j' ≤ j → backT strict L (P[j'] % 2 ^ w)) ∨
    (∃ k, Sparse.backLoop s L strict fuel ⟨hp + j, j⟩ = ok (some ⟨hp + k, k⟩) ∧ k ≤ j ∧ cntLt w P hp ≤ k + 1 ∧
        (∀ j' (hj' : j' < P.length), k < j' → j' ≤ j → backT strict L (P[j'] % 2 ^ w)) ∧
        (cntLt w P hp ≤ k → ∀ (hk : k < P.length), ¬ backT strict L (P[k] % 2 ^ w))) := by
  intro fuel
  induction fuel with
  | zero => intro j h1 h2 h3; omega
  | succ fuel ih =>
    intro j h1 h2 h3
    have hc := cntLe_le w P hp
    have hjP : j < P.length := by omega
    by_cases ha : cntLt w P hp ≤ j
    · -- inside the bucket
      have hhi : P[j] >>> w = hp := by
        have a1 := (lt_cntLe_iff hs.pw hp j hjP).mp h1
        have a2 : ¬ (P[j] >>> w < hp) := fun h => by
          have := (lt_cntLt_iff (w := w) hs.pw hp j hjP).mpr h; omega
        omega
      have hstep := backLoop_one hs L strict fuel j hjP
      rw [hhi] at hstep
      by_cases hT : backT strict L (P[j] % 2 ^ w)
      · rw [if_pos hT] at hstep
        by_cases hj0 : j = 0
        · left
          rw [if_pos hj0] at hstep
          refine ⟨hstep, by omega, ?_⟩
          intro j' hj' hle
          have : j' = j := by omega
          subst this; exact hT
        · rw [if_neg hj0] at hstep
          have e : hp + j - 1 = hp + (j - 1) := by omega
          rw [e] at hstep
          rcases ih (j - 1) (by omega) (by omega) (by omega) with ⟨h4, h5, h6⟩ | ⟨k, h4, h5, h6, h7, h8⟩
          · left
            refine ⟨by rw [hstep, h4], h5, ?_⟩
            intro j' hj' hle
            by_cases e' : j' = j
            · subst e'; exact hT
            · exact h6 j' hj' (by omega)
          · right
            refine ⟨k, by rw [hstep, h4], by omega, h6, ?_, h8⟩
            intro j' hj' hlt hle
            by_cases e' : j' = j
            · subst e'; exact hT
            · exact h7 j' hj' hlt (by omega)
      · rw [if_neg hT] at hstep
        right
        refine ⟨j, hstep, Nat.le_refl _, by omega, ?_, fun _ _ => hT⟩
        intro j' hj' hlt hle; omega
    · -- just below the bucket: the zero closing bucket `hp - 1`
      have hja : j + 1 = cntLt w P hp := by omega
      have hlt : P[j] >>> w < hp := (lt_cntLt_iff hs.pw hp j hjP).mp (by omega)
      obtain ⟨h', rfl⟩ : ∃ h', hp = h' + 1 := ⟨hp - 1, eq_pred_succ_of_lt hlt⟩
      rw [cntLt_succ] at hja
      have hz := hs.get_zero h' (by omega)
      rw [← hja] at hz
      have e : h' + (j + 1) = h' + 1 + j := by omega
      rw [e] at hz
      right
      refine ⟨j, backLoop_zero L strict fuel _ j hz, Nat.le_refl _, by omega, ?_, ?_⟩
      · intro j' hj' hlt hle; omega
      · intro h; omega

/-! ### rank -/

theorem backT_false (L l : Nat) : backT false L l ↔ l ≥ L := by simp [backT]
theorem backT_true (L l : Nat) : backT true L l ↔ l > L := by simp [backT]

theorem hi_eq_of_mem_bucket {s : Sparse} {n w : Nat} {P : List Nat} (hs : s.Encodes n w P) (hp j : Nat)
    (hj : j < P.length) (h1 : cntLt w P hp ≤ j) (h2 : j < cntLe w P hp) : P[j] >>> w = hp := by
  have a1 := (lt_cntLe_iff hs.pw hp j hj).mp h2
  have a2 : ¬ (P[j] >>> w < hp) := fun h => by
    have := (lt_cntLt_iff (w := w) hs.pw hp j hj).mpr h; omega
  omega

theorem hi_lt_of_lt_cntLt {s : Sparse} {n w : Nat} {P : List Nat} (hs : s.Encodes n w P) (hp j : Nat)
    (hj : j < P.length) (h1 : j < cntLt w P hp) : P[j] >>> w < hp :=
  (lt_cntLt_iff hs.pw hp j hj).mp h1

theorem hi_gt_of_ge_cntLe {s : Sparse} {n w : Nat} {P : List Nat} (hs : s.Encodes n w P) (hp j : Nat)
    (hj : j < P.length) (h1 : cntLe w P hp ≤ j) : hp < P[j] >>> w := by
  apply Nat.lt_of_not_le
  intro h
  have := (lt_cntLe_iff hs.pw hp j hj).mpr h
  omega

/-- `rankSet` of a sorted list from the two entries around the cut -/
theorem rankSet_eq {P : List Nat} (hP : P.Pairwise (· ≤ ·)) (i k : Nat) (hk : k ≤ P.length)
    (h1 : ∀ (h : 0 < k), P[k - 1]'(by omega) < i) (h2 : ∀ (h : k < P.length), i ≤ P[k]) :
    rankSet P i = k := by
  unfold rankSet
  apply filter_length_sorted hP _ _ k hk
  · intro h; simpa using h1 h
  · intro h; simpa using h2 h
  · intro a b hab hb; simp at hb ⊢; omega

theorem rankSet_of_ge {s : Sparse} {n w : Nat} {P : List Nat} (hs : s.Encodes n w P) (i : Nat) (hi : n ≤ i) :
    rankSet P i = P.length := by
  apply rankSet_eq hs.pw i P.length (Nat.le_refl _)
  · intro h
    have := hs.bound _ (List.getElem_mem (show P.length - 1 < P.length by omega))
    omega
  · intro h; omega

/-- `rank` returns the number of values below `i` for every `i` (set or multiset), in both modes -/
theorem rank_ok {s : Sparse} {n w : Nat} {P : List Nat} (hs : s.Encodes n w P) (m : Mode) (i : Nat) :
    s.rank m i = .ok (rankSet P i) := by
  unfold Sparse.rank Sparse.countOnes Sparse.split Sparse.width
  rw [hs.len_eq, hs.low_len, hs.width_eq]
  by_cases hi : i ≥ n
  · rw [if_pos hi, rankSet_of_ge hs i hi]
  · rw [if_neg hi]
    have hhp : i >>> w < Sparse.getBuckets n w := shr_lt_getBuckets hs.w_lt (by omega)
    simp only [upperBound_ok hs m _ hhp, bind_ok]
    have hcP := cntLe_le w P (i >>> w)
    have hac := cntLt_le_cntLe (w := w) hs.pw (i >>> w)
    by_cases hc : cntLe w P (i >>> w) = 0
    · rw [if_pos hc]
      simp only [pure_eq]
      rw [rankSet_eq hs.pw i 0 (Nat.zero_le _) (by intro h; omega)]
      intro h
      have := hi_gt_of_ge_cntLe hs (i >>> w) 0 h (by omega)
      exact Nat.le_of_lt (lt_of_shr_lt this)
    · rw [if_neg hc]
      have e : i >>> w + cntLe w P (i >>> w) - 1 = i >>> w + (cntLe w P (i >>> w) - 1) :=
        Nat.add_sub_assoc (by omega) _
      rw [e]
      rcases backLoop_spec hs (i % 2 ^ w) false (i >>> w) hhp (s.high.len + 1) (cntLe w P (i >>> w) - 1)
        (by omega) (by omega) (by rw [hs.high_len]; omega) with ⟨h4, h5, h6⟩ | ⟨k, h4, h5, h6, h7, h8⟩
      · rw [h4]
        simp only [bind_ok, pure_eq]
        rw [rankSet_eq hs.pw i 0 (Nat.zero_le _) (by intro h; omega)]
        intro h
        have h0 := (backT_false _ _).mp (h6 0 h (Nat.zero_le _))
        have hh := hi_eq_of_mem_bucket hs (i >>> w) 0 h (by omega) (by omega)
        have := lt_iff_of_shr_eq hh
        omega
      · rw [h4]
        simp only [bind_ok, pure_eq]
        rw [rankSet_eq hs.pw i (k + 1) (by omega)]
        · intro _
          have hk : k < P.length := by omega
          show P[k] < i
          by_cases hak : cntLt w P (i >>> w) ≤ k
          · have hh := hi_eq_of_mem_bucket hs (i >>> w) k hk hak (by omega)
            have := h8 hak hk
            rw [backT_false] at this
            exact (lt_iff_of_shr_eq hh).mpr (by omega)
          · exact lt_of_shr_lt (hi_lt_of_lt_cntLt hs (i >>> w) k hk (by omega))
        · intro hk1
          by_cases hkj : k + 1 ≤ cntLe w P (i >>> w) - 1
          · have hh := hi_eq_of_mem_bucket hs (i >>> w) (k + 1) hk1 (by omega) (by omega)
            have := (backT_false _ _).mp (h7 (k + 1) hk1 (by omega) hkj)
            have := lt_iff_of_shr_eq hh
            omega
          · have := hi_gt_of_ge_cntLe hs (i >>> w) (k + 1) hk1 (by omega)
            exact Nat.le_of_lt (lt_of_shr_lt this)

/-! ### get -/

theorem contains_false_of_split (P : List Nat) (i k : Nat)
    (h1 : ∀ j' (hj' : j' < P.length), j' < k → P[j'] < i)
    (h2 : ∀ j' (hj' : j' < P.length), k ≤ j' → i < P[j']) : P.contains i = false := by
  cases h : P.contains i with
  | false => rfl
  | true =>
    have hm : i ∈ P := by simpa using h
    obtain ⟨j, hj, e⟩ := List.mem_iff_getElem.mp hm
    by_cases hjk : j < k
    · have := h1 j hj hjk; omega
    · have := h2 j hj (by omega); omega

theorem contains_true_of_getElem (P : List Nat) (i j : Nat) (hj : j < P.length) (e : P[j] = i) :
    P.contains i = true := by
  have : i ∈ P := e ▸ List.getElem_mem hj
  simpa using this

/-- the forward scan of `get` inside bucket `i >>> w`, started at index `j` with everything before `j` below `i` -/
theorem getLoop_spec {s : Sparse} {n w : Nat} {P : List Nat} (hs : s.Encodes n w P) (i : Nat) (hi : i < n) :
    ∀ (fuel j : Nat), cntLt w P (i >>> w) ≤ j → j ≤ cntLe w P (i >>> w) →
      cntLe w P (i >>> w) + 1 ≤ fuel + j → (∀ j' (hj' : j' < P.length), j' < j → P[j'] < i) →
      Sparse.getLoop s (i % 2 ^ w) fuel ⟨i >>> w + j, j⟩ = ok (P.contains i) := by
  have hhp : i >>> w < Sparse.getBuckets n w := shr_lt_getBuckets hs.w_lt hi
  have hcP := cntLe_le w P (i >>> w)
  intro fuel
  induction fuel with
  | zero => intro j h1 h2 h3; omega
  | succ fuel ih =>
    intro j h1 h2 h3 hinv
    rw [Sparse.getLoop]
    by_cases hjc : j = cntLe w P (i >>> w)
    · -- the closing zero
      subst hjc
      rw [if_pos (hs.zpos_lt _ hhp)]
      simp only [hs.get_zero _ hhp, bind_ok, pure_eq]
      rw [contains_false_of_split P i _ hinv]
      · rfl
      · intro j' hj' hle
        exact lt_of_shr_lt (hi_gt_of_ge_cntLe hs (i >>> w) j' hj' hle)
    · have hjP : j < P.length := by omega
      have hh := hi_eq_of_mem_bucket hs (i >>> w) j hjP h1 (by omega)
      have hpl := hs.pos_lt j hjP
      rw [hh] at hpl
      have hg := hs.get_one j hjP
      rw [hh] at hg
      rw [if_pos hpl]
      simp only [hg, bind_ok, if_true, hs.low_get j hjP, hs.low_val j hjP]
      by_cases hge : P[j] % 2 ^ w ≥ i % 2 ^ w
      · rw [if_pos hge]
        simp only [pure_eq]
        congr 1
        by_cases heq : P[j] % 2 ^ w = i % 2 ^ w
        · rw [contains_true_of_getElem P i j hjP ((eq_iff_of_shr_eq hh).mpr heq)]
          simpa using heq
        · rw [contains_false_of_split P i j hinv]
          · simpa using heq
          · intro j' hj' hle
            have := hs.mono j j' hle hj'
            have := lt_iff_of_shr_eq hh
            have := eq_iff_of_shr_eq hh
            omega
      · rw [if_neg hge]
        apply ih (j + 1) (by omega) (by omega) (by omega)
        intro j' hj' hlt
        by_cases e : j' = j
        · subst e; exact (lt_iff_of_shr_eq hh).mpr (by omega)
        · exact hinv j' hj' (by omega)

/-- `get` is membership, for every index below the universe size, in both modes -/
theorem get_ok {s : Sparse} {n w : Nat} {P : List Nat} (hs : s.Encodes n w P) (m : Mode) (i : Nat)
    (hi : i < n) : s.get m i = .ok (getSet P i) := by
  unfold Sparse.get Sparse.split Sparse.width getSet
  rw [hs.width_eq]
  have hhp : i >>> w < Sparse.getBuckets n w := shr_lt_getBuckets hs.w_lt hi
  simp only [lowerBound_ok hs m _ hhp, bind_ok]
  have hcP := cntLe_le w P (i >>> w)
  have hac := cntLt_le_cntLe (w := w) hs.pw (i >>> w)
  apply getLoop_spec hs i hi _ _ (Nat.le_refl _) hac (by rw [hs.high_len]; omega)
  intro j' hj' hlt
  exact lt_of_shr_lt (hi_lt_of_lt_cntLt hs (i >>> w) j' hj' hlt)

/-! ### rank_zero -/

/-- in every mode and for every list (set or multiset) `rank_zero` is the mode's subtraction `i - rank i` -/
theorem rankZero_eq {s : Sparse} {n w : Nat} {P : List Nat} (hs : s.Encodes n w P) (m : Mode) (i : Nat) :
    s.rankZero m i = subM m i (rankSet P i) := by
  unfold Sparse.rankZero
  rw [rank_ok hs m i]; rfl

/-- a strictly increasing list has at most `i` values below `i` -/
theorem rankSet_le_of_strict {P : List Nat} (hP : sortedStrict P = true) (i : Nat) : rankSet P i ≤ i := by
  have hst := sortedStrict_pairwise P hP
  have hle : P.Pairwise (· ≤ ·) := hst.imp (fun h => Nat.le_of_lt h)
  apply Nat.le_of_not_lt
  intro hlt
  have hk := filter_length_le (fun p => decide (p < i)) P
  unfold rankSet at hlt
  have hj : (P.filter (fun p => decide (p < i))).length - 1 < P.length := by omega
  have h1 := (lt_filter_length_iff hle (fun p => decide (p < i))
    (by intro a b hab hb; simp at hb ⊢; omega) _ hj).mp (by omega)
  have h2 := strict_getElem_ge hst _ hj
  simp at h1
  omega

/-- set mode: `rank_zero` never underflows, for every index -/
theorem rankZero_ok {s : Sparse} {n w : Nat} {P : List Nat} (hs : s.Encodes n w P)
    (hstrict : sortedStrict P = true) (m : Mode) (i : Nat) :
    s.rankZero m i = .ok (i - rankSet P i) := by
  rw [rankZero_eq hs m i, subM_ok (rankSet_le_of_strict hstrict i)]

/-- multiset mode: when more than `i` values lie below `i`, `rank_zero` panics in checked builds … -/
theorem rankZero_multiset_checked {s : Sparse} {n w : Nat} {P : List Nat} (hs : s.Encodes n w P) (i : Nat)
    (h : i < rankSet P i) : s.rankZero .checked i = .fault (.panic .overflow) := by
  rw [rankZero_eq hs .checked i]
  unfold subM
  rw [if_neg (by omega)]

/-- … and wraps around in release builds -/
theorem rankZero_multiset_wrapping {s : Sparse} {n w : Nat} {P : List Nat} (hs : s.Encodes n w P) (i : Nat)
    (h : i < rankSet P i) : s.rankZero .wrapping i = .ok ((i + U64 - rankSet P i) % U64) := by
  rw [rankZero_eq hs .wrapping i]
  unfold subM
  rw [if_neg (by omega)]

/-! ### the iterator over the values -/

/-- the iterator state produced by `select_iter r` (the empty iterator for `r ≥ |P|`) -/
def Sparse.iterAt (s : Sparse) (w : Nat) (P : List Nat) (r : Nat) : SpOneIter :=
  if h : r < P.length then ⟨⟨P[r] >>> w + r, r⟩, ⟨s.high.len, s.low.len⟩⟩ else SpOneIter.emptyIter s

/-- `it` is an iterator state whose next item is number `r`: the `high` cursor is past the one of item `r - 1`
and not past the one of item `r` -/
structure IterAt (s : Sparse) (w : Nat) (P : List Nat) (r : Nat) (it : SpOneIter) : Prop where
  limit_eq : it.limit = ⟨s.high.len, s.low.len⟩
  low_eq : it.next.low = r
  r_le : r ≤ P.length
  high_le : ∀ (hr : r < P.length), it.next.high ≤ P[r] >>> w + r
  high_gt : ∀ (h0 : 0 < r), P[r - 1]'(by omega) >>> w + (r - 1) < it.next.high

theorem selectIter_ok {s : Sparse} {n w : Nat} {P : List Nat} (hs : s.Encodes n w P) (m : Mode) (r : Nat) :
    s.selectIter m r = ok (s.iterAt w P r) := by
  unfold Sparse.selectIter Sparse.countOnes Sparse.iterAt
  rw [hs.low_len]
  by_cases hr : r < P.length
  · rw [if_neg (by omega), dif_pos hr, pos_ok hs m r hr]; rfl
  · rw [if_pos (by omega), dif_neg hr]

theorem iterAt_IterAt {s : Sparse} {n w : Nat} {P : List Nat} (hs : s.Encodes n w P) (r : Nat) :
    IterAt s w P (min r P.length) (s.iterAt w P r) := by
  unfold Sparse.iterAt
  by_cases hr : r < P.length
  · rw [dif_pos hr]
    have e : min r P.length = r := by omega
    simp only [e]
    refine ⟨rfl, rfl, by omega, fun _ => Nat.le_refl _, ?_⟩
    intro h0
    exact hs.pos_strict (r - 1) r (by omega) hr
  · rw [dif_neg hr]
    have e : min r P.length = P.length := by omega
    simp only [e]
    refine ⟨rfl, hs.low_len, Nat.le_refl _, fun h => absurd h (by omega), ?_⟩
    intro h0
    exact hs.pos_lt (P.length - 1) (by omega)

theorem full_IterAt {s : Sparse} {n w : Nat} {P : List Nat} (hs : s.Encodes n w P) :
    IterAt s w P 0 (SpOneIter.full s) :=
  ⟨rfl, rfl, Nat.zero_le _, fun _ => Nat.zero_le _, fun h => absurd h (by omega)⟩

theorem empty_IterAt {s : Sparse} {n w : Nat} {P : List Nat} (hs : s.Encodes n w P) :
    IterAt s w P P.length (SpOneIter.emptyIter s) := by
  refine ⟨rfl, hs.low_len, Nat.le_refl _, fun h => absurd h (by omega), ?_⟩
  intro h0
  exact hs.pos_lt (P.length - 1) (by omega)

/-- forward skip over the zeros in front of the one of item `r` -/
theorem skipFwd_spec {s : Sparse} {n w : Nat} {P : List Nat} (hs : s.Encodes n w P) (r : Nat)
    (hr : r < P.length) :
    ∀ (fuel h : Nat), h ≤ P[r] >>> w + r →
      (∀ i (hi : i < P.length), P[i] >>> w + i < h ∨ P[r] >>> w + r ≤ P[i] >>> w + i) →
      P[r] >>> w + r + 1 ≤ fuel + h → SpOneIter.skipFwd s fuel h = ok (P[r] >>> w + r) := by
  intro fuel
  induction fuel with
  | zero => intro h h1 h2 h3; omega
  | succ fuel ih =>
    intro h h1 h2 h3
    rw [SpOneIter.skipFwd]
    by_cases e : h = P[r] >>> w + r
    · subst e
      simp only [hs.get_one r hr, bind_ok, if_true, pure_eq]
    · have hlt := hs.pos_lt r hr
      have hg := hs.get_not_one h (by omega) (by
        intro i hi heq
        have := h2 i hi
        omega)
      simp only [hg, bind_ok]
      apply ih (h + 1) (by omega) _ (by omega)
      intro i hi
      have := h2 i hi
      omega

/-- one step of the iterator: item `r` is `(r, P[r])`, and the state advances to item `r + 1` -/
theorem nextQ_ok {s : Sparse} {n w : Nat} {P : List Nat} (hs : s.Encodes n w P) (m : Mode) (r : Nat)
    (it : SpOneIter) (hit : IterAt s w P r it) (hr : r < P.length) :
    SpOneIter.nextQ m s it = ok (some (r, P[r]), { it with next := ⟨P[r] >>> w + r + 1, r + 1⟩ }) ∧
    IterAt s w P (r + 1) { it with next := ⟨P[r] >>> w + r + 1, r + 1⟩ } := by
  constructor
  · unfold SpOneIter.nextQ
    rw [hit.limit_eq, hit.low_eq]
    simp only [hs.low_len]
    rw [if_neg (by omega)]
    have hsk := skipFwd_spec hs r hr (s.high.len + 1) it.next.high (hit.high_le hr) (by
      intro i hi
      by_cases hir : i < r
      · left
        have h1 := hit.high_gt (by omega)
        by_cases e : i = r - 1
        · subst e; exact h1
        · have := hs.pos_strict i (r - 1) (by omega) (by omega)
          omega
      · right
        by_cases e : i = r
        · subst e; exact Nat.le_refl _
        · exact Nat.le_of_lt (hs.pos_strict r i (by omega) hi)) (by
      have := hs.pos_lt r hr
      omega)
    simp only [hsk, bind_ok, hs.combine_ok m r hr, pure_eq, hit.low_eq]
  · refine ⟨hit.limit_eq, rfl, by omega, ?_, ?_⟩
    · intro hr1
      have := hs.pos_strict r (r + 1) (by omega) hr1
      show P[r] >>> w + r + 1 ≤ _
      omega
    · intro _
      show P[r + 1 - 1] >>> w + (r + 1 - 1) < P[r] >>> w + r + 1
      simp only [Nat.add_sub_cancel]
      omega

/-- the exhausted iterator -/
theorem nextQ_none {s : Sparse} {n w : Nat} {P : List Nat} (hs : s.Encodes n w P) (m : Mode)
    (it : SpOneIter) (hit : IterAt s w P P.length it) : SpOneIter.nextQ m s it = ok (none, it) := by
  unfold SpOneIter.nextQ
  rw [hit.limit_eq, hit.low_eq]
  simp only [hs.low_len]
  rw [if_pos (Nat.le_refl _)]

theorem remaining_eq {s : Sparse} {n w : Nat} {P : List Nat} (hs : s.Encodes n w P) (r : Nat)
    (it : SpOneIter) (hit : IterAt s w P r it) : it.remaining = P.length - r := by
  unfold SpOneIter.remaining
  rw [hit.limit_eq, hit.low_eq]
  simp only [hs.low_len]

/-- the first item of the iterator returned by `select_iter r` is `(r, P[r])` -/
theorem nextQ_iterAt {s : Sparse} {n w : Nat} {P : List Nat} (hs : s.Encodes n w P) (m : Mode) (r : Nat)
    (hr : r < P.length) :
    SpOneIter.nextQ m s (s.iterAt w P r) =
      ok (some (r, P[r]), { s.iterAt w P r with next := ⟨P[r] >>> w + r + 1, r + 1⟩ }) := by
  have h := iterAt_IterAt hs r
  have e : min r P.length = r := by omega
  rw [e] at h
  exact (nextQ_ok hs m r _ h hr).1

/-! ### predecessor -/

theorem filter_eq_take {P : List Nat} (hP : P.Pairwise (· ≤ ·)) (f : Nat → Bool)
    (hf : ∀ a b, a ≤ b → f b = true → f a = true) : P.filter f = P.take (P.filter f).length := by
  induction P with
  | nil => rfl
  | cons p ps ih =>
    have hP' := List.pairwise_cons.mp hP
    cases hfp : f p with
    | true =>
      rw [List.filter_cons_of_pos hfp, List.length_cons, List.take_succ_cons, ← ih hP'.2]
    | false =>
      have hall : ∀ q ∈ p :: ps, ¬ (f q = true) := by
        intro q hq hfq
        rcases List.mem_cons.mp hq with rfl | hq
        · rw [hfp] at hfq; exact absurd hfq (by simp)
        · have := hf p q (hP'.1 q hq) hfq
          rw [hfp] at this; exact absurd this (by simp)
      rw [List.filter_eq_nil_iff.mpr hall]; rfl

theorem cntLeVal_eq {P : List Nat} (hP : P.Pairwise (· ≤ ·)) (x k : Nat) (hk : k ≤ P.length)
    (h1 : ∀ (h : 0 < k), P[k - 1]'(by omega) ≤ x) (h2 : ∀ (h : k < P.length), x < P[k]) :
    (P.filter (· ≤ x)).length = k := by
  apply filter_length_sorted hP _ _ k hk
  · intro h; simpa using h1 h
  · intro h; simpa using h2 h
  · intro a b hab hb; simp at hb ⊢; omega

theorem predSet_none {P : List Nat} (x : Nat) (h : (P.filter (· ≤ x)).length = 0) : predSet P x = none := by
  have e : P.filter (· ≤ x) = [] := List.eq_nil_of_length_eq_zero h
  unfold predSet
  simp only [e, List.getLast?_nil]

theorem predSet_some {P : List Nat} (hP : P.Pairwise (· ≤ ·)) (x k : Nat) (hk : k < P.length)
    (h : (P.filter (· ≤ x)).length = k + 1) : predSet P x = some (k, P[k]) := by
  have e := filter_eq_take hP (· ≤ x) (by intro a b hab hb; simp at hb ⊢; omega)
  rw [h] at e
  have hl : (P.filter (· ≤ x)).getLast? = some P[k] := by
    rw [e, List.getLast?_take]
    simp [List.getElem?_eq_getElem hk]
  unfold predSet
  simp only [hl, h, Nat.add_sub_cancel]

/-- values above the universe are treated like `n - 1` -/
theorem predSet_clamp {s : Sparse} {n w : Nat} {P : List Nat} (hs : s.Encodes n w P) (x : Nat) :
    predSet P (min x (n - 1)) = predSet P x := by
  have e : P.filter (· ≤ min x (n - 1)) = P.filter (· ≤ x) := by
    apply List.filter_congr
    intro p hp
    have := hs.bound p hp
    simp; omega
  unfold predSet
  rw [e]

/-- backward skip over the zeros behind the one of item `r` -/
theorem skipBwd_spec {s : Sparse} {n w : Nat} {P : List Nat} (hs : s.Encodes n w P) (m : Mode) (r : Nat)
    (hr : r < P.length) :
    ∀ (fuel h : Nat), P[r] >>> w + r ≤ h → h < s.high.len →
      (∀ i (hi : i < P.length), P[i] >>> w + i ≤ P[r] >>> w + r ∨ h < P[i] >>> w + i) →
      h + 1 ≤ fuel + (P[r] >>> w + r) → SpOneIter.skipBwd m s fuel h = ok (P[r] >>> w + r) := by
  have hnn := Nat.zero_le (P[r] >>> w)
  intro fuel
  induction fuel with
  | zero => intro h h1 h2 h3 h4; omega
  | succ fuel ih =>
    intro h h1 hlen h2 h3
    rw [SpOneIter.skipBwd]
    by_cases e : h = P[r] >>> w + r
    · subst e
      simp only [hs.get_one r hr, bind_ok, if_true, pure_eq]
    · have hg := hs.get_not_one h hlen (by
        intro i hi heq
        have := h2 i hi
        omega)
      simp only [hg, bind_ok]
      rw [subM_ok (by omega)]
      simp only [bind_ok]
      apply ih (h - 1) (by omega) (by omega) _ (by omega)
      intro i hi
      have := h2 i hi
      omega

/-- `predecessor` returns the `select_iter` state of the last occurrence of the largest value `≤ x`
(for every `x`; values `≥ n` behave like `n - 1`), or the empty iterator if there is none -/
theorem pred_ok {s : Sparse} {n w : Nat} {P : List Nat} (hs : s.Encodes n w P) (m : Mode) (x : Nat) :
    s.predecessor m x = ok (match predSet P x with
      | none => SpOneIter.emptyIter s
      | some kv => s.iterAt w P kv.1) := by
  unfold Sparse.predecessor Sparse.split Sparse.width
  rw [hs.len_eq, hs.width_eq]
  by_cases hn : n = 0
  · rw [if_pos hn]
    have hP : P = [] := by
      cases P with
      | nil => rfl
      | cons p ps => have := hs.bound p (by simp); omega
    subst hP
    rfl
  · rw [if_neg hn, ← predSet_clamp hs x]
    have hy : min x (n - 1) < n := by omega
    generalize min x (n - 1) = y at *
    have hhp : y >>> w < Sparse.getBuckets n w := shr_lt_getBuckets hs.w_lt hy
    simp only [upperBound_ok hs m _ hhp, bind_ok]
    have hcP := cntLe_le w P (y >>> w)
    have hac := cntLt_le_cntLe (w := w) hs.pw (y >>> w)
    by_cases hc : cntLe w P (y >>> w) = 0
    · rw [if_pos hc]
      rw [predSet_none y]
      · rfl
      · apply cntLeVal_eq hs.pw y 0 (Nat.zero_le _) (by intro h; omega)
        intro h
        exact lt_of_shr_lt (hi_gt_of_ge_cntLe hs (y >>> w) 0 h (by omega))
    · rw [if_neg hc]
      have e : y >>> w + cntLe w P (y >>> w) - 1 = y >>> w + (cntLe w P (y >>> w) - 1) :=
        Nat.add_sub_assoc (by omega) _
      rw [e]
      rcases backLoop_spec hs (y % 2 ^ w) true (y >>> w) hhp (s.high.len + 1) (cntLe w P (y >>> w) - 1)
        (by omega) (by omega) (by rw [hs.high_len]; omega) with ⟨h4, h5, h6⟩ | ⟨k, h4, h5, h6, h7, h8⟩
      · rw [h4]
        simp only [bind_ok, pure_eq]
        rw [predSet_none y]
        apply cntLeVal_eq hs.pw y 0 (Nat.zero_le _) (by intro h; omega)
        intro h
        have h0 := (backT_true _ _).mp (h6 0 h (Nat.zero_le _))
        have hh := hi_eq_of_mem_bucket hs (y >>> w) 0 h (by omega) (by omega)
        exact (lt_iff_of_shr_eq hh.symm).mpr h0
      · rw [h4]
        simp only [bind_ok, pure_eq]
        have hk : k < P.length := by omega
        have hcount : (P.filter (· ≤ y)).length = k + 1 := by
          apply cntLeVal_eq hs.pw y (k + 1) (by omega)
          · intro _
            show P[k] ≤ y
            by_cases hak : cntLt w P (y >>> w) ≤ k
            · have hh := hi_eq_of_mem_bucket hs (y >>> w) k hk hak (by omega)
              have := h8 hak hk
              rw [backT_true] at this
              have := lt_iff_of_shr_eq hh
              have := eq_iff_of_shr_eq hh
              omega
            · exact Nat.le_of_lt (lt_of_shr_lt (hi_lt_of_lt_cntLt hs (y >>> w) k hk (by omega)))
          · intro hk1
            by_cases hkj : k + 1 ≤ cntLe w P (y >>> w) - 1
            · have hh := hi_eq_of_mem_bucket hs (y >>> w) (k + 1) hk1 (by omega) (by omega)
              have := (backT_true _ _).mp (h7 (k + 1) hk1 (by omega) hkj)
              exact (lt_iff_of_shr_eq hh.symm).mpr this
            · exact lt_of_shr_lt (hi_gt_of_ge_cntLe hs (y >>> w) (k + 1) hk1 (by omega))
        rw [predSet_some hs.pw y k hk hcount]
        have hle : P[k] >>> w ≤ y >>> w := (lt_cntLe_iff hs.pw (y >>> w) k hk).mp (by omega)
        have hnn := Nat.zero_le (P[k] >>> w)
        have hsk := skipBwd_spec hs m k hk (s.high.len + 1) (y >>> w + k) (by omega)
          (by rw [hs.high_len]; omega) (by
            intro i hi
            by_cases hik : i ≤ k
            · left
              by_cases e' : i = k
              · subst e'; exact Nat.le_refl _
              · exact Nat.le_of_lt (hs.pos_strict i k (by omega) hk)
            · right
              have : ¬ (P[i] >>> w < y >>> w) := fun hlt => by
                have := (lt_cntLt_iff (w := w) hs.pw (y >>> w) i hi).mpr hlt
                omega
              omega) (by rw [hs.high_len]; omega)
        rw [hsk]
        simp only [bind_ok, pure_eq, Sparse.iterAt, dif_pos hk]

/-! ### successor -/

theorem succSet_eq {P : List Nat} (x k : Nat) (h : rankSet P x = k) :
    succSet P x = match P[k]? with | none => none | some p => some (k, p) := by
  unfold succSet
  unfold rankSet at h
  simp only [h]
  rfl

/-- the first loop of `successor`: scan bucket `x >>> w` from index `j` for a value `≥ x` -/
theorem succLoop1_spec {s : Sparse} {n w : Nat} {P : List Nat} (hs : s.Encodes n w P) (x : Nat) (hx : x < n) :
    ∀ (fuel j : Nat), cntLt w P (x >>> w) ≤ j → j ≤ cntLe w P (x >>> w) →
      cntLe w P (x >>> w) + 1 ≤ fuel + j → (∀ j' (hj' : j' < P.length), j' < j → P[j'] < x) →
      ∃ k, j ≤ k ∧ k ≤ cntLe w P (x >>> w) ∧ (∀ j' (hj' : j' < P.length), j' < k → P[j'] < x) ∧
        ((Sparse.succLoop1 s (x % 2 ^ w) fuel ⟨x >>> w + j, j⟩ = ok (true, ⟨x >>> w + k, k⟩) ∧
            k < cntLe w P (x >>> w) ∧ ∀ (hk : k < P.length), x ≤ P[k]) ∨
         (Sparse.succLoop1 s (x % 2 ^ w) fuel ⟨x >>> w + j, j⟩ = ok (false, ⟨x >>> w + k, k⟩) ∧
            k = cntLe w P (x >>> w))) := by
  have hhp : x >>> w < Sparse.getBuckets n w := shr_lt_getBuckets hs.w_lt hx
  have hcP := cntLe_le w P (x >>> w)
  intro fuel
  induction fuel with
  | zero => intro j h1 h2 h3; omega
  | succ fuel ih =>
    intro j h1 h2 h3 hinv
    rw [Sparse.succLoop1]
    by_cases hjc : j = cntLe w P (x >>> w)
    · subst hjc
      rw [if_pos (hs.zpos_lt _ hhp)]
      simp only [hs.get_zero _ hhp, bind_ok, pure_eq]
      exact ⟨_, Nat.le_refl _, Nat.le_refl _, hinv, Or.inr ⟨rfl, rfl⟩⟩
    · have hjP : j < P.length := by omega
      have hh := hi_eq_of_mem_bucket hs (x >>> w) j hjP h1 (by omega)
      have hpl := hs.pos_lt j hjP
      rw [hh] at hpl
      have hg := hs.get_one j hjP
      rw [hh] at hg
      rw [if_pos hpl]
      simp only [hg, bind_ok, if_true, hs.low_get j hjP, hs.low_val j hjP]
      by_cases hge : P[j] % 2 ^ w ≥ x % 2 ^ w
      · rw [if_pos hge]
        simp only [pure_eq]
        refine ⟨j, Nat.le_refl _, h2, hinv, Or.inl ⟨rfl, by omega, ?_⟩⟩
        intro _
        have := lt_iff_of_shr_eq hh
        omega
      · rw [if_neg hge]
        obtain ⟨k, h5, h6, h7, h8⟩ := ih (j + 1) (by omega) (by omega) (by omega) (by
          intro j' hj' hlt
          by_cases e : j' = j
          · subst e; exact (lt_iff_of_shr_eq hh).mpr (by omega)
          · exact hinv j' hj' (by omega))
        exact ⟨k, by omega, h6, h7, h8⟩

/-- the second loop of `successor`, when there is a next value: it stops at the one of item `r` -/
theorem succLoop2_some {s : Sparse} {n w : Nat} {P : List Nat} (hs : s.Encodes n w P) (r : Nat)
    (hr : r < P.length) :
    ∀ (fuel h : Nat), h ≤ P[r] >>> w + r →
      (∀ i (hi : i < P.length), P[i] >>> w + i < h ∨ P[r] >>> w + r ≤ P[i] >>> w + i) →
      P[r] >>> w + r + 1 ≤ fuel + h →
      Sparse.succLoop2 s fuel ⟨h, r⟩ = ok (some ⟨P[r] >>> w + r, r⟩) := by
  have hlt := hs.pos_lt r hr
  intro fuel
  induction fuel with
  | zero => intro h h1 h2 h3; omega
  | succ fuel ih =>
    intro h h1 h2 h3
    rw [Sparse.succLoop2]
    rw [if_pos (show h < s.high.len by omega)]
    by_cases e : h = P[r] >>> w + r
    · subst e
      simp only [hs.get_one r hr, bind_ok, if_true, pure_eq]
    · have hg := hs.get_not_one h (by omega) (by
        intro i hi heq
        have := h2 i hi
        omega)
      simp only [hg, bind_ok]
      apply ih (h + 1) (by omega) _ (by omega)
      intro i hi
      have := h2 i hi
      omega

/-- the second loop of `successor`, when all ones are behind the cursor: it runs to the end -/
theorem succLoop2_none {s : Sparse} {n w : Nat} {P : List Nat} (hs : s.Encodes n w P) :
    ∀ (fuel h l : Nat), (∀ i (hi : i < P.length), P[i] >>> w + i < h) → h ≤ s.high.len →
      s.high.len + 1 ≤ fuel + h → Sparse.succLoop2 s fuel ⟨h, l⟩ = ok none := by
  intro fuel
  induction fuel with
  | zero => intro h l h1 h2 h3; omega
  | succ fuel ih =>
    intro h l h1 hle h2
    rw [Sparse.succLoop2]
    by_cases hlen : h < s.high.len
    · rw [if_pos hlen]
      have hg := hs.get_not_one h hlen (by
        intro i hi heq
        have := h1 i hi
        omega)
      simp only [hg, bind_ok]
      apply ih (h + 1) l _ (by omega) (by omega)
      intro i hi
      have := h1 i hi
      omega
    · rw [if_neg hlen]; rfl

/-- `successor` returns the `select_iter` state of the first occurrence of the smallest value `≥ x`,
or the empty iterator if there is none (in particular for every `x ≥ n`) -/
theorem succ_ok {s : Sparse} {n w : Nat} {P : List Nat} (hs : s.Encodes n w P) (m : Mode) (x : Nat) :
    s.successor m x = ok (match succSet P x with
      | none => SpOneIter.emptyIter s
      | some kv => s.iterAt w P kv.1) := by
  unfold Sparse.successor Sparse.split Sparse.width
  rw [hs.len_eq, hs.width_eq]
  by_cases hx : x ≥ n
  · rw [if_pos hx, succSet_eq x P.length (rankSet_of_ge hs x hx)]
    simp
  · rw [if_neg hx]
    have hx' : x < n := by omega
    have hhp : x >>> w < Sparse.getBuckets n w := shr_lt_getBuckets hs.w_lt hx'
    have hnn := Nat.zero_le (x >>> w)
    simp only [lowerBound_ok hs m _ hhp, bind_ok]
    have hcP := cntLe_le w P (x >>> w)
    have hac := cntLt_le_cntLe (w := w) hs.pw (x >>> w)
    obtain ⟨k, h5, h6, h7, h8⟩ := succLoop1_spec hs x hx' (s.high.len + 1) (cntLt w P (x >>> w))
      (Nat.le_refl _) hac (by rw [hs.high_len]; omega) (by
        intro j' hj' hlt
        exact lt_of_shr_lt (hi_lt_of_lt_cntLt hs (x >>> w) j' hj' hlt))
    rcases h8 with ⟨h8, h9, h10⟩ | ⟨h8, h9⟩
    · -- found in the bucket
      rw [h8]
      have hk : k < P.length := by omega
      have hr : rankSet P x = k := rankSet_eq hs.pw x k (by omega)
        (fun h => h7 (k - 1) (by omega) (by omega)) h10
      have hh := hi_eq_of_mem_bucket hs (x >>> w) k hk (by omega) h9
      rw [succSet_eq x k hr, List.getElem?_eq_getElem hk]
      simp only [bind_ok, if_true, pure_eq, Sparse.iterAt, dif_pos hk, hh]
    · -- not found: the next one of `high`, if any
      rw [h8]
      subst h9
      have hr : rankSet P x = cntLe w P (x >>> w) := rankSet_eq hs.pw x _ hcP
        (fun h => h7 _ (by omega) (by omega))
        (fun h => Nat.le_of_lt (lt_of_shr_lt (hi_gt_of_ge_cntLe hs (x >>> w) _ h (Nat.le_refl _))))
      rw [succSet_eq x _ hr]
      simp only [bind_ok, Bool.false_eq_true, if_false]
      by_cases hc : cntLe w P (x >>> w) < P.length
      · have hgt := hi_gt_of_ge_cntLe hs (x >>> w) _ hc (Nat.le_refl _)
        have h2 := succLoop2_some hs _ hc (s.high.len + 1) (x >>> w + cntLe w P (x >>> w)) (by omega) (by
          intro i hi
          by_cases hic : i < cntLe w P (x >>> w)
          · left
            have := (lt_cntLe_iff hs.pw (x >>> w) i hi).mp hic
            omega
          · right
            by_cases e : i = cntLe w P (x >>> w)
            · subst e; exact Nat.le_refl _
            · exact Nat.le_of_lt (hs.pos_strict _ i (by omega) hi)) (by
          have := hs.pos_lt _ hc
          omega)
        rw [h2, List.getElem?_eq_getElem hc]
        simp only [bind_ok, pure_eq, Sparse.iterAt, dif_pos hc]
      · have hcl : cntLe w P (x >>> w) = P.length := by omega
        have h2 := succLoop2_none hs (s.high.len + 1) (x >>> w + cntLe w P (x >>> w)) (cntLe w P (x >>> w)) (by
          intro i hi
          have := (lt_cntLe_iff (w := w) hs.pw (x >>> w) i hi).mp (by omega)
          omega) (by rw [hs.high_len]; omega) (by omega)
        rw [h2, List.getElem?_eq_none (by omega)]
        simp only [bind_ok, pure_eq]

/-! ### the first item of the predecessor / successor iterators -/

theorem predSet_spec {P : List Nat} (hP : P.Pairwise (· ≤ ·)) (x : Nat) (kv : Nat × Nat)
    (h : predSet P x = some kv) : ∃ (hk : kv.1 < P.length), kv.2 = P[kv.1] := by
  have hle := filter_length_le (fun p => decide (p ≤ x)) P
  cases hc : (P.filter (· ≤ x)).length with
  | zero => rw [predSet_none x hc] at h; exact absurd h (by simp)
  | succ k =>
    have hk : k < P.length := by
      have : (P.filter (· ≤ x)).length ≤ P.length := hle
      omega
    rw [predSet_some hP x k hk hc] at h
    have := Option.some.inj h
    subst this
    exact ⟨hk, rfl⟩

theorem succSet_spec {P : List Nat} (x : Nat) (kv : Nat × Nat) (h : succSet P x = some kv) :
    ∃ (hk : kv.1 < P.length), kv.1 = rankSet P x ∧ kv.2 = P[kv.1] := by
  rw [succSet_eq x _ rfl] at h
  by_cases hk : rankSet P x < P.length
  · rw [List.getElem?_eq_getElem hk] at h
    have := Option.some.inj h
    subst this
    exact ⟨hk, rfl, rfl⟩
  · rw [List.getElem?_eq_none (by omega)] at h
    exact absurd h (by simp)

/-- `predecessor x`, read through the iterator: the iterator is the one `select_iter` returns for the rank of
the predecessor, and its first item is `predSet P x` (rank and value of the last occurrence of the largest
value `≤ x`); when there is no such value the iterator is empty and yields nothing. -/
theorem pred_first {s : Sparse} {n w : Nat} {P : List Nat} (hs : s.Encodes n w P) (m : Mode) (x : Nat) :
    match predSet P x with
    | none => s.predecessor m x = ok (SpOneIter.emptyIter s) ∧
        SpOneIter.nextQ m s (SpOneIter.emptyIter s) = ok (none, SpOneIter.emptyIter s)
    | some kv => ∃ it it', s.predecessor m x = ok it ∧ s.selectIter m kv.1 = ok it ∧
        SpOneIter.nextQ m s it = ok (some kv, it') ∧ IterAt s w P (kv.1 + 1) it' := by
  have hp := pred_ok hs m x
  cases h : predSet P x with
  | none =>
    rw [h] at hp
    exact ⟨hp, nextQ_none hs m _ (empty_IterAt hs)⟩
  | some kv =>
    rw [h] at hp
    obtain ⟨hk, hv⟩ := predSet_spec hs.pw x kv h
    have hit := iterAt_IterAt hs kv.1
    have e : min kv.1 P.length = kv.1 := by omega
    rw [e] at hit
    have hn := nextQ_ok hs m kv.1 _ hit hk
    refine ⟨_, _, hp, selectIter_ok hs m kv.1, ?_, hn.2⟩
    rw [hn.1, ← hv]

/-- `successor x`, read through the iterator: its first item is `succSet P x` (rank and value of the first
occurrence of the smallest value `≥ x`); empty when there is none, in particular for `x ≥ n`. -/
theorem succ_first {s : Sparse} {n w : Nat} {P : List Nat} (hs : s.Encodes n w P) (m : Mode) (x : Nat) :
    match succSet P x with
    | none => s.successor m x = ok (SpOneIter.emptyIter s) ∧
        SpOneIter.nextQ m s (SpOneIter.emptyIter s) = ok (none, SpOneIter.emptyIter s)
    | some kv => ∃ it it', s.successor m x = ok it ∧ s.selectIter m kv.1 = ok it ∧
        SpOneIter.nextQ m s it = ok (some kv, it') ∧ IterAt s w P (kv.1 + 1) it' := by
  have hp := succ_ok hs m x
  cases h : succSet P x with
  | none =>
    rw [h] at hp
    exact ⟨hp, nextQ_none hs m _ (empty_IterAt hs)⟩
  | some kv =>
    rw [h] at hp
    obtain ⟨hk, _, hv⟩ := succSet_spec x kv h
    have hit := iterAt_IterAt hs kv.1
    have e : min kv.1 P.length = kv.1 := by omega
    rw [e] at hit
    have hn := nextQ_ok hs m kv.1 _ hit hk
    refine ⟨_, _, hp, selectIter_ok hs m kv.1, ?_, hn.2⟩
    rw [hn.1, ← hv]

theorem succSet_none_of_ge {s : Sparse} {n w : Nat} {P : List Nat} (hs : s.Encodes n w P) (x : Nat)
    (hx : n ≤ x) : succSet P x = none := by
  rw [succSet_eq x P.length (rankSet_of_ge hs x hx)]
  simp

/-! ### running the iterator to the end -/

/-- drain an iterator (proof-side helper, not part of the modelled code): at most `fuel` items -/
def drain (m : Mode) (s : Sparse) : Nat → SpOneIter → Outcome (List (Nat × Nat))
  | 0, _ => ok []
  | fuel + 1, it =>
    match SpOneIter.nextQ m s it with
    | .fault f => .fault f
    | .ok (none, _) => ok []
    | .ok (some x, it') =>
      match drain m s fuel it' with
      | .fault f => .fault f
      | .ok xs => ok (x :: xs)

/-- list of `(rank, value)` pairs of the suffix of `P` starting at `r` -/
def itemsFrom (P : List Nat) (r : Nat) : List (Nat × Nat) :=
  (List.range (P.length - r)).map fun i => (r + i, P[r + i]?.getD 0)

theorem itemsFrom_cons (P : List Nat) (r : Nat) (hr : r < P.length) :
    itemsFrom P r = (r, P[r]) :: itemsFrom P (r + 1) := by
  unfold itemsFrom
  have e : P.length - r = (P.length - (r + 1)) + 1 := by omega
  rw [e, List.range_succ_eq_map, List.map_cons, List.map_map]
  simp only [Nat.add_zero, List.getElem?_eq_getElem hr, Option.getD_some]
  congr 1
  apply List.map_congr_left
  intro i _
  simp only [Function.comp, Nat.succ_eq_add_one]
  have e2 : r + (i + 1) = r + 1 + i := by omega
  rw [e2]

/-- Simulation with the suffix of `P`: draining an iterator whose next item is number `r` yields exactly the
remaining values with their ranks, in order, with no fault in either mode. -/
theorem drain_ok {s : Sparse} {n w : Nat} {P : List Nat} (hs : s.Encodes n w P) (m : Mode) :
    ∀ (fuel r : Nat) (it : SpOneIter), IterAt s w P r it → P.length - r < fuel →
      drain m s fuel it = ok (itemsFrom P r) := by
  intro fuel
  induction fuel with
  | zero => intro r it hit h; omega
  | succ fuel ih =>
    intro r it hit hf
    rw [drain]
    by_cases hr : r < P.length
    · obtain ⟨h1, h2⟩ := nextQ_ok hs m r it hit hr
      rw [h1]
      simp only []
      rw [ih (r + 1) _ h2 (by omega), itemsFrom_cons P r hr]
    · have e : r = P.length := by have := hit.r_le; omega
      subst e
      rw [nextQ_none hs m it hit]
      simp [itemsFrom]

theorem drain_full {s : Sparse} {n w : Nat} {P : List Nat} (hs : s.Encodes n w P) (m : Mode) :
    drain m s (P.length + 1) (SpOneIter.full s) = ok (itemsFrom P 0) :=
  drain_ok hs m _ 0 _ (full_IterAt hs) (by omega)

end Sds
