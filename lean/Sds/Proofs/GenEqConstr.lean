/-
Proofs/GenEqConstr: the two constructors with nested loops, as TRANSLATED statement by statement from the source
(Generated/FnsConstr.lean), are equal to the hand-written model definitions.

* `rank_support_new_eq : gen_RankSupport_new m v = ok (RankSup.build v)` under
  `hwf : v.data.size = (v.len + 63) / 64` (the code derives the word count from the length, the model from the buffer;
  sharp both ways: `rank_support_new_ne_short`, `rank_support_new_ne_long`) and `hl : v.len + 512 < U64`
  (`(len + 512 - 1) / 512` in `usize`; sharp: `rank_support_new_ne_len`).  Everything else is derived: `block * 8`,
  `block * 8 + word`, `word * 9 ≤ 63` (the shift amount never overflows), the block count ≤ 512 and the running count
  ≤ 512 * block never overflow, and `((ones << (word * 9)) mod 2^64) as u64` is the model's
  `BitVec.ofNat 64 ones <<< (word * 9)` for EVERY `ones` (`ofNat_shl_mod`).
* `sample_index_new_eq : gen_SampleIndex_new m values univ = SampleIndex.new m values univ` under `univ < U64` and
  `values.length < 2^60`; `sample_index_new_eq_of` is the general form (`values.length ≤ U64` and the bit length
  `ns * width + 63 < U64` of the sample vector that `with_len` allocates).  No hypothesis on the values themselves:
  both sides compare them in `Nat`, and the only arithmetic on them is `sample * divisor` (mode arithmetic in both).
  Same order of effects on both sides: `parameters`, `with_len`, `assert_eq!(prev, 0)`, then per sample the threshold
  product, the `while` (= `consume`: stop at `value > threshold`, then `assert!(prev <= value)`, `offset += 1` — which
  cannot overflow because `offset + remaining ≤ len` —, `iter.next()`; an exhausted iterator leaves the loop), the
  `set`, and finally `assert!(universe > prev)`.

Method: `for_loop` / `for_loop_range` (GenEqLoop4) turn the counter loops into `foldlM` of a body that is the code's
body (`rsWordBody`, `rsBlockBody`, `siBody`); a second induction with the numeric invariant turns that into the
model's fold (`rs_word_fold`, `rs_block_fold`, `si_fill`).  The `while` with `break` is `si_while`.
-/
import Sds.Generated.FnsConstr
import Sds.Proofs.GenFns
import Sds.Proofs.GenEqBits
import Sds.Proofs.Tables
import Sds.Proofs.GenEqIdx
import Sds.Proofs.GenEqVec
import Sds.Proofs.GenEqVec2
import Sds.Proofs.GenEqLoop4
import Sds.Proofs.BitsMore
import Sds.Proofs.IntVec
import Sds.Proofs.RL

namespace Sds.GenEq
open Sds Outcome Generated

/-! ### vocabulary -/

theorem ofNat_shl_mod (a k : Nat) : BitVec.ofNat 64 ((a <<< k) % U64) = BitVec.ofNat 64 a <<< k := by
  apply BitVec.eq_of_toNat_eq
  rw [U64_eq]
  simp only [BitVec.toNat_shiftLeft, BitVec.toNat_ofNat, Nat.shiftLeft_eq, Nat.mod_mod, Nat.mod_mul_mod]

/-! ### `RankSupport::new` -/

/-- one word of a block, as the code computes it once the index arithmetic is known not to overflow: only the addition
to the running count of the block is left in the mode's arithmetic -/
def rsWordBody (m : Mode) (data : Array Word) (block : Nat) (s : Nat × Word) (word : Nat) : Outcome (Nat × Word) :=
  (addM m s.1 (popcount (rd data (block * 8 + word)))).bind
    (fun t => ok (t, s.2 ||| ((BitVec.ofNat 64 t) <<< (word * 9))))

def rsWordStep (data : Array Word) (block : Nat) (acc : Nat × Word) (word : Nat) : Nat × Word :=
  (acc.1 + popcount (rd data (block * 8 + word)),
    acc.2 ||| ((BitVec.ofNat 64 (acc.1 + popcount (rd data (block * 8 + word)))) <<< (word * 9)))

theorem rs_word_fold (m : Mode) (data : Array Word) (block : Nat) :
    ∀ n, n ≤ 8 →
      (List.range n).foldlM (rsWordBody m data block) (0, 0) =
        ok ((List.range n).foldl (rsWordStep data block) (0, 0)) ∧
      ((List.range n).foldl (rsWordStep data block) (0, 0)).1 ≤ 64 * n := by
  intro n
  induction n with
  | zero => intro _; exact ⟨rfl, Nat.le_refl _⟩
  | succ n ih =>
    intro hn
    obtain ⟨h1, h2⟩ := ih (by omega)
    have hp := popcount_le (rd data (block * 8 + n))
    rw [foldlM_range_succ, h1, bind_ok, List.range_succ, List.foldl_append]
    constructor
    · unfold rsWordBody
      rw [addM_ok (by rw [U64_eq]; omega)]
      rfl
    · show ((List.range n).foldl (rsWordStep data block) (0, 0)).1 + _ ≤ _
      omega

theorem blockSample_eq (data : Array Word) (block bw : Nat) :
    RankSup.blockSample data block bw =
      (((List.range bw).foldl (rsWordStep data block) (0, 0)).1,
       ((List.range bw).foldl (rsWordStep data block) (0, 0)).2 &&& lowSet 63) := rfl

/-- one block, as the code computes it once the inner loop is known -/
def rsBlockBody (m : Mode) (data : Array Word) (s : Nat × Array (Word × Word)) (block : Nat) :
    Outcome (Nat × Array (Word × Word)) :=
  (addM m s.1 (RankSup.blockSample data block (min 8 (data.size - block * 8))).1).bind
    (fun t => ok (t, s.2.push (BitVec.ofNat 64 s.1,
      (RankSup.blockSample data block (min 8 (data.size - block * 8))).2)))

def rsBlockStep (data : Array Word) (acc : Array (Word × Word) × Nat) (block : Nat) : Array (Word × Word) × Nat :=
  (acc.1.push (BitVec.ofNat 64 acc.2, (RankSup.blockSample data block (min 8 (data.size - block * 8))).2),
    acc.2 + (RankSup.blockSample data block (min 8 (data.size - block * 8))).1)

theorem build_eq (v : RawVec) :
    RankSup.build v = ⟨((List.range ((v.len + 511) / 512)).foldl (rsBlockStep v.data) (#[], 0)).1⟩ := rfl

theorem rs_block_fold (m : Mode) (data : Array Word) :
    ∀ n, 512 * n < U64 →
      (List.range n).foldlM (rsBlockBody m data) (0, #[]) =
        ok (((List.range n).foldl (rsBlockStep data) (#[], 0)).2,
            ((List.range n).foldl (rsBlockStep data) (#[], 0)).1) ∧
      ((List.range n).foldl (rsBlockStep data) (#[], 0)).2 ≤ 512 * n := by
  intro n
  induction n with
  | zero => intro _; exact ⟨rfl, Nat.le_refl _⟩
  | succ n ih =>
    intro hn
    obtain ⟨h1, h2⟩ := ih (by omega)
    have hp := (rs_word_fold m data n (min 8 (data.size - n * 8)) (Nat.min_le_left _ _)).2
    have hm : min 8 (data.size - n * 8) ≤ 8 := Nat.min_le_left _ _
    have hp' : (RankSup.blockSample data n (min 8 (data.size - n * 8))).1 ≤ 512 := by
      rw [blockSample_eq]; show (List.foldl (rsWordStep data n) (0, 0) (List.range (min 8 (data.size - n * 8)))).1 ≤ 512
      omega
    rw [foldlM_range_succ, h1, bind_ok, List.range_succ, List.foldl_append]
    constructor
    · unfold rsBlockBody
      rw [addM_ok (by show _ + _ < U64; omega)]
      rfl
    · show ((List.range n).foldl (rsBlockStep data) (#[], 0)).2 + _ ≤ _
      omega

theorem rank_support_new_eq (m : Mode) (v : RawVec) (hwf : v.data.size = (v.len + 63) / 64)
    (hl : v.len + 512 < U64) : gen_RankSupport_new m v = ok (RankSup.build v) := by
  unfold gen_RankSupport_new
  rw [U64_eq] at hl
  have e1 : gen_bits_to_words m v.len = ok v.data.size := by
    rw [hwf]; exact vbits_to_words_ok m v.len (by rw [U64_eq]; omega)
  have e2 : addM m v.len 512 = ok (v.len + 512) := addM_ok' hl
  have e3 : subM m (v.len + 512) 1 = ok (v.len + 511) := subM_ok (by omega)
  have e4 : gDiv (v.len + 511) 512 = ok ((v.len + 511) / 512) := by simp [gDiv]
  simp only [Bind.bind, e1, e2, e3, e4, Outcome.bind]
  rw [for_loop_range (ρ := RankSup) ((v.len + 511) / 512) (rsBlockBody m v.data) _ (fun i s hi => by
        obtain ⟨ones, samples⟩ := s
        have f1 : mulM m i 8 = ok (i * 8) := mulM_ok' (by omega)
        have f2 : subM m v.data.size (i * 8) = ok (v.data.size - i * 8) := subM_ok (by omega)
        simp only [hi, decide_true, if_true, f1, f2, Outcome.bind]
        have hbw : min 8 (v.data.size - i * 8) ≤ 8 := Nat.min_le_left _ _
        rw [for_loop_range (ρ := RankSup) (min 8 (v.data.size - i * 8)) (rsWordBody m v.data i) _ (fun j s hj => by
              have g2 : addM m (i * 8) j = ok (i * 8 + j) := addM_ok' (by omega)
              have g3 : v.wordM (i * 8 + j) = ok (rd v.data (i * 8 + j)) := getC_ok (by omega)
              have g4 : mulM m j 9 = ok (j * 9) := mulM_ok' (by omega)
              have g5 : ∀ a, shlU m a (j * 9) = ok ((a <<< (j * 9)) % U64) := fun a => shlU_lt m a (by omega)
              simp only [hj, decide_true, if_true, g2, g3, g4, g5, ofNat_shl_mod, rsWordBody, Outcome.bind]
              cases addM m s.1 (popcount (rd v.data (i * 8 + j))) <;> rfl)
            (fun j s hj => by simp only [hj, decide_false, Bool.false_eq_true, if_false]; rfl),
          (rs_word_fold m v.data i _ hbw).1, low_set_eq, lowSetT_eq 63 (by decide)]
        simp only [Outcome.bind, rsBlockBody, blockSample_eq]
        cases addM m ones (List.foldl (rsWordStep v.data i) (0, 0) (List.range (min 8 (v.data.size - i * 8)))).1 <;> rfl)
      (fun i s hi => by obtain ⟨ones, samples⟩ := s; simp only [hi, decide_false, Bool.false_eq_true, if_false]; rfl)]
  rw [(rs_block_fold m v.data _ (by rw [U64_eq]; omega)).1, build_eq]
  rfl

/-! ### `SampleIndex::new` -/

private theorem loopM_succ'' {σ ρ : Type} (n : Nat) (step : σ → Outcome (Ctl σ ρ)) (s : σ) :
    loopM (n + 1) step s = (step s).bind (fun c => match c with | .next s' => loopM n step s' | r => ok r) := rfl

/-- state of the inner `while`: the iterator (remaining items), the look-ahead `next`, `offset`, `prev` -/
abbrev SiSt := List Nat × Option Nat × Nat × Nat

theorem consume_inv (thr : Nat) : ∀ (fuel o p : Nat) (vs : List Nat) (r : Nat × Nat × List Nat),
    SampleIndex.consume thr fuel o p vs = ok r → r.1 + r.2.2.length = o + vs.length ∧ o ≤ r.1 := by
  intro fuel
  induction fuel with
  | zero => intro o p vs r h; simp [SampleIndex.consume] at h
  | succ f ih =>
    intro o p vs r h
    cases vs with
    | nil => simp only [SampleIndex.consume] at h; cases h; exact ⟨rfl, Nat.le_refl _⟩
    | cons v rest =>
      simp only [SampleIndex.consume] at h
      by_cases hv : v > thr
      · rw [if_pos hv] at h; cases h; exact ⟨rfl, Nat.le_refl _⟩
      · rw [if_neg hv] at h
        by_cases hp : p ≤ v
        · rw [if_pos hp] at h
          have := ih _ _ _ _ h
          simp only [List.length_cons]; omega
        · rw [if_neg hp] at h; cases h

/-- the `while next.is_some() { … }` loop of `new` (with its `break`) is the model's `consume`, for every step
function with the four one-step equations of the translated body -/
theorem si_while {ρ : Type} (m : Mode) (thr : Nat) (step : SiSt → Outcome (Ctl SiSt ρ))
    (h_none : ∀ it o p, step (it, none, o, p) = ok (Ctl.brk (it, none, o, p)))
    (h_gt : ∀ it v o p, v > thr → step (it, some v, o, p) = ok (Ctl.brk (it, some v, o, p)))
    (h_bad : ∀ it v o p, ¬ v > thr → ¬ p ≤ v → step (it, some v, o, p) = fault (.panic .assert))
    (h_le : ∀ it v o p, ¬ v > thr → p ≤ v →
      step (it, some v, o, p) = (addM m o 1).bind (fun o' => ok (Ctl.next (it.tail, it.head?, o', v)))) :
    ∀ (vs : List Nat) (fuel fuel' o p : Nat), vs.length < fuel → vs.length < fuel' → o + vs.length < U64 →
      loopM fuel step (vs.tail, vs.head?, o, p) =
        (SampleIndex.consume thr fuel' o p vs).bind
          (fun r => ok (Ctl.brk (r.2.2.tail, r.2.2.head?, r.1, r.2.1))) := by
  intro vs
  induction vs with
  | nil =>
    intro fuel fuel' o p hf hf' _
    obtain ⟨f, rfl⟩ : ∃ f, fuel = f + 1 := ⟨fuel - 1, by simp at hf; omega⟩
    obtain ⟨f', rfl⟩ : ∃ f, fuel' = f + 1 := ⟨fuel' - 1, by simp at hf'; omega⟩
    rw [loopM_succ'']
    simp only [List.tail_nil, List.head?_nil, h_none, SampleIndex.consume]
    rfl
  | cons v rest ih =>
    intro fuel fuel' o p hf hf' hb
    simp only [List.length_cons] at hf hf' hb
    obtain ⟨f, rfl⟩ : ∃ f, fuel = f + 1 := ⟨fuel - 1, by omega⟩
    obtain ⟨f', rfl⟩ : ∃ f, fuel' = f + 1 := ⟨fuel' - 1, by omega⟩
    rw [loopM_succ'']
    simp only [List.tail_cons, List.head?_cons, SampleIndex.consume]
    by_cases hv : v > thr
    · rw [h_gt _ _ _ _ hv, if_pos hv]; rfl
    · rw [if_neg hv]
      by_cases hp : p ≤ v
      · rw [h_le _ _ _ _ hv hp, if_pos hp, addM_ok (by omega)]
        exact ih f f' (o + 1) v (by omega) (by omega) (by omega)
      · rw [h_bad _ _ _ _ hv hp, if_neg hp]; rfl

/-- the translated body of the inner `while` (copied from `gen_SampleIndex_new`) -/
def siInnerStep (m : Mode) (threshold : Nat) : SiSt → Outcome (Ctl SiSt SampleIndex) :=
  fun (iter, next, offset, prev) => do
    if (next).isSome then do
      let t10 ← unwrapM next
      let value := t10
      if (decide (value > threshold)) then do
        pure (Ctl.brk (iter, next, offset, prev))
      else do
        gAssert (decide (prev ≤ value))
        let t11 ← addM m offset 1
        let offset := t11
        let prev := value
        let t12 := (iter.head?, iter.tail)
        let iter := t12.2
        let next := t12.1
        pure (Ctl.next (iter, next, offset, prev))
    else do
      pure (Ctl.brk (iter, next, offset, prev))

theorem si_inner_eq (m : Mode) (thr len : Nat) (vs : List Nat) (o p : Nat) (hl : vs.length ≤ len)
    (hb : o + vs.length < U64) :
    loopM (len + 1) (siInnerStep m thr) (vs.tail, vs.head?, o, p) =
      (SampleIndex.consume thr (vs.length + 1) o p vs).bind
        (fun r => ok (Ctl.brk (r.2.2.tail, r.2.2.head?, r.1, r.2.1))) := by
  apply si_while m thr (siInnerStep m thr) _ _ _ _ vs (len + 1) (vs.length + 1) o p (by omega) (by omega) hb
  · intro it o p; rfl
  · intro it v o p hv; simp [siInnerStep, unwrapM, hv]
  · intro it v o p hv hp; simp [siInnerStep, unwrapM, hv, hp, gAssert]
  · intro it v o p hv hp
    simp only [siInnerStep, unwrapM, hv, hp, gAssert, Option.isSome_some, if_true, decide_true, decide_false,
      Bool.false_eq_true, if_false, Bind.bind, Outcome.bind]
    cases addM m o 1 <;> rfl

/-- state of the outer `for`: iterator, look-ahead, `offset`, `prev`, `samples` -/
abbrev SiOut := List Nat × Option Nat × Nat × Nat × IntVec

/-- one iteration of the outer `for` as the code computes it -/
def siBody (m : Mode) (divisor len : Nat) (s : SiOut) (sample : Nat) : Outcome SiOut :=
  (mulM m sample divisor).bind fun thr =>
  (loopM (len + 1) (siInnerStep m thr) (s.1, s.2.1, s.2.2.1, s.2.2.2.1)).bind fun c =>
  match c with
  | .brk (iter, next, offset, prev) =>
    (gen_IntVector_set m s.2.2.2.2 sample (BitVec.ofNat 64 offset)).bind fun smp =>
      ok (iter, next, offset, prev, smp)
  | _ => fault .fuel

theorem set_inv {v v' : IntVec} {i : Nat} {x : Word} (hwf : v.WF) (h : v.set i x = ok v') :
    v'.WF ∧ v'.len = v.len ∧ v'.width = v.width := by
  by_cases hi : i < v.len
  · rw [IntVec.set_ok v i x hi] at h
    cases h
    exact ⟨IntVec.set_WF hwf i hi x, rfl, rfl⟩
  · rw [IntVec.set_fault v i x (by omega)] at h; cases h

theorem si_fill (m : Mode) (divisor len : Nat) : ∀ (ls : List Nat) (vs : List Nat) (o p : Nat) (smp : IntVec),
    vs.length ≤ len → o + vs.length < U64 → smp.WF → smp.len * smp.width < U64 →
    (ls.foldlM (siBody m divisor len) (vs.tail, vs.head?, o, p, smp)).bind (fun s => ok (s.2.2.2.2, s.2.2.2.1)) =
      SampleIndex.fill m divisor ls o p vs smp := by
  intro ls
  induction ls with
  | nil => intro vs o p smp _ _ _ _; rfl
  | cons a ls ih =>
    intro vs o p smp hl hb hwf hsz
    rw [List.foldlM_cons]
    simp only [SampleIndex.fill, siBody, Bind.bind]
    cases mulM m a divisor with
    | fault e => rfl
    | ok thr =>
      simp only [Outcome.bind]
      rw [si_inner_eq m thr len vs o p hl hb]
      cases hc : SampleIndex.consume thr (vs.length + 1) o p vs with
      | fault e => rfl
      | ok r =>
        obtain ⟨o', p', vs'⟩ := r
        obtain ⟨i1, i2⟩ := consume_inv thr _ _ _ _ _ hc
        simp only [Outcome.bind] at i1 i2 ⊢
        rw [int_set_eq m smp a _ hwf hsz]
        cases hs : smp.set a (BitVec.ofNat 64 o') with
        | fault e => rfl
        | ok smp' =>
          obtain ⟨j1, j2, j3⟩ := set_inv hwf hs
          exact ih vs' o' p' smp' (by omega) (by omega) j1 (by rw [j2, j3]; exact hsz)

theorem obind_ok' {α β : Type} (a : α) (f : α → Outcome β) : (ok a).bind f = f a := rfl

theorem obind_congr_assoc {α β γ : Type} (x : Outcome α) (f : α → Outcome β) (g : β → Outcome γ)
    (h : α → Outcome γ) (hh : ∀ a, h a = (f a).bind g) : x.bind h = (x.bind f).bind g := by
  cases x with
  | fault e => rfl
  | ok a => exact hh a

theorem sample_index_new_eq_of (m : Mode) (values : List Nat) (univ : Nat) (hu : univ < U64)
    (hlen : values.length ≤ U64)
    (hns : ∀ ns d, 1 ≤ values.length → 1 ≤ univ → SampleIndex.parameters m values.length univ = ok (ns, d) →
      ns * bitLen (BitVec.ofNat 64 (values.length - 1)) + 63 < U64) :
    gen_SampleIndex_new m values univ = SampleIndex.new m values univ := by
  have hw1 : gen_IntVector_with_len m 1 1 (0 : Word) = IntVec.withLen 1 1 0 :=
    int_with_len_eq' m 1 1 0 (by decide)
  have hw2 : IntVec.withLen 1 1 0 = ok _ := IntVec.withLen_eq 1 1 0 (by decide) (by decide)
  unfold gen_SampleIndex_new SampleIndex.new
  cases values with
  | nil =>
    simp only [List.length_nil, decide_true, Bool.true_or, if_true, hw1, hw2, unwrapRes, Bind.bind, Outcome.bind]
  | cons first rest =>
    by_cases hu0 : univ = 0
    · simp only [hu0, decide_true, Bool.or_true, if_true, hw1, hw2, unwrapRes, Bind.bind, Outcome.bind]
    · have hl0 : ¬ ((first :: rest).length = 0) := by simp
      simp only [hl0, hu0, decide_false, Bool.or_false, Bool.false_eq_true, if_false,
        sample_parameters_eq m _ univ hu, Bind.bind]
      cases hp : SampleIndex.parameters m (first :: rest).length univ with
      | fault e => rfl
      | ok r =>
        obtain ⟨ns, d⟩ := r
        have hb := hns ns d (by simp) (by omega) hp
        obtain ⟨b1, b2, _, _⟩ := bitLen_spec (BitVec.ofNat 64 ((first :: rest).length - 1))
        obtain ⟨smp, e1, swf, sw, sl, _⟩ := IntVec.withLen_spec ns _ (0 : Word) b1 b2
        have e0 : subM m (first :: rest).length 1 = ok ((first :: rest).length - 1) := subM_ok (by simp)
        have e2 : gen_IntVector_with_len m ns (bitLen (BitVec.ofNat 64 ((first :: rest).length - 1))) (0 : Word) =
            ok smp := by rw [int_with_len_eq' m ns _ 0 hb, e1]
        simp only [e0, obind_ok', bit_len_eq, e2, e1, unwrapRes, List.head?_cons, List.tail_cons, unwrapM]
        by_cases h0 : first = 0
        · subst h0
          simp only [gAssert, decide_true, if_true, obind_ok', ne_eq, not_true_eq_false, if_false]
          by_cases hn0 : smp.len = 0
          · have hns0 : ns = 0 := by omega
            subst hns0
            rw [hn0, show 0 - 1 + 1 = 0 + 1 from rfl, loopM_succ'']
            simp only [Nat.not_lt_zero, decide_false, Bool.false_eq_true, if_false, Pure.pure, obind_ok',
              List.range_zero, List.drop_nil, SampleIndex.fill]
            by_cases hup : univ > 0
            · simp only [hup, decide_true, if_true, obind_ok']
            · simp only [hup, decide_false, Bool.false_eq_true, if_false]; rfl
          · rw [for_loop (ρ := SampleIndex) smp.len (siBody m d (0 :: rest).length) _ (fun i s hi => by
                  obtain ⟨iter, next, o, p, sm⟩ := s
                  simp only [hi, decide_true, if_true, siBody]
                  refine obind_congr_assoc _ _ _ _ (fun thr => ?_)
                  refine obind_congr_assoc _ _ _ _ (fun c => ?_)
                  cases c with
                  | ret r => rfl
                  | next s => rfl
                  | brk s =>
                    obtain ⟨it', nx', o', p'⟩ := s
                    show (gen_IntVector_set m sm i (BitVec.ofNat 64 o')).bind _ =
                      ((gen_IntVector_set m sm i (BitVec.ofNat 64 o')).bind _).bind _
                    cases gen_IntVector_set m sm i (BitVec.ofNat 64 o') <;> rfl)
                (fun i s hi => by
                  obtain ⟨iter, next, o, p, sm⟩ := s
                  simp only [hi, decide_false, Bool.false_eq_true, if_false]; rfl)
                (smp.len - 1) 1 _ (by omega)]
            have hd : List.drop 1 (List.range ns) = List.range' 1 (smp.len - 1) := by
              rw [sl, List.range_eq_range', List.drop_range']
            simp only [List.length_cons] at hlen
            rw [hd, ← si_fill m d (0 :: rest).length _ rest 0 0 smp (by simp) (by omega) swf (by rw [sl, sw]; omega)]
            cases List.foldlM (siBody m d (0 :: rest).length) (rest.tail, rest.head?, 0, 0, smp)
                (List.range' 1 (smp.len - 1)) with
            | fault e => rfl
            | ok s =>
              obtain ⟨it', nx', o', p', sm'⟩ := s
              simp only [obind_ok', Pure.pure]
              by_cases hup : univ > p'
              · simp only [hup, decide_true, if_true, obind_ok']
              · simp only [hup, decide_false, Bool.false_eq_true, if_false]; rfl
        · simp only [gAssert, h0, decide_false, Bool.false_eq_true, if_false, ne_eq, not_false_eq_true, if_true]
          rfl

/-- the number of samples chosen by `parameters` is at most the first rounding `⌈values / 8⌉` -/
theorem nsam_le_ns0 {values univ : Nat} (hv : 1 ≤ values) (hu : 1 ≤ univ) :
    SampleIndex.nsam values univ ≤ SampleIndex.ns0 values := by
  have hn := SampleIndex.ns0_pos hv
  have hd := SampleIndex.div0_pos (univ := univ) hv hu
  unfold SampleIndex.nsam
  have hm := Nat.div_add_mod (univ + SampleIndex.ns0 values - 1) (SampleIndex.ns0 values)
  have hr := Nat.mod_lt (univ + SampleIndex.ns0 values - 1) (show 0 < SampleIndex.ns0 values by omega)
  rw [show (univ + SampleIndex.ns0 values - 1) / SampleIndex.ns0 values = SampleIndex.div0 values univ from rfl] at hm
  apply Nat.le_of_lt_succ
  rw [Nat.div_lt_iff_lt_mul (by omega), Nat.succ_mul]
  generalize SampleIndex.div0 values univ = dv at *
  generalize SampleIndex.ns0 values = n0 at *
  generalize (univ + n0 - 1) % n0 = r at *
  omega

/-- `SampleIndex::new` for every input of a realistic size: fewer than 2^60 values, a `usize` universe -/
theorem sample_index_new_eq (m : Mode) (values : List Nat) (univ : Nat) (hu : univ < U64)
    (hlen : values.length < 2 ^ 60) :
    gen_SampleIndex_new m values univ = SampleIndex.new m values univ := by
  apply sample_index_new_eq_of m values univ hu (by rw [U64_eq]; omega)
  intro ns d hv hu1 hp
  rw [SampleIndex.parameters_ok m hv hu1 (by unfold SampleIndex.NoOverflow; rw [U64_eq]; omega)] at hp
  injection hp with hp
  injection hp with hp1 hp2
  subst hp1
  have h1 := nsam_le_ns0 (univ := univ) hv hu1
  have h2 := (bitLen_spec (BitVec.ofNat 64 (values.length - 1))).2.1
  have h3 := Nat.mul_le_mul h1 h2
  unfold SampleIndex.ns0 at h3
  rw [U64_eq]
  omega

/-! ### sharpness of the hypotheses -/

/-- `hl`: `(len + 512 - 1) / 512` is computed in `usize`; at `len = 2^64 - 512` the addition overflows (a panic with
overflow checks on) while the model divides in `Nat`.  Only a vector of ≥ 2^64 - 512 bits (2 EiB of data) gets
there. -/
theorem rank_support_new_ne_len :
    gen_RankSupport_new .checked ⟨U64 - 512, #[]⟩ = fault (.panic .overflow) := by decide

/-- `hwf` (too few words): the code computes the word count from the length and indexes the buffer (index panic),
the model reads the missing word as 0 -/
theorem rank_support_new_ne_short :
    gen_RankSupport_new .checked ⟨1, #[]⟩ = fault (.panic .index) ∧
    RankSup.build ⟨1, #[]⟩ = ⟨#[(0, 0)]⟩ := by decide

/-- `hwf` (too many words): the code only visits `bits_to_words(len)` words, the model's `build` all of `data` -/
theorem rank_support_new_ne_long :
    gen_RankSupport_new .checked ⟨1, #[1, 1]⟩ = ok ⟨#[(0, 1)]⟩ ∧
    RankSup.build ⟨1, #[1, 1]⟩ = ⟨#[(0, 1025)]⟩ := by decide

/-- `hu`: the universe size is a `usize`; at the first non-representable value `2^64` the overflow-free rounding of
the code (`value / n + (value % n != 0) as usize`, mode arithmetic) and the model's (in `Nat`) part ways.  Not an
input of the real code. -/
theorem sample_index_new_ne_univ :
    gen_SampleIndex_new .checked [0] U64 = fault (.panic .overflow) ∧
    (SampleIndex.new .checked [0] U64).isOk = true := by decide

/-- the theorem is not vacuous: first value ≠ 0 and a decreasing value below a threshold (the code and the model
panic alike); a value above the universe that is never consumed (`break`: both succeed — the final
`assert!(universe > prev)` only sees consumed values, which are ≤ the last threshold < universe); the iterator
running out inside the `while` -/
theorem sample_index_new_examples :
    gen_SampleIndex_new .checked [1, 3] 32 = fault (.panic .assert) ∧
    SampleIndex.new .checked [1, 3] 32 = fault (.panic .assert) ∧
    gen_SampleIndex_new .checked [0, 1, 2, 3, 4, 5, 6, 7, 5] 32 = fault (.panic .assert) ∧
    SampleIndex.new .checked [0, 1, 2, 3, 4, 5, 6, 7, 5] 32 = fault (.panic .assert) ∧
    gen_SampleIndex_new .checked [0, 1, 2, 3, 4, 5, 6, 7, 40] 32 =
      SampleIndex.new .checked [0, 1, 2, 3, 4, 5, 6, 7, 40] 32 ∧
    (SampleIndex.new .checked [0, 1, 2, 3, 4, 5, 6, 7, 40] 32).isOk = true ∧
    gen_SampleIndex_new .checked [0, 1, 2, 3, 4, 5, 6, 7, 8] 32 =
      SampleIndex.new .checked [0, 1, 2, 3, 4, 5, 6, 7, 8] 32 ∧
    (SampleIndex.new .checked [0, 1, 2, 3, 4, 5, 6, 7, 8] 32).isOk = true := by decide +kernel

end Sds.GenEq
