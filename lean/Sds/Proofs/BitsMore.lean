/-
Proofs/BitsMore: specifications of the bit counting primitives and of the two in-word select paths.
-/
import Sds.Proofs.Tables
set_option linter.unusedSimpArgs false
set_option linter.unusedVariables false

namespace Sds
open Outcome Generated

/-! ### ctz -/

theorem ctzFrom_spec (w : Word) : ∀ (fuel i : Nat),
    i ≤ ctzFrom w fuel i ∧ ctzFrom w fuel i ≤ i + fuel ∧
    (∀ j, i ≤ j → j < ctzFrom w fuel i → w.getLsbD j = false) ∧
    (ctzFrom w fuel i < i + fuel → w.getLsbD (ctzFrom w fuel i) = true)
  | 0, i => by simp [ctzFrom]; intro j h1 h2; omega
  | fuel + 1, i => by
    unfold ctzFrom
    by_cases hb : w.getLsbD i = true
    · simp only [hb, if_true]
      refine ⟨Nat.le_refl _, by omega, ?_, fun _ => trivial⟩
      intro j h1 h2; omega
    · have hb' : w.getLsbD i = false := by simpa using hb
      simp only [hb', Bool.false_eq_true, if_false]
      have ih := ctzFrom_spec w fuel (i + 1)
      refine ⟨by omega, by omega, ?_, ?_⟩
      · intro j h1 h2
        by_cases hj : j = i
        · subst hj; simpa using hb
        · exact ih.2.2.1 j (by omega) h2
      · intro h; exact ih.2.2.2 (by omega)

theorem exists_bit_of_ne_zero (w : Word) (h : w ≠ 0) : ∃ i, i < 64 ∧ w.getLsbD i = true := by
  apply Classical.byContradiction
  intro hn
  apply h
  apply BitVec.eq_of_getLsbD_eq
  intro i hi
  have : ¬ w.getLsbD i = true := fun hb => hn ⟨i, hi, hb⟩
  simpa using this

theorem ctz_zero : ctz (0 : Word) = 64 := by decide

theorem ctz_le (w : Word) : ctz w ≤ 64 := by
  have := (ctzFrom_spec w 64 0).2.1; unfold ctz; omega

theorem ctz_spec (w : Word) (h : w ≠ 0) :
    ctz w < 64 ∧ w.getLsbD (ctz w) = true ∧ ∀ j, j < ctz w → w.getLsbD j = false := by
  obtain ⟨i, hi, hb⟩ := exists_bit_of_ne_zero w h
  have s := ctzFrom_spec w 64 0
  unfold ctz
  have hlt : ctzFrom w 64 0 < 64 := by
    apply Classical.byContradiction
    intro hn
    have := s.2.2.1 i (by omega) (by omega)
    rw [hb] at this; cases this
  exact ⟨hlt, s.2.2.2 (by omega), fun j hj => s.2.2.1 j (by omega) hj⟩

/-- characterisation used later: the first set bit -/
theorem ctz_eq_of (w : Word) (p : Nat) (hp : p < 64) (hb : w.getLsbD p = true)
    (hlow : ∀ j, j < p → w.getLsbD j = false) : ctz w = p := by
  have hne : w ≠ 0 := by
    intro h; subst h; simp at hb
  obtain ⟨h1, h2, h3⟩ := ctz_spec w hne
  by_cases hlt : ctz w < p
  · have := hlow _ hlt; rw [h2] at this; cases this
  · by_cases hgt : p < ctz w
    · have := h3 _ hgt; rw [hb] at this; cases this
    · omega

/-! ### clz -/

theorem clzBelow_spec (w : Word) : ∀ k : Nat,
    clzBelow w k ≤ k ∧
    (∀ j, k - clzBelow w k ≤ j → j < k → w.getLsbD j = false) ∧
    (clzBelow w k < k → w.getLsbD (k - 1 - clzBelow w k) = true)
  | 0 => by simp [clzBelow]
  | k + 1 => by
    unfold clzBelow
    by_cases hb : w.getLsbD k = true
    · simp only [hb, if_true]
      refine ⟨by omega, ?_, ?_⟩
      · intro j h1 h2; omega
      · intro _; simpa using hb
    · have hb' : w.getLsbD k = false := by simpa using hb
      simp only [hb', Bool.false_eq_true, if_false]
      have ih := clzBelow_spec w k
      refine ⟨by omega, ?_, ?_⟩
      · intro j h1 h2
        by_cases hj : j = k
        · subst hj; simpa using hb
        · exact ih.2.1 j (by omega) (by omega)
      · intro h
        have := ih.2.2 (by omega)
        have e : k + 1 - 1 - (1 + clzBelow w k) = k - 1 - clzBelow w k := by omega
        rw [e]; exact this

theorem clz_zero : clz (0 : Word) = 64 := by decide

theorem clz_le (w : Word) : clz w ≤ 64 := (clzBelow_spec w 64).1

theorem clz_spec (w : Word) (h : w ≠ 0) :
    clz w < 64 ∧ w.getLsbD (63 - clz w) = true ∧
      ∀ j, 63 - clz w < j → j < 64 → w.getLsbD j = false := by
  obtain ⟨i, hi, hb⟩ := exists_bit_of_ne_zero w h
  have s := clzBelow_spec w 64
  unfold clz
  have hlt : clzBelow w 64 < 64 := by
    apply Classical.byContradiction
    intro hn
    have := s.2.1 i (by omega) hi
    rw [hb] at this; cases this
  refine ⟨hlt, ?_, ?_⟩
  · have := s.2.2 hlt
    simpa using this
  · intro j h1 h2
    exact s.2.1 j (by omega) h2

/-! ### bit_len -/

theorem or_one_ne_zero (n : Word) : n ||| 1 ≠ 0 := by
  intro h
  have : (n ||| 1).getLsbD 0 = true := by simp
  rw [h] at this; simp at this

theorem bitLen_zero : bitLen (0 : Word) = 1 := by decide

theorem bitLen_spec (n : Word) :
    1 ≤ bitLen n ∧ bitLen n ≤ 64 ∧ n.toNat < 2 ^ bitLen n ∧
      (n ≠ 0 → 2 ^ (bitLen n - 1) ≤ n.toNat) := by
  obtain ⟨h1, h2, h3⟩ := clz_spec (n ||| 1) (or_one_ne_zero n)
  unfold bitLen
  refine ⟨by omega, by omega, ?_, ?_⟩
  · apply Nat.lt_pow_two_of_testBit
    intro j hj
    by_cases hj64 : j < 64
    · have := h3 j (by omega) hj64
      rw [BitVec.getLsbD_or] at this
      have : n.getLsbD j = false := by
        cases hh : n.getLsbD j <;> simp [hh] at this ⊢
      rw [BitVec.getLsbD] at this
      exact this
    · have : n.getLsbD j = false := BitVec.getLsbD_of_ge _ _ (by omega)
      rw [BitVec.getLsbD] at this
      exact this
  · intro hne
    by_cases hc : clz (n ||| 1) = 63
    · rw [hc]
      have : n.toNat ≠ 0 := by
        intro h0; apply hne; apply BitVec.eq_of_toNat_eq; simpa using h0
      simp; omega
    · have e : 64 - clz (n ||| 1) - 1 = 63 - clz (n ||| 1) := by omega
      rw [e]
      have hk : 63 - clz (n ||| 1) ≠ 0 := by omega
      generalize 63 - clz (n ||| 1) = k at h2 hk
      have hb : n.getLsbD k = true := by
        rw [BitVec.getLsbD_or] at h2
        have : (1 : Word).getLsbD k = false := by
          simp [BitVec.getLsbD_one, hk]
        rw [this, Bool.or_false] at h2; exact h2
      rw [BitVec.getLsbD] at hb
      exact Nat.ge_two_pow_of_testBit hb

/-! ### reverse_low -/

theorem reverseLow_getLsbD (n : Word) (bits i : Nat) (h1 : 1 ≤ bits) (h2 : bits ≤ 64) :
    (reverseLow n bits).getLsbD i = (decide (i < bits) && n.getLsbD (bits - 1 - i)) := by
  unfold reverseLow
  rw [BitVec.getLsbD_ushiftRight, BitVec.getLsbD_reverse, BitVec.getMsbD]
  by_cases hi : i < bits
  · have e : 64 - 1 - (64 - bits + i) = bits - 1 - i := by omega
    have h3 : 64 - bits + i < 64 := by omega
    simp [hi, e, h3]
  · have h3 : ¬ (64 - bits + i < 64) := by omega
    simp [hi, h3]

/-! ### popcount -/

/-- number of `true` among `f 0 .. f (n-1)` -/
def cntF (f : Nat → Bool) (n : Nat) : Nat := ((List.range n).map f).count true

theorem cntF_succ (f : Nat → Bool) (n : Nat) :
    cntF f (n + 1) = cntF f n + (if f n then 1 else 0) := by
  unfold cntF
  rw [List.range_succ, List.map_append, List.count_append]
  cases h : f n <;> simp [h]

theorem cntF_congr (f g : Nat → Bool) : ∀ n, (∀ i, i < n → f i = g i) → cntF f n = cntF g n
  | 0, _ => rfl
  | n + 1, h => by
    rw [cntF_succ, cntF_succ, cntF_congr f g n (fun i hi => h i (by omega)), h n (by omega)]

theorem cntF_false (f : Nat → Bool) : ∀ n, (∀ i, i < n → f i = false) → cntF f n = 0
  | 0, _ => rfl
  | n + 1, h => by
    rw [cntF_succ, cntF_false f n (fun i hi => h i (by omega)), h n (by omega)]; rfl

theorem cntF_le (f : Nat → Bool) : ∀ n, cntF f n ≤ n
  | 0 => Nat.le_refl _
  | n + 1 => by
    have := cntF_le f n
    rw [cntF_succ]; split <;> omega

theorem cntF_mono (f : Nat → Bool) (a b : Nat) (h : a ≤ b) : cntF f a ≤ cntF f b := by
  induction b with
  | zero => have : a = 0 := by omega
            subst this; exact Nat.le_refl _
  | succ b ih =>
    by_cases hab : a = b + 1
    · subst hab; exact Nat.le_refl _
    · have := ih (by omega)
      rw [cntF_succ]; omega

theorem cntF_add (f : Nat → Bool) (a : Nat) : ∀ b,
    cntF f (a + b) = cntF f a + cntF (fun i => f (a + i)) b
  | 0 => rfl
  | b + 1 => by
    rw [← Nat.add_assoc, cntF_succ, cntF_succ, cntF_add f a b]; omega

theorem cntF_split (f : Nat → Bool) (o n : Nat) (h : o ≤ n) :
    cntF f n = cntF f o + cntF (fun i => f (o + i)) (n - o) := by
  rw [← cntF_add]; congr 1; omega

theorem map_range_take (f : Nat → Bool) (o n : Nat) (h : o ≤ n) :
    ((List.range n).map f).take o = (List.range o).map f := by
  rw [← List.map_take, List.take_range, Nat.min_eq_left h]

theorem map_range_drop (f : Nat → Bool) (o n : Nat) (h : o ≤ n) :
    ((List.range n).map f).drop o = (List.range (n - o)).map (fun i => f (o + i)) := by
  have e : n = o + (n - o) := by omega
  conv => lhs; rw [e, List.range_add, List.map_append]
  rw [List.drop_left' (by simp)]
  simp [List.map_map, Function.comp_def]

theorem take_bitsOfWord_count (w : Word) (o : Nat) (ho : o ≤ 64) :
    ((bitsOfWord w).take o).count true = cntF (fun i => w.getLsbD i) o := by
  unfold bitsOfWord cntF
  rw [map_range_take _ _ _ ho]

theorem popcount_eq_cntF (w : Word) : popcount w = cntF (fun i => w.getLsbD i) 64 := rfl

theorem popcount_and_lowSet (w : Word) (o : Nat) (ho : o ≤ 64) :
    popcount (w &&& lowSet o) = ((bitsOfWord w).take o).count true := by
  rw [take_bitsOfWord_count w o ho, popcount_eq_cntF]
  rw [cntF_split _ o 64 ho, cntF_false _ (64 - o), Nat.add_zero]
  · apply cntF_congr
    intro i hi
    rw [BitVec.getLsbD_and, lowSet_getLsbD _ _ (by omega)]
    simp [hi]
  · intro i hi
    rw [BitVec.getLsbD_and, lowSet_getLsbD _ _ (by omega)]
    simp

theorem popcount_le (w : Word) : popcount w ≤ 64 := by
  rw [popcount_eq_cntF]; exact cntF_le _ _

theorem popcount_and_not_lowSet (w : Word) (o : Nat) (ho : o ≤ 64) :
    popcount (w &&& ~~~ lowSet o) = ((bitsOfWord w).drop o).count true := by
  have hd : ((bitsOfWord w).drop o).count true = cntF (fun i => w.getLsbD (o + i)) (64 - o) := by
    unfold bitsOfWord cntF
    rw [map_range_drop _ _ _ ho]
  rw [hd, popcount_eq_cntF]
  rw [cntF_split _ o 64 ho, cntF_false _ o, Nat.zero_add]
  · apply cntF_congr
    intro i hi
    rw [BitVec.getLsbD_and, BitVec.getLsbD_not, lowSet_getLsbD _ _ (by omega)]
    have : o + i < 64 := by omega
    simp [this]
  · intro i hi
    rw [BitVec.getLsbD_and, BitVec.getLsbD_not, lowSet_getLsbD _ _ (by omega)]
    simp [hi]

/-! ### selectBits -/

theorem selectBits_isSome : ∀ (B : List Bool) (r : Nat),
    (selectBits B r).isSome = decide (r < B.count true)
  | [], r => by simp [selectBits]
  | true :: bs, 0 => by simp [selectBits]
  | true :: bs, r + 1 => by
    simp [selectBits, selectBits_isSome bs r]
  | false :: bs, r => by
    simp [selectBits, selectBits_isSome bs r]

theorem selectBits_spec : ∀ (B : List Bool) (r p : Nat),
    selectBits B r = some p ↔ (p < B.length ∧ B[p]? = some true ∧ (B.take p).count true = r)
  | [], r, p => by simp [selectBits]
  | true :: bs, 0, p => by
    cases p with
    | zero => simp [selectBits]
    | succ q => simp [selectBits]
  | true :: bs, r + 1, p => by
    cases p with
    | zero => simp [selectBits]
    | succ q =>
      have ih := selectBits_spec bs r q
      simp only [selectBits, Option.map_eq_some_iff, List.length_cons, List.getElem?_cons_succ,
        List.take_succ_cons, List.count_cons_self]
      constructor
      · rintro ⟨a, ha, hq⟩
        have : a = q := by omega
        subst this
        have := ih.1 ha
        exact ⟨by omega, this.2.1, by omega⟩
      · rintro ⟨h1, h2, h3⟩
        exact ⟨q, ih.2 ⟨by omega, h2, by omega⟩, rfl⟩
  | false :: bs, r, p => by
    cases p with
    | zero => simp [selectBits]
    | succ q =>
      have ih := selectBits_spec bs r q
      simp only [selectBits, Option.map_eq_some_iff, List.length_cons, List.getElem?_cons_succ,
        List.take_succ_cons]
      have hc : ∀ l : List Bool, (false :: l).count true = l.count true := by
        intro l; simp
      rw [hc]
      constructor
      · rintro ⟨a, ha, hq⟩
        have : a = q := by omega
        subst this
        have := ih.1 ha
        exact ⟨by omega, this.2.1, this.2.2⟩
      · rintro ⟨h1, h2, h3⟩
        exact ⟨q, ih.2 ⟨by omega, h2, h3⟩, rfl⟩

theorem selectBits_lt_length (B : List Bool) (r p : Nat) (h : selectBits B r = some p) :
    p < B.length := ((selectBits_spec B r p).1 h).1

theorem selectBits_unique (B : List Bool) (r p q : Nat) (hp : selectBits B r = some p)
    (hq : selectBits B r = some q) : p = q := by
  rw [hp] at hq; exact Option.some.inj hq

theorem bitsOfWord_length (w : Word) : (bitsOfWord w).length = 64 := by simp [bitsOfWord]

theorem bitsOfWord_getElem? (w : Word) (p : Nat) (hp : p < 64) :
    (bitsOfWord w)[p]? = some (w.getLsbD p) := by
  simp [bitsOfWord, hp]

/-- in-word select, stated with bits and ranks of the word -/
theorem selectBits_word_iff (w : Word) (r p : Nat) :
    selectBits (bitsOfWord w) r = some p ↔
      (p < 64 ∧ w.getLsbD p = true ∧ cntF (fun i => w.getLsbD i) p = r) := by
  rw [selectBits_spec, bitsOfWord_length]
  constructor
  · rintro ⟨h1, h2, h3⟩
    rw [bitsOfWord_getElem? w p h1] at h2
    rw [take_bitsOfWord_count w p (by omega)] at h3
    exact ⟨h1, Option.some.inj h2, h3⟩
  · rintro ⟨h1, h2, h3⟩
    rw [bitsOfWord_getElem? w p h1, take_bitsOfWord_count w p (by omega)]
    exact ⟨h1, by rw [h2], h3⟩

theorem selectBits_word_exists (w : Word) (r : Nat) (h : r < popcount w) :
    ∃ p, selectBits (bitsOfWord w) r = some p := by
  have := selectBits_isSome (bitsOfWord w) r
  have h' : r < (bitsOfWord w).count true := h
  rw [decide_eq_true h'] at this
  exact Option.isSome_iff_exists.1 this


/-! ### PDEP and the BMI2 select path -/

/-- rank of position `j` in `w`: number of set bits strictly below `j` -/
def rankW (w : Word) (j : Nat) : Nat := cntF (fun i => w.getLsbD i) j

theorem rankW_succ (w : Word) (j : Nat) :
    rankW w (j + 1) = rankW w j + (if w.getLsbD j then 1 else 0) := cntF_succ _ _

theorem one_shl_getLsbD (i j : Nat) (hj : j < 64) :
    ((1 : Word) <<< i).getLsbD j = decide (j = i) := by
  rw [BitVec.getLsbD_shiftLeft]
  by_cases h : j = i
  · subst h; simp [hj]
  · by_cases h2 : j < i
    · simp [h, h2]
    · have : j - i ≠ 0 := by omega
      simp [h, this, hj, h2]

/-- bit-level specification of the PDEP loop -/
theorem pdepAux_getLsbD (src mask : Word) : ∀ (fuel i : Nat) (acc : Word) (j : Nat), j < 64 →
    (pdepAux src mask fuel i (rankW mask i) acc).getLsbD j =
      (acc.getLsbD j ||
        (decide (i ≤ j ∧ j < i + fuel) && mask.getLsbD j && src.getLsbD (rankW mask j)))
  | 0, i, acc, j, hj => by
    have : ¬ (i ≤ j ∧ j < i) := by omega
    simp [pdepAux, this]
  | fuel + 1, i, acc, j, hj => by
    unfold pdepAux
    cases hm : mask.getLsbD i
    · simp only [Bool.false_eq_true, if_false]
      have hr : rankW mask (i + 1) = rankW mask i := by rw [rankW_succ, hm]; rfl
      have ih := pdepAux_getLsbD src mask fuel (i + 1) acc j hj
      rw [hr] at ih
      rw [ih]
      by_cases hji : j = i
      · subst hji
        have : ¬ (j + 1 ≤ j ∧ j < j + 1 + fuel) := by omega
        simp [hm, this]
      · have : (i + 1 ≤ j ∧ j < i + 1 + fuel) ↔ (i ≤ j ∧ j < i + (fuel + 1)) := by omega
        simp only [this]
    · simp only [if_true]
      have hr : rankW mask (i + 1) = rankW mask i + 1 := by rw [rankW_succ, hm]; rfl
      have ih := pdepAux_getLsbD src mask fuel (i + 1)
        (if src.getLsbD (rankW mask i) then acc ||| ((1 : Word) <<< i) else acc) j hj
      rw [hr] at ih
      rw [ih]
      by_cases hji : j = i
      · subst hji
        have h1 : ¬ (j + 1 ≤ j ∧ j < j + 1 + fuel) := by omega
        have h2 : (j ≤ j ∧ j < j + (fuel + 1)) := by omega
        cases hs : src.getLsbD (rankW mask j)
        · simp [hm, h1, h2, hs]
        · simp only [if_true]
          rw [BitVec.getLsbD_or, one_shl_getLsbD _ _ hj]
          simp [hm, h1, h2, hs]
      · have h1 : (i + 1 ≤ j ∧ j < i + 1 + fuel) ↔ (i ≤ j ∧ j < i + (fuel + 1)) := by omega
        simp only [h1]
        cases hs : src.getLsbD (rankW mask i)
        · simp [hs]
        · simp only [if_true]
          rw [BitVec.getLsbD_or, one_shl_getLsbD _ _ hj]
          simp [hs, hji]

/-- PDEP, bit by bit: bit `j` of the result is set iff bit `j` of the mask is set and the source bit
whose index is the rank of `j` in the mask is set. -/
theorem pdep_getLsbD (src mask : Word) (j : Nat) (hj : j < 64) :
    (pdep src mask).getLsbD j = (mask.getLsbD j && src.getLsbD (rankW mask j)) := by
  unfold pdep
  have := pdepAux_getLsbD src mask 64 0 0 j hj
  have h0 : rankW mask 0 = 0 := rfl
  rw [h0] at this
  rw [this]
  have : (0 ≤ j ∧ j < 0 + 64) := by omega
  simp [this]

theorem rankW_le (w : Word) (j : Nat) : rankW w j ≤ j := cntF_le _ _

/-- BMI2 path of in-word select is correct for every word and every rank below the population count -/
theorem selectPdep_spec (n : Word) (r : Nat) (h : r < popcount n) :
    selectBits (bitsOfWord n) r = some (selectPdep n r) := by
  obtain ⟨p, hp⟩ := selectBits_word_exists n r h
  have hr64 : r < 64 := by have := popcount_le n; omega
  obtain ⟨hp1, hp2, hp3⟩ := (selectBits_word_iff n r p).1 hp
  have hbit : ∀ j, j < 64 → (pdep ((1 : Word) <<< r) n).getLsbD j =
      (n.getLsbD j && decide (rankW n j = r)) := by
    intro j hj
    rw [pdep_getLsbD _ _ _ hj, one_shl_getLsbD _ _ (by have := rankW_le n j; omega)]
  have : selectPdep n r = p := by
    unfold selectPdep
    apply ctz_eq_of _ p hp1
    · rw [hbit p hp1, hp2]
      have : rankW n p = r := hp3
      simp [this]
    · intro j hj
      rw [hbit j (by omega)]
      cases hb : n.getLsbD j
      · rfl
      · by_cases hrk : rankW n j = r
        · have := (selectBits_word_iff n r j).2 ⟨by omega, hb, hrk⟩
          have := selectBits_unique _ _ _ _ hp this
          omega
        · simp [hrk]
  rw [this]; exact hp


/-! ### SWAR byte-wise population counts -/

/-- `0x0101…01` with `k` bytes -/
def rep : Nat → Nat
  | 0 => 0
  | k + 1 => 1 + 256 * rep k

/-- value of a little-endian list of bytes -/
def bv : List Nat → Nat
  | [] => 0
  | b :: bs => b + 256 * bv bs

theorem and_split (a m X Y : Nat) (ha : a < 256) (hm : m < 256) :
    (a + 256 * X) &&& (m + 256 * Y) = (a &&& m) + 256 * (X &&& Y) := by
  have ham : a &&& m < 2 ^ 8 := Nat.and_lt_two_pow a (by omega)
  have e1 : a + 256 * X = 2 ^ 8 * X + a := by omega
  have e2 : m + 256 * Y = 2 ^ 8 * Y + m := by omega
  have e3 : (a &&& m) + 256 * (X &&& Y) = 2 ^ 8 * (X &&& Y) + (a &&& m) := by omega
  rw [e1, e2, e3]
  apply Nat.eq_of_testBit_eq
  intro j
  rw [Nat.testBit_and, Nat.testBit_two_pow_mul_add _ (by omega), Nat.testBit_two_pow_mul_add _ (by omega),
    Nat.testBit_two_pow_mul_add _ ham]
  by_cases hj : j < 8 <;> simp [hj, Nat.testBit_and]

def f1 (b : Nat) : Nat := b - ((b / 2) &&& 0x55)
def f2 (b : Nat) : Nat := (b &&& 0x33) + ((b / 4) &&& 0x33)
def f3 (b : Nat) : Nat := (b + b / 16) &&& 0x0F
def pop8 (b : Nat) : Nat := (byteBits b).count true

theorem byte_fact1 : ∀ b, b < 256 → ∀ t, t < 2 → (b / 2 + 128 * t) &&& 0x55 = (b / 2) &&& 0x55 := by
  decide +kernel
theorem byte_fact2 : ∀ b, b < 256 → ∀ t, t < 4 → (b / 4 + 64 * t) &&& 0x33 = (b / 4) &&& 0x33 := by
  decide +kernel
theorem byte_fact3 : ∀ b, b < 256 → ∀ t, t < 16 → b % 16 ≤ 4 → b / 16 ≤ 4 → t ≤ 4 →
    (b + b / 16 + 16 * t) &&& 0x0F = (b + b / 16) &&& 0x0F := by
  decide +kernel
theorem byte_pop : ∀ b, b < 256 →
    f1 b < 256 ∧ f2 (f1 b) % 16 ≤ 4 ∧ f2 (f1 b) / 16 ≤ 4 ∧ f3 (f2 (f1 b)) = pop8 b ∧ pop8 b ≤ 8 := by
  decide +kernel

theorem rep_succ_mul (c k : Nat) : c * rep (k + 1) = c + 256 * (c * rep k) := by
  show c * (1 + 256 * rep k) = _
  rw [Nat.mul_add, Nat.mul_one, Nat.mul_left_comm]

theorem S1_bv : ∀ bs : List Nat, (∀ b ∈ bs, b < 256) →
    bv bs - ((bv bs / 2) &&& (0x55 * rep bs.length)) = bv (bs.map f1)
  | [], _ => by simp [bv]
  | b :: bs, h => by
    have hb : b < 256 := h b (by simp)
    have ih := S1_bv bs (fun x hx => h x (by simp [hx]))
    simp only [List.length_cons, List.map_cons, bv]
    rw [rep_succ_mul]
    have e : (b + 256 * bv bs) / 2 = (b / 2 + 128 * (bv bs % 2)) + 256 * (bv bs / 2) := by omega
    rw [e, and_split _ _ _ _ (by omega) (by omega), byte_fact1 b hb _ (by omega), ← ih]
    have h1 : (b / 2) &&& 0x55 ≤ b / 2 := Nat.and_le_left
    have h2 : (bv bs / 2) &&& (0x55 * rep bs.length) ≤ bv bs / 2 := Nat.and_le_left
    unfold f1
    generalize (b / 2) &&& 0x55 = y at h1 ⊢
    generalize (bv bs / 2) &&& (0x55 * rep bs.length) = Y at h2 ⊢
    omega

theorem S2_bv : ∀ bs : List Nat, (∀ b ∈ bs, b < 256) →
    (bv bs &&& (0x33 * rep bs.length)) + ((bv bs / 4) &&& (0x33 * rep bs.length)) = bv (bs.map f2)
  | [], _ => by simp [bv]
  | b :: bs, h => by
    have hb : b < 256 := h b (by simp)
    have ih := S2_bv bs (fun x hx => h x (by simp [hx]))
    simp only [List.length_cons, List.map_cons, bv]
    rw [rep_succ_mul]
    have e : (b + 256 * bv bs) / 4 = (b / 4 + 64 * (bv bs % 4)) + 256 * (bv bs / 4) := by omega
    rw [e, and_split b _ _ _ hb (by omega), and_split (b / 4 + 64 * (bv bs % 4)) _ _ _ (by omega) (by omega),
      byte_fact2 b hb _ (by omega), ← ih]
    unfold f2
    omega

theorem bv_mod16 (bs : List Nat) (h : ∀ b ∈ bs, b % 16 ≤ 4) : bv bs % 16 ≤ 4 := by
  cases bs with
  | nil => simp [bv]
  | cons c cs =>
    have := h c (by simp)
    simp only [bv]; omega

theorem S3_bv : ∀ bs : List Nat, (∀ b ∈ bs, b < 256 ∧ b % 16 ≤ 4 ∧ b / 16 ≤ 4) →
    (bv bs + bv bs / 16) &&& (0x0F * rep bs.length) = bv (bs.map f3)
  | [], _ => by simp [bv]
  | b :: bs, h => by
    obtain ⟨hb, hb1, hb2⟩ := h b (by simp)
    have ih := S3_bv bs (fun x hx => h x (by simp [hx]))
    have hX := bv_mod16 bs (fun x hx => (h x (by simp [hx])).2.1)
    simp only [List.length_cons, List.map_cons, bv]
    rw [rep_succ_mul]
    have e : b + 256 * bv bs + (b + 256 * bv bs) / 16 =
        (b + b / 16 + 16 * (bv bs % 16)) + 256 * (bv bs + bv bs / 16) := by omega
    rw [e, and_split _ _ _ _ (by omega) (by omega),
      byte_fact3 b hb _ (by omega) hb1 hb2 hX, ih]
    rfl

/-- the three SWAR steps turn every byte into its population count -/
theorem swar_bv (bs : List Nat) (h : ∀ b ∈ bs, b < 256) :
    let k := bs.length
    let c1 := bv bs - ((bv bs / 2) &&& (0x55 * rep k))
    let c2 := (c1 &&& (0x33 * rep k)) + ((c1 / 4) &&& (0x33 * rep k))
    (c2 + c2 / 16) &&& (0x0F * rep k) = bv (bs.map pop8) := by
  intro k c1 c2
  have h1 : c1 = bv (bs.map f1) := S1_bv bs h
  have hf1 : ∀ b ∈ bs.map f1, b < 256 := by
    intro x hx
    obtain ⟨b, hb, rfl⟩ := List.mem_map.1 hx
    exact (byte_pop b (h b hb)).1
  have h2 : c2 = bv ((bs.map f1).map f2) := by
    have := S2_bv (bs.map f1) hf1
    rw [List.length_map] at this
    show (c1 &&& _) + _ = _
    rw [h1]; exact this
  have hf2 : ∀ b ∈ (bs.map f1).map f2, b < 256 ∧ b % 16 ≤ 4 ∧ b / 16 ≤ 4 := by
    intro x hx
    obtain ⟨y, hy, rfl⟩ := List.mem_map.1 hx
    obtain ⟨b, hb, rfl⟩ := List.mem_map.1 hy
    have := byte_pop b (h b hb)
    refine ⟨?_, this.2.1, this.2.2.1⟩
    omega
  have h3 := S3_bv _ hf2
  rw [List.length_map, List.length_map] at h3
  rw [h2, h3, List.map_map, List.map_map]
  apply congrArg
  apply List.map_congr_left
  intro b hb
  exact (byte_pop b (h b hb)).2.2.2.1

/-- byte `k` of a word -/
def byteOf (n : Word) (k : Nat) : Nat := n.toNat / 256 ^ k % 256

def bsOf (n : Word) : List Nat := (List.range 8).map (byteOf n)

theorem byteOf_lt (n : Word) (k : Nat) : byteOf n k < 256 := Nat.mod_lt _ (by decide)

theorem bv_bsOf (n : Word) : bv (bsOf n) = n.toNat := by
  have h := n.isLt
  simp only [bsOf, byteOf, List.range, List.range.loop, List.map, bv, Nat.reducePow]
  omega

theorem rep8 : rep 8 = 0x0101010101010101 := by decide

def swarC3 (n : Word) : Word :=
  let c1 := n - ((n >>> 1) &&& 0x5555555555555555#64)
  let c2 := (c1 &&& 0x3333333333333333#64) + ((c1 >>> 2) &&& 0x3333333333333333#64)
  (c2 + (c2 >>> 4)) &&& 0x0F0F0F0F0F0F0F0F#64

theorem swarC3_toNat (n : Word) : (swarC3 n).toNat = bv ((bsOf n).map pop8) := by
  have key := swar_bv (bsOf n) (by
    intro b hb
    obtain ⟨k, _, rfl⟩ := List.mem_map.1 hb
    exact byteOf_lt n k)
  have hl : (bsOf n).length = 8 := by simp [bsOf]
  simp only [hl, rep8, bv_bsOf, Nat.reduceMul] at key
  rw [← key]
  have hN := n.isLt
  unfold swarC3
  simp only [BitVec.toNat_and, BitVec.toNat_add, BitVec.toNat_sub, BitVec.toNat_ushiftRight,
    BitVec.toNat_ofNat, Nat.shiftRight_eq_div_pow, Nat.reducePow, Nat.reduceMod]
  have h1 : (n.toNat / 2) &&& 6148914691236517205 ≤ n.toNat / 2 := Nat.and_le_left
  generalize (n.toNat / 2) &&& 6148914691236517205 = Y at h1 ⊢
  have e1 : (18446744073709551616 - Y + n.toNat) % 18446744073709551616 = n.toNat - Y := by omega
  rw [e1]
  generalize n.toNat - Y = c1
  have h2 : c1 &&& 3689348814741910323 ≤ 3689348814741910323 := Nat.and_le_right
  have h3 : (c1 / 4) &&& 3689348814741910323 ≤ 3689348814741910323 := Nat.and_le_right
  generalize c1 &&& 3689348814741910323 = A at h2 ⊢
  generalize (c1 / 4) &&& 3689348814741910323 = B at h3 ⊢
  have e2 : (A + B) % 18446744073709551616 = A + B := by omega
  rw [e2]
  have e3 : (A + B + (A + B) / 16) % 18446744073709551616 = A + B + (A + B) / 16 := by omega
  rw [e3]

theorem byteOf_testBit (n : Word) (k i : Nat) (hi : i < 8) :
    (byteOf n k).testBit i = n.getLsbD (8 * k + i) := by
  unfold byteOf
  have e : (256 : Nat) ^ k = 2 ^ (8 * k) := by rw [Nat.pow_mul]
  rw [e, show (256 : Nat) = 2 ^ 8 from rfl, Nat.testBit_mod_two_pow, Nat.testBit_div_two_pow,
    BitVec.getLsbD]
  simp [hi, Nat.add_comm]

theorem pop8_byteOf (n : Word) (k : Nat) :
    pop8 (byteOf n k) = cntF (fun i => n.getLsbD (8 * k + i)) 8 := by
  unfold pop8 byteBits
  show cntF (fun i => (byteOf n k).testBit i) 8 = _
  apply cntF_congr
  intro i hi
  exact byteOf_testBit n k i hi

theorem rankW_add (n : Word) (a b : Nat) :
    rankW n (a + b) = rankW n a + cntF (fun i => n.getLsbD (a + i)) b := cntF_add _ a b

theorem rankW_byte (n : Word) (k : Nat) :
    rankW n (8 * k + 8) = rankW n (8 * k) + pop8 (byteOf n k) := by
  rw [rankW_add, pop8_byteOf]

theorem pop8_le (b : Nat) : pop8 b ≤ 8 := by
  unfold pop8 byteBits
  exact Nat.le_trans (List.count_le_length) (by simp)

/-- the eight cumulative byte counts `q k = rank (8k+8)` -/
theorem swarC3_explicit (n : Word) :
    (swarC3 n).toNat =
      pop8 (byteOf n 0) + 256 * (pop8 (byteOf n 1) + 256 * (pop8 (byteOf n 2) + 256 * (pop8 (byteOf n 3) +
      256 * (pop8 (byteOf n 4) + 256 * (pop8 (byteOf n 5) + 256 * (pop8 (byteOf n 6) +
      256 * (pop8 (byteOf n 7) + 256 * 0))))))) := by
  rw [swarC3_toNat]
  rfl

/-- `cumulative`: byte `k` holds the number of set bits below position `8k+8` -/
theorem cumulative_toNat (n : Word) :
    (swarC3 n * 0x0101010101010101#64).toNat =
      rankW n 8 + 256 * rankW n 16 + 256 ^ 2 * rankW n 24 + 256 ^ 3 * rankW n 32 +
      256 ^ 4 * rankW n 40 + 256 ^ 5 * rankW n 48 + 256 ^ 6 * rankW n 56 + 256 ^ 7 * rankW n 64 := by
  rw [BitVec.toNat_mul, swarC3_explicit]
  have h0 : rankW n 0 = 0 := rfl
  have r0 := rankW_byte n 0
  have r1 := rankW_byte n 1
  have r2 := rankW_byte n 2
  have r3 := rankW_byte n 3
  have r4 := rankW_byte n 4
  have r5 := rankW_byte n 5
  have r6 := rankW_byte n 6
  have r7 := rankW_byte n 7
  have l0 := pop8_le (byteOf n 0)
  have l1 := pop8_le (byteOf n 1)
  have l2 := pop8_le (byteOf n 2)
  have l3 := pop8_le (byteOf n 3)
  have l4 := pop8_le (byteOf n 4)
  have l5 := pop8_le (byteOf n 5)
  have l6 := pop8_le (byteOf n 6)
  have l7 := pop8_le (byteOf n 7)
  simp only [Nat.reduceMul, Nat.reduceAdd, Nat.reducePow, BitVec.toNat_ofNat, Nat.reduceMod] at *
  omega

/-- eight bytes packed little-endian -/
def packQ (q : Nat → Nat) : Nat :=
  q 0 + 256 * q 1 + 256 ^ 2 * q 2 + 256 ^ 3 * q 3 + 256 ^ 4 * q 4 + 256 ^ 5 * q 5 + 256 ^ 6 * q 6 +
    256 ^ 7 * q 7

theorem cases8 (k : Nat) (hk : k < 8) :
    k = 0 ∨ k = 1 ∨ k = 2 ∨ k = 3 ∨ k = 4 ∨ k = 5 ∨ k = 6 ∨ k = 7 := by omega

theorem pack_lt (q : Nat → Nat) (hq : ∀ k, q k < 256) : packQ q < 2 ^ 64 := by
  have h0 := hq 0; have h1 := hq 1; have h2 := hq 2; have h3 := hq 3
  have h4 := hq 4; have h5 := hq 5; have h6 := hq 6; have h7 := hq 7
  simp only [packQ, Nat.reducePow]
  omega

theorem pack_byte (q : Nat → Nat) (hq : ∀ k, q k < 256) (k : Nat) (hk : k < 8) :
    packQ q / 256 ^ k % 256 = q k := by
  have h0 := hq 0; have h1 := hq 1; have h2 := hq 2; have h3 := hq 3
  have h4 := hq 4; have h5 := hq 5; have h6 := hq 6; have h7 := hq 7
  rcases cases8 k hk with rfl | rfl | rfl | rfl | rfl | rfl | rfl | rfl <;>
    (simp only [packQ, Nat.reducePow]; omega)

theorem pack_add_const (q : Nat → Nat) (c : Nat) :
    packQ q + c * 0x0101010101010101 = packQ (fun k => q k + c) := by
  simp only [packQ, Nat.reducePow]
  omega

theorem pack_shift_byte (q : Nat → Nat) (hq : ∀ k, q k < 256) (k : Nat) (hk : k < 8) :
    (packQ q * 256 % 2 ^ 64) / 2 ^ (8 * k) % 256 = if k = 0 then 0 else q (k - 1) := by
  have h0 := hq 0; have h1 := hq 1; have h2 := hq 2; have h3 := hq 3
  have h4 := hq 4; have h5 := hq 5; have h6 := hq 6; have h7 := hq 7
  rcases cases8 k hk with rfl | rfl | rfl | rfl | rfl | rfl | rfl | rfl <;>
    (simp only [packQ, Nat.reducePow, Nat.reduceMul, Nat.reduceSub]; simp <;> omega)

theorem testBit_byte (X k i : Nat) (hi : i < 8) :
    (X / 256 ^ k % 256).testBit i = X.testBit (8 * k + i) := by
  have e : (256 : Nat) ^ k = 2 ^ (8 * k) := by rw [Nat.pow_mul]
  rw [e, show (256 : Nat) = 2 ^ 8 from rfl, Nat.testBit_mod_two_pow, Nat.testBit_div_two_pow]
  simp [hi, Nat.add_comm]

theorem testBit7 (t : Nat) (ht : t < 256) : t.testBit 7 = decide (128 ≤ t) := by
  rw [Nat.testBit_eq_decide_div_mod_eq]
  by_cases h : 128 ≤ t
  · have : t / 2 ^ 7 % 2 = 1 := by omega
    simp [h, this]
  · have : ¬ (t / 2 ^ 7 % 2 = 1) := by omega
    simp [h, this]

theorem mask80_getLsbD : ∀ j, j < 64 → (0x8080808080808080#64).getLsbD j = decide (j % 8 = 7) := by
  decide

theorem rankW_le64 (n : Word) (j : Nat) : rankW n j ≤ 64 := by
  by_cases h : j ≤ 64
  · have := rankW_le n j; omega
  · unfold rankW
    rw [cntF_split _ 64 j (by omega), cntF_false _ (j - 64)]
    · have := cntF_le (fun i => n.getLsbD i) 64; omega
    · intro i _; exact BitVec.getLsbD_of_ge _ _ (by omega)

theorem rankW_mono (n : Word) (a b : Nat) (h : a ≤ b) : rankW n a ≤ rankW n b := cntF_mono _ a b h

theorem rankW_64 (n : Word) : rankW n 64 = popcount n := rfl

theorem byteBits_length (b : Nat) : (byteBits b).length = 8 := by simp [byteBits]

/-- select inside byte `k` lifts to select in the word -/
theorem select_in_byte_lift (n : Word) (r k : Nat) (hk : k < 8) (hlo : rankW n (8 * k) ≤ r)
    (hhi : r < rankW n (8 * k + 8)) :
    ∃ e, e < 8 ∧ selectBits (byteBits (byteOf n k)) (r - rankW n (8 * k)) = some e ∧
      selectBits (bitsOfWord n) r = some (8 * k + e) := by
  have hb := rankW_byte n k
  have hsome := selectBits_isSome (byteBits (byteOf n k)) (r - rankW n (8 * k))
  have hlt : r - rankW n (8 * k) < (byteBits (byteOf n k)).count true := by
    show _ < pop8 (byteOf n k); omega
  rw [decide_eq_true hlt] at hsome
  obtain ⟨e, he⟩ := Option.isSome_iff_exists.1 hsome
  obtain ⟨h1, h2, h3⟩ := (selectBits_spec _ _ _).1 he
  rw [byteBits_length] at h1
  have h2' : (byteOf n k).testBit e = true := by
    have : (byteBits (byteOf n k))[e]? = some ((byteOf n k).testBit e) := by
      simp [byteBits, h1]
    rw [this] at h2; exact Option.some.inj h2
  have h3' : cntF (fun i => (byteOf n k).testBit i) e = r - rankW n (8 * k) := by
    rw [← h3]; unfold byteBits cntF
    rw [map_range_take _ _ _ (by omega)]
  refine ⟨e, h1, he, ?_⟩
  rw [selectBits_word_iff]
  refine ⟨by omega, ?_, ?_⟩
  · rw [← byteOf_testBit n k e h1]; exact h2'
  · show rankW n (8 * k + e) = r
    rw [rankW_add]
    have : cntF (fun i => n.getLsbD (8 * k + i)) e = cntF (fun i => (byteOf n k).testBit i) e := by
      apply cntF_congr
      intro i hi
      exact (byteOf_testBit n k i (by omega)).symm
    rw [this, h3']; omega

/-- least index where a sequence exceeds `r` -/
theorem first_exceeds (q : Nat → Nat) (r : Nat) : ∀ n, q n > r →
    ∃ k, k ≤ n ∧ q k > r ∧ ∀ j, j < k → q j ≤ r
  | 0, h => ⟨0, Nat.le_refl _, h, fun j hj => by omega⟩
  | n + 1, h => by
    by_cases hex : ∃ j, j ≤ n ∧ q j > r
    · obtain ⟨j, hj, hq⟩ := hex
      obtain ⟨k, hk, h1, h2⟩ := first_exceeds q r j hq
      exact ⟨k, by omega, h1, h2⟩
    · refine ⟨n + 1, Nat.le_refl _, h, ?_⟩
      intro j hj
      apply Classical.byContradiction
      intro hc
      exact hex ⟨j, by omega, by omega⟩

/-- last step of `selectPortable`: rank inside the byte and the in-byte table -/
def spFinish (m : Mode) (n cumulative : Word) (rank offset : Nat) : Outcome Nat :=
  subM m rank ((((cumulative <<< 8) >>> offset).toNat) % 256) >>= fun rel =>
  tableU Generated.SELECT_IN_BYTE ((rel <<< 8) + (((n >>> offset).toNat) % 256)) >>= fun e =>
  pure (offset + e.toNat)

/-- the shift guard of `selectPortable` -/
def spGuard (m : Mode) (n cumulative : Word) (rank offset : Nat) : Outcome Nat :=
  if offset ≥ 64 then
    (match m with
     | .checked => fault (.panic .overflow)
     | .wrapping => fault .oob)
  else spFinish m n cumulative rank offset

def spAfterAdd (m : Mode) (n cumulative : Word) (rank s : Nat) : Outcome Nat :=
  spGuard m n cumulative rank
    (((ctz ((BitVec.ofNat 64 s) &&& 0x8080808080808080#64)) >>> 3) <<< 3)

/-- the part of `selectPortable` after the SWAR prefix sums -/
def spTail (m : Mode) (n cumulative : Word) (rank : Nat) : Outcome Nat :=
  tableU Generated.PS_OVERFLOW (rank + 1) >>= fun ov =>
  addM m cumulative.toNat ov.toNat >>= fun s =>
  spAfterAdd m n cumulative rank s

theorem selectPortable_eq (m : Mode) (n : Word) (r : Nat) :
    selectPortable m n r = spTail m n (swarC3 n * 0x0101010101010101#64) r := rfl

/-- bits of the overflow mask: bit `8k+7` is set iff the cumulative count of byte `k` exceeds `r` -/
theorem mask_getLsbD (q : Nat → Nat) (r : Nat) (hq : ∀ k, q k ≤ 64) (hr : r < 64) (j : Nat) (hj : j < 64) :
    ((BitVec.ofNat 64 (packQ (fun k => q k + (127 - r)))) &&& 0x8080808080808080#64).getLsbD j =
      (decide (j % 8 = 7) && decide (r < q (j / 8))) := by
  rw [BitVec.getLsbD_and, mask80_getLsbD j hj, BitVec.getLsbD_ofNat]
  by_cases h7 : j % 8 = 7
  · have ej : j = 8 * (j / 8) + 7 := by omega
    have hk : j / 8 < 8 := by omega
    have ht : ∀ k, (fun k => q k + (127 - r)) k < 256 := by
      intro k; have := hq k; show q k + (127 - r) < 256; omega
    have hb := testBit_byte (packQ (fun k => q k + (127 - r))) (j / 8) 7 (by omega)
    rw [pack_byte _ ht _ hk, ← ej] at hb
    rw [← hb, testBit7 _ (ht (j / 8))]
    have := hq (j / 8)
    by_cases hc : r < q (j / 8)
    · have : 128 ≤ q (j / 8) + (127 - r) := by omega
      simp [hj, h7, hc, this]
    · have : ¬ 128 ≤ q (j / 8) + (127 - r) := by omega
      simp [hj, h7, hc, this]
  · simp [h7]

theorem ctz_mask (q : Nat → Nat) (r k0 : Nat) (hq : ∀ k, q k ≤ 64) (hr : r < 64) (hk0 : k0 < 8)
    (h1 : r < q k0) (h2 : ∀ j, j < k0 → q j ≤ r) :
    ctz ((BitVec.ofNat 64 (packQ (fun k => q k + (127 - r)))) &&& 0x8080808080808080#64) = 8 * k0 + 7 := by
  apply ctz_eq_of _ _ (by omega)
  · rw [mask_getLsbD q r hq hr _ (by omega)]
    have e1 : (8 * k0 + 7) % 8 = 7 := by omega
    have e2 : (8 * k0 + 7) / 8 = k0 := by omega
    simp [e1, e2, h1]
  · intro j hj
    rw [mask_getLsbD q r hq hr _ (by omega)]
    by_cases h7 : j % 8 = 7
    · have : ¬ r < q (j / 8) := by
        have := h2 (j / 8) (by omega); omega
      simp [this]
    · simp [h7]

theorem psOverflow_read (r : Nat) (hr : r < 64) :
    tableU PS_OVERFLOW (r + 1) = ok (BitVec.ofNat 64 ((127 - r) * 0x0101010101010101)) := by
  unfold tableU
  rw [PS_OVERFLOW_get (r + 1) (by omega)]
  have : 128 - (r + 1) = 127 - r := by omega
  rw [this]

theorem psOverflow_toNat (r : Nat) (hr : r < 64) :
    (BitVec.ofNat 64 ((127 - r) * 0x0101010101010101)).toNat = (127 - r) * 0x0101010101010101 := by
  rw [BitVec.toNat_ofNat]; apply Nat.mod_eq_of_lt; omega

theorem cum_prev (cum : Word) (q : Nat → Nat) (hq256 : ∀ k, q k < 256) (k0 : Nat) (hk0' : k0 < 8)
    (hC : cum.toNat = packQ q) :
    ((cum <<< 8) >>> (8 * k0)).toNat % 256 = if k0 = 0 then 0 else q (k0 - 1) := by
  have e8 : (2 : Nat) ^ 8 = 256 := rfl
  rw [BitVec.toNat_ushiftRight, BitVec.toNat_shiftLeft, hC, Nat.shiftLeft_eq,
    Nat.shiftRight_eq_div_pow, e8]
  exact pack_shift_byte q hq256 k0 hk0'

theorem word_byte (n : Word) (k0 : Nat) : (n >>> (8 * k0)).toNat % 256 = byteOf n k0 := by
  rw [BitVec.toNat_ushiftRight, Nat.shiftRight_eq_div_pow, Nat.pow_mul]; rfl

theorem selectInByte_read (b rel e : Nat) (hb : b < 256) (hrel : rel < 8)
    (hsel : selectBits (byteBits b) rel = some e) :
    tableU SELECT_IN_BYTE ((rel <<< 8) + b) = ok (BitVec.ofNat 64 e) := by
  have e0 : (rel <<< 8) + b = rel * 256 + b := by rw [Nat.shiftLeft_eq]
  rw [e0]
  unfold tableU
  rw [SELECT_IN_BYTE_get _ (by omega)]
  have e1 : (rel * 256 + b) % 256 = b := by omega
  have e2 : (rel * 256 + b) / 256 = rel := by omega
  simp only [selectInByteNat, e1, e2, hsel, Option.getD_some]

theorem spTail_run (m : Mode) (n cum : Word) (q : Nat → Nat) (r k0 e : Nat)
    (hC : cum.toNat = packQ q) (hq : ∀ k, q k ≤ 64) (hr : r < 64) (hk0' : k0 < 8)
    (hk1 : r < q k0) (hk2 : ∀ j, j < k0 → q j ≤ r)
    (hprev : (if k0 = 0 then 0 else q (k0 - 1)) = rankW n (8 * k0))
    (hlo : rankW n (8 * k0) ≤ r) (hrel : r - rankW n (8 * k0) < 8) (he8 : e < 8)
    (hsel : selectBits (byteBits (byteOf n k0)) (r - rankW n (8 * k0)) = some e) :
    spTail m n cum r = ok (8 * k0 + e) := by
  have hq256 : ∀ k, q k < 256 := fun k => by have := hq k; omega
  have hs : packQ q + (127 - r) * 0x0101010101010101 = packQ (fun k => q k + (127 - r)) :=
    pack_add_const q (127 - r)
  have hslt : packQ q + (127 - r) * 0x0101010101010101 < U64 := by
    rw [hs, U64_eq]; apply pack_lt; intro k; have := hq k; show q k + (127 - r) < 256; omega
  have hctz := ctz_mask q r k0 hq hr hk0' hk1 hk2
  have hoff : ((8 * k0 + 7) >>> 3) <<< 3 = 8 * k0 := by
    rw [Nat.shiftRight_eq_div_pow, Nat.shiftLeft_eq]; omega
  have hnot : ¬ (8 * k0 ≥ 64) := by omega
  have hprevN := cum_prev cum q hq256 k0 hk0' hC
  rw [hprev] at hprevN
  have heN : (BitVec.ofNat 64 e).toNat = e := by
    rw [BitVec.toNat_ofNat]; apply Nat.mod_eq_of_lt; omega
  unfold spTail
  rw [psOverflow_read r hr, bind_ok, psOverflow_toNat r hr, hC, addM_ok hslt, bind_ok, hs]
  unfold spAfterAdd
  rw [hctz, hoff]
  unfold spGuard
  rw [if_neg hnot]
  unfold spFinish
  rw [hprevN, subM_ok hlo, bind_ok, word_byte,
    selectInByte_read _ _ _ (byteOf_lt n k0) hrel hsel, bind_ok, heN]
  rfl

/-- Portable (SWAR) path of in-word select is correct, in both arithmetic modes, for every word and
every rank below the population count; in particular no step faults. -/
theorem selectPortable_spec (m : Mode) (n : Word) (r : Nat) (h : r < popcount n) :
    ∃ p, selectPortable m n r = Outcome.ok p ∧ selectBits (bitsOfWord n) r = some p := by
  have hr : r < 64 := by have := popcount_le n; omega
  have hq : ∀ k, rankW n (8 * k + 8) ≤ 64 := fun k => rankW_le64 n _
  have hq7 : rankW n (8 * 7 + 8) > r := by
    show rankW n 64 > r; rw [rankW_64]; exact h
  obtain ⟨k0, hk0, hk1, hk2⟩ := first_exceeds (fun k => rankW n (8 * k + 8)) r 7 hq7
  have hk0' : k0 < 8 := by omega
  have hprev : (if k0 = 0 then 0 else rankW n (8 * (k0 - 1) + 8)) = rankW n (8 * k0) := by
    by_cases hz : k0 = 0
    · subst hz; rfl
    · have : 8 * (k0 - 1) + 8 = 8 * k0 := by omega
      rw [if_neg hz, this]
  have hlo : rankW n (8 * k0) ≤ r := by
    rw [← hprev]
    by_cases hz : k0 = 0
    · rw [if_pos hz]; exact Nat.zero_le _
    · rw [if_neg hz]; exact hk2 _ (by omega)
  obtain ⟨e, he8, hsel, hword⟩ := select_in_byte_lift n r k0 hk0' hlo hk1
  have hrel : r - rankW n (8 * k0) < 8 := by
    have := rankW_byte n k0
    have := pop8_le (byteOf n k0)
    have : rankW n (8 * k0 + 8) > r := hk1
    omega
  refine ⟨8 * k0 + e, ?_, hword⟩
  rw [selectPortable_eq]
  exact spTail_run m n _ (fun k => rankW n (8 * k + 8)) r k0 e (cumulative_toNat n) hq hr hk0' hk1 hk2
    hprev hlo hrel he8 hsel

end Sds
