/-
Proofs/SafeApi:
  A. (C08) the SAFE `Transformation::word` of the public trait (`wordSafeT`) and the safe entry points of the support
     structures (`safely`): never `oob`, for every well-formed raw vector and EVERY index; value in range; panic out of
     range; the mutated guard (`index == last_index` instead of `index >= last_index`) reads out of bounds.
  B. (C07, finding F13) `split` / `combine` of the sparse vector AS FIRST WRITTEN (`splitOld`, `combineOld`) against the
     model's definitions and against a transcription of the guarded (repaired) Rust code (`splitGuarded`,
     `combineGuarded`): equal below width 64, different at width 64; the repaired code is what the model computes.
-/
import Sds.Proofs.Select
import Sds.Proofs.Format2

namespace Sds.SafeApi
open Sds Outcome SupportProofs

/-! ## A. the safe `Transformation::word` -/

/-- a well-formed vector has exactly the words with `64 * i < len` -/
theorem lt_size_iff {v : RawVec} (hv : v.WF) (i : Nat) : i < v.data.size ↔ 64 * i < v.len := by
  rw [hv.1]; omega

/-- in range, the safe and the unchecked variant are the same computation -/
theorem wordSafeT_eq_wordT (tr : Tr) (v : RawVec) (i : Nat) (hi : i < v.data.size) :
    wordSafeT tr v i = wordT tr v i := by
  unfold wordSafeT wordT
  cases tr
  · rw [getC_ok hi, getW_ok hi]
  · simp only [getC_ok hi, getW_ok hi, bind_ok, pure_eq]

/-- in range: the value (`wordTv` of Proofs/Select) -/
theorem wordSafeT_eq (tr : Tr) (v : RawVec) (i : Nat) (hi : i < v.data.size) :
    wordSafeT tr v i = ok (wordTv tr v i) := by
  rw [wordSafeT_eq_wordT tr v i hi, wordT_eq tr v i hi]

/-- out of range (`i ≥ words`): the index panic of the bounds-checked accessor, for both transformations.
The unchecked read of `Complement` is not reached: `i ≥ words ≥ len / 64`. -/
theorem wordSafeT_panic {v : RawVec} (hv : v.WF) (tr : Tr) (i : Nat) (hi : v.data.size ≤ i) :
    wordSafeT tr v i = fault (.panic .index) := by
  have hn : ¬ i < v.data.size := by omega
  unfold wordSafeT
  cases tr
  · simp [getC, hn]
  · have hsz := hv.1
    have hge : i ≥ v.len / 64 := by omega
    simp only [if_pos hge]
    simp [getC, hn]

/-- **never `oob`**: every well-formed vector, every index -/
theorem wordSafeT_ne_oob {v : RawVec} (hv : v.WF) (tr : Tr) (i : Nat) : wordSafeT tr v i ≠ fault .oob := by
  by_cases hi : i < v.data.size
  · rw [wordSafeT_eq tr v i hi]; exact fun h => by cases h
  · rw [wordSafeT_panic hv tr i (by omega)]; exact fun h => by cases h

/-- the two outcomes, exhaustively -/
theorem wordSafeT_cases {v : RawVec} (hv : v.WF) (tr : Tr) (i : Nat) :
    (64 * i < v.len ∧ wordSafeT tr v i = ok (wordTv tr v i)) ∨
    (v.len ≤ 64 * i ∧ wordSafeT tr v i = fault (.panic .index)) := by
  by_cases hi : i < v.data.size
  · exact .inl ⟨(lt_size_iff hv i).mp hi, wordSafeT_eq tr v i hi⟩
  · have : ¬ 64 * i < v.len := fun h => hi ((lt_size_iff hv i).mpr h)
    exact .inr ⟨by omega, wordSafeT_panic hv tr i (by omega)⟩

/-- **in range**: for `64 * i < len` the safe read equals the unchecked one and returns the word whose bit `k` is
bit `64 * i + k` of the transformed bit sequence where that position exists, and 0 beyond `len` -/
theorem wordSafeT_in_range {v : RawVec} (hv : v.WF) (tr : Tr) (i : Nat) (hi : 64 * i < v.len) :
    wordSafeT tr v i = wordT tr v i ∧
    ∃ w, wordSafeT tr v i = ok w ∧ ∀ k, k < 64 →
      (64 * i + k < v.len → (bitsT tr v.bits)[64 * i + k]? = some (w.getLsbD k)) ∧
      (v.len ≤ 64 * i + k → w.getLsbD k = false) := by
  have hsz : i < v.data.size := (lt_size_iff hv i).mpr hi
  refine ⟨wordSafeT_eq_wordT tr v i hsz, wordTv tr v i, wordSafeT_eq tr v i hsz, fun k hk => ⟨fun hlt => ?_, fun hge => ?_⟩⟩
  · have hb := bitsT_getD tr v (64 * i + k)
    have hlen : 64 * i + k < (bitsT tr v.bits).length := by rw [length_bitsT]; exact hlt
    rw [List.getElem?_eq_getElem hlen] at hb ⊢
    simp only [Option.getD_some] at hb
    rw [hb, wordTv_bit hv tr i hsz k hk]
  · rw [wordTv_bit hv tr i hsz k hk, bitT_of_ge tr v _ hge]

/-- the mutated guard: `index == last_index` instead of `index >= last_index` -/
def wordSafeTEq (tr : Tr) (v : RawVec) (index : Nat) : Outcome Word :=
  match tr with
  | .ident => getC v.data index
  | .compl =>
    if index = v.len / 64 then do
      let w ← getC v.data index
      return (~~~ w) &&& lowSet (v.len % 64)
    else do
      let w ← getW v.data index
      return ~~~ w

/-- a well-formed vector of 70 bits (two words) -/
def cexVec : RawVec := ⟨70, #[0x0123456789abcdef, 0x2a]⟩

/-- **the guard is needed as written**: with `==` the call `Complement::word(v, 2)` on a well-formed 70-bit vector
(two words; `last_index = 1`) takes the unchecked branch with an index past the buffer — `oob`; the code as written
panics there -/
theorem wordSafeTEq_oob :
    cexVec.WF ∧ wordSafeTEq .compl cexVec 2 = fault .oob ∧ wordSafeT .compl cexVec 2 = fault (.panic .index) := by
  decide

/-- the safe entry points never yield `oob` -/
theorem safely_ne_oob {α} (x : Outcome α) : safely x ≠ fault .oob := by
  unfold safely
  split
  · exact fun h => by cases h
  · rename_i h
    exact fun e => h (by rw [e])

/-- … and change nothing else -/
theorem safely_eq {α} (x : Outcome α) (h : x ≠ fault .oob) : safely x = x := by
  unfold safely
  split
  · exact absurd rfl h
  · rfl

/-! ## B. F13: `split` / `combine` as first written, the model, and the guarded code -/

theorem shiftAmtOld_lt (m : Mode) (w : Nat) (h : w < 64) : Sparse.shiftAmtOld m w = ok w := by
  simp [Sparse.shiftAmtOld, h]

theorem shiftAmtOld_checked_ge (w : Nat) (h : 64 ≤ w) : Sparse.shiftAmtOld .checked w = fault (.panic .overflow) := by
  have : ¬ w < 64 := by omega
  simp [Sparse.shiftAmtOld, this]

theorem shiftAmtOld_wrapping_ge (w : Nat) (h : 64 ≤ w) : Sparse.shiftAmtOld .wrapping w = ok (w % 64) := by
  have : ¬ w < 64 := by omega
  simp [Sparse.shiftAmtOld, this]

/-- (1) below width 64 the first-written `split` is the model's, in both modes -/
theorem splitOld_eq (m : Mode) (s : Sparse) (i : Nat) (h : s.width < 64) :
    Sparse.splitOld m s i = ok (s.split i) := by
  unfold Sparse.splitOld Sparse.split
  rw [shiftAmtOld_lt m _ h]
  rfl

/-- (1) below width 64 the first-written `combine` is the model's, in both modes -/
theorem combineOld_eq (m : Mode) (s : Sparse) (p : Pos) (h : s.width < 64) :
    Sparse.combineOld m s p = s.combine m p := by
  rw [Sparse.combine_of_lt h]
  unfold Sparse.combineOld
  simp only [shiftAmtOld_lt m _ h, bind_ok]

/-- (2) width 64 (any width ≥ 64), overflow checks on: `split` panics on EVERY index -/
theorem splitOld_checked_w64 (s : Sparse) (i : Nat) (h : 64 ≤ s.width) :
    Sparse.splitOld .checked s i = fault (.panic .overflow) := by
  unfold Sparse.splitOld
  rw [shiftAmtOld_checked_ge _ h]
  rfl

/-- (2) … and `combine` never returns -/
theorem combineOld_checked_w64 (s : Sparse) (p : Pos) (h : 64 ≤ s.width) (r : Nat × Nat) :
    Sparse.combineOld .checked s p ≠ ok r := by
  unfold Sparse.combineOld
  rw [shiftAmtOld_checked_ge _ h]
  cases subM .checked p.high p.low with
  | fault e => exact fun h => by cases h
  | ok d =>
    cases s.low.get p.low with
    | fault e => exact fun h => by cases h
    | ok l => exact fun h => by cases h

/-- (2) width 64, no overflow checks: the shift amount is `64 % 64 = 0`, the high part is the index itself -/
theorem splitOld_wrapping_w64 (s : Sparse) (i : Nat) (h : s.width = 64) :
    Sparse.splitOld .wrapping s i = ok (i, i % 2 ^ 64) := by
  unfold Sparse.splitOld
  rw [shiftAmtOld_wrapping_ge _ (by omega), h]
  rfl

/-- (3) width 64, the model: high part 0, low part the index, for every `usize` index -/
theorem split_w64 (s : Sparse) (i : Nat) (h : s.width = 64) (hi : i < 2 ^ 64) : s.split i = (0, i) := by
  unfold Sparse.split
  rw [h, Nat.shiftRight_eq_div_pow, Nat.div_eq_of_lt hi, Nat.mod_eq_of_lt hi]

/-- (2) at width 64 old and new differ on every index `0 < i < 2^64` -/
theorem splitOld_wrapping_ne_split (s : Sparse) (i : Nat) (h : s.width = 64) (h0 : 0 < i) (hi : i < 2 ^ 64) :
    Sparse.splitOld .wrapping s i ≠ ok (s.split i) := by
  rw [splitOld_wrapping_w64 s i h, split_w64 s i h hi]
  intro e
  injection e with e
  have := congrArg Prod.fst e
  simp only at this
  omega

theorem sp_w64_width : Format2.sp_w64_vec.width = 64 := by decide +kernel

/-- (2) the concrete instance: the loaded 13-element file, index 3 (the one set bit) -/
theorem sp_w64_old_split :
    Sparse.splitOld .checked Format2.sp_w64_vec 3 = fault (.panic .overflow) ∧
    Sparse.splitOld .wrapping Format2.sp_w64_vec 3 = ok (3, 3) ∧
    Format2.sp_w64_vec.split 3 = (0, 3) :=
  ⟨splitOld_checked_w64 _ _ (by rw [sp_w64_width]; exact Nat.le_refl _),
   splitOld_wrapping_w64 _ _ sp_w64_width,
   split_w64 _ _ sp_w64_width (by decide)⟩

/-- (3) every shift by 64 is 0 in a `usize` -/
theorem shl64_mod (d : Nat) : (d <<< 64) % U64 = 0 := by
  rw [Nat.shiftLeft_eq, U64_eq]
  exact Nat.mul_mod_left _ _

/-! ### the guarded (repaired) code, transcribed from `sparse_vector.rs` -/

/-- `Parts { high: if width < 64 { index >> width } else { 0 }, low: index & low_set(width) }` -/
def splitGuarded (s : Sparse) (index : Nat) : Nat × Nat :=
  (if s.width < 64 then index >>> s.width else 0, index &&& (lowSet s.width).toNat)

/-- `let high = if width < 64 { (pos.high - pos.low) << width } else { 0 }; (pos.low, high + low.get(pos.low))` -/
def combineGuarded (m : Mode) (s : Sparse) (p : Pos) : Outcome (Nat × Nat) := do
  let high ← (if s.width < 64 then do
      let d ← subM m p.high p.low
      pure ((d <<< s.width) % U64)
    else pure 0)
  let l ← s.low.get p.low
  let v ← addM m high l.toNat
  return (p.low, v)

theorem lowSet_toNat (w : Nat) (h : w ≤ 64) : (lowSet w).toNat = 2 ^ w - 1 := by
  unfold lowSet
  rw [BitVec.toNat_ofNat]
  apply Nat.mod_eq_of_lt
  have : 2 ^ w ≤ 2 ^ 64 := Nat.pow_le_pow_right (by decide) h
  have : 0 < 2 ^ w := Nat.pow_pos (by decide)
  omega

/-- (3) the guarded `split` is the model's `split`: every width up to 64, every `usize` index -/
theorem splitGuarded_eq (s : Sparse) (i : Nat) (h : s.width ≤ 64) (hi : i < 2 ^ 64) :
    splitGuarded s i = s.split i := by
  unfold splitGuarded Sparse.split
  rw [lowSet_toNat _ h, Nat.and_two_pow_sub_one_eq_mod]
  by_cases hw : s.width < 64
  · rw [if_pos hw]
  · have hw64 : s.width = 64 := by omega
    rw [if_neg hw, hw64, Nat.shiftRight_eq_div_pow, Nat.div_eq_of_lt hi]

/-- (3) the guarded `combine` is the model's `combine`: every width up to 64, both modes -/
theorem combineGuarded_eq (m : Mode) (s : Sparse) (p : Pos) (h : s.width ≤ 64) :
    combineGuarded m s p = s.combine m p := by
  have _ := h
  rfl

end Sds.SafeApi
