/-
Proofs/IntVec: integer vectors behave as plain sequences of naturals below 2^width under any
operation history; the representation is canonical; `pack` keeps the content and selects the
minimal width.
-/
import Sds.Model.IntVec
import Sds.Proofs.RawVec
set_option linter.unusedSimpArgs false
set_option linter.unusedVariables false

namespace Sds
open Outcome

/-! ### 0. truncation to a width -/

theorem getLsbD_and_lowSet (x : Word) (w k : Nat) :
    (x &&& lowSet w).getLsbD k = (decide (k < w) && x.getLsbD k) := by
  by_cases hk : k < 64
  · rw [BitVec.getLsbD_and, lowSet_getLsbD _ _ hk, Bool.and_comm]
  · rw [BitVec.getLsbD_of_ge _ _ (by omega), BitVec.getLsbD_of_ge x _ (by omega)]; simp

theorem toNat_lowSet (w : Nat) (hw : w ≤ 64) : (lowSet w).toNat = 2 ^ w - 1 := by
  unfold lowSet
  rw [BitVec.toNat_ofNat]
  apply Nat.mod_eq_of_lt
  have : 2 ^ w ≤ 2 ^ 64 := Nat.pow_le_pow_right (by decide) hw
  have : 0 < 2 ^ w := Nat.two_pow_pos w
  omega

theorem toNat_and_lowSet (x : Word) (w : Nat) (hw : w ≤ 64) :
    (x &&& lowSet w).toNat = x.toNat % 2 ^ w := by
  rw [BitVec.toNat_and, toNat_lowSet w hw, Nat.and_two_pow_sub_one_eq_mod]

/-- the number with the given binary digits, least significant first -/
def bitsToNat : List Bool → Nat
  | [] => 0
  | b :: bs => b.toNat + 2 * bitsToNat bs

theorem testBit_bitsToNat (L : List Bool) (k : Nat) : (bitsToNat L).testBit k = L.getD k false := by
  induction L generalizing k with
  | nil => simp [bitsToNat]
  | cons b bs ih =>
    cases k with
    | zero =>
      rw [Nat.testBit_zero]
      cases b <;> simp [bitsToNat, Nat.add_mul_mod_self_left] <;> omega
    | succ k =>
      rw [Nat.testBit_succ]
      have : (bitsToNat (b :: bs)) / 2 = bitsToNat bs := by
        cases b <;> simp [bitsToNat] <;> omega
      rw [this, ih]; simp

namespace IntVec

/-! ### 1. content: items, getRaw, bits -/

theorem items_length (v : IntVec) : v.items.length = v.len := by
  unfold items; simp

theorem items_getElem? (v : IntVec) (i : Nat) :
    v.items[i]? = if i < v.len then some (v.getRaw i).toNat else none := by
  unfold items
  by_cases h : i < v.len
  · simp [h]
  · simp [h]

theorem items_getElem (v : IntVec) (i : Nat) (hi : i < v.items.length) :
    v.items[i] = (v.getRaw i).toNat := by
  simp [items]

/-- characterisation of `items` used for all operations -/
theorem items_eq_iff (v : IntVec) (L : List Nat) :
    v.items = L ↔ L.length = v.len ∧ ∀ i, i < v.len → L[i]? = some (v.getRaw i).toNat := by
  constructor
  · intro h; subst h
    refine ⟨items_length v, fun i hi => ?_⟩
    rw [items_getElem?]; simp [hi]
  · rintro ⟨hl, hb⟩
    apply List.ext_getElem?
    intro i
    rw [items_getElem?]
    by_cases hi : i < v.len
    · simp only [hi, if_true]; exact (hb i hi).symm
    · simp only [hi, if_false]
      exact (List.getElem?_eq_none (by omega)).symm

/-- bit `k` of item `i` is bit `i * width + k` of the raw data, and zero at and above the width -/
theorem getRaw_getLsbD {v : IntVec} (h : v.WF) (i k : Nat) :
    (v.getRaw i).getLsbD k = (decide (k < v.width) && getBit v.data.data (i * v.width + k)) := by
  unfold getRaw
  exact RawVec.int_getLsbD _ _ _ h.1 h.2.1 k

/-- the field of item `i` lies inside the raw data -/
theorem field_le {v : IntVec} (i : Nat) (hi : i < v.len) : i * v.width + v.width ≤ v.len * v.width := by
  have : (i + 1) * v.width ≤ v.len * v.width := Nat.mul_le_mul_right _ hi
  rw [Nat.add_mul] at this; omega

theorem getRaw_lt {v : IntVec} (h : v.WF) (i : Nat) : (v.getRaw i).toNat < 2 ^ v.width := by
  apply Nat.lt_pow_two_of_testBit
  intro k hk
  have := getRaw_getLsbD h i k
  rw [BitVec.getLsbD] at this
  rw [this]; simp; omega

theorem items_lt {v : IntVec} (h : v.WF) : ∀ x ∈ v.items, x < 2 ^ v.width := by
  intro x hx
  unfold items at hx
  simp only [List.mem_map, List.mem_range] at hx
  obtain ⟨i, _, rfl⟩ := hx
  exact getRaw_lt h i

theorem getRaw_eq {v : IntVec} (h : v.WF) (i : Nat) (hi : i < v.len) :
    v.items[i]? = some (v.getRaw i).toNat := by
  rw [items_getElem?, if_pos hi]

theorem getRaw_eq_getD {v : IntVec} (i : Nat) (hi : i < v.len) :
    (v.getRaw i).toNat = v.items.getD i 0 := by
  rw [List.getD_eq_getElem?_getD, items_getElem?, if_pos hi]; rfl

theorem getRaw_eq_getElem {v : IntVec} (i : Nat) (hi : i < v.len) :
    (v.getRaw i).toNat = v.items[i]'(by rw [items_length]; exact hi) := by
  rw [items_getElem]

/-- items through bits: bit `k` of item `i` is element `i * width + k` of the bit content -/
theorem items_testBit {v : IntVec} (h : v.WF) (i : Nat) (hi : i < v.len) (k : Nat) :
    (v.items.getD i 0).testBit k = (decide (k < v.width) && v.data.bits.getD (i * v.width + k) false) := by
  rw [← getRaw_eq_getD i hi, ← BitVec.getLsbD, getRaw_getLsbD h]
  by_cases hk : k < v.width
  · have := field_le i hi
    have hlt : i * v.width + k < v.data.len := by rw [h.2.2.1]; omega
    rw [List.getD_eq_getElem?_getD, RawVec.bits_getElem?, if_pos hlt]; rfl
  · simp [hk]

/-- items through bits, as a number: item `i` is the number whose binary digits are
`bits[i*w ..< (i+1)*w)` (least significant first) -/
theorem item_eq_bitsToNat {v : IntVec} (h : v.WF) (i : Nat) (hi : i < v.len) :
    v.items.getD i 0 = bitsToNat ((v.data.bits.drop (i * v.width)).take v.width) := by
  apply Nat.eq_of_testBit_eq
  intro k
  rw [items_testBit h i hi, testBit_bitsToNat, List.getD_eq_getElem?_getD, List.getD_eq_getElem?_getD,
    List.getElem?_take]
  by_cases hk : k < v.width
  · simp [hk]
  · simp [hk]

/-- conversely every bit of the data is a bit of an item -/
theorem getBit_eq_getRaw {v : IntVec} (h : v.WF) (j : Nat) (hj : j < v.len * v.width) :
    getBit v.data.data j = (v.getRaw (j / v.width)).getLsbD (j % v.width) := by
  have hw : 0 < v.width := h.1
  rw [getRaw_getLsbD h, Nat.mul_comm, Nat.div_add_mod]
  simp [Nat.mod_lt _ hw]

/-! ### 2. constructors -/

theorem empty_WF (w : Nat) (h1 : 1 ≤ w) (h2 : w ≤ 64) : (⟨0, w, RawVec.empty⟩ : IntVec).WF :=
  ⟨h1, h2, by simp [RawVec.empty], RawVec.empty_WF⟩

theorem items_empty (w : Nat) (d : RawVec) : (⟨0, w, d⟩ : IntVec).items = [] := by
  simp [items]

theorem new_ok (w : Nat) (h1 : 1 ≤ w) (h2 : w ≤ 64) : IntVec.new w = .ok ⟨0, w, RawVec.empty⟩ := by
  unfold IntVec.new; rw [if_neg (by omega)]

theorem new_ok_spec (w : Nat) (h1 : 1 ≤ w) (h2 : w ≤ 64) :
    ∃ v, IntVec.new w = .ok v ∧ v.WF ∧ v.width = w ∧ v.items = [] :=
  ⟨_, new_ok w h1 h2, empty_WF w h1 h2, rfl, items_empty _ _⟩

theorem new_reject (w : Nat) (h : w = 0 ∨ 64 < w) : IntVec.new w = .fault (.err .other) := by
  unfold IntVec.new; rw [if_pos h]

theorem withCapacity_ok (c w : Nat) (h1 : 1 ≤ w) (h2 : w ≤ 64) :
    IntVec.withCapacity c w = .ok ⟨0, w, RawVec.empty⟩ := new_ok w h1 h2

theorem withCapacity_reject (c w : Nat) (h : w = 0 ∨ 64 < w) :
    IntVec.withCapacity c w = .fault (.err .other) := new_reject w h

theorem withLen_reject (n w : Nat) (x : Word) (h : w = 0 ∨ 64 < w) :
    IntVec.withLen n w x = .fault (.err .other) := by
  unfold IntVec.withLen; rw [if_pos h]

theorem default_spec : IntVec.default.WF ∧ IntVec.default.width = 64 ∧ IntVec.default.items = [] :=
  ⟨empty_WF 64 (by decide) (by decide), rfl, items_empty _ _⟩

/-! ### 3. push -/

@[simp] theorem len_push (v : IntVec) (x : Word) : (v.push x).len = v.len + 1 := rfl
@[simp] theorem width_push (v : IntVec) (x : Word) : (v.push x).width = v.width := rfl

theorem push_WF {v : IntVec} (h : v.WF) (x : Word) : (v.push x).WF := by
  obtain ⟨h1, h2, h3, h4⟩ := h
  refine ⟨h1, h2, ?_, RawVec.pushInt_WF h4 x _ h1 h2⟩
  show (v.data.pushInt x v.width).len = (v.len + 1) * v.width
  rw [RawVec.len_pushInt, h3, Nat.add_mul]; omega

theorem getRaw_push {v : IntVec} (h : v.WF) (x : Word) (i : Nat) (hi : i ≤ v.len) :
    (v.push x).getRaw i = if i = v.len then x &&& lowSet v.width else v.getRaw i := by
  apply BitVec.eq_of_getLsbD_eq
  intro k hk
  rw [getRaw_getLsbD (push_WF h x)]
  show (decide (k < v.width) && getBit (v.data.pushInt x v.width).data (i * v.width + k)) = _
  rw [RawVec.getBit_pushInt h.2.2.2 x _ h.1 h.2.1, h.2.2.1]
  by_cases hk : k < v.width
  · by_cases hil : i = v.len
    · subst hil
      rw [if_pos rfl, if_pos (by omega), getLsbD_and_lowSet]
      simp [hk]
    · have := field_le i (show i < v.len by omega)
      rw [if_neg hil, if_neg (by omega), getRaw_getLsbD h]
  · have : ∀ b : Bool, (decide (k < v.width) && b) = false := by simp [hk]
    rw [this]
    by_cases hil : i = v.len
    · rw [if_pos hil, getLsbD_and_lowSet]; simp [hk]
    · rw [if_neg hil, getRaw_getLsbD h]; simp [hk]

theorem items_push {v : IntVec} (h : v.WF) (x : Word) :
    (v.push x).items = v.items ++ [x.toNat % 2 ^ v.width] := by
  rw [items_eq_iff]
  refine ⟨by simp [items_length], fun i hi => ?_⟩
  rw [len_push] at hi
  rw [getRaw_push h x i (by omega)]
  by_cases hil : i = v.len
  · rw [if_pos hil, toNat_and_lowSet _ _ h.2.1, List.getElem?_append_right (by rw [items_length]; omega)]
    simp [items_length, hil]
  · rw [if_neg hil, List.getElem?_append_left (by rw [items_length]; omega), items_getElem?,
      if_pos (by omega)]

/-! ### 4. get / getOr / set -/

theorem get_ok (v : IntVec) (i : Nat) (hi : i < v.len) : v.get i = .ok (v.getRaw i) := by
  unfold get; rw [if_pos hi]

theorem get_fault (v : IntVec) (i : Nat) (hi : v.len ≤ i) : v.get i = .fault (.panic .assert) := by
  unfold get; rw [if_neg (by omega)]

/-- `get` returns the item of the content -/
theorem get_spec (v : IntVec) (i : Nat) (hi : i < v.len) :
    ∃ r, v.get i = .ok r ∧ v.items[i]? = some r.toNat :=
  ⟨_, get_ok v i hi, by rw [items_getElem?, if_pos hi]⟩

theorem getOr_lt (v : IntVec) (i : Nat) (d : Word) (hi : i < v.len) : v.getOr i d = v.getRaw i := by
  unfold getOr; rw [if_pos hi]

theorem getOr_ge (v : IntVec) (i : Nat) (d : Word) (hi : v.len ≤ i) : v.getOr i d = d := by
  unfold getOr; rw [if_neg (by omega)]

theorem set_ok (v : IntVec) (i : Nat) (x : Word) (hi : i < v.len) :
    v.set i x = .ok { v with data := v.data.setInt (i * v.width) x v.width } := by
  unfold set; rw [if_pos hi]

theorem set_fault (v : IntVec) (i : Nat) (x : Word) (hi : v.len ≤ i) :
    v.set i x = .fault (.panic .assert) := by
  unfold set; rw [if_neg (by omega)]

theorem set_WF {v : IntVec} (h : v.WF) (i : Nat) (hi : i < v.len) (x : Word) :
    ({ v with data := v.data.setInt (i * v.width) x v.width } : IntVec).WF := by
  obtain ⟨h1, h2, h3, h4⟩ := h
  have := field_le i hi
  exact ⟨h1, h2, by rw [RawVec.len_setInt]; exact h3,
    RawVec.setInt_WF h4 _ x _ h1 h2 (by rw [h3]; exact this)⟩

theorem getRaw_set {v : IntVec} (h : v.WF) (i : Nat) (hi : i < v.len) (x : Word) (j : Nat) :
    ({ v with data := v.data.setInt (i * v.width) x v.width } : IntVec).getRaw j =
      if j = i then x &&& lowSet v.width else v.getRaw j := by
  have hf := field_le i hi
  apply BitVec.eq_of_getLsbD_eq
  intro k hk
  rw [getRaw_getLsbD (set_WF h i hi x)]
  show (decide (k < v.width) && getBit (v.data.setInt (i * v.width) x v.width).data (j * v.width + k)) = _
  rw [RawVec.getBit_setInt h.2.2.2 _ x _ h.1 h.2.1 (by rw [h.2.2.1]; exact hf)]
  by_cases hk : k < v.width
  · by_cases hji : j = i
    · subst hji
      rw [if_pos rfl, if_pos (by omega), getLsbD_and_lowSet]
      simp [hk]
    · rw [if_neg hji, getRaw_getLsbD h]
      have : ¬ (i * v.width ≤ j * v.width + k ∧ j * v.width + k < i * v.width + v.width) := by
        rcases Nat.lt_or_gt_of_ne hji with hlt | hgt
        · have : (j + 1) * v.width ≤ i * v.width := Nat.mul_le_mul_right _ hlt
          rw [Nat.add_mul] at this; omega
        · have : (i + 1) * v.width ≤ j * v.width := Nat.mul_le_mul_right _ hgt
          rw [Nat.add_mul] at this; omega
      rw [if_neg this]
  · have : ∀ b : Bool, (decide (k < v.width) && b) = false := by simp [hk]
    rw [this]
    by_cases hji : j = i
    · rw [if_pos hji, getLsbD_and_lowSet]; simp [hk]
    · rw [if_neg hji, getRaw_getLsbD h]; simp [hk]

theorem items_set {v : IntVec} (h : v.WF) (i : Nat) (hi : i < v.len) (x : Word) :
    ∃ v', v.set i x = .ok v' ∧ v'.WF ∧ v'.width = v.width ∧
      v'.items = v.items.set i (x.toNat % 2 ^ v.width) := by
  refine ⟨_, set_ok v i x hi, set_WF h i hi x, rfl, ?_⟩
  rw [items_eq_iff]
  refine ⟨by simp [items_length], fun j hj => ?_⟩
  rw [getRaw_set h i hi x j, List.getElem?_set]
  by_cases hji : j = i
  · subst hji
    rw [if_pos rfl, if_pos rfl, if_pos (by rw [items_length]; exact hi), toNat_and_lowSet _ _ h.2.1]
  · rw [if_neg hji, if_neg (Ne.symm hji), items_getElem?, if_pos hj]

/-- read-after-write through the safe API -/
theorem get_set {v : IntVec} (h : v.WF) (i : Nat) (hi : i < v.len) (x : Word) :
    ∃ v', v.set i x = .ok v' ∧ v'.get i = .ok (x &&& lowSet v.width) := by
  refine ⟨_, set_ok v i x hi, ?_⟩
  rw [get_ok ({ v with data := v.data.setInt (i * v.width) x v.width } : IntVec) i hi,
    getRaw_set h i hi x i, if_pos rfl]

/-! ### 5. truncation and pop -/

/-- shortening to `n ≤ len` items (the common part of `pop` and of a shrinking `resize`) -/
def trunc (v : IntVec) (n : Nat) : IntVec :=
  { v with len := n, data := v.data.resize (n * v.width) false }

theorem trunc_WF {v : IntVec} (h : v.WF) (n : Nat) : (v.trunc n).WF :=
  ⟨h.1, h.2.1, by simp [trunc], RawVec.resize_WF h.2.2.2 _ _⟩

theorem getRaw_trunc {v : IntVec} (h : v.WF) (n : Nat) (hn : n ≤ v.len) (i : Nat) (hi : i < n) :
    (v.trunc n).getRaw i = v.getRaw i := by
  apply BitVec.eq_of_getLsbD_eq
  intro k hk
  rw [getRaw_getLsbD (trunc_WF h n), getRaw_getLsbD h]
  show (decide (k < v.width) && getBit (v.data.resize (n * v.width) false).data (i * v.width + k)) = _
  by_cases hk : k < v.width
  · have h1 : (i + 1) * v.width ≤ n * v.width := Nat.mul_le_mul_right _ hi
    have h2 : n * v.width ≤ v.len * v.width := Nat.mul_le_mul_right _ hn
    rw [Nat.add_mul] at h1
    rw [RawVec.getBit_resize h.2.2.2 _ _ _ (by omega), if_pos (by rw [h.2.2.1]; omega)]
  · simp [hk]

theorem items_trunc {v : IntVec} (h : v.WF) (n : Nat) (hn : n ≤ v.len) :
    (v.trunc n).items = v.items.take n := by
  rw [items_eq_iff]
  refine ⟨by simp [items_length, trunc]; omega, fun i hi => ?_⟩
  have hi' : i < n := hi
  rw [getRaw_trunc h n hn i hi', List.getElem?_take, if_pos hi', items_getElem?, if_pos (by omega)]

theorem pop_empty {v : IntVec} (h : v.WF) (h0 : v.len = 0) : v.pop = (none, v) := by
  unfold pop
  have : v.data.len < v.width := by rw [h.2.2.1, h0]; have := h.1; omega
  rw [RawVec.popInt_short _ _ this]
  cases v; simp_all

theorem pop_eq {v : IntVec} (h : v.WF) (h0 : v.len ≠ 0) :
    v.pop = (some (v.getRaw (v.len - 1)), v.trunc (v.len - 1)) := by
  have hf := field_le (v := v) (v.len - 1) (by omega)
  have hsub : v.data.len - v.width = (v.len - 1) * v.width := by
    rw [h.2.2.1]
    have : (v.len - 1 + 1) * v.width = v.len * v.width := by rw [Nat.sub_add_cancel (by omega)]
    rw [Nat.add_mul] at this; omega
  unfold pop
  rw [RawVec.popInt_eq _ _ h.1 (by rw [h.2.2.1]; omega), hsub]
  simp only [trunc, getRaw]
  rw [if_pos (by omega)]

/-- `pop` on a non-empty vector: the last item comes back, the rest stays -/
theorem pop_spec {v : IntVec} (h : v.WF) (h0 : v.len ≠ 0) :
    (∃ r, v.pop.1 = some r ∧ some r.toNat = v.items.getLast?) ∧
      v.pop.2.WF ∧ v.pop.2.width = v.width ∧ v.pop.2.items = v.items.dropLast := by
  rw [pop_eq h h0]
  refine ⟨⟨_, rfl, ?_⟩, trunc_WF h _, rfl, ?_⟩
  · rw [List.getLast?_eq_getElem?, items_length, items_getElem?, if_pos (by omega)]
  · simp only []
    rw [items_trunc h _ (by omega), List.dropLast_eq_take, items_length]

/-- `pop` on an empty vector returns nothing and changes nothing -/
theorem pop_empty_spec {v : IntVec} (h : v.WF) (h0 : v.len = 0) : v.pop.1 = none ∧ v.pop.2 = v := by
  rw [pop_empty h h0]; exact ⟨rfl, rfl⟩

/-- in both cases the content after `pop` is `dropLast` and the representation stays well formed -/
theorem pop_snd {v : IntVec} (h : v.WF) :
    v.pop.2.WF ∧ v.pop.2.width = v.width ∧ v.pop.2.items = v.items.dropLast := by
  by_cases h0 : v.len = 0
  · rw [pop_empty h h0]
    refine ⟨h, rfl, ?_⟩
    have : v.items = [] := List.eq_nil_of_length_eq_zero (by rw [items_length, h0])
    simp [this]
  · exact (pop_spec h h0).2

/-! ### 6. extend / resize / clear / withLen / ofList -/

theorem extend_spec {v : IntVec} (h : v.WF) (xs : List Word) :
    (v.extend xs).WF ∧ (v.extend xs).width = v.width ∧
      (v.extend xs).items = v.items ++ xs.map (fun x => x.toNat % 2 ^ v.width) := by
  unfold extend
  induction xs generalizing v with
  | nil => simp [h]
  | cons x xs ih =>
    obtain ⟨a, b, c⟩ := ih (push_WF h x)
    rw [List.foldl_cons]
    refine ⟨a, b, ?_⟩
    rw [c, items_push h x, width_push]; simp

/-- pushing the same value `n` times -/
theorem pushN_spec {v : IntVec} (h : v.WF) (x : Word) (n : Nat) :
    ((List.range n).foldl (fun u _ => u.push x) v).WF ∧
    ((List.range n).foldl (fun u _ => u.push x) v).width = v.width ∧
    ((List.range n).foldl (fun u _ => u.push x) v).items =
      v.items ++ List.replicate n (x.toNat % 2 ^ v.width) := by
  induction n with
  | zero => simp [h]
  | succ n ih =>
    obtain ⟨a, b, c⟩ := ih
    rw [List.range_succ, List.foldl_append]
    simp only [List.foldl_cons, List.foldl_nil]
    refine ⟨push_WF a x, b, ?_⟩
    rw [items_push a x, c, b, List.replicate_succ', List.append_assoc]

theorem resize_eq_trunc (v : IntVec) (n : Nat) (x : Word) (hn : n < v.len) :
    v.resize n x = v.trunc n := by
  unfold resize trunc
  rw [if_neg (by omega), if_pos hn]

theorem resize_spec {v : IntVec} (h : v.WF) (n : Nat) (x : Word) :
    (v.resize n x).WF ∧ (v.resize n x).width = v.width ∧
      (v.resize n x).items = v.items.take n ++ List.replicate (n - v.len) (x.toNat % 2 ^ v.width) := by
  by_cases h1 : n > v.len
  · have := pushN_spec h x (n - v.len)
    unfold resize
    rw [if_pos h1]
    rw [List.take_of_length_le (by rw [items_length]; omega)]
    exact this
  · by_cases h2 : n < v.len
    · rw [resize_eq_trunc v n x h2]
      refine ⟨trunc_WF h n, rfl, ?_⟩
      rw [items_trunc h n (by omega), show n - v.len = 0 by omega]; simp
    · have : n = v.len := by omega
      unfold resize
      rw [if_neg h1, if_neg h2]
      refine ⟨h, rfl, ?_⟩
      rw [List.take_of_length_le (by rw [items_length]; omega), show n - v.len = 0 by omega]; simp

theorem clear_spec {v : IntVec} (h : v.WF) :
    v.clear.WF ∧ v.clear.width = v.width ∧ v.clear.items = [] :=
  ⟨empty_WF v.width h.1 h.2.1, rfl, items_empty _ _⟩

theorem withLen_eq (n w : Nat) (x : Word) (h1 : 1 ≤ w) (h2 : w ≤ 64) :
    IntVec.withLen n w x = .ok ((List.range n).foldl (fun u _ => u.push x) ⟨0, w, RawVec.empty⟩) := by
  unfold IntVec.withLen
  rw [if_neg (by omega)]
  congr 1
  induction n with
  | zero => rfl
  | succ n ih =>
    rw [List.range_succ, List.foldl_append, List.foldl_append, ← ih]
    rfl

theorem withLen_spec (n w : Nat) (x : Word) (h1 : 1 ≤ w) (h2 : w ≤ 64) :
    ∃ v, IntVec.withLen n w x = .ok v ∧ v.WF ∧ v.width = w ∧ v.len = n ∧
      v.items = List.replicate n (x.toNat % 2 ^ w) := by
  obtain ⟨a, b, c⟩ := pushN_spec (empty_WF w h1 h2) x n
  refine ⟨_, withLen_eq n w x h1 h2, a, b, ?_, ?_⟩
  · rw [← items_length, c]; simp [items_empty]
  · rw [c, items_empty]; rfl

theorem ofList_spec (w : Nat) (xs : List Nat) (h1 : 1 ≤ w) (h2 : w ≤ 64) :
    (ofList w xs).WF ∧ (ofList w xs).width = w ∧ (ofList w xs).items = xs.map (· % 2 ^ w) := by
  obtain ⟨a, b, c⟩ := extend_spec (empty_WF w h1 h2) (xs.map (BitVec.ofNat 64))
  refine ⟨a, b, ?_⟩
  unfold ofList
  rw [c, items_empty, List.nil_append, List.map_map]
  apply List.map_congr_left
  intro n _
  simp only [Function.comp, BitVec.toNat_ofNat]
  exact Nat.mod_mod_of_dvd n (Nat.pow_dvd_pow 2 h2)

/-- when every element already fits, the content of `ofList` is the list itself -/
theorem ofList_items_of_lt (w : Nat) (xs : List Nat) (h1 : 1 ≤ w) (h2 : w ≤ 64)
    (hx : ∀ x ∈ xs, x < 2 ^ w) : (ofList w xs).items = xs := by
  rw [(ofList_spec w xs h1 h2).2.2]
  conv => rhs; rw [← List.map_id xs]
  apply List.map_congr_left
  intro n hn
  exact Nat.mod_eq_of_lt (hx n hn)

/-! ### 7. canonicity -/

/-- same width and same content ⇒ the same value: same length, same words, hence equal
serialisation, equal `PartialEq`, equal number of set bits -/
theorem canonical {v w : IntVec} (hv : v.WF) (hw : w.WF) (hwd : v.width = w.width)
    (h : v.items = w.items) : v = w := by
  have hl : v.len = w.len := by rw [← items_length v, ← items_length w, h]
  have hr : ∀ i, i < v.len → v.getRaw i = w.getRaw i := by
    intro i hi
    apply BitVec.eq_of_toNat_eq
    have h1 := items_getElem? v i
    have h2 := items_getElem? w i
    rw [h, h2, if_pos (hl ▸ hi), if_pos hi] at h1
    exact (Option.some.inj h1).symm
  have hd : v.data = w.data := by
    apply RawVec.canonical hv.2.2.2 hw.2.2.2
    have hdl : v.data.len = w.data.len := by rw [hv.2.2.1, hw.2.2.1, hl, hwd]
    apply RawVec.bits_eq_of_getBit hdl
    intro j hj
    rw [hv.2.2.1] at hj
    have hpos : 0 < v.width := hv.1
    have hq : j / v.width < v.len := by
      apply Nat.div_lt_of_lt_mul; rw [Nat.mul_comm]; exact hj
    rw [getBit_eq_getRaw hv j hj, getBit_eq_getRaw hw j (by rw [← hl, ← hwd]; exact hj), ← hwd,
      hr _ hq]
  cases v; cases w; simp_all

/-- in particular the number of set bits of the representation is determined by the content -/
theorem canonical_countOnes {v w : IntVec} (hv : v.WF) (hw : w.WF) (hwd : v.width = w.width)
    (h : v.items = w.items) : v.data.countOnes = w.data.countOnes := by
  rw [canonical hv hw hwd h]

end IntVec

/-! ### 8. bit_len and pack -/

theorem clzBelow_le (w : Word) (k : Nat) : clzBelow w k ≤ k := by
  induction k with
  | zero => simp [clzBelow]
  | succ k ih => unfold clzBelow; split <;> omega

theorem clzBelow_clear (w : Word) (k j : Nat) (h1 : k - clzBelow w k ≤ j) (h2 : j < k) :
    w.getLsbD j = false := by
  induction k with
  | zero => omega
  | succ k ih =>
    unfold clzBelow at h1
    by_cases hb : w.getLsbD k
    · rw [if_pos hb] at h1; omega
    · rw [if_neg hb] at h1
      by_cases hj : j = k
      · subst hj; simpa using hb
      · have := clzBelow_le w k
        exact ih (by omega) (by omega)

theorem clzBelow_top (w : Word) (k : Nat) (h : clzBelow w k < k) :
    w.getLsbD (k - clzBelow w k - 1) = true := by
  induction k with
  | zero => omega
  | succ k ih =>
    unfold clzBelow at h ⊢
    by_cases hb : w.getLsbD k
    · rw [if_pos hb]; simpa using hb
    · rw [if_neg hb] at h ⊢
      have := ih (by omega)
      rw [show k + 1 - (1 + clzBelow w k) - 1 = k - clzBelow w k - 1 by omega]
      exact this

/-- `bit_len`: between 1 and 64, the value fits, and (for non-zero values) no smaller width does -/
theorem bitLen_spec_int (n : Word) :
    1 ≤ bitLen n ∧ bitLen n ≤ 64 ∧ n.toNat < 2 ^ bitLen n ∧ (n ≠ 0 → 2 ^ (bitLen n - 1) ≤ n.toNat) := by
  have hle := clzBelow_le (n ||| 1) 64
  have h0 : (n ||| 1).getLsbD 0 = true := by simp
  have hlt : clzBelow (n ||| 1) 64 < 64 := by
    apply Nat.lt_of_le_of_ne hle
    intro he
    have := clzBelow_clear (n ||| 1) 64 0 (by omega) (by omega)
    rw [h0] at this; cases this
  have hbl : bitLen n = 64 - clzBelow (n ||| 1) 64 := rfl
  refine ⟨by omega, by omega, ?_, ?_⟩
  · apply Nat.lt_pow_two_of_testBit
    intro i hi
    show n.getLsbD i = false
    by_cases h64 : i < 64
    · have := clzBelow_clear (n ||| 1) 64 i (by omega) h64
      rw [BitVec.getLsbD_or] at this
      simp only [Bool.or_eq_false_iff] at this
      exact this.1
    · exact BitVec.getLsbD_of_ge _ _ (by omega)
  · intro hn
    have htop := clzBelow_top (n ||| 1) 64 hlt
    rw [hbl]
    by_cases hb : 64 - clzBelow (n ||| 1) 64 - 1 = 0
    · rw [hb]
      have : n.toNat ≠ 0 := fun h => hn (BitVec.eq_of_toNat_eq (by simpa using h))
      simp; omega
    · rw [BitVec.getLsbD_or] at htop
      have gen : ∀ m : Nat, m ≠ 0 → (1 : Word).getLsbD m = false := by
        intro m hm; simp [BitVec.getLsbD_one, hm]
      have h1 := gen _ hb
      rw [h1, Bool.or_false] at htop
      exact Nat.ge_two_pow_of_testBit htop

theorem bitLen_zero_int : bitLen 0 = 1 := by decide

/-- `bit_len` is the least width (≥ 1) in which the value fits -/
theorem bitLen_le_of_lt (n : Word) (w : Nat) (hw : 1 ≤ w) (h : n.toNat < 2 ^ w) : bitLen n ≤ w := by
  by_cases hn : n = 0
  · subst hn; rw [bitLen_zero_int]; exact hw
  · have := (bitLen_spec_int n).2.2.2 hn
    have hlt : 2 ^ (bitLen n - 1) < 2 ^ w := Nat.lt_of_le_of_lt this h
    have := (Nat.pow_lt_pow_iff_right (by decide : 1 < 2)).mp hlt
    omega

/-! maximum of a list by `foldl max` -/

theorem le_foldl_max (L : List Nat) (a : Nat) :
    a ≤ L.foldl max a ∧ ∀ x ∈ L, x ≤ L.foldl max a := by
  induction L generalizing a with
  | nil => simp
  | cons y ys ih =>
    obtain ⟨h1, h2⟩ := ih (max a y)
    rw [List.foldl_cons]
    refine ⟨by omega, fun x hx => ?_⟩
    rcases List.mem_cons.mp hx with rfl | hx
    · omega
    · exact h2 x hx

theorem foldl_max_mem (L : List Nat) (a : Nat) : L.foldl max a = a ∨ L.foldl max a ∈ L := by
  induction L generalizing a with
  | nil => simp
  | cons y ys ih =>
    rw [List.foldl_cons]
    rcases ih (max a y) with h | h
    · rw [h]
      by_cases hay : y ≤ a
      · left; omega
      · right; rw [show max a y = y by omega]; exact List.mem_cons_self
    · right; exact List.mem_cons_of_mem _ h

theorem foldl_max_lt (L : List Nat) (a B : Nat) (ha : a < B) (h : ∀ x ∈ L, x < B) :
    L.foldl max a < B := by
  rcases foldl_max_mem L a with e | e
  · rw [e]; exact ha
  · exact h _ e

namespace IntVec

theorem foldl_push_eq (xs : List Nat) (u : IntVec) :
    xs.foldl (fun u x => u.push (BitVec.ofNat 64 x)) u =
      ⟨u.len + xs.length, u.width,
        xs.foldl (fun d x => d.pushInt (BitVec.ofNat 64 x) u.width) u.data⟩ := by
  induction xs generalizing u with
  | nil => rfl
  | cons x xs ih =>
    rw [List.foldl_cons, ih]
    simp only [push, List.foldl_cons, List.length_cons]
    congr 1; omega

theorem pack_empty (v : IntVec) (h0 : v.len = 0) : v.pack = v := by
  unfold pack; rw [if_pos h0]

theorem pack_same (v : IntVec) (h : bitLen (BitVec.ofNat 64 v.maxItem) = v.width) : v.pack = v := by
  unfold pack; split
  · rfl
  · simp only []; rw [if_pos h]

theorem pack_eq_ofList (v : IntVec) (h0 : v.len ≠ 0)
    (h : bitLen (BitVec.ofNat 64 v.maxItem) ≠ v.width) :
    v.pack = ofList (bitLen (BitVec.ofNat 64 v.maxItem)) v.items := by
  unfold pack ofList extend
  rw [if_neg h0]; simp only []; rw [if_neg h, List.foldl_map, foldl_push_eq]
  simp [items_length]

theorem maxItem_lt {v : IntVec} (h : v.WF) : v.maxItem < 2 ^ 64 := by
  apply foldl_max_lt _ _ _ (Nat.two_pow_pos 64)
  intro x hx
  exact Nat.lt_of_lt_of_le (items_lt h x hx) (Nat.pow_le_pow_right (by decide) h.2.1)

theorem item_lt_pack_width {v : IntVec} (h : v.WF) :
    ∀ x ∈ v.items, x < 2 ^ bitLen (BitVec.ofNat 64 v.maxItem) := by
  intro x hx
  have h1 := (le_foldl_max v.items 0).2 x hx
  have h2 := (bitLen_spec_int (BitVec.ofNat 64 v.maxItem)).2.2.1
  rw [BitVec.toNat_ofNat, Nat.mod_eq_of_lt (maxItem_lt h)] at h2
  exact Nat.lt_of_le_of_lt h1 h2

/-- `pack` keeps the content; on a non-empty vector the new width is `bit_len` of the largest item -/
theorem pack_spec {v : IntVec} (h : v.WF) :
    v.pack.WF ∧ v.pack.items = v.items ∧
      (v.len ≠ 0 → v.pack.width = bitLen (BitVec.ofNat 64 (v.items.foldl max 0))) := by
  by_cases h0 : v.len = 0
  · rw [pack_empty v h0]; exact ⟨h, rfl, fun hn => absurd h0 hn⟩
  · by_cases hs : bitLen (BitVec.ofNat 64 v.maxItem) = v.width
    · rw [pack_same v hs]; exact ⟨h, rfl, fun _ => hs.symm⟩
    · rw [pack_eq_ofList v h0 hs]
      have hb := bitLen_spec_int (BitVec.ofNat 64 v.maxItem)
      obtain ⟨a, b, _⟩ := ofList_spec _ v.items hb.1 hb.2.1
      exact ⟨a, ofList_items_of_lt _ _ hb.1 hb.2.1 (item_lt_pack_width h), fun _ => b⟩

theorem pack_len (v : IntVec) : v.pack.len = v.len := by
  unfold pack; split
  · rfl
  · simp only []; split <;> rfl

/-- the width chosen by `pack` is sufficient and tight: every item fits, and the largest item
(when non-zero) needs all the bits -/
theorem pack_width_tight {v : IntVec} (h : v.WF) (h0 : v.len ≠ 0) :
    (∀ x ∈ v.items, x < 2 ^ v.pack.width) ∧
      (v.items.foldl max 0 ≠ 0 → 2 ^ (v.pack.width - 1) ≤ v.items.foldl max 0) := by
  rw [(pack_spec h).2.2 h0]
  refine ⟨item_lt_pack_width h, fun hne => ?_⟩
  have hb := (bitLen_spec_int (BitVec.ofNat 64 (v.items.foldl max 0))).2.2.2
  have hm : (BitVec.ofNat 64 (v.items.foldl max 0)).toNat = v.items.foldl max 0 := by
    rw [BitVec.toNat_ofNat]; exact Nat.mod_eq_of_lt (maxItem_lt h)
  rw [hm] at hb
  apply hb
  intro he
  rw [he] at hm
  exact hne (by simpa using hm.symm)

/-- the width chosen by `pack` is minimal: no width `w' ≥ 1` that holds all items is smaller -/
theorem pack_width_minimal {v : IntVec} (h : v.WF) (h0 : v.len ≠ 0) (w' : Nat) (hw : 1 ≤ w')
    (hfit : ∀ x ∈ v.items, x < 2 ^ w') : v.pack.width ≤ w' := by
  rw [(pack_spec h).2.2 h0]
  apply bitLen_le_of_lt _ _ hw
  rw [BitVec.toNat_ofNat, Nat.mod_eq_of_lt (show v.items.foldl max 0 < 2 ^ 64 from maxItem_lt h)]
  exact foldl_max_lt _ _ _ (Nat.two_pow_pos w') hfit

/-- `pack` is idempotent -/
theorem pack_pack {v : IntVec} (h : v.WF) : v.pack.pack = v.pack := by
  obtain ⟨a, b, c⟩ := pack_spec h
  by_cases h0 : v.len = 0
  · rw [pack_empty v h0, pack_empty v h0]
  · apply pack_same
    unfold maxItem
    rw [b, c h0]

/-! ### 9. operation histories -/

/-- the mutating operations of the in-memory API -/
inductive Op
  | push (x : Word) | pop | set (i : Nat) (x : Word) | resize (n : Nat) (x : Word)
  | clear | pack | extend (xs : List Word)

/-- effect on the representation (`set` outside its domain panics; the vector is then left as it was) -/
def Op.run : Op → IntVec → IntVec
  | .push x, v => v.push x
  | .pop, v => v.pop.2
  | .set i x, v => match v.set i x with
    | .ok v' => v'
    | .fault _ => v
  | .resize n x, v => v.resize n x
  | .clear, v => v.clear
  | .pack, v => v.pack
  | .extend xs, v => v.extend xs

/-- effect on a plain sequence of naturals together with its item width -/
def Op.spec : Nat × List Nat → Op → Nat × List Nat
  | (w, L), .push x => (w, L ++ [x.toNat % 2 ^ w])
  | (w, L), .pop => (w, L.dropLast)
  | (w, L), .set i x => (w, L.set i (x.toNat % 2 ^ w))
  | (w, L), .resize n x => (w, L.take n ++ List.replicate (n - L.length) (x.toNat % 2 ^ w))
  | (w, _), .clear => (w, [])
  | (w, L), .pack => if L = [] then (w, L) else (bitLen (BitVec.ofNat 64 (L.foldl max 0)), L)
  | (w, L), .extend xs => (w, L ++ xs.map (fun x => x.toNat % 2 ^ w))

theorem Op.spec_pack (w : Nat) (L : List Nat) :
    Op.spec (w, L) .pack =
      if L = [] then (w, L) else (bitLen (BitVec.ofNat 64 (L.foldl max 0)), L) := rfl

/-- documented domain of each operation, given the current length -/
def Op.pre : Op → Nat → Prop
  | .set i _, n => i < n
  | _, _ => True

/-- abstract state of a vector -/
def view (v : IntVec) : Nat × List Nat := (v.width, v.items)

theorem Op.step (op : Op) {v : IntVec} (h : v.WF) (hp : op.pre v.len) :
    (op.run v).WF ∧ view (op.run v) = Op.spec (view v) op := by
  cases op with
  | push x => exact ⟨push_WF h x, by simp [Op.run, Op.spec, view, items_push h x]⟩
  | pop =>
    obtain ⟨a, b, c⟩ := pop_snd h
    exact ⟨a, by simp [Op.run, Op.spec, view, b, c]⟩
  | set i x =>
    obtain ⟨v', e, a, b, c⟩ := items_set h i hp x
    simp only [Op.run, Op.spec, view, e]
    exact ⟨a, by rw [b, c]⟩
  | resize n x =>
    obtain ⟨a, b, c⟩ := resize_spec h n x
    exact ⟨a, by simp [Op.run, Op.spec, view, b, c, items_length]⟩
  | clear =>
    obtain ⟨a, b, c⟩ := clear_spec h
    exact ⟨a, by simp [Op.run, Op.spec, view, b, c]⟩
  | pack =>
    obtain ⟨a, b, c⟩ := pack_spec h
    refine ⟨a, ?_⟩
    show (v.pack.width, v.pack.items) = Op.spec (v.width, v.items) Op.pack
    rw [Op.spec_pack]
    by_cases h0 : v.len = 0
    · have : v.items = [] := List.eq_nil_of_length_eq_zero (by rw [items_length, h0])
      rw [pack_empty v h0]
      split
      · rfl
      · rename_i e; exact absurd this e
    · have : v.items ≠ [] := fun e => h0 (by rw [← items_length, e]; rfl)
      split
      · rename_i e; exact absurd e this
      · rw [b, c h0]
  | extend xs =>
    obtain ⟨a, b, c⟩ := extend_spec h xs
    exact ⟨a, by simp [Op.run, Op.spec, view, b, c]⟩

/-- a history is valid when every operation is applied inside its domain -/
def Valid : List Op → Nat × List Nat → Prop
  | [], _ => True
  | op :: ops, s => op.pre s.2.length ∧ Valid ops (Op.spec s op)

/-- **Integer vectors behave as plain sequences under any operation history**: starting from any
well-formed vector, after any valid history the representation is well formed and its
(width, content) is the result of running the list-level specification on the initial
(width, content). -/
theorem history {v : IntVec} (h : v.WF) (ops : List Op) (hv : Valid ops (view v)) :
    (ops.foldl (fun v op => op.run v) v).WF ∧
      view (ops.foldl (fun v op => op.run v) v) = ops.foldl Op.spec (view v) := by
  induction ops generalizing v with
  | nil => exact ⟨h, rfl⟩
  | cons op ops ih =>
    obtain ⟨hp, hrest⟩ := hv
    have hp' : op.pre v.len := by simpa [view, items_length] using hp
    obtain ⟨h1, h2⟩ := op.step h hp'
    rw [← h2] at hrest
    have := ih h1 hrest
    rw [h2] at this
    exact this

/-- all items stay below `2 ^ width` along any valid history -/
theorem history_items_lt {v : IntVec} (h : v.WF) (ops : List Op) (hv : Valid ops (view v)) :
    ∀ x ∈ (ops.foldl Op.spec (view v)).2, x < 2 ^ (ops.foldl Op.spec (view v)).1 := by
  obtain ⟨a, b⟩ := history h ops hv
  rw [← b]
  exact items_lt a

/-- two valid histories (from any well-formed starting points) whose list-level results agree in
width and content produce identical `IntVec` values: same length, same width, same words; hence equal
`PartialEq`, serialisation and number of set bits. -/
theorem history_canonical {v1 v2 : IntVec} (hw1 : v1.WF) (hw2 : v2.WF) (ops1 ops2 : List Op)
    (h1 : Valid ops1 (view v1)) (h2 : Valid ops2 (view v2))
    (he : ops1.foldl Op.spec (view v1) = ops2.foldl Op.spec (view v2)) :
    ops1.foldl (fun v op => op.run v) v1 = ops2.foldl (fun v op => op.run v) v2 := by
  obtain ⟨a1, b1⟩ := history hw1 ops1 h1
  obtain ⟨a2, b2⟩ := history hw2 ops2 h2
  have : view (ops1.foldl (fun v op => op.run v) v1) = view (ops2.foldl (fun v op => op.run v) v2) := by
    rw [b1, b2, he]
  unfold view at this
  exact canonical a1 a2 (congrArg Prod.fst this) (congrArg Prod.snd this)

/-- the same, for histories starting from freshly created vectors of the same width -/
theorem history_canonical_new (w : Nat) (hw1 : 1 ≤ w) (hw2 : w ≤ 64) (ops1 ops2 : List Op)
    (h1 : Valid ops1 (w, [])) (h2 : Valid ops2 (w, []))
    (he : ops1.foldl Op.spec (w, []) = ops2.foldl Op.spec (w, [])) :
    ops1.foldl (fun v op => op.run v) ⟨0, w, RawVec.empty⟩ =
      ops2.foldl (fun v op => op.run v) ⟨0, w, RawVec.empty⟩ := by
  have hv : view ⟨0, w, RawVec.empty⟩ = (w, []) := by simp [view, items_empty]
  apply history_canonical (empty_WF w hw1 hw2) (empty_WF w hw1 hw2)
  · rw [hv]; exact h1
  · rw [hv]; exact h2
  · rw [hv]; exact he

end IntVec

end Sds
