/-
Proofs/SerShapes: obligations over the serialization shapes extracted from the source on every run
(Generated/SerShape.lean, tools/ser_shape.py).

1. `all_q_joined`: every statement of every `serialize_header` / `serialize_body` in the library is a `?`-joined
   `serialize` / `write_all` step (no `write`, no discarded result, no unknown control flow).  This discharges, for the
   code as it is now, the assumption of the sink theorem of C14 (`serialize` is a `?`-joined sequence of `write_all`s).
2. `*_layout`: the order in which each type writes its fields, the order in which `load` reads them back, and the
   summands of `size_in_elements` are the ones the model codecs (Model/Ser, Sparse, RL, WM) implement.  The equalities
   are `rfl` between the generated value and the literal: any reordering, omission or addition in the source changes
   the generated value and the obligation stops checking.
-/
import Sds.Generated.SerShape
import Sds.Model.WM
import Sds.Model.RL

namespace Sds.SerShapes
open Sds Generated

theorem all_q_joined : allSerShapes.all SerShape.qJoined = true := by decide

theorem number_of_serializers : allSerShapes.length = 14 := rfl

theorem serializer_types : allSerShapes.map (·.type) =
    ["V", "Vec<V>", "Vec<u8>", "String", "Option<V>", "RawVector", "IntVector", "BitVector", "RankSupport",
     "SelectSupport<T>", "SparseVector", "RLVector", "WaveletMatrix", "WMCore"] := rfl

/-- a step that is not `?`-joined is detected (non-vacuity of `all_q_joined`) -/
example : SerShape.qJoined ⟨"X", [.other "let _ = self.len.serialize(writer)"], [], [], []⟩ = false := rfl

theorem primitive_layout :
    serShape_V.header = [] ∧ serShape_V.body = [.writeAll] ∧ serShape_V.size = ["Self::elements()"] := ⟨rfl, rfl, rfl⟩

theorem vec_layout :
    serShape_Vec_V.header = [.localValue "size"] ∧ serShape_Vec_V.body = [.writeAll] ∧
    serShape_Vec_V.loads = ["usize"] ∧ serShape_Vec_V.size = ["1", "self.len() * V::elements()"] := ⟨rfl, rfl, rfl, rfl⟩

theorem bytes_layout :
    serShape_Vec_u8.header = [.localValue "size"] ∧ serShape_Vec_u8.body = [.writeAll, .condWriteAll] ∧
    serShape_Vec_u8.loads = ["usize"] ∧ serShape_Vec_u8.size = ["1", "bits::bytes_to_words(self.len())"] :=
  ⟨rfl, rfl, rfl, rfl⟩

theorem string_layout :
    serShape_String.header = [.localValue "size"] ∧ serShape_String.body = [.writeAll, .condWriteAll] ∧
    serShape_String.loads = ["Vec::<u8>"] ∧ serShape_String.size = ["1", "bits::bytes_to_words(self.len())"] :=
  ⟨rfl, rfl, rfl, rfl⟩

theorem option_layout :
    serShape_Option_V.header = [.localValue "size"] ∧ serShape_Option_V.body = [.optValue] ∧
    serShape_Option_V.loads = ["usize", "V"] := ⟨rfl, rfl, rfl⟩

theorem raw_vector_layout :
    serShape_RawVector.header = [.field "len", .fieldHeader "data"] ∧ serShape_RawVector.body = [.fieldBody "data"] ∧
    serShape_RawVector.loads = ["usize", "<Vec<u64> as Serialize>"] ∧
    serShape_RawVector.size = ["self.len.size_in_elements()", "self.data.size_in_elements()"] := ⟨rfl, rfl, rfl, rfl⟩

theorem int_vector_layout :
    serShape_IntVector.header = [.field "len", .field "width", .fieldHeader "data"] ∧
    serShape_IntVector.body = [.fieldBody "data"] ∧ serShape_IntVector.loads = ["usize", "usize", "RawVector"] ∧
    serShape_IntVector.size = ["self.len.size_in_elements()", "self.width.size_in_elements()", "self.data.size_in_elements()"] :=
  ⟨rfl, rfl, rfl, rfl⟩

theorem bit_vector_layout :
    serShape_BitVector.header = [.field "ones"] ∧
    serShape_BitVector.body = [.field "data", .field "rank", .field "select", .field "select_zero"] ∧
    serShape_BitVector.loads = ["usize", "RawVector", "Option::<RankSupport>", "Option::<SelectSupport<Identity>>",
      "Option::<SelectSupport<Complement>>"] ∧
    serShape_BitVector.size = ["self.ones.size_in_elements()", "self.data.size_in_elements()",
      "self.rank.size_in_elements()", "self.select.size_in_elements()", "self.select_zero.size_in_elements()"] :=
  ⟨rfl, rfl, rfl, rfl⟩

theorem rank_support_layout :
    serShape_RankSupport.header = [.fieldHeader "samples"] ∧ serShape_RankSupport.body = [.fieldBody "samples"] ∧
    serShape_RankSupport.loads = ["Vec::<(u64, u64)>"] ∧ serShape_RankSupport.size = ["self.samples.size_in_elements()"] :=
  ⟨rfl, rfl, rfl, rfl⟩

theorem select_support_layout :
    serShape_SelectSupport_T.header = [] ∧
    serShape_SelectSupport_T.body = [.field "samples", .field "long", .field "short"] ∧
    serShape_SelectSupport_T.loads = ["IntVector", "IntVector", "IntVector"] ∧
    serShape_SelectSupport_T.size = ["self.samples.size_in_elements()", "self.long.size_in_elements()",
      "self.short.size_in_elements()"] := ⟨rfl, rfl, rfl, rfl⟩

theorem sparse_vector_layout :
    serShape_SparseVector.header = [.field "len"] ∧ serShape_SparseVector.body = [.field "high", .field "low"] ∧
    serShape_SparseVector.loads = ["usize", "BitVector", "IntVector"] ∧
    serShape_SparseVector.size = ["self.len.size_in_elements()", "self.high.size_in_elements()",
      "self.low.size_in_elements()"] := ⟨rfl, rfl, rfl, rfl⟩

theorem rl_vector_layout :
    serShape_RLVector.header = [.field "len", .field "ones"] ∧ serShape_RLVector.body = [.field "samples", .field "data"] ∧
    serShape_RLVector.loads = ["usize", "usize", "IntVector", "IntVector"] ∧
    serShape_RLVector.size = ["self.len.size_in_elements()", "self.ones.size_in_elements()",
      "self.samples.size_in_elements()", "self.data.size_in_elements()"] := ⟨rfl, rfl, rfl, rfl⟩

theorem wavelet_matrix_layout :
    serShape_WaveletMatrix.header = [.field "len"] ∧ serShape_WaveletMatrix.body = [.field "data", .field "first"] ∧
    serShape_WaveletMatrix.loads = ["usize", "WMCore", "IntVector"] := ⟨rfl, rfl, rfl⟩

theorem wm_core_layout :
    serShape_WMCore.header = [] ∧ serShape_WMCore.body = [.localValue "width", .each "levels"] ∧
    serShape_WMCore.loads = ["usize", "BitVector"] := ⟨rfl, rfl, rfl⟩

/-! The model codecs write the same fields in the same order (definitional unfoldings of the codecs the C06 / C07 / C14
theorems are about), stated next to the layouts so that the two can be compared line by line. -/

theorem sparse_codec_order (s : Sparse) :
    sparseC.ser s = usizeC.ser s.len ++ (bitVectorC.ser s.high ++ intVecC.ser s.low) := rfl

theorem wm_core_codec_order (c : WMCore) :
    wmCoreC.ser c = usizeC.ser c.width ++ c.levels.toList.flatMap bitVectorC.ser := rfl

end Sds.SerShapes
