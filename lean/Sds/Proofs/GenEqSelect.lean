/-
Proofs/GenEqSelect: the two cfg alternatives of `bits::select` as TRANSLATED statement by statement from the source
(Generated/FnsSelect.lean) against the hand-written model (`selectPortable`, `selectPdep` of Model/Bits.lean).

The translated portable path performs MORE checked operations than the model (the SWAR prefix uses the plain `-` and
`+` of the source, `rank + 1`, `relative_rank << 8`, `… + byte` and the final `offset + …` are all plain operators), so
the statement is: whenever the model returns a value, the translated code returns the same value.  Together with
`selectPortable_spec` this gives the specification of the translated code on `rank < popcount n`.
-/
import Sds.Model.Bits
import Sds.Generated.FnsSelect
import Sds.Proofs.Tables
import Sds.Proofs.BitsMore
import Sds.Proofs.GenEqBits

namespace Sds.GenEq
open Sds Outcome Generated

/-! ### checked word operations that cannot fault -/

/-- one monadic step (an explicit rewrite: the kernel does not have to re-discover it by unfolding) -/
theorem sel_bind {α β} {x : Outcome α} {a : α} (f : α → Outcome β) (hx : x = ok a) : (x >>= f) = f a := by
  subst hx; rfl

theorem sel_subW_ok (m : Mode) (a b : Word) (h : b.toNat ≤ a.toNat) : subW m a b = ok (a - b) := by
  unfold subW
  rw [subM_ok h]
  simp only [bind_ok, pure_eq]
  congr 1
  apply BitVec.eq_of_toNat_eq
  rw [BitVec.toNat_sub, BitVec.toNat_ofNat]
  have ha := a.isLt
  have hb := b.isLt
  omega

theorem sel_addW_ok (m : Mode) (a b : Word) (h : a.toNat + b.toNat < 2 ^ 64) : addW m a b = ok (a + b) := by
  unfold addW
  rw [addM_ok (by rw [U64_eq]; exact h)]
  simp only [bind_ok, pure_eq]
  congr 1

theorem sel_and255 (x : Nat) : x &&& 255 = x % 256 := Nat.and_two_pow_sub_one_eq_mod x 8

theorem sel_step1 (n : Word) : ((n >>> 1) &&& (6148914691236517205 : Word)).toNat ≤ n.toNat := by
  rw [BitVec.toNat_and, BitVec.toNat_ushiftRight, Nat.shiftRight_eq_div_pow]
  have := @Nat.and_le_left (n.toNat / 2 ^ 1) ((6148914691236517205 : Word)).toNat
  omega

theorem sel_and33 (x : Word) : (x &&& (3689348814741910323 : Word)).toNat ≤ 0x3333333333333333 := by
  rw [BitVec.toNat_and]
  exact Nat.and_le_right

theorem sel_step3 (a b : Word) (ha : a.toNat ≤ 0x3333333333333333) (hb : b.toNat ≤ 0x3333333333333333) :
    (a + b).toNat + ((a + b) >>> 4).toNat < 2 ^ 64 := by
  rw [BitVec.toNat_ushiftRight, Nat.shiftRight_eq_div_pow, BitVec.toNat_add]
  omega

/-! ### the SWAR prefix: the translated code reaches the model's `cumulative` without a fault -/

/-- the translated code after the SWAR prefix sums (the statements from `rank + 1` on) -/
def sel_genTail (m : Mode) (n cumulative : Word) (rank : Nat) : Outcome Nat :=
  addM m rank 1 >>= fun t7 =>
  tableU Generated.PS_OVERFLOW t7 >>= fun t8 =>
  addW m cumulative t8 >>= fun t9 =>
  shlW m cumulative 8 >>= fun t10 =>
  shrW m t10 ((((ctz (t9 &&& (9259542123273814144 : Word))) >>> 3) <<< 3) % 4294967296) >>= fun t11 =>
  subM m rank ((t11).toNat &&& 255) >>= fun t12 =>
  shlU m t12 8 >>= fun t13 =>
  shrW m n ((((ctz (t9 &&& (9259542123273814144 : Word))) >>> 3) <<< 3) % 4294967296) >>= fun t14 =>
  addM m t13 ((t14).toNat &&& 255) >>= fun t15 =>
  tableU Generated.SELECT_IN_BYTE t15 >>= fun t16 =>
  addM m ((((ctz (t9 &&& (9259542123273814144 : Word))) >>> 3) <<< 3) % 4294967296) (t16).toNat

theorem sel_prefix (m : Mode) (n : Word) (rank : Nat) :
    gen_select_portable m n rank = sel_genTail m n (swarC3 n * 0x0101010101010101#64) rank := by
  unfold gen_select_portable
  rw [shrW_ok m n (by decide : 1 < 64)]
  simp only [bind_ok]
  rw [sel_subW_ok m _ _ (sel_step1 n)]
  simp only [bind_ok]
  rw [shrW_ok m _ (by decide : 2 < 64)]
  simp only [bind_ok]
  rw [sel_addW_ok m _ _ (by
    have h1 := sel_and33 (n - ((n >>> 1) &&& (6148914691236517205 : Word)))
    have h2 := sel_and33 ((n - ((n >>> 1) &&& (6148914691236517205 : Word))) >>> 2)
    omega)]
  simp only [bind_ok]
  rw [shrW_ok m _ (by decide : 4 < 64)]
  simp only [bind_ok]
  rw [sel_addW_ok m _ _ (sel_step3 _ _ (sel_and33 _) (sel_and33 _))]
  simp only [bind_ok]
  rfl

/-! ### facts about the tables -/

theorem sel_tableU_ok {t : List Nat} {i : Nat} {v : Word} (h : tableU t i = ok v) :
    ∃ x, t[i]? = some x ∧ v = BitVec.ofNat 64 x := by
  unfold tableU at h
  cases hx : t[i]? with
  | none => rw [hx] at h; cases h
  | some x => rw [hx] at h; cases h; exact ⟨x, rfl, rfl⟩

theorem sel_tableU_lt {t : List Nat} {i : Nat} {v : Word} (h : tableU t i = ok v) : i < t.length := by
  obtain ⟨x, hx, _⟩ := sel_tableU_ok h
  exact (List.getElem?_eq_some_iff.1 hx).1

theorem sel_sib_all : SELECT_IN_BYTE.all (fun v => decide (v < 8)) = true := by decide +kernel

theorem sel_sib_small {i : Nat} {v : Word} (h : tableU SELECT_IN_BYTE i = ok v) : v.toNat < 8 := by
  obtain ⟨x, hx, hv⟩ := sel_tableU_ok h
  have hmem : x ∈ SELECT_IN_BYTE := List.mem_of_getElem? hx
  have := List.all_eq_true.1 sel_sib_all x hmem
  have hx8 : x < 8 := by simpa using this
  subst hv
  rw [BitVec.toNat_ofNat]
  exact Nat.lt_of_le_of_lt (Nat.mod_le _ _) hx8

theorem sel_offset_le (w : Word) : ((ctz w) >>> 3) <<< 3 ≤ 64 := by
  have := ctz_le w
  rw [Nat.shiftRight_eq_div_pow, Nat.shiftLeft_eq]
  omega

/-! ### the tail -/

theorem sel_finish (m : Mode) (n cumulative : Word) (rank offset p : Nat) (hoff : offset < 64)
    (h : spFinish m n cumulative rank offset = ok p) :
    (shlW m cumulative 8 >>= fun t10 =>
     shrW m t10 offset >>= fun t11 =>
     subM m rank ((t11).toNat &&& 255) >>= fun t12 =>
     shlU m t12 8 >>= fun t13 =>
     shrW m n offset >>= fun t14 =>
     addM m t13 ((t14).toNat &&& 255) >>= fun t15 =>
     tableU Generated.SELECT_IN_BYTE t15 >>= fun t16 =>
     addM m offset (t16).toNat) = ok p := by
  unfold spFinish at h
  rw [shlW_ok m cumulative (by decide : 8 < 64)]
  simp only [bind_ok]
  rw [shrW_ok m _ hoff, shrW_ok m n hoff]
  simp only [bind_ok, sel_and255]
  cases hrel : subM m rank ((((cumulative <<< 8) >>> offset).toNat) % 256) with
  | fault f => rw [hrel] at h; cases h
  | ok rel =>
    rw [hrel] at h
    simp only [bind_ok] at h ⊢
    cases he : tableU Generated.SELECT_IN_BYTE ((rel <<< 8) + (((n >>> offset).toNat) % 256)) with
    | fault f => rw [he] at h; cases h
    | ok e =>
      rw [he] at h
      simp only [bind_ok, pure_eq] at h
      have hidx := sel_tableU_lt he
      rw [SELECT_IN_BYTE_ok.2] at hidx
      have hsmall := sel_sib_small he
      have hrel8 : rel <<< 8 < 2048 := by omega
      have hU : U64 = 18446744073709551616 := rfl
      have hshl : shlU m rel 8 = ok (rel <<< 8) := by
        unfold shlU
        rw [shAmt_ok m (by decide : 8 < 64)]
        simp only [bind_ok, pure_eq]
        rw [Nat.mod_eq_of_lt (by omega)]
      rw [hshl]
      simp only [bind_ok]
      rw [addM_ok (by omega)]
      simp only [bind_ok]
      rw [he]
      simp only [bind_ok]
      rw [addM_ok (by omega)]
      exact h

theorem sel_afterAdd (m : Mode) (n cumulative : Word) (rank s p : Nat)
    (h : spAfterAdd m n cumulative rank s = ok p) :
    (shlW m cumulative 8 >>= fun t10 =>
     shrW m t10 ((((ctz (BitVec.ofNat 64 s &&& (9259542123273814144 : Word))) >>> 3) <<< 3) % 4294967296) >>= fun t11 =>
     subM m rank ((t11).toNat &&& 255) >>= fun t12 =>
     shlU m t12 8 >>= fun t13 =>
     shrW m n ((((ctz (BitVec.ofNat 64 s &&& (9259542123273814144 : Word))) >>> 3) <<< 3) % 4294967296) >>= fun t14 =>
     addM m t13 ((t14).toNat &&& 255) >>= fun t15 =>
     tableU Generated.SELECT_IN_BYTE t15 >>= fun t16 =>
     addM m ((((ctz (BitVec.ofNat 64 s &&& (9259542123273814144 : Word))) >>> 3) <<< 3) % 4294967296) (t16).toNat)
      = ok p := by
  have e80 : (9259542123273814144 : Word) = 0x8080808080808080#64 := rfl
  rw [e80]
  unfold spAfterAdd spGuard at h
  have hle := sel_offset_le ((BitVec.ofNat 64 s) &&& 0x8080808080808080#64)
  by_cases hge : ((ctz ((BitVec.ofNat 64 s) &&& 0x8080808080808080#64)) >>> 3) <<< 3 ≥ 64
  · rw [if_pos hge] at h
    cases m <;> cases h
  · rw [if_neg hge] at h
    have hmod : (((ctz ((BitVec.ofNat 64 s) &&& 0x8080808080808080#64)) >>> 3) <<< 3) % 4294967296
        = ((ctz ((BitVec.ofNat 64 s) &&& 0x8080808080808080#64)) >>> 3) <<< 3 :=
      Nat.mod_eq_of_lt (Nat.lt_of_le_of_lt hle (by decide))
    rw [hmod]
    exact sel_finish m n cumulative rank _ p (Nat.lt_of_not_ge hge) h

theorem sel_tail (m : Mode) (n cumulative : Word) (rank p : Nat)
    (h : spTail m n cumulative rank = ok p) : sel_genTail m n cumulative rank = ok p := by
  unfold spTail at h
  unfold sel_genTail
  cases hov : tableU Generated.PS_OVERFLOW (rank + 1) with
  | fault f => rw [hov] at h; cases h
  | ok ov =>
    rw [sel_bind _ hov] at h
    have hidx := sel_tableU_lt hov
    rw [PS_OVERFLOW_ok.2] at hidx
    have hU : U64 = 18446744073709551616 := rfl
    have h1 : addM m rank 1 = ok (rank + 1) := addM_ok (by omega)
    rw [sel_bind _ h1, sel_bind _ hov]
    cases hs : addM m cumulative.toNat ov.toNat with
    | fault f => rw [hs] at h; cases h
    | ok s =>
      rw [sel_bind _ hs] at h
      have hw : addW m cumulative ov = ok (BitVec.ofNat 64 s) := by
        unfold addW
        rw [sel_bind _ hs]
        rfl
      rw [sel_bind _ hw]
      exact sel_afterAdd m n cumulative rank s p h

/-! ### the equations -/

/-- whenever the model of the portable path returns a value, the translated code returns the same value -/
theorem select_portable_of_model_ok (m : Mode) (n : Word) (rank p : Nat)
    (h : selectPortable m n rank = ok p) : gen_select_portable m n rank = ok p := by
  rw [sel_prefix]
  rw [selectPortable_eq] at h
  exact sel_tail m n _ rank p h

theorem select_portable_as_spec (m : Mode) (n : Word) (rank : Nat) (h : rank < popcount n) :
    ∃ p, gen_select_portable m n rank = ok p ∧ selectBits (bitsOfWord n) rank = some p := by
  obtain ⟨p, hp, hs⟩ := selectPortable_spec m n rank h
  exact ⟨p, select_portable_of_model_ok m n rank p hp, hs⟩

theorem select_bmi2_eq (m : Mode) (n : Word) (rank : Nat) (h : rank < 64) :
    gen_select_bmi2 m n rank = ok (selectPdep n rank) := by
  unfold gen_select_bmi2 selectPdep
  rw [shlW_ok m _ h]
  rfl

theorem select_bmi2_as_spec (m : Mode) (n : Word) (rank : Nat) (h : rank < popcount n) :
    ∃ p, gen_select_bmi2 m n rank = ok p ∧ selectBits (bitsOfWord n) rank = some p := by
  have h64 : rank < 64 := by have := popcount_le n; omega
  exact ⟨selectPdep n rank, select_bmi2_eq m n rank h64, selectPdep_spec n rank h⟩

/-! ### non-vacuity: the translated definitions evaluate, inside and outside the precondition -/

example : gen_select_portable .checked 0x8000000000000001#64 1 = ok 63 := by decide +kernel
example : gen_select_portable .wrapping 0x8000000000000001#64 0 = ok 0 := by decide +kernel
example : gen_select_portable .checked 0xFFFFFFFFFFFFFFFF#64 63 = ok 63 := by decide +kernel
example : gen_select_bmi2 .wrapping 0b10110#64 2 = ok 4 := by decide +kernel
example : gen_select_bmi2 .checked 0x8000000000000001#64 1 = ok 63 := by decide +kernel

/-- outside the precondition (`rank ≥ popcount n`), checked build: the shift by 64 panics -/
example : gen_select_portable .checked 0#64 0 = fault (.panic .overflow) := by decide +kernel
/-- outside the precondition, build without overflow checks: the translated code (shift amount masked to 0) returns
64 where the model reports `oob` — the implication of `select_portable_of_model_ok` cannot be reversed -/
example : gen_select_portable .wrapping 0#64 0 = ok 64 ∧ selectPortable .wrapping 0#64 0 = fault .oob := by
  decide +kernel
/-- a rank beyond the overflow table: the unchecked table read is out of bounds -/
example : gen_select_portable .checked 0xFF#64 64 = fault .oob := by decide +kernel
/-- BMI2 path with `rank = 64`: `1 << 64` panics with overflow checks and is `1 << 0` without -/
example : gen_select_bmi2 .checked 1#64 64 = fault (.panic .overflow) ∧ gen_select_bmi2 .wrapping 1#64 64 = ok 0 := by
  decide +kernel

end Sds.GenEq
