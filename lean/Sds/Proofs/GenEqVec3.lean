/-
Proofs/GenEqVec3: `RawVector::reserve`, `IntVector::reserve` and `IntVector::resize`, as TRANSLATED statement by
statement from the source (Generated/FnsVec3.lean), against the hand-written model.  The capacity of the `Vec` is the
arbitrary parameter `cap` of the translated functions; every theorem holds for EVERY `cap`.

* `raw_reserve_eq : gen_RawVector_reserve m cap v additional = ok v` under `v.len + additional + 63 < U64`
  (`len + additional`, then `bits_to_words`; `words_needed - capacity` is guarded by `words_needed > capacity`).
  The bound is exact: `raw_reserve_ok_iff` (`= ok v ↔ m = .wrapping ∨ bound`), `raw_reserve_wrapping`,
  `raw_reserve_checked_overflow`.
* `int_reserve_eq : gen_IntVector_reserve m cap v additional = ok v` under
  `v.data.len + additional * v.width + 63 < U64` (this contains `additional * width < U64`); no `WF`.  Exact:
  `int_reserve_ok_iff`.  `int_reserve_eq_wf`: `(len + additional) * width + 63 < U64` for a well-formed vector.
* `int_resize_eq : gen_IntVector_resize m cap v new_len value = ok (v.resize new_len value)` under `v.WF` and
  `new_len ≠ v.len → new_len * v.width + 63 < U64` (only the NEW length matters: growing, `reserve` computes
  `bits_to_words(data.len + (new_len - len) * width)` and the last `push` needs the same bound; shrinking,
  `RawVector::resize` computes `bits_to_words(new_len * width)`).  `int_resize_eq_max` is the form with
  `max v.len new_len`.  Branches: `int_resize_same` (no hypothesis), `int_resize_shrink_eq` (no `WF`, the hypothesis of
  `raw_resize_eq`), `int_resize_grow_eq_of` (any invariant of the pushes), `int_resize_eq_w0` (width 0, not `WF`: the
  code and the model still agree).  The `while` is `resize_loop_of`, an induction on the number of pushes left, with
  fuel `new_len + 1 > new_len - len`.
  NO divergence between the code and the model was found.  Sharpness (examples at the end): beyond the bound the code
  panics in `reserve` where the total model returns a value; width 65 and a buffer that contradicts
  `data.len = len * width` / the exact word count make the code index out of bounds.
-/
import Sds.Generated.FnsVec3
import Sds.Proofs.GenFns
import Sds.Proofs.GenEqVec
import Sds.Proofs.IntVec
import Sds.Proofs.RawVec

set_option linter.unusedVariables false

namespace Sds.GenEq
open Sds Outcome Generated

/-! ### `RawVector::reserve` -/

private theorem v3_bind_ok {α β : Type} (a : α) (f : α → Outcome β) : (ok a).bind f = f a := rfl

theorem raw_reserve_eq (m : Mode) (cap : Nat) (v : RawVec) (additional : Nat)
    (h : v.len + additional + 63 < U64) : gen_RawVector_reserve m cap v additional = ok v := by
  unfold gen_RawVector_reserve
  obtain ⟨len, data⟩ := v
  dsimp only at *
  have h1 : len + additional < U64 := by omega
  simp only [addM_ok h1, bind_ok, vbits_to_words_ok m _ h]
  by_cases hc : (len + additional + 63) / 64 > cap
  · simp [hc, subM_ok (Nat.le_of_lt hc)]
  · simp [hc]


/-- without overflow checks nothing in `reserve` can fail -/
theorem raw_reserve_wrapping (cap : Nat) (v : RawVec) (additional : Nat) :
    gen_RawVector_reserve .wrapping cap v additional = ok v := by
  unfold gen_RawVector_reserve gen_bits_to_words
  obtain ⟨len, data⟩ := v
  have ha : ∀ a b, ∃ c, addM .wrapping a b = ok c := by
    intro a b; unfold addM; split
    · exact ⟨_, rfl⟩
    · exact ⟨_, rfl⟩
  obtain ⟨c1, e1⟩ := ha len additional
  obtain ⟨c2, e2⟩ := ha c1 63
  simp only [e1, e2, bind_ok, gDiv, show (64 : Nat) ≠ 0 by decide, if_false]
  by_cases hc : c2 / 64 > cap
  · simp [hc, subM_ok (Nat.le_of_lt hc)]
  · simp [hc]

/-- with overflow checks, beyond the bound `reserve` panics -/
theorem raw_reserve_checked_overflow (cap : Nat) (v : RawVec) (additional : Nat)
    (h : ¬ v.len + additional + 63 < U64) :
    gen_RawVector_reserve .checked cap v additional = fault (.panic .overflow) := by
  unfold gen_RawVector_reserve gen_bits_to_words
  by_cases h1 : v.len + additional < U64
  · simp only [addM_ok h1, bind_ok]
    simp [addM, h]
  · simp [addM, h1]

theorem raw_reserve_ok_iff (m : Mode) (cap : Nat) (v : RawVec) (additional : Nat) :
    gen_RawVector_reserve m cap v additional = ok v ↔ (m = .wrapping ∨ v.len + additional + 63 < U64) := by
  constructor
  · intro e
    cases m with
    | wrapping => exact Or.inl rfl
    | checked =>
      refine Or.inr (Classical.byContradiction fun hn => ?_)
      rw [raw_reserve_checked_overflow cap v additional hn] at e
      cases e
  · rintro (rfl | h)
    · exact raw_reserve_wrapping cap v additional
    · exact raw_reserve_eq m cap v additional h

/-! ### `IntVector::reserve` -/

theorem int_reserve_eq (m : Mode) (cap : Nat) (v : IntVec) (additional : Nat)
    (h : v.data.len + additional * v.width + 63 < U64) : gen_IntVector_reserve m cap v additional = ok v := by
  unfold gen_IntVector_reserve
  obtain ⟨len, width, data⟩ := v
  dsimp only at *
  simp only [mulM_ok (show additional * width < U64 by omega), bind_ok, raw_reserve_eq m cap data _ h]
  rfl

theorem int_reserve_wrapping (cap : Nat) (v : IntVec) (additional : Nat) :
    gen_IntVector_reserve .wrapping cap v additional = ok v := by
  unfold gen_IntVector_reserve
  obtain ⟨len, width, data⟩ := v
  have hm : ∃ c, mulM .wrapping additional width = ok c := by
    unfold mulM; split
    · exact ⟨_, rfl⟩
    · exact ⟨_, rfl⟩
  obtain ⟨c, e⟩ := hm
  simp only [e, bind_ok, raw_reserve_wrapping]
  rfl

theorem int_reserve_checked_overflow (cap : Nat) (v : IntVec) (additional : Nat)
    (h : ¬ v.data.len + additional * v.width + 63 < U64) :
    gen_IntVector_reserve .checked cap v additional = fault (.panic .overflow) := by
  unfold gen_IntVector_reserve
  by_cases h1 : additional * v.width < U64
  · simp only [mulM_ok h1, bind_ok, raw_reserve_checked_overflow cap v.data _ h]
    rfl
  · simp [mulM, h1]

theorem int_reserve_ok_iff (m : Mode) (cap : Nat) (v : IntVec) (additional : Nat) :
    gen_IntVector_reserve m cap v additional = ok v ↔
      (m = .wrapping ∨ v.data.len + additional * v.width + 63 < U64) := by
  constructor
  · intro e
    cases m with
    | wrapping => exact Or.inl rfl
    | checked =>
      refine Or.inr (Classical.byContradiction fun hn => ?_)
      rw [int_reserve_checked_overflow cap v additional hn] at e
      cases e
  · rintro (rfl | h)
    · exact int_reserve_wrapping cap v additional
    · exact int_reserve_eq m cap v additional h

/-- the hypothesis in terms of the item counts, for a well-formed vector -/
theorem int_reserve_eq_wf (m : Mode) (cap : Nat) (v : IntVec) (additional : Nat) (hwf : v.WF)
    (h : (v.len + additional) * v.width + 63 < U64) : gen_IntVector_reserve m cap v additional = ok v := by
  apply int_reserve_eq
  rw [hwf.2.2.1, ← Nat.add_mul]; exact h


/-! ### `IntVector::resize` -/

/-- `n` pushes of the same value (the model's grow branch) -/
def pushN (v : IntVec) (x : Word) (n : Nat) : IntVec := (List.range n).foldl (fun u _ => u.push x) v

theorem pushN_zero (v : IntVec) (x : Word) : pushN v x 0 = v := rfl

theorem pushN_succ' (v : IntVec) (x : Word) (n : Nat) : pushN v x (n + 1) = (pushN v x n).push x := by
  unfold pushN; rw [List.range_succ, List.foldl_append]; rfl

theorem pushN_succ (v : IntVec) (x : Word) (n : Nat) : pushN v x (n + 1) = pushN (v.push x) x n := by
  induction n with
  | zero => rfl
  | succ n ih => rw [pushN_succ', ih, ← pushN_succ']

/-- the body of `while self.len() < new_len { self.push(value) }`, verbatim from `gen_IntVector_resize` -/
def resizeStep (m : Mode) (new_len : Nat) (value : Word) :
    RawVec × Nat × Nat → Outcome (Ctl (RawVec × Nat × Nat) IntVec) :=
  fun (self_data, self_len, self_width) => do
          if (decide ((self_len) < new_len)) then do
            let t3 ← gen_IntVector_push m (⟨self_len, self_width, self_data⟩ : IntVec) value
            let self_len := t3.len
            let self_width := t3.width
            let self_data := t3.data
            pure (Ctl.next (self_data, self_len, self_width))
          else do
            pure (Ctl.brk (self_data, self_len, self_width))

/-- the loop, by induction on the number `k` of pushes still to do, for any invariant `I` under which one `push` of
the code is the model's `push` -/
theorem resize_loop_of (m : Mode) (new_len : Nat) (value : Word) (I : IntVec → Prop)
    (hI : ∀ u, I u → u.len < new_len → gen_IntVector_push m u value = ok (u.push value) ∧ I (u.push value)) :
    ∀ (k : Nat) (u : IntVec) (fuel : Nat), I u → u.len + k = new_len → k < fuel →
      loopM fuel (resizeStep m new_len value) (u.data, u.len, u.width) =
        ok (Ctl.brk ((pushN u value k).data, (pushN u value k).len, (pushN u value k).width)) := by
  intro k
  induction k with
  | zero =>
    intro u fuel hu hk hf
    obtain ⟨f, rfl⟩ : ∃ f, fuel = f + 1 := ⟨fuel - 1, by omega⟩
    have hlt : ¬ u.len < new_len := by omega
    simp [loopM, resizeStep, hlt, pushN_zero]
  | succ k ih =>
    intro u fuel hu hk hf
    obtain ⟨f, rfl⟩ : ∃ f, fuel = f + 1 := ⟨fuel - 1, by omega⟩
    have hlt : u.len < new_len := by omega
    obtain ⟨hp, hu'⟩ := hI u hu hlt
    have hp' : gen_IntVector_push m ⟨u.len, u.width, u.data⟩ value = ok (u.push value) := hp
    have e := ih (u.push value) f hu' (by simp; omega) (by omega)
    rw [pushN_succ, ← e]
    simp [loopM, resizeStep, hlt, hp']

/-- the three branches of `resize`.  `new_len == len`: nothing is computed -/
theorem int_resize_same (m : Mode) (cap : Nat) (v : IntVec) (value : Word) :
    gen_IntVector_resize m cap v v.len value = ok (v.resize v.len value) := by
  unfold gen_IntVector_resize IntVec.resize
  simp only [Nat.lt_irrefl, gt_iff_lt, decide_false, Bool.false_eq_true, if_false]
  rfl

/-- shrink: `new_len * width` and `RawVector::resize` (`bits_to_words(new_len * width)`); `hs` is the hypothesis of
`raw_resize_eq`, vacuous when `new_len * width ≤ data.len` (in particular for a well-formed vector) -/
theorem int_resize_shrink_eq (m : Mode) (cap : Nat) (v : IntVec) (new_len : Nat) (value : Word)
    (hl : new_len < v.len)
    (hs : new_len * v.width > v.data.len → v.data.len % 64 ≠ 0 → v.data.len / 64 < v.data.data.size)
    (hb : new_len * v.width + 63 < U64) :
    gen_IntVector_resize m cap v new_len value = ok (v.resize new_len value) := by
  unfold gen_IntVector_resize IntVec.resize
  have hg : ¬ new_len > v.len := by omega
  have hr := raw_resize_eq m v.data (new_len * v.width) false hs hb
  simp only [hg, hl, decide_true, decide_false, Bool.false_eq_true, if_true, if_false,
    mulM_ok (show new_len * v.width < U64 by omega), bind_ok, hr]
  rfl

/-- grow, general form: `reserve` succeeds (`hr`) and `I` is an invariant of the pushes -/
theorem int_resize_grow_eq_of (m : Mode) (cap : Nat) (v : IntVec) (new_len : Nat) (value : Word)
    (hg : new_len > v.len) (hr : m = .wrapping ∨ v.data.len + (new_len - v.len) * v.width + 63 < U64)
    (I : IntVec → Prop) (hv : I v)
    (hI : ∀ u, I u → u.len < new_len → gen_IntVector_push m u value = ok (u.push value) ∧ I (u.push value)) :
    gen_IntVector_resize m cap v new_len value = ok (v.resize new_len value) := by
  unfold gen_IntVector_resize IntVec.resize
  have hr' : gen_IntVector_reserve m cap ⟨v.len, v.width, v.data⟩ (new_len - v.len) = ok v :=
    (int_reserve_ok_iff m cap v _).2 hr
  have hl := resize_loop_of m new_len value I hI (new_len - v.len) v (new_len + 1) hv (by omega) (by omega)
  unfold resizeStep at hl
  simp only [hg, decide_true, if_true, subM_ok (Nat.le_of_lt hg), bind_ok, hr']
  rw [hl]
  rfl

/-- `IntVector::resize` on a well-formed vector: the only hypothesis is that the bit length of the NEW content,
rounded up to words, is a `usize` (and nothing at all when `new_len = len`) -/
theorem int_resize_eq (m : Mode) (cap : Nat) (v : IntVec) (new_len : Nat) (value : Word) (hwf : v.WF)
    (hb : new_len ≠ v.len → new_len * v.width + 63 < U64) :
    gen_IntVector_resize m cap v new_len value = ok (v.resize new_len value) := by
  by_cases hg : new_len > v.len
  · have hb := hb (by omega)
    apply int_resize_grow_eq_of m cap v new_len value hg _
      (fun u => u.WF ∧ u.width = v.width) ⟨hwf, rfl⟩
    · intro u ⟨huwf, huw⟩ hlt
      have hmul : (u.len + 1) * v.width ≤ new_len * v.width := Nat.mul_le_mul_right _ hlt
      exact ⟨int_push_eq m u value huwf (by rw [huw]; omega), IntVec.push_WF huwf value, huw⟩
    · right
      rw [hwf.2.2.1, ← Nat.add_mul, show v.len + (new_len - v.len) = new_len by omega]; exact hb
  · by_cases hl : new_len < v.len
    · have hle : new_len * v.width ≤ v.data.len := by
        rw [hwf.2.2.1]; exact Nat.mul_le_mul_right _ (Nat.le_of_lt hl)
      exact int_resize_shrink_eq m cap v new_len value hl (by omega) (hb (by omega))
    · obtain rfl : new_len = v.len := by omega
      exact int_resize_same m cap v value

/-- the same under the bound on both lengths -/
theorem int_resize_eq_max (m : Mode) (cap : Nat) (v : IntVec) (new_len : Nat) (value : Word) (hwf : v.WF)
    (hb : max v.len new_len * v.width + 63 < U64) :
    gen_IntVector_resize m cap v new_len value = ok (v.resize new_len value) := by
  apply int_resize_eq m cap v new_len value hwf
  intro _
  have : new_len * v.width ≤ max v.len new_len * v.width := Nat.mul_le_mul_right _ (Nat.le_max_right _ _)
  omega

/-- the result is well-formed again, so the theorem can be chained -/
theorem int_resize_WF (m : Mode) (cap : Nat) (v : IntVec) (new_len : Nat) (value : Word) (hwf : v.WF)
    (hb : new_len ≠ v.len → new_len * v.width + 63 < U64) :
    ∃ r, gen_IntVector_resize m cap v new_len value = ok r ∧ r.WF ∧ r.width = v.width ∧
      r.items = v.items.take new_len ++ List.replicate (new_len - v.len) (value.toNat % 2 ^ v.width) :=
  ⟨_, int_resize_eq m cap v new_len value hwf hb, IntVec.resize_spec hwf new_len value⟩

/-! ### width 0 (not `WF`; no constructor produces it): the code and the model still agree — `push_int(_, 0)` returns
at once in both, only `len + 1` is computed -/

theorem int_push_eq_w0 (m : Mode) (v : IntVec) (x : Word) (hw : v.width = 0) (hl : v.len + 1 < U64) :
    gen_IntVector_push m v x = ok (v.push x) := by
  unfold gen_IntVector_push IntVec.push gen_RawVector_push_int RawVec.pushInt
  simp [hw, addM_ok hl]

theorem int_resize_eq_w0 (m : Mode) (cap : Nat) (v : IntVec) (new_len : Nat) (value : Word) (hw : v.width = 0)
    (hn : new_len < U64) (hd : new_len > v.len → m = .wrapping ∨ v.data.len + 63 < U64) :
    gen_IntVector_resize m cap v new_len value = ok (v.resize new_len value) := by
  by_cases hg : new_len > v.len
  · apply int_resize_grow_eq_of m cap v new_len value hg _ (fun u => u.width = 0) hw
    · intro u hu hlt
      exact ⟨int_push_eq_w0 m u value hu (by omega), hu⟩
    · simpa [hw] using hd hg
  · by_cases hl : new_len < v.len
    · exact int_resize_shrink_eq m cap v new_len value hl (by rw [hw]; omega)
        (by rw [hw, Nat.mul_zero]; decide)
    · obtain rfl : new_len = v.len := by omega
      exact int_resize_same m cap v value

/-! ### sharpness -/

/-- `reserve` beyond the bound: panics with overflow checks, succeeds without (the bound is exact) -/
example : gen_RawVector_reserve .checked 0 ⟨0, #[]⟩ (U64 - 63) = fault (.panic .overflow) ∧
    gen_RawVector_reserve .wrapping 0 ⟨0, #[]⟩ (U64 - 63) = ok ⟨0, #[]⟩ ∧
    gen_RawVector_reserve .checked 0 ⟨0, #[]⟩ (U64 - 64) = ok ⟨0, #[]⟩ := by decide
/-- `IntVector::reserve`: the product alone (`2^58 * 64`), and the sum with a product that fits -/
example : gen_IntVector_reserve .checked 0 ⟨0, 64, ⟨0, #[]⟩⟩ (2 ^ 58) = fault (.panic .overflow) ∧
    gen_IntVector_reserve .checked 0 ⟨0, 1, ⟨0, #[]⟩⟩ (U64 - 63) = fault (.panic .overflow) ∧
    gen_IntVector_reserve .checked 0 ⟨0, 64, ⟨0, #[]⟩⟩ (2 ^ 58 - 1) = ok ⟨0, 64, ⟨0, #[]⟩⟩ := by decide
/-- `resize` to a length whose bit length rounded up to words is not a `usize`: the code panics in `reserve`
(the model is total, its value would be a buffer of `2^64` bits) -/
example : gen_IntVector_resize .checked 0 ⟨0, 64, ⟨0, #[]⟩⟩ (2 ^ 58) 0 = fault (.panic .overflow) := by decide
/-- width 65 (not `WF`): the code's `push_int` indexes past the one word it has appended, the model's total
`writeInt` does not fault -/
example : gen_IntVector_resize .checked 0 ⟨0, 65, ⟨0, #[]⟩⟩ 1 0 = fault (.panic .index) ∧
    IntVec.resize ⟨0, 65, ⟨0, #[]⟩⟩ 1 0 = ⟨1, 65, ⟨65, #[0]⟩⟩ := by decide
/-- `data.len = len * width` and the exact word count are needed (grow: a buffer that claims 64 bits and has no
word; shrink below `len` but above `data.len`: `set_unused_bits` indexes the missing word) -/
example : gen_IntVector_resize .checked 0 ⟨0, 8, ⟨64, #[]⟩⟩ 1 0 = fault (.panic .index) ∧
    gen_IntVector_resize .checked 0 ⟨2, 8, ⟨1, #[]⟩⟩ 1 0 = fault (.panic .index) := by decide

end Sds.GenEq
