/-
Proofs/GenEqLoad5: the three composite loaders of Generated/FnsLoad5.lean, in which EVERY inner `T::load` is itself a
translated function (no model codec below):

* `gen_SparseVector_load_full`   = the text of `gen_SparseVector_load` (FnsLoad) over `gen_BitVector_load_full`,
* `gen_WMCore_load_full`         = the text of `gen_WMCore_load` (FnsLoad3) over `gen_BitVector_load_full`,
* `gen_WaveletMatrix_load_full2` = the text of `gen_WaveletMatrix_load_full` (FnsLoad3) over `gen_WMCore_load_full`,

against the model's codecs `sparseC`, `wmCoreC`, `wmC`.

Method: each `_full` function is equal to the earlier translation as soon as `gen_BitVector_load_full` and
`gen_BitVector_load` agree on every bitvector stream the loader reaches (`bv_load_full_eq_gen_of_BvOk`, GenEqLoad4); the
earlier equations (`sparse_load_eq`, `wm_core_load_eq`, `wm_load_full_eq`) do the rest.  For the level loop of
`WMCore::load` the structure of `wm_core_load_eq` is reused (`for_loop_range`, `wm_load_step`, `wm_load_fold`) with the
full bitvector loader in the body (`wmLoadBodyFull`).

Hypotheses: the earlier predicate plus `BvSelOk` (GenEqLoad4: `SelOk` at the two places where `BitVector::load` reads
an optional select support) of every embedded bitvector stream, following the MODEL's control flow:

* `SparseFullOk es  := SparseOk es ∧ (BvSelOk of the stream behind the length word)`
* `WmLevelsSelOk`   : like `WmLevelsOk` (GenEqLoad3), with `BvSelOk` in the place of `BvOk`;
  `WmCoreFullOk es  := WmCoreOk es ∧ (for the width read, if it passes the check, WmLevelsSelOk width #[] of the rest)`
* `WmFull2Ok es     := (WmCoreFullOk of the stream behind the length word) ∧ WmOk es`  (⇒ `WmFullOk`)

Every word below `2^32` implies all of them (`SparseWidthOk` in addition for the sparse vector, as in
`sparse_load_eq_small`).

The earlier predicates alone do not suffice (`sparse_load_full_ne_select`, `wm_core_load_full_ne_select`,
`wm_load_full2_ne_select`): `l4_cexSel` (GenEqLoad4: the empty bitvector with `sel_load_ne_long` as its select support)
as the embedded bitvector.  Those streams ARE `SparseOk` / `WmCoreOk` / `WmFullOk`, the earlier translations agree with
the model on them, the `_full` translations panic in the checked build where the model refuses.  This is the divergence
already recorded for `SelectSupport::load` (unchecked `len + 4096` …) seen through the outer loaders; not a new one.
-/
import Sds.Generated.FnsLoad5
import Sds.Proofs.GenEqLoad3
import Sds.Proofs.GenEqLoad4

set_option linter.unusedSimpArgs false
namespace Sds.GenEq
open Sds Outcome Generated
open Sds.Codec2 (lvlStep wmCoreC_load_eq)

private theorem l5_obind_ok {α β : Type} (a : α) (f : α → Outcome β) : (ok a).bind f = f a := rfl

/-! ### SparseVector -/

/-- `SparseOk`, and `BvSelOk` of the bitvector stream behind the length word -/
def SparseFullOk (es : Elems) : Prop :=
  SparseOk es ∧ ∀ len r, usizeC.load es = ok (len, r) → BvSelOk r

/-- the two translations against each other: only the embedded bitvector load matters -/
theorem l5_sparse_full_eq_gen (m : Mode) (es : Elems)
    (h : ∀ len r, usizeC.load es = ok (len, r) → gen_BitVector_load_full m r = gen_BitVector_load m r) :
    gen_SparseVector_load_full m es = gen_SparseVector_load m es := by
  unfold gen_SparseVector_load_full gen_SparseVector_load
  refine l4_bind_congr ?_
  rintro ⟨len, r⟩ h1
  dsimp only
  rw [h len r h1]

theorem sparse_load_full_eq_gen (m : Mode) (es : Elems) (h : SparseFullOk es) :
    gen_SparseVector_load_full m es = gen_SparseVector_load m es :=
  l5_sparse_full_eq_gen m es fun len r h1 => bv_load_full_eq_gen_of_BvOk m r (h.1 len r h1).1 (h.2 len r h1)

theorem sparse_load_full_eq (m : Mode) (es : Elems) (h : SparseFullOk es) :
    gen_SparseVector_load_full m es = sparseC.load es :=
  (sparse_load_full_eq_gen m es h).trans (sparse_load_eq m es h.1)

theorem SparseFullOk_of_small {es : Elems} (hs : Small es) (hw : SparseWidthOk es) : SparseFullOk es :=
  ⟨SparseOk_of_small hs hw, fun _ _ h1 => BvSelOk_of_small (hs.suffix (usizeC_suffix h1))⟩

theorem sparse_load_full_eq_small (m : Mode) (es : Elems) (h : ∀ w ∈ es, w.toNat < 2 ^ 32) (hw : SparseWidthOk es) :
    gen_SparseVector_load_full m es = sparseC.load es := sparse_load_full_eq m es (SparseFullOk_of_small h hw)

/-! ### WMCore: the hypothesis -/

/-- `WmLevelsOk` with `BvSelOk` in the place of `BvOk`: with `n` levels to go from the accumulator `acc`, the stream is
`BvSelOk`, and whenever the model's step succeeds the same holds of its result with `n - 1` levels to go -/
def WmLevelsSelOk : Nat → Array BitVector → Elems → Prop
  | 0, _, _ => True
  | k + 1, acc, es => BvSelOk es ∧ ∀ acc' r, lvlStep (acc, es) 0 = ok (acc', r) → WmLevelsSelOk k acc' r

def WmCoreSelOk (es : Elems) : Prop :=
  ∀ width r, usizeC.load es = ok (width, r) → ¬ (width = 0 ∨ width > 64) → WmLevelsSelOk width #[] r

def WmCoreFullOk (es : Elems) : Prop := WmCoreOk es ∧ WmCoreSelOk es

/-! ### WMCore: the loop -/

/-- the body of `for _ in 0..width` as translated, over the full bitvector loader -/
def wmLoadBodyFull (m : Mode) (s : Option Nat × Array BitVector × Elems) (_ : Nat) :
    Outcome (Option Nat × Array BitVector × Elems) :=
  (gen_BitVector_load_full m s.2.2).bind fun p =>
    (match s.1 with
      | some len_in => if decide (BitVector.len p.1 ≠ len_in) then fault (.err .invalid) else ok s.1
      | none => ok (some (BitVector.len p.1))).bind fun len => ok (len, s.2.1.push p.1, p.2)

theorem l5_body_eq (m : Mode) (s : Option Nat × Array BitVector × Elems) (i : Nat)
    (h : gen_BitVector_load_full m s.2.2 = gen_BitVector_load m s.2.2) :
    wmLoadBodyFull m s i = wmLoadBody m s i := by
  unfold wmLoadBodyFull wmLoadBody
  rw [h]
  rfl

theorem wm_load_step_full (m : Mode) (acc : Array BitVector) (es : Elems) (i : Nat) (h : BvOk es) (hs : BvSelOk es) :
    wmLoadBodyFull m (acc[0]?.map BitVector.len, acc, es) i =
      (lvlStep (acc, es) i).bind (fun p => ok (p.1[0]?.map BitVector.len, p.1, p.2)) :=
  (l5_body_eq m _ i (bv_load_full_eq_gen_of_BvOk m es h hs)).trans (wm_load_step m acc es i h)

theorem wm_load_fold_full (m : Mode) : ∀ (idx : List Nat) (acc : Array BitVector) (es : Elems),
    WmLevelsOk idx.length acc es → WmLevelsSelOk idx.length acc es →
    idx.foldlM (wmLoadBodyFull m) (acc[0]?.map BitVector.len, acc, es) =
      (idx.foldlM lvlStep (acc, es)).bind (fun p => ok (p.1[0]?.map BitVector.len, p.1, p.2)) := by
  intro idx
  induction idx with
  | nil => intro acc es _ _; rfl
  | cons i idx ih =>
    intro acc es h hs
    obtain ⟨hb, hn⟩ := h
    obtain ⟨hsb, hsn⟩ := hs
    rw [List.foldlM_cons, List.foldlM_cons, wm_load_step_full m acc es i hb hsb]
    simp only [Bind.bind]
    cases h1 : lvlStep (acc, es) i with
    | fault f => rfl
    | ok p =>
      obtain ⟨acc', r⟩ := p
      simp only [l5_obind_ok]
      exact ih acc' r (hn acc' r h1) (hsn acc' r h1)

/-- the fold of the full body is the fold of the earlier body -/
theorem l5_fold_eq (m : Mode) (idx : List Nat) (acc : Array BitVector) (es : Elems)
    (h : WmLevelsOk idx.length acc es) (hs : WmLevelsSelOk idx.length acc es) :
    idx.foldlM (wmLoadBodyFull m) (acc[0]?.map BitVector.len, acc, es) =
      idx.foldlM (wmLoadBody m) (acc[0]?.map BitVector.len, acc, es) :=
  (wm_load_fold_full m idx acc es h hs).trans (wm_load_fold m idx acc es h).symm

/-! ### `WMCore::load` -/

set_option maxRecDepth 4000 in
theorem wm_core_load_full_eq (m : Mode) (es : Elems) (h : WmCoreFullOk es) :
    gen_WMCore_load_full m es = wmCoreC.load es := by
  obtain ⟨h, hs⟩ := h
  rw [wmCoreC_load_eq]
  unfold gen_WMCore_load_full
  dsimp only
  cases h1 : usizeC.load es with
  | fault f => simp only [bind_fault]
  | ok p =>
    obtain ⟨width, r⟩ := p
    simp only [bind_ok]
    by_cases c : width = 0 ∨ width > 64
    · have c' : (decide (width = 0) || decide (width > 64)) = true := by simpa using c
      rw [if_pos c', if_pos c]
    · have c' : ¬ (decide (width = 0) || decide (width > 64)) = true := by simpa using c
      rw [if_neg c', if_neg c]
      have hl := h width r h1 c
      have hsl := hs width r h1 c
      simp only [Bind.bind]
      rw [for_loop_range (ρ := WMCore × Elems) width (wmLoadBodyFull m) _
          (fun i s hi => by
            obtain ⟨len, lv, rd⟩ := s
            simp only [hi, decide_true, if_true]
            unfold wmLoadBodyFull
            simp only [Bind.bind]
            cases gen_BitVector_load_full m rd with
            | fault f => rfl
            | ok p =>
              obtain ⟨bv, rd'⟩ := p
              cases len with
              | none => rfl
              | some l =>
                by_cases cl : bv.len = l
                · simp [cl, Pure.pure, Outcome.bind]
                · simp [cl, Pure.pure, Outcome.bind])
          (fun i s hi => by
            obtain ⟨len, lv, rd⟩ := s
            simp only [hi, decide_false, Bool.false_eq_true, if_false]; rfl)]
      have e : (List.range width).foldlM (wmLoadBodyFull m) (none, #[], r) =
          ((List.range width).foldlM lvlStep (#[], r)).bind
            (fun p => ok (p.1[0]?.map BitVector.len, p.1, p.2)) :=
        wm_load_fold_full m (List.range width) #[] r (by rw [List.length_range]; exact hl)
          (by rw [List.length_range]; exact hsl)
      rw [e]
      cases (List.range width).foldlM lvlStep (#[], r) with
      | fault f => rfl
      | ok p =>
        obtain ⟨lv, r'⟩ := p
        simp only [l5_obind_ok, wm_init_support_eq]

/-- the two translations against each other under the same hypothesis -/
theorem wm_core_load_full_eq_gen (m : Mode) (es : Elems) (h : WmCoreFullOk es) :
    gen_WMCore_load_full m es = gen_WMCore_load m es :=
  (wm_core_load_full_eq m es h).trans (wm_core_load_eq m es h.1).symm

/-! ### the hypothesis, restated and derived -/

/-- `WmLevelsSelOk` says: the stream that remains after any number `< n` of successful level loads is `BvSelOk` -/
theorem WmLevelsSelOk_iff : ∀ (n : Nat) (acc : Array BitVector) (es : Elems),
    WmLevelsSelOk n acc es ↔
      ∀ (idx : List Nat), idx.length < n → ∀ lv r, idx.foldlM lvlStep (acc, es) = ok (lv, r) → BvSelOk r := by
  intro n
  induction n with
  | zero => intro acc es; exact ⟨fun _ idx hi => by omega, fun _ => trivial⟩
  | succ n ih =>
    intro acc es
    constructor
    · intro h idx hi lv r hf
      cases idx with
      | nil =>
        injection hf with hf; injection hf with _ h2
        subst h2; exact h.1
      | cons i idx =>
        rw [List.foldlM_cons] at hf
        obtain ⟨⟨acc', r1⟩, h1, h2⟩ := Outcome.bind_eq_ok hf
        exact (ih acc' r1).mp (h.2 acc' r1 h1) idx (by simpa using hi) lv r h2
    · intro h
      refine ⟨h [] (by simp) acc es rfl, fun acc' r1 h1 => (ih acc' r1).mpr fun idx hi lv r hf => ?_⟩
      refine h (0 :: idx) (by simpa using hi) lv r ?_
      rw [List.foldlM_cons, bind_eq_of_ok h1]
      exact hf

theorem WmLevelsSelOk_of_small : ∀ (n : Nat) (acc : Array BitVector) {es : Elems}, Small es →
    WmLevelsSelOk n acc es := by
  intro n
  induction n with
  | zero => intro _ _ _; trivial
  | succ n ih =>
    intro acc es hs
    refine ⟨BvSelOk_of_small hs, fun acc' r h1 => ih acc' ?_⟩
    obtain ⟨b, hb⟩ := lvlStep_load h1
    exact hs.suffix (bitVectorC_suffix hb)

theorem WmCoreSelOk_of_small {es : Elems} (hs : Small es) : WmCoreSelOk es :=
  fun width _ h1 _ => WmLevelsSelOk_of_small width #[] (hs.suffix (usizeC_suffix h1))

theorem WmCoreFullOk_of_small {es : Elems} (hs : Small es) : WmCoreFullOk es :=
  ⟨WmCoreOk_of_small hs, WmCoreSelOk_of_small hs⟩

theorem wm_core_load_full_eq_small (m : Mode) (es : Elems) (h : ∀ w ∈ es, w.toNat < 2 ^ 32) :
    gen_WMCore_load_full m es = wmCoreC.load es := wm_core_load_full_eq m es (WmCoreFullOk_of_small h)

/-! ### `WaveletMatrix::load` over the fully translated core loader -/

/-- `WmCoreFullOk` of the stream behind the length word, and `WmOk` (`IntOk` of the stream behind the levels) -/
def WmFull2Ok (es : Elems) : Prop :=
  (∀ len r, usizeC.load es = ok (len, r) → WmCoreFullOk r) ∧ WmOk es

theorem WmFull2Ok.toFullOk {es : Elems} (h : WmFull2Ok es) : WmFullOk es :=
  ⟨fun len r h1 => (h.1 len r h1).1, h.2⟩

/-- the two translations against each other: only the embedded core load matters -/
theorem l5_wm_full2_eq_gen (m : Mode) (es : Elems)
    (h : ∀ len r, usizeC.load es = ok (len, r) → gen_WMCore_load_full m r = gen_WMCore_load m r) :
    gen_WaveletMatrix_load_full2 m es = gen_WaveletMatrix_load_full m es := by
  unfold gen_WaveletMatrix_load_full2 gen_WaveletMatrix_load_full
  refine l4_bind_congr ?_
  rintro ⟨len, r⟩ h1
  dsimp only
  rw [h len r h1]

theorem wm_load_full2_eq_gen (m : Mode) (es : Elems) (h : WmFull2Ok es) :
    gen_WaveletMatrix_load_full2 m es = gen_WaveletMatrix_load_full m es :=
  l5_wm_full2_eq_gen m es fun len r h1 => wm_core_load_full_eq_gen m r (h.1 len r h1)

theorem wm_load_full2_eq (m : Mode) (es : Elems) (h : WmFull2Ok es) :
    gen_WaveletMatrix_load_full2 m es = wmC.load es :=
  (wm_load_full2_eq_gen m es h).trans (wm_load_full_eq m es h.toFullOk)

theorem WmFull2Ok_of_small {es : Elems} (hs : Small es) : WmFull2Ok es :=
  ⟨fun _ _ h1 => WmCoreFullOk_of_small (hs.suffix (usizeC_suffix h1)), WmOk_of_small hs⟩

theorem wm_load_full2_eq_small (m : Mode) (es : Elems) (h : ∀ w ∈ es, w.toNat < 2 ^ 32) :
    gen_WaveletMatrix_load_full2 m es = wmC.load es := wm_load_full2_eq m es (WmFull2Ok_of_small h)

/-! ### the additional hypothesis is needed

`l4_cexSel` (GenEqLoad4): the empty bitvector, no rank support, `sel_load_ne_long` as its select support.  It is `BvOk`
(`bv_full_cex_BvOk`), the model refuses it, `gen_BitVector_load_full` panics on it in the checked build and accepts it in
the wrapping build. -/

/-- a sparse vector of length 0 whose `high` is `l4_cexSel` -/
def l5_cexSparse : Elems := 0#64 :: l4_cexSel

/-- what the wrapping build makes of `l4_cexSel` (`bv_load_full_ne_select`) -/
def l5_cexBv : BitVector :=
  { ones := 0, data := ⟨0, #[]⟩,
    select := some ⟨⟨0, 0, ⟨0, #[]⟩⟩, ⟨18446744073709551615, 0, ⟨0, #[]⟩⟩, ⟨0, 0, ⟨0, #[]⟩⟩⟩ }

/-- one level, `l4_cexSel` -/
def l5_cexCore : Elems := 1#64 :: l4_cexSel

/-- a wavelet matrix of length 0 over `l5_cexCore` -/
def l5_cexWm : Elems := 0#64 :: l5_cexCore

/-- the checked build panics inside the select support of `high`; the wrapping build loads `high` (with a select
support that has a long array of `2^64 − 1` elements over no data) and then runs out of input in `low`; the model and the
translation over `gen_BitVector_load` refuse at the select support -/
theorem sparse_load_full_ne_select :
    gen_SparseVector_load_full .checked l5_cexSparse = fault (.panic .overflow) ∧
    gen_SparseVector_load_full .wrapping l5_cexSparse = fault (.err .eof) ∧
    gen_SparseVector_load .checked l5_cexSparse = fault (.err .invalid) ∧
    gen_SparseVector_load .wrapping l5_cexSparse = fault (.err .invalid) ∧
    sparseC.load l5_cexSparse = fault (.err .invalid) := by
  decide +kernel

theorem l5_cexSparse_SparseOk : SparseOk l5_cexSparse := by
  intro len r h1
  unfold l5_cexSparse at h1
  rw [usizeC_cons] at h1
  injection h1 with h1; injection h1 with _ h1
  subst h1
  refine ⟨bv_full_cex_BvOk.1, fun high r1 h2 => ?_⟩
  rw [bv_load_full_ne_select.2.2.2.2] at h2
  cases h2

theorem sparse_load_full_ne_of_SparseOk :
    ¬ (∀ m es, SparseOk es → gen_SparseVector_load_full m es = sparseC.load es) ∧
    ¬ (∀ m es, SparseOk es → gen_SparseVector_load_full m es = gen_SparseVector_load m es) := by
  refine ⟨fun h => ?_, fun h => ?_⟩
  · have e := h .checked _ l5_cexSparse_SparseOk
    rw [sparse_load_full_ne_select.1, sparse_load_full_ne_select.2.2.2.2] at e
    exact absurd e (by decide)
  · have e := h .checked _ l5_cexSparse_SparseOk
    rw [sparse_load_full_ne_select.1, sparse_load_full_ne_select.2.2.1] at e
    exact absurd e (by decide)

/-- the checked build panics inside the select support of the level; the wrapping build ACCEPTS the level (and goes on
to `init_support`); the model and the translation over `gen_BitVector_load` refuse -/
theorem wm_core_load_full_ne_select :
    gen_WMCore_load_full .checked l5_cexCore = fault (.panic .overflow) ∧
    gen_WMCore_load_full .wrapping l5_cexCore =
      ok (WMCore.initSupport ⟨#[l5_cexBv]⟩, []) ∧
    gen_WMCore_load .checked l5_cexCore = fault (.err .invalid) ∧
    gen_WMCore_load .wrapping l5_cexCore = fault (.err .invalid) ∧
    wmCoreC.load l5_cexCore = fault (.err .invalid) := by
  refine ⟨by decide +kernel, ?_, by decide +kernel, by decide +kernel, by decide +kernel⟩
  unfold gen_WMCore_load_full l5_cexCore
  rw [bind_eq_of_ok (usizeC_cons _ _)]
  have e1 : (1#64 : Word).toNat = 1 := rfl
  simp only [e1]
  simp [loopM, bv_load_full_ne_select.2.1, wm_init_support_eq, Pure.pure, l5_cexBv]

theorem l5_cexCore_WmCoreOk : WmCoreOk l5_cexCore := by
  intro width r h1 _
  unfold l5_cexCore at h1
  rw [usizeC_cons] at h1
  injection h1 with h1; injection h1 with hw h1
  subst h1
  have e1 : (1#64 : Word).toNat = 1 := rfl
  rw [← hw, e1]
  exact ⟨bv_full_cex_BvOk.1, fun _ _ _ => trivial⟩

theorem wm_core_load_full_ne_of_WmCoreOk :
    ¬ (∀ m es, WmCoreOk es → gen_WMCore_load_full m es = wmCoreC.load es) ∧
    ¬ (∀ m es, WmCoreOk es → gen_WMCore_load_full m es = gen_WMCore_load m es) := by
  refine ⟨fun h => ?_, fun h => ?_⟩
  · have e := h .checked _ l5_cexCore_WmCoreOk
    rw [wm_core_load_full_ne_select.1, wm_core_load_full_ne_select.2.2.2.2] at e
    exact absurd e (by decide)
  · have e := h .checked _ l5_cexCore_WmCoreOk
    rw [wm_core_load_full_ne_select.1, wm_core_load_full_ne_select.2.2.1] at e
    exact absurd e (by decide)

/-- the same one level behind a length word: `WmFullOk` holds, the translation over `gen_WMCore_load` agrees with the
model, the translation over `gen_WMCore_load_full` panics in the checked build -/
theorem wm_load_full2_ne_select :
    gen_WaveletMatrix_load_full2 .checked l5_cexWm = fault (.panic .overflow) ∧
    gen_WaveletMatrix_load_full .checked l5_cexWm = fault (.err .invalid) ∧
    wmC.load l5_cexWm = fault (.err .invalid) := by
  decide +kernel

theorem l5_cexWm_WmFullOk : WmFullOk l5_cexWm := by
  refine ⟨fun len r h1 => ?_, fun len r h1 data r1 h2 _ => ?_⟩
  · unfold l5_cexWm at h1
    rw [usizeC_cons] at h1
    injection h1 with h1; injection h1 with _ h1
    subst h1
    exact l5_cexCore_WmCoreOk
  · unfold l5_cexWm at h1
    rw [usizeC_cons] at h1
    injection h1 with h1; injection h1 with _ h1
    subst h1
    rw [wm_core_load_full_ne_select.2.2.2.2] at h2
    cases h2

theorem wm_load_full2_ne_of_WmFullOk :
    ¬ (∀ m es, WmFullOk es → gen_WaveletMatrix_load_full2 m es = wmC.load es) := by
  intro h
  have e := h .checked _ l5_cexWm_WmFullOk
  rw [wm_load_full2_ne_select.1, wm_load_full2_ne_select.2.2] at e
  exact absurd e (by decide)

end Sds.GenEq
