/-
Proofs/Writer: the buffered file writers produce, after `close`, exactly the serialisation of the
equivalent in-memory vector, for every buffer size and every push history.
-/
import Sds.Proofs.RawVec
import Sds.Model.Writer
set_option linter.unusedSimpArgs false
set_option linter.unusedVariables false

namespace Sds
open Outcome

/-! ### 0. bits of a list of words -/

/-- the bits of a list of words, 64 per word, least significant first -/
def wordsBits (ws : List Word) : List Bool := ws.flatMap bitsOfWord

@[simp] theorem wordsBits_nil : wordsBits [] = [] := rfl

theorem wordsBits_cons (w : Word) (l : List Word) : wordsBits (w :: l) = bitsOfWord w ++ wordsBits l := rfl

theorem wordsBits_append (a b : List Word) : wordsBits (a ++ b) = wordsBits a ++ wordsBits b := by
  unfold wordsBits; simp

theorem bitsOfWord_length_wri (w : Word) : (bitsOfWord w).length = 64 := by
  unfold bitsOfWord; simp

theorem wordsBits_length (l : List Word) : (wordsBits l).length = 64 * l.length := by
  induction l with
  | nil => rfl
  | cons w l ih => rw [wordsBits_cons, List.length_append, bitsOfWord_length_wri, ih, List.length_cons]; omega

theorem wordsBits_eq (l : List Word) :
    wordsBits l = (List.range (64 * l.length)).map (getBit l.toArray) := by
  induction l with
  | nil => rfl
  | cons w l ih =>
    rw [wordsBits_cons, ih, List.length_cons, show 64 * (l.length + 1) = 64 + 64 * l.length by omega,
      List.range_add, List.map_append, List.map_map]
    have e1 : bitsOfWord w = List.map (getBit (w :: l).toArray) (List.range 64) := by
      unfold bitsOfWord
      apply List.map_congr_left
      intro i hi
      exact (RawVec.getBit_cons_lt w l i (by simpa using hi)).symm
    have e2 : List.map (getBit l.toArray) (List.range (64 * l.length)) =
        List.map (getBit (w :: l).toArray ∘ fun x => 64 + x) (List.range (64 * l.length)) := by
      apply List.map_congr_left
      intro i _
      exact (RawVec.getBit_cons w l i).symm
    rw [e1, e2]

theorem getBit_append (a b : List Word) (j : Nat) :
    getBit (a ++ b).toArray j =
      if j < 64 * a.length then getBit a.toArray j else getBit b.toArray (j - 64 * a.length) := by
  rw [getBit_def, getBit_def, getBit_def]
  unfold rd
  simp only [List.getElem?_toArray]
  by_cases h : j < 64 * a.length
  · rw [if_pos h, List.getElem?_append_left (by omega)]
  · rw [if_neg h, List.getElem?_append_right (by omega)]
    have e1 : (j - 64 * a.length) / 64 = j / 64 - a.length := by omega
    have e2 : (j - 64 * a.length) % 64 = j % 64 := by omega
    rw [e1, e2]

namespace RawVec

/-- for a well-formed vector whose length is a multiple of 64, the words are exactly the bits -/
theorem wordsBits_data {v : RawVec} (h : v.WF) (hd : 64 ∣ v.len) : wordsBits v.data.toList = v.bits := by
  rw [wordsBits_eq]
  have hs := h.1
  have : 64 * v.data.toList.length = v.len := by simp; omega
  rw [this]
  rfl

/-- words followed by a vector, seen as one vector -/
def cat (ws : List Word) (v : RawVec) : RawVec := ⟨64 * ws.length + v.len, (ws ++ v.data.toList).toArray⟩

theorem cat_WF (ws : List Word) {v : RawVec} (h : v.WF) : (cat ws v).WF := by
  have hs := h.1
  apply WF.of_tail_zero
  · simp [cat]; omega
  · intro j hj
    simp only [cat] at hj ⊢
    rw [getBit_append, if_neg (by omega)]
    exact h.tail_zero _ (by omega)

theorem bits_cat (ws : List Word) (v : RawVec) : (cat ws v).bits = wordsBits ws ++ v.bits := by
  rw [bits_eq_iff]
  refine ⟨by simp [cat, wordsBits_length, bits_length], fun i hi => ?_⟩
  simp only [cat] at hi ⊢
  rw [getBit_append]
  by_cases h : i < 64 * ws.length
  · rw [if_pos h, List.getElem?_append_left (by rw [wordsBits_length]; exact h), wordsBits_eq]
    simp [h]
  · rw [if_neg h, List.getElem?_append_right (by rw [wordsBits_length]; omega), wordsBits_length,
      bits_getElem?, if_pos (by omega)]

end RawVec

/-! ### 1. abstraction and invariant -/

namespace RawWriter

/-- everything pushed so far: the bits of the body words already on disk, then the buffer -/
def pushed (w : RawWriter) : List Bool := wordsBits w.body ++ w.buf.bits

/-- the invariant of an open writer -/
structure Good (w : RawWriter) : Prop where
  wf : w.buf.WF
  dvd : 64 ∣ w.bufLen
  pos : 0 < w.bufLen
  lt : w.buf.len < w.bufLen
  len_eq : w.len = (pushed w).length

def Inv (w : RawWriter) : Prop := w.isOpen = true → Good w

theorem pushed_length (w : RawWriter) : (pushed w).length = w.body.length * 64 + w.buf.len := by
  unfold pushed; rw [List.length_append, wordsBits_length, RawVec.bits_length]; omega

theorem Good.len_eq' {w : RawWriter} (h : Good w) : w.body.length * 64 + w.buf.len = w.len := by
  rw [h.len_eq, pushed_length]

theorem withBufLen_bufLen (h : List Word) (n : Nat) (bud : Option Nat) :
    (withBufLen h n bud).bufLen = max (((n + 63) / 64) * 64) 64 := rfl

theorem withBufLen_pushed (h : List Word) (n : Nat) (bud : Option Nat) : pushed (withBufLen h n bud) = [] := rfl

theorem withBufLen_Good (h : List Word) (n : Nat) (bud : Option Nat) : Good (withBufLen h n bud) := by
  refine ⟨RawVec.empty_WF, ?_, ?_, ?_, rfl⟩
  · rw [withBufLen_bufLen]; omega
  · rw [withBufLen_bufLen]; omega
  · rw [withBufLen_bufLen]; show 0 < _; omega

theorem withBufLen_Inv (h : List Word) (n : Nat) (bud : Option Nat) : Inv (withBufLen h n bud) :=
  fun _ => withBufLen_Good h n bud

/-! ### 2. writeBody / flush -/

theorem writeBody_none (w : RawWriter) (ws : List Word) (hb : w.budget = none) :
    w.writeBody ws = ({ w with body := w.body ++ ws }, true) := by
  unfold writeBody; rw [hb]

theorem writeBody_spec (w : RawWriter) (ws : List Word) :
    (∃ bud, w.writeBody ws = ({ w with body := w.body ++ ws, budget := bud }, true) ∧
        (w.budget = none → bud = none)) ∨
    (∃ b, w.budget = some b ∧ b < ws.length ∧
        w.writeBody ws = ({ w with body := w.body ++ ws.take b, budget := some 0 }, false)) := by
  unfold writeBody
  cases hb : w.budget with
  | none => left; exact ⟨none, by simp, fun _ => rfl⟩
  | some b =>
    by_cases h : ws.length ≤ b
    · left; exact ⟨some (b - ws.length), by simp [h], fun h => by cases h⟩
    · right; exact ⟨b, rfl, by omega, by simp [h]⟩

/-- `flushSafe` on an open writer, with the tuple pattern unfolded -/
theorem flushSafe_eq (w : RawWriter) (ho : w.isOpen = true) :
    flushSafe w =
      (let R := if w.buf.len > w.bufLen then w.buf.resize w.bufLen false else w.buf
       let nb := if w.buf.len > w.bufLen then
           RawVec.empty.pushInt (w.buf.int w.bufLen (w.buf.len - w.bufLen)) (w.buf.len - w.bufLen)
         else RawVec.empty
       let r := w.writeBody R.data.toList
       if r.2 = true then ({ r.1 with buf := nb }, true) else ({ r.1 with buf := R }, false)) := by
  unfold flushSafe
  by_cases h : w.buf.len > w.bufLen
  · have : 0 < w.buf.len - w.bufLen := by omega
    simp [ho, h, this]
    split <;> simp_all
  · simp [ho, h]
    split <;> simp_all

theorem resize_self {v : RawVec} (h : v.WF) : v.resize v.len false = v := by
  apply RawVec.canonical (RawVec.resize_WF h _ _) h
  rw [RawVec.bits_resize h, Nat.sub_self, List.replicate_zero, List.append_nil,
    List.take_of_length_le (by rw [RawVec.bits_length]; exact Nat.le_refl _)]

/-- the carry-over re-pushed into an empty buffer holds exactly the bits beyond `n` -/
theorem carry_eq {v : RawVec} (h : v.WF) (n : Nat) (h1 : n < v.len) (h2 : v.len ≤ n + 64) :
    RawVec.empty.pushInt (v.int n (v.len - n)) (v.len - n) = RawVec.ofBits (v.bits.drop n) := by
  have hk1 : 1 ≤ v.len - n := by omega
  have hk2 : v.len - n ≤ 64 := by omega
  apply RawVec.canonical (RawVec.pushInt_WF RawVec.empty_WF _ _ hk1 hk2) (RawVec.ofBits_WF _)
  rw [RawVec.bits_pushInt RawVec.empty_WF _ _ hk1 hk2, RawVec.bits_ofBits]
  have he : RawVec.empty.bits = [] := rfl
  rw [he, List.nil_append]
  apply List.ext_getElem?
  intro i
  rw [List.getElem?_drop, RawVec.bits_getElem?]
  by_cases hi : i < v.len - n
  · rw [if_pos (by omega)]
    simp [hi, RawVec.int_getLsbD v n _ hk1 hk2]
  · rw [if_neg (by omega)]
    simp [hi]

/-- the state after a successful flush (`bud` = the remaining budget) -/
def flushedTo (w : RawWriter) (bud : Option Nat) : RawWriter :=
  { w with body := w.body ++ (w.buf.resize w.bufLen false).data.toList,
           buf := RawVec.ofBits (w.buf.bits.drop w.bufLen), budget := bud }

/-- **flush keeps the carry-over**: when `bufLen ≤ buf.len < bufLen + 64` a flush either writes exactly the
first `bufLen / 64` words of the buffer and keeps the remaining bits as the new buffer, or the sink fails. -/
theorem flushSafe_spec (w : RawWriter) (ho : w.isOpen = true) (hwf : w.buf.WF)
    (hlo : w.bufLen ≤ w.buf.len) (hhi : w.buf.len < w.bufLen + 64) :
    (∃ bud, flushSafe w = (flushedTo w bud, true) ∧ (w.budget = none → bud = none)) ∨
    (∃ b, w.budget = some b ∧ b < (w.bufLen + 63) / 64 ∧ (flushSafe w).2 = false) := by
  rw [flushSafe_eq w ho]
  have hR : (if w.buf.len > w.bufLen then w.buf.resize w.bufLen false else w.buf)
      = w.buf.resize w.bufLen false := by
    split
    · rfl
    · have : w.bufLen = w.buf.len := by omega
      rw [this, resize_self hwf]
  have hnb : (if w.buf.len > w.bufLen then
      RawVec.empty.pushInt (w.buf.int w.bufLen (w.buf.len - w.bufLen)) (w.buf.len - w.bufLen)
      else RawVec.empty) = RawVec.ofBits (w.buf.bits.drop w.bufLen) := by
    split
    · exact carry_eq hwf _ (by omega) (by omega)
    · rw [List.drop_of_length_le (by rw [RawVec.bits_length]; omega)]; rfl
  simp only [hR, hnb]
  rcases writeBody_spec w (w.buf.resize w.bufLen false).data.toList with ⟨bud, h1, h2⟩ | ⟨b, h1, h2, h3⟩
  · left
    refine ⟨bud, ?_, h2⟩
    rw [h1]; rfl
  · right
    refine ⟨b, h1, ?_, ?_⟩
    · have := (RawVec.resize_WF hwf w.bufLen false).1
      simp at h2
      rw [this] at h2
      simpa using h2
    · rw [h3]; rfl

theorem pushed_flushedTo (w : RawWriter) (bud : Option Nat) (hwf : w.buf.WF) (hd : 64 ∣ w.bufLen)
    (hlo : w.bufLen ≤ w.buf.len) : pushed (flushedTo w bud) = pushed w := by
  unfold pushed flushedTo
  simp only []
  rw [wordsBits_append, RawVec.wordsBits_data (RawVec.resize_WF hwf _ _) (by simpa using hd),
    RawVec.bits_ofBits, RawVec.bits_resize hwf, List.append_assoc]
  congr 1
  rw [show w.bufLen - w.buf.len = 0 by omega]; simp

/-- the words a flush writes are literally the first `bufLen / 64` words of the buffer -/
theorem resize_words {v : RawVec} (h : v.WF) (n : Nat) (hd : 64 ∣ n) (hn : n ≤ v.len) :
    (v.resize n false).data.toList = v.data.toList.take (n / 64) := by
  have hs := h.1
  unfold RawVec.resize RawVec.setUnusedBits
  simp only []
  rw [if_neg (by omega), if_neg (by omega)]
  simp only []
  unfold resizeArr
  rw [if_pos (by omega), show (n + 63) / 64 = n / 64 by omega]
  simp

/-- **flush, unlimited sink**: the flush succeeds, appends the first `bufLen / 64` buffer words to the body,
keeps the carry-over as the new buffer, and leaves `pushed` (and everything else) unchanged. -/
theorem flushSafe_none (w : RawWriter) (ho : w.isOpen = true) (hwf : w.buf.WF) (hd : 64 ∣ w.bufLen)
    (hlo : w.bufLen ≤ w.buf.len) (hhi : w.buf.len < w.bufLen + 64) (hb : w.budget = none) :
    (flushSafe w).2 = true ∧
    (flushSafe w).1.body = w.body ++ w.buf.data.toList.take (w.bufLen / 64) ∧
    (flushSafe w).1.buf = (if w.buf.len > w.bufLen then
        RawVec.empty.pushInt (w.buf.int w.bufLen (w.buf.len - w.bufLen)) (w.buf.len - w.bufLen)
      else RawVec.empty) ∧
    (flushSafe w).1.buf.bits = w.buf.bits.drop w.bufLen ∧
    pushed (flushSafe w).1 = pushed w ∧
    (flushSafe w).1.len = w.len ∧ (flushSafe w).1.header = w.header := by
  rcases flushSafe_spec w ho hwf hlo hhi with ⟨bud, h1, _⟩ | ⟨b, h1, _⟩
  · rw [h1]
    refine ⟨rfl, ?_, ?_, ?_, pushed_flushedTo w bud hwf hd hlo, rfl, rfl⟩
    · show w.body ++ _ = _
      rw [resize_words hwf _ hd hlo]
    · show RawVec.ofBits _ = _
      split
      · exact (carry_eq hwf _ (by omega) (by omega)).symm
      · rw [List.drop_of_length_le (by rw [RawVec.bits_length]; omega)]; rfl
    · show (RawVec.ofBits _).bits = _
      rw [RawVec.bits_ofBits]
  · rw [hb] at h1; cases h1

/-! ### 3. push steps -/

/-- `w'` is an open, invariant-satisfying extension of `w` by the bits `L` -/
structure Ext (w w' : RawWriter) (L : List Bool) : Prop where
  good : Good w'
  isOpen : w'.isOpen = true
  pushed_eq : pushed w' = pushed w ++ L
  len_eq : w'.len = w.len + L.length
  bufLen_eq : w'.bufLen = w.bufLen
  userHeader_eq : w'.userHeader = w.userHeader
  header_eq : w'.header = w.header
  budget_none : w.budget = none → w'.budget = none

theorem Ext.refl {w : RawWriter} (hg : Good w) (ho : w.isOpen = true) : Ext w w [] :=
  ⟨hg, ho, by simp, rfl, rfl, rfl, rfl, id⟩

theorem Ext.trans {w w' w'' : RawWriter} {L L' : List Bool} (h1 : Ext w w' L) (h2 : Ext w' w'' L') :
    Ext w w'' (L ++ L') :=
  ⟨h2.good, h2.isOpen, by rw [h2.pushed_eq, h1.pushed_eq, List.append_assoc],
    by rw [h2.len_eq, h1.len_eq, List.length_append]; omega,
    by rw [h2.bufLen_eq, h1.bufLen_eq], by rw [h2.userHeader_eq, h1.userHeader_eq],
    by rw [h2.header_eq, h1.header_eq], fun h => h2.budget_none (h1.budget_none h)⟩

/-- the common tail of `push_bit` / `push_int`: flush when the buffer is full; a failing flush panics -/
def flushIf (w1 : RawWriter) : Outcome RawWriter :=
  if w1.buf.len ≥ w1.bufLen then
    let (w2, okw) := w1.flushSafe
    if okw then ok w2 else fault (.panic .unwrap)
  else ok w1

theorem pushBit_eq (w : RawWriter) (b : Bool) :
    pushBit w b = flushIf { w with buf := w.buf.pushBit b, len := w.len + 1 } := rfl

theorem pushInt_eq (w : RawWriter) (x : Word) (k : Nat) :
    pushInt w x k = if k = 0 then ok w else flushIf { w with buf := w.buf.pushInt x k, len := w.len + k } := rfl

/-- a sink failure during a push: the budget is smaller than the `bufLen / 64` words a flush writes -/
def SinkFails (w : RawWriter) : Prop := ∃ b, w.budget = some b ∧ b < (w.bufLen + 63) / 64

theorem flushIf_spec (w : RawWriter) (ho : w.isOpen = true) (hg : Good w) (v : RawVec) (L : List Bool)
    (hv : v.WF) (hb : v.bits = w.buf.bits ++ L) (hL : L.length ≤ 64) :
    (∃ w', flushIf { w with buf := v, len := w.len + L.length } = ok w' ∧ Ext w w' L) ∨
    (flushIf { w with buf := v, len := w.len + L.length } = fault (.panic .unwrap) ∧ SinkFails w) := by
  have hvl : v.len = w.buf.len + L.length := by
    rw [← RawVec.bits_length v, hb, List.length_append, RawVec.bits_length]
  have hlt := hg.lt
  have hp1 : pushed { w with buf := v, len := w.len + L.length } = pushed w ++ L := by
    unfold pushed; simp only []; rw [hb, List.append_assoc]
  unfold flushIf
  simp only []
  by_cases hfull : v.len ≥ w.bufLen
  · rw [if_pos hfull]
    rcases flushSafe_spec { w with buf := v, len := w.len + L.length } ho hv hfull (by simp only []; omega)
      with ⟨bud, h1, h2⟩ | ⟨b, h1, h2, h3⟩
    · left
      refine ⟨_, by rw [h1]; rfl, ?_⟩
      have hpe := pushed_flushedTo { w with buf := v, len := w.len + L.length } bud hv hg.dvd hfull
      refine ⟨⟨RawVec.ofBits_WF _, hg.dvd, hg.pos, ?_, ?_⟩, ho, ?_, rfl, rfl, rfl, rfl, h2⟩
      · show (RawVec.ofBits _).len < w.bufLen
        rw [← RawVec.bits_length, RawVec.bits_ofBits, List.length_drop, RawVec.bits_length]
        have := hg.pos; have := hg.dvd
        show v.len - w.bufLen < w.bufLen
        omega
      · rw [hpe, hp1, List.length_append, ← hg.len_eq]; rfl
      · rw [hpe, hp1]
    · right
      refine ⟨?_, b, h1, h2⟩
      generalize flushSafe { w with buf := v, len := w.len + L.length } = r at h3
      obtain ⟨r1, r2⟩ := r
      simp only [] at h3
      subst h3
      rfl
  · rw [if_neg hfull]
    left
    refine ⟨_, rfl, ⟨hv, hg.dvd, hg.pos, by show v.len < w.bufLen; omega, ?_⟩, ho, hp1, rfl, rfl, rfl, rfl, id⟩
    rw [hp1, List.length_append, ← hg.len_eq]

/-- **push_bit**: one more bit, invariant kept; the only possible failure is the `unwrap` panic of a
failing flush. -/
theorem pushBit_step (w : RawWriter) (ho : w.isOpen = true) (hg : Good w) (b : Bool) :
    (∃ w', pushBit w b = ok w' ∧ Ext w w' [b]) ∨
    (pushBit w b = fault (.panic .unwrap) ∧ SinkFails w) := by
  rw [pushBit_eq]
  exact flushIf_spec w ho hg (w.buf.pushBit b) [b] (RawVec.pushBit_WF hg.wf b) (RawVec.bits_pushBit hg.wf b)
    (by simp)

/-- the bits of an integer of width `k` -/
def intBits (x : Word) (k : Nat) : List Bool := (List.range k).map fun i => x.getLsbD i

@[simp] theorem intBits_length (x : Word) (k : Nat) : (intBits x k).length = k := by simp [intBits]

theorem pushInt_step (w : RawWriter) (ho : w.isOpen = true) (hg : Good w) (x : Word) (k : Nat)
    (hk : k ≤ 64) :
    (∃ w', pushInt w x k = ok w' ∧ Ext w w' (intBits x k)) ∨
    (pushInt w x k = fault (.panic .unwrap) ∧ SinkFails w) := by
  rw [pushInt_eq]
  by_cases h0 : k = 0
  · subst h0
    left
    exact ⟨w, rfl, Ext.refl hg ho⟩
  · rw [if_neg h0]
    have := flushIf_spec w ho hg (w.buf.pushInt x k) (intBits x k)
      (RawVec.pushInt_WF hg.wf x k (by omega) hk) (RawVec.bits_pushInt hg.wf x k (by omega) hk) (by simp [hk])
    rw [intBits_length] at this
    exact this

theorem pushInt_zero (w : RawWriter) (x : Word) : pushInt w x 0 = ok w := rfl

/-- item 2 in terms of `Inv`, unlimited sink -/
theorem pushBit_spec (w : RawWriter) (ho : w.isOpen = true) (hI : Inv w) (hb : w.budget = none) (b : Bool) :
    ∃ w', pushBit w b = ok w' ∧ Inv w' ∧ w'.isOpen = true ∧ pushed w' = pushed w ++ [b] ∧
      w'.len = w.len + 1 ∧ w'.budget = none := by
  rcases pushBit_step w ho (hI ho) b with ⟨w', h, e⟩ | ⟨_, b', h, _⟩
  · exact ⟨w', h, fun _ => e.good, e.isOpen, e.pushed_eq, e.len_eq, e.budget_none hb⟩
  · rw [hb] at h; cases h

theorem pushInt_spec (w : RawWriter) (ho : w.isOpen = true) (hI : Inv w) (hb : w.budget = none) (x : Word)
    (k : Nat) (hk : k ≤ 64) :
    ∃ w', pushInt w x k = ok w' ∧ Inv w' ∧ w'.isOpen = true ∧
      pushed w' = pushed w ++ (List.range k).map (fun i => x.getLsbD i) ∧
      w'.len = w.len + k ∧ w'.budget = none := by
  rcases pushInt_step w ho (hI ho) x k hk with ⟨w', h, e⟩ | ⟨_, b', h, _⟩
  · exact ⟨w', h, fun _ => e.good, e.isOpen, e.pushed_eq, by rw [e.len_eq, intBits_length],
      e.budget_none hb⟩
  · rw [hb] at h; cases h

/-! ### 4. close -/

/-- body words on disk followed by the buffer words = canonical packing of everything pushed -/
theorem body_buf_eq (w : RawWriter) (hwf : w.buf.WF) :
    w.body ++ w.buf.data.toList = (RawVec.ofBits (pushed w)).data.toList := by
  have : RawVec.cat w.body w.buf = RawVec.ofBits (pushed w) := by
    apply RawVec.canonical (RawVec.cat_WF _ hwf) (RawVec.ofBits_WF _)
    rw [RawVec.bits_cat, RawVec.bits_ofBits]; rfl
  rw [← this]
  simp [RawVec.cat]

theorem ser_ofBits (L : List Bool) :
    rawVecC.ser (RawVec.ofBits L) =
      [BitVec.ofNat 64 L.length, BitVec.ofNat 64 ((L.length + 63) / 64)] ++ (RawVec.ofBits L).data.toList := by
  have h1 : (RawVec.ofBits L).len = L.length := by rw [← RawVec.bits_length, RawVec.bits_ofBits]
  have h2 := (RawVec.ofBits_WF L).1
  simp only [rawVecC, vecU64C]
  rw [h2, h1]; rfl

theorem closeWith_closed (w : RawWriter) (uh : List Word) (hc : w.isOpen = false) : closeWith w uh = ok w := by
  unfold closeWith; simp [hc]

/-- what `close` leaves behind -/
structure Closed (w w' : RawWriter) (uh : List Word) : Prop where
  isOpen : w'.isOpen = false
  len_eq : w'.len = w.len
  body_eq : w'.body = (RawVec.ofBits (pushed w)).data.toList
  header_eq : w'.header = uh ++ [BitVec.ofNat 64 w.len, BitVec.ofNat 64 ((w.len + 63) / 64)]
  file_eq : w'.file = uh ++ rawVecC.ser (RawVec.ofBits (pushed w))
  userHeader_eq : w'.userHeader = w.userHeader
  buf_eq : w'.buf = RawVec.empty

theorem closeWith_spec (w : RawWriter) (ho : w.isOpen = true) (hg : Good w) (uh : List Word) :
    (∃ w', closeWith w uh = ok w' ∧ Closed w w' uh) ∨
    (closeWith w uh = fault (.err .other) ∧ ∃ b, w.budget = some b ∧ b < w.buf.data.size) := by
  unfold closeWith flushFinal
  simp only [ho]
  have hbody := body_buf_eq w hg.wf
  rcases writeBody_spec w w.buf.data.toList with ⟨bud, h1, h2⟩ | ⟨b, h1, h2, h3⟩
  · left
    rw [h1]
    refine ⟨_, rfl, rfl, rfl, hbody, rfl, ?_, rfl, rfl⟩
    show (uh ++ _) ++ (w.body ++ w.buf.data.toList) = _
    rw [hbody, ser_ofBits, ← hg.len_eq, List.append_assoc]
    rfl
  · right
    rw [h3]
    exact ⟨rfl, b, h1, by simpa using h2⟩

/-- **close** (any budget): if `close` succeeds, the writer is closed, `len` is unchanged, the body is
complete (the canonical packing of everything pushed) and the file is the user header followed by the
serialisation of the equivalent in-memory vector. -/
theorem closeWith_ok (w : RawWriter) (ho : w.isOpen = true) (hI : Inv w) (uh : List Word) (w' : RawWriter)
    (h : closeWith w uh = ok w') : Closed w w' uh := by
  rcases closeWith_spec w ho (hI ho) uh with ⟨w'', h1, h2⟩ | ⟨h1, _⟩
  · rw [h1] at h; cases h; exact h2
  · rw [h1] at h; cases h

/-- **close** (unlimited budget) succeeds -/
theorem closeWith_none (w : RawWriter) (ho : w.isOpen = true) (hI : Inv w) (uh : List Word)
    (hb : w.budget = none) : ∃ w', closeWith w uh = ok w' ∧ Closed w w' uh := by
  rcases closeWith_spec w ho (hI ho) uh with h | ⟨_, b, h2, _⟩
  · exact h
  · rw [hb] at h2; cases h2

/-- **close is idempotent** -/
theorem closeWith_idem (w : RawWriter) (uh uh' : List Word) (w' : RawWriter) (h : closeWith w uh = ok w') :
    closeWith w' uh' = ok w' := by
  apply closeWith_closed
  unfold closeWith at h
  by_cases ho : w.isOpen = true
  · simp only [ho] at h
    generalize flushFinal w = r at h
    obtain ⟨r1, r2⟩ := r
    cases r2
    · simp at h
    · simp at h; rw [← h]
  · simp only [ho] at h
    simp at h ho
    rw [← h]; exact ho

/-- item 3, as stated: close of an invariant-satisfying open writer with an unlimited sink -/
theorem close_spec (w : RawWriter) (ho : w.isOpen = true) (hI : Inv w) (hb : w.budget = none) :
    ∃ w', close w = ok w' ∧ w'.isOpen = false ∧ w'.len = w.len ∧
      w'.file = w.userHeader ++ rawVecC.ser (RawVec.ofBits (pushed w)) ∧
      w'.body = (RawVec.ofBits (pushed w)).data.toList ∧
      w'.header = w.userHeader ++ [BitVec.ofNat 64 w.len, BitVec.ofNat 64 ((w.len + 63) / 64)] ∧
      close w' = ok w' := by
  obtain ⟨w', h1, h2⟩ := closeWith_none w ho hI w.userHeader hb
  exact ⟨w', h1, h2.isOpen, h2.len_eq, h2.file_eq, h2.body_eq, h2.header_eq, closeWith_idem w _ _ w' h1⟩

/-! ### 5. failure laws -/

theorem writeBody_fail (w : RawWriter) (ws : List Word) (b : Nat) (hb : w.budget = some b) (h : b < ws.length) :
    (w.writeBody ws).2 = false := by
  unfold writeBody
  rw [hb]
  simp [show ¬ ws.length ≤ b by omega]

theorem flushIf_fault (w : RawWriter) (f : Fault) (h : flushIf w = fault f) : f = .panic .unwrap := by
  unfold flushIf at h
  split at h
  · generalize flushSafe w = r at h
    obtain ⟨r1, r2⟩ := r
    cases r2
    · simp at h; exact h.symm
    · simp at h
  · cases h

/-- a push can only fail with the `unwrap` panic (no hypothesis on the writer) -/
theorem pushBit_fault (w : RawWriter) (b : Bool) (f : Fault) (h : pushBit w b = fault f) :
    f = .panic .unwrap := flushIf_fault _ f (by rw [← pushBit_eq]; exact h)

theorem pushInt_fault (w : RawWriter) (x : Word) (k : Nat) (f : Fault) (h : pushInt w x k = fault f) :
    f = .panic .unwrap := by
  rw [pushInt_eq] at h
  split at h
  · cases h
  · exact flushIf_fault _ f h

/-- `close` can only fail with an io error (no hypothesis on the writer) -/
theorem closeWith_fault (w : RawWriter) (uh : List Word) (f : Fault) (h : closeWith w uh = fault f) :
    f = .err .other := by
  unfold closeWith at h
  split at h
  · cases h
  · generalize flushFinal w = r at h
    obtain ⟨r1, r2⟩ := r
    cases r2
    · simp at h; exact h.symm
    · simp at h

/-- a flush of a full buffer fails when the sink accepts fewer than `bufLen / 64` words -/
theorem flushSafe_fails (w : RawWriter) (ho : w.isOpen = true) (hwf : w.buf.WF) (hlo : w.bufLen ≤ w.buf.len)
    (hs : SinkFails w) : (flushSafe w).2 = false := by
  obtain ⟨b, hb, hlt⟩ := hs
  rw [flushSafe_eq w ho]
  simp only []
  have hsz : (w.bufLen + 63) / 64 ≤
      (if w.buf.len > w.bufLen then w.buf.resize w.bufLen false else w.buf).data.toList.length := by
    split
    · have := (RawVec.resize_WF hwf w.bufLen false).1
      simp at this ⊢; omega
    · have := hwf.1
      simp; omega
  rw [if_neg (by rw [writeBody_fail w _ b hb (by omega)]; simp)]

theorem flushIf_fails (w : RawWriter) (ho : w.isOpen = true) (hwf : w.buf.WF) (hlo : w.bufLen ≤ w.buf.len)
    (hs : SinkFails w) : flushIf w = fault (.panic .unwrap) := by
  unfold flushIf
  rw [if_pos hlo]
  have := flushSafe_fails w ho hwf hlo hs
  generalize flushSafe w = r at this
  obtain ⟨r1, r2⟩ := r
  simp only [] at this
  subst this
  rfl

/-- **failure law for push_bit**: the push panics (`unwrap`) exactly when it fills the buffer and the sink
cannot take the `bufLen / 64` words of the flush -/
theorem pushBit_fails_iff (w : RawWriter) (ho : w.isOpen = true) (hg : Good w) (b : Bool) :
    pushBit w b = fault (.panic .unwrap) ↔ (w.bufLen ≤ w.buf.len + 1 ∧ SinkFails w) := by
  constructor
  · intro h
    refine ⟨?_, ?_⟩
    · rw [pushBit_eq] at h
      unfold flushIf at h
      split at h
      · rename_i h'; exact h'
      · cases h
    · rcases pushBit_step w ho hg b with ⟨w', h1, _⟩ | ⟨_, h2⟩
      · rw [h1] at h; cases h
      · exact h2
  · rintro ⟨h1, h2⟩
    rw [pushBit_eq]
    exact flushIf_fails _ ho (RawVec.pushBit_WF hg.wf b) h1 h2

theorem pushInt_fails_iff (w : RawWriter) (ho : w.isOpen = true) (hg : Good w) (x : Word) (k : Nat)
    (hk : k ≤ 64) :
    pushInt w x k = fault (.panic .unwrap) ↔ (k ≠ 0 ∧ w.bufLen ≤ w.buf.len + k ∧ SinkFails w) := by
  constructor
  · intro h
    have hs : SinkFails w := by
      rcases pushInt_step w ho hg x k hk with ⟨w', h1, _⟩ | ⟨_, h2⟩
      · rw [h1] at h; cases h
      · exact h2
    rw [pushInt_eq] at h
    split at h
    · cases h
    · rename_i h0
      refine ⟨h0, ?_, hs⟩
      unfold flushIf at h
      split at h
      · rename_i h'
        simp only [RawVec.len_pushInt] at h'
        exact h'
      · cases h
  · rintro ⟨h0, h1, h2⟩
    rw [pushInt_eq, if_neg h0]
    exact flushIf_fails _ ho (RawVec.pushInt_WF hg.wf x k (by omega) hk)
      (by simp only [RawVec.len_pushInt]; exact h1) h2

/-- **failure law for close**: `close` fails (with an io error) exactly when the sink cannot take the words
left in the buffer; hence `close = ok` implies that the body is complete (`closeWith_ok`). -/
theorem closeWith_fails_iff (w : RawWriter) (ho : w.isOpen = true) (hg : Good w) (uh : List Word) :
    closeWith w uh = fault (.err .other) ↔ ∃ b, w.budget = some b ∧ b < w.buf.data.size := by
  constructor
  · intro h
    rcases closeWith_spec w ho hg uh with ⟨w', h1, _⟩ | ⟨_, h2⟩
    · rw [h1] at h; cases h
    · exact h2
  · rintro ⟨b, hb, hlt⟩
    have := writeBody_fail w w.buf.data.toList b hb (by simpa using hlt)
    unfold closeWith flushFinal
    simp only [ho]
    generalize w.writeBody w.buf.data.toList = r at this
    obtain ⟨r1, r2⟩ := r
    simp only [] at this
    subst this
    rfl

/-! ### 6. push histories -/

/-- a push of the writer API -/
inductive Push
  | bit (b : Bool)
  | int (x : Word) (k : Nat)

/-- the bits a push appends -/
def Push.bits : Push → List Bool
  | .bit b => [b]
  | .int x k => intBits x k

/-- documented domain: integer widths are at most 64 -/
def Push.valid : Push → Prop
  | .bit _ => True
  | .int _ k => k ≤ 64

def Push.run : Push → RawWriter → Outcome RawWriter
  | .bit b, w => w.pushBit b
  | .int x k, w => w.pushInt x k

/-- run a list of pushes, stopping at the first fault -/
def pushAll (ps : List Push) (w : RawWriter) : Outcome RawWriter := ps.foldlM (fun w p => p.run w) w

/-- all bits of a history, in order -/
def allBits (ps : List Push) : List Bool := ps.flatMap Push.bits

theorem pushAll_nil (w : RawWriter) : pushAll [] w = ok w := rfl

theorem pushAll_cons (p : Push) (ps : List Push) (w : RawWriter) :
    pushAll (p :: ps) w = (p.run w >>= pushAll ps) := by
  unfold pushAll; rw [List.foldlM_cons]

theorem Push.step (p : Push) (hp : p.valid) (w : RawWriter) (ho : w.isOpen = true) (hg : Good w) :
    (∃ w', p.run w = ok w' ∧ Ext w w' p.bits) ∨ (p.run w = fault (.panic .unwrap) ∧ SinkFails w) := by
  cases p with
  | bit b => exact pushBit_step w ho hg b
  | int x k => exact pushInt_step w ho hg x k hp

/-- any valid history: either every push succeeds, the invariant holds and `pushed` grew by exactly the
bits of the history, or some push hit a failing sink and panicked -/
theorem pushAll_spec (ps : List Push) (hps : ∀ p ∈ ps, p.valid) (w : RawWriter) (ho : w.isOpen = true)
    (hg : Good w) :
    (∃ w', pushAll ps w = ok w' ∧ Ext w w' (allBits ps)) ∨
    (pushAll ps w = fault (.panic .unwrap) ∧ w.budget ≠ none) := by
  induction ps generalizing w with
  | nil => left; exact ⟨w, rfl, Ext.refl hg ho⟩
  | cons p ps ih =>
    rw [pushAll_cons]
    rcases p.step (hps p (by simp)) w ho hg with ⟨w1, h1, e1⟩ | ⟨h1, b, hb, _⟩
    · rw [h1, bind_ok]
      rcases ih (fun q hq => hps q (by simp [hq])) w1 e1.isOpen e1.good with ⟨w2, h2, e2⟩ | ⟨h2, hb⟩
      · left
        refine ⟨w2, h2, ?_⟩
        have := e1.trans e2
        simpa [allBits] using this
      · right
        exact ⟨h2, fun h => hb (e1.budget_none h)⟩
    · right
      rw [h1, bind_fault]
      exact ⟨rfl, by rw [hb]; simp⟩

theorem pushAll_none (ps : List Push) (hps : ∀ p ∈ ps, p.valid) (w : RawWriter) (ho : w.isOpen = true)
    (hg : Good w) (hb : w.budget = none) : ∃ w', pushAll ps w = ok w' ∧ Ext w w' (allBits ps) := by
  rcases pushAll_spec ps hps w ho hg with h | ⟨_, h⟩
  · exact h
  · exact absurd hb h

/-- the whole life of a writer: create, push, close -/
def writeAll (userHeader : List Word) (bufLen : Nat) (ps : List Push) (budget : Option Nat := none) :
    Outcome RawWriter :=
  pushAll ps (withBufLen userHeader bufLen budget) >>= close

/-- **History theorem** (unlimited sink): for every buffer size and every valid list of pushes, the file
after `close` is the user header followed by the serialisation of the in-memory vector holding all pushed
bits; `len` is the number of bits pushed; the writer is closed and closing again changes nothing. -/
theorem history (uh : List Word) (bufLen : Nat) (ps : List Push) (hps : ∀ p ∈ ps, p.valid) :
    ∃ w, writeAll uh bufLen ps = ok w ∧
      w.file = uh ++ rawVecC.ser (RawVec.ofBits (allBits ps)) ∧
      w.len = (allBits ps).length ∧ w.isOpen = false ∧ close w = ok w := by
  obtain ⟨w1, h1, e1⟩ := pushAll_none ps hps (withBufLen uh bufLen none) rfl (withBufLen_Good _ _ _) rfl
  have hp : pushed w1 = allBits ps := by rw [e1.pushed_eq, withBufLen_pushed, List.nil_append]
  have hu : w1.userHeader = uh := e1.userHeader_eq
  obtain ⟨w2, h2, c2⟩ := closeWith_none w1 e1.isOpen (fun _ => e1.good) w1.userHeader
    (e1.budget_none rfl)
  refine ⟨w2, ?_, ?_, ?_, c2.isOpen, closeWith_idem _ _ _ _ h2⟩
  · unfold writeAll; rw [h1, bind_ok]; exact h2
  · rw [c2.file_eq, hp, hu]
  · rw [c2.len_eq, e1.good.len_eq, hp]

/-- the raw-writer instance of the statement (no user header) -/
theorem history_raw (bufLen : Nat) (ps : List Push) (hps : ∀ p ∈ ps, p.valid) :
    ∃ w, writeAll [] bufLen ps = ok w ∧
      w.file = rawVecC.ser (RawVec.ofBits (allBits ps)) ∧ w.len = (allBits ps).length ∧
      w.isOpen = false ∧ close w = ok w := by
  simpa using history [] bufLen ps hps

/-- **History theorem with a failing sink**: for every budget, the run either succeeds — and then the file
is complete and correct exactly as with an unlimited sink — or it stops with the `unwrap` panic of a push
or the io error of `close`; a truncated file is never reported as a success. -/
theorem history_budget (uh : List Word) (bufLen : Nat) (ps : List Push) (hps : ∀ p ∈ ps, p.valid)
    (budget : Option Nat) :
    (∃ w, writeAll uh bufLen ps budget = ok w ∧
      w.file = uh ++ rawVecC.ser (RawVec.ofBits (allBits ps)) ∧
      w.body = (RawVec.ofBits (allBits ps)).data.toList ∧
      w.len = (allBits ps).length ∧ w.isOpen = false) ∨
    writeAll uh bufLen ps budget = fault (.panic .unwrap) ∨
    writeAll uh bufLen ps budget = fault (.err .other) := by
  unfold writeAll
  rcases pushAll_spec ps hps (withBufLen uh bufLen budget) rfl (withBufLen_Good _ _ _) with
    ⟨w1, h1, e1⟩ | ⟨h1, _⟩
  · have hp : pushed w1 = allBits ps := by rw [e1.pushed_eq, withBufLen_pushed, List.nil_append]
    have hu : w1.userHeader = uh := e1.userHeader_eq
    rw [h1, bind_ok]
    rcases closeWith_spec w1 e1.isOpen e1.good w1.userHeader with ⟨w2, h2, c2⟩ | ⟨h2, _⟩
    · left
      refine ⟨w2, h2, ?_, ?_, ?_, c2.isOpen⟩
      · rw [c2.file_eq, hp, hu]
      · rw [c2.body_eq, hp]
      · rw [c2.len_eq, e1.good.len_eq, hp]
    · right; right; exact h2
  · right; left; rw [h1, bind_fault]

end RawWriter

/-! ### 7. the integer writer -/

namespace IntWriter
open RawWriter

/-- the bits of a list of `width`-bit items -/
def itemBits (width : Nat) (xs : List Word) : List Bool := xs.flatMap fun x => intBits x width

/-- the raw vector of the equivalent in-memory `IntVec` -/
def rawOf (width : Nat) (xs : List Word) : RawVec := xs.foldl (fun d x => d.pushInt x width) RawVec.empty

theorem foldl_pushInt (width : Nat) (h1 : 1 ≤ width) (h2 : width ≤ 64) (xs : List Word) (d : RawVec)
    (hd : d.WF) :
    (xs.foldl (fun d x => d.pushInt x width) d).WF ∧
      (xs.foldl (fun d x => d.pushInt x width) d).bits = d.bits ++ itemBits width xs := by
  induction xs generalizing d with
  | nil => simp [itemBits, hd]
  | cons x xs ih =>
    have := ih (d.pushInt x width) (RawVec.pushInt_WF hd x width h1 h2)
    rw [RawVec.bits_pushInt hd x width h1 h2] at this
    simpa [itemBits, intBits] using this

theorem rawOf_WF (width : Nat) (h1 : 1 ≤ width) (h2 : width ≤ 64) (xs : List Word) : (rawOf width xs).WF :=
  (foldl_pushInt width h1 h2 xs _ RawVec.empty_WF).1

theorem bits_rawOf (width : Nat) (h1 : 1 ≤ width) (h2 : width ≤ 64) (xs : List Word) :
    (rawOf width xs).bits = itemBits width xs := by
  have := (foldl_pushInt width h1 h2 xs _ RawVec.empty_WF).2
  rw [show RawVec.empty.bits = [] from rfl, List.nil_append] at this
  exact this

theorem rawOf_eq_ofBits (width : Nat) (h1 : 1 ≤ width) (h2 : width ≤ 64) (xs : List Word) :
    RawVec.ofBits (itemBits width xs) = rawOf width xs := by
  apply RawVec.canonical (RawVec.ofBits_WF _) (rawOf_WF width h1 h2 xs)
  rw [RawVec.bits_ofBits, bits_rawOf width h1 h2]

theorem foldl_push (xs : List Word) (v : IntVec) :
    xs.foldl IntVec.push v =
      ⟨v.len + xs.length, v.width, xs.foldl (fun d x => d.pushInt x v.width) v.data⟩ := by
  induction xs generalizing v with
  | nil => rfl
  | cons x xs ih =>
    rw [List.foldl_cons, ih]
    simp only [IntVec.push, List.length_cons, List.foldl_cons]
    congr 1; omega

/-- the in-memory vector built from the same items -/
theorem ofList_eq (width : Nat) (xs : List Word) :
    IntVec.ofList width (xs.map BitVec.toNat) = ⟨xs.length, width, rawOf width xs⟩ := by
  unfold IntVec.ofList IntVec.extend
  have : List.map (BitVec.ofNat 64) (xs.map BitVec.toNat) = xs := by
    rw [List.map_map]
    conv => rhs; rw [← List.map_id xs]
    apply List.map_congr_left
    intro x _
    simp
  rw [this, foldl_push]
  simp [rawOf]

/-- run a list of pushes, stopping at the first fault -/
def pushAll (xs : List Word) (w : IntWriter) : Outcome IntWriter := xs.foldlM (fun w x => w.push x) w

theorem pushAll_cons (x : Word) (xs : List Word) (w : IntWriter) :
    pushAll (x :: xs) w = (w.push x >>= pushAll xs) := by
  unfold pushAll; rw [List.foldlM_cons]

/-- invariant of an open integer writer -/
structure Good (w : IntWriter) : Prop where
  w1 : 1 ≤ w.width
  w2 : w.width ≤ 64
  isOpen : w.writer.isOpen = true
  good : RawWriter.Good w.writer

theorem push_step (w : IntWriter) (hg : Good w) (x : Word) :
    (∃ w', w.push x = ok w' ∧ Good w' ∧ w'.width = w.width ∧ w'.len = w.len + 1 ∧
        Ext w.writer w'.writer (intBits x w.width)) ∨
    (w.push x = fault (.panic .unwrap) ∧ w.writer.budget ≠ none) := by
  unfold push
  rcases pushInt_step w.writer hg.isOpen hg.good x w.width hg.w2 with ⟨r, h1, e⟩ | ⟨h1, b, hb, _⟩
  · left
    rw [h1]
    exact ⟨_, rfl, ⟨hg.w1, hg.w2, e.isOpen, e.good⟩, rfl, rfl, e⟩
  · right
    rw [h1]
    exact ⟨rfl, by rw [hb]; simp⟩

theorem pushAll_spec (xs : List Word) (w : IntWriter) (hg : Good w) :
    (∃ w', pushAll xs w = ok w' ∧ Good w' ∧ w'.width = w.width ∧ w'.len = w.len + xs.length ∧
        Ext w.writer w'.writer (itemBits w.width xs)) ∨
    (pushAll xs w = fault (.panic .unwrap) ∧ w.writer.budget ≠ none) := by
  induction xs generalizing w with
  | nil => left; exact ⟨w, rfl, hg, rfl, rfl, Ext.refl hg.good hg.isOpen⟩
  | cons x xs ih =>
    rw [pushAll_cons]
    rcases push_step w hg x with ⟨w1, h1, g1, hw, hl, e1⟩ | ⟨h1, hb⟩
    · rw [h1, bind_ok]
      rcases ih w1 g1 with ⟨w2, h2, g2, hw2, hl2, e2⟩ | ⟨h2, hb⟩
      · left
        refine ⟨w2, h2, g2, by rw [hw2, hw], by rw [hl2, hl, List.length_cons]; omega, ?_⟩
        have := e1.trans e2
        rw [hw] at this
        simpa [itemBits] using this
      · right
        exact ⟨h2, fun h => hb (e1.budget_none h)⟩
    · right
      rw [h1, bind_fault]
      exact ⟨rfl, hb⟩

/-- the whole life of an integer writer: create, push, close -/
def writeAll (width bufLen : Nat) (xs : List Word) (budget : Option Nat := none) : Outcome IntWriter :=
  withBufLen width bufLen budget >>= pushAll xs >>= close

theorem withBufLen_ok (width bufLen : Nat) (budget : Option Nat) (h1 : 1 ≤ width) (h2 : width ≤ 64) :
    withBufLen width bufLen budget = ok ⟨0, width, RawWriter.withBufLen [0, 0] (bufLen * width) budget⟩ := by
  unfold withBufLen
  rw [if_neg (by omega)]

/-- widths outside 1..64 are rejected at construction -/
theorem withBufLen_bad (width bufLen : Nat) (budget : Option Nat) (h : width = 0 ∨ width > 64) :
    withBufLen width bufLen budget = fault (.err .other) := by
  unfold withBufLen
  rw [if_pos h]

theorem close_idem (w w' : IntWriter) (h : close w = ok w') : close w' = ok w' := by
  unfold close at h ⊢
  cases hc : w.writer.closeWith [BitVec.ofNat 64 w.len, BitVec.ofNat 64 w.width] with
  | fault f => rw [hc] at h; cases h
  | ok r =>
    rw [hc] at h
    simp at h
    subst h
    simp only []
    rw [closeWith_idem _ _ _ _ hc]
    rfl

/-- **IntWriter history theorem**, any budget: for every width in 1..64, every buffer size and every list of
values, the run either succeeds — then the file is `[n, width] ++` the serialisation of the raw vector
holding the values truncated to `width` bits, i.e. the serialisation of the equivalent `IntVec`, and `len`
is the number of values — or it stops with the `unwrap` panic of a push or the io error of `close`. -/
theorem history_budget (width bufLen : Nat) (xs : List Word) (h1 : 1 ≤ width) (h2 : width ≤ 64)
    (budget : Option Nat) :
    (∃ w, writeAll width bufLen xs budget = ok w ∧
      w.file = intVecC.ser (IntVec.ofList width (xs.map BitVec.toNat)) ∧
      w.file = [BitVec.ofNat 64 xs.length, BitVec.ofNat 64 width] ++ rawVecC.ser (rawOf width xs) ∧
      w.len = xs.length ∧ w.width = width ∧ w.writer.len = xs.length * width ∧
      w.writer.isOpen = false ∧ close w = ok w) ∨
    (writeAll width bufLen xs budget = fault (.panic .unwrap) ∧ budget ≠ none) ∨
    (writeAll width bufLen xs budget = fault (.err .other) ∧ budget ≠ none) := by
  unfold writeAll
  rw [withBufLen_ok width bufLen budget h1 h2, bind_ok]
  have g0 : Good ⟨0, width, RawWriter.withBufLen [0, 0] (bufLen * width) budget⟩ :=
    ⟨h1, h2, rfl, withBufLen_Good _ _ _⟩
  rcases pushAll_spec xs _ g0 with ⟨w1, hp, g1, hw, hl, e1⟩ | ⟨hp, hb⟩
  · simp only [] at hw hl e1
    rw [hp, bind_ok]
    have hpushed : pushed w1.writer = itemBits width xs := by
      rw [e1.pushed_eq, withBufLen_pushed, List.nil_append]
    unfold close
    rcases closeWith_spec w1.writer g1.isOpen g1.good [BitVec.ofNat 64 w1.len, BitVec.ofNat 64 w1.width]
      with ⟨r, hc, c⟩ | ⟨hc, b, hb, _⟩
    · left
      rw [hc]
      have hfile : r.file = [BitVec.ofNat 64 xs.length, BitVec.ofNat 64 width] ++
          rawVecC.ser (rawOf width xs) := by
        rw [c.file_eq, hpushed, rawOf_eq_ofBits width h1 h2, hl, hw, Nat.zero_add]
      refine ⟨_, rfl, ?_, hfile, by simp [hl], hw, ?_, c.isOpen, ?_⟩
      · show r.file = _
        rw [hfile, ofList_eq]
        rfl
      · show r.len = _
        rw [c.len_eq, g1.good.len_eq, hpushed]
        simp [itemBits, intBits]
        clear hp hc hfile c e1 hpushed hl
        induction xs with
        | nil => simp
        | cons x xs ih => simp [ih, Nat.add_mul]; omega
      · simp only [bind_ok, pure_eq]
        rw [closeWith_closed r _ c.isOpen]
        rfl
    · right; right
      rw [hc]
      refine ⟨rfl, fun h => ?_⟩
      have := e1.budget_none h
      rw [hb] at this; cases this
  · right; left
    rw [hp, bind_fault]
    exact ⟨rfl, hb⟩

/-- **IntWriter history theorem** (unlimited sink) -/
theorem history (width bufLen : Nat) (xs : List Word) (h1 : 1 ≤ width) (h2 : width ≤ 64) :
    ∃ w, writeAll width bufLen xs = ok w ∧
      w.file = intVecC.ser (IntVec.ofList width (xs.map BitVec.toNat)) ∧
      w.file = [BitVec.ofNat 64 xs.length, BitVec.ofNat 64 width] ++ rawVecC.ser (rawOf width xs) ∧
      w.len = xs.length ∧ close w = ok w := by
  rcases history_budget width bufLen xs h1 h2 none with ⟨w, h, f1, f2, l, _, _, _, c⟩ | ⟨_, h⟩ | ⟨_, h⟩
  · exact ⟨w, h, f1, f2, l, c⟩
  · exact absurd rfl h
  · exact absurd rfl h

end IntWriter

end Sds
