/-
Proofs/Tables: every entry of the four lookup tables *as extracted from the source on this run*
equals its mathematical definition.  Whole-table `decide +kernel` (one pass over the list), lifted to
indexed statements by `checkTable_get`.
-/
import Sds.Proofs.Bits

namespace Sds
open Outcome Generated

/-- one-pass table check: entry `i` equals `f i` for the whole list -/
def checkTable (f : Nat → Nat) : List Nat → Nat → Bool
  | [], _ => true
  | x :: xs, i => (x == f i) && checkTable f xs (i + 1)

theorem checkTable_get (f : Nat → Nat) : ∀ (t : List Nat) (s : Nat), checkTable f t s = true →
    ∀ i, i < t.length → t[i]? = some (f (s + i))
  | [], _, _, i, hi => by simp at hi
  | x :: xs, s, h, i, hi => by
    simp only [checkTable, Bool.and_eq_true, beq_iff_eq] at h
    cases i with
    | zero => simp [h.1]
    | succ j =>
      have := checkTable_get f xs (s + 1) h.2 j (by simpa using hi)
      simp only [List.getElem?_cons_succ, this]
      congr 2; omega

/-! ### specifications of the table entries -/

def lowSetNat (n : Nat) : Nat := 2 ^ n - 1
def highSetNat (n : Nat) : Nat := 2 ^ 64 - 2 ^ (64 - n)
/-- each byte contains `128 - i` -/
def psOverflowNat (i : Nat) : Nat := (128 - i) * 0x0101010101010101

def byteBits (x : Nat) : List Bool := (List.range 8).map fun i => x.testBit i
/-- in-byte select; 0 where the rank is not below the population count (the table's filler) -/
def selectInByteNat (idx : Nat) : Nat := (selectBits (byteBits (idx % 256)) (idx / 256)).getD 0

theorem LOW_SET_ok : checkTable lowSetNat LOW_SET 0 = true ∧ LOW_SET.length = 65 := by decide +kernel
theorem HIGH_SET_ok : checkTable highSetNat HIGH_SET 0 = true ∧ HIGH_SET.length = 65 := by decide +kernel
theorem PS_OVERFLOW_ok : checkTable psOverflowNat PS_OVERFLOW 0 = true ∧ PS_OVERFLOW.length = 65 := by
  decide +kernel
theorem SELECT_IN_BYTE_ok :
    checkTable selectInByteNat SELECT_IN_BYTE 0 = true ∧ SELECT_IN_BYTE.length = 2048 := by
  decide +kernel

theorem LOW_SET_get (n : Nat) (h : n ≤ 64) : LOW_SET[n]? = some (2 ^ n - 1) := by
  have := checkTable_get _ _ _ LOW_SET_ok.1 n (by rw [LOW_SET_ok.2]; omega)
  simpa [lowSetNat] using this

theorem HIGH_SET_get (n : Nat) (h : n ≤ 64) : HIGH_SET[n]? = some (2 ^ 64 - 2 ^ (64 - n)) := by
  have := checkTable_get _ _ _ HIGH_SET_ok.1 n (by rw [HIGH_SET_ok.2]; omega)
  simpa [highSetNat] using this

theorem PS_OVERFLOW_get (i : Nat) (h : i ≤ 64) : PS_OVERFLOW[i]? = some ((128 - i) * 0x0101010101010101) := by
  have := checkTable_get _ _ _ PS_OVERFLOW_ok.1 i (by rw [PS_OVERFLOW_ok.2]; omega)
  simpa [psOverflowNat] using this

theorem SELECT_IN_BYTE_get (idx : Nat) (h : idx < 2048) :
    SELECT_IN_BYTE[idx]? = some (selectInByteNat idx) := by
  have := checkTable_get _ _ _ SELECT_IN_BYTE_ok.1 idx (by rw [SELECT_IN_BYTE_ok.2]; exact h)
  simpa using this

/-- `bits::low_set(n)` (checked table read) returns the mathematical mask on its documented domain -/
theorem lowSetT_eq (n : Nat) (h : n ≤ 64) : lowSetT n = ok (lowSet n) := by
  simp [lowSetT, tableC, LOW_SET_get n h, lowSet]

theorem lowSetU_eq (n : Nat) (h : n ≤ 64) : lowSetU n = ok (lowSet n) := by
  simp [lowSetU, tableU, LOW_SET_get n h, lowSet]

/-- outside the domain the checked read panics and the unchecked read is out of bounds -/
theorem lowSetT_out (n : Nat) (h : 64 < n) : lowSetT n = fault (.panic .index) := by
  have : LOW_SET[n]? = none := by
    apply List.getElem?_eq_none; rw [LOW_SET_ok.2]; omega
  simp [lowSetT, tableC, this]

theorem lowSetU_out (n : Nat) (h : 64 < n) : lowSetU n = fault .oob := by
  have : LOW_SET[n]? = none := by
    apply List.getElem?_eq_none; rw [LOW_SET_ok.2]; omega
  simp [lowSetU, tableU, this]

theorem highSet_eq_ofNat (n : Nat) (h : n ≤ 64) : highSet n = BitVec.ofNat 64 (2 ^ 64 - 2 ^ (64 - n)) := by
  apply BitVec.eq_of_getLsbD_eq
  intro i hi
  rw [highSet_getLsbD _ _ hi, BitVec.getLsbD_ofNat]
  simp only [hi, decide_true, Bool.true_and]
  -- 2^64 - 2^k has exactly the bits k..63 set
  have hk : 64 - n ≤ 64 := by omega
  generalize 64 - n = k at hk ⊢
  have e : 2 ^ 64 - 2 ^ k = 2 ^ k * (2 ^ (64 - k) - 1) := by
    rw [Nat.mul_sub, Nat.mul_one, ← Nat.pow_add]; congr 2; omega
  rw [e]
  by_cases hki : k ≤ i
  · rw [Nat.testBit_two_pow_mul]
    simp only [hki, decide_true, Bool.true_and, Nat.testBit_two_pow_sub_one]
    simp; omega
  · rw [Nat.testBit_two_pow_mul]
    simp [hki]

theorem highSetT_eq (n : Nat) (h : n ≤ 64) : highSetT n = ok (highSet n) := by
  simp [highSetT, tableC, HIGH_SET_get n h, highSet_eq_ofNat n h]

theorem highSetU_eq (n : Nat) (h : n ≤ 64) : highSetU n = ok (highSet n) := by
  simp [highSetU, tableU, HIGH_SET_get n h, highSet_eq_ofNat n h]

end Sds
