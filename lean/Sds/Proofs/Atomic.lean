/-
Proofs/Atomic: uniqueness of the names handed out by `temp_file_name` under every interleaving,
when the access to the counter is one atomic fetch-and-add; and a duplicating schedule for the
load-then-store variant.
-/
import Sds.Model.Atomic

namespace Sds

/-! ### one step of the single-RMW program -/

/-- every thread is between calls -/
def AllPc0 (s : AtomSt) : Prop := ∀ th ∈ s.threads, th.pc = 0

theorem step_single (k : Nat) (s : AtomSt) (t : Nat) (h : AllPc0 s) :
    stepThread [AOp.fetchAdd k] 0 s t =
      if t < s.threads.length then
        { counter := s.counter + k
          threads := s.threads.set t { pc := 0, reg := s.counter, res := s.counter }
          out := s.out ++ [(t, s.counter)] }
      else s := by
  unfold stepThread
  by_cases ht : t < s.threads.length
  · have hpc : (s.threads[t]).pc = 0 := h _ (List.getElem_mem ht)
    simp [ht, hpc, execOp]
  · simp [ht]

theorem step_single_pc0 (k : Nat) (s : AtomSt) (t : Nat) (h : AllPc0 s) :
    AllPc0 (stepThread [AOp.fetchAdd k] 0 s t) := by
  rw [step_single k s t h]
  split
  · intro th hth
    rcases List.mem_or_eq_of_mem_set hth with h1 | h1
    · exact h th h1
    · subst h1; rfl
  · exact h

theorem step_single_len (k : Nat) (s : AtomSt) (t : Nat) (h : AllPc0 s) :
    (stepThread [AOp.fetchAdd k] 0 s t).threads.length = s.threads.length := by
  rw [step_single k s t h]
  split <;> simp

/-- the invariant: all threads at pc 0, the counter is `k * n` and the names so far are `0, k, …, k*(n-1)` -/
structure Inv (k : Nat) (nthreads : Nat) (n : Nat) (s : AtomSt) : Prop where
  pc0 : AllPc0 s
  len : s.threads.length = nthreads
  ctr : s.counter = k * n
  names : s.out.map (·.2) = (List.range n).map (k * ·)

theorem Inv.step {k nthreads n : Nat} {s : AtomSt} (h : Inv k nthreads n s) (t : Nat) :
    Inv k nthreads (n + if t < nthreads then 1 else 0) (stepThread [AOp.fetchAdd k] 0 s t) := by
  refine ⟨step_single_pc0 k s t h.pc0, ?_, ?_, ?_⟩
  · rw [step_single_len k s t h.pc0, h.len]
  · rw [step_single k s t h.pc0, h.len]
    split
    · simp [h.ctr, Nat.mul_add]
    · simp [h.ctr]
  · rw [step_single k s t h.pc0, h.len]
    split
    · simp [h.names, h.ctr, List.range_succ]
    · simp [h.names]

theorem Inv.run {k nthreads : Nat} (sched : List Nat) {n : Nat} {s : AtomSt} (h : Inv k nthreads n s) :
    Inv k nthreads (n + (sched.filter (· < nthreads)).length)
      (sched.foldl (stepThread [AOp.fetchAdd k] 0) s) := by
  induction sched generalizing n s with
  | nil => simpa using h
  | cons t ts ih =>
    have := ih (h.step t)
    rw [List.foldl_cons]
    by_cases ht : t < nthreads
    · simp only [ht, if_true] at this
      simp only [List.filter_cons, ht, decide_true, if_true, List.length_cons]
      rw [show n + ((ts.filter (· < nthreads)).length + 1) = n + 1 + (ts.filter (· < nthreads)).length by omega]
      exact this
    · simp only [ht, if_false, Nat.add_zero] at this
      simpa [List.filter_cons, ht] using this

theorem Inv.init (k nthreads : Nat) : Inv k nthreads 0 (initAtom nthreads) := by
  refine ⟨?_, by simp [initAtom], by simp [initAtom], by simp [initAtom]⟩
  intro th hth
  simp only [initAtom] at hth
  rw [List.eq_of_mem_replicate hth]

/-- closed form of the names: `0, k, 2k, …`, one per scheduled step of an existing thread -/
theorem namesOf_single (k nthreads : Nat) (sched : List Nat) :
    namesOf [AOp.fetchAdd k] 0 nthreads sched =
      (List.range (sched.filter (· < nthreads)).length).map (k * ·) := by
  have := (Inv.run sched (Inv.init k nthreads)).names
  simpa [namesOf, runSchedule] using this

/-! ### (c) contiguous range, one name per step -/

theorem single_rmw_length (k nthreads : Nat) (sched : List Nat) :
    (namesOf [AOp.fetchAdd k] 0 nthreads sched).length = (sched.filter (· < nthreads)).length := by
  rw [namesOf_single]; simp

theorem single_rmw_get (k nthreads : Nat) (sched : List Nat) (i : Nat)
    (hi : i < (namesOf [AOp.fetchAdd k] 0 nthreads sched).length) :
    (namesOf [AOp.fetchAdd k] 0 nthreads sched)[i]? = some (k * i) := by
  rw [single_rmw_length] at hi
  rw [namesOf_single]
  simp [hi]

/-- the shared counter ends at `k *` (number of names handed out) -/
theorem single_rmw_counter (k nthreads : Nat) (sched : List Nat) :
    (runSchedule [AOp.fetchAdd k] 0 nthreads sched).counter =
      k * (namesOf [AOp.fetchAdd k] 0 nthreads sched).length := by
  rw [single_rmw_length]
  have := (Inv.run sched (Inv.init k nthreads)).ctr
  simpa [runSchedule] using this

/-! ### (a) strictly increasing, (b) no duplicates -/

theorem single_rmw_strictly_increasing (k : Nat) (hk : 0 < k) (nthreads : Nat) (sched : List Nat) :
    (namesOf [AOp.fetchAdd k] 0 nthreads sched).Pairwise (· < ·) := by
  rw [namesOf_single, List.pairwise_map]
  refine List.Pairwise.imp ?_ List.pairwise_lt_range
  intro a b hab
  exact Nat.mul_lt_mul_of_pos_left hab hk

theorem single_rmw_nodup (k : Nat) (hk : 0 < k) (nthreads : Nat) (sched : List Nat) :
    (namesOf [AOp.fetchAdd k] 0 nthreads sched).Nodup := by
  refine List.Pairwise.imp ?_ (single_rmw_strictly_increasing k hk nthreads sched)
  intro a b hab
  exact Nat.ne_of_lt hab

theorem isSingleRMW_elim {prog : List AOp} {r : Nat} (h : isSingleRMW prog (some r) = true) :
    ∃ k, 0 < k ∧ prog = [AOp.fetchAdd k] ∧ r = 0 := by
  unfold isSingleRMW at h
  split at h
  · rename_i k heq
    injection heq with heq
    exact ⟨k, by simpa using h, rfl, heq⟩
  · exact absurd h (by simp)

theorem unique_of_isSingleRMW (prog : List AOp) (r : Nat) (h : isSingleRMW prog (some r) = true) :
    ∀ nthreads sched, (namesOf prog r nthreads sched).Nodup := by
  obtain ⟨k, hk, rfl, rfl⟩ := isSingleRMW_elim h
  exact single_rmw_nodup k hk

theorem increasing_of_isSingleRMW (prog : List AOp) (r : Nat) (h : isSingleRMW prog (some r) = true) :
    ∀ nthreads sched, (namesOf prog r nthreads sched).Pairwise (· < ·) := by
  obtain ⟨k, hk, rfl, rfl⟩ := isSingleRMW_elim h
  exact single_rmw_strictly_increasing k hk

/-- `hasDup` decides `¬ Nodup` -/
theorem hasDup_eq_false_iff (l : List Nat) : hasDup l = false ↔ l.Nodup := by
  induction l with
  | nil => simp [hasDup]
  | cons x xs ih => simp [hasDup, ih, List.nodup_cons]

theorem no_dup_of_isSingleRMW (prog : List AOp) (r : Nat) (h : isSingleRMW prog (some r) = true)
    (nthreads : Nat) (sched : List Nat) : hasDup (namesOf prog r nthreads sched) = false :=
  (hasDup_eq_false_iff _).2 (unique_of_isSingleRMW prog r h nthreads sched)

/-! ### (d) negative witness: load, then store reg+1 -/

theorem load_store_duplicates :
    hasDup (namesOf [.load, .storeRegPlus 1] 0 2 [0, 1, 0, 1]) = true := by decide

theorem load_store_duplicates_names :
    namesOf [.load, .storeRegPlus 1] 0 2 [0, 1, 0, 1] = [0, 0] := by decide

theorem load_store_not_nodup :
    ¬ (namesOf [.load, .storeRegPlus 1] 0 2 [0, 1, 0, 1]).Nodup := by
  rw [← hasDup_eq_false_iff, load_store_duplicates]; simp

end Sds
