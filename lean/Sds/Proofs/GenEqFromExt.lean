/-
Proofs/GenEqFromExt: `impl Extend<u64> for IntVector`, `From<Vec<u64>>`, `FromIterator<u64>` of int_vector.rs and
`FromIterator<bool> for BitVector`, as TRANSLATED statement by statement from the source (Generated/FnsFromExt.lean),
against the hand-written model.  The capacity of the `Vec` is the arbitrary parameter `cap`; every theorem holds for
EVERY `cap`.

* `int_extend_eq : gen_IntVector_extend_u64 m cap v iter = ok (v.extend iter)` under `v.WF` and
  `(v.len + iter.length) * v.width + 63 < U64` (`reserve(lower_bound)` computes `bits_to_words(data.len +
  lower_bound * width)`, the last `push` needs the same bound).  `int_extend_eq_of`: any invariant of the pushes.
  The `while let Some(value) = iter.next()` is `fe_ext_loop_of`, an induction on the items left, fuel `len + 1`.
  Sharp: `int_extend_checked_overflow` (beyond the bound `reserve` panics; ≥ 2^64 - 63 bits of content),
  `int_extend_ne_wf` (`WF` is needed: width 65 / a bit length without words index out of bounds).
* `int_from_vec_eq : gen_IntVector_from_vec_u64 m cap a = ok (IntVec.ofList 64 (a.toList.map (·.toNat)))` under
  `a.size * 64 + 63 < U64` (`with_capacity(len, 64)`); `IntVec.ofList 64` is what the driver builds for `from_vec`;
  `int_from_vec_eq'`: `= ok (IntVec.default.extend a.toList)`.  `unwrap()` never panics (width 64 is accepted).
* `int_from_iter_eq : gen_IntVector_from_iter_u64 m cap iter = ok (IntVec.ofList 64 (iter.map (·.toNat)))` under
  `iter.length * 64 + 63 < U64`.
* `bv_from_iter_eq : gen_BitVector_from_iter m bits = ok (BitVector.ofRaw (RawVec.ofBits bits))` under
  `bits.length + 63 < U64` (`with_capacity(lower_bound)`; covers every `push_bit` and `count_ones`); this is the
  driver's `from_bits`.  Sharp: `bv_from_iter_checked_overflow`.
  NO divergence between the code and the model was found.
-/
import Sds.Generated.FnsFromExt
import Sds.Proofs.GenFns
import Sds.Proofs.GenEqVec
import Sds.Proofs.GenEqVec2
import Sds.Proofs.GenEqVec3
import Sds.Proofs.GenEqView
import Sds.Proofs.GenEqConstr4
import Sds.Proofs.IntVec
import Sds.Proofs.RawVec

set_option linter.unusedVariables false

namespace Sds.GenEq
open Sds Outcome Generated

theorem fe_obind_ok {α β : Type} (a : α) (f : α → Outcome β) : (ok a).bind f = f a := rfl
theorem fe_bind_def {α β : Type} (x : Outcome α) (f : α → Outcome β) : (x >>= f) = x.bind f := rfl

theorem fe_loopM_succ {σ ρ : Type} (n : Nat) (step : σ → Outcome (Ctl σ ρ)) (s : σ) :
    loopM (n + 1) step s = (step s).bind (fun c => match c with | .next s' => loopM n step s' | r => ok r) := rfl

/-! ### `impl Extend<u64> for IntVector` -/

/-- the body of `while let Some(value) = iter.next() { self.push(value) }`, verbatim from `gen_IntVector_extend_u64` -/
def fe_extStep (m : Mode) :
    List Word × RawVec × Nat × Nat → Outcome (Ctl (List Word × RawVec × Nat × Nat) IntVec) :=
  fun (iter, self_data, self_len, self_width) => do
      let t2 := (iter.head?, iter.tail)
      let iter := t2.2
      match t2.1 with
      | none => pure (Ctl.brk (iter, self_data, self_len, self_width))
      | some value => do
          let t3 ← gen_IntVector_push m (⟨self_len, self_width, self_data⟩ : IntVec) value
          let self_len := t3.len
          let self_width := t3.width
          let self_data := t3.data
          pure (Ctl.next (iter, self_data, self_len, self_width))

theorem fe_extend_cons (u : IntVec) (x : Word) (xs : List Word) : u.extend (x :: xs) = (u.push x).extend xs := rfl

/-- the loop, by induction on the items left, for any invariant `I` (indexed by the items left) under which one
`push` of the code is the model's `push` -/
theorem fe_ext_loop_of (m : Mode) (I : IntVec → List Word → Prop)
    (hI : ∀ u x xs, I u (x :: xs) → gen_IntVector_push m u x = ok (u.push x) ∧ I (u.push x) xs) :
    ∀ (xs : List Word) (u : IntVec) (fuel : Nat), I u xs → xs.length < fuel →
      loopM fuel (fe_extStep m) (xs, u.data, u.len, u.width) =
        ok (Ctl.brk ([], (u.extend xs).data, (u.extend xs).len, (u.extend xs).width)) := by
  intro xs
  induction xs with
  | nil =>
    intro u fuel hu hf
    obtain ⟨f, rfl⟩ : ∃ f, fuel = f + 1 := ⟨fuel - 1, by simp at hf; omega⟩
    rfl
  | cons x xs ih =>
    intro u fuel hu hf
    obtain ⟨f, rfl⟩ : ∃ f, fuel = f + 1 := ⟨fuel - 1, by simp at hf; omega⟩
    obtain ⟨hp, hu'⟩ := hI u x xs hu
    have hp' : gen_IntVector_push m ⟨u.len, u.width, u.data⟩ x = ok (u.push x) := hp
    have e := ih (u.push x) f hu' (by simp at hf; omega)
    rw [fe_extend_cons, ← e, fe_loopM_succ]
    simp only [fe_extStep, List.head?_cons, List.tail_cons, hp', fe_bind_def, fe_obind_ok, pure_eq]

/-- `extend`, general form: `reserve(lower_bound)` succeeds and `I` is an invariant of the pushes -/
theorem int_extend_eq_of (m : Mode) (cap : Nat) (v : IntVec) (iter : List Word)
    (hr : m = .wrapping ∨ v.data.len + iter.length * v.width + 63 < U64)
    (I : IntVec → List Word → Prop) (hv : I v iter)
    (hI : ∀ u x xs, I u (x :: xs) → gen_IntVector_push m u x = ok (u.push x) ∧ I (u.push x) xs) :
    gen_IntVector_extend_u64 m cap v iter = ok (v.extend iter) := by
  have e : gen_IntVector_extend_u64 m cap v iter =
      (gen_IntVector_reserve m cap ⟨v.len, v.width, v.data⟩ iter.length).bind (fun t1 =>
        (loopM (ρ := IntVec) (iter.length + 1) (fe_extStep m) (iter, t1.data, t1.len, t1.width)).bind (fun lr1 =>
          match lr1 with
          | .ret _ => fault .fuel
          | .next _ => fault .fuel
          | .brk (_, self_data, self_len, self_width) => ok (⟨self_len, self_width, self_data⟩ : IntVec))) := rfl
  have hr' : gen_IntVector_reserve m cap ⟨v.len, v.width, v.data⟩ iter.length = ok v :=
    (int_reserve_ok_iff m cap v _).2 hr
  have hl := fe_ext_loop_of m I hI iter v (iter.length + 1) hv (by omega)
  rw [e, hr', fe_obind_ok, hl]
  rfl

/-- `Extend<u64>` on a well-formed vector, for every capacity of the `Vec`: the only hypothesis is that the bit length
of the final content, rounded up to words, is a `usize` -/
theorem int_extend_eq (m : Mode) (cap : Nat) (v : IntVec) (iter : List Word) (hwf : v.WF)
    (hb : (v.len + iter.length) * v.width + 63 < U64) :
    gen_IntVector_extend_u64 m cap v iter = ok (v.extend iter) := by
  apply int_extend_eq_of m cap v iter _
    (fun u xs => u.WF ∧ u.width = v.width ∧ u.len + xs.length = v.len + iter.length) ⟨hwf, rfl, rfl⟩
  · intro u x xs ⟨huwf, huw, hul⟩
    have hle : (u.len + 1) * v.width ≤ (v.len + iter.length) * v.width :=
      Nat.mul_le_mul_right _ (by simp at hul; omega)
    refine ⟨int_push_eq m u x huwf (by rw [huw]; omega), IntVec.push_WF huwf x, huw, ?_⟩
    show u.len + 1 + xs.length = _
    simp at hul; omega
  · right
    rw [hwf.2.2.1, ← Nat.add_mul]; exact hb

/-! ### `From<Vec<u64>>`, `FromIterator<u64>` -/

theorem fe_new64 : IntVec.new 64 = ok ⟨0, 64, RawVec.empty⟩ := by decide

theorem fe_map_ofNat_toNat (l : List Word) : (l.map (·.toNat)).map (BitVec.ofNat 64) = l := by
  rw [List.map_map]
  conv => rhs; rw [← List.map_id l]
  apply List.map_congr_left
  intro x _
  simp

/-- the model's "64-bit vector holding these words" (what the driver builds for `from_vec`) is the extension of the
empty 64-bit vector -/
theorem fe_ofList_words (l : List Word) :
    IntVec.ofList 64 (l.map (·.toNat)) = (⟨0, 64, RawVec.empty⟩ : IntVec).extend l := by
  unfold IntVec.ofList
  rw [fe_map_ofNat_toNat]

/-- `IntVector::from(Vec<u64>)`: `with_capacity(len, 64).unwrap()`, then `extend`.  The bound is the one of
`with_capacity` (`len * 64` and its rounding to words in `usize`), which is also the bound of the pushes. -/
theorem int_from_vec_eq (m : Mode) (cap : Nat) (a : Array Word) (hb : a.size * 64 + 63 < U64) :
    gen_IntVector_from_vec_u64 m cap a = ok (IntVec.ofList 64 (a.toList.map (·.toNat))) := by
  unfold gen_IntVector_from_vec_u64
  rw [int_with_capacity_eq m a.size 64 hb]
  unfold IntVec.withCapacity
  rw [fe_new64, fe_ofList_words]
  have he := int_extend_eq m cap ⟨0, 64, RawVec.empty⟩ a.toList (IntVec.empty_WF 64 (by decide) (by decide))
    (by simpa using hb)
  simp only [unwrapRes, bind_ok, he]
  rfl

/-- the same result in the model's `extend` terms -/
theorem int_from_vec_eq' (m : Mode) (cap : Nat) (a : Array Word) (hb : a.size * 64 + 63 < U64) :
    gen_IntVector_from_vec_u64 m cap a = ok (IntVec.default.extend a.toList) := by
  rw [int_from_vec_eq m cap a hb, fe_ofList_words]; rfl

/-- `IntVector::from_iter` over `u64` items: `new(64).unwrap()`, then `extend` -/
theorem int_from_iter_eq (m : Mode) (cap : Nat) (iter : List Word) (hb : iter.length * 64 + 63 < U64) :
    gen_IntVector_from_iter_u64 m cap iter = ok (IntVec.ofList 64 (iter.map (·.toNat))) := by
  unfold gen_IntVector_from_iter_u64
  rw [int_new_eq, fe_new64, fe_ofList_words]
  have he := int_extend_eq m cap ⟨0, 64, RawVec.empty⟩ iter (IntVec.empty_WF 64 (by decide) (by decide))
    (by simpa using hb)
  simp only [unwrapRes, bind_ok, he]
  rfl

theorem int_from_iter_eq' (m : Mode) (cap : Nat) (iter : List Word) (hb : iter.length * 64 + 63 < U64) :
    gen_IntVector_from_iter_u64 m cap iter = ok (IntVec.default.extend iter) := by
  rw [int_from_iter_eq m cap iter hb, fe_ofList_words]; rfl

/-- `from(Vec)` and `from_iter` build the same vector -/
theorem int_from_vec_eq_from_iter (m : Mode) (cap cap' : Nat) (a : Array Word) (hb : a.size * 64 + 63 < U64) :
    gen_IntVector_from_vec_u64 m cap a = gen_IntVector_from_iter_u64 m cap' a.toList := by
  rw [int_from_vec_eq m cap a hb, int_from_iter_eq m cap' a.toList (by simpa using hb)]

/-! ### `FromIterator<bool> for BitVector` -/

/-- the body of `for value in iter { data.push_bit(value) }`, verbatim from `gen_BitVector_from_iter` -/
def fe_bvStep (m : Mode) (t2 : List Bool) : Nat × RawVec → Outcome (Ctl (Nat × RawVec) BitVector) :=
  fun (for_i1, data) => do
      if (decide (for_i1 < t2.length)) then do
        let value := t2.getD for_i1 false
        let t3 ← gen_RawVector_push_bit m data value
        let data := t3
        pure (Ctl.next (for_i1 + 1, data))
      else do
        pure (Ctl.brk (for_i1, data))

theorem fe_len_ofBits (B : List Bool) : (RawVec.ofBits B).len = B.length := by
  have h : ∀ (B : List Bool) (v : RawVec), (B.foldl RawVec.pushBit v).len = v.len + B.length := by
    intro B
    induction B with
    | nil => intro v; rfl
    | cons b B ih => intro v; rw [List.foldl_cons, ih, RawVec.len_pushBit, List.length_cons]; omega
  have := h B RawVec.empty
  unfold RawVec.ofBits
  rw [this]; show 0 + _ = _; omega

theorem fe_ofBits_snoc (pre : List Bool) (x : Bool) :
    RawVec.ofBits (pre ++ [x]) = (RawVec.ofBits pre).pushBit x := by
  unfold RawVec.ofBits
  rw [List.foldl_append]; rfl

/-- the loop: after the items `pre` the state is `(pre.length, ofBits pre)` -/
theorem fe_bv_loop (m : Mode) (bits : List Bool) (hb : bits.length < U64) :
    ∀ (suf pre : List Bool) (fuel : Nat), bits = pre ++ suf → suf.length < fuel →
      loopM fuel (fe_bvStep m bits) (pre.length, RawVec.ofBits pre) =
        ok (Ctl.brk (bits.length, RawVec.ofBits bits)) := by
  intro suf
  induction suf with
  | nil =>
    intro pre fuel hp hf
    obtain ⟨f, rfl⟩ : ∃ f, fuel = f + 1 := ⟨fuel - 1, by simp at hf; omega⟩
    rw [List.append_nil] at hp
    subst hp
    rw [fe_loopM_succ]
    simp [fe_bvStep]
    rfl
  | cons x suf ih =>
    intro pre fuel hp hf
    obtain ⟨f, rfl⟩ : ∃ f, fuel = f + 1 := ⟨fuel - 1, by simp at hf; omega⟩
    have hlen : bits.length = pre.length + (suf.length + 1) := by rw [hp]; simp
    have hlt : pre.length < bits.length := by omega
    have hget : bits.getD pre.length false = x := by rw [hp]; simp
    have hwf := RawVec.ofBits_WF pre
    have hl := fe_len_ofBits pre
    have hpush : gen_RawVector_push_bit m (RawVec.ofBits pre) x = ok ((RawVec.ofBits pre).pushBit x) :=
      raw_push_bit_eq m _ x (by have := hwf.1; omega) (by omega)
    have e := ih (pre ++ [x]) f (by rw [hp]; simp) (by simp at hf; omega)
    rw [fe_ofBits_snoc, List.length_append, List.length_singleton] at e
    rw [← e, fe_loopM_succ]
    simp only [fe_bvStep, hlt, decide_true, if_true, hget, hpush, fe_bind_def, fe_obind_ok, pure_eq]

/-- `BitVector::from_iter` over `bool` items: `with_capacity(lower_bound)`, a `push_bit` per item, `count_ones`.
The bound is the one of `with_capacity` (`bits_to_words(len)`), which covers every `push_bit` and `count_ones`. -/
theorem bv_from_iter_eq (m : Mode) (bits : List Bool) (hb : bits.length + 63 < U64) :
    gen_BitVector_from_iter m bits = ok (BitVector.ofRaw (RawVec.ofBits bits)) := by
  have e : gen_BitVector_from_iter m bits =
      (gen_RawVector_with_capacity m bits.length).bind (fun t1 =>
        (loopM (ρ := BitVector) (bits.length - 0 + 1) (fe_bvStep m bits) (0, t1)).bind (fun lr1 =>
          match lr1 with
          | .ret _ => fault .fuel
          | .next _ => fault .fuel
          | .brk (_, data) =>
            (gen_RawVector_count_ones m data).bind (fun t4 =>
              ok ({ ones := t4, data := data, rank := none, select := none, selectZero := none } : BitVector)))) :=
    rfl
  have hl := fe_bv_loop m bits (by omega) bits [] (bits.length - 0 + 1) rfl (by omega)
  have hc := raw_count_ones_eq_of_wf m (RawVec.ofBits bits) (RawVec.ofBits_WF bits)
    (by rw [fe_len_ofBits]; exact hb)
  rw [e, raw_with_capacity_eq m bits.length hb, fe_obind_ok]
  show (loopM (bits.length - 0 + 1) (fe_bvStep m bits) (([] : List Bool).length, RawVec.ofBits [])).bind _ = _
  rw [hl, fe_obind_ok]
  simp only [hc, fe_obind_ok]
  rfl

/-! ### sharpness -/

/-- `hb` of `int_extend_eq` is sharp with overflow checks: beyond it `reserve(lower_bound)` panics where the total
model returns a value.  Only reachable with a final content of at least `2^64 - 63` bits. -/
theorem int_extend_checked_overflow (cap : Nat) (v : IntVec) (iter : List Word)
    (h : ¬ v.data.len + iter.length * v.width + 63 < U64) :
    gen_IntVector_extend_u64 .checked cap v iter = fault (.panic .overflow) := by
  have e : gen_IntVector_extend_u64 .checked cap v iter =
      (gen_IntVector_reserve .checked cap ⟨v.len, v.width, v.data⟩ iter.length).bind (fun t1 =>
        (loopM (ρ := IntVec) (iter.length + 1) (fe_extStep .checked) (iter, t1.data, t1.len, t1.width)).bind
          (fun lr1 =>
          match lr1 with
          | .ret _ => fault .fuel
          | .next _ => fault .fuel
          | .brk (_, self_data, self_len, self_width) => ok (⟨self_len, self_width, self_data⟩ : IntVec))) := rfl
  rw [e, show (⟨v.len, v.width, v.data⟩ : IntVec) = v from rfl, int_reserve_checked_overflow cap v _ h]
  rfl

/-- `hb` of `bv_from_iter_eq` is sharp with overflow checks: `with_capacity(lower_bound)` panics in `bits_to_words` -/
theorem bv_from_iter_checked_overflow (bits : List Bool) (h : ¬ bits.length + 63 < U64) :
    gen_BitVector_from_iter .checked bits = fault (.panic .overflow) := by
  have e : gen_BitVector_from_iter .checked bits =
      (gen_RawVector_with_capacity .checked bits.length).bind (fun t1 =>
        (loopM (ρ := BitVector) (bits.length - 0 + 1) (fe_bvStep .checked bits) (0, t1)).bind (fun lr1 =>
          match lr1 with
          | .ret _ => fault .fuel
          | .next _ => fault .fuel
          | .brk (_, data) =>
            (gen_RawVector_count_ones .checked data).bind (fun t4 =>
              ok ({ ones := t4, data := data, rank := none, select := none, selectZero := none } : BitVector)))) :=
    rfl
  rw [e, raw_with_capacity_eq']
  unfold addM
  rw [if_neg h]; rfl

/-- `hwf` of `int_extend_eq` is needed: on states no constructor produces (width 65; a bit length without its words)
the code indexes out of bounds where the total model returns a value; on some other ill-formed states (a length that
contradicts the buffer, width 0) the two still agree -/
theorem int_extend_ne_wf :
    gen_IntVector_extend_u64 .checked 0 ⟨0, 65, RawVec.empty⟩ [1#64] = fault (.panic .index) ∧
    gen_IntVector_extend_u64 .checked 0 ⟨0, 8, ⟨64, #[]⟩⟩ [1#64] = fault (.panic .index) ∧
    gen_IntVector_extend_u64 .checked 0 ⟨1, 8, RawVec.empty⟩ [1#64]
      = ok ((⟨1, 8, RawVec.empty⟩ : IntVec).extend [1#64]) ∧
    gen_IntVector_extend_u64 .checked 0 ⟨0, 0, RawVec.empty⟩ [1#64]
      = ok ((⟨0, 0, RawVec.empty⟩ : IntVec).extend [1#64]) := by
  decide +kernel

/-- instances, every capacity parameter giving the same result -/
theorem fe_examples :
    gen_IntVector_extend_u64 .checked 0 ⟨0, 5, RawVec.empty⟩ [3#64, 255#64, 17#64]
      = ok ((⟨0, 5, RawVec.empty⟩ : IntVec).extend [3#64, 255#64, 17#64]) ∧
    gen_IntVector_extend_u64 .wrapping 7 ⟨0, 5, RawVec.empty⟩ [3#64, 255#64, 17#64]
      = ok ((⟨0, 5, RawVec.empty⟩ : IntVec).extend [3#64, 255#64, 17#64]) ∧
    gen_IntVector_from_vec_u64 .checked 0 #[1#64, 0xFFFFFFFFFFFFFFFF#64]
      = ok (IntVec.ofList 64 [1, 0xFFFFFFFFFFFFFFFF]) ∧
    gen_IntVector_from_iter_u64 .checked 3 [] = ok (IntVec.ofList 64 []) ∧
    gen_BitVector_from_iter .checked [true, false, true, true]
      = ok (BitVector.ofRaw (RawVec.ofBits [true, false, true, true])) ∧
    gen_BitVector_from_iter .wrapping [] = ok (BitVector.ofRaw RawVec.empty) := by
  decide +kernel

end Sds.GenEq
