/-
Proofs/GenEqVec2: `new`, `with_len`, `pop`, `clear` of `int_vector.rs` as TRANSLATED statement by statement from the
source (Generated/FnsVec2.lean) are equal to the hand-written model definitions of Model/IntVec.lean.

  new, clear : unconditional
  with_len   : `len * width < 2^64` (the capacity `len * width` is computed first; it panics with overflow checks on)
               and `(len - 1) * width + 63 < 2^64` (the word count of the buffer before the last push, in bits, is
               computed by `words_to_bits`); both follow from `len * width + 63 < 2^64`.  No hypothesis on `width`:
               outside `1..64` both sides return the same error.
  pop        : `width ≤ 64`, `data.len ≤ 64 * #words` and `data.len + 63 < 2^64 + width` — all consequences of
               `IntVec.WF` and `len * width + 62 < 2^64`; the relation `data.len = len * width` is not needed.

The `for _ in 0..len` loop of `with_len` is related to the model's fold over `List.range len` by induction on the fuel
(`loop_with_len`); the body `stepWL` is the lambda of the generated code (`gen_with_len_unfold : … := rfl`).
-/
import Sds.Generated.FnsVec2
import Sds.Proofs.GenEqVec
import Sds.Proofs.IntVec

set_option linter.unusedVariables false

namespace Sds.GenEq
open Sds Outcome Generated

/-! ### new, clear -/

theorem int_new_eq (m : Mode) (width : Nat) : gen_IntVector_new m width = IntVec.new width := by
  unfold gen_IntVector_new IntVec.new
  by_cases h : width = 0 ∨ width > 64
  · rw [if_pos h, if_pos (by simpa using h)]
  · rw [if_neg h, if_neg (by simpa using h)]; rfl

theorem int_clear_eq (m : Mode) (v : IntVec) : gen_IntVector_clear m v = ok v.clear := rfl

/-! ### with_len -/

/-- the body of the loop of `with_len` (the lambda of the generated code, by `rfl`) -/
def stepWL (m : Mode) (hi : Nat) (value : Word) (width : Nat) : Nat × RawVec → Outcome (Ctl (Nat × RawVec) IntVec) :=
  fun (for_i1, data) => do
    if (decide (for_i1 < hi)) then do
      let _ := for_i1
      let t2 ← gen_RawVector_push_int m data value width
      let data := t2
      pure (Ctl.next (for_i1 + 1, data))
    else do
      pure (Ctl.brk (for_i1, data))

def finWL (len width : Nat) : Ctl (Nat × RawVec) IntVec → Outcome IntVec
  | .ret _ => fault .fuel
  | .next _ => fault .fuel
  | .brk (_, data) => pure (⟨len, width, data⟩ : IntVec)

theorem gen_with_len_unfold (m : Mode) (len width : Nat) (value : Word) :
    gen_IntVector_with_len m len width value =
      if ((decide (width = 0)) || (decide (width > 64))) then fault (.err .other)
      else (do
        let t1 ← mulM m len width
        let lr1 ← loopM (len - 0 + 1) (stepWL m len value width) (0, RawVec.empty)
        finWL len width lr1) := by
  unfold gen_IntVector_with_len
  split
  · rfl
  · refine congrArg _ (funext fun _ => ?_)
    refine congrArg _ (funext fun lr => ?_)
    cases lr <;> rfl

/-- a fold that ignores the list elements commutes with one more application -/
theorem foldl_ign {α β : Type} (f : β → β) : ∀ (l : List α) (d : β),
    l.foldl (fun d _ => f d) (f d) = f (l.foldl (fun d _ => f d) d)
  | [], _ => rfl
  | _ :: l, d => by simp only [List.foldl_cons]; exact foldl_ign f l (f d)

theorem foldl_range_succ {β : Type} (f : β → β) (n : Nat) (d : β) :
    (List.range (n + 1)).foldl (fun d _ => f d) d = (List.range n).foldl (fun d _ => f d) (f d) := by
  rw [List.range_succ, List.foldl_append, foldl_ign]; rfl

/-- the loop of `with_len` from the state `(i, d)`: it pushes `hi - i` more items and leaves through the `for`
condition.  Invariant: `d` is a well-formed buffer of `i * width` bits. -/
theorem loop_with_len (m : Mode) (hi : Nat) (value : Word) (width : Nat) (hw1 : 1 ≤ width) (hw2 : width ≤ 64)
    (hb : hi * width < U64) (hc : (hi - 1) * width + 63 < U64) :
    ∀ (fuel i : Nat) (d : RawVec), i ≤ hi → hi - i < fuel → d.WF → d.len = i * width →
      loopM fuel (stepWL m hi value width) (i, d) =
        ok (.brk (hi, (List.range (hi - i)).foldl (fun d _ => d.pushInt value width) d)) := by
  intro fuel
  induction fuel with
  | zero => intro i d _ h; omega
  | succ n ih =>
    intro i d hi' hf hwf hlen
    rw [loopM]
    by_cases h : i < hi
    · have h1 : (i + 1) * width ≤ hi * width := Nat.mul_le_mul_right _ h
      have h2 : i * width ≤ (hi - 1) * width := Nat.mul_le_mul_right _ (by omega)
      rw [Nat.succ_mul] at h1
      have hs := hwf.1
      have hp := raw_push_int_eq m d value width hw2 (by omega) (by omega) (by omega)
      have e : hi - i = (hi - (i + 1)) + 1 := by omega
      simp only [stepWL, h, hp, decide_true, if_true, bind_ok, pure_eq]
      rw [e, foldl_range_succ (fun d : RawVec => d.pushInt value width)]
      exact ih (i + 1) _ (by omega) (by omega) (RawVec.pushInt_WF hwf value width hw1 hw2)
        (by rw [RawVec.len_pushInt, hlen, Nat.succ_mul])
    · have e : i = hi := by omega
      subst e
      simp [stepWL]

/-- `with_len`.  `hb`: the capacity `len * width` handed to `RawVector::with_capacity` is a `usize` product (it panics
with overflow checks on: `int_with_len_ne`), and the same bound keeps the bit length below 2^64 at the last push;
`hc`: before the last push the buffer has `⌈(len - 1) * width / 64⌉` words, converted to bits by `words_to_bits`.
Nothing is assumed on `width`: outside `1..64` both sides are the same error. -/
theorem int_with_len_eq (m : Mode) (len width : Nat) (value : Word)
    (hb : len * width < U64) (hc : (len - 1) * width + 63 < U64) :
    gen_IntVector_with_len m len width value = IntVec.withLen len width value := by
  rw [gen_with_len_unfold]
  unfold IntVec.withLen
  by_cases h : width = 0 ∨ width > 64
  · rw [if_pos h, if_pos (by simpa using h)]
  · rw [if_neg h, if_neg (by simpa using h), mulM_ok hb, bind_ok,
      loop_with_len m len value width (by omega) (by omega) hb hc (len - 0 + 1) 0 RawVec.empty
        (Nat.zero_le _) (by omega) RawVec.empty_WF (by simp [RawVec.empty])]
    rfl

/-- the drafted shape: one bound on the bit length -/
theorem int_with_len_eq' (m : Mode) (len width : Nat) (value : Word) (hb : len * width + 63 < U64) :
    gen_IntVector_with_len m len width value = IntVec.withLen len width value :=
  int_with_len_eq m len width value (by omega)
    (by have := Nat.mul_le_mul_right width (Nat.sub_le len 1); omega)

/-! ### pop -/

/-- `pop_int` again, with the hypotheses the proof of `raw_pop_int_eq` really uses: the word count only has to cover
the length, and the bound is on the length AFTER the pop -/
theorem raw_pop_int_eq' (m : Mode) (v : RawVec) (w : Nat) (hw : w ≤ 64) (hs : v.len ≤ 64 * v.data.size)
    (hl : v.len + 63 < U64 + w) : gen_RawVector_pop_int m v w = ok (v.popInt w) := by
  unfold gen_RawVector_pop_int RawVec.popInt
  obtain ⟨len, data⟩ := v
  dsimp only at *
  by_cases hge : len ≥ w
  · by_cases h0 : w = 0
    · simp [h0]
    · have hsu := raw_set_unused_bits_eq m ⟨len - w, resizeArr data ((len - w + 63) / 64) 0#64⟩ false
        (by simp [size_resizeArr])
      have hint := raw_int_eq m ⟨len, data⟩ (len - w) w hw (by omega) (by simp only []; omega)
      simp [hge, h0, subM_ok hge, hint, vbits_to_words_ok m (len - w) (by omega), hsu, vmk_setUnusedBits_data]
  · simp [hge]

/-- `pop`, from what the code needs: the relation `data.len = len * width` between the item count and the buffer plays
no role (both sides decrement `len` independently of the buffer) -/
theorem int_pop_eq' (m : Mode) (v : IntVec) (hw : v.width ≤ 64) (hs : v.data.len ≤ 64 * v.data.data.size)
    (hl : v.data.len + 63 < U64 + v.width) : gen_IntVector_pop m v = ok v.pop := by
  unfold gen_IntVector_pop IntVec.pop
  dsimp only
  rw [raw_pop_int_eq' m v.data v.width hw hs hl]
  by_cases h0 : v.len > 0
  · simp [h0, subM_ok (show 1 ≤ v.len by omega)]
  · simp [h0]

/-- `pop` on a well-formed vector whose bit length leaves room for the rounding `+ 63` of `bits_to_words` (one item
is gone by then, hence `62`) -/
theorem int_pop_eq (m : Mode) (v : IntVec) (hwf : v.WF) (hb : v.len * v.width + 62 < U64) :
    gen_IntVector_pop m v = ok v.pop := by
  obtain ⟨h1, h2, h3, h4, _⟩ := hwf
  exact int_pop_eq' m v h2 (by omega) (by omega)

/-! ### the remaining hypotheses are needed: outside them the code panics where the total model function returns a
value.  (`hc` of `with_len` and `hl` of `pop` can only fail with a buffer of `≥ 2^58` words, which no closed term
evaluates; `hb` fails before the loop starts.) -/

/-- `hb` of `int_with_len_eq`: the capacity `len * width` overflows -/
theorem int_with_len_ne : gen_IntVector_with_len .checked U64 1 0 = fault (.panic .overflow) ∧
    (IntVec.withLen U64 1 0).isOk = true := by decide

/-- `hw` of `int_pop_eq'`: a width above 64 (not an `IntVec.WF` value) -/
theorem int_pop_ne_width : gen_IntVector_pop .checked ⟨1, 65, ⟨65, #[5, 1]⟩⟩ = fault (.panic .overflow) ∧
    IntVec.pop ⟨1, 65, ⟨65, #[5, 1]⟩⟩ = (some 5, ⟨0, 65, ⟨0, #[]⟩⟩) := by decide

/-- `hs` of `int_pop_eq'`: a buffer shorter than its bit length (not an `IntVec.WF` value) -/
theorem int_pop_ne_size : gen_IntVector_pop .checked ⟨1, 1, ⟨1, #[]⟩⟩ = fault (.panic .index) ∧
    gen_IntVector_pop .wrapping ⟨1, 1, ⟨1, #[]⟩⟩ = fault (.panic .index) ∧
    IntVec.pop ⟨1, 1, ⟨1, #[]⟩⟩ = (some 0, ⟨0, 1, ⟨0, #[]⟩⟩) := by decide

/-- the item count and the buffer are popped independently: on a vector with `data.len < width` (not `IntVec.WF`) code
and model both decrement `len` and return `None` -/
example : gen_IntVector_pop .checked ⟨5, 3, ⟨1, #[1]⟩⟩ = ok (none, ⟨4, 3, ⟨1, #[1]⟩⟩) ∧
    IntVec.pop ⟨5, 3, ⟨1, #[1]⟩⟩ = (none, ⟨4, 3, ⟨1, #[1]⟩⟩) := by decide

/-- a run of the translated loop -/
example : gen_IntVector_with_len .checked 3 5 7 = ok ⟨3, 5, ⟨15, #[0x1ce7#64]⟩⟩ := by decide

end Sds.GenEq
